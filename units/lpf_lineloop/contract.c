/* Contracts for the line-buffer management of readLPF (C13), see unit.cpp.
 *
 * MAIN-LOOP INVARIANT  I(buf_size):   cap(buf) == buf_size,  cap(tmp) >= buf_size,  cap(line) >= buf_size,  buf_size >= LEN
 *   (LEN = SOPLEX_LPF_MAX_LINE_LEN of the tree; established by the three spx_alloc calls in front of the loop).
 * region A    pre  I(buf_size)                                   [readgrow;  growstep: the loop-head invariant of the growth loop]
 *             post, when control falls through to the rest of the main loop (not finished, no syntax error):
 *                  I(buf_size'), buf holds a terminator at an index < buf_size', i == 0, pos == buf;
 *             always: buf/tmp/line are live objects whose real sizes are the recorded capacities (so that the clean-up code may
 *                  free them); every byte getline stores lies inside the CURRENT buf (asserted in the stream model).
 * region B1   pre  cap(buf) == buf_size <= cap(tmp), buf[g_len] == 0, pos = buf + off, off <= g_len, i == 0
 *             post tmp[k] == 0 with k <= g_len - off     (for EVERY terminator witness g_len, hence strlen(tmp) <= strlen(pos))
 * region B2   pre  tmp[g_len] == 0, g_len < buf_size <= cap(tmp), cap(line)
 *             post line[k] == 0 with k <= g_len, tmp[g_len] == 0 still   (hence strlen(line) <= strlen(tmp))
 * All accesses are checked by --pointer-check/--bounds-check against malloc'd objects of exactly the capacity. */
#include "verif_c.h"
#include "constants.h"
#include <limits.h>
#define LEN SOPLEX_LPF_MAX_LINE_LEN

char* gp_buf; char* gp_tmp; char* gp_line;
int g_cap_buf, g_cap_tmp, g_cap_line, g_nul, g_calls, g_j, g_len, g_off, g_bufsize;
void* gp_ns[2]; int g_dtor[3]; int g_free[6]; int g_dtor_at_free[2];
char nondet_char(void);
long nondet_long(void);
static void havoc_ghosts(void)
{
   g_j = nondet_int(); g_len = nondet_int(); g_off = nondet_int(); g_bufsize = nondet_int();
}
#define GHOSTS gp_buf, gp_tmp, gp_line, g_cap_buf, g_cap_tmp, g_cap_line, g_nul, g_calls

#if defined(INST_readgrow) || defined(INST_growstep)
#define NOUT 14
#ifdef INST_readgrow
/* the main-loop invariant; buf_pos is whatever the previous line left behind */
#define PRE_A (LEN <= buf_size && buf_size < INT_MAX && buf_size <= cap_tmp && cap_tmp < INT_MAX && buf_size <= cap_line && cap_line < INT_MAX)
#else
/* the loop-head invariant of the growth loop (what the stream model asserts at every getline call): buf_pos leaves room for one
 * character and the terminator; tmp and line are whatever they were when the line started (at least the initial allocation) */
#define PRE_A (LEN <= buf_size && buf_size < INT_MAX && 0 <= buf_pos && buf_pos <= buf_size - 2 \
               && LEN <= cap_tmp && cap_tmp < INT_MAX && LEN <= cap_line && cap_line < INT_MAX)
#endif
void w_readgrow(int buf_size, int buf_pos, int cap_tmp, int cap_line, int lineno, long* out)
__CPROVER_requires(PRE_A && 0 <= lineno && lineno < INT_MAX && __CPROVER_is_fresh(out, NOUT * sizeof(long)))
__CPROVER_assigns(GHOSTS, __CPROVER_object_whole(out))
/* exactly one exit */
__CPROVER_ensures((out[0] != 0) + (out[1] != 0) + (out[2] != 0) == 1)
/* on every exit the three buffers are live objects of the recorded capacities */
__CPROVER_ensures(out[7] != 0)
/* fall-through: the main-loop invariant again ... */
__CPROVER_ensures(out[0] != 0 ==> (out[4] == out[3] && out[5] >= out[3] && out[6] >= out[3] && out[3] >= LEN && out[3] >= buf_size))
/* ... buf is a string shorter than buf_size, and the scan starts at its beginning */
__CPROVER_ensures(out[0] != 0 ==> (0 <= out[8] && out[8] < out[3] && out[9] == 0 && out[10] == 0 && out[11] != 0 && out[12] == lineno + 1))
/* a line that fits at once does not touch the capacities */
__CPROVER_ensures((out[0] != 0 && out[13] == 1) ==> out[3] == buf_size)
;
void h_readgrow(void)
{
   int buf_size, buf_pos, cap_tmp, cap_line, lineno; long* out;
   havoc_ghosts();
   w_readgrow(buf_size, buf_pos, cap_tmp, cap_line, lineno, out);
   CANARY();
}
#endif

#ifdef INST_squeeze
void w_squeeze(int buf_size, int cap_tmp, int off, int* out)
__CPROVER_requires(LEN <= buf_size && buf_size <= cap_tmp && cap_tmp < INT_MAX
                   && 0 <= g_len && g_len < buf_size && 0 <= off && off <= g_len && g_off == off
                   && __CPROVER_is_fresh(out, 2 * sizeof(int)))
__CPROVER_assigns(GHOSTS, __CPROVER_object_whole(out))
__CPROVER_ensures(0 <= out[0] && out[0] <= g_len - off && out[1] == 0)
;
void h_squeeze(void)
{
   int buf_size, cap_tmp, off; int* out;
   havoc_ghosts();
   w_squeeze(buf_size, cap_tmp, off, out);
   CANARY();
}
#endif

#ifdef INST_collapse
void w_collapse(int cap_tmp, int cap_line, int* out)
__CPROVER_requires(LEN <= g_bufsize && g_bufsize <= cap_tmp && cap_tmp < INT_MAX && g_bufsize <= cap_line && cap_line < INT_MAX
                   && 0 <= g_len && g_len < g_bufsize
                   && __CPROVER_is_fresh(out, 3 * sizeof(int)))
__CPROVER_assigns(GHOSTS, __CPROVER_object_whole(out))
__CPROVER_ensures(0 <= out[0] && out[0] <= g_len && out[1] == 0 && out[2] == 0)
;
void h_collapse(void)
{
   int cap_tmp, cap_line; int* out;
   havoc_ghosts();
   w_collapse(cap_tmp, cap_line, out);
   CANARY();
}
#endif

#ifdef INST_epilogue
/* epilogue (C13 "without ... leak"): a name set readLPF created itself is destroyed exactly once and THEN freed exactly once; a
 * caller's name set is neither destroyed nor freed; buf, tmp and line are freed exactly once each; nothing else is destroyed or
 * freed (no free of a null pointer either); the return value is `finished`.  Double frees / use after free are pointer checks. */
int w_epilogue(int own_c, int own_r, int finished, int lineno)
__CPROVER_requires(1)
__CPROVER_assigns(GHOSTS, __CPROVER_object_whole(gp_ns), __CPROVER_object_whole(g_dtor), __CPROVER_object_whole(g_free), __CPROVER_object_whole(g_dtor_at_free))
__CPROVER_ensures((own_c != 0) ==> (g_dtor[0] == 1 && g_free[0] == 1 && g_dtor_at_free[0] == 1))
__CPROVER_ensures((own_c == 0) ==> (g_dtor[0] == 0 && g_free[0] == 0))
__CPROVER_ensures((own_r != 0) ==> (g_dtor[1] == 1 && g_free[1] == 1 && g_dtor_at_free[1] == 1))
__CPROVER_ensures((own_r == 0) ==> (g_dtor[1] == 0 && g_free[1] == 0))
__CPROVER_ensures(g_free[2] == 1 && g_free[3] == 1 && g_free[4] == 1)
__CPROVER_ensures(g_dtor[2] == 0 && g_free[5] == 0)
__CPROVER_ensures((__CPROVER_return_value != 0) == (finished != 0))
;
void h_epilogue(void)
{
   int own_c, own_r, finished, lineno;
   havoc_ghosts();
   w_epilogue(own_c, own_r, finished, lineno);
   CANARY();
}
#endif
