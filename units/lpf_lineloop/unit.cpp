/* C13: the line-buffer management of SPxLPBase<R>::readLPF (spxlpbase_real.hpp) and SPxLPBase<Rational>::readLPF
 * (spxlpbase_rational.hpp).  Three REGIONS of the main `for(;;)` are cut verbatim out of the current tree on every run and
 * #included below; nothing of readLPF is retyped here.
 *   region A  (INST_readgrow / INST_growstep):  `buf_pos = 0; while(!p_input.getline(buf + buf_pos, buf_size - buf_pos)) {grow}`
 *             `if(finished) break;  if(..) { spx_realloc(tmp..); spx_realloc(line..); }  lineno++; i = 0; pos = buf;`
 *   region B1 (INST_squeeze):   steps 4a/4b  - copy pos -> tmp without blanks
 *   region B2 (INST_collapse):  step 6       - copy tmp -> line, collapsing runs of '+'/'-'
 * buf, tmp and line are REAL heap objects (CBMC's malloc) of exactly the capacity the code asked for: every byte the regions or
 * the getline model write is a --pointer-check/--bounds-check obligation against the CURRENT object; a realloc'd object is a new
 * object, the old one is freed (a stale pointer is a failed pointer check).  The capacities are additionally mirrored in the ghost
 * ints g_cap_* so that the contract can state the main-loop invariant  cap(buf) == buf_size <= cap(tmp), cap(line).
 * The capacities are SYMBOLIC (any value from SOPLEX_LPF_MAX_LINE_LEN, extracted from the tree, up to INT_MAX): nothing is scaled.
 *
 * The growth loop of region A reallocates (frees) the object its own condition writes to; a CBMC loop contract cannot express that
 * (no `frees` clause for loops, the havoc'd pointer loses its object).  It is proved by induction through the getline stub instead:
 * the stub ASSERTS the loop-head invariant at every call, instance readgrow starts from the main-loop invariant (base case, region
 * starts at `buf_pos = 0;`), instance growstep starts the region at the `while` from ANY state that satisfies the loop-head
 * invariant (inductive step); in both, two getline calls execute and the third one is checked and then cut (assume(0)), so the loop
 * is completely unwound (--unwind 3 --unwinding-assertions). */
#include "verif.h"
#include "constants.h"        /* SOPLEX_LPF_MAX_LINE_LEN of the file the instance is cut from */

#ifndef INT_MAX
#define INT_MAX 2147483647    /* <climits> on every platform SoPlex builds on (int is 32 bit); listed in "trusted" */
#endif

extern "C" {
   void* malloc(size_t);
   void free(void*);
   char nondet_char(void);
   long nondet_long(void);
   /* ghosts shared with contract.c */
   extern char* gp_buf;  extern char* gp_tmp;  extern char* gp_line;   /* the live allocations                                  */
   extern int g_cap_buf, g_cap_tmp, g_cap_line;                        /* their capacities in bytes                             */
   extern int g_nul;          /* gp_buf[g_nul] == 0: terminator witness written by the last getline (-1: none)                   */
   extern int g_calls;        /* number of getline calls so far                                                                 */
   extern int g_j;            /* ghost index: "for every j" the getline model stores an arbitrary byte at s[j]                  */
   extern int g_len, g_off;   /* regions B: NUL witness of the source string, offset of pos                                     */
   extern int g_bufsize;      /* regions B: buf_size (never changed there)                                                      */
   /* epilogue: recorders.  index 0 = column name set, 1 = row name set (whoever owns them), 2 = any other object */
   extern void* gp_ns[2];
   extern int g_dtor[3];           /* ~NameSet() calls per object                                                               */
   extern int g_free[6];           /* spx_free calls: 0 column set, 1 row set, 2 buf, 3 tmp, 4 line, 5 anything else (NULL too)  */
   extern int g_dtor_at_free[2];   /* number of destructor runs the name set had seen when it was freed (first free)            */
}

struct SPxOut
{
   static void debug(const void*, const char*) {}
   static void debug(const void*, const char*, int, const char*) {}
};
#define SPX_MSG_ERROR(x)   {}
#define SPX_MSG_WARNING(spxout, x) {}
#define SPX_MSG_INFO2(spxout, x) {}     /* the real macros expand to a braced block (conformance-checked): `else SPX_MSG_ERROR(..)` is a complete statement */

/* ---- spxalloc.h: the real functions minus the out-of-memory exception.  realloc = NEW object of exactly the requested size with
 * ARBITRARY content (over-approximates "old prefix preserved"), old object freed. ---------------------------------------------- */
static inline char* verif_regrow(char* old, int n)
{
   unsigned long bytes = sizeof(char) * (unsigned int) n;       /* as spx_realloc computes it (a negative n becomes huge)        */
   char* q = (char*)malloc(bytes);
   __CPROVER_assume(q != 0);                                    /* the real one throws SPxMemoryException                        */
   __CPROVER_assert(old == gp_buf || old == gp_tmp || old == gp_line, "spx_realloc: argument is one of the three live line buffers");

   if(old == gp_buf)       { gp_buf = q;  g_cap_buf = (int)bytes;  g_nul = -1; }
   else if(old == gp_tmp)  { gp_tmp = q;  g_cap_tmp = (int)bytes; }
   else if(old == gp_line) { gp_line = q; g_cap_line = (int)bytes; }

   free(old);
   return q;
}
template <class PT> inline void spx_realloc(PT& p, int n)
{
   __CPROVER_assert(n >= 0, "spx_realloc: assert(n >= 0) of the real function");
   if(n == 0) n = 1;
   p = verif_regrow(p, n);
}

/* ---- C library models (trusted) ------------------------------------------------------------------------------------------------ */
/* strlen is only applied to buf.  Over-approximation: the model demands a terminator witness inside the current buffer and returns
 * the distance to SOME terminator between the argument and the witness (ISO C: the first one). */
static inline size_t strlen(const char* s)
{
   __CPROVER_assert(s == gp_buf, "strlen model: the argument is buf");
   __CPROVER_assert(0 <= g_nul && g_nul < g_cap_buf && gp_buf[g_nul] == '\0', "strlen: buf holds a terminator inside its current capacity");
   long r = nondet_long();
   __CPROVER_assume(0 <= r && r <= g_nul && gp_buf[r] == '\0');
   return (size_t)r;
}
/* strchr on a short string literal (LPFisColName): first occurrence or NULL, the terminator counts as part of the string */
#define STRCHR_STEP(j) if(str[j] == (char)chr) return (char*)str + (j); if(str[j] == '\0') return 0;
static inline char* strchr(const char* str, int chr)
{
   STRCHR_STEP(0) STRCHR_STEP(1) STRCHR_STEP(2) STRCHR_STEP(3) STRCHR_STEP(4) STRCHR_STEP(5) STRCHR_STEP(6) STRCHR_STEP(7)
   STRCHR_STEP(8) STRCHR_STEP(9) STRCHR_STEP(10) STRCHR_STEP(11) STRCHR_STEP(12) STRCHR_STEP(13) STRCHR_STEP(14) STRCHR_STEP(15)
   STRCHR_STEP(16) STRCHR_STEP(17) STRCHR_STEP(18) STRCHR_STEP(19) STRCHR_STEP(20) STRCHR_STEP(21) STRCHR_STEP(22) STRCHR_STEP(23)
   __CPROVER_assert(0, "strchr model: string literal of at most 24 characters");
   return 0;
}

/* ---- std::istream as region A uses it ------------------------------------------------------------------------------------------
 * getline(s, n): stores k <= n-1 characters (ANY bytes, NUL included) and a terminator behind them; `!getline(..)` is fail().
 * The model returns ANY verdict for ANY k: this includes the three real cases (line fits: k < n, ok; line does not fit: exactly
 * n-1 characters stored, fail; end of file with nothing read: k == 0, fail) and a stream that turns bad in the middle of a line.
 * Its precondition is the loop-head invariant of the growth loop; it is ASSERTED at every call.  GETLINE_BUDGET calls execute,
 * the next one is checked and cut. */
#ifndef GETLINE_BUDGET
#define GETLINE_BUDGET 2
#endif
struct IStreamStub
{
   int unused;
   bool getline(char* s, long n)
   {
      g_calls++;
      __CPROVER_assert(n >= 2, "getline: room for one character and the terminator (every failed call consumes input: termination)");
      __CPROVER_assert(__CPROVER_same_object(s, gp_buf), "getline writes into the CURRENT buf object");
      long off = s - gp_buf;
      __CPROVER_assert(0 <= off && off + n <= g_cap_buf, "getline: [s, s+n) lies inside the current capacity of buf");

      if(g_calls > GETLINE_BUDGET)
         __CPROVER_assume(0);            /* induction: the state at this call satisfies the invariant the step instance starts from */

      long k = nondet_long();
      __CPROVER_assume(0 <= k && k <= n - 1);
#ifndef NO_LINE_LIMIT
      /* INPUT ASSUMPTION (listed in unit.json/props): no line of INT_MAX - SOPLEX_LPF_MAX_LINE_LEN or more characters, so that
       * `buf_size + SOPLEX_LPF_MAX_LINE_LEN` stays representable; instance *_2g drops it */
      __CPROVER_assume(off + k <= (long)INT_MAX - SOPLEX_LPF_MAX_LINE_LEN - 1);
#endif

      if(0 <= g_j && g_j < k)
         s[g_j] = nondet_char();         /* "for every j < k": an arbitrary byte is stored at s[j] */

      s[k] = '\0';
      g_nul = (int)(off + k);
      return nondet_bool();
   }
   void clear() {}
};

/* ---- the character-class helpers (real bodies, spxlpbase_real.hpp; the rational reader uses the same ones) ---------------------- */
#if defined(INST_squeeze)
extern "C" bool LPFisSpace(int c)
{
#include "LPFisSpace.inc"
}
extern "C" bool LPFisColName(const char* s)
{
#include "LPFisColName.inc"
}
#endif

/* =================================================================================================================================
 * region A */
#if defined(INST_readgrow) || defined(INST_growstep)
struct HostA
{
   IStreamStub* in_;
   int in_buf_size, in_buf_pos, in_lineno;
   int o_buf_size, o_fell, o_syntax, o_finished, o_i, o_lineno;
   char* o_buf; char* o_tmp; char* o_line; char* o_pos;

   void body()
   {
      IStreamStub& p_input = *in_;
      SPxOut* spxout = 0;
      /* the locals of readLPF the region (or a plausibly changed one) reads; same types as in the tree (conformance-checked) */
      int lineno = in_lineno;
      bool unnamed = true;
      bool finished = false;
      int i = nondet_int();
      int k = nondet_int();
      int buf_size = in_buf_size;
      int buf_pos = in_buf_pos;
      char* buf = gp_buf;
      char* tmp = gp_tmp;
      char* line = gp_line;
      char* s = 0;
      char* pos = 0;
      char* pos_old = 0;
      o_fell = 0; o_syntax = 0;

      switch(0)
      {
      default:
#include "regionA.inc"
         o_fell = 1;
      }

      goto done;
syntax_error:
      o_syntax = 1;
done:
      o_buf_size = buf_size; o_finished = finished; o_i = i; o_lineno = lineno;
      o_buf = buf; o_tmp = tmp; o_line = line; o_pos = pos;
   }
};

/* out: 0 fell through to the rest of the main loop, 1 syntax_error, 2 finished, 3 buf_size, 4..6 REAL object sizes of buf/tmp/line,
 *      7 buf/tmp/line are the live allocations the ghosts know and the ghost capacities equal the object sizes, 8 terminator witness,
 *      9 byte at the witness, 10 i, 11 pos == buf, 12 lineno, 13 getline calls */
extern "C" void w_readgrow(int buf_size, int buf_pos, int cap_tmp, int cap_line, int lineno, long* out)
{
   VIN("buf_size", buf_size); VIN("buf_pos", buf_pos); VIN("cap_tmp", cap_tmp); VIN("cap_line", cap_line);
   gp_buf = (char*)malloc(buf_size);   g_cap_buf = buf_size;
   gp_tmp = (char*)malloc(cap_tmp);    g_cap_tmp = cap_tmp;
   gp_line = (char*)malloc(cap_line);  g_cap_line = cap_line;
   __CPROVER_assume(gp_buf != 0 && gp_tmp != 0 && gp_line != 0);
   g_nul = -1; g_calls = 0;
   IStreamStub in; in.unused = 0;
   HostA h;
   h.in_ = &in; h.in_buf_size = buf_size; h.in_buf_pos = buf_pos; h.in_lineno = lineno;
   h.body();
   out[0] = h.o_fell; out[1] = h.o_syntax; out[2] = h.o_finished; out[3] = h.o_buf_size;
   out[4] = (long)__CPROVER_OBJECT_SIZE(h.o_buf); out[5] = (long)__CPROVER_OBJECT_SIZE(h.o_tmp); out[6] = (long)__CPROVER_OBJECT_SIZE(h.o_line);
   out[7] = h.o_buf == gp_buf && h.o_tmp == gp_tmp && h.o_line == gp_line
            && out[4] == g_cap_buf && out[5] == g_cap_tmp && out[6] == g_cap_line
            && __CPROVER_POINTER_OFFSET(h.o_buf) == 0 && __CPROVER_POINTER_OFFSET(h.o_tmp) == 0 && __CPROVER_POINTER_OFFSET(h.o_line) == 0;
   out[8] = g_nul;
   out[9] = (0 <= g_nul && g_nul < out[4] && out[7]) ? h.o_buf[g_nul] : 1;
   out[10] = h.o_i; out[11] = (h.o_pos == h.o_buf); out[12] = h.o_lineno; out[13] = g_calls;
}
#endif

/* =================================================================================================================================
 * region B1: pos -> tmp */
#ifdef INST_squeeze
struct HostB1
{
   int in_buf_size;
   int o_k;
   char* in_pos;

   void body()
   {
      int i = 0;                     /* `i = 0;` is the post of region A */
      int k = nondet_int();
      int buf_size = in_buf_size;
      char* buf = gp_buf;
      char* tmp = gp_tmp;
      char* line = gp_line;
      char* pos = in_pos;
#include "regionB1.inc"
      o_k = k;
   }
};
/* out: 0 k, 1 tmp[k] */
extern "C" void w_squeeze(int buf_size, int cap_tmp, int off, int* out)
{
   VIN("buf_size", buf_size); VIN("cap_tmp", cap_tmp); VIN("off", off); VIN("len", g_len);
   gp_buf = (char*)malloc(buf_size);   g_cap_buf = buf_size;
   gp_tmp = (char*)malloc(cap_tmp);    g_cap_tmp = cap_tmp;
   gp_line = 0; g_cap_line = 0;
   __CPROVER_assume(gp_buf != 0 && gp_tmp != 0);
   gp_buf[g_len] = '\0';             /* ANY content with a terminator at the witness (need not be the first one) */
   HostB1 h;
   h.in_buf_size = buf_size; h.in_pos = gp_buf + off;
   h.body();
   out[0] = h.o_k;
   out[1] = (0 <= h.o_k && h.o_k < cap_tmp) ? gp_tmp[h.o_k] : 1;
}
#endif

/* =================================================================================================================================
 * region B2: tmp -> line */
#ifdef INST_collapse
struct HostB2
{
   int in_buf_size;
   int o_k;

   void body()
   {
      int i = nondet_int();
      int k = nondet_int();
      int buf_size = in_buf_size;
      char* buf = gp_buf;
      char* tmp = gp_tmp;
      char* line = gp_line;
      char* pos = 0;
#include "regionB2.inc"
      o_k = k;
   }
};
/* out: 0 k, 1 line[k], 2 tmp[g_len] afterwards */
extern "C" void w_collapse(int cap_tmp, int cap_line, int* out)
{
   VIN("cap_tmp", cap_tmp); VIN("cap_line", cap_line); VIN("len", g_len);
   gp_buf = 0; g_cap_buf = 0;
   gp_tmp = (char*)malloc(cap_tmp);    g_cap_tmp = cap_tmp;
   gp_line = (char*)malloc(cap_line);  g_cap_line = cap_line;
   __CPROVER_assume(gp_tmp != 0 && gp_line != 0);
   gp_tmp[g_len] = '\0';             /* ANY content with a terminator at the witness (need not be the first one) */
   HostB2 h;
   h.in_buf_size = g_bufsize;
   h.body();
   out[0] = h.o_k;
   out[1] = (0 <= h.o_k && h.o_k < cap_line) ? gp_line[h.o_k] : 1;
   out[2] = gp_tmp[g_len];
}
#endif

/* =================================================================================================================================
 * epilogue: from the label `syntax_error:` to the closing brace of readLPF (C13 "without ... leak").
 * NameSet is a RECORDER: its destructor counts the calls per object (and writes a member, so that destroying a freed or null
 * object is a failed pointer check); spx_free is the real one (free, p = nullptr) plus a recorder per object.  The name sets are
 * heap objects created by the wrapper (never automatic: no implicit destructor call can be counted). */
#ifdef INST_epilogue
struct NameSet
{
   int live;
   ~NameSet()
   {
      live = 0;
      g_dtor[(void*)this == gp_ns[0] ? 0 : (void*)this == gp_ns[1] ? 1 : 2]++;
   }
};
static inline void verif_free_rec(void* p)
{
   int w = (p == 0) ? 5 : p == gp_ns[0] ? 0 : p == gp_ns[1] ? 1 : p == (void*)gp_buf ? 2 : p == (void*)gp_tmp ? 3 : p == (void*)gp_line ? 4 : 5;

   if(w < 2 && g_free[w] == 0)
      g_dtor_at_free[w] = g_dtor[w];

   g_free[w]++;
   free(p);
}
template <class PT> inline void spx_free(PT& p)
{
   verif_free_rec((void*)p);
   p = 0;
}

struct HostE
{
   SPxOut* spxout;
   NameSet* in_p_cnames; NameSet* in_p_rnames; NameSet* in_cnames; NameSet* in_rnames;
   bool in_finished; int in_lineno;

   bool body()
   {
      NameSet* p_cnames = in_p_cnames;
      NameSet* p_rnames = in_p_rnames;
      NameSet* cnames = in_cnames;
      NameSet* rnames = in_rnames;
      bool finished = in_finished;
      bool unnamed = true;
      int lineno = in_lineno;
      int buf_size = SOPLEX_LPF_MAX_LINE_LEN;
      char* buf = gp_buf;
      char* tmp = gp_tmp;
      char* line = gp_line;
      char* pos = 0;
      char* pos_old = 0;
#include "epilogue.inc"
   }
};
/* own_c / own_r: readLPF created the set itself (p_cnames == nullptr) */
extern "C" int w_epilogue(int own_c, int own_r, int finished, int lineno)
{
   VIN("own_c", own_c); VIN("own_r", own_r); VIN("finished", finished);
   NameSet* cn = (NameSet*)malloc(sizeof(NameSet));
   NameSet* rn = (NameSet*)malloc(sizeof(NameSet));
   gp_buf = (char*)malloc(SOPLEX_LPF_MAX_LINE_LEN); gp_tmp = (char*)malloc(SOPLEX_LPF_MAX_LINE_LEN); gp_line = (char*)malloc(SOPLEX_LPF_MAX_LINE_LEN);
   __CPROVER_assume(cn != 0 && rn != 0 && gp_buf != 0 && gp_tmp != 0 && gp_line != 0);
   cn->live = 1; rn->live = 1;
   gp_ns[0] = cn; gp_ns[1] = rn;
   g_dtor[0] = 0; g_dtor[1] = 0; g_dtor[2] = 0;
   g_free[0] = 0; g_free[1] = 0; g_free[2] = 0; g_free[3] = 0; g_free[4] = 0; g_free[5] = 0;
   g_dtor_at_free[0] = -1; g_dtor_at_free[1] = -1;
   HostE h;
   h.spxout = 0;
   h.in_p_cnames = own_c ? 0 : cn; h.in_cnames = cn;      /* readLPF: cnames = p_cnames ? p_cnames : its own new NameSet */
   h.in_p_rnames = own_r ? 0 : rn; h.in_rnames = rn;
   h.in_finished = finished != 0; h.in_lineno = lineno;
   return h.body();
}
#endif
