/* C02: contracts for the routines that WRITE the primal ray / the Farkas vector inside the simplex loop (R = double, exact IEEE).
 *
 * SIGN-TABLE CONTRACT.  The expected sign of every entry is transcribed from the code's own convention
 * (enter.hpp: computePrimalray4Col / computeDualfarkas4Row, leave.hpp: computePrimalray4Row / computeDualfarkas4Col and their
 * call sites, which pass the step of the leaving resp. entering variable as `direction`):
 *      primal ray :  entry = +delta if direction > 0, -delta otherwise;   entering column gets the opposite unit entry
 *      Farkas     :  entry = -delta if direction > 0, +delta otherwise;   entering row    gets the opposite unit entry
 * It PINS this convention - a flipped sign, a swapped row/column test, a wrong index or a dropped / duplicated / foreign entry is
 * detected - but it does not re-derive from the property that a vector with these signs is a ray of the feasible region resp.
 * proves infeasibility (that needs the simplex ratio-test algebra; listed under not_covered).
 *
 * "For every input position" / "for every output entry" are stated at the ghost indices g_j / g_p (havoc'd by the harness). */
#include "verif_c.h"
#ifndef CAP
#define CAP 8
#endif
typedef double R;
int g_j, g_p, g_wit, g_src_j, g_last_j;
int v_c; double v_exp;
int* gp_used; int* gp_oidx; double* gp_oval;
const int* gp_idx; const double* gp_val; const int* gp_binfo; const int* gp_bnum;
int g_setmax_arg, g_clear_calls;
/* ghost copies for the loop invariants (the side file can only name globals) */
int g_n, g_dim; double g_dir; int g_fwd;
#define NOTNAN(x) ((x) == (x))
/* same value: equal, or both NaN (a NaN delta is passed on as a NaN entry) */
#define SAMEV(a, b) ((a) == (b) || ((a) != (a) && (b) != (b)))

#ifdef VEC_IS_RAY
#define SIGNED(x) (direction > 0 ? (x) : -(x))          /* sign = (direction > 0 ? 1.0 : -1.0) */
#define UNIT_OPPOSITE (direction > 0 ? -1.0 : 1.0)      /* -sign */
#define MINE(info) ((info) > 0)                          /* the primal ray lives on columns: column ids */
#define OUTDIM ncols
#else
#define SIGNED(x) (direction > 0 ? -(x) : (x))          /* sign = (direction > 0 ? -1.0 : 1.0) */
#define UNIT_OPPOSITE (direction > 0 ? 1.0 : -1.0)
#define MINE(info) ((info) < 0)                          /* the Farkas vector lives on rows: row ids */
#define OUTDIM nrows
#endif

#ifdef KIND_ENTER
/* entering algorithm: delta = fVec().delta() is indexed by BASIS POSITION b; the entry belongs to the variable baseId(b) and is
   written only if that is a column (ray) resp. a row (Farkas), at index number(baseId(b)); the entering variable enterId is added last */
#define SRC_MINE(b) MINE(bid_info[b])
#define SRC_INDEX(b) (bid_num[b])
#define ENTER_MINE MINE(enter_info)
#else
/* leaving algorithm: delta = coPvec().delta() is indexed by the ray's own index; no id translation, no entering variable */
#define SRC_MINE(b) 1
#define SRC_INDEX(b) (b)
#define ENTER_MINE 0
#endif

void w_ray(double direction, int enter_info, int enter_num, const double* val, int dim, const int* idx, int n,
           const int* bid_info, const int* bid_num, int ncols, int nrows, int* oidx, double* oval, int* used)
__CPROVER_requires(0 <= n && n <= CAP && 0 < dim && dim <= CAP && 0 < ncols && 0 < nrows && g_n == n && g_dim == dim && g_dir == direction)
__CPROVER_requires(__CPROVER_is_fresh(val, CAP * sizeof(double)) && __CPROVER_is_fresh(idx, CAP * sizeof(int)))
__CPROVER_requires(__CPROVER_is_fresh(bid_info, CAP * sizeof(int)) && __CPROVER_is_fresh(bid_num, CAP * sizeof(int)))
__CPROVER_requires(__CPROVER_is_fresh(oidx, (CAP + 1) * sizeof(int)) && __CPROVER_is_fresh(oval, (CAP + 1) * sizeof(double)) && __CPROVER_is_fresh(used, sizeof(int)))
__CPROVER_requires(NOTNAN(direction))
/* the expected pair for input position g_j (if there is one): index and signed value, per the table above */
__CPROVER_requires((0 <= g_j && g_j < n) ==> (0 <= idx[g_j] && idx[g_j] < dim
                   && v_c == SRC_INDEX(idx[g_j]) && v_exp == SIGNED(val[idx[g_j]])
                   && g_fwd == (SRC_MINE(idx[g_j]) && val[idx[g_j]] != 0.0)))
__CPROVER_requires(!(0 <= g_j && g_j < n) ==> g_fwd == 0)
__CPROVER_assigns(*used, __CPROVER_object_whole(oidx), __CPROVER_object_whole(oval))
__CPROVER_assigns(g_wit, g_src_j, g_last_j, gp_used, gp_oidx, gp_oval, gp_idx, gp_val, gp_binfo, gp_bnum, g_setmax_arg, g_clear_calls)
/* the vector is rebuilt from scratch */
__CPROVER_ensures(g_clear_calls == 1 && g_setmax_arg == n + (
#ifdef KIND_ENTER
   1
#else
   0
#endif
   ))
__CPROVER_ensures(0 <= *used && *used <= n + (ENTER_MINE ? 1 : 0))
/* FORWARD: every nonzero delta entry of a variable of the right kind appears in the vector with the tabled sign, at that variable's index */
__CPROVER_ensures(g_fwd ==> (0 <= g_wit && g_wit < *used - (ENTER_MINE ? 1 : 0) && oidx[g_wit] == v_c && SAMEV(oval[g_wit], v_exp)))
/* the entering variable gets the opposite-sign unit entry, as the last entry */
__CPROVER_ensures(ENTER_MINE ==> (*used >= 1 && oidx[*used - 1] == enter_num && oval[*used - 1] == UNIT_OPPOSITE))
/* BACKWARD (frame): nothing else is written - every entry of the vector is the entering variable's or stems from an input position */
__CPROVER_ensures((0 <= g_p && g_p < *used - (ENTER_MINE ? 1 : 0)) ==> (0 <= g_src_j && g_src_j < n && 0 <= idx[g_src_j] && idx[g_src_j] < dim
                   && SRC_MINE(idx[g_src_j]) && oidx[g_p] == SRC_INDEX(idx[g_src_j]) && SAMEV(oval[g_p], SIGNED(val[idx[g_src_j]])) && oval[g_p] != 0.0))
;

void h_ray(void)
{
   double direction; int enter_info, enter_num, dim, n, ncols, nrows; const double* val; const int* idx; const int* bid_info; const int* bid_num;
   int* oidx; double* oval; int* used;
   g_j = nondet_int(); g_p = nondet_int(); g_wit = nondet_int(); g_src_j = nondet_int(); g_last_j = nondet_int();
   v_c = nondet_int(); v_exp = nondet_double(); g_n = nondet_int(); g_dim = nondet_int(); g_dir = nondet_double(); g_fwd = nondet_int();
   w_ray(direction, enter_info, enter_num, val, dim, idx, n, bid_info, bid_num, ncols, nrows, oidx, oval, used);
   CANARY();
}
