/* C02: the four routines that write the primal ray / the Farkas vector when the simplex loop detects unboundedness or
 * infeasibility, at R = double:
 *   computePrimalray4Col, computeDualfarkas4Row (src/soplex/enter.hpp),  computePrimalray4Row, computeDualfarkas4Col (src/soplex/leave.hpp)
 * The bodies are #included verbatim from slices of the current tree as the body of the zero-argument member H::body() (loop
 * contracts need a comma-free function id); the parameters `direction` and `enterId` are members of the host.
 * SVectorBase<R>::add / clear (svectorbase.h) are sliced too and run on a two-array view of the Nonzero<R> storage. */
#include "verif.h"
typedef double R;

extern "C" {
   extern int g_j, g_p;                       /* ghost indices: an input position / an output position */
   extern int g_wit, g_src_j, g_last_j;       /* witnesses recorded by the stubs */
   extern int v_c; extern double v_exp;       /* the (index, value) pair the contract expects for input position g_j */
   extern int* gp_used; extern int* gp_oidx; extern double* gp_oval;
   extern const int* gp_idx; extern const double* gp_val; extern const int* gp_binfo; extern const int* gp_bnum;
   extern int g_setmax_arg, g_clear_calls;
}

/* IdxSet view of the nonzero positions of an SSVector.  index(n): the real body is `return idx[n];` (idxset.h, conformance-
 * checked); the stub adds the bounds assertion, records the position (ghost) and supplies the type invariant of an SSVector /
 * update vector: every stored index is a valid position of the dense vector. */
struct IdxSet
{
   const int* idx; int num; int bound;
   int size() const { return num; }
   int index(int n) const
   {
      __CPROVER_assert(0 <= n && n < num, "IdxSet position in bounds");
      g_last_j = n;
      int i = idx[n];
      __CPROVER_assume(0 <= i && i < bound);
      return i;
   }
};
/* SSVectorBase<R>: value(n) is `return VectorBase<R>::val[idx[n]];`, index(n) forwards to IdxSet::index(n) (conformance-checked) */
struct SSVectorBase
{
   const R* val; int dimv; IdxSet ix;
   int size() const { return ix.num; }
   int index(int n) const { return ix.index(n); }
   R value(int n) const { int i = ix.index(n); __CPROVER_assert(0 <= i && i < dimv, "SSVector value in bounds"); return val[i]; }
   const IdxSet& indices() const { return *(IdxSet*)&ix; }
};
struct UpdateVector
{
   SSVectorBase thedelta;
   const SSVectorBase& delta() const { return *(SSVectorBase*)&thedelta; }
   const IdxSet& idx() const { return thedelta.indices(); }
};

/* SPxId: a DataKey whose info is <0 for rows, >0 for columns, 0 invalid (isSPxRowId / isSPxColId conformance-checked).  The real
 * key is mapped to the current row / column number by SPxLPBase::number(id) through the LP's DataSet; the stub id carries that
 * number directly (type invariant of a basis: a basic id names an existing row / column). */
struct SPxId
{
   int info; int num;
   bool isSPxRowId() const { return info < 0; }
   bool isSPxColId() const { return info > 0; }
};
struct SPxColId { int num; explicit SPxColId(const SPxId& p_key) { num = p_key.num; } };
struct SPxRowId { int num; explicit SPxRowId(const SPxId& p_key) { num = p_key.num; } };

/* DSVectorBase<R> over two parallel arrays (index, value) standing for the Nonzero<R> array m_elem */
struct ElemRef { int& idx; R& val; ElemRef(int& a, R& b) : idx(a), val(b) {} };
struct ElemArr
{
   int* i; R* v; int cap;
   ElemRef operator[](int n) const { __CPROVER_assert(0 <= n && n < cap, "DSVector element in bounds"); return ElemRef(i[n], v[n]); }
};
struct DSVectorBase
{
   ElemArr m_elem; int* usedp;
   int size() const { return *usedp; }
   int max() const { return m_elem.cap; }
   void set_size(int s) { *usedp = s; }
   void clear()
   {
      g_clear_calls = g_clear_calls + 1;
#include "SVector_clear.inc"
   }
   /* real: reallocates to max(newmax, size()) elements; the model owns a buffer of CAP+1 elements and asserts that it suffices */
   void setMax(int newmax = 1) { g_setmax_arg = newmax; __CPROVER_assert(newmax <= m_elem.cap, "DSVector model: requested capacity fits the buffer"); }
   void svector_add(int i, const R& v)
   {
#include "SVector_add.inc"
   }
   /* DSVectorBase::add(i, v) is `makeMem(1); SVectorBase<R>::add(i, v);` (conformance-checked): room for one more, then the real add */
   void add(int i, const R& v)
   {
      int before = *usedp;
      __CPROVER_assert(before < m_elem.cap, "DSVector model: makeMem(1) within the buffer");
      svector_add(i, v);
      if(*usedp == before + 1)
      {
         /* the FIRST stored entry equal to the expected pair: witness for the forward clause (same value: == or both NaN) */
         if(g_wit < 0 && i == v_c && (v == v_exp || (v != v && v_exp != v_exp))) g_wit = before;
         if(before == g_p) g_src_j = g_last_j;           /* which input position produced output position g_p */
      }
   }
};

struct H
{
   UpdateVector thefvec, thecopvec;
   DSVectorBase primalRay, dualFarkas;
   const int* bid_info; const int* bid_num; int nbase; int ncols, nrows;
   R direction; SPxId enterId;                       /* the real parameters */
   UpdateVector& fVec() const { return *(UpdateVector*)&thefvec; }
   UpdateVector& coPvec() const { return *(UpdateVector*)&thecopvec; }
   SPxId baseId(int i) const
   {
      __CPROVER_assert(0 <= i && i < nbase, "baseId position in bounds");
      SPxId id; id.info = bid_info[i]; id.num = bid_num[i];
      return id;
   }
   int number(const SPxColId& id) const { int n = id.num; __CPROVER_assume(0 <= n && n < ncols); return n; }
   int number(const SPxRowId& id) const { int n = id.num; __CPROVER_assume(0 <= n && n < nrows); return n; }
   void body()
   {
#include SLICE
   }
};

extern "C" void w_ray(double direction, int enter_info, int enter_num, const double* val, int dim, const int* idx, int n,
                      const int* bid_info, const int* bid_num, int ncols, int nrows, int* oidx, double* oval, int* used)
{
   VIN("direction", direction); VIN("enter_info", enter_info); VIN("enter_num", enter_num); VIN("dim", dim); VIN("n", n);
   VIN_ARR8("val", val, dim); VIN_ARR8("idx", idx, n); VIN_ARR8("bid_info", bid_info, dim); VIN_ARR8("bid_num", bid_num, dim);
   H h;
   h.thefvec.thedelta.val = val; h.thefvec.thedelta.dimv = dim; h.thefvec.thedelta.ix.idx = idx; h.thefvec.thedelta.ix.num = n; h.thefvec.thedelta.ix.bound = dim;
   h.thecopvec = h.thefvec;
   h.primalRay.m_elem.i = oidx; h.primalRay.m_elem.v = oval; h.primalRay.m_elem.cap = CAP + 1; h.primalRay.usedp = used;
   h.dualFarkas = h.primalRay;
   h.bid_info = bid_info; h.bid_num = bid_num; h.nbase = dim; h.ncols = ncols; h.nrows = nrows;
   h.direction = direction; h.enterId.info = enter_info; h.enterId.num = enter_num;
   gp_used = used; gp_oidx = oidx; gp_oval = oval; gp_idx = idx; gp_val = val; gp_binfo = bid_info; gp_bnum = bid_num;
   g_clear_calls = 0; g_setmax_arg = -1; g_wit = -1;
   h.body();
}
