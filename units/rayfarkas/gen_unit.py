#!/usr/bin/env python3
"""Writes unit.json for units/rayfarkas (four instances of one wrapper)."""
import json
import os

ENTER = "src/soplex/enter.hpp"
LEAVE = "src/soplex/leave.hpp"

common = [
    {"as": "SVector_add.inc", "file": "src/soplex/svectorbase.h", "sig": r"void\s+add\s*\(\s*int\s+i\s*,\s*const\s+R&\s*v\s*\)",
     "must_contain": [r"if\(v\s*!=\s*0\.0\)", r"m_elem\[n\]\.idx\s*=\s*i;", r"m_elem\[n\]\.val\s*=\s*v;", r"set_size\(n\s*\+\s*1\);"]},
    {"as": "SVector_clear.inc", "file": "src/soplex/svectorbase.h", "sig": r"void\s+clear\s*\(\s*\)", "must_contain": [r"set_size\(0\);"]},
]


def conf(file, regex, why):
    return {"file": file, "regex": regex, "why": why}


conformance = [
    conf("src/soplex/idxset.h", r"int\s+index\(int\s+n\)\s*const\s*\{\s*assert\([^;]*\);\s*return\s+idx\[n\];\s*\}", "IdxSet::index(n) is idx[n]"),
    conf("src/soplex/ssvectorbase.h", r"R\s+value\(int\s+n\)\s*const\s*\{\s*assert\(isSetup\(\)\);\s*assert\([^;]*\);\s*return\s+VectorBase<R>::val\[idx\[n\]\];\s*\}", "SSVectorBase::value(n) is val[idx[n]]"),
    conf("src/soplex/ssvectorbase.h", r"int\s+index\(int\s+n\)\s*const\s*\{\s*assert\(isSetup\(\)\);\s*return\s+IdxSet::index\(n\);\s*\}", "SSVectorBase::index(n) forwards to IdxSet::index"),
    conf("src/soplex/updatevector.h", r"const\s+SSVectorBase<R>&\s*delta\(\)\s*const\s*\{\s*return\s+thedelta;\s*\}", "UpdateVector::delta()"),
    conf("src/soplex/updatevector.h", r"const\s+IdxSet&\s*idx\(\)\s*const\s*\{\s*return\s+thedelta\.indices\(\);\s*\}", "UpdateVector::idx() is the index set of delta()"),
    conf("src/soplex/dsvectorbase.h", r"void\s+add\(int\s+i,\s*const\s+R&\s*v\)\s*\{\s*makeMem\(1\);\s*SVectorBase<R>::add\(i,\s*v\);\s*\}", "DSVectorBase::add = makeMem(1) + SVectorBase::add"),
    conf("src/soplex/dsvectorbase.h", r"void\s+setMax\(int\s+newmax\s*=\s*1\)", "DSVectorBase::setMax"),
    conf("src/soplex/spxid.h", r"inline\s+bool\s+isSPxRowId\(\)\s*const\s*\{\s*return\s+info\s*<\s*0;\s*\}", "SPxId::isSPxRowId"),
    conf("src/soplex/spxid.h", r"inline\s+bool\s+isSPxColId\(\)\s*const\s*\{\s*return\s+info\s*>\s*0;\s*\}", "SPxId::isSPxColId"),
    conf("src/soplex/spxid.h", r"explicit\s+SPxColId\(const\s+SPxId&\s*p_key\);", "SPxColId(SPxId)"),
    conf("src/soplex/spxid.h", r"explicit\s+SPxRowId\(const\s+SPxId&\s*p_key\);", "SPxRowId(SPxId)"),
    conf("src/soplex/spxbasis.h", r"inline\s+SPxId&\s*baseId\(int\s+i\)", "baseId(i)"),
    conf("src/soplex/spxlpbase.h", r"int\s+number\(const\s+SPxRowId&\s*id\)\s*const", "number(SPxRowId)"),
    conf("src/soplex/spxlpbase.h", r"int\s+number\(const\s+SPxColId&\s*id\)\s*const", "number(SPxColId)"),
    conf("src/soplex/spxsolver.h", r"UpdateVector<R>&\s*fVec\(\)\s*const", "fVec()"),
    conf("src/soplex/spxsolver.h", r"UpdateVector<R>&\s*coPvec\(\)\s*const", "coPvec()"),
    conf("src/soplex/spxsolver.h", r"DSVectorBase<R>\s+primalRay;.*?DSVectorBase<R>\s+dualFarkas;", "primalRay / dualFarkas are DSVectors"),
]
trusted = [
    "SIGN-TABLE CONTRACT: the expected sign of each entry is transcribed from the code's own convention (enter.hpp / leave.hpp and their call sites); the contract pins that convention and detects a flipped sign, a swapped row/column id test, a wrong index, a dropped, duplicated or foreign entry - it does NOT re-derive from the property that a vector with these signs is a ray / a Farkas proof",
    "IdxSet::index, SSVectorBase::value/index, UpdateVector::delta/idx are few-line stubs, each conformance-checked against the real one-line body; index(n) adds the bounds assertion, records n (ghost) and assumes the SSVector type invariant `stored index < dimension`",
    "SPxId carries the current row/column number directly; number(id) assumes it is in range (type invariant of the basis: basic ids name existing rows/columns); baseId(i) is a table read with bounds assertion",
    "DSVectorBase: storage is two parallel arrays (index, value) behind an operator[] proxy that yields .idx/.val references; SVectorBase<R>::add and clear are the REAL bodies; DSVectorBase::add's makeMem(1) and setMax(n) are modelled by a buffer of CAP+1 elements with the assertion that it suffices; add() records witnesses (ghost)",
    "R = double exact IEEE (a NaN delta value is passed on as a NaN entry; equalities are stated as `equal or both NaN`): the proof includes x * 1.0 == x and x * -1.0 == -x",
    "vector length capped by CAP = 4 entries (both tiers; 8 and 16 were run during development: 33 s and 370 s per instance); the loop proof is inductive, the cap bounds the size of the input objects only",
]

INV_COMMON = [
    "0 <= J && J <= g_n",
    "0 <= *gp_used && *gp_used <= J",
    "g_wit < *gp_used",
    "(0 <= g_wit) ==> (gp_oidx[g_wit] == v_c && (gp_oval[g_wit] == v_exp || (gp_oval[g_wit] != gp_oval[g_wit] && v_exp != v_exp)))",
    "(g_fwd != 0 && J > g_j) ==> 0 <= g_wit",
]


def signed(x, ray):
    return "(g_dir > 0 ? %s : -(%s))" % (x, x) if ray else "(g_dir > 0 ? -(%s) : %s)" % (x, x)


def loops(var, enter, ray):
    src = "gp_idx[g_src_j]"
    mine = ("gp_binfo[%s] %s 0 && " % (src, ">" if ray else "<")) if enter else ""
    index = "gp_bnum[%s]" % src if enter else src
    back = ("(0 <= g_p && g_p < *gp_used) ==> (0 <= g_src_j && g_src_j < J && 0 <= %s && %s < g_dim && %sgp_oidx[g_p] == %s && (gp_oval[g_p] == %s || (gp_oval[g_p] != gp_oval[g_p] && gp_val[%s] != gp_val[%s])) && gp_oval[g_p] != 0.0)"
            % (src, src, mine, index, signed("gp_val[%s]" % src, ray), src, src))
    invs = [i.replace("J", var) for i in INV_COMMON + [back]]
    return [{"function": r"H::body\(this\)", "loop": 0, "locals": [var], "invariants": invs,
             "assigns": [var, "*gp_used", "__CPROVER_object_whole(gp_oidx)", "__CPROVER_object_whole(gp_oval)", "g_wit", "g_src_j", "g_last_j"],
             "decreases": "g_n - %s" % var}]


def inst(name, fn, file, sig, var, enter, ray, vecname, mutants, must):
    defs = {"SLICE": "\"%s.inc\"" % name}
    defs["KIND_ENTER" if enter else "KIND_LEAVE"] = ""
    if ray:
        defs["VEC_IS_RAY"] = ""
    else:
        defs["VEC_IS_FARKAS"] = ""
    return {"name": name, "function": fn, "defines": defs, "harness": "h_ray", "enforce": "w_ray",
            "slices": common + [{"as": name + ".inc", "file": file, "sig": sig, "must_contain": must}],
            "loops": loops(var, enter, ray), "min_obligations": 100, "tier": "quick",
            "mutants": [dict(m, slice=name + ".inc") for m in mutants]}


instances = [
    inst("computePrimalray4Col", "SPxSolverBase<R>::computePrimalray4Col(R direction, SPxId enterId)  [src/soplex/enter.hpp]", ENTER,
         r"void\s+SPxSolverBase<R>::computePrimalray4Col\s*\(\s*R\s+direction\s*,\s*SPxId\s+enterId\s*\)", "j", True, True, "primalRay",
         [
             {"name": "sign_flipped", "find": "R sign = (direction > 0 ? 1.0 : -1.0);", "replace": "R sign = (direction > 0 ? -1.0 : 1.0);"},
             {"name": "row_ids_instead_of_col_ids", "find": "if(i.isSPxColId())", "replace": "if(i.isSPxRowId())"},
             {"name": "entering_gets_same_sign", "find": "primalRay.add(this->number(SPxColId(enterId)), -sign);", "replace": "primalRay.add(this->number(SPxColId(enterId)), sign);"},
             {"name": "entering_row_accepted", "find": "if(enterId.isSPxColId())", "replace": "if(enterId.isSPxRowId())"},
             {"name": "value_of_wrong_position", "find": "sign * fVec().delta().value(j)", "replace": "sign * fVec().delta().value(0)"},
             {"name": "first_entry_skipped", "find": "for(int j = 0;", "replace": "for(int j = 1;"},
             {"name": "not_cleared", "find": "primalRay.clear();", "replace": ""},
         ], [r"R\s+sign\s*=\s*\(direction\s*>\s*0\s*\?\s*1\.0\s*:\s*-1\.0\);", r"this->baseId\(fVec\(\)\.idx\(\)\.index\(j\)\)"]),
    inst("computeDualfarkas4Row", "SPxSolverBase<R>::computeDualfarkas4Row(R direction, SPxId enterId)  [src/soplex/enter.hpp]", ENTER,
         r"void\s+SPxSolverBase<R>::computeDualfarkas4Row\s*\(\s*R\s+direction\s*,\s*SPxId\s+enterId\s*\)", "j", True, False, "dualFarkas",
         [
             {"name": "sign_flipped", "find": "R sign = (direction > 0 ? -1.0 : 1.0);", "replace": "R sign = (direction > 0 ? 1.0 : -1.0);"},
             {"name": "col_ids_instead_of_row_ids", "find": "if(spxid.isSPxRowId())", "replace": "if(spxid.isSPxColId())"},
             {"name": "entering_gets_same_sign", "find": "dualFarkas.add(this->number(SPxRowId(enterId)), -sign);", "replace": "dualFarkas.add(this->number(SPxRowId(enterId)), sign);"},
             {"name": "direction_test_nonstrict", "find": "(direction > 0 ?", "replace": "(direction >= 0 ?"},
             {"name": "index_is_basis_position", "find": "dualFarkas.add(this->number(SPxRowId(spxid)), sign", "replace": "dualFarkas.add(fVec().idx().index(j), sign"},
         ], [r"R\s+sign\s*=\s*\(direction\s*>\s*0\s*\?\s*-1\.0\s*:\s*1\.0\);"]),
    inst("computePrimalray4Row", "SPxSolverBase<R>::computePrimalray4Row(R direction)  [src/soplex/leave.hpp]", LEAVE,
         r"void\s+SPxSolverBase<R>::computePrimalray4Row\s*\(\s*R\s+direction\s*\)", "i", False, True, "primalRay",
         [
             {"name": "sign_flipped", "find": "R sign = (direction > 0 ? 1.0 : -1.0);", "replace": "R sign = (direction > 0 ? -1.0 : 1.0);"},
             {"name": "position_instead_of_index", "find": "primalRay.add(coPvec().delta().index(i),", "replace": "primalRay.add(i,"},
             {"name": "last_entry_dropped", "find": "i < coPvec().delta().size();", "replace": "i < coPvec().delta().size() - 1;"},
             {"name": "sign_not_applied", "find": "sign * coPvec().delta().value(i)", "replace": "coPvec().delta().value(i)"},
         ], [r"R\s+sign\s*=\s*\(direction\s*>\s*0\s*\?\s*1\.0\s*:\s*-1\.0\);"]),
    inst("computeDualfarkas4Col", "SPxSolverBase<R>::computeDualfarkas4Col(R direction)  [src/soplex/leave.hpp]", LEAVE,
         r"void\s+SPxSolverBase<R>::computeDualfarkas4Col\s*\(\s*R\s+direction\s*\)", "i", False, False, "dualFarkas",
         [
             {"name": "sign_flipped", "find": "R sign = (direction > 0 ? -1.0 : 1.0);", "replace": "R sign = (direction > 0 ? 1.0 : -1.0);"},
             {"name": "position_instead_of_index", "find": "dualFarkas.add(coPvec().delta().index(i),", "replace": "dualFarkas.add(i,"},
             {"name": "value_of_wrong_position", "find": "sign * coPvec().delta().value(i)", "replace": "sign * coPvec().delta().value(0)"},
         ], [r"R\s+sign\s*=\s*\(direction\s*>\s*0\s*\?\s*-1\.0\s*:\s*1\.0\);"]),
]

unit = {
    "property": ["C02"],
    "desc": "writers of the primal ray / Farkas vector inside the simplex loop: computePrimalray4Col, computeDualfarkas4Row (enter.hpp), "
            "computePrimalray4Row, computeDualfarkas4Col (leave.hpp); sign-table contract with forward and backward (frame) clauses at ghost indices",
    "rmode": "double (IEEE, bit-precise)",
    "defines": {"CAP": "4"}, "defines_small": {"CAP": "3"},
    "flags": ["--bounds-check", "--pointer-check", "--signed-overflow-check"],
    "timeout_s": 240,
    "conformance": conformance, "trusted": trusted, "instances": instances,
}
json.dump(unit, open(os.path.join(os.path.dirname(os.path.abspath(__file__)), "unit.json"), "w"), indent=1)
print("wrote unit.json with", len(instances), "instances")
