/* Contracts for sorter.h (bounded).  Range [start, last]; last = end (shellsort) or end - 1 (quicksort).
 *   sorted:       for the ghost position g_k in [start, last): key(keys[g_k]) <= key(keys[g_k + 1])   (key(x) = x >> 4)
 *   permutation:  for the ghost element v_e: it occurs in [start, last] as often as before (counted over NMAX cells)
 *   frame:        cells outside [start, last] are unchanged (ghost g_o) */
#include "verif_c.h"
#ifndef NMAX
#define NMAX 6
#endif
int g_k, g_o, v_e, v_o, g_cnt;
#if OP == 0
#define LAST end
#else
#define LAST (end - 1)
#endif
#define C1(k) (((start <= (k)) && ((k) <= LAST) && keys[k] == v_e) ? 1 : 0)
#if NMAX == 4
#define COUNT (C1(0) + C1(1) + C1(2) + C1(3))
#elif NMAX == 5
#define COUNT (C1(0) + C1(1) + C1(2) + C1(3) + C1(4))
#elif NMAX == 6
#define COUNT (C1(0) + C1(1) + C1(2) + C1(3) + C1(4) + C1(5))
#elif NMAX == 7
#define COUNT (C1(0) + C1(1) + C1(2) + C1(3) + C1(4) + C1(5) + C1(6))
#else
#error "sorter: NMAX in 4..7"
#endif
#define KEY(x) ((x) >> 4)
#define P_RANGE(k) (0 <= keys[k] && keys[k] < 4096)
void w_sort(int* keys, int end, int start, int type)
__CPROVER_requires(0 <= end && end <= NMAX)
__CPROVER_requires(__CPROVER_is_fresh(keys, NMAX * sizeof(int)) && 0 <= start && start <= LAST && LAST < NMAX && (type == 0 || type == 1))
#ifdef FIXED_RANGE
/* the whole array, concrete bounds (keeps the symbolic execution of the `while(end - start >= SOPLEX_SHELLSORTMAX)` loop and of the recursion finite) */
__CPROVER_requires(start == 0 && LAST == NMAX - 1)
#endif
__CPROVER_requires(P_RANGE(0) && P_RANGE(1) && P_RANGE(2) && P_RANGE(3))
#if NMAX > 4
__CPROVER_requires(P_RANGE(4))
#endif
#if NMAX > 5
__CPROVER_requires(P_RANGE(5))
#endif
#if NMAX > 6
__CPROVER_requires(P_RANGE(6))
#endif
__CPROVER_requires(g_cnt == COUNT && 0 <= g_o && g_o < NMAX && v_o == keys[g_o])
__CPROVER_assigns(__CPROVER_object_whole(keys))
__CPROVER_ensures(!(start <= g_k && g_k < LAST) || KEY(keys[g_k]) <= KEY(keys[g_k + 1]))
__CPROVER_ensures(COUNT == g_cnt)
__CPROVER_ensures((start <= g_o && g_o <= LAST) || keys[g_o] == v_o)
;
void h_sort(void)
{
   int* keys; int end, start, type;
   g_k = nondet_int(); g_o = nondet_int(); v_e = nondet_int(); v_o = nondet_int(); g_cnt = nondet_int();
   w_sort(keys, end, start, type);
   CANARY();
}
