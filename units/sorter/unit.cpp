/* C19 (second sentence, "sorting"): sorter.h - SPxShellsort and SPxQuicksort, real bodies (sliced on every run) as bodies of
 * non-template functions with T = int and COMPARATOR = KeyCompare (compares the keys x >> 4, so different elements can
 * compare equal: a permutation of the ELEMENTS, not only of the keys, is what is checked).
 * BOUNDED instances only (small n, all loops and the recursion unwound): sortedness of an array is a statement about all
 * pairs, which ghost-index loop contracts cannot carry through the element shifts of an insertion / exchange sort.
 * SOPLEX_SHELLSORTMAX is the real value (25, cut from sorter.h): for the array sizes reachable here SPxQuicksort delegates to
 * SPxShellsort; its partition loop / recursion (n >= 26) is not covered (see unit.json). */
#include "verif.h"
#include "constants.h"

typedef int T;
struct KeyCompare
{
   int operator()(const T& a, const T& b) const { return (a >> 4) - (b >> 4); }
};
typedef KeyCompare COMPARATOR;

void SPxShellsort(T* keys, int end, COMPARATOR& compare, int start = 0)
{
#include "SPxShellsort.inc"
}
void SPxQuicksort(T* keys, int end, COMPARATOR& compare, int start = 0, bool type = true)
{
#include "SPxQuicksort.inc"
}

/* op 0: SPxShellsort(keys, end, cmp, start) (end = index of the LAST element)
 * op 1: SPxQuicksort(keys, end, cmp, start, type) (end = index of the last element PLUS ONE) */
extern "C" void w_sort(int* keys, int end, int start, int type)
{
   VIN("end", end); VIN("start", start); VIN("type", type); VIN_ARR8("keys", keys, end);
   KeyCompare cmp;
#if OP == 0
   SPxShellsort(keys, end, cmp, start);
#else
   SPxQuicksort(keys, end, cmp, start, type != 0);
#endif
}
