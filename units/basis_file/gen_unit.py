#!/usr/bin/env python3
"""Writes unit.json of the C14 unit `basis_file` (run after editing; the json is what the tools read)."""
import json
import os

HPP = "src/soplex/spxbasis.hpp"
BH = "src/soplex/spxbasis.h"
MH = "src/soplex/mpsinput.h"

def sl(name, file, sig, must=None, nth=0):
    d = {"as": name + ".inc", "file": file, "sig": sig}
    if must:
        d["must_contain"] = must
    if nth:
        d["nth"] = nth
    return d

COMMON = [
    sl("Desc_rowStatus_r", BH, r"Status\s+rowStatus\s*\(\s*int\s+i\s*\)\s*const", [r"rowstat\[i\]"]),
    sl("Desc_colStatus_r", BH, r"Status\s+colStatus\s*\(\s*int\s+i\s*\)\s*const", [r"colstat\[i\]"]),
    sl("dualRowStatus", HPP, r"SPxBasisBase<R>::dualRowStatus\s*\(\s*int\s+i\s*\)\s*const", [r"theLP->rhs\(i\)", r"theLP->lhs\(i\)"]),
    sl("dualColStatus", HPP, r"SPxBasisBase<R>::dualColStatus\s*\(\s*int\s+i\s*\)\s*const", [r"upper\(i\)", r"lower\(i\)"]),
    sl("LPRowSet_type", "src/soplex/lprowsetbase.h", r"typename\s+LPRowBase<R>::Type\s+type\s*\(\s*int\s+i\s*\)\s*const", [r"rhs\(i\) >= R\(infinity\)", r"lhs\(i\) <= R\(-infinity\)"]),
    sl("getRowName", HPP, r"static\s+const\s+char\*\s+getRowName\s*\(\s*const\s+SPxLPBase<R>\*\s+lp\s*,\s*int\s+idx\s*,\s*const\s+NameSet\*\s+rnames\s*,\s*char\*\s+buf\s*\)",
       [r'spxSnprintf\(buf, 16, "C%d", idx\)', r"lp->rId\(idx\)"]),
    sl("getColName", HPP, r"static\s+const\s+char\*\s+getColName\s*\(\s*const\s+SPxLPBase<R>\*\s+lp\s*,\s*int\s+idx\s*,\s*const\s+NameSet\*\s+cnames\s*,\s*char\*\s+buf\s*\)",
       [r'spxSnprintf\(buf, 16, "x%d", idx\)', r"lp->cId\(idx\)"]),
    sl("MPS_section", MH, r"Section\s+section\s*\(\s*\)\s*const", [r"return\s+m_section;"]),
    sl("MPS_field0", MH, r"const\s+char\*\s+field0\s*\(\s*\)\s*const", [r"return\s+m_f0;"]),
    sl("MPS_field1", MH, r"const\s+char\*\s+field1\s*\(\s*\)\s*const", [r"return\s+m_f1;"]),
    sl("MPS_field2", MH, r"const\s+char\*\s+field2\s*\(\s*\)\s*const", [r"return\s+m_f2;"]),
    sl("MPS_field3", MH, r"const\s+char\*\s+field3\s*\(\s*\)\s*const", [r"return\s+m_f3;"]),
    sl("MPS_hasError", MH, r"bool\s+hasError\s*\(\s*\)\s*const", [r"return\s+m_has_error;"]),
    sl("MPS_setSection", MH, r"void\s+setSection\s*\(\s*Section\s+p_section\s*\)", [r"m_section = p_section;"]),
    sl("MPS_syntaxError", MH, r"void\s+syntaxError\s*\(\s*\)", [r"m_section = ENDATA;", r"m_has_error = true;"]),
]
S_WRITE = sl("writeBasis", HPP, r"void\s+SPxBasisBase<R>::writeBasis\s*\(\s*std::ostream&\s+os\s*,\s*const\s+NameSet\*\s+rowNames\s*,\s*const\s+NameSet\*\s+colNames\s*,\s*const\s+bool\s+cpxFormat\s*\)\s*const",
             [r"thedesc\.colStatus\(col\) > 0", r"thedesc\.rowStatus\(row\) < 0", r'os << " XU ";', r'os << " UL "'])
S_READ = sl("readBasis", HPP, r"bool\s+SPxBasisBase<R>::readBasis\s*\(\s*std::istream&\s+is\s*,\s*const\s+NameSet\*\s+rowNames\s*,\s*const\s+NameSet\*\s+colNames\s*\)",
            [r"std::stringstream name;", r'name << "x" << j;', r'name << "C" << i;', r"loadDesc\(l_desc\);", r'!strcmp\(mps\.field1\(\), "XU"\)'])

def conf(file, regex, why):
    return {"file": file, "regex": regex, "why": why}

CONFORMANCE = [
    conf(BH, r"DataArray\s*<\s*Status\s*>\s+rowstat;.*?DataArray\s*<\s*Status\s*>\s+colstat;", "Desc members"),
    conf(BH, r"SPxSolverBase<R>\*\s+theLP;", "host member theLP (stub type: the LP part only)"),
    conf(BH, r"Desc\s+thedesc;", "host member"),
    conf(BH, r"SPxStatus\s+thestatus;", "host member"),
    conf(BH, r"SPxStatus\s+status\(\)\s*const\s*\{\s*return\s+thestatus;", "status()"),
    conf(BH, r"virtual\s+void\s+loadDesc\(const\s+Desc&\);", "loadDesc stub"),
    conf(BH, r"virtual\s+void\s+load\(SPxSolverBase<R>\*\s+lp,\s*bool\s+initSlackBasis\s*=\s*true\);", "load stub"),
    conf(BH, r"void\s+setStatus\(SPxStatus\s+stat\)", "setStatus stub"),
    conf("src/soplex/datakey.h", r"int\s+info;[^\n]*\n\s*int\s+idx;", "DataKey stub members"),
    conf("src/soplex/spxid.h", r"ROW_ID\s*=\s*-1,.*?COL_ID\s*=\s*1", "row ids carry info -1, column ids +1"),
    conf("src/soplex/nameset.h", r"const\s+char\*\s+operator\[\]\(const\s+DataKey&\s+pkey\)\s*const", "NameSet stub"),
    conf("src/soplex/nameset.h", r"int\s+number\(const\s+char\*\s+str\)\s*const", "NameSet stub"),
    conf("src/soplex/nameset.h", r"bool\s+has\(const\s+DataKey&\s+pkey\)\s*const", "NameSet stub"),
    conf("src/soplex/nameset.h", r"void\s+add\(DataKey&\s+key,\s*const\s+char\*\s+str\);", "NameSet stub"),
    conf("src/soplex/nameset.h", r"void\s+reMax\(int\s+newmax\s*=\s*0\);", "NameSet stub"),
    conf("src/soplex/spxalloc.h", r"inline void spx_alloc\(T& p, int n = 1\)", "spx_alloc stub"),
    conf("src/soplex/spxalloc.h", r"inline void spx_free\(T& p\)\s*\{\s*assert\(p != nullptr\);\s*free\(p\);\s*p = nullptr;\s*\}", "spx_free stub nulls the pointer"),
    conf("src/soplex/spxdefines.h", r"inline int spxSnprintf\(\s*char\*\s+t,[^)]*?size_t\s+len,[^)]*?const char\*\s+s,[^)]*?\.\.\.", "spxSnprintf(t, len, format, ...)"),
    conf("src/soplex/spxlpbase.h", r"SPxRowId\s+rId\(int\s+n\)\s*const", "LP stub"),
    conf("src/soplex/spxlpbase.h", r"SPxColId\s+cId\(int\s+n\)\s*const", "LP stub"),
    conf("src/soplex/spxsolver.h", r"SPxRowId\s+rowId\(int\s+i\)\s*const", "LP stub"),
    conf("src/soplex/spxsolver.h", r"SPxColId\s+colId\(int\s+i\)\s*const", "LP stub"),
    conf("src/soplex.h", r"DataArray<\s*RangeType\s*>\s+_rowTypes;", "writeBasisFile host member"),
    conf("src/soplex.h", r"DataArray<typename\s+SPxSolverBase<R>::VarStatus\s*>\s+_basisStatusRows;\s*DataArray<typename\s+SPxSolverBase<R>::VarStatus\s*>\s+_basisStatusCols;", "writeBasisFile host members"),
    conf("src/soplex.h", r"bool\s+_hasBasis;", "writeBasisFile host member"),
    conf("src/soplex.h", r"bool\s+_isRealLPLoaded;", "writeBasisFile host member"),
    conf("src/soplex/nameset.h", r"bool\s+has\(int\s+pnum\)\s*const", "NameSet stub (positional)"),
    conf("src/soplex/nameset.h", r"const\s+char\*\s+operator\[\]\(int\s+pnum\)\s*const", "NameSet stub (positional)"),
    conf("src/soplex/spxsolver.h", r"virtual\s+bool\s+writeBasisFile\(const\s+char\*\s+filename,\s*const\s+NameSet\*\s+rowNames,\s*const\s+NameSet\*\s+colNames,\s*const\s+bool\s+cpxFormat\s*=\s*false\)\s*const;", "delegation stub"),
    conf("src/soplex/spxdefines.cpp", r"const Real infinity\s*=\s*SOPLEX_DEFAULT_INFINITY;", "the global `infinity`"),
    conf(MH, r"Section\s+m_section;.*?bool\s+m_has_error;.*?const char\*\s+m_f0;.*?const char\*\s+m_f1;.*?const char\*\s+m_f2;.*?const char\*\s+m_f3;", "MPSInput stub members"),
    conf(MH, r"explicit\s+MPSInput\(std::istream&\s+p_input\)\s*:\s*m_section\(NAME\)", "MPSInput starts in section NAME without error"),
    conf("src/soplex/mpsinput.cpp", r"m_f0 = m_f1 = m_f2 = m_f3 = m_f4 = m_f5 = nullptr;.*?if\(\*m_buf != BLANK\)\s*\{\s*m_f0 = strtok\(&m_buf\[0\], \" \"\);.*?m_f1 = strtok\(nullptr, \" \"\);\s*return true;\s*\}",
         "readLine: all fields reset; a section line sets field0 (+ optionally field1) only"),
]
S_WRITEFILE = sl("writeBasisFile", "src/soplex.hpp", r"bool\s+SoPlexBase<R>::writeBasisFile\s*\(\s*const\s+char\*\s+filename\s*,\s*const\s+NameSet\*\s+rowNames\s*,\s*const\s+NameSet\*\s+colNames\s*,\s*const\s+bool\s+cpxFormat\s*\)\s*const",
                 [r"_basisStatusCols\[col\] == SPxSolverBase<R>::BASIC", r"_basisStatusRows\[row\] != SPxSolverBase<R>::BASIC", r'file << " XU ";', r"std::ofstream file\(filename\);", r'file << \("x" \+ std::to_string\(col\)\);'])
EXTRACTS = [
    {"as": "Solver_VarStatus.inc", "file": "src/soplex/spxsolver.h", "regex": r"enum VarStatus\s*\{.*?\};"},
    {"as": "RangeType.inc", "file": "src/soplex.h", "regex": r"typedef enum\s*\{[^{}]*?RANGETYPE_FREE = 0,[^{}]*?\}\s*RangeType;"},
    {"as": "SPxBasis_SPxStatus.inc", "file": BH, "regex": r"enum SPxStatus\s*\{.*?\};"},
    {"as": "Desc_Status.inc", "file": BH, "regex": r"enum Status\s*\{\s*P_ON_LOWER\b.*?\};"},
    {"as": "LPRow_Type.inc", "file": "src/soplex/lprowbase.h", "regex": r"enum Type\s*\{.*?\};"},
    {"as": "MPS_Section.inc", "file": MH, "regex": r"enum Section\s*\{.*?\};"},
]
CONSTANTS = [
    {"name": "VERIF_SOPLEX_INFINITY", "file": "src/soplex/spxdefines.h", "regex": r"typedef\s+double\s+Real;.*?#define\s+SOPLEX_DEFAULT_INFINITY\s+([0-9.eE+]+)\s"},
]

# ---------------------------------------------------------------------------------------------- writer loops
G1 = "(0 <= g_c1 && g_c1 < g_nc)"
G2 = "(0 <= g_c2 && g_c2 < g_nc)"
GR = "(0 <= g_r && g_r < g_nr)"
def imp(a, b):
    return "(!(%s) || (%s))" % (a, b)
class Enc:
    """status encoding of the two writers: Desc::Status (SPxBasisBase::writeBasis) / VarStatus (SoPlexBase::writeBasisFile)"""
    def __init__(self, file_variant):
        self.f = file_variant
    def cb(self, c):
        return ("gp_cs[%s] == g_BASIC" if self.f else "gp_cs[%s] > 0") % c
    def rnb(self, r):
        return ("gp_rs[%s] != g_BASIC" if self.f else "gp_rs[%s] < 0") % r
    def cup(self, c):
        return ("gp_cs[%s] == g_ONUP" if self.f else "gp_cs[%s] == g_PU") % c
    def rng(self, r):
        if self.f:
            return "(gp_rt[%s] == g_BOXED)" % r
        return "(!(gp_rhs[%s] >= g_inf) && !(gp_lhs[%s] <= -g_inf) && gp_lhs[%s] != gp_rhs[%s])" % (r, r, r, r)
    def wk(self, r):
        return "((gp_rs[%s] == %s && (!g_cpx || %s)) ? 1 : 2)" % (r, "g_ONUP" if self.f else "g_PU", self.rng(r))
    def coldone(self, c, p):
        seen, kind, row = p + "_seen", p + "_kind", p + "_row"
        return ("((%s) ? (%s == 1 && 0 <= %s && %s < row && (%s) && %s == %s) : (%s) ? (%s == 1 && %s == 3 && %s == -1) : %s == 0)"
                % (self.cb(c), seen, row, row, self.rnb(row), kind, self.wk(row), self.cup(c), seen, kind, row, seen))

def writer_invariants(e, extra_idle="", extra_outer=None):
    outer = [
        "0 <= col && col <= g_nc && 0 <= row && row <= g_nr",
        "gp_cb[col] == gp_nrw[row]",
        "g_malformed == 0 && g_header == 1 && g_endata == 0 && g_cur_kind == 0 && g_cur_col == -1 && g_cur_row == -1" + extra_idle,
        "0 <= g_nrec && g_nrec <= col && 0 <= g_c1_seen && g_c1_seen <= 1 && 0 <= g_c2_seen && g_c2_seen <= 1 && 0 <= g_r_seen && g_r_seen <= 1",
        imp(G1, "col <= g_c1 ? g_c1_seen == 0 : " + e.coldone("g_c1", "g_c1")),
        imp(G2, "col <= g_c2 ? g_c2_seen == 0 : " + e.coldone("g_c2", "g_c2")),
        imp(G1 + " && " + G2 + " && g_c1 < g_c2 && col > g_c2 && (%s) && (%s)" % (e.cb("g_c1"), e.cb("g_c2")), "g_c1_row < g_c2_row"),
        imp(GR, "row <= g_r ? (g_r_seen == 0 && gp_nrw[row] <= gp_nrw[g_r]) : ((%s) ? (g_r_seen == 1 && 0 <= g_r_col && g_r_col < col && (%s) && g_r_kind == %s) : g_r_seen == 0)"
            % (e.rnb("g_r"), e.cb("g_r_col"), e.wk("g_r"))),
    ] + (extra_outer or [])
    inner = [
        "0 <= row && row <= g_nr && 0 <= col && col < g_nc",
        "gp_cb[col] == gp_nrw[row]",
        imp(G1 + " && col > g_c1 && (%s)" % e.cb("g_c1"), "g_c1_row < row"),
        imp(G2 + " && col > g_c2 && (%s)" % e.cb("g_c2"), "g_c2_row < row"),
        imp(GR, "row <= g_r ? (g_r_seen == 0 && gp_nrw[row] <= gp_nrw[g_r]) : ((%s) ? g_r_seen == 1 : g_r_seen == 0)" % e.rnb("g_r")),
    ]
    return outer, inner

W_OUTER_ASSIGNS = ["col", "row", "gp_buf", "g_buf_letter", "g_buf_idx", "g_cur_kind", "g_cur_col", "g_cur_row", "g_malformed", "g_nrec",
                   "g_header", "g_endata", "g_c1_seen", "g_c1_kind", "g_c1_row", "g_c2_seen", "g_c2_kind", "g_c2_row", "g_r_seen", "g_r_kind", "g_r_col"]
WFN = r"H::body\(.*this\)"
def writer_loops(outer, inner):
    o, i = writer_invariants(Enc(False), extra_outer=["gp_buf == 0 || gp_buf == buf"])
    return [
        {"function": WFN, "loop": outer, "locals": ["col", "row", "buf"], "invariants": o, "assigns": W_OUTER_ASSIGNS, "decreases": "g_nc - col"},
        {"function": WFN, "loop": inner, "locals": ["col", "row"], "invariants": i, "assigns": ["row"], "decreases": "g_nr - row"},
    ]
def writefile_loops(outer, inner, name_fields):
    extra = ["0 <= g_name_split && g_name_split <= 2 * col"] if not name_fields else ["g_name_split == 0"]
    o, i = writer_invariants(Enc(True), extra_idle=" && g_pend_letter == 0 && g_width == 0", extra_outer=extra)
    return [
        {"function": WFN, "loop": outer, "locals": ["col", "row"], "invariants": o,
         "assigns": [a for a in W_OUTER_ASSIGNS if not a.startswith("g_buf") and a != "gp_buf"] + ["g_width", "g_pend_letter", "g_name_split"], "decreases": "g_nc - col"},
        {"function": WFN, "loop": inner, "locals": ["col", "row"], "invariants": i, "assigns": ["row"], "decreases": "g_nr - row"},
    ]

TRUSTED = [
    "std::ostream (writeBasis) / std::ofstream (writeBasisFile) are ghost-recording stubs: a small state machine assembles the inserted tokens into records <indicator> <column name> [<row name>] <end of line> and publishes the record(s) naming the ghost columns / ghost row; indicator literals are classified by their characters; std::setw pads the NEXT inserted item only (standard semantics; only the ofstream stub models it, to detect blanks inside a two-token name); setf(std::ios::left) is ignored; std::string / std::to_string / `\"<letter>\" + std::string` (default column names of writeBasisFile) are a stub carrying the ghost form (prefix letter, integer value) = the text <letter><decimal digits>, inserted into the ofstream as ONE name field (a padded string gets trailing blanks only); operator+ sits at global scope (the front end has no argument-dependent lookup)",
    "names are abstracted to the (kind, index) of the LP row / column they denote: the name of key k in a supplied NameSet is the address pool + k (NameSet::operator[]), spxSnprintf(buf, 16, \"x%d\"|\"C%d\", idx) leaves its result in ghost state (no characters are written), NameSet::has(key) is arbitrary (any subset of rows/columns may carry a user name); DataKeys are abstracted to positions (key of row/column n = (-1/+1, n)): NameSet key<->name and LP index<->key are assumed injective",
    "valid-descriptor precondition of the writers = as many basic columns as nonbasic rows (the number of basic variables equals the number of rows), given through ghost prefix-count arrays cb / nrw whose defining recurrence (and the consequences 0 <= cnt[n] <= n, monotonicity) is instantiated by __CPROVER_assume in the DataArray accessor at every index the code reads; for every status array the true prefix counts satisfy all instances, so no execution of the real code is excluded",
    "readBasis: std::stringstream is a stub whose state (0 empty, 1 one literal, 2 one literal + one int, 3 longer) lives in ghost variables and is reset by the constructor (and by str(\"\")), so a stream declared inside the loop body is fresh in every iteration while one declared in front of the loop accumulates (one stream is live at a time); NameSet::add(key, str) registers what str() last produced at the next position; NameSet::number(field) returns the position the MPSInput stub chose for that field (-1 = unknown name) and asserts that field2 is looked up in the column set and field3 in the row set",
    "readBasis: MPSInput is a stub with the real data members and the real bodies of section/field0..3/hasError/setSection/syntaxError; readLine() replays an arbitrary line: a section line (field0 = any non-empty token of up to 7 characters, field1 optional, others null) or a data line (field0 null, field1 = any token of up to 3 characters, field2/field3 present up to an arbitrary point), or end of input; this over-approximates mpsinput.cpp (conformance-checked shape); strcmp is an unrolled 8-character comparison",
    "readBasis: spx_alloc / placement new / explicit destructor / spx_free of the temporary NameSets: spx_alloc hands out one of two spare stub objects, `new(p) NameSet()` is mapped to `p` by a macro (the spare is already default-constructed; the temporary the macro creates is destroyed at once, hence 2 destructor calls per set), ~NameSet and spx_free are counted",
    "readBasis: `Desc l_desc(thedesc)` copies into two scratch arrays with UNSPECIFIED contents (readBasis overwrites every entry); load(theLP, false), setStatus(REGULAR), loadDesc(l_desc) are recorded (loadDesc snapshots the descriptor at the ghost indices); supplied name sets have exactly one name per row / column (number() < nRows / nCols): precondition",
    "the contracts of readBasis are relative to LPRowSetBase::type, dualRowStatus, dualColStatus as the REAL bodies compute them at the ghost indices; the same postcondition checks those values against their specification",
    "writeBasisFile (SoPlexBase): _rowTypes is assumed to be dimensioned like _basisStatusRows (it is maintained only while a rational LP is kept, i.e. not in SYNCMODE_ONLYREAL: with cpxFormat = true and an empty _rowTypes the real code reads out of bounds; not reproduced natively); _solver.writeBasisFile is a recorded stub; std::ofstream::good() is arbitrary",
    "sides/bounds at the ghost indices are not NaN (reader); vectors capped at CAP rows / columns (6 quick, 12 thorough): the loop proofs are inductive, the cap bounds the object size only; assert() compiled out, the #ifndef NDEBUG blocks are excluded; termination of the record loop of readBasis is not claimed (it depends on the stream)",
]

def mut(name, slice_, find, replace, regex=False):
    d = {"name": name, "slice": slice_ + ".inc", "find": find, "replace": replace}
    if regex:
        d["regex"] = True
    return d

instances = [
    {"name": "writeBasis", "function": "SPxBasisBase<R>::writeBasis(std::ostream& os, const NameSet* rowNames, const NameSet* colNames, const bool cpxFormat) const",
     "defines": {"INST_WRITE": ""}, "harness": "h_writeBasis", "enforce": "w_writeBasis",
     "slices": COMMON + [S_WRITE], "loops": writer_loops(1, 0), "min_obligations": 300, "tier": "quick", "expected_s": 60,
     "mutants": [
         mut("xu_xl_swapped", "writeBasis", 'os << " XU ";\n         else\n            os << " XL ";', 'os << " XL ";\n         else\n            os << " XU ";'),
         mut("row_cursor_not_advanced", "writeBasis", "            << std::endl;\n\n         row++;", "            << std::endl;\n"),
         mut("basic_rows_paired", "writeBasis", "if(thedesc.rowStatus(row) < 0)\n               break;", "if(thedesc.rowStatus(row) > 0)\n               break;"),
         mut("ul_for_lower", "writeBasis", "if(thedesc.colStatus(col) == Desc::P_ON_UPPER)", "if(thedesc.colStatus(col) == Desc::P_ON_LOWER)"),
         mut("row_name_for_column", "writeBasis", 'os << std::setw(8) << getColName(theLP, col, colNames, buf);', 'os << std::setw(8) << getRowName(theLP, col, colNames, buf);'),
         mut("cpx_range_ignored", "writeBasis", "|| theLP->LPRowSetBase<R>::type(row) == LPRowBase<R>::RANGE))", "|| theLP->LPRowSetBase<R>::type(row) == LPRowBase<R>::EQUAL))"),
     ]},
]


# ---------------------------------------------------------------------------------------------- reader loops
RFN = r"H::body\(this\)"
TC = "(g_lastc == 0 ? g_defc : (g_lastc == 1 || g_lastc == 2) ? g_dualc : g_lastc == 3 ? g_PU : g_PL)"
TR = "(g_lastr == 0 ? g_defr : g_lastr == 1 ? (g_type_r == g_GE ? g_PL : g_type_r == g_EQ ? g_PF : g_PU) : (g_type_r == g_LE ? g_PU : g_type_r == g_EQ ? g_PF : g_PL))"
ROWSET = "(g_usecols ? 2 : 3)"
def reader_loops(ids, exact_names):
    """ids: CBMC loop ordinals of (column names, row names, row init, column init, record loop); locals by symbol suffix"""
    cn, rn, ri, ci, w = ids
    L = []
    inv_cn = ["0 <= j && j <= g_nc", "g_ns_num[2] == j && g_ns_num[3] == 0 && g_ns_num[0] == g_nr && g_ns_num[1] == g_nc", "g_alloc == 1 && g_usecols == 0 && g_freed == 0"]
    inv_rn = ["0 <= i && i <= g_nr", "g_ns_num[%s] == i" % ROWSET, "g_userows == 0 && g_freed == 0 && g_alloc == 2 - g_usecols",
              imp("!g_usecols", "g_ns_num[2] == g_nc"), "g_ns_num[0] == g_nr && g_ns_num[1] == g_nc"]
    if exact_names:
        inv_cn.append(imp(G1, "j <= g_c1 ? g_regc_cnt == 0 : (g_regc_cnt == 1 && g_regc_form == 2 && g_regc_lit == 120 && g_regc_val == g_c1)"))
        inv_rn.append(imp(GR, "i <= g_r ? g_regr_cnt == 0 : (g_regr_cnt == 1 && g_regr_form == 2 && g_regr_lit == 67 && g_regr_val == g_r)"))
    else:
        inv_cn.append("0 <= g_regc_cnt && g_regc_cnt <= 1")
        inv_rn.append("0 <= g_regr_cnt && g_regr_cnt <= 1")
        inv_cn.append(imp(G1, "j <= g_c1 ? g_regc_cnt == 0 : 1"))
        inv_rn.append(imp(GR, "i <= g_r ? g_regr_cnt == 0 : 1"))
    ss = ["g_ss_form", "g_ss_lit", "g_ss_val", "g_str_form", "g_str_lit", "g_str_val"]
    L.append({"function": RFN, "loop": cn, "locals": ["j"], "invariants": inv_cn,
              "assigns": ["j", "__CPROVER_object_whole(g_ns_num)", "__CPROVER_object_whole(g_ns_iscol)", "g_regc_cnt", "g_regc_form", "g_regc_lit", "g_regc_val"] + ss,
              "decreases": "g_nc - j"})
    L.append({"function": RFN, "loop": rn, "locals": [["i", "2::1::i"]], "invariants": inv_rn,
              "assigns": ["i", "__CPROVER_object_whole(g_ns_num)", "__CPROVER_object_whole(g_ns_iscol)", "g_regr_cnt", "g_regr_form", "g_regr_lit", "g_regr_val"] + ss,
              "decreases": "g_nr - i"})
    L.append({"function": RFN, "loop": ri, "locals": [["i", "3::i"]],
              "invariants": ["0 <= i && i <= g_nr", imp(GR + " && i > g_r", "gp_rs[g_r] == g_defr")],
              "assigns": ["i", "__CPROVER_object_whole(gp_rs)"], "decreases": "g_nr - i"})
    L.append({"function": RFN, "loop": ci, "locals": [["i", "4::i"]],
              "invariants": ["0 <= i && i <= g_nc", imp(G1 + " && i > g_c1", "gp_cs[g_c1] == g_defc")],
              "assigns": ["i", "__CPROVER_object_whole(gp_cs)"], "decreases": "g_nc - i"})
    L.append({"function": RFN, "loop": w, "locals": ["mps"],
              "invariants": ["*gp_mps_has_error == 0 && *gp_mps_section == g_SEC_NAME",
                             "0 <= g_lastc && g_lastc <= 4 && (g_lastr == 0 || g_lastr == 1 || g_lastr == 2)",
                             imp(G1, "gp_cs[g_c1] == " + TC), imp(GR, "gp_rs[g_r] == " + TR),
                             "g_bad_lookup == 0 && g_unknown == 0 && g_loaddesc_calls == 0 && g_setstatus_calls == 0"],
              "assigns": ["__CPROVER_object_whole(gp_mps)", "__CPROVER_object_whole(gp_rs)", "__CPROVER_object_whole(gp_cs)", "g_line_kind", "g_line_c", "g_line_r",
                          "g_line_data", "g_lastc", "g_lastr", "g_unknown", "g_bad_lookup"]})
    return L

R_MUTANTS = [
    mut("xu_row_at_lower", "readBasis", "else\n               l_desc.rowstat[r] = Desc::P_ON_UPPER;\n         }\n         else if(!strcmp(mps.field1(), \"XL\"))", "else\n               l_desc.rowstat[r] = Desc::P_ON_LOWER;\n         }\n         else if(!strcmp(mps.field1(), \"XL\"))"),
    mut("ul_ll_swapped", "readBasis", "l_desc.colstat[c] = Desc::P_ON_UPPER;\n         }\n         else if(!strcmp(mps.field1(), \"LL\"))", "l_desc.colstat[c] = Desc::P_ON_LOWER;\n         }\n         else if(!strcmp(mps.field1(), \"LL\"))"),
    mut("xl_column_not_basic", "readBasis", "else if(!strcmp(mps.field1(), \"XL\"))\n         {\n            l_desc.colstat[c] = dualColStatus(c);", "else if(!strcmp(mps.field1(), \"XL\"))\n         {\n            l_desc.colstat[c] = Desc::P_ON_LOWER;"),
    mut("unknown_column_accepted", "readBasis", "if((c = cNames->number(mps.field2())) < 0)\n            break;", "if((c = cNames->number(mps.field2())) < -1)\n            break;"),
    mut("row_status_on_column_index", "readBasis", "l_desc.rowstat[r] = Desc::P_ON_UPPER;\n         }\n         else if(!strcmp(mps.field1(), \"XL\"))", "l_desc.rowstat[c] = Desc::P_ON_UPPER;\n         }\n         else if(!strcmp(mps.field1(), \"XL\"))"),
    mut("load_without_endata", "readBasis", "if(mps.section() == MPSInput::ENDATA)\n      {", "if(mps.section() == MPSInput::NAME)\n      {"),
    mut("default_free_column_at_lower", "readBasis", "l_desc.colstat[i] = Desc::P_FREE;", "l_desc.colstat[i] = Desc::P_ON_LOWER;"),
    mut("basic_rows_start_nonbasic", "readBasis", "l_desc.rowstat[i] = dualRowStatus(i);", "l_desc.rowstat[i] = Desc::P_ON_LOWER;"),
]
READ_IDS = (0, 1, 2, 3, 4)
instances += [
    {"name": "readBasis", "function": "SPxBasisBase<R>::readBasis(std::istream& is, const NameSet* rowNames, const NameSet* colNames) [name sets supplied]",
     "defines": {"INST_READ": "", "USER_NAMES": ""}, "harness": "h_readBasis", "enforce": "w_readBasis",
     "slices": COMMON + [S_READ], "loops": reader_loops(READ_IDS, False), "min_obligations": 300, "tier": "quick", "expected_s": 60,
     "mutants": R_MUTANTS},
    {"name": "readBasis_default_names", "function": "SPxBasisBase<R>::readBasis(std::istream& is, const NameSet* rowNames, const NameSet* colNames) [any combination of supplied / default name sets]",
     "defines": {"INST_READ": ""}, "harness": "h_readBasis", "enforce": "w_readBasis",
     "slices": COMMON + [S_READ], "loops": reader_loops(READ_IDS, False), "min_obligations": 300, "tier": "quick", "expected_s": 90,
     "mutants": [
         mut("row_set_not_freed", "readBasis", "p_rowNames->~NameSet();\n      spx_free(p_rowNames);", "p_rowNames->~NameSet();"),
         mut("row_names_one_short", "readBasis", "for(int i = 0; i < nRows; ++i)\n      {\n         std::stringstream name;", "for(int i = 0; i < nRows - 1; ++i)\n      {\n         std::stringstream name;"),
     ]},
    {"name": "readBasis_default_names_exact", "function": "SPxBasisBase<R>::readBasis(...) [clause: the default name registered for column j / row i is exactly x<j> / C<i>]",
     "defines": {"INST_READ": "", "CLAUSE_DEFAULT_NAMES_EXACT": ""}, "harness": "h_readBasis", "enforce": "w_readBasis",
     "slices": COMMON + [S_READ], "loops": reader_loops(READ_IDS, True), "min_obligations": 300, "tier": "quick", "expected_s": 90,
     "mutants": [
         mut("column_letter", "readBasis", "name << \"x\" << j;", "name << \"y\" << j;"),
         mut("row_number_off_by_one", "readBasis", "name << \"C\" << i;", "name << \"C\" << i + 1;"),
         # re-introduce the fixed defect (d812fcf): one stream declared in front of the loop, never cleared => x0, x0x1, ...
         mut("column_stream_outside_loop", "readBasis", "for(int j = 0; j < nCols; ++j)\n      {\n         std::stringstream name;", "std::stringstream name;\n\n      for(int j = 0; j < nCols; ++j)\n      {"),
         mut("row_stream_outside_loop", "readBasis", "for(int i = 0; i < nRows; ++i)\n      {\n         std::stringstream name;", "std::stringstream name;\n\n      for(int i = 0; i < nRows; ++i)\n      {"),
     ]},
]


WF_MUTANTS = [
    mut("xu_xl_swapped", "writeBasisFile", 'file << " XU ";\n            else\n               file << " XL ";', 'file << " XL ";\n            else\n               file << " XU ";'),
    mut("row_cursor_not_advanced", "writeBasisFile", 'file << "\\n";\n            row++;', 'file << "\\n";'),
    mut("basic_rows_paired", "writeBasisFile", "if(_basisStatusRows[row] != SPxSolverBase<R>::BASIC)\n                  break;", "if(_basisStatusRows[row] == SPxSolverBase<R>::BASIC)\n                  break;"),
    mut("ul_for_lower", "writeBasisFile", "if(_basisStatusCols[col] == SPxSolverBase<R>::ON_UPPER)", "if(_basisStatusCols[col] == SPxSolverBase<R>::ON_LOWER)"),
    mut("writes_although_loaded", "writeBasisFile", "if(_isRealLPLoaded)", "if(_isRealLPLoaded && _hasBasis)"),
    mut("default_column_name_of_row", "writeBasisFile", 'file << ("x" + std::to_string(col));\n\n            file << "       ";', 'file << ("x" + std::to_string(row));\n\n            file << "       ";'),
    mut("default_column_name_letter", "writeBasisFile", 'file << ("x" + std::to_string(col));\n\n               file << "\\n";', 'file << ("C" + std::to_string(col));\n\n               file << "\\n";'),
]
instances += [
    {"name": "writeBasisFile_unloaded", "function": "SoPlexBase<R>::writeBasisFile(const char* filename, const NameSet* rowNames, const NameSet* colNames, const bool cpxFormat) const",
     "defines": {"INST_WRITEFILE": ""}, "harness": "h_writeBasisFile", "enforce": "w_writeBasisFile",
     "slices": COMMON + [S_WRITEFILE], "loops": writefile_loops(1, 0, False), "min_obligations": 300, "tier": "quick", "expected_s": 60,
     "mutants": WF_MUTANTS},
    {"name": "writeBasisFile_unloaded_name_fields", "function": "SoPlexBase<R>::writeBasisFile(...) const [clause: every name is written as one blank-free field]",
     "defines": {"INST_WRITEFILE": "", "CLAUSE_NAME_FIELDS": ""}, "harness": "h_writeBasisFile", "enforce": "w_writeBasisFile",
     "slices": COMMON + [S_WRITEFILE], "loops": writefile_loops(1, 0, True), "min_obligations": 300, "tier": "quick", "expected_s": 60,
     "mutants": [
         mut("setw_before_row_name", "writeBasisFile", 'file << "       ";', 'file << "       " << std::setw(8);'),
         # re-introduce the fixed defect (27c7e8b): the stand-alone setw(8) is consumed by the letter => `x       <col>`
         mut("default_column_name_two_tokens", "writeBasisFile", 'file << ("x" + std::to_string(col));\n\n            file << "       ";', 'file << "x" << col;\n\n            file << "       ";'),
         mut("default_column_name_two_tokens_ul", "writeBasisFile", 'file << ("x" + std::to_string(col));\n\n               file << "\\n";', 'file << "x" << col;\n\n               file << "\\n";'),
     ]},
]

unit = {
    "property": ["C14"],
    "desc": "basis files: SPxBasisBase<R>::writeBasis and readBasis (spxbasis.hpp) and the unloaded-LP branch of SoPlexBase<R>::writeBasisFile (soplex.hpp) over ghost-recording stream / string / name-set / MPSInput stubs",
    "rmode": "R = double (IEEE, bit-precise; only comparisons with +-infinity and equality of bounds are used)",
    "defines": {"CAP": "6"}, "defines_thorough": {"CAP": "12"}, "defines_small": {"CAP": "3"},
    "flags": ["--bounds-check", "--pointer-check", "--signed-overflow-check"],
    "timeout_s": 400,
    "extracts": EXTRACTS, "constants": CONSTANTS, "conformance": CONFORMANCE,
    "trusted": TRUSTED,
    "replay": {"cpp": "replay.cpp", "asan": False, "extra_src": ["LIB"]},
    "instances": instances,
}
json.dump(unit, open(os.path.join(os.path.dirname(os.path.abspath(__file__)), "unit.json"), "w"), indent=1)
print("wrote unit.json with", len(instances), "instances")
