/* Native replay for units/basis_file on the REAL code (header templates of the current tree + the non-template sources):
 *   readBasis_default_names_exact         an LP with nr rows / nc columns, a valid basis with a nonbasic-at-upper last column;
 *                                          writeBasisFile(f, nullptr, nullptr) then readBasisFile(f, nullptr, nullptr) must
 *                                          succeed and restore the statuses (that is what "the registered default name of
 *                                          column j is x<j>" is needed for)
 *   writeBasisFile_unloaded_name_fields   the basis kept outside the solver (FORCED state: _isRealLPLoaded = false, as
 *                                          during a solve on a presolved copy) written with default names: every record
 *                                          line must consist of exactly <indicator> <column> [<row>] */
#include <sstream>
#include <iostream>
#include <fstream>
#include <string>
#include <vector>
#include <memory>
#include <map>
#include <algorithm>
#include <iomanip>
#include <boost/multiprecision/gmp.hpp>
#include <boost/multiprecision/mpfr.hpp>
#include "replay_util.h"
#define private public
#define protected public
#include "soplex.h"
#undef private
#undef protected
using namespace soplex;

static void build(SoPlex& s, int nr, int nc)
{
   s.setIntParam(SoPlex::VERBOSITY, 0);
   DSVector e(0);
   for(int j = 0; j < nc; j++) s.addColReal(LPCol(1.0, e, 10.0, 0.0));
   for(int i = 0; i < nr; i++)
   {
      DSVector r(nc);
      for(int j = 0; j < nc; j++) r.add(j, 1.0 + i + j);
      s.addRowReal(LPRow(1.0, r, 5.0 + i));
   }
}
int main(int argc, char** argv)
{
   if(argc < 3) return 2;
   ReplayIn in(argv[1]);
   std::string inst = argv[2];
   std::string dir = argv[1];
   dir = dir.substr(0, dir.find_last_of('/') + 1);
   std::string fn = dir + "replay.bas";
   int nr = (int)in.geti("nr", 1), nc = (int)in.geti("nc", 2);
   if(nr < 0 || nc < 0 || nr > 100 || nc > 100) return 2;
   if(inst == "readBasis_default_names_exact")
   {
      if(in.geti("usecolnames", 0) != 0 && in.geti("userownames", 0) != 0) { std::cout << "name sets supplied: clause vacuous" << std::endl; return 0; }
      SoPlex s; build(s, nr, nc);
      std::vector<SPxSolver::VarStatus> rows(nr, SPxSolver::BASIC), cols(nc, SPxSolver::ON_LOWER);
      if(nc > 0) cols[nc - 1] = SPxSolver::ON_UPPER;
      s.setBasis(rows.data(), cols.data());
      bool w = s.writeBasisFile(fn.c_str(), nullptr, nullptr);
      bool rd = s.readBasisFile(fn.c_str(), nullptr, nullptr);
      std::cout << "nr=" << nr << " nc=" << nc << " write=" << w << " read=" << rd << std::endl;
      if(!w) return 2;
      if(!rd) REPLAY_FAIL("a basis file written with default names cannot be read back with default names");
      for(int j = 0; j < nc; j++)
         if(s.basisColStatus(j) != cols[j]) REPLAY_FAIL("column status not restored");
      for(int i = 0; i < nr; i++)
         if(s.basisRowStatus(i) != rows[i]) REPLAY_FAIL("row status not restored");
      REPLAY_OK();
   }
   if(inst == "writeBasisFile_unloaded_name_fields")
   {
      if(in.geti("loaded", 0) != 0) { std::cout << "loaded LP: delegated to the solver" << std::endl; return 0; }
      for(int attempt = 0; attempt < 2; attempt++)
      {
         int r = attempt == 0 ? nr : 1, c = attempt == 0 ? nc : 2;
         SoPlex s; build(s, r, c);
         std::vector<int> rs = in.getarr("rowstat", r, 1000), cs = in.getarr("colstat", c, 1000);
         s._basisStatusRows.reSize(r); s._basisStatusCols.reSize(c); s._rowTypes.reSize(r);
         for(int i = 0; i < r; i++) { s._basisStatusRows[i] = (attempt == 0 && rs[i] >= 0 && rs[i] <= 4) ? (SPxSolver::VarStatus)rs[i] : SPxSolver::ON_UPPER; s._rowTypes[i] = SoPlex::RANGETYPE_BOXED; }
         for(int j = 0; j < c; j++) s._basisStatusCols[j] = (attempt == 0 && cs[j] >= 0 && cs[j] <= 4) ? (SPxSolver::VarStatus)cs[j] : (j == 0 ? SPxSolver::BASIC : SPxSolver::ON_UPPER);
         int nbasic = 0, nnonbasicrows = 0;
         for(int j = 0; j < c; j++) nbasic += (s._basisStatusCols[j] == SPxSolver::BASIC);
         for(int i = 0; i < r; i++) nnonbasicrows += (s._basisStatusRows[i] != SPxSolver::BASIC);
         if(nbasic != nnonbasicrows) { std::cout << "attempt " << attempt << ": statuses of the trace do not form a valid basis, skipped" << std::endl; continue; }
         s._hasBasis = true;
         bool was = s._isRealLPLoaded;
         s._isRealLPLoaded = false;
         bool w = s.writeBasisFile(fn.c_str(), nullptr, nullptr, in.geti("cpx", 0) != 0);
         s._isRealLPLoaded = was;
         if(!w) return 2;
         std::ifstream f(fn.c_str());
         std::string line;
         int records = 0;
         while(std::getline(f, line))
         {
            std::istringstream is(line);
            std::vector<std::string> t;
            std::string x;
            while(is >> x) t.push_back(x);
            if(t.empty() || line[0] != ' ') continue;
            records++;
            size_t want = (t[0] == "XU" || t[0] == "XL") ? 3 : 2;
            if(t.size() != want)
            {
               std::cout << (attempt == 0 ? "counterexample statuses" : "canonical witness (1 row, 2 columns: BASIC + ON_UPPER)") << ": line \"" << line << "\"" << std::endl;
               REPLAY_FAIL("a record of the basis file has a name split by blanks");
            }
         }
         std::cout << "attempt " << attempt << ": " << records << " records, all well-formed" << std::endl;
      }
      REPLAY_OK();
   }
   std::cout << "no native replay for instance " << inst << std::endl;
   return 0;
}
