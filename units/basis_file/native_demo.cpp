#include "soplex.h"
#include <cstdio>
using namespace soplex;
static const char* nm(SPxSolver::VarStatus s)
{
   switch(s) { case SPxSolver::ON_UPPER: return "ON_UPPER"; case SPxSolver::ON_LOWER: return "ON_LOWER"; case SPxSolver::FIXED: return "FIXED";
   case SPxSolver::ZERO: return "ZERO"; case SPxSolver::BASIC: return "BASIC"; default: return "UNDEFINED"; }
}
static void show(SoPlex& s, const char* tag)
{
   fprintf(stderr, "%s: hasBasis=%d rows:", tag, (int)s.hasBasis());
   for(int i = 0; i < s.numRows(); i++) fprintf(stderr, " %s", nm(s.basisRowStatus(i)));
   fprintf(stderr, " cols:");
   for(int j = 0; j < s.numCols(); j++) fprintf(stderr, " %s", nm(s.basisColStatus(j)));
   fprintf(stderr, "\n");
}
int main(int argc, char** argv)
{
   /* A: default names, 2 columns */
   {
      SoPlex s; s.setIntParam(SoPlex::VERBOSITY, 0);
      DSVector e(0);
      s.addColReal(LPCol(1.0, e, 10.0, 0.0)); s.addColReal(LPCol(1.0, e, 10.0, 0.0));
      DSVector r(2); r.add(0, 1.0); r.add(1, 1.0);
      s.addRowReal(LPRow(1.0, r, 5.0));
      DSVector r2(2); r2.add(0, 1.0); r2.add(1, -1.0);
      s.addRowReal(LPRow(-3.0, r2, 3.0));
      SPxSolver::VarStatus rows[2] = {SPxSolver::ON_UPPER, SPxSolver::ON_LOWER}, cols[2] = {SPxSolver::BASIC, SPxSolver::BASIC};
      s.setBasis(rows, cols);
      show(s, "A before write");
      bool w = s.writeBasisFile("/var/tmp/c15c14.native/a.bas", nullptr, nullptr);
      bool rd = s.readBasisFile("/var/tmp/c15c14.native/a.bas", nullptr, nullptr);
      fprintf(stderr, "A write=%d read=%d\n", (int)w, (int)rd);
      show(s, "A after read ");
   }
   /* B: free nonbasic row, names given via LP file names?  use default names with ONE column so that 6.4 does not interfere */
   {
      SoPlex s; s.setIntParam(SoPlex::VERBOSITY, 0);
      DSVector e(0);
      s.addColReal(LPCol(1.0, e, 10.0, 0.0));
      DSVector r(1); r.add(0, 1.0);
      s.addRowReal(LPRow(-infinity, r, infinity));
      SPxSolver::VarStatus rows[1] = {SPxSolver::ZERO}, cols[1] = {SPxSolver::BASIC};
      s.setBasis(rows, cols);
      show(s, "B before write");
      bool w = s.writeBasisFile("/var/tmp/c15c14.native/b.bas", nullptr, nullptr);
      bool rd = s.readBasisFile("/var/tmp/c15c14.native/b.bas", nullptr, nullptr);
      fprintf(stderr, "B write=%d read=%d\n", (int)w, (int)rd);
      show(s, "B after read ");
   }
   /* C: ZERO on a column with finite lower bound, infinite upper bound, maxObj > 0 */
   {
      SoPlex s; s.setIntParam(SoPlex::VERBOSITY, 0);
      DSVector e(0);
      s.addColReal(LPCol(-1.0, e, infinity, 0.0));
      DSVector r(1); r.add(0, 1.0);
      s.addRowReal(LPRow(-5.0, r, 5.0));
      SPxSolver::VarStatus rows[1] = {SPxSolver::BASIC}, cols[1] = {SPxSolver::ZERO};
      s.setBasis(rows, cols);
      show(s, "C before write");
      bool w = s.writeBasisFile("/var/tmp/c15c14.native/c.bas", nullptr, nullptr);
      bool rd = s.readBasisFile("/var/tmp/c15c14.native/c.bas", nullptr, nullptr);
      fprintf(stderr, "C write=%d read=%d\n", (int)w, (int)rd);
      show(s, "C after read ");
   }
   return 0;
}
