/* C14: SPxBasisBase<R>::writeBasis / readBasis (src/soplex/spxbasis.hpp) at R = double.
 * The two bodies, the static helpers getRowName/getColName, LPRowSetBase::type, Desc::rowStatus/colStatus,
 * dualRowStatus/dualColStatus and MPSInput's small accessors are #included verbatim from slices of the current tree.
 * std::ostream, std::ofstream, std::string, std::stringstream, std::istream + MPSInput::readLine, NameSet, spx_alloc/spx_free, placement new and
 * the LP are ghost-recording stubs (listed under "trusted" in unit.json). */
#include "verif.h"
#include "constants.h"
#include "bf_ghost.h"
typedef double R;
typedef double Real;
static const Real infinity = VERIF_SOPLEX_INFINITY;
#define SPX_MSG_ERROR(x)
#define SPX_DEBUG(x)
#define NDEBUG 1

extern "C" { char nondet_char(void); }

/* ---------------------------------------------------------------------------------------------------------------
 * containers: DataArray with the bounds assertion added; every element access of a descriptor array instantiates the
 * defining recurrence of the ghost prefix-count arrays at the accessed index (writer only, see COUNT_HOOK) */
#if defined(INST_WRITE) || defined(INST_WRITEFILE)
static inline void count_hook(const void* base, int n, int v);   /* defined below, after the enumerations */
#define COUNT_HOOK(data, n) count_hook((const void*)(data), (n), (int)(data)[n])
#else
#define COUNT_HOOK(data, n)
#endif
template <class T>
struct DataArray
{
   T* data; int thesize;
   int size() const { return thesize; }
   T& operator[](int n) { __CPROVER_assert(0 <= n && n < thesize, "DataArray index in bounds"); COUNT_HOOK(data, n); return data[n]; }
   const T& operator[](int n) const { __CPROVER_assert(0 <= n && n < thesize, "DataArray index in bounds"); COUNT_HOOK(data, n); return data[n]; }
};
template <class T>
struct VectorBase
{
   T* val; int dimen;
   const T& operator[](int n) const { __CPROVER_assert(0 <= n && n < dimen, "VectorBase index in bounds"); return val[n]; }
};

/* ---------------------------------------------------------------------------------------------------------------
 * keys and names.  DataKey {info, idx}: conformance-checked.  Keys are abstracted to positions: the key of row/column
 * n is (-1/+1, n) (the real LP hands out arbitrary distinct keys; only their identity matters). */
struct DataKey { int info; int idx; DataKey() { info = 0; idx = -1; } DataKey(int p_info, int p_idx) { info = p_info; idx = p_idx; } };

/* NameSet stub.
 *  writer side: has(key) is arbitrary (any subset of the rows/columns may be named), the name of key k is the
 *               address pool + k, so that the ostream stub can tell WHICH row/column a name token denotes;
 *  reader side: add(key, str) registers a name at the next position (recorded at the ghost position), number(str)
 *               resolves the name field of the line being replayed to the position the MPSInput stub chose for it. */
struct NameSet
{
   const char* pool; int id;
   NameSet() { pool = 0; id = -1; }
   ~NameSet() { if(!g_done) g_destroyed++; }
   int num() const { return g_ns_num[id]; }
   bool has(const DataKey& pkey) const { return nondet_bool(); }
   bool has(int pnum) const { return nondet_bool(); }
   const char* operator[](int pnum) const
   {
      __CPROVER_assert(0 <= pnum && pnum < g_ns_num[id], "NameSet position in range");
      return pool + pnum;
   }
   const char* operator[](const DataKey& pkey) const
   {
      __CPROVER_assert(0 <= pkey.idx && pkey.idx < g_ns_num[id], "NameSet key in range");
      return pool + pkey.idx;
   }
   void reMax(int newmax = 0) { g_ns_max[id] = newmax; }
   void add(DataKey& key, const char* str)
   {
      /* the string handed in must be what std::stringstream::str() just produced (the only caller) */
      __CPROVER_assert(str == &g_ss_marker, "NameSet::add receives name.str().c_str()");
      int pos = g_ns_num[id];
      if(key.info > 0)
      {
         g_ns_iscol[id] = 1;
         if(pos == g_c1) { g_regc_cnt++; g_regc_form = g_str_form; g_regc_lit = g_str_lit; g_regc_val = g_str_val; }
      }
      else
      {
         g_ns_iscol[id] = 0;
         if(pos == g_r) { g_regr_cnt++; g_regr_form = g_str_form; g_regr_lit = g_str_lit; g_regr_val = g_str_val; }
      }
      g_ns_num[id] = pos + 1;
   }
   int number(const char* str) const
   {
      int n;
      /* field2 must be looked up in the column name set in use, field3 in the row name set in use */
      bool col = (str == gp_f2 && id == (g_usecols ? 1 : 2));
      bool row = (str == gp_f3 && id == (g_userows ? 0 : g_usecols ? 2 : 3));
      if(col) n = g_line_c;
      else if(row) n = g_line_r;
      else { g_bad_lookup++; n = -1; }
      __CPROVER_assert(-1 <= n && n < g_ns_num[id], "NameSet::number returns -1 or a position");
      if(n < 0) g_unknown++;
      else if(col) { if(n == g_c1) g_lastc = g_line_kind; }
      else { if(n == g_r) g_lastr = g_line_kind; }
      return n;
   }
};
/* spxalloc.h: spx_alloc(p) mallocs, spx_free(p) frees and nulls (conformance-checked).  No heap under dfcc: storage comes
 * from two spare NameSet objects of the wrapper; placement new `new(p) NameSet()` is mapped to `p` by the macro below
 * (the spare objects are already in the default-constructed state). */
extern "C" { extern void* gp_spare[2]; }
inline void spx_alloc(NameSet*& p, int n = 1) { __CPROVER_assert(p == 0 && g_alloc < 2, "spx_alloc on a null pointer"); p = (NameSet*)gp_spare[g_alloc]; g_alloc++; }
inline void spx_free(NameSet*& p) { __CPROVER_assert(p != 0, "spx_free on a non-null pointer"); g_freed++; p = 0; }
#define new(p) (p); (void)

/* spxdefines.h: int spxSnprintf(char* t, size_t len, const char* s, ...): the only uses are ("x%d"|"C%d", idx).
 * Nothing is written to t; what t now spells is kept in ghost state. */
inline int spxSnprintf(char* t, size_t len, const char* s, int idx)
{
   __CPROVER_assert(len == 16 && s[1] == '%' && s[2] == 'd' && s[3] == 0, "spxSnprintf(buf, 16, \"<letter>%d\", idx)");
   gp_buf = t; g_buf_letter = s[0]; g_buf_idx = idx;
   return 2;
}

/* ---------------------------------------------------------------------------------------------------------------
 * std:: stubs */
namespace std
{
struct ios { enum fmtflags { left = 32 }; };
struct SetwT { int n; };
inline SetwT setw(int n) { SetwT s; s.n = n; return s; }
struct EndlT { int dummy; };
inline EndlT endl_marker() { EndlT e; e.dummy = 0; return e; }
#define endl endl_marker()

/* The stream stubs assemble tokens into records  <indicator> <column name> [<row name>] <end of line>  and publish the
 * record(s) that name the ghost columns g_c1, g_c2 and the ghost row g_r. */
static inline void sink_name(int letter, int idx)
{
   if(g_cur_kind == K_NONE || g_endata) { g_malformed++; return; }
   if(letter == 'x') { if(g_cur_col >= 0 || g_cur_row >= 0) g_malformed++; g_cur_col = idx; }
   else if(letter == 'C') { if(g_cur_col < 0 || g_cur_row >= 0) g_malformed++; g_cur_row = idx; }
   else g_malformed++;
}
static inline void sink_indicator(const char* s)
{
   int k = (s[1] == 'X' && s[2] == 'U') ? K_XU : (s[1] == 'X' && s[2] == 'L') ? K_XL : (s[1] == 'U' && s[2] == 'L') ? K_UL :
           (s[1] == 'L' && s[2] == 'L') ? K_LL : K_OTHER;
   if(g_cur_kind != K_NONE || !g_header || g_endata || k == K_OTHER) g_malformed++;
   g_cur_kind = k;
}
static inline void sink_eol()
{
   if(g_cur_kind != K_NONE)
   {
      bool x = (g_cur_kind == K_XU || g_cur_kind == K_XL);
      if(g_cur_col < 0 || (x ? g_cur_row < 0 : g_cur_row >= 0)) g_malformed++;
      g_nrec++;
      if(g_cur_col == g_c1) { g_c1_seen++; g_c1_kind = g_cur_kind; g_c1_row = g_cur_row; }
      if(g_cur_col == g_c2) { g_c2_seen++; g_c2_kind = g_cur_kind; g_c2_row = g_cur_row; }
      if(g_cur_row >= 0 && g_cur_row == g_r) { g_r_seen++; g_r_kind = g_cur_kind; g_r_col = g_cur_col; }
      g_cur_kind = K_NONE; g_cur_col = -1; g_cur_row = -1;
   }
}
struct ostream
{
   void setf(int) {}
   ostream& operator<<(const char* s)
   {
      if(s == gp_buf) sink_name(g_buf_letter, g_buf_idx);
      else if(gp_colpool != 0 && __CPROVER_same_object(s, gp_colpool)) sink_name('x', (int)(s - gp_colpool));
      else if(gp_rowpool != 0 && __CPROVER_same_object(s, gp_rowpool)) sink_name('C', (int)(s - gp_rowpool));
      else if(s[0] == 'N' && s[1] == 'A' && s[2] == 'M' && s[3] == 'E') { if(g_header || g_nrec || g_endata || g_cur_kind) g_malformed++; g_header++; }
      else if(s[0] == 'E' && s[1] == 'N' && s[2] == 'D' && s[3] == 'A' && s[4] == 'T' && s[5] == 'A' && s[6] == 0) { if(!g_header || g_cur_kind) g_malformed++; g_endata++; }
      else if(s[0] == ' ' && s[1] == ' ') { /* column separator */ }
      else if(s[0] == ' ' && s[3] == ' ' && s[4] == 0) sink_indicator(s);
      else g_malformed++;
      return *this;
   }
   ostream& operator<<(SetwT) { return *this; }
   ostream& operator<<(EndlT) { sink_eol(); return *this; }
};
/* std::string as SoPlexBase::writeBasisFile uses it: only  "<one letter>" + std::to_string(<int>).  No characters are
 * modelled; a string carries the same ghost form as the stringstream stub below: prefix letter (0 = none) + integer value,
 * i.e. the text <letter><decimal digits of val> (no blank inside). */
struct string { int lit; int val; };
inline string to_string(int v) { string s; s.lit = 0; s.val = v; return s; }
/* ofstream as SoPlexBase::writeBasisFile uses it: names are one token (a user name, or a std::string "x<int>") or the two
 * tokens "x"|"C", <int>.
 * std::setw(n) pads the NEXT inserted item (only) to n characters (left-aligned here): if that item is the one-letter
 * prefix of a two-token name, blanks end up INSIDE the name (g_name_split); a padded std::string gets trailing blanks only. */
struct ofstream
{
   int dummy;
   ofstream(const char* fn) { dummy = 0; g_width = 0; g_pend_letter = 0; g_open_arg_ok = (fn == gp_filename); }
   bool good() const { return nondet_bool(); }
   void setf(int) {}
   ofstream& operator<<(SetwT w) { g_width = w.n; return *this; }
   ofstream& operator<<(int v)
   {
      g_width = 0;
      if(g_pend_letter) { sink_name(g_pend_letter, v); g_pend_letter = 0; } else g_malformed++;
      return *this;
   }
   ofstream& operator<<(const string& s)
   {
      g_width = 0;                                            /* the whole string is ONE item: padding goes behind it */
      if(g_pend_letter) { g_malformed++; g_pend_letter = 0; }
      if(s.lit != 0) sink_name(s.lit, s.val); else g_malformed++;   /* a bare number is not a name */
      return *this;
   }
   ofstream& operator<<(const char* s)
   {
      int w = g_width; g_width = 0;
      if(g_pend_letter) { g_malformed++; g_pend_letter = 0; }
      if(s == gp_filename) { /* header line: NAME  <filename> */ }
      else if(gp_colpool != 0 && __CPROVER_same_object(s, gp_colpool)) sink_name('x', (int)(s - gp_colpool));
      else if(gp_rowpool != 0 && __CPROVER_same_object(s, gp_rowpool)) sink_name('C', (int)(s - gp_rowpool));
      else if(s[0] == '\n' && s[1] == 0) sink_eol();
      else if((s[0] == 'x' || s[0] == 'C') && s[1] == 0) { g_pend_letter = s[0]; if(w > 1) g_name_split++; }
      else if(s[0] == 'N' && s[1] == 'A' && s[2] == 'M' && s[3] == 'E') { if(g_header || g_nrec || g_endata || g_cur_kind) g_malformed++; g_header++; }
      else if(s[0] == 'E' && s[1] == 'N' && s[2] == 'D' && s[3] == 'A' && s[4] == 'T' && s[5] == 'A' && s[6] == '\n' && s[7] == 0) { if(!g_header || g_cur_kind) g_malformed++; g_endata++; }
      else if(s[0] == ' ' && s[1] == ' ') { /* column separator */ }
      else if(s[0] == ' ' && s[3] == ' ' && s[4] == 0) sink_indicator(s);
      else g_malformed++;
      return *this;
   }
};

/* stringstream: only  name << "<literal>" << <int>;  name.str().c_str()  are used.  form: 0 empty, 1 = one literal,
 * 2 = one literal followed by one int (the shape of a default name), 3 = anything longer.  The state lives in ghost variables
 * (one stream is live at a time) and is reset by the constructor: a stream declared inside a loop body starts empty in every
 * iteration, one declared in front of the loop accumulates. */
struct StrT { const char* p; const char* c_str() const { return p; } };
struct stringstream
{
   int dummy;
   stringstream() { dummy = 0; g_ss_form = 0; g_ss_lit = 0; g_ss_val = -1; }
   stringstream& operator<<(const char* s)
   {
      __CPROVER_assert(s[0] != 0 && s[1] == 0, "one-letter literal");
      if(g_ss_form == 0) { g_ss_form = 1; g_ss_lit = s[0]; } else g_ss_form = 3;
      return *this;
   }
   stringstream& operator<<(int v) { if(g_ss_form == 1) { g_ss_form = 2; g_ss_val = v; } else g_ss_form = 3; return *this; }
   void str(const char* s) { if(s[0] == 0) { g_ss_form = 0; g_ss_lit = 0; g_ss_val = -1; } else g_ss_form = 3; }   /* name.str("") clears */
   void clear() {}
   StrT str() const { g_str_form = g_ss_form; g_str_lit = g_ss_lit; g_str_val = g_ss_val; StrT t; t.p = &g_ss_marker; return t; }
};
struct istream { int dummy; };
}
/* "<one letter>" + std::string: declared at global scope because the front end does no argument-dependent lookup */
inline std::string operator+(const char* a, const std::string& b)
{
   __CPROVER_assert(a[0] != 0 && a[1] == 0 && b.lit == 0, "string stub: one-letter literal + to_string(int)");
   std::string s; s.lit = a[0]; s.val = b.val; return s;
}

/* ---------------------------------------------------------------------------------------------------------------
 * the LP: sides and bounds over raw arrays; type(i) is the real body of LPRowSetBase<R>::type.  The qualified calls
 * theLP->LPRowSetBase<R>::type(r) / theLP->SPxLPBase<R>::lower(i) need ONE class (multiple inheritance is not
 * handled by the front end): LPRowSetBase is a macro for SPxLPBase. */
template <class T> struct LPRowBase
{
#include "LPRow_Type.inc"
};
#define LPRowSetBase SPxLPBase
template <class T> struct SPxLPBase
{
   VectorBase<T> left, right, low, up;
   int nRows() const { return left.dimen; }
   int nCols() const { return low.dimen; }
   const T& lhs(int i) const { return (*(VectorBase<T>*)&left)[i]; }
   const T& rhs(int i) const { return (*(VectorBase<T>*)&right)[i]; }
   const T& lower(int i) const { return (*(VectorBase<T>*)&low)[i]; }
   const T& upper(int i) const { return (*(VectorBase<T>*)&up)[i]; }
   typename LPRowBase<T>::Type type(int i) const
   {
#include "LPRowSet_type.inc"
   }
   /* real: SPxRowId(LPRowSetBase<R>::key(n)) etc.; SPxRowId/SPxColId are DataKeys with info -1 / +1 (conformance-checked) */
   DataKey rId(int n) const { __CPROVER_assert(0 <= n && n < nRows(), "rId index in bounds"); return DataKey(-1, n); }
   DataKey cId(int n) const { __CPROVER_assert(0 <= n && n < nCols(), "cId index in bounds"); return DataKey(1, n); }
   DataKey rowId(int n) const { return rId(n); }
   DataKey colId(int n) const { return cId(n); }
};

/* spxbasis.hpp: the two static helpers, real bodies (the template parameter is deduced from the LP pointer) */
static const char* getRowName(const SPxLPBase<R>* lp, int idx, const NameSet* rnames, char* buf)
{
#include "getRowName.inc"
}
static const char* getColName(const SPxLPBase<R>* lp, int idx, const NameSet* cnames, char* buf)
{
#include "getColName.inc"
}

/* ---------------------------------------------------------------------------------------------------------------
 * MPSInput: data members and the small accessors are real (sliced); readLine() REPLAYS A SYMBOLIC LINE: any section
 * line (field0 = arbitrary token, field1 arbitrary or absent) or any data line (field0 absent, fields 1..3 present up
 * to an arbitrary point).  Name fields carry no characters: the position NameSet::number() will report for them is
 * chosen here (g_line_c in [-1, nCols), g_line_r in [-1, nRows)). */
static inline int strcmp(const char* a, const char* b)
{
#define STEP(i) if(a[i] != b[i]) return ((unsigned char)a[i] < (unsigned char)b[i]) ? -1 : 1; if(a[i] == 0) return 0;
   STEP(0) STEP(1) STEP(2) STEP(3) STEP(4) STEP(5) STEP(6) STEP(7)
#undef STEP
   __CPROVER_assert(0, "strcmp stub: strings of at most 7 characters");
   return 0;
}
struct MPSInput
{
#include "MPS_Section.inc"
   Section m_section;
   std::istream* m_input;
   bool m_has_error;
   const char* m_f0; const char* m_f1; const char* m_f2; const char* m_f3;
   char b0[8]; char b1[4]; char b2[2]; char b3[2];
   explicit MPSInput(std::istream& p_input)
   {
      m_section = NAME; m_input = &p_input; m_has_error = false; m_f0 = m_f1 = m_f2 = m_f3 = 0;
      gp_mps = (void*)this; gp_mps_has_error = &m_has_error; gp_mps_section = (int*)&m_section;
      gp_f2 = b2; gp_f3 = b3; b2[0] = 'n'; b2[1] = 0; b3[0] = 'n'; b3[1] = 0;
   }
   Section section() const
   {
#include "MPS_section.inc"
   }
   const char* field0() const
   {
#include "MPS_field0.inc"
   }
   const char* field1() const
   {
#include "MPS_field1.inc"
   }
   const char* field2() const
   {
#include "MPS_field2.inc"
   }
   const char* field3() const
   {
#include "MPS_field3.inc"
   }
   bool hasError() const
   {
#include "MPS_hasError.inc"
   }
   void setSection(Section p_section)
   {
#include "MPS_setSection.inc"
   }
   void syntaxError()
   {
#include "MPS_syntaxError.inc"
   }
   bool readLine()
   {
      m_f0 = m_f1 = m_f2 = m_f3 = 0;
      g_line_kind = K_NONE; g_line_c = -1; g_line_r = -1; g_line_data = 0;
      if(!nondet_bool()) return false;                       /* end of input / read error */
      b1[0] = nondet_char(); b1[1] = nondet_char(); b1[2] = nondet_char(); b1[3] = 0;
      if(nondet_bool())
      {
         /* section line: strtok tokens are non-empty */
         b0[0] = nondet_char(); b0[1] = nondet_char(); b0[2] = nondet_char(); b0[3] = nondet_char();
         b0[4] = nondet_char(); b0[5] = nondet_char(); b0[6] = nondet_char(); b0[7] = 0;
         if(b0[0] == 0 || b0[0] == ' ') return false;
         m_f0 = b0;
         if(nondet_bool() && b1[0] != 0) m_f1 = b1;
         return true;
      }
      g_line_data = 1;
      if(nondet_bool() && b1[0] != 0)
      {
         m_f1 = b1;
         g_line_kind = (b1[0] == 'X' && b1[1] == 'U' && b1[2] == 0) ? K_XU : (b1[0] == 'X' && b1[1] == 'L' && b1[2] == 0) ? K_XL :
                       (b1[0] == 'U' && b1[1] == 'L' && b1[2] == 0) ? K_UL : (b1[0] == 'L' && b1[1] == 'L' && b1[2] == 0) ? K_LL : K_OTHER;
         if(nondet_bool())
         {
            m_f2 = b2; g_line_c = nondet_int();
            __CPROVER_assume(-1 <= g_line_c && g_line_c < g_nc);
            if(nondet_bool())
            {
               m_f3 = b3; g_line_r = nondet_int();
               __CPROVER_assume(-1 <= g_line_r && g_line_r < g_nr);
            }
         }
      }
      return true;
   }
};

/* ---------------------------------------------------------------------------------------------------------------
 * SPxBasisBase<R> host: Desc (enum + accessors real), thedesc, thestatus, theLP; load/setStatus/loadDesc recorded */
extern "C" { extern int* gp_scr_rows; extern int* gp_scr_cols; }
struct SPxBasisHost
{
#include "SPxBasis_SPxStatus.inc"
   struct Desc
   {
#include "Desc_Status.inc"
      DataArray<Status> rowstat;
      DataArray<Status> colstat;
      Desc() {}
      /* real copy constructor (spxdesc.hpp): deep copy into fresh storage.  Stub: storage from two scratch arrays of
       * the wrapper, CONTENTS UNSPECIFIED (over-approximation; readBasis overwrites every entry before use) */
      Desc(const Desc& o)
      {
         rowstat.data = (Status*)gp_scr_rows; rowstat.thesize = o.rowstat.thesize;
         colstat.data = (Status*)gp_scr_cols; colstat.thesize = o.colstat.thesize;
      }
      Status rowStatus(int i) const
      {
#include "Desc_rowStatus_r.inc"
      }
      Status colStatus(int i) const
      {
#include "Desc_colStatus_r.inc"
      }
   };
   SPxLPBase<R>* theLP;
   Desc thedesc;
   SPxStatus thestatus;
   SPxStatus status() const { return thestatus; }
   Desc::Status dualRowStatus(int i) const
   {
#include "dualRowStatus.inc"
   }
   Desc::Status dualColStatus(int i) const
   {
#include "dualColStatus.inc"
   }
   /* real: binds theLP, re-dimensions thedesc (here already dimensioned) */
   void load(SPxLPBase<R>* lp, bool initSlackBasis = true) { if(lp == theLP && !initSlackBasis) g_load_calls++; else g_load_calls = -100; }
   void setStatus(SPxStatus stat) { g_setstatus_calls++; g_setstatus_arg = (int)stat; thestatus = stat; }
   void loadDesc(const Desc& ds)
   {
      g_loaddesc_calls++; g_loaded_nr = ds.rowstat.thesize; g_loaded_nc = ds.colstat.thesize; g_status_at_loaddesc = (int)thestatus;
      if(0 <= g_r && g_r < ds.rowstat.thesize) g_loaded_r = (int)ds.rowstat.data[g_r];
      if(0 <= g_c1 && g_c1 < ds.colstat.thesize) g_loaded_c = (int)ds.colstat.data[g_c1];
   }
};
typedef SPxBasisHost::Desc::Status DS;

static inline void init_lp(SPxLPBase<R>& lp, double* lhs, double* rhs, int nr, double* lower, double* upper, int nc)
{
   lp.left.val = lhs; lp.left.dimen = nr; lp.right.val = rhs; lp.right.dimen = nr;
   lp.low.val = lower; lp.low.dimen = nc; lp.up.val = upper; lp.up.dimen = nc;
   gp_lhs = lhs; gp_rhs = rhs; gp_low = lower; gp_up = upper; g_nr = nr; g_nc = nc; g_inf = infinity;
}

#if defined(INST_WRITE) || defined(INST_WRITEFILE)
/* Ghost prefix counts.  Every element access of a status array instantiates, at the accessed index n, the defining
 * recurrence cnt[n+1] == cnt[n] + [entry n counts] of the ghost array and consequences of the definition
 * (0 <= cnt[n] <= n, monotonicity towards the end and towards the ghost row).  The ghost arrays are not read by the sliced
 * code; for every input the true prefix counts satisfy all instances, so no execution of the real code is excluded. */
#ifdef INST_WRITE
#define COL_COUNTS(v) ((v) > 0)      /* basic column: D_x status */
#define ROW_COUNTS(v) ((v) < 0)      /* nonbasic row: P_x status */
#else
extern "C" { extern int g_BASIC; }
#define COL_COUNTS(v) ((v) == g_BASIC)
#define ROW_COUNTS(v) ((v) != g_BASIC)
#endif
static inline void count_hook(const void* base, int n, int v)
{
   if(base == (const void*)gp_cs)
      __CPROVER_assume(0 <= gp_cb[n] && gp_cb[n] <= n && gp_cb[n + 1] == gp_cb[n] + (COL_COUNTS(v) ? 1 : 0) && gp_cb[n + 1] <= gp_cb[g_nc]);
   else if(base == (const void*)gp_rs)
      __CPROVER_assume(0 <= gp_nrw[n] && gp_nrw[n] <= n && gp_nrw[n + 1] == gp_nrw[n] + (ROW_COUNTS(v) ? 1 : 0) && gp_nrw[n + 1] <= gp_nrw[g_nr]
                       && ((0 <= g_r && g_r < g_nr && n < g_r) ? gp_nrw[n + 1] <= gp_nrw[g_r] : 1));
}
#endif

#ifdef INST_WRITEFILE
/* SoPlexBase<R>::writeBasisFile (soplex.hpp): the branch for an LP that is not loaded in the solver writes the basis
 * kept in _basisStatusRows/_basisStatusCols itself */
template <class T> struct SPxSolverBase
{
#include "Solver_VarStatus.inc"
};
template <class T> struct SoPlexBase
{
#include "RangeType.inc"
};
extern "C" { extern int g_delegated; }
struct SolverFileStub
{
   bool writeBasisFile(const char* filename, const NameSet* rowNames, const NameSet* colNames, const bool cpxFormat = false) const { g_delegated++; return nondet_bool(); }
};
struct H : SoPlexBase<R>
{
   bool _isRealLPLoaded; bool _hasBasis; SolverFileStub _solver;
   DataArray<SPxSolverBase<R>::VarStatus> _basisStatusRows, _basisStatusCols;
   DataArray<RangeType> _rowTypes;
   const char* filename; const NameSet* rowNames; const NameSet* colNames; bool cpxFormat;
   bool body() const
   {
#include "writeBasisFile.inc"
   }
};
extern "C" int w_writeBasisFile(int* rowstat, int* colstat, int* rowtypes, int nr, int nc, int loaded, int hasbasis, int cpx,
                                int userownames, int usecolnames, const char* rowpool, const char* colpool, const char* fname, int* cb, int* nrw)
{
   VIN("nr", nr); VIN("nc", nc); VIN("cpx", cpx); VIN("hasbasis", hasbasis); VIN("loaded", loaded);
   VIN_ARR8("rowstat", rowstat, nr); VIN_ARR8("colstat", colstat, nc);
   H h; NameSet rn, cn;
   h._isRealLPLoaded = loaded != 0; h._hasBasis = hasbasis != 0;
   h._basisStatusRows.data = (SPxSolverBase<R>::VarStatus*)rowstat; h._basisStatusRows.thesize = nr;
   h._basisStatusCols.data = (SPxSolverBase<R>::VarStatus*)colstat; h._basisStatusCols.thesize = nc;
   h._rowTypes.data = (H::RangeType*)rowtypes; h._rowTypes.thesize = nr;
   rn.pool = rowpool; rn.id = 0; g_ns_num[0] = nr; g_ns_iscol[0] = 0; cn.pool = colpool; cn.id = 1; g_ns_num[1] = nc; g_ns_iscol[1] = 1;
   h.filename = fname; h.rowNames = userownames ? &rn : 0; h.colNames = usecolnames ? &cn : 0; h.cpxFormat = cpx != 0;
   g_nr = nr; g_nc = nc; gp_rs = rowstat; gp_cs = colstat; gp_cb = cb; gp_nrw = nrw; gp_rt = rowtypes; g_cpx = cpx; gp_filename = fname;
   gp_rowpool = userownames ? rowpool : 0; gp_colpool = usecolnames ? colpool : 0; gp_buf = 0;
   g_cur_kind = K_NONE; g_cur_col = -1; g_cur_row = -1; g_header = 0; g_endata = 0; g_malformed = 0; g_nrec = 0; g_name_split = 0;
   g_c1_seen = 0; g_c1_kind = 0; g_c1_row = -1; g_c2_seen = 0; g_c2_kind = 0; g_c2_row = -1; g_r_seen = 0; g_r_kind = 0; g_r_col = -1;
   g_destroyed = 0; g_done = 0; g_delegated = 0; g_width = 0; g_pend_letter = 0; g_open_arg_ok = 0;
   bool r = h.body();
   g_done = 1;
   return r ? 1 : 0;
}
#endif

#ifdef INST_WRITE
struct H : SPxBasisHost
{
   std::ostream* os_; const NameSet* rowNames; const NameSet* colNames; bool cpxFormat;
   void body() const
   {
      std::ostream& os = *os_;
#include "writeBasis.inc"
   }
};
extern "C" void w_writeBasis(int* rowstat, int* colstat, double* lhs, double* rhs, int nr, double* lower, double* upper, int nc,
                             int bstatus, int cpx, int userownames, int usecolnames, const char* rowpool, const char* colpool,
                             int* cb, int* nrw)
{
   VIN("nr", nr); VIN("nc", nc); VIN("cpx", cpx); VIN("bstatus", bstatus);
   VIN_ARR8("rowstat", rowstat, nr); VIN_ARR8("colstat", colstat, nc);
   SPxLPBase<R> lp; H h; std::ostream os; NameSet rn, cn;
   init_lp(lp, lhs, rhs, nr, lower, upper, nc);
   h.theLP = &lp;
   h.thedesc.rowstat.data = (DS*)rowstat; h.thedesc.rowstat.thesize = nr;
   h.thedesc.colstat.data = (DS*)colstat; h.thedesc.colstat.thesize = nc;
   h.thestatus = (SPxBasisHost::SPxStatus)bstatus;
   rn.pool = rowpool; rn.id = 0; g_ns_num[0] = nr; g_ns_iscol[0] = 0; cn.pool = colpool; cn.id = 1; g_ns_num[1] = nc; g_ns_iscol[1] = 1;
   h.os_ = &os; h.rowNames = userownames ? &rn : 0; h.colNames = usecolnames ? &cn : 0; h.cpxFormat = cpx != 0;
   gp_rs = rowstat; gp_cs = colstat; gp_cb = cb; gp_nrw = nrw; g_cpx = cpx;
   gp_rowpool = userownames ? rowpool : 0; gp_colpool = usecolnames ? colpool : 0; gp_buf = 0;
   g_cur_kind = K_NONE; g_cur_col = -1; g_cur_row = -1; g_header = 0; g_endata = 0; g_malformed = 0; g_nrec = 0;
   g_c1_seen = 0; g_c1_kind = 0; g_c1_row = -1; g_c2_seen = 0; g_c2_kind = 0; g_c2_row = -1; g_r_seen = 0; g_r_kind = 0; g_r_col = -1;
   g_destroyed = 0; g_done = 0;
   h.body();
   g_done = 1;
}
#endif

#ifdef INST_READ
struct H : SPxBasisHost
{
   std::istream* is_; const NameSet* rowNames; const NameSet* colNames;
   bool body()
   {
      std::istream& is = *is_;
#include "readBasis.inc"
   }
};
extern "C" int w_readBasis(int* rowstat, int* colstat, int* scr_rows, int* scr_cols, double* lhs, double* rhs, int nr,
                           double* lower, double* upper, int nc, int bstatus, int userownames, int usecolnames)
{
   VIN("nr", nr); VIN("nc", nc); VIN("bstatus", bstatus); VIN("userownames", userownames); VIN("usecolnames", usecolnames);
   SPxLPBase<R> lp; H h; std::istream is; NameSet rn, cn, spare0, spare1;
   init_lp(lp, lhs, rhs, nr, lower, upper, nc);
   h.theLP = &lp;
   h.thedesc.rowstat.data = (DS*)rowstat; h.thedesc.rowstat.thesize = nr;
   h.thedesc.colstat.data = (DS*)colstat; h.thedesc.colstat.thesize = nc;
   h.thestatus = (SPxBasisHost::SPxStatus)bstatus;
   /* the user's name sets: one name per row / column of the LP (precondition, see contract) */
   rn.id = 0; g_ns_num[0] = nr; g_ns_iscol[0] = 0; cn.id = 1; g_ns_num[1] = nc; g_ns_iscol[1] = 1;
   spare0.id = 2; g_ns_num[2] = 0; g_ns_iscol[2] = 0; g_ns_max[2] = 0; spare1.id = 3; g_ns_num[3] = 0; g_ns_iscol[3] = 0; g_ns_max[3] = 0;
   g_userows = userownames; g_usecols = usecolnames; g_done = 0;
   h.is_ = &is; h.rowNames = userownames ? &rn : 0; h.colNames = usecolnames ? &cn : 0;
   gp_spare[0] = (void*)&spare0; gp_spare[1] = (void*)&spare1;
   gp_scr_rows = scr_rows; gp_scr_cols = scr_cols; gp_rs = scr_rows; gp_cs = scr_cols;
   g_alloc = 0; g_freed = 0; g_destroyed = 0; g_regc_cnt = 0; g_regr_cnt = 0; g_regc_form = 0; g_regr_form = 0;
   g_lastc = K_NONE; g_lastr = K_NONE; g_unknown = 0; g_bad_lookup = 0; g_line_kind = K_NONE; g_line_c = -1; g_line_r = -1; g_line_data = 0;
   g_load_calls = 0; g_setstatus_calls = 0; g_setstatus_arg = -100; g_loaddesc_calls = 0; g_loaded_c = 0; g_loaded_r = 0; g_loaded_nr = -1; g_loaded_nc = -1;
   g_status_at_loaddesc = -100; g_str_form = 0; g_str_lit = 0; g_str_val = -1;
   gp_mps = 0; gp_mps_has_error = 0; gp_mps_section = 0; gp_f2 = 0; gp_f3 = 0;
   /* what the real helper bodies say about the ghost row / column (the contract checks them against their specification) */
   g_defr = (0 <= g_r && g_r < nr) ? (int)h.dualRowStatus(g_r) : 0;
   g_type_r = (0 <= g_r && g_r < nr) ? (int)lp.type(g_r) : 0;
   g_dualc = (0 <= g_c1 && g_c1 < nc) ? (int)h.dualColStatus(g_c1) : 0;
   bool r = h.body();
   g_done = 1;
   return r ? 1 : 0;
}
#endif
