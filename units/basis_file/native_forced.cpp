#include <sstream>
#include <iostream>
#include <fstream>
#include <string>
#include <vector>
#include <memory>
#include <map>
#include <algorithm>
#include <iomanip>
#include <boost/multiprecision/gmp.hpp>
#include <boost/multiprecision/mpfr.hpp>
#define private public
#define protected public
#include "soplex.h"
#undef private
#undef protected
#include <cstdio>
using namespace soplex;
int main()
{
   SoPlex s; s.setIntParam(SoPlex::VERBOSITY, 0);
   DSVector e(0);
   s.addColReal(LPCol(1.0, e, 10.0, 0.0)); s.addColReal(LPCol(1.0, e, 10.0, 0.0));
   DSVector r(2); r.add(0, 1.0); r.add(1, 1.0);
   s.addRowReal(LPRow(1.0, r, 5.0));
   SPxSolver::VarStatus rows[1] = {SPxSolver::ON_UPPER}, cols[2] = {SPxSolver::BASIC, SPxSolver::ON_UPPER};
   s.setBasis(rows, cols);
   /* forced: the state SoPlex is in while the solver holds a presolved/scaled copy (basis kept in _basisStatusRows/Cols) */
   s._basisStatusRows.reSize(1); s._basisStatusCols.reSize(2);
   s._basisStatusRows[0] = rows[0]; s._basisStatusCols[0] = cols[0]; s._basisStatusCols[1] = cols[1];
   s._hasBasis = true; s._isRealLPLoaded = false;
   bool w = s.writeBasisFile("/var/tmp/c15c14.native/f.bas", nullptr, nullptr);
   s._isRealLPLoaded = true;
   fprintf(stderr, "write=%d\n", (int)w);
   return 0;
}
