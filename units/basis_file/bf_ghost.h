/* Ghost state shared by unit.cpp (C++) and contract.c (C) of the C14 unit `basis_file`. */
#ifndef BF_GHOST_H
#define BF_GHOST_H
/* kinds of basis-file records (indicator field) */
enum { K_NONE = 0, K_XU = 1, K_XL = 2, K_UL = 3, K_LL = 4, K_OTHER = 5 };
#ifdef __cplusplus
typedef bool bf_bool;
extern "C" {
#else
typedef _Bool bf_bool;
#endif
/* enumerators as ghost ints (C enumerators cannot be named in loop contracts); set by the harness from the extracted enums */
extern int g_PU, g_PL, g_PF, g_PFREE, g_GE, g_EQ, g_LE, g_SEC_NAME;
/* NameSet stub state, indexed by the set's id: 0 user row names, 1 user column names, 2/3 the two sets readBasis allocates */
extern int g_ns_num[4], g_ns_iscol[4], g_ns_max[4];
extern int g_userows, g_usecols, g_done, g_defc;
/* std::stringstream stub state (one stream is live at a time) */
extern int g_ss_form, g_ss_lit, g_ss_val; extern char g_ss_marker;
/* dimensions, ghost indices: two columns, one row */
extern int g_nr, g_nc, g_c1, g_c2, g_r, g_cpx;
extern double g_inf;
/* alias pointers (loop invariants cannot name C++ members or wrapper parameters) */
extern int* gp_rs; extern int* gp_cs;            /* descriptor statuses (writer: thedesc; reader: the local copy l_desc) */
extern int* gp_cb; extern int* gp_nrw;          /* ghost prefix counts: #basic columns in [0,j), #nonbasic rows in [0,i) */
extern double* gp_lhs; extern double* gp_rhs; extern double* gp_low; extern double* gp_up;
extern const char* gp_colpool; extern const char* gp_rowpool;   /* name storage of the user's name sets: name of key k = pool + k */

/* ---- writer: the ostream stub is a small state machine that assembles the emitted tokens into records ---- */
extern const char* gp_buf; extern int g_buf_letter, g_buf_idx;   /* what spxSnprintf(buf, 16, "x%d"/"C%d", idx) last put into buf */
extern int g_cur_kind, g_cur_col, g_cur_row;    /* record under construction */
extern int g_header, g_endata, g_malformed, g_nrec;
extern int g_c1_seen, g_c1_kind, g_c1_row, g_c2_seen, g_c2_kind, g_c2_row;   /* the record(s) naming column g_c1 / g_c2 */
extern int g_r_seen, g_r_kind, g_r_col;                                       /* the record(s) naming row g_r */

/* writeBasisFile (SoPlexBase): pending field width / one-letter name prefix of the ofstream stub */
extern int g_width, g_pend_letter, g_name_split, g_open_arg_ok, g_delegated, g_BASIC, g_ONUP, g_BOXED;
extern const char* gp_filename; extern int* gp_rt;
/* ---- reader ---- */
extern int g_str_form, g_str_lit, g_str_val;    /* what std::stringstream::str() last returned: form 2 = "<one literal><one int>" */
extern int g_regc_cnt, g_regc_form, g_regc_lit, g_regc_val;   /* the default name registered at position g_c1 of the column name set */
extern int g_regr_cnt, g_regr_form, g_regr_lit, g_regr_val;   /* ... at position g_r of the row name set */
extern int g_alloc, g_freed, g_destroyed, g_remax_c, g_remax_r;
extern int g_line_kind, g_line_c, g_line_r, g_line_data;      /* the line the MPSInput stub currently replays */
extern const char* gp_f2; extern const char* gp_f3;
extern int g_lastc, g_lastr;                    /* kind of the last record whose column / row name resolved to g_c1 / g_r */
extern int g_unknown, g_bad_lookup;
extern int g_defr, g_dualc, g_type_r;           /* dualRowStatus(g_r), dualColStatus(g_c1), type(g_r) as the real bodies compute them */
extern int g_load_calls, g_setstatus_calls, g_setstatus_arg, g_loaddesc_calls, g_loaded_c, g_loaded_r, g_loaded_nr, g_loaded_nc, g_status_at_loaddesc;
extern bf_bool* gp_mps_has_error; extern int* gp_mps_section; extern void* gp_mps;
#ifdef __cplusplus
}
#endif
#endif
