/* Contracts for SPxBasisBase<R>::writeBasis / readBasis (C14).  Enumerations are verbatim extracts of the tree.
 * "For every column / row" is stated with ghost indices g_c1, g_c2 (columns) and g_r (row) havoc'd by the harness. */
#include "verif_c.h"
#include "constants.h"
#include "bf_ghost.h"
#include "Desc_Status.inc"
#include "SPxBasis_SPxStatus.inc"
#include "LPRow_Type.inc"
#include "MPS_Section.inc"
#include "Solver_VarStatus.inc"
#include "RangeType.inc"
#ifndef CAP
#define CAP 8
#endif

int g_PU, g_PL, g_PF, g_PFREE, g_GE, g_EQ, g_LE, g_SEC_NAME;
int g_ns_num[4], g_ns_iscol[4], g_ns_max[4];
int g_userows, g_usecols, g_done, g_defc;
int g_ss_form, g_ss_lit, g_ss_val; char g_ss_marker;
int g_nr, g_nc, g_c1, g_c2, g_r, g_cpx;
double g_inf;
int* gp_rs; int* gp_cs; int* gp_cb; int* gp_nrw;
double* gp_lhs; double* gp_rhs; double* gp_low; double* gp_up;
const char* gp_colpool; const char* gp_rowpool;
const char* gp_buf; int g_buf_letter, g_buf_idx;
int g_cur_kind, g_cur_col, g_cur_row;
int g_header, g_endata, g_malformed, g_nrec;
int g_c1_seen, g_c1_kind, g_c1_row, g_c2_seen, g_c2_kind, g_c2_row;
int g_r_seen, g_r_kind, g_r_col;
int g_str_form, g_str_lit, g_str_val;
int g_regc_cnt, g_regc_form, g_regc_lit, g_regc_val;
int g_regr_cnt, g_regr_form, g_regr_lit, g_regr_val;
int g_alloc, g_freed, g_destroyed, g_remax_c, g_remax_r;
int g_line_kind, g_line_c, g_line_r, g_line_data;
const char* gp_f2; const char* gp_f3;
int g_lastc, g_lastr;
int g_unknown, g_bad_lookup;
int g_defr, g_dualc, g_type_r;
int g_load_calls, g_setstatus_calls, g_setstatus_arg, g_loaddesc_calls, g_loaded_c, g_loaded_r, g_loaded_nr, g_loaded_nc, g_status_at_loaddesc;
bf_bool* gp_mps_has_error; int* gp_mps_section; void* gp_mps;
void* gp_spare[2]; int* gp_scr_rows; int* gp_scr_cols;
int g_width, g_pend_letter, g_name_split, g_open_arg_ok, g_delegated, g_BASIC, g_ONUP, g_BOXED;
const char* gp_filename; int* gp_rt;
int v_sr, v_sc;   /* ghost statuses of the round-trip lemma */
void verif_throw(void) {}

static void havoc_ghosts(void)
{
   g_c1 = nondet_int(); g_c2 = nondet_int(); g_r = nondet_int(); g_cpx = nondet_int(); v_sr = nondet_int(); v_sc = nondet_int();
   g_defc = nondet_int();
   g_BASIC = BASIC; g_ONUP = ON_UPPER; g_BOXED = RANGETYPE_BOXED;
   g_PU = P_ON_UPPER; g_PL = P_ON_LOWER; g_PF = P_FIXED; g_PFREE = P_FREE; g_GE = GREATER_EQUAL; g_EQ = EQUAL; g_LE = LESS_EQUAL; g_SEC_NAME = NAME;
}
#define RET __CPROVER_return_value
#define INF VERIF_SOPLEX_INFINITY
#define N1(n) ((n) > 0 ? (n) : 1)
#define G1 (0 <= g_c1 && g_c1 < nc)
#define G2 (0 <= g_c2 && g_c2 < nc)
#define GR (0 <= g_r && g_r < nr)
/* specification of LPRowSetBase::type, of the default column status, of dualRowStatus / dualColStatus */
#define TYPE_SPEC(lo, hi) ((hi) >= INF ? GREATER_EQUAL : (lo) <= -INF ? LESS_EQUAL : (lo) == (hi) ? EQUAL : RANGE)
#define DEFCOL_SPEC(lo, hi) ((lo) == (hi) ? P_FIXED : ((lo) <= -INF && (hi) >= INF) ? P_FREE : (lo) <= -INF ? P_ON_UPPER : P_ON_LOWER)
#define DUALROW_SPEC(lo, hi) ((hi) < INF ? ((lo) > -INF ? ((lo) == (hi) ? D_FREE : D_ON_BOTH) : D_ON_LOWER) : (lo) > -INF ? D_ON_UPPER : D_UNDEFINED)
#define DUALCOL_SPEC(lo, hi) ((hi) < INF ? ((lo) > -INF ? ((lo) == (hi) ? D_FREE : D_ON_BOTH) : D_ON_LOWER) : (lo) > -INF ? D_ON_UPPER : D_UNDEFINED)
/* the indicator the WRITER emits for a nonbasic row of status s (shared by both contracts: read o write composes through it) */
#define WKIND_ROW(s, ty, cpx) (((s) == P_ON_UPPER && (!(cpx) || (ty) == RANGE)) ? K_XU : K_XL)
#define WKIND_COL(s) ((s) == P_ON_UPPER ? K_UL : K_NONE)
/* a nonbasic status that fits the bounds, and the normal form SPxBasisBase::loadDesc gives a nonbasic status */
#define VALID_NB(s, lo, hi) (((s) == P_FIXED && (lo) == (hi)) || ((s) == P_ON_UPPER && (hi) < INF) || ((s) == P_ON_LOWER && (lo) > -INF) || \
                             ((s) == P_FREE && (lo) <= -INF && (hi) >= INF))
#define NORM(s, lo, hi) ((lo) == (hi) ? P_FIXED : ((lo) > -INF && ((hi) >= INF || (s) == P_ON_LOWER)) ? P_ON_LOWER : (hi) < INF ? P_ON_UPPER : P_FREE)

#define CLAMP(i, n) ((i) < 0 ? 0 : (i) >= (n) ? 0 : (i))
#define WRITER_GHOSTS gp_rs, gp_cs, gp_cb, gp_nrw, gp_lhs, gp_rhs, gp_low, gp_up, gp_colpool, gp_rowpool, gp_buf, g_buf_letter, g_buf_idx, g_nr, g_nc, g_inf, g_cpx, \
   g_cur_kind, g_cur_col, g_cur_row, g_header, g_endata, g_malformed, g_nrec, g_c1_seen, g_c1_kind, g_c1_row, g_c2_seen, g_c2_kind, g_c2_row, \
   g_r_seen, g_r_kind, g_r_col, g_destroyed, g_done, __CPROVER_object_whole(g_ns_num), __CPROVER_object_whole(g_ns_iscol)

/* ------------------------------------------------------------------------------------------------------------- */
#ifdef INST_WRITE
#define ROWTYPE(i) TYPE_SPEC(lhs[i], rhs[i])
/* what must have been emitted for a column c whose record landed in (seen, kind, row) */
#define CB(c) (colstat[c] > 0)                  /* basic column */
#define RNB(r) (rowstat[r] < 0)                 /* nonbasic row */
#define CUP(c) (colstat[c] == P_ON_UPPER)       /* column nonbasic at its upper bound */
#define RKIND(r) WKIND_ROW(rowstat[r], ROWTYPE(r), cpx)
#define COL_RECORD_OK(c, seen, kind, row) ( \
   CB(c) ? ((seen) == 1 && 0 <= (row) && (row) < nr && RNB(CLAMP(row, nr)) && (kind) == RKIND(CLAMP(row, nr))) : \
   CUP(c) ? ((seen) == 1 && (kind) == K_UL && (row) == -1) : (seen) == 0)
void w_writeBasis(int* rowstat, int* colstat, double* lhs, double* rhs, int nr, double* lower, double* upper, int nc,
                  int bstatus, int cpx, int userownames, int usecolnames, const char* rowpool, const char* colpool, int* cb, int* nrw)
__CPROVER_requires(0 <= nr && nr <= CAP && 0 <= nc && nc <= CAP)
__CPROVER_requires(__CPROVER_is_fresh(rowstat, N1(nr) * sizeof(int)) && __CPROVER_is_fresh(colstat, N1(nc) * sizeof(int)))
__CPROVER_requires(__CPROVER_is_fresh(lhs, N1(nr) * sizeof(double)) && __CPROVER_is_fresh(rhs, N1(nr) * sizeof(double)))
__CPROVER_requires(__CPROVER_is_fresh(lower, N1(nc) * sizeof(double)) && __CPROVER_is_fresh(upper, N1(nc) * sizeof(double)))
__CPROVER_requires(__CPROVER_is_fresh(rowpool, CAP + 1) && __CPROVER_is_fresh(colpool, CAP + 1))
__CPROVER_requires(__CPROVER_is_fresh(cb, (nc + 1) * sizeof(int)) && __CPROVER_is_fresh(nrw, (nr + 1) * sizeof(int)))
__CPROVER_requires(0 <= cpx && cpx <= 1 && 0 <= userownames && userownames <= 1 && 0 <= usecolnames && usecolnames <= 1)
__CPROVER_requires(NO_PROBLEM <= bstatus && bstatus <= INFEASIBLE)
/* valid descriptor (the part of isDescValid the writer relies on): as many basic columns as nonbasic rows, i.e. #basic == nRows.
 * cb / nrw are the ghost prefix counts of basic columns / nonbasic rows; their defining recurrence is instantiated by
 * the descriptor accessor at every index the code reads, and here at the ghost row */
__CPROVER_requires(cb[0] == 0 && nrw[0] == 0 && cb[nc] == nrw[nr])
__CPROVER_requires(GR ==> (0 <= nrw[g_r] && nrw[g_r] <= g_r && nrw[g_r + 1] == nrw[g_r] + (RNB(g_r) ? 1 : 0) && nrw[g_r + 1] <= nrw[nr]))
__CPROVER_assigns(WRITER_GHOSTS)
/* well-formed file: header, records <indicator> <column> [<row>], ENDATA */
__CPROVER_ensures(g_malformed == 0 && g_header == 1 && g_endata == 1 && g_cur_kind == K_NONE)
__CPROVER_ensures(bstatus == NO_PROBLEM ==> g_nrec == 0)
/* every basic column is paired with a nonbasic row < nRows, XU iff that row is at its upper side (CPLEX format: and a range row);
 * every nonbasic-at-upper column gets UL; every other column gets no record */
__CPROVER_ensures((bstatus != NO_PROBLEM && G1) ==> COL_RECORD_OK(g_c1, g_c1_seen, g_c1_kind, g_c1_row))
__CPROVER_ensures((bstatus != NO_PROBLEM && G2) ==> COL_RECORD_OK(g_c2, g_c2_seen, g_c2_kind, g_c2_row))
/* distinct basic columns get distinct rows (the pairing is increasing) */
__CPROVER_ensures((bstatus != NO_PROBLEM && G1 && G2 && g_c1 < g_c2 && CB(g_c1) && CB(g_c2)) ==> g_c1_row < g_c2_row)
/* every nonbasic row is named by exactly one record (of a basic column, with the indicator for its status); no basic row is named */
__CPROVER_ensures((bstatus != NO_PROBLEM && GR) ==> (RNB(g_r) ?
   (g_r_seen == 1 && 0 <= g_r_col && g_r_col < nc && CB(CLAMP(g_r_col, nc)) && g_r_kind == RKIND(g_r)) : g_r_seen == 0))
;
void h_writeBasis(void)
{
   int* rowstat; int* colstat; double* lhs; double* rhs; int nr; double* lower; double* upper; int nc;
   int bstatus, cpx, userownames, usecolnames; const char* rowpool; const char* colpool; int* cb; int* nrw;
   havoc_ghosts();
   w_writeBasis(rowstat, colstat, lhs, rhs, nr, lower, upper, nc, bstatus, cpx, userownames, usecolnames, rowpool, colpool, cb, nrw);
   CANARY();
}
#endif

/* ------------------------------------------------------------------------------------------------------------- */
#ifdef INST_WRITEFILE
#define CB(c) (colstat[c] == BASIC)
#define RNB(r) (rowstat[r] != BASIC)
#define CUP(c) (colstat[c] == ON_UPPER)
#define RKIND(r) ((rowstat[r] == ON_UPPER && (!cpx || rowtypes[r] == RANGETYPE_BOXED)) ? K_XU : K_XL)
#define COL_RECORD_OK(c, seen, kind, row) ( \
   CB(c) ? ((seen) == 1 && 0 <= (row) && (row) < nr && RNB(CLAMP(row, nr)) && (kind) == RKIND(CLAMP(row, nr))) : \
   CUP(c) ? ((seen) == 1 && (kind) == K_UL && (row) == -1) : (seen) == 0)
#define WRITTEN (RET == 1 && !loaded && hasbasis)
int w_writeBasisFile(int* rowstat, int* colstat, int* rowtypes, int nr, int nc, int loaded, int hasbasis, int cpx,
                     int userownames, int usecolnames, const char* rowpool, const char* colpool, const char* fname, int* cb, int* nrw)
__CPROVER_requires(0 <= nr && nr <= CAP && 0 <= nc && nc <= CAP)
__CPROVER_requires(__CPROVER_is_fresh(rowstat, N1(nr) * sizeof(int)) && __CPROVER_is_fresh(colstat, N1(nc) * sizeof(int)))
/* _rowTypes is dimensioned like _basisStatusRows (it is maintained only when a rational LP is kept: see "trusted") */
__CPROVER_requires(__CPROVER_is_fresh(rowtypes, N1(nr) * sizeof(int)))
__CPROVER_requires(__CPROVER_is_fresh(rowpool, CAP + 1) && __CPROVER_is_fresh(colpool, CAP + 1) && __CPROVER_is_fresh(fname, 4))
__CPROVER_requires(__CPROVER_is_fresh(cb, (nc + 1) * sizeof(int)) && __CPROVER_is_fresh(nrw, (nr + 1) * sizeof(int)))
__CPROVER_requires(0 <= cpx && cpx <= 1 && 0 <= userownames && userownames <= 1 && 0 <= usecolnames && usecolnames <= 1 &&
                   0 <= loaded && loaded <= 1 && 0 <= hasbasis && hasbasis <= 1)
/* valid stored basis: as many basic columns as nonbasic rows (#basic == number of rows) */
__CPROVER_requires(cb[0] == 0 && nrw[0] == 0 && cb[nc] == nrw[nr])
__CPROVER_requires(GR ==> (0 <= nrw[g_r] && nrw[g_r] <= g_r && nrw[g_r + 1] == nrw[g_r] + (RNB(g_r) ? 1 : 0) && nrw[g_r + 1] <= nrw[nr]))
__CPROVER_assigns(WRITER_GHOSTS, g_width, g_pend_letter, g_name_split, g_open_arg_ok, g_delegated, gp_filename, gp_rt)
#ifndef CLAUSE_NAME_FIELDS
__CPROVER_ensures(RET == 0 || RET == 1)
/* loaded LP: the solver writes (delegation, nothing written here) */
__CPROVER_ensures(loaded ==> (g_delegated == 1 && g_header == 0 && g_nrec == 0))
__CPROVER_ensures(!loaded ==> (g_delegated == 0 && g_open_arg_ok == 1))
/* the file could not be opened: false, nothing written */
__CPROVER_ensures((!loaded && RET == 0) ==> (g_header == 0 && g_nrec == 0 && g_endata == 0))
/* well-formed file: header, records <indicator> <column> [<row>], ENDATA (blanks inside names: separate instance) */
__CPROVER_ensures((!loaded && RET == 1) ==> (g_malformed == 0 && g_header == 1 && g_endata == 1 && g_cur_kind == K_NONE && g_pend_letter == 0))
__CPROVER_ensures((!loaded && RET == 1 && !hasbasis) ==> g_nrec == 0)
/* same pairing as SPxBasisBase::writeBasis, on the VarStatus arrays */
__CPROVER_ensures((WRITTEN && G1) ==> COL_RECORD_OK(g_c1, g_c1_seen, g_c1_kind, g_c1_row))
__CPROVER_ensures((WRITTEN && G2) ==> COL_RECORD_OK(g_c2, g_c2_seen, g_c2_kind, g_c2_row))
__CPROVER_ensures((WRITTEN && G1 && G2 && g_c1 < g_c2 && CB(g_c1) && CB(g_c2)) ==> g_c1_row < g_c2_row)
__CPROVER_ensures((WRITTEN && GR) ==> (RNB(g_r) ?
   (g_r_seen == 1 && 0 <= g_r_col && g_r_col < nc && CB(CLAMP(g_r_col, nc)) && g_r_kind == RKIND(g_r)) : g_r_seen == 0))
#else
/* the clause kept in its own instance: every name is written as ONE blank-free field (no padding between "x"/"C" and the number) */
__CPROVER_ensures(g_name_split == 0)
#endif
;
void h_writeBasisFile(void)
{
   int* rowstat; int* colstat; int* rowtypes; int nr, nc, loaded, hasbasis, cpx, userownames, usecolnames;
   const char* rowpool; const char* colpool; const char* fname; int* cb; int* nrw;
   havoc_ghosts();
   w_writeBasisFile(rowstat, colstat, rowtypes, nr, nc, loaded, hasbasis, cpx, userownames, usecolnames, rowpool, colpool, fname, cb, nrw);
   CANARY();
}
#endif

/* ------------------------------------------------------------------------------------------------------------- */
#ifdef INST_READ
#define READER_GHOSTS gp_rs, gp_cs, gp_lhs, gp_rhs, gp_low, gp_up, g_nr, g_nc, g_inf, g_userows, g_usecols, g_done, \
   __CPROVER_object_whole(g_ns_num), __CPROVER_object_whole(g_ns_iscol), __CPROVER_object_whole(g_ns_max), __CPROVER_object_whole(gp_spare), \
   gp_scr_rows, gp_scr_cols, g_ss_form, g_ss_lit, g_ss_val, g_str_form, g_str_lit, g_str_val, \
   g_regc_cnt, g_regc_form, g_regc_lit, g_regc_val, g_regr_cnt, g_regr_form, g_regr_lit, g_regr_val, g_alloc, g_freed, g_destroyed, \
   g_line_kind, g_line_c, g_line_r, g_line_data, gp_f2, gp_f3, g_lastc, g_lastr, g_unknown, g_bad_lookup, g_defr, g_dualc, g_type_r, \
   g_load_calls, g_setstatus_calls, g_setstatus_arg, g_loaddesc_calls, g_loaded_c, g_loaded_r, g_loaded_nr, g_loaded_nc, g_status_at_loaddesc, \
   gp_mps_has_error, gp_mps_section, gp_mps
#define RTY TYPE_SPEC(lhs[g_r], rhs[g_r])
int w_readBasis(int* rowstat, int* colstat, int* scr_rows, int* scr_cols, double* lhs, double* rhs, int nr,
                double* lower, double* upper, int nc, int bstatus, int userownames, int usecolnames)
__CPROVER_requires(0 <= nr && nr <= CAP && 0 <= nc && nc <= CAP)
__CPROVER_requires(__CPROVER_is_fresh(rowstat, N1(nr) * sizeof(int)) && __CPROVER_is_fresh(colstat, N1(nc) * sizeof(int)))
__CPROVER_requires(__CPROVER_is_fresh(scr_rows, N1(nr) * sizeof(int)) && __CPROVER_is_fresh(scr_cols, N1(nc) * sizeof(int)))
__CPROVER_requires(__CPROVER_is_fresh(lhs, N1(nr) * sizeof(double)) && __CPROVER_is_fresh(rhs, N1(nr) * sizeof(double)))
__CPROVER_requires(__CPROVER_is_fresh(lower, N1(nc) * sizeof(double)) && __CPROVER_is_fresh(upper, N1(nc) * sizeof(double)))
__CPROVER_requires(NO_PROBLEM <= bstatus && bstatus <= INFEASIBLE)
#ifdef USER_NAMES
/* both name sets supplied; each has exactly one name per row / column of the LP (so that number() < nRows / nCols) */
__CPROVER_requires(userownames == 1 && usecolnames == 1)
#else
__CPROVER_requires(0 <= userownames && userownames <= 1 && 0 <= usecolnames && usecolnames <= 1)
#endif
/* sides and bounds at the ghost indices are numbers */
__CPROVER_requires(GR ==> (lhs[g_r] == lhs[g_r] && rhs[g_r] == rhs[g_r]))
__CPROVER_requires(G1 ==> (lower[g_c1] == lower[g_c1] && upper[g_c1] == upper[g_c1] && g_defc == DEFCOL_SPEC(lower[g_c1], upper[g_c1])))
__CPROVER_assigns(READER_GHOSTS, __CPROVER_object_whole(scr_rows), __CPROVER_object_whole(scr_cols))
#ifndef CLAUSE_DEFAULT_NAMES_EXACT
__CPROVER_ensures(RET == 0 || RET == 1)
/* success <=> the descriptor was loaded (once), after the basis status was forced to REGULAR; full dimensions */
__CPROVER_ensures(g_loaddesc_calls == RET && g_setstatus_calls == RET)
__CPROVER_ensures(RET == 1 ==> (g_setstatus_arg == REGULAR && g_status_at_loaddesc == REGULAR && g_loaded_nr == nr && g_loaded_nc == nc))
/* a name that is not in the name set ends in the syntax-error path (no out-of-bounds access: DataArray bounds obligations) */
__CPROVER_ensures(g_unknown > 0 ==> RET == 0)
__CPROVER_ensures(g_bad_lookup == 0)
__CPROVER_ensures(g_load_calls == (bstatus == NO_PROBLEM ? 1 : 0))
/* temporary name sets: allocated iff none supplied, destroyed and freed again */
__CPROVER_ensures(g_alloc == (1 - userownames) + (1 - usecolnames) && g_freed == g_alloc && g_destroyed == 2 * g_alloc)
__CPROVER_ensures((!usecolnames) ==> (g_ns_num[2] == nc && g_ns_max[2] == nc))
__CPROVER_ensures((!userownames) ==> (g_ns_num[usecolnames ? 2 : 3] == nr && g_ns_max[usecolnames ? 2 : 3] == nr))
/* the real helper bodies agree with their specification at the ghost indices */
__CPROVER_ensures(GR ==> (g_type_r == RTY && g_defr == DUALROW_SPEC(lhs[g_r], rhs[g_r])))
__CPROVER_ensures(G1 ==> g_dualc == DUALCOL_SPEC(lower[g_c1], upper[g_c1]))
/* columns: start = the slack basis (nonbasic by bounds); the last record naming the column decides */
__CPROVER_ensures((RET == 1 && G1) ==> (0 <= g_lastc && g_lastc <= K_LL && g_loaded_c ==
   (g_lastc == K_NONE ? DEFCOL_SPEC(lower[g_c1], upper[g_c1]) : (g_lastc == K_XU || g_lastc == K_XL) ? g_dualc : g_lastc == K_UL ? P_ON_UPPER : P_ON_LOWER)))
/* rows: start = basic (dualRowStatus); XU = nonbasic at the upper side, XL = at the lower side, an equation is FIXED,
 * a row without the named side sits on its other side */
__CPROVER_ensures((RET == 1 && GR) ==> ((g_lastr == K_NONE || g_lastr == K_XU || g_lastr == K_XL) && g_loaded_r ==
   (g_lastr == K_NONE ? g_defr :
    g_lastr == K_XU ? (RTY == GREATER_EQUAL ? P_ON_LOWER : RTY == EQUAL ? P_FIXED : P_ON_UPPER) :
                      (RTY == LESS_EQUAL ? P_ON_UPPER : RTY == EQUAL ? P_FIXED : P_ON_LOWER))))
/* lemma read o write = identity up to loadDesc's normal form: if the last record naming the row / column is the one the
 * writer emits for a fitting nonbasic status v, the loaded status has the same normal form as v */
__CPROVER_ensures((RET == 1 && GR && VALID_NB(v_sr, lhs[g_r], rhs[g_r]) && g_lastr == WKIND_ROW(v_sr, RTY, g_cpx != 0)) ==>
   NORM(g_loaded_r, lhs[g_r], rhs[g_r]) == NORM(v_sr, lhs[g_r], rhs[g_r]))
__CPROVER_ensures((RET == 1 && G1 && VALID_NB(v_sc, lower[g_c1], upper[g_c1]) && g_lastc == WKIND_COL(v_sc)) ==>
   NORM(g_loaded_c, lower[g_c1], upper[g_c1]) == NORM(v_sc, lower[g_c1], upper[g_c1]))
#else
/* the clause kept in its own instance (DESIGN.md 6.4): the default name registered for column j is exactly "x<j>", for row i "C<i>"
 * (what getColName/getRowName of the writer print when no names are supplied) */
__CPROVER_ensures((!usecolnames && G1) ==> (g_regc_cnt == 1 && g_regc_form == 2 && g_regc_lit == 'x' && g_regc_val == g_c1))
__CPROVER_ensures((!userownames && GR) ==> (g_regr_cnt == 1 && g_regr_form == 2 && g_regr_lit == 'C' && g_regr_val == g_r))
#endif
;
void h_readBasis(void)
{
   int* rowstat; int* colstat; int* scr_rows; int* scr_cols; double* lhs; double* rhs; int nr; double* lower; double* upper; int nc;
   int bstatus, userownames, usecolnames;
   havoc_ghosts();
   w_readBasis(rowstat, colstat, scr_rows, scr_cols, lhs, rhs, nr, lower, upper, nc, bstatus, userownames, usecolnames);
   CANARY();
}
#endif
