// C17 (second sentence): a copy of a SoPlex object is equal to and independent of its source.  Five deviations; run with ASAN_OPTIONS=detect_leaks=1.
// (without -DNDEBUG copying a SOLVED object aborts in SLUFactor<R>::assign, slufactor.hpp:1032: the test at line 1009 looks at the TARGET's l.rval)
// build: g++ -std=c++14 -g -DNDEBUG -fsanitize=address -I/repo/src -I/repo/_build native_copy.cpp /repo/_build/lib/libsoplex.a -lgmp -lmpfr -lz -ltbb
#include <memory>
#include <iostream>
#include <sstream>
#include <vector>
#include <string>
#include <cstdio>
#include <cstring>
#include <cstdlib>
#define private public        /* state inspection only (no private member is written) */
#define protected public
#include "soplex.h"
#undef private
#undef protected
using namespace soplex;
static void build(SoPlex& s)
{
   s.setIntParam(SoPlex::VERBOSITY, 0);
   DSVectorReal c(0);
   for(int j = 0; j < 3; j++) s.addColReal(LPColReal(1.0 + j, c, 10.0, 0.0));
   for(int i = 0; i < 3; i++) { DSVectorReal r(3); for(int j = 0; j < 3; j++) r.add(j, 1 + ((i + j) % 3)); s.addRowReal(LPRowReal(-infinity, r, 12.0)); }
   s.setIntParam(SoPlex::OBJSENSE, SoPlex::OBJSENSE_MAXIMIZE);
}
int main()
{
   int bad = 0;
   {  // (1) tolerances object shared between source and copy
      SoPlex b; build(b); b.setRealParam(SoPlex::FEASTOL, 1e-7); b.optimize();
      SoPlex a(b);
      printf("(1) a.tolerances() == b.tolerances(): %s\n", a.tolerances().get() == b.tolerances().get() ? "SAME OBJECT" : "distinct");
      b.setRealParam(SoPlex::FEASTOL, 1e-3);   // modify the SOURCE only
      printf("    after b.setRealParam(FEASTOL, 1e-3): a.realParam(FEASTOL) = %g, but a's solver works with feastol %g\n", a.realParam(SoPlex::FEASTOL), (double)a.tolerances()->feastol());
      if(a.tolerances()->feastol() != 1e-7) bad++;
   }
   {  // (2) parameter-derived rational tolerances are not copied
      SoPlex b; build(b); b.setRealParam(SoPlex::FEASTOL, 1e-7); b.setRealParam(SoPlex::OPTTOL, 1e-7);
      SoPlex a(b);
      printf("(2) b._rationalFeastol = %s, a._rationalFeastol = %s; b._rationalOpttol = %s, a._rationalOpttol = %s; maxscaleincr b %s a %s\n", b._rationalFeastol.str().c_str(), a._rationalFeastol.str().c_str(),
             b._rationalOpttol.str().c_str(), a._rationalOpttol.str().c_str(), b._rationalMaxscaleincr.str().c_str(), a._rationalMaxscaleincr.str().c_str());
      if(a._rationalFeastol != b._rationalFeastol) bad++;
   }
   {  // (3) copy constructor leaves scalar state uninitialised: construct the copy in poisoned memory
      SoPlex b; build(b); b.optimize();
      void* mem = malloc(sizeof(SoPlex)); memset(mem, 0x5A, sizeof(SoPlex));
      SoPlex* a = new(mem) SoPlex(b);
      printf("(3) copy in poisoned memory: _optimizeCalls b %d a %d (0x%x), _unscaleCalls a 0x%x, _hasOldBasis a %d, _storedBasis a %d, _certificateMode a 0x%x\n", b._optimizeCalls, a->_optimizeCalls, a->_optimizeCalls,
             a->_unscaleCalls, (int)*(unsigned char*)&a->_hasOldBasis, (int)*(unsigned char*)&a->_storedBasis, a->_certificateMode);
      if(a->_optimizeCalls != b._optimizeCalls) bad++;
      printf("    boosted solver: b pricer %p, a pricer %p ; b ratiotester %p, a ratiotester %p\n", (void*)b._boostedSolver.pricer(), (void*)a->_boostedSolver.pricer(), (void*)b._boostedSolver.ratiotester(), (void*)a->_boostedSolver.ratiotester());
      a->~SoPlex(); free(mem);
   }
   {  // (4) assignment over an object that owns a rational LP: old rational LP leaked (LeakSanitizer reports at exit)
      SoPlex a, b; build(a); build(b);
      a.setIntParam(SoPlex::SYNCMODE, SoPlex::SYNCMODE_AUTO); b.setIntParam(SoPlex::SYNCMODE, SoPlex::SYNCMODE_AUTO);
      void* old = (void*)a._rationalLP;
      a = b;
      printf("(4) a = b with both in automatic sync: a's old rational LP %p, new %p (old one neither destroyed nor freed -> see LeakSanitizer)\n", old, (void*)a._rationalLP);
   }
   {  // (5) LP objects of the copy keep pointers into the source: message handler of the rational LP, scaler of the (scaled) floating-point LP
      SoPlex b; build(b); b.setIntParam(SoPlex::SYNCMODE, SoPlex::SYNCMODE_AUTO); b.optimize();
      SoPlex a(b);
      printf("(5) a._rationalLP->spxout %s; a._solver.lp_scaler %s (b._scaler %p, a._scaler %p, a's LP uses %p)\n", a._rationalLP->spxout == &b.spxout ? "== &b.spxout" : "own",
             (void*)a._solver.lp_scaler == (void*)b._scaler && b._scaler != nullptr ? "== b's scaler object" : "own/none", (void*)b._scaler, (void*)a._scaler, (void*)a._solver.lp_scaler);
      if(a._rationalLP->spxout == &b.spxout) bad++;
      if((void*)a._solver.lp_scaler == (void*)b._scaler && b._scaler != nullptr) bad++;
   }
   printf("%d deviation(s)\n", bad);
   return bad != 0;
}
