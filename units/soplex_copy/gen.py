#!/usr/bin/env python3
"""Generates members.inc, obs.h, clauses_*.h and unit.json of unit soplex_copy from the member table below.
The table is the unit's KNOWN list: every data member of class SoPlexBase (soplex.h) with its kind and its role for the property
"a copy has the same LP, parameters, basis, status and solution as its source and is independent of it" (C17, second sentence).
Run after editing; the runner reads the generated files only."""
import json, os, re
HERE = os.path.dirname(os.path.abspath(__file__))
# kind: REC stub object with an identity/content tag .val | RAT Rational | BOOL | INT | ENUM | REAL | PTR (hand-written encoder in unit.cpp)
# role: V copied always | VR copied when the source has a rational LP | VS copied when the source has the solution | K constant
#       D object state the default constructor initialises but the copy does not set (clause SAME, fails: parked)
#       S scratch: working storage (re)built inside every solve before it is read - documented exception, no clause
#       P pointer: INDEPENDENT clauses
T = """
spxout REC V
_statistics PTR P
_currentSettings PTR P
_tolerances PTR P
_rationalPosInfty RAT VR
_rationalNegInfty RAT VR
_rationalFeastol RAT D
_rationalOpttol RAT D
_rationalMaxscaleincr RAT D
_solver REC V
_slufactor REC V
_simplifierMainSM REC V
_simplifierPaPILO REC V
_scalerUniequi REC V
_scalerBiequi REC V
_scalerGeo1 REC V
_scalerGeo8 REC V
_scalerGeoequi REC V
_scalerLeastsq REC V
_starterWeight REC V
_starterSum REC V
_starterVector REC V
_pricerAuto REC V
_pricerDantzig REC V
_pricerParMult REC V
_pricerDevex REC V
_pricerQuickSteep REC V
_pricerSteep REC V
_ratiotesterTextbook REC V
_ratiotesterHarris REC V
_ratiotesterFast REC V
_ratiotesterBoundFlipping REC V
_realLP PTR P
_simplifier PTR P
_scaler PTR P
_starter PTR P
_boostedSolver REC D
_initialPrecision INT K
_boostingLimitReached BOOL D
_switchedToBoosted BOOL D
_certificateMode INT D
_lastStallPrecBoosts INT D
_factorSolNewBasisPrecBoost BOOL D
_nextRatrecPrecBoost INT D
_prevIterations INT D
_tolPrecisionRatio REAL K
_epsZeroPrecisionRatio REAL K
_epsFactorPrecisionRatio REAL K
_epsUpdatePrecisionRatio REAL K
_epsPivotPrecisionRatio REAL K
_boostedSlufactor REC D
_boostedPricerAuto REC D
_boostedPricerDantzig REC D
_boostedPricerParMult REC D
_boostedPricerDevex REC D
_boostedPricerQuickSteep REC D
_boostedPricerSteep REC D
_boostedRatiotesterTextbook REC D
_boostedRatiotesterHarris REC D
_boostedRatiotesterFast REC D
_boostedRatiotesterBoundFlipping REC D
_boostedScaler PTR P
_boostedSimplifier PTR P
_boostedScalerUniequi REC D
_boostedScalerBiequi REC D
_boostedScalerGeo1 REC D
_boostedScalerGeo8 REC D
_boostedScalerGeoequi REC D
_boostedScalerLeastsq REC D
_boostedSimplifierMainSM REC D
_boostedSimplifierPaPILO REC D
_isRealLPLoaded BOOL V
_isRealLPScaled BOOL V
_applyPolishing BOOL V
_manualLower REC S
_manualUpper REC S
_manualLhs REC S
_manualRhs REC S
_manualObj REC S
_manualRealLP REC S
_rationalLP PTR P
_rationalLUSolver REC VR
_rationalLUSolverBind REC VR
_slackCols REC S
_unboundedLower REC S
_unboundedUpper REC S
_unboundedLhs REC S
_unboundedRhs REC S
_tauColVector REC S
_feasObj REC S
_feasLhs REC S
_feasRhs REC S
_feasLower REC S
_feasUpper REC S
_modLower REC S
_modUpper REC S
_modLhs REC S
_modRhs REC S
_modObj REC S
_primalDualDiff REC S
_storedBasisStatusRows REC S
_storedBasisStatusCols REC S
_unitMatrixRational REC S
_storedBasis BOOL S
_beforeLiftRows INT S
_beforeLiftCols INT S
_colTypes REC VR
_rowTypes REC VR
_status ENUM V
_lastSolveMode INT V
_basisStatusRows REC V
_basisStatusCols REC V
_hasOldBasis BOOL D
_hasOldFeasBasis BOOL D
_hasOldUnbdBasis BOOL D
_oldBasisStatusRows REC S
_oldBasisStatusCols REC S
_oldFeasBasisStatusRows REC S
_oldFeasBasisStatusCols REC S
_oldUnbdBasisStatusRows REC S
_oldUnbdBasisStatusCols REC S
_tmpBasisStatusRows REC S
_tmpBasisStatusCols REC S
_solReal REC VS
_solRational REC VS
_workSol REC S
_hasBasis BOOL V
_hasSolReal BOOL V
_hasSolRational BOOL V
_optimizeCalls INT D
_unscaleCalls INT D
_rationalPosone RAT K
_rationalNegone RAT K
_rationalZero RAT K
"""
M = [l.split() for l in T.strip().splitlines()]
names = [m[0] for m in M]
assert len(set(names)) == len(names)
# extra observation slots (not members): contents behind owning pointers, wiring of the components, back pointers of LP objects
TOL_WIRED = ["_solver", "_boostedSolver", "_simplifierMainSM", "_simplifierPaPILO", "_scalerUniequi", "_scalerBiequi", "_scalerGeo1", "_scalerGeo8", "_scalerGeoequi",
             "_scalerLeastsq", "_boostedScalerUniequi", "_boostedScalerBiequi", "_boostedScalerGeo1", "_boostedScalerGeo8", "_boostedScalerGeoequi", "_boostedScalerLeastsq",
             "_ratiotesterBoundFlipping", "_ratiotesterFast", "_ratiotesterHarris", "_ratiotesterTextbook", "_boostedRatiotesterBoundFlipping", "_boostedRatiotesterFast",
             "_boostedRatiotesterHarris", "_boostedRatiotesterTextbook", "_slufactor", "_boostedSlufactor"]
OUT_WIRED = ["_solver", "_simplifierMainSM", "_simplifierPaPILO", "_scalerUniequi", "_scalerBiequi", "_scalerGeo1", "_scalerGeo8", "_scalerGeoequi", "_scalerLeastsq"]
EXTRA = (["c_statistics", "c_settings", "c_realLP", "c_rationalLP", "c_tolerances", "w_basisSolver", "w_solverStarter", "bp_solver_lpscaler", "bp_realLP_lpscaler",
          "bp_realLP_spxout", "bp_rationalLP_spxout", "bp_rationalLP_tol", "bp_rationalLP_lpscaler", "bp_realLP_tol"]
         + ["wt" + n for n in TOL_WIRED] + ["wo" + n for n in OUT_WIRED])
slots = names + EXTRA
idx = {n: k for k, n in enumerate(slots)}
NOBS = len(slots)

with open(os.path.join(HERE, "obs.h"), "w") as f:
    f.write("/* generated by gen.py: observation slots (one per data member of SoPlexBase + contents / wiring / back pointers) */\n")
    for n in slots: f.write("#define O_%s %d\n" % (n.lstrip("_") if False else n, idx[n]))
    f.write("#define NOBS %d\n" % NOBS)
with open(os.path.join(HERE, "members.inc"), "w") as f:
    f.write("/* generated by gen.py: X-macro list of the value-like data members (pointer members are handled by hand in unit.cpp) */\n")
    for n, kind, role in M:
        if kind != "PTR": f.write("M_%s(%s)\n" % (kind, n))
    for n in TOL_WIRED: f.write("W_TOL(%s)\n" % n)
    for n in OUT_WIRED: f.write("W_OUT(%s)\n" % n)

def ens(expr, why): return "__CPROVER_ensures(%s) /* %s */\n" % (expr, why)
def clause_file(fn, lines):
    with open(os.path.join(HERE, fn), "w") as f:
        f.write("/* generated by gen.py */\n#define %s \\\n" % fn.replace(".h", "").upper())
        f.write(" \\\n".join("   " + l.rstrip("\n") for l in lines) + "\n")
A = lambda n: "oa[%d]" % idx[n]
B = lambda n: "ob0[%d]" % idx[n]
A0 = lambda n: "oa0[%d]" % idx[n]
# ---- SAME: members the copy must carry (and the code does copy)
same = []
for n, kind, role in M:
    if role == "V": same.append(ens("%s == %s" % (A(n), B(n)), n))
    if role == "VR": same.append(ens("!b_has_rat || %s == %s" % (A(n), B(n)), n + " (the source has a rational LP)"))
same.append(ens("!%s || %s == %s" % (B("_hasSolReal"), A("_solReal"), B("_solReal")), "_solReal (the source has a floating-point solution)"))
same.append(ens("!%s || %s == %s" % (B("_hasSolRational"), A("_solRational"), B("_solRational")), "_solRational (the source has a rational solution)"))
same.append(ens("%s == 1 && %s == -1 && %s == 0" % (A("_rationalPosone"), A("_rationalNegone"), A("_rationalZero")), "rational constants"))
const = [ens("%s == %s" % (A(n), A0(n)), n + ": constant of the class (in-class initialiser), untouched") for n, kind, role in M if role == "K" and kind != "RAT"]
clause_file("clauses_const.h", const)
same += [ens("%s == %s" % (A("c_statistics"), B("c_statistics")), "*_statistics"),
         ens("%s == %s" % (A("c_settings"), B("c_settings")), "*_currentSettings (parameters)"),
         ens("%s == %s" % (A("c_tolerances"), B("c_tolerances")), "tolerances (content)")]
samep = [ens("%s == %s" % (A("c_realLP"), B("c_realLP")), "SAME floating-point LP (*_realLP: the solver when loaded)"),
         ens("b_has_rat ? %s == %s : %s == 0" % (A("c_rationalLP"), B("c_rationalLP"), A("_rationalLP")), "SAME rational LP (absent iff the source has none)"),
         ens("%s == %s && %s == %s && %s == %s" % (A("_simplifier"), B("_simplifier"), A("_scaler"), B("_scaler"), A("_starter"), B("_starter")),
             "the SAME simplifier / scaler / starter is selected (index of the own sub-object, 0 = none)")]
clause_file("clauses_samep.h", samep)
clause_file("clauses_same.h", same)
# ---- NOTCOPIED: object state that neither operator= nor the copy constructor sets (fails by design)
# one clause per GROUP (a failing clause costs one solver round each: 46 single clauses made the instance too slow for the quick tier)
def conj(ns): return " && ".join("%s == %s" % (A(n), B(n)) for n in ns)
D = [n for n, kind, role in M if role == "D"]
G_RATTOL = [n for n in D if n.startswith("_rational")]
G_BOOST = [n for n in D if n.startswith("_boosted")]
G_STATE = [n for n in D if n not in G_RATTOL and n not in G_BOOST]
notc = [ens(conj(G_RATTOL), "images of FEASTOL / OPTTOL / MAXSCALEINCR used by the exact solver: " + ", ".join(G_RATTOL)),
        ens("b_has_rat || (%s)" % conj(["_rationalPosInfty", "_rationalNegInfty"]), "images of the parameter INFTY when the source has no rational LP"),
        ens(conj(G_BOOST), "configuration of the boosted-precision solver and its components: " + ", ".join(G_BOOST)),
        ens(conj(G_STATE), "counters and flags the default constructor initialises: " + ", ".join(G_STATE))]
clause_file("clauses_notcopied.h", notc)
# ---- INDEPENDENT: wiring of a's components to a's own objects
wired = [ens("%s == 1" % A("wt" + n), n + " works with this object's tolerances") for n in TOL_WIRED]
wired += [ens("%s == 1" % A("wo" + n), n + " writes to this object's message handler") for n in OUT_WIRED]
wired += [ens("%s == 1" % A("w_basisSolver"), "_solver's basis solver is this object's _slufactor"),
          ens("%s == 1" % A("w_solverStarter"), "_solver's starter is this object's _starter")]
clause_file("clauses_wired.h", wired)

# ---- unit.json
F = "src/soplex.hpp"
S_ASSIGN = {"as": "assign.inc", "file": F, "sig": r"SoPlexBase<R>&\s*SoPlexBase<R>::operator=\s*\(\s*const\s+SoPlexBase<R>&\s*rhs\s*\)",
            "model_depends_on": [r"_realLP = new\(_realLP\) SPxLPBase<R>\(\*\(rhs\._realLP\)\);", r"_realLP->~SPxLPBase<R>\(\);"]}
S_CTOR = {"as": "copyctor.inc", "file": F, "sig": r"SoPlexBase<R>::SoPlexBase\s*\(\s*const\s+SoPlexBase<R>&\s*rhs\s*\)"}
S_SETINT = {"as": "setIntParam.inc", "file": F, "sig": r"bool\s+SoPlexBase<R>::setIntParam\s*\(\s*const\s+IntParam\s+param\s*,\s*const\s+int\s+value\s*,\s*const\s+bool\s+init\s*\)"}
S_INTPARAM = {"as": "intParam.inc", "file": F, "sig": r"int\s+SoPlexBase<R>::intParam\s*\(\s*const\s+IntParam\s+param\s*\)\s*const"}
S_BOUNDS = {"as": "IntParamCtor.inc", "file": F, "sig": r"SoPlexBase<R>::Settings::IntParam::IntParam\s*\(\s*\)"}
SL = [S_ASSIGN, S_CTOR, S_SETINT, S_INTPARAM, S_BOUNDS]
KNOWN = "|".join(names)
UNKNOWN_MEMBER = (r"(?:\A.*?\nclass SoPlexBase\b.*?\n   (?![ \n])(?!friend\b|typedef\b|using\b|template\b|enum\b|class\b|struct\b|public:|private:|protected:|//|/\*|\*|#|\}|\{|return\b)"
                  r"[^\n()]*?\b(?!(?:%s)\s*[;=\[])(?=[A-Za-z_]\w*\s*(?:\[[^\]\n]*\])?\s*(?:=[^;\n()]*)?;)|\A)(\w*)" % KNOWN)
def mut(name, find, repl, sl="assign.inc", regex=False):
    m = {"name": name, "slice": sl, "find": find, "replace": repl}
    if regex: m["regex"] = True
    return m
M_SAME = [mut("status_not_copied", "_status = rhs._status;", ";"),
          mut("basis_rows_not_copied", "_basisStatusRows = rhs._basisStatusRows;", ";"),
          mut("settings_not_copied", "*_currentSettings = *(rhs._currentSettings);", ";"),
          mut("solver_not_copied", "_solver = rhs._solver;", ";"),
          mut("solution_copied_from_wrong_flag", "if(rhs._hasSolReal)", "if(_hasSolReal)"),
          mut("hasBasis_not_copied", "_hasBasis = rhs._hasBasis;", ";"),
          mut("coltypes_not_copied", "_colTypes = rhs._colTypes;", ";"),
          mut("scaler_selection_not_redone", "setIntParam(SoPlexBase<R>::SCALER, intParam(SoPlexBase<R>::SCALER), true);", ";")]
M_IND = [mut("rationalLP_shallow_copy", r"_rationalLP = nullptr;\s*spx_alloc\(_rationalLP\);\s*_rationalLP = new\(_rationalLP\) SPxLPRational\(\*rhs\._rationalLP\);", "_rationalLP = rhs._rationalLP;", regex=True),
         mut("realLP_shallow_copy", r"_realLP = 0;\s*spx_alloc\(_realLP\);\s*_realLP = new\(_realLP\) SPxLPBase<R>\(\*\(rhs\._realLP\)\);", "_realLP = rhs._realLP;", regex=True),
         mut("realLP_points_to_source_solver", "_realLP = &_solver;", "_realLP = (LPStub*)&rhs._solver;"),
         mut("settings_pointer_shared", "*_currentSettings = *(rhs._currentSettings);", "_currentSettings = rhs._currentSettings;"),
         mut("basis_solver_of_source", "_solver.setBasisSolver(&_slufactor);", "_solver.setBasisSolver((SLUFactor<R>*)&rhs._slufactor);"),
         mut("outstream_of_source", "_solver.setOutstream(spxout);", "_solver.setOutstream(rhs.spxout);"),
         mut("scaler_pointer_copied", "setIntParam(SoPlexBase<R>::SCALER, intParam(SoPlexBase<R>::SCALER), true);", "_scaler = rhs._scaler;"),
         mut("simplifier_outstream_not_set", "_simplifierMainSM.setOutstream(spxout);", ";"),
         mut("old_rationalLP_not_freed", "spx_free(_rationalLP);", ";")]
M_FRAME = [mut("writes_source_flag", "_hasBasis = rhs._hasBasis;", "_hasBasis = rhs._hasBasis; *(bool*)&rhs._hasBasis = false;"),
           mut("self_test_dropped", "if(this != &rhs)", "if(true)")]
insts = []
def inst(name, function, defines, mutants, tier="quick", minobl=100):
    d = {"INST_" + name.split("_")[0]: ""}; d.update(defines)
    insts.append({"name": name, "function": function, "defines": d, "slices": SL, "min_obligations": minobl, "tier": tier, "mutants": mutants})
FA = "SoPlexBase<R>::operator=(const SoPlexBase<R>& rhs)"
FC = "SoPlexBase<R>::SoPlexBase(const SoPlexBase<R>& rhs)  (+ real operator=)"
V = {"OBS_VALUES": ""}; P = {"OBS_POINTERS": ""}
def dd(*ds):
    r = {}
    for d in ds: r.update(d)
    return r
inst("assign_same", FA + "  [SAME: every value-like member the copy must carry]", dd(V, {"CLAUSES_SAME_ON": "", "OBS_A_BEFORE": ""}), M_SAME[:7])
inst("assign_independent", FA + "  [INDEPENDENT: owned objects, own sub-objects, wiring, allocation; SAME LP objects and simplifier/scaler/starter selection]",
     dd(P, {"CLAUSES_IND_ON": "", "OBS_B_AFTER": ""}), M_IND + [M_SAME[7]])
inst("assign_frame", FA + "  [FRAME: the source is unchanged]", dd(V, P, {"CLAUSES_FRAME_ON": "", "OBS_B_AFTER": ""}), [M_FRAME[0]], tier="thorough")
inst("assign_self", FA + "  [self-assignment is a no-op]", dd(V, P, {"CLAUSES_SELF_ON": "", "SELF_ASSIGN": "", "OBS_A_BEFORE": ""}), [M_FRAME[1]])
inst("assign_notcopied", FA + "  [SAME for object state the code does not copy: rational tolerances, boosted-solver configuration, counters and flags]",
     dd(V, {"CLAUSES_NOTCOPIED_ON": ""}), [])
inst("assign_releases_old", FA + "  [the target's old floating-point / rational LP objects are destroyed and freed exactly once]", {"CLAUSES_RELEASE_ON": ""}, [
     mut("old_realLP_not_freed", r"if\(_realLP != nullptr && _realLP != &_solver\)\s*\{.*?\}", "", regex=True),
     mut("old_rationalLP_not_freed", r"if\(_rationalLP != nullptr\)\s*\{\s*_rationalLP->~SPxLPRational\(\);\s*spx_free\(_rationalLP\);\s*\}\s*_rationalLP = nullptr;\s*spx_alloc", "_rationalLP = nullptr; spx_alloc", regex=True),
     mut("old_realLP_freed_without_destructor", "_realLP->~SPxLPBase<R>();", "")], minobl=50)
inst("assign_tolerances_own", FA + "  [the copy has its OWN Tolerances object, and its LP objects use it]", dd(V, P, {"CLAUSES_TOLOWN_ON": ""}), [
     mut("tolerances_shared", r"_tolerances = std::make_shared<Tolerances>\(\*rhs\._tolerances\);", "_tolerances = rhs._tolerances;", regex=True),
     mut("rationalLP_tolerances_of_source", "_rationalLP->setTolerances(_tolerances);", "_rationalLP->setTolerances(rhs._rationalLP->tolerances());"),
     mut("realLP_copy_keeps_source_tolerances", "_realLP->setTolerances(_tolerances);", ";")])
inst("assign_no_pointer_into_source", FA + "  [no LP object of the copy keeps a pointer to a sub-object of the source: lp_scaler, spxout]", dd(P, {"CLAUSES_BACKPTR_ON": ""}), [])
inst("copyctor_same", FC + "  [SAME]", dd(V, {"CLAUSES_SAME_ON": "", "CTOR": ""}), [mut("no_assignment", "*this = rhs;", ";", "copyctor.inc"), M_SAME[0], M_SAME[3]])
inst("copyctor_independent", FC + "  [INDEPENDENT: fresh statistics/settings objects, own LP objects, wiring; SAME LP objects and selection]", dd(P, {"CLAUSES_IND_ON": "", "CTOR": "", "OBS_B_AFTER": ""}),
     [mut("settings_not_allocated", r"spx_alloc\(_currentSettings\);\s*_currentSettings = new\(_currentSettings\) Settings\(\);", "_currentSettings = rhs._currentSettings;", "copyctor.inc", True),
      mut("rationalLP_not_nulled", "_rationalLP = nullptr;", ";", "copyctor.inc"), M_IND[0], M_IND[4]])
inst("copyctor_frame", FC + "  [FRAME: source unchanged]", dd(V, P, {"CLAUSES_FRAME_ON": "", "CTOR": "", "OBS_B_AFTER": ""}), [M_FRAME[0]], tier="thorough")
inst("copyctor_notcopied", FC + "  [SAME for object state the code does not copy; in a copy-constructed object it is uninitialised]", dd(V, {"CLAUSES_NOTCOPIED_ON": "", "CTOR": ""}), [])
H = "src/soplex.h"
unit = {
 "property": ["C17"],
 "desc": "copying a SoPlex object: member-by-member SAME / INDEPENDENT / FRAME / self-assignment clauses for SoPlexBase<R>::operator= and the copy constructor; member list scanned from class SoPlexBase",
 "rmode": "identity tags (every sub-object is a recorder carrying a content tag); double only for five constant ratios",
 "flags": ["--bounds-check", "--pointer-check"], "timeout_s": 300, "mem_gb": 8,
 "harness": "h_copy", "enforce": "w_copy",
 "extracts": [
  {"as": "data1.inc", "file": H, "regex": r"private:\s*///@name Statistics on solving process\s*///@\{(.*?)#ifdef SOPLEX_WITH_BOOST\s*#ifdef SOPLEX_WITH_MPFR\s*//-+ BOOSTED SOLVER", "group": 1},
  {"as": "data2.inc", "file": H, "regex": r"using BP = double;\s*#endif(\s*// boosted solver object.*?)///@name Constant helper methods", "group": 1},
  {"as": "spxout_decl.inc", "file": H, "regex": r"\n   (mutable SPxOut spxout;)", "group": 1},
  {"as": "IntParam.inc", "file": H, "regex": r"typedef enum\s*\{[^{}]*\}\s*IntParam;"},
  {"as": "RealParam.inc", "file": H, "regex": r"typedef enum\s*\{[^{}]*\}\s*RealParam;"},
  {"as": "intenums.inc", "file": H, "regex": r"(/// values for parameter OBJSENSE\s*enum.*?)/// real parameters", "group": 1},
 ],
 "constants": [{"name": "K_UNKNOWN_DATA_MEMBER", "file": H, "regex": UNKNOWN_MEMBER}],
 "conformance": [
  {"file": H, "regex": r"\n   SPxSolverBase<R> _solver;", "why": "hand-declared member (non-template class, README 20): real declaration"},
  {"file": H, "regex": r"\n   SPxLPBase<R>\* _realLP;", "why": "hand-declared member (non-template class, README 20): real declaration"},
  {"file": "src/soplex/spxlpbase.h", "regex": r"lp_scaler = old\.lp_scaler;\s*spxout = old\.spxout;\s*_tolerances = old\._tolerances;", "why": "stub LP: same-type assignment copies lp_scaler, spxout and tolerances pointers (member-wise)"},
  {"file": "src/soplex/spxlpbase.h", "regex": r"SPxLPBase\(const SPxLPBase<R>& old\)\s*:[^{}]*lp_scaler\(old\.lp_scaler\)\s*,\s*spxout\(old\.spxout\)", "why": "stub LP: copy constructor copies lp_scaler and spxout pointers"},
  {"file": "src/soplex/spxscaler.hpp", "regex": r"SPxScaler<R>& SPxScaler<R>::operator=\(const SPxScaler<R>& rhs\).*?spxout     = rhs\.spxout;", "why": "stub scaler: assignment copies the message-handler pointer"},
  {"file": "src/soplex/spxsimplifier.h", "regex": r"SPxSimplifier& operator=\(const SPxSimplifier& rhs\).*?spxout = rhs\.spxout;", "why": "stub simplifier: assignment copies the message-handler pointer"},
  {"file": "src/soplex/spxalloc.h", "regex": r"inline void spx_free\(T& p\)\s*\{\s*assert\(p != nullptr\);\s*free\(p\);\s*p = nullptr;", "why": "stub spx_free resets the pointer"},
  {"file": F, "regex": r"SoPlexBase<R>::~SoPlexBase\(\).*?spx_free\(_currentSettings\);.*?spx_free\(_statistics\);.*?if\(_realLP != &_solver\).*?spx_free\(_realLP\);.*?if\(_rationalLP != nullptr\).*?spx_free\(_rationalLP\);",
   "why": "ownership: the destructor frees *_currentSettings, *_statistics, *_realLP unless it is the solver, *_rationalLP - these are the OWNED objects"},
 ],
 "trusted": [
  "every member TYPE is a recorder stub carrying a content tag: assignment of a sub-object copies the tag (its own deep-copy logic - SPxSolverBase, SLUFactor, SPxMainSM, ... operator= - is not part of this unit) and, like the real member-wise assignments, the message-handler / tolerances / lp_scaler / basis-solver pointers it holds (conformance-checked where a regex can see it)",
  "class families are flattened (SPxEquiliSC/SPxGeometSC/SPxLeastSqSC = SPxScaler, SPxMainSM/Presol = SPxSimplifier, pricers = SPxPricer, ratio testers = SPxRatioTester, starters = SPxStarter, SPxSolverBase = SPxLPBase) because goto-cc mishandles template inheritance chains; BP = double",
  "heap: spx_alloc hands out one pre-filled object per type from the wrapper (allocation counted), spx_free and explicit destructor calls are counted per object; `new(p) T(args)` is rewritten by a macro into a call that constructs into *p",
  "setIntParam and intParam are the REAL bodies (they select this object's own simplifier/scaler/starter); the bounds table is the real body of Settings::IntParam::IntParam(); Settings assignment copies the value arrays and a content tag",
  "scratch members (role S in gen.py: _manual*, _slackCols, _unbounded*, _tauColVector, _feas*, _mod*, _primalDualDiff, _stored*/_old*/_tmpBasisStatus*, _unitMatrixRational, _workSol, _storedBasis, _beforeLift*) are working storage that every solve (re)builds before reading; they carry no clause - this classification is by reading the code, it is not proved",
  "data-member scan: a declaration of class SoPlexBase is recognised as a line indented by exactly three blanks without parentheses ending in `name;`, `name[..];` or `name = init;`",
  "NDEBUG semantics: SLUFactor<R>::assign (slufactor.hpp:1009) tests the TARGET's l.rval and aborts on assert(old.l.ridx == nullptr) when a SOLVED SoPlex is copied in an assert-enabled build",
 ],
 "instances": insts,
}
json.dump(unit, open(os.path.join(HERE, "unit.json"), "w"), indent=1)
print("members:", len(M), "slots:", NOBS, "instances:", len(insts))
txt = open("/repo/" + H).read()
m = re.search(UNKNOWN_MEMBER, txt, re.S); print("unknown member on current tree: %r" % m.group(1))
m = re.search(UNKNOWN_MEMBER, txt.replace("   bool _hasBasis;", "   bool _hasBasis;\n   int _newThing;"), re.S); print("with an extra member: %r" % m.group(1))
