/* C17, second sentence: "A copy-constructed or assigned solver has the same LP, parameters, basis, status and solution as its source,
 * and afterwards the two are independent."  Real bodies of SoPlexBase<R>::operator=(const SoPlexBase<R>&) and of the copy constructor
 * (src/soplex.hpp), with the real setIntParam / intParam they call, hosted in a class whose DATA MEMBERS are the declarations cut verbatim
 * out of class SoPlexBase (src/soplex.h).  Every member TYPE is a small recorder with a content tag `val`; components also hold the
 * pointers the real classes hold (tolerances, message handler, lp_scaler, basis solver, starter).  The wrapper builds two complete objects
 * a and b (or only b for the copy constructor), runs `a = b` / `Host a(b)`, and exports one observation per member (obs.h, generated)
 * for a before/after and b before/after; pointer members are exported as ownership codes:
 *     0 null | 1 this object's own sub-object (index 1.. for families) | 2 this object's original heap object | 3 freshly allocated
 *     11.. the same relative to the PEER object | 99 anything else                                                                   */
#include "verif.h"
#include "obs.h"
#include "ghosts.h"
typedef double R;
typedef double Real;
typedef double BP;
#define SOPLEX_WITH_BOOST
#define SOPLEX_REFACTOR_INTERVAL 200
#define INT_MAX 2147483647
#define INT_MIN (-2147483647 - 1)
#define SPX_MSG_ERROR(x)
#define SPX_MSG_WARNING(a, b)
#define SPX_MSG_INFO1(a, b)

struct SPxOut
{
   typedef enum { ERROR = 0, WARNING = 1, DEBUG = 2, INFO1 = 3, INFO2 = 4, INFO3 = 5 } Verbosity;
   long long val; int verb;
   void setVerbosity(Verbosity v) { verb = (int)v; }
};
struct Tolerances { long long val; };
namespace std {
template <class T> struct shared_ptr { T* p; shared_ptr() : p(0) {} T& operator*() const { return *p; } };
/* make_shared<Tolerances>(src): a fresh object (from the wrapper's pool, counted) with the source's content */
template <class T> shared_ptr<T> make_shared(const T& src) { shared_ptr<T> r; r.p = (T*)(void*)gp_pool_tol; r.p->val = src.val; g_alloc_tol++; return r; }
}
struct Rational
{
   long long val;
   Rational() : val(0) {}
   Rational(int i) : val(i) {}
   Rational& operator=(int i) { val = i; return *this; }
};
struct Timer { typedef enum { OFF = 0, USER_TIME = 1, WALLCLOCK_TIME = 2 } TYPE; };

/* ---- component families (flattened, see header) */
/* wired components hold the pointers the SoPlexBase code manages (tolerances, message handler); the others only their content tag */
#define COMPONENT_WIRED(NAME)                                                                             \
   template <class T> struct NAME                                                                         \
   {                                                                                                      \
      long long val; const Tolerances* tol; SPxOut* spxout;                                               \
      void setTolerances(std::shared_ptr<Tolerances> t) { tol = t.p; }                                    \
      void setOutstream(SPxOut& o) { spxout = &o; }                                                       \
      void setIntParam(int) {}                                                                            \
   };
COMPONENT_WIRED(SPxScaler)
COMPONENT_WIRED(SPxSimplifier)
template <class T> struct SPxStarter { long long val; void setTolerances(std::shared_ptr<Tolerances> t) {} };
template <class T> struct SPxPricer { long long val; };
template <class T> struct SPxRatioTester { long long val; const Tolerances* tol; void setTolerances(std::shared_ptr<Tolerances> t) { tol = t.p; } };
template <class T> struct SLUFactor
{
   typedef enum { ETA = 0, FOREST_TOMLIN = 1 } UpdateType;
   long long val; const Tolerances* tol; SPxOut* spxout;
   void setTolerances(std::shared_ptr<Tolerances> t) { tol = t.p; }
   void setUtype(UpdateType u) {}
};
#define SPxMainSM SPxSimplifier
#define Presol SPxSimplifier
#define SPxEquiliSC SPxScaler
#define SPxGeometSC SPxScaler
#define SPxLeastSqSC SPxScaler
#define SPxWeightST SPxStarter
#define SPxSumST SPxStarter
#define SPxVectorST SPxStarter
#define SPxAutoPR SPxPricer
#define SPxDantzigPR SPxPricer
#define SPxParMultPR SPxPricer
#define SPxDevexPR SPxPricer
#define SPxSteepPR SPxPricer
#define SPxSteepExPR SPxPricer
#define SPxDefaultRT SPxRatioTester
#define SPxHarrisRT SPxRatioTester
#define SPxFastRT SPxRatioTester
#define SPxBoundFlippingRT SPxRatioTester
#define SPxSolverBase SPxLPBase

/* ---- the LP / solver object: content tag (LP data + basis) and the pointers an LP resp. solver holds.  Assignment and copy construction
 *      are member-wise (as the real ones for lp_scaler / spxout / tolerances: conformance-checked). */
template <class T> struct SPxLPBase
{
   typedef enum { MAXIMIZE = 1, MINIMIZE = -1 } SPxSense;
   typedef enum { ON_UPPER = 0, ON_LOWER, FIXED, ZERO, BASIC, UNDEFINED } VarStatus;
   typedef enum { ERROR = -15, UNKNOWN = 0, OPTIMAL = 1 } Status;
   typedef enum { NO_PROBLEM = -2, REGULAR = 0 } SPxStatus;
   typedef enum { POLISH_OFF = 0, POLISH_INTEGRALITY, POLISH_FRACTIONALITY } SolutionPolish;
   long long val; const void* lp_scaler; const Tolerances* tol; SPxOut* spxout;
   const void* basisSolver; const void* starter; int sense;
   void setTolerances(std::shared_ptr<Tolerances> t) { tol = t.p; }
   std::shared_ptr<Tolerances> tolerances() const { std::shared_ptr<Tolerances> r; r.p = (Tolerances*)tol; return r; }
   void setOutstream(SPxOut& o) { spxout = &o; }
   void setBasisSolver(SLUFactor<T>* slu, const bool destroy = false) { basisSolver = slu; }
   void setPricer(SPxPricer<T>* p, const bool destroy = false) {}
   void setTester(SPxRatioTester<T>* p, const bool destroy = false) {}
   void setStarter(SPxStarter<T>* p, const bool destroy = false) { starter = p; }
   void changeSense(SPxSense s) { sense = (int)s; }
   SPxSense spxSense() const { return (SPxSense)sense; }
   void setDisplayFreq(int) {}
   void setTiming(Timer::TYPE) {}
   void setSolutionPolishing(SolutionPolish) {}
   void setStoreBasisFreqForBoosting(int) {}
   void setMetricInformation(int) {}
   SPxLPBase<T>& basis() { return *this; }
   void setMaxUpdates(int) {}
   SPxStatus status() const { return REGULAR; }
};
/* _solver and *_realLP: the same members as SPxLPBase<T> above in a NON-template class, because goto-cc cannot resolve the explicit destructor call
 * `_realLP->~SPxLPBase<R>()` through a template-id or typedef name (README 20); the destructor is recorded for objects of the heap model */
struct LPStub
{
   long long val; const void* lp_scaler; const Tolerances* tol; SPxOut* spxout;
   const void* basisSolver; const void* starter; int sense; int on_heap;
   LPStub() : on_heap(0) {}
   ~LPStub() { if(g_rec && on_heap) { g_dtor_real++; g_dtor_real_p = this; } }
   void setTolerances(std::shared_ptr<Tolerances> t) { tol = t.p; }
   std::shared_ptr<Tolerances> tolerances() const { std::shared_ptr<Tolerances> r; r.p = (Tolerances*)tol; return r; }
   void setOutstream(SPxOut& o) { spxout = &o; }
   void setBasisSolver(SLUFactor<R>* slu, const bool destroy = false) { basisSolver = slu; }
   void setPricer(SPxPricer<R>* p, const bool destroy = false) {}
   void setTester(SPxRatioTester<R>* p, const bool destroy = false) {}
   void setStarter(SPxStarter<R>* p, const bool destroy = false) { starter = p; }
   void changeSense(SPxLPBase<R>::SPxSense s) { sense = (int)s; }
   SPxLPBase<R>::SPxSense spxSense() const { return (SPxLPBase<R>::SPxSense)sense; }
   void setDisplayFreq(int) {}
   void setTiming(Timer::TYPE) {}
   void setSolutionPolishing(SPxLPBase<R>::SolutionPolish) {}
   void setStoreBasisFreqForBoosting(int) {}
   void setMetricInformation(int) {}
   LPStub& basis() { return *this; }
   void setMaxUpdates(int) {}
   SPxLPBase<R>::SPxStatus status() const { return SPxLPBase<R>::REGULAR; }
};
template <class T> struct VerifNothing { VerifNothing() {} VerifNothing(const LPStub&) {} };
/* the rational LP: a class of its own, with a recorded destructor (the slices call it explicitly) */
struct SPxLPRational
{
   typedef enum { MAXIMIZE = 1, MINIMIZE = -1 } SPxSense;
   long long val; const void* lp_scaler; const Tolerances* tol; SPxOut* spxout; int sense; int on_heap;   /* on_heap: 1 for the objects of the heap model, 0 for temporaries */
   SPxLPRational() : on_heap(0) {}
   SPxLPRational(const SPxLPRational& o) : val(o.val), lp_scaler(o.lp_scaler), tol(o.tol), spxout(o.spxout), sense(o.sense), on_heap(0) {}
   ~SPxLPRational() { if(g_rec && on_heap) { g_dtor_rat++; } }
   void setTolerances(std::shared_ptr<Tolerances> t) { tol = t.p; }
   std::shared_ptr<Tolerances> tolerances() const { std::shared_ptr<Tolerances> r; r.p = (Tolerances*)tol; return r; }
   void setOutstream(SPxOut& o) { spxout = &o; }
   void changeSense(SPxSense s) { sense = (int)s; }
};
#define TAGGED(NAME) struct NAME { long long val; };
#define TAGGED_T(NAME) template <class T> struct NAME { long long val; };
TAGGED(SLUFactorRational) TAGGED(LPColSetRational) TAGGED(VectorRational) TAGGED(DSVectorRational) TAGGED(SolRational) TAGGED(UnitVectorRational)
TAGGED_T(VectorBase) TAGGED_T(DataArray) TAGGED_T(Array) TAGGED_T(SolBase)

template <class T> struct SoPlexBase
{
#include "IntParam.inc"
#include "RealParam.inc"
#include "intenums.inc"
};

/* ---- the host: data members = the real declarations */
struct Host : SoPlexBase<R>
{
   /* sinks for the name / description / default-value columns of the parameter table (not needed here) */
   struct Sink { Sink& operator[](int) { return *this; } Sink& operator=(const char*) { return *this; } Sink& operator=(int) { return *this; } };
   /* the bounds table of the integer parameters: filled by the REAL body of Settings::IntParam::IntParam(); one object shared by all Settings */
   struct IntParamBounds
   {
      Sink name, description, defaultValue; int lower[INTPARAM_COUNT]; int upper[INTPARAM_COUNT];
      void init()
      {
#include "IntParamCtor.inc"
      }
   };
   /* parameter settings: content tag + the integer values + access to the bounds table */
   struct Settings
   {
      struct IntParamView { const int* lower; const int* upper; };
      long long val; int _intParamValues[INTPARAM_COUNT]; IntParamView intParam;
      /* assignment = content tag + the parameter values this unit reads (the front end cannot synthesise array assignment) */
      Settings& operator=(const Settings& o)
      { val = o.val; _intParamValues[SIMPLIFIER] = o._intParamValues[SIMPLIFIER]; _intParamValues[SCALER] = o._intParamValues[SCALER]; _intParamValues[STARTER] = o._intParamValues[STARTER]; return *this; }
   };
#include "spxout_decl.inc"
#define typename
   /* `SPxSolverBase<R> _solver;` and `SPxLPBase<R>* _realLP;` of the verbatim text are declared under throw-away names; the members
    * themselves get the non-template class (see LPStub); their real declarations are conformance-checked */
#define _solver verif_unused_solver_decl
#define _realLP verif_unused_realLP_decl
#include "data1.inc"
#undef _solver
#undef _realLP
#include "data2.inc"
#undef typename
   LPStub _solver;
   LPStub* _realLP;

   int intParam(const IntParam param) const
   {
#include "intParam.inc"
   }
   bool setIntParam(const IntParam param, const int value, const bool init = true);
   bool setRealParam(const RealParam param, const Real value, const bool init = true) { return true; }
   bool _isConsistent() const { return true; }
   void _invalidateSolution() {}
   void setTimings(const Timer::TYPE ttype) {}
   void _ensureRationalLP() {}
   void _syncLPRational(bool time = true) {}
   void clearLPRational() { g_clearrat_calls++; }
   Host& operator=(const Host& rhs);
   Host() {}
#ifdef CTOR
   Host(const Host& rhs);
#endif
};
struct Host::Statistics { long long val; };
typedef Host::Statistics Statistics;
typedef Host::Settings Settings;

/* ---- heap model */
inline void spx_alloc(LPStub*& p, int n = 1) { g_alloc_real++; p = (LPStub*)(void*)gp_pool_real; }
inline void spx_alloc(SPxLPRational*& p, int n = 1) { g_alloc_rat++; p = (SPxLPRational*)(void*)gp_pool_rat; }
inline void spx_alloc(Statistics*& p, int n = 1) { g_alloc_stat++; p = (Statistics*)(void*)gp_pool_stat; }
inline void spx_alloc(Settings*& p, int n = 1) { g_alloc_set++; p = (Settings*)(void*)gp_pool_set; }
inline void spx_free(LPStub*& p) { g_free_real++; g_free_real_p = p; p = 0; }
inline void spx_free(SPxLPRational*& p) { g_free_rat++; g_free_rat_p = p; p = 0; }
struct PNreal { LPStub* p; }; struct PNrat { SPxLPRational* p; }; struct PNstat { Statistics* p; }; struct PNset { Settings* p; };

inline PNrat verif_pnew(SPxLPRational* p) { PNrat n; n.p = p; return n; }
inline PNstat verif_pnew(Statistics* p) { PNstat n; n.p = p; return n; }
inline PNset verif_pnew(Settings* p) { PNset n; n.p = p; return n; }
inline LPStub* operator<<(PNreal n, const LPStub& unused) { return n.p; }
/* inside operator= `new(p)` becomes `verif_pnew_from(p, rhs) <<` and `SPxLPBase` becomes `LPStub(), VerifNothing`, so that
 *    _realLP = new(_realLP) SPxLPBase<R>(*(rhs._realLP));  reads  _realLP = verif_pnew_from(_realLP, rhs) << LPStub(), VerifNothing<R>(*(rhs._realLP));
 *    _realLP->~SPxLPBase<R>();                              reads  _realLP->~LPStub(), VerifNothing<R>();
 * the copy source of the real LP is therefore fixed to *(rhs._realLP) here (model_depends_on keeps the text) */
inline PNreal verif_pnew_from(LPStub* p, const Host& rhs)
{
   PNreal n; n.p = p; const LPStub& src = *rhs._realLP;
   p->val = src.val; p->lp_scaler = src.lp_scaler; p->tol = src.tol; p->spxout = src.spxout; p->basisSolver = src.basisSolver; p->starter = src.starter; p->sense = src.sense;
   return n;
}
inline PNrat verif_pnew_from(SPxLPRational* p, const Host& rhs) { PNrat n; n.p = p; return n; }
inline SPxLPRational* operator<<(PNrat n, const SPxLPRational& init)
{ n.p->val = init.val; n.p->lp_scaler = init.lp_scaler; n.p->tol = init.tol; n.p->spxout = init.spxout; n.p->sense = init.sense; return n.p; }
inline Statistics* operator<<(PNstat n, const Statistics& init) { n.p->val = 0; return n.p; }
inline Settings* operator<<(PNset n, const Settings& init) { n.p->val = 0; return n.p; }   /* the pool object keeps its access to the bounds table */

bool Host::setIntParam(const IntParam param, const int value, const bool init)
{
#include "setIntParam.inc"
}
Host& Host::operator=(const Host& rhs)
{
#define new(p) verif_pnew_from(p, rhs) <<
#define SPxLPBase LPStub(), VerifNothing
#include "assign.inc"
#undef SPxLPBase
#undef new
}
#ifdef CTOR
Host::Host(const Host& rhs)
{
#define new(p) verif_pnew(p) <<
#include "copyctor.inc"
#undef new
}
#endif

/* ------------------------------------------------------------------------------------------ building and observing objects */
struct Heap { Statistics stat; Settings set; LPStub real; SPxLPRational rat; Tolerances tol; };

/* index of a sub-object of h within its family (0 none, -1 not a sub-object of h) */
static inline int scaler_idx(const Host& h, const void* p)
{
   if(p == 0) return 0;
   if(p == (const void*)&h._scalerUniequi) return 1;
   if(p == (const void*)&h._scalerBiequi) return 2;
   if(p == (const void*)&h._scalerGeo1) return 3;
   if(p == (const void*)&h._scalerGeo8) return 4;
   if(p == (const void*)&h._scalerGeoequi) return 5;
   if(p == (const void*)&h._scalerLeastsq) return 6;
   return -1;
}
static inline int bscaler_idx(const Host& h, const void* p)
{
   if(p == 0) return 0;
   if(p == (const void*)&h._boostedScalerUniequi) return 1;
   if(p == (const void*)&h._boostedScalerBiequi) return 2;
   if(p == (const void*)&h._boostedScalerGeo1) return 3;
   if(p == (const void*)&h._boostedScalerGeo8) return 4;
   if(p == (const void*)&h._boostedScalerGeoequi) return 5;
   if(p == (const void*)&h._boostedScalerLeastsq) return 6;
   return -1;
}
static inline int simpl_idx(const Host& h, const void* p) { if(p == 0) return 0; if(p == (const void*)&h._simplifierMainSM) return 1; if(p == (const void*)&h._simplifierPaPILO) return 2; return -1; }
static inline int bsimpl_idx(const Host& h, const void* p) { if(p == 0) return 0; if(p == (const void*)&h._boostedSimplifierMainSM) return 1; if(p == (const void*)&h._boostedSimplifierPaPILO) return 2; return -1; }
static inline int starter_idx(const Host& h, const void* p) { if(p == 0) return 0; if(p == (const void*)&h._starterWeight) return 1; if(p == (const void*)&h._starterSum) return 2; if(p == (const void*)&h._starterVector) return 3; return -1; }
/* own sub-object: its index; the peer's: 10 + index; else 99 */
#define FAMILY(IDX, h, peer, q_, res) { int i_ = IDX(h, q_); if(i_ < 0) { i_ = IDX(peer, q_); i_ = (i_ >= 0) ? 10 + i_ : 99; } res = i_; }
/* heap object: 0 null, 2 own original, 3 fresh (pool), 12 the peer's original, 99 else */
#define HEAPCODE(q_, own, pool, peerobj) ((q_) == 0 ? 0 : (const void*)(q_) == (const void*)(own) ? 2 : (const void*)(q_) == (const void*)(pool) ? 3 : (const void*)(q_) == (const void*)(peerobj) ? 12 : 99)
#define OUTCODE(h, peer, q_) ((q_) == &(h).spxout ? 1 : (q_) == &(peer).spxout ? 11 : (q_) == 0 ? 0 : 99)
#define TOLCODE(h, peer, q_) ((q_) == (h)._tolerances.p ? 1 : (q_) == (peer)._tolerances.p ? 11 : (q_) == 0 ? 0 : 99)

/* fill every value-like member from the tag array t (pointer members and wiring are set by build()) */
static void fill(Host& h, const long long* t)
{
#define M_REC(m) h.m.val = t[O_##m];
#define M_RAT(m) h.m.val = t[O_##m];
#define M_BOOL(m) h.m = (t[O_##m] & 1) != 0;
#define M_INT(m) h.m = (int)(t[O_##m] & 0xffff);
#define M_ENUM(m) h.m = (SPxLPBase<R>::Status)(int)(t[O_##m] & 0xff);
#define M_REAL(m) h.m = (double)(int)(t[O_##m] & 0xffff);
#define W_TOL(m)
#define W_OUT(m)
#include "members.inc"
#undef M_REC
#undef M_RAT
#undef M_BOOL
#undef M_INT
#undef M_ENUM
#undef M_REAL
#undef W_TOL
#undef W_OUT
}
/* a complete, consistent object: owned heap objects, own tolerances, components wired to the object itself, simplifier / scaler / starter
 * selected by the REAL setIntParam from the object's own parameter values; when `scaled`, its LP objects point to its own current scaler */
static void build(Host& h, Heap& hp, const Host::IntParamBounds& bounds, const long long* t, int loaded, int has_rat, int simp, int scal, int star, int scaled)
{
   fill(h, t);
   hp.stat.val = t[O_c_statistics]; hp.set.val = t[O_c_settings]; hp.real.val = t[O_c_realLP]; hp.rat.val = t[O_c_rationalLP]; hp.tol.val = t[O_c_tolerances];
   hp.set.intParam.lower = bounds.lower; hp.set.intParam.upper = bounds.upper;
   hp.set._intParamValues[Host::SIMPLIFIER] = simp; hp.set._intParamValues[Host::SCALER] = scal; hp.set._intParamValues[Host::STARTER] = star;
   h._statistics = &hp.stat; h._currentSettings = &hp.set; h._tolerances.p = &hp.tol;
   h._realLP = loaded ? &h._solver : &hp.real; h._rationalLP = has_rat ? &hp.rat : 0;
   h._isRealLPLoaded = loaded != 0;
#define M_REC(m)
#define M_RAT(m)
#define M_BOOL(m)
#define M_INT(m)
#define M_ENUM(m)
#define M_REAL(m)
#define W_TOL(m) h.m.tol = &hp.tol;
#define W_OUT(m) h.m.spxout = &h.spxout;
#include "members.inc"
#undef M_REC
#undef M_RAT
#undef M_BOOL
#undef M_INT
#undef M_ENUM
#undef M_REAL
#undef W_TOL
#undef W_OUT
   h._solver.basisSolver = &h._slufactor; h._solver.starter = 0; h._solver.lp_scaler = 0; h._solver.sense = 1;
   h._boostedSolver.spxout = &h.spxout; h._boostedSolver.basisSolver = &h._boostedSlufactor; h._boostedSolver.lp_scaler = 0;
   h._slufactor.spxout = &h.spxout; h._boostedSlufactor.spxout = &h.spxout;
   hp.real.tol = &hp.tol; hp.real.spxout = &h.spxout; hp.real.lp_scaler = 0; hp.real.basisSolver = 0; hp.real.starter = 0; hp.real.sense = 1; hp.real.on_heap = 1;
   hp.rat.tol = &hp.tol; hp.rat.spxout = &h.spxout; hp.rat.lp_scaler = 0; hp.rat.sense = 1; hp.rat.on_heap = 1;
   h._simplifier = 0; h._scaler = 0; h._starter = 0; h._boostedScaler = 0; h._boostedSimplifier = 0;
   h.setIntParam(Host::SIMPLIFIER, simp, true); h.setIntParam(Host::SCALER, scal, true); h.setIntParam(Host::STARTER, star, true);
   if(scaled) { h._solver.lp_scaler = h._scaler; hp.real.lp_scaler = h._scaler; }
}
struct Pools { Statistics stat; Settings set; LPStub real; SPxLPRational rat; Tolerances tol; };
/* observation, value part: one slot per value-like member + the contents behind the owning pointers */
static void observe_values(const Host& h, const Heap& own, const Heap& peerheap, const Pools& pool, long long* o)
{
#define M_REC(m) o[O_##m] = h.m.val;
#define M_RAT(m) o[O_##m] = h.m.val;
#define M_BOOL(m) o[O_##m] = h.m ? 1 : 0;
#define M_INT(m) o[O_##m] = (long long)h.m;
#define M_ENUM(m) o[O_##m] = (long long)(int)h.m;
#define M_REAL(m) o[O_##m] = (long long)h.m;
#define W_TOL(m)
#define W_OUT(m)
#include "members.inc"
#undef W_TOL
#undef W_OUT
   /* contents behind the owning pointers (0 when the pointer is not one of the known objects: an unknown pointer is never dereferenced) */
   int cs = HEAPCODE(h._statistics, &own.stat, &pool.stat, &peerheap.stat);
   int cc = HEAPCODE(h._currentSettings, &own.set, &pool.set, &peerheap.set);
   o[O_c_statistics] = (cs == 2 || cs == 3 || cs == 12) ? h._statistics->val : 0;
   o[O_c_settings] = (cc == 2 || cc == 3 || cc == 12) ? h._currentSettings->val : 0;
   o[O_c_tolerances] = (h._tolerances.p == &own.tol || h._tolerances.p == &peerheap.tol || h._tolerances.p == &pool.tol) ? h._tolerances.p->val : 0;
}
/* observation, pointer part: ownership codes of the pointer members, wiring of the components, back pointers and content of the LP objects */
static void observe_pointers(const Host& h, const Host& peer, const Heap& own, const Heap& peerheap, const Pools& pool, long long* o)
{
#define W_TOL(m) o[O_wt##m] = TOLCODE(h, peer, h.m.tol);
#define W_OUT(m) o[O_wo##m] = OUTCODE(h, peer, h.m.spxout);
#include "members.inc"
   o[O__statistics] = HEAPCODE(h._statistics, &own.stat, &pool.stat, &peerheap.stat);
   o[O__currentSettings] = HEAPCODE(h._currentSettings, &own.set, &pool.set, &peerheap.set);
   o[O__tolerances] = HEAPCODE(h._tolerances.p, &own.tol, &pool.tol, &peerheap.tol);
   o[O__realLP] = (h._realLP == (const LPStub*)&h._solver) ? 1 : (h._realLP == (const LPStub*)&peer._solver) ? 11 : HEAPCODE(h._realLP, &own.real, &pool.real, &peerheap.real);
   o[O__rationalLP] = HEAPCODE(h._rationalLP, &own.rat, &pool.rat, &peerheap.rat);
   FAMILY(simpl_idx, h, peer, h._simplifier, o[O__simplifier])
   FAMILY(scaler_idx, h, peer, h._scaler, o[O__scaler])
   FAMILY(starter_idx, h, peer, h._starter, o[O__starter])
   FAMILY(bscaler_idx, h, peer, h._boostedScaler, o[O__boostedScaler])
   FAMILY(bsimpl_idx, h, peer, h._boostedSimplifier, o[O__boostedSimplifier])
   o[O_c_realLP] = (o[O__realLP] != 0 && o[O__realLP] != 99) ? h._realLP->val : 0;
   o[O_c_rationalLP] = (o[O__rationalLP] != 0 && o[O__rationalLP] != 99) ? h._rationalLP->val : 0;
   o[O_w_basisSolver] = (h._solver.basisSolver == &h._slufactor) ? 1 : (h._solver.basisSolver == &peer._slufactor) ? 11 : 99;
   o[O_w_solverStarter] = (h._solver.starter == (const void*)h._starter) ? 1 : 99;
   FAMILY(scaler_idx, h, peer, h._solver.lp_scaler, o[O_bp_solver_lpscaler])
   bool own_real = (o[O__realLP] == 2 || o[O__realLP] == 3);
   o[O_bp_realLP_lpscaler] = 0; if(own_real) FAMILY(scaler_idx, h, peer, h._realLP->lp_scaler, o[O_bp_realLP_lpscaler])
   o[O_bp_realLP_spxout] = own_real ? OUTCODE(h, peer, h._realLP->spxout) : 1;
   o[O_bp_realLP_tol] = own_real ? TOLCODE(h, peer, h._realLP->tol) : 1;
   bool own_rat = (o[O__rationalLP] == 2 || o[O__rationalLP] == 3);
   o[O_bp_rationalLP_spxout] = own_rat ? OUTCODE(h, peer, h._rationalLP->spxout) : 1;
   o[O_bp_rationalLP_tol] = own_rat ? TOLCODE(h, peer, h._rationalLP->tol) : 1;
   o[O_bp_rationalLP_lpscaler] = 0; if(own_rat) FAMILY(scaler_idx, h, peer, h._rationalLP->lp_scaler, o[O_bp_rationalLP_lpscaler])
}
#ifdef OBS_VALUES
#define OBSERVE_V(h, own, peerheap, o) observe_values(h, own, peerheap, pool, o);
#else
#define OBSERVE_V(h, own, peerheap, o)
#endif
#ifdef OBS_POINTERS
#define OBSERVE_P(h, peer, own, peerheap, o) observe_pointers(h, peer, own, peerheap, pool, o);
#else
#define OBSERVE_P(h, peer, own, peerheap, o)
#endif

/* ta / tb: tags of a's and b's members.  oa0 / oa: a before / after; ob0 / ob: b before / after (slots an instance does not need stay
 * unwritten: -DOBS_VALUES / -DOBS_POINTERS, -DOBS_A_BEFORE, -DOBS_B_AFTER).  -DSELF_ASSIGN: `a = a` instead of `a = b`; -DCTOR: `Host a(b)` */
extern "C" void w_copy(int a_loaded, int a_has_rat, int b_loaded, int b_has_rat, int asimp, int ascal, int astar, int bsimp, int bscal, int bstar, int b_scaled,
                       const long long* ta, const long long* tb, long long* obs)
{
   long long* oa0 = obs; long long* oa = obs + NOBS; long long* ob0 = obs + 2 * NOBS; long long* ob = obs + 3 * NOBS; long long* ox = obs + 4 * NOBS;
   Heap ha, hb; Pools pool;
   gp_pool_real = &pool.real; gp_pool_rat = &pool.rat; gp_pool_stat = &pool.stat; gp_pool_set = &pool.set;
   pool.rat.on_heap = 1; pool.real.on_heap = 1; gp_pool_tol = &pool.tol;
   Host::IntParamBounds bounds; bounds.init();
   pool.set.intParam.lower = bounds.lower; pool.set.intParam.upper = bounds.upper;
   Host b;
   build(b, hb, bounds, tb, b_loaded, b_has_rat, bsimp, bscal, bstar, b_scaled);
#ifdef CTOR
   OBSERVE_V(b, hb, hb, ob0) OBSERVE_P(b, b, hb, hb, ob0)
   g_rec = 1;
   Host a(b);
   g_rec = 0;
   ha.tol.val = 0;
#else
   Host a;
   build(a, ha, bounds, ta, a_loaded, a_has_rat, asimp, ascal, astar, 0);
#ifdef OBS_A_BEFORE
   OBSERVE_V(a, ha, hb, oa0) OBSERVE_P(a, b, ha, hb, oa0)
#endif
   OBSERVE_V(b, hb, ha, ob0) OBSERVE_P(b, a, hb, ha, ob0)
   g_rec = 1;
#ifdef SELF_ASSIGN
   a = a;
#else
   a = b;
#endif
   g_rec = 0;
#endif
   OBSERVE_V(a, ha, hb, oa) OBSERVE_P(a, b, ha, hb, oa)
   /* what was released: the target's own old objects? */
   ox[0] = (g_free_real_p == (const void*)&ha.real) ? 1 : 0; ox[1] = (g_free_rat_p == (const void*)&ha.rat) ? 1 : 0; ox[2] = (g_dtor_real_p == (const void*)&ha.real) ? 1 : 0;
#ifdef OBS_B_AFTER
   OBSERVE_V(b, hb, ha, ob) OBSERVE_P(b, a, hb, ha, ob)
#endif
}
