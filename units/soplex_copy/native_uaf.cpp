// heap-use-after-free: copy a SOLVED SoPlex (persistent scaling), destroy the source, modify the copy.
// build: g++ -std=c++14 -g -DNDEBUG -fsanitize=address -I/repo/src -I/repo/_build native_uaf.cpp /repo/_build/lib/libsoplex.a -lgmp -lmpfr -lz -ltbb ; run: ./a.out solved
// destroy the source after copying, then solve the copy (ASan)
#include "soplex.h"
#include <cstdio>
using namespace soplex;
static void build(SoPlex& s)
{
   s.setIntParam(SoPlex::VERBOSITY, 0);
   DSVectorReal c(0);
   for(int j = 0; j < 3; j++) s.addColReal(LPColReal(1.0 + j, c, 10.0, 0.0));
   for(int i = 0; i < 3; i++) { DSVectorReal r(3); for(int j = 0; j < 3; j++) r.add(j, 1 + ((i + j) % 3)); s.addRowReal(LPRowReal(-infinity, r, 12.0)); }
   s.setIntParam(SoPlex::OBJSENSE, SoPlex::OBJSENSE_MAXIMIZE);
}
int main(int argc, char** argv)
{
   int solved_first = argc > 1;
   SoPlex* b = new SoPlex; build(*b);
   if(solved_first) b->optimize();
   SoPlex* a = new SoPlex(*b);
   delete b;
   a->changeObjReal(0, 5.0);
   a->optimize();
   printf("copy solved after the source was destroyed: status %d obj %g\n", (int)a->status(), a->objValueReal());
   SoPlex c; build(c); c.changeObjReal(0, 5.0); c.optimize();
   printf("reference: status %d obj %g\n", (int)c.status(), c.objValueReal());
   delete a;
   return 0;
}
