/* Ghost globals of unit soplex_copy, packed into two arrays (dfcc checks every assignment against every assigns target). */
#ifdef __cplusplus
extern "C" {
#define GH_EXTERN extern
#else
#define GH_EXTERN
#endif
GH_EXTERN int G[16];
GH_EXTERN const void* GP[8];
#define g_rec           G[0]      /* recording on (off while the wrapper builds / observes objects) */
#define g_alloc_real    G[1]      /* spx_alloc per type */
#define g_alloc_rat     G[2]
#define g_alloc_stat    G[3]
#define g_alloc_set     G[4]
#define g_free_real     G[5]      /* spx_free per type */
#define g_free_rat      G[6]
#define g_dtor_rat      G[7]      /* explicit destructor calls on a rational LP */
#define g_clearrat_calls G[8]     /* clearLPRational() */
#define g_alloc_tol     G[9]      /* std::make_shared<Tolerances>(..) */
#define g_dtor_real     G[10]     /* explicit destructor calls on a heap floating-point LP */
#define g_free_real_p   GP[0]     /* what was freed */
#define g_free_rat_p    GP[1]
#define gp_pool_real    GP[3]     /* the objects spx_alloc hands out */
#define gp_pool_rat     GP[4]
#define gp_pool_stat    GP[5]
#define gp_pool_set     GP[6]
#define gp_pool_tol     GP[7]
#define g_dtor_real_p   GP[2]
#ifdef __cplusplus
}
#endif
