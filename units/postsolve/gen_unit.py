#!/usr/bin/env python3
"""Generates units/postsolve/unit.json (run by hand after editing the tables below; unit.json is what the
runner reads).  Nothing here is read at check time.

For every postsolve step class it emits
 * the slice of  SPxMainSM<R>::<Class>::execute(...) const  from src/soplex/spxmainsm.hpp (signature regex with
   the real parameter names, so drift is detected),
 * a conformance regex for the class's private data-member list in src/soplex/spxmainsm.h (the host struct in
   unit.cpp replicates exactly these members),
 * loop contracts and mutants from the table.
"""
import json
import os
import re

HERE = os.path.dirname(os.path.abspath(__file__))
SEP = r"(?:\s|//[^\n]*)*"
VS = r"DataArray<typename\s+SPxSolverBase<R>::VarStatus>&"


def sig(cls, names):
    """names: 7 entries (x y s r cStatus rStatus isOptimal), '' where the real signature leaves it unnamed"""
    ps = []
    for i, n in enumerate(names):
        if i < 4:
            t = r"VectorBase<R>&"
        elif i < 6:
            t = VS
        else:
            t = r"bool"
        ps.append(t + (r"\s*" + n if n else "") if i < 6 else t + r"\s+" + n)
    return r"void\s+SPxMainSM<R>::%s::execute\s*\(\s*" % cls + r"\s*,\s*".join(ps) + r"\s*\)\s*const"


def members(cls, mem):
    """mem: list of (type regex, name)"""
    body = SEP.join(r"(?:const\s+)?%s\s+%s;" % (t, n) for t, n in mem)
    return {"file": "src/soplex/spxmainsm.h",
            "regex": r"class\s+%s\s*:\s*public\s+PostStep\s*\{\s*private:%s%s%spublic:" % (cls, SEP, body, SEP),
            "why": "host struct H of instance %s replicates exactly this data-member list" % cls[:-2]}


R_ = "R"
DSV = r"DSVectorBase<R>"
XYSR = ["x", "y", "s", "r", "cStatus", "rStatus", "isOptimal"]

COMMON_CONF = [
    {"file": "src/soplex/spxdefines.h", "regex": r"inline\s+Real\s+spxAbs\(Real\s+a\)\s*\{\s*return\s+fabs\(a\);",
     "why": "spxAbs stub is fabs"},
    {"file": "src/soplex/spxdefines.h",
     "regex": r"inline\s+Real\s+maxAbs\(Real\s+a,\s*Real\s+b\)\s*\{\s*const\s+Real\s+absa\s*=\s*spxAbs\(a\);\s*const\s+Real\s+absb\s*=\s*spxAbs\(b\);\s*return\s+absa\s*>\s*absb\s*\?\s*absa\s*:\s*absb;",
     "why": "maxAbs stub is the real body"},
    {"file": "src/soplex/spxdefines.cpp", "regex": r"const\s+Real\s+infinity\s*=\s*SOPLEX_DEFAULT_INFINITY;",
     "why": "`infinity` is SOPLEX_DEFAULT_INFINITY"},
    {"file": "src/soplex/svectorbase.h",
     "regex": r"R\s+operator\[\]\(int\s+i\)\s+const\s*\{\s*int\s+n\s*=\s*pos\(i\);\s*if\(n\s*>=\s*0\)\s*return\s+m_elem\[n\]\.val;\s*return\s+0;",
     "why": "SVector lookup model: value at pos(i), else 0"},
    {"file": "src/soplex/svectorbase.h",
     "regex": r"int\s+pos\(int\s+i\)\s+const\s*\{\s*if\(m_elem\s*!=\s*nullptr\)\s*\{\s*int\s+n\s*=\s*size\(\);\s*for\(int\s+p\s*=\s*0;\s*p\s*<\s*n;\s*\+\+p\)\s*\{\s*if\(m_elem\[p\]\.idx\s*==\s*i\)",
     "why": "SVector lookup model: pos(i) is the FIRST position holding index i"},
    {"file": "src/soplex/spxmainsm.h",
     "regex": r"virtual\s+R\s+feastol\(\)\s+const\s*\{[^}]*return\s+_tolerances->floatingPointFeastol\(\);\s*\}\s*virtual\s+R\s+epsilon\(\)\s+const\s*\{\s*return\s+_tolerances->epsilon\(\);",
     "why": "PostStep::feastol()/epsilon() only read the tolerances object (modelled as two positive doubles)"},
    {"file": "src/soplex/spxmainsm.hpp",
     "regex": r"#ifndef\s+NDEBUG\s*\n#define\s+SOPLEX_CHECK_BASIS_DIM\s*\n#endif",
     "why": "SOPLEX_CHECK_BASIS_DIM blocks exist only in non-NDEBUG builds (proofs are for NDEBUG)"},
    {"file": "src/soplex/spxmainsm.hpp",
     "regex": r"m_hist\[k\]->execute\(m_prim,\s*m_dual,\s*m_slack,\s*m_redCost,\s*m_cBasisStat,\s*m_rBasisStat,\s*isOptimal\);",
     "why": "argument order x,y,s,r,cStatus,rStatus of every execute() call"},
]

INST = []
# numeric values of the VarStatus enumerators for loop invariants (not preprocessed); the "extracts" regex below
# pins the enumerator order ON_UPPER, ON_LOWER, FIXED, ZERO, BASIC, UNDEFINED without explicit values
ON_UPPER, ON_LOWER, FIXED, ZERO, BASIC, UNDEFINED = range(6)


SITE = {
    "RowObjPS": [(r"m_addedcols = 0;\s*handleRowObjectives\(lp\);", "simplify() moves every row objective into an extra column before any step is recorded"),
                 (r"new RowObjPS\(lp, i, lp\.nCols\(\), this->_tolerances\)\);\s*m_hist\.append\(ptr\);\s*lp\.addCol\(lp\.rowObj\(i\), -lp\.rhs\(i\), UnitVectorBase<R>\(i\), -lp\.lhs\(i\)\);", "RowObjPS: slack column = +e_i with bounds [-rhs,-lhs] (status flip)")],
    "FreeConstraintPS": [(r"FreeConstraintPS\(const SPxLPBase<R>& lp, int _i, std::shared_ptr<Tolerances> tols\)[^{]*m_i\(_i\)\s*, m_old_i\(lp\.nRows\(\) - 1\)", "m_old_i is the last row index when the step is recorded (m_i <= m_old_i)")],
    "EmptyConstraintPS": [(r"EmptyConstraintPS\(const SPxLPBase<R>& lp, int _i, std::shared_ptr<Tolerances> tols\)[^{]*m_i\(_i\)\s*, m_old_i\(lp\.nRows\(\) - 1\)", "m_old_i is the last row index")],
    "RowSingletonPS": [(r"RowSingletonPS\(const SPxLPBase<R>& lp, int _i, int _j,[^{]*m_i\(_i\)\s*, m_old_i\(lp\.nRows\(\) - 1\)\s*, m_j\(_j\)", "m_old_i is the last row index")],
    "ForceConstraintPS": [(r", m_objs\(lp\.rowVector\(_i\)\.size\(\)\)\s*, m_fixed\(fixCols\)\s*, m_cols\(lp\.rowVector\(_i\)\.size\(\)\)", "m_objs/m_cols have one entry per row nonzero"),
                          (r"DataArray<bool> fixedCol\(row\.size\(\)\);\s*Array<R> lowers\(row\.size\(\)\);\s*Array<R> uppers\(row\.size\(\)\);", "m_fixed/m_oldLowers/m_oldUppers have one entry per row nonzero")],
    "FixVariablePS": [(r", m_j\(_j\)\s*, m_old_j\(lp\.nCols\(\) - 1\)\s*, m_val\(val\)", "m_old_j is the last column index")],
    "FixBoundsPS": [(r"new FixBoundsPS\(lp, j, val, this->_tolerances\)\);\s*std::shared_ptr<PostStep> ptr2\(new FixVariablePS\(lp, \*this, j, val, this->_tolerances\)\);", "FixBoundsPS is recorded together with the FixVariablePS of the same column"),
                    (r"m_status = SPxSolverBase<R>::FIXED;\s*else if[^;]*\s*m_status = SPxSolverBase<R>::ON_LOWER;\s*else if[^;]*\s*m_status = SPxSolverBase<R>::ON_UPPER;\s*else if[^;]*\s*m_status = SPxSolverBase<R>::ZERO;\s*else\s*\{\s*throw", "constructor stores a non-basic status or throws")],
    "FreeZeroObjVariablePS": [(r"SPxQuicksort\(col_idx_sorted\.mem\(\), col_idx_sorted\.size\(\), compare\);\s*std::shared_ptr<PostStep> ptr\(new FreeZeroObjVariablePS\(lp, j, unconstrained_below,\s*col_idx_sorted", "m_col is sorted by index"),
                              (r"m_rows\[k\] = lp\.rowVector\(r\);\s*m_rowObj\.add\(k, lp\.rowObj\(r\)\);", "m_rows/m_rowObj (and m_lRhs) are parallel to m_col"),
                              (r"m_addedcols = 0;\s*handleRowObjectives\(lp\);", "all row objectives are 0 when steps are recorded")],
    "DoubletonEquationPS": [(r"lp\.changeBounds\(j, R\(-infinity\), R\(infinity\)\);\s*\+\+m_stat\[DOUBLETON_ROW\];\s*#endif\s*\}\s*// 6\. \(implied\) free column singleton\s*if\(lp\.lower\(j\) <= R\(-infinity\) && lp\.upper\(j\) >= R\(infinity\)\)", "the doubleton step falls through to the free-column-singleton step of the same column")],
    "DuplicateRowsPS": [(r"m_scale\.add\(dupRows\.index\(k\), rowScale / scale\[dupRows\.index\(k\)\]\);\s*m_rowObj\.add\(dupRows\.index\(k\), lp\.rowObj\(dupRows\.index\(k\)\)\);", "m_scale and m_rowObj are parallel, indexed by the rows of the class"),
                        (r", m_i_rowObj\(lp\.rowObj\(_i\)\)", "m_i_rowObj is the row objective of the kept row")],
    "DuplicateColsPS": [(r"if\(l != m && !remCol\[j1\] && !remCol\[j2\]\)", "m_j != m_k")],
    "AggregationPS": [(r"assert\(m_row\.size\(\) == 2\);", "the aggregated row is a doubleton")],
}


def inst(name, cls, names, mem, tier="quick", loops=None, mutants=None, min_obl=20, must=None, defines=None, extra=None):
    d = {"name": name, "function": "SPxMainSM<R>::%s::execute(x, y, s, r, cStatus, rStatus, isOptimal) const" % cls,
         "defines": dict({"INST_" + name.split("_")[0]: ""}, **(defines or {})),
         "harness": "h_" + name.split("_")[0], "enforce": "w_" + name.split("_")[0],
         "slices": [{"as": cls + ".inc", "file": "src/soplex/spxmainsm.hpp", "sig": sig(cls, names),
                     "must_contain": must or []}],
         "conformance": COMMON_CONF + [members(cls, mem)] + [
             {"file": "src/soplex/spxmainsm.h" if re.search(rx, open("/repo/src/soplex/spxmainsm.h").read(), re.S) else "src/soplex/spxmainsm.hpp",
              "regex": rx, "why": why} for rx, why in SITE.get(cls, [])],
         "min_obligations": min_obl, "tier": tier, "mutants": mutants or []}
    if loops:
        d["loops"] = loops
    if extra:
        d.update(extra)
    d["expected_s"] = {'RowSingleton': 60, 'FreeZeroObjVariable': 90, 'ForceConstraint': 45, 'DuplicateCols_main': 70, 'DuplicateCols_perm': 50, 'Aggregation': 60, 'FreeColSingleton': 45, 'ZeroObjColSingleton': 45, 'DuplicateRows': 40, 'MultiAggregation': 30, 'FixVariable': 20, 'DoubletonEquation': 15}.get(name, 10)
    INST.append(d)


def mut(name, cls, find, replace, regex=False):
    m = {"name": name, "slice": cls + ".inc", "find": find, "replace": replace}
    if regex:
        m["regex"] = True
    return m


BODY = r"H::body\(\$constthis\)"


def same(a, b):
    """text of the SAME(a,b) macro of ps_contract.h (loop invariants are not preprocessed)"""
    return "(%s==%s || (%s!=%s && %s!=%s))" % (a, b, a, a, b, b)


# ---------------------------------------------------------------------------------------------------
inst("RowObj", "RowObjPS", ["x", "y", "s", "", "cStatus", "rStatus", "isOptimal"],
     [("int", "m_i"), ("int", "m_j")],
     must=[r"cStatus\[m_j\] = SPxSolverBase<R>::ZERO;"],
     mutants=[mut("swap_status", "RowObjPS", "case SPxSolverBase<R>::ON_UPPER:\n         rStatus[m_i] = SPxSolverBase<R>::ON_LOWER;",
                  "case SPxSolverBase<R>::ON_UPPER:\n         rStatus[m_i] = SPxSolverBase<R>::ON_UPPER;"),
              mut("drop_zero", "RowObjPS", "cStatus[m_j] = SPxSolverBase<R>::ZERO;", ";"),
              mut("wrong_test", "RowObjPS", "if(rStatus[m_i] != SPxSolverBase<R>::BASIC)", "if(rStatus[m_i] == SPxSolverBase<R>::BASIC)")])

inst("FreeConstraint", "FreeConstraintPS", ["x", "y", "s", "", "cStatus", "rStatus", "isOptimal"],
     [("int", "m_i"), ("int", "m_old_i"), (DSV, "m_row"), (R_, "m_row_obj")],
     loops=[{"function": BODY, "loop": 0, "locals": ["k", "slack"], "invariants": ["0<=k && k<=g_n"],
             "assigns": ["k", "slack"], "decreases": "g_n-k"}],
     mutants=[mut("status", "FreeConstraintPS", "rStatus[m_i] = SPxSolverBase<R>::BASIC;", "rStatus[m_i] = SPxSolverBase<R>::FIXED;"),
              mut("shift_idx", "FreeConstraintPS", "rStatus[m_old_i] = rStatus[m_i];", "rStatus[m_i] = rStatus[m_old_i];"),
              mut("dual", "FreeConstraintPS", "y[m_i] = m_row_obj;", "y[m_old_i] = m_row_obj;")])

inst("EmptyConstraint", "EmptyConstraintPS", ["", "y", "s", "", "cStatus", "rStatus", "isOptimal"],
     [("int", "m_i"), ("int", "m_old_i"), (R_, "m_row_obj")],
     mutants=[mut("status", "EmptyConstraintPS", "rStatus[m_i] = SPxSolverBase<R>::BASIC;", "rStatus[m_i] = SPxSolverBase<R>::ZERO;"),
              mut("shift_idx", "EmptyConstraintPS", "y[m_old_i] = y[m_i];", "y[m_old_i] = y[m_old_i];"),
              mut("drop_shift_status", "EmptyConstraintPS", "rStatus[m_old_i] = rStatus[m_i];", ";")])

inst("FixBounds", "FixBoundsPS", ["", "", "", "", "cStatus", "", "isOptimal"],
     [("int", "m_j"), (r"typename\s+SPxSolverBase<R>::VarStatus", "m_status")], min_obl=10,
     mutants=[mut("drop", "FixBoundsPS", "cStatus[m_j] = m_status;", ";")])

inst("TightenBounds", "TightenBoundsPS", ["x", "", "", "", "cStatus", "rStatus", "isOptimal"],
     [("int", "m_j"), (R_, "m_origupper"), (R_, "m_origlower")], min_obl=10,
     mutants=[mut("swap_status", "TightenBoundsPS", "cStatus[m_j] = SPxSolverBase<R>::ON_LOWER;", "cStatus[m_j] = SPxSolverBase<R>::ZERO;"),
              mut("wrong_case", "TightenBoundsPS", "   case SPxSolverBase<R>::ON_UPPER:\n      if(LT(x[m_j], m_origupper, this->feastol()))", "   case SPxSolverBase<R>::ZERO:\n      if(LT(x[m_j], m_origupper, this->feastol()))"),
              mut("drop_basic", "TightenBoundsPS", "      if(GT(x[m_j], m_origlower, this->feastol()))\n         cStatus[m_j] = SPxSolverBase<R>::BASIC;\n\n      break;", "      if(GT(x[m_j], m_origlower, this->feastol()))\n         cStatus[m_j] = SPxSolverBase<R>::UNDEFINED;\n\n      break;")])


inst("RowSingleton", "RowSingletonPS", XYSR,
     [("int", "m_i"), ("int", "m_old_i"), ("int", "m_j"), (R_, "m_lhs"), (R_, "m_rhs"), ("bool", "m_strictLo"), ("bool", "m_strictUp"),
      ("bool", "m_maxSense"), (R_, "m_obj"), (DSV, "m_col"), (R_, "m_newLo"), (R_, "m_newUp"), (R_, "m_oldLo"), (R_, "m_oldUp"), (R_, "m_row_obj")],
     loops=[{"function": BODY, "loop": 0, "locals": ["k", "val"], "invariants": ["0<=k && k<=g_n"],
             "assigns": ["k", "val"], "decreases": "g_n-k"}],
     min_obl=500,
     mutants=[mut("swap_status", "RowSingletonPS", "case SPxSolverBase<R>::ZERO:\n      rStatus[m_i] = SPxSolverBase<R>::BASIC;",
                  "case SPxSolverBase<R>::ZERO:\n      rStatus[m_i] = SPxSolverBase<R>::FIXED;"),
              mut("drop_status", "RowSingletonPS", "            cStatus[m_j] = SPxSolverBase<R>::ON_UPPER;\n            rStatus[m_i] = SPxSolverBase<R>::BASIC;",
                  "            cStatus[m_j] = SPxSolverBase<R>::ON_UPPER;\n            ;"),
              mut("redcost", "RowSingletonPS", "            cStatus[m_j] = SPxSolverBase<R>::BASIC;\n            y[m_i] = val / aij;\n            r[m_j] = 0.0;",
                  "            cStatus[m_j] = SPxSolverBase<R>::BASIC;\n            y[m_i] = val / aij;\n            r[m_j] = val;"),
              mut("shift_idx", "RowSingletonPS", "s[m_old_i] = s[m_i];", "s[m_i] = s[m_old_i];")])

inst("FixVariable", "FixVariablePS", XYSR,
     [("int", "m_j"), ("int", "m_old_j"), (R_, "m_val"), (R_, "m_obj"), (R_, "m_lower"), (R_, "m_upper"), ("bool", "m_correctIdx"), (DSV, "m_col")],
     loops=[{"function": BODY, "loop": 0, "locals": [["k", "1::2::k"]], "invariants": ["0<=k && k<=g_n", "g_in != 0 || " + same("gp_s[g_kr]", "v_s")],
             "assigns": ["k", "__CPROVER_object_whole(gp_s)"], "decreases": "g_n-k"},
            {"function": BODY, "loop": 1, "locals": [["k", "1::3::k"], "val"], "invariants": ["0<=k && k<=g_n"],
             "assigns": ["k", "val"], "decreases": "g_n-k"}],
     min_obl=400,
     mutants=[mut("status_basic", "FixVariablePS", "cStatus[m_j] = SPxSolverBase<R>::FIXED;", "cStatus[m_j] = SPxSolverBase<R>::BASIC;"),
              mut("shift_idx", "FixVariablePS", "cStatus[m_old_j] = cStatus[m_j];", "cStatus[m_j] = cStatus[m_old_j];"),
              mut("wrong_target", "FixVariablePS", "x[m_j] = m_val;", "x[m_old_j] = m_val;")])


ARR = r"Array<R>"
inst("ForceConstraint", "ForceConstraintPS", XYSR,
     [("int", "m_i"), ("int", "m_old_i"), (R_, "m_lRhs"), (DSV, "m_row"), (ARR, "m_objs"), (r"DataArray<bool>", "m_fixed"),
      (r"Array<DSVectorBase<R>>", "m_cols"), ("bool", "m_lhsFixed"), ("bool", "m_maxSense"), (ARR, "m_oldLowers"), (ARR, "m_oldUppers"),
      (R_, "m_lhs"), (R_, "m_rhs"), (R_, "m_rowobj")],
     loops=[{"function": BODY, "loop": 0, "locals": [["k", "1::2::k"], "cBasisCandidate", "maxViolation", "bas_k"],
             "invariants": ["0<=k && k<=g_n",
                            "(cBasisCandidate == -1 && bas_k == -1) || (0<=bas_k && bas_k<k && 0<=cBasisCandidate && cBasisCandidate<g_nC && gp_i1[bas_k]==cBasisCandidate)",
                            "gp_cst[g_kc]==v_cs || (v_cs==%d && g_in != 0 && (gp_cst[g_kc]==%d || gp_cst[g_kc]==%d))" % (FIXED, ON_LOWER, ON_UPPER),
                            "cBasisCandidate != g_kc || (v_cs==%d && (gp_cst[g_kc]==%d || gp_cst[g_kc]==%d))" % (FIXED, ON_LOWER, ON_UPPER)],
             "assigns": ["k", "cBasisCandidate", "maxViolation", "bas_k", "__CPROVER_object_whole(gp_cst)"], "decreases": "g_n-k"},
            {"function": BODY, "loop": 1, "locals": [["k", "1::3::1::k"], "cBasisCandidate"],
             "invariants": ["0<=k && k<=g_n", "g_in != 0 || " + same("gp_r[g_kc]", "v_r"), "gp_r[cBasisCandidate]==0.0"],
             "assigns": ["k", "__CPROVER_object_whole(gp_r)"], "decreases": "g_n-k"},
            {"function": BODY, "loop": 2, "locals": [["k", "1::3::2::k"], "val"],
             "invariants": ["0<=k && k<=g_cap"], "assigns": ["k", "val"], "decreases": "g_cap-k"}],
     min_obl=800,
     mutants=[mut("cand_status", "ForceConstraintPS", "cStatus[cBasisCandidate] = SPxSolverBase<R>::BASIC;", "cStatus[cBasisCandidate] = SPxSolverBase<R>::FIXED;"),
              mut("drop_row_basic", "ForceConstraintPS", "      rStatus[m_i] = SPxSolverBase<R>::BASIC;\n      y[m_i] = m_rowobj;", "      y[m_i] = m_rowobj;"),
              mut("drop_redcost", "ForceConstraintPS", "r[cBasisCandidate] = 0.0;", ";"),
              mut("unfix_basic", "ForceConstraintPS", "this->feastol()) ? SPxSolverBase<R>::ON_LOWER : SPxSolverBase<R>::ON_UPPER;\n\n            if(violation",
                  "this->feastol()) ? SPxSolverBase<R>::ON_LOWER : SPxSolverBase<R>::BASIC;\n\n            if(violation")])


def row_same(pos, vy, vs, vrs):
    return "(%s && %s && gp_rst[%s]==%s)" % (same("gp_y[%s]" % pos, vy), same("gp_s[%s]" % pos, vs), pos, vrs)


# facts that have to survive the loops after the index-shift loop (t = g_n2, n = g_n, m_col indices = gp_i1)
FZ_FRAME_ROW = "g_kr >= g_n2 || g_in != 0 || " + row_same("g_kr", "v_y", "v_s", "v_rs")
FZ_MOVED = "gp_i1[g_k2] >= g_n2 || g_in2 != 0 || " + row_same("g_n2+g_k2", "v_y2", "v_s2", "v_rs2")
FZ_KEEP = [FZ_FRAME_ROW, FZ_MOVED]
FZ_LOOPS = [
    {"function": BODY, "loop": 0, "locals": [["k", "1::2::k"], "rIdx"],
     "invariants": ["0<=k && k<=g_n", "rIdx == g_n2 + k",
                    "g_kr >= g_n2 || " + row_same("g_kr", "v_y", "v_s", "v_rs"),
                    "gp_i1[g_k2] >= g_n2 || " + row_same("gp_i1[g_k2]", "v_y2", "v_s2", "v_rs2"),
                    "gp_i1[g_k2] >= g_n2 || g_k2 >= k || " + row_same("g_n2+g_k2", "v_y2", "v_s2", "v_rs2")],
     "assigns": ["k", "rIdx", "__CPROVER_object_whole(gp_s)", "__CPROVER_object_whole(gp_y)", "__CPROVER_object_whole(gp_rst)"],
     "decreases": "g_n-k"},
    {"function": BODY, "loop": 1, "locals": [["l", "1::3::1::1::1::l"], ["val", "1::3::1::1::val"]],
     "invariants": ["0<=l && l<=g_cap"], "assigns": ["l", "val"], "decreases": "g_cap-l"},
    {"function": BODY, "loop": 2, "locals": [["k", "1::3::1::k"], "minRowUp", "domIdx"],
     "invariants": ["0<=k && k<=g_n", "*gp_i2 == k", "domIdx == -1 || (0<=domIdx && domIdx<k)"],
     "assigns": ["k", "minRowUp", "domIdx", "*gp_i2", "__CPROVER_object_upto(gp_d1, 64)", "__CPROVER_object_upto(gp_i3, 32)"],
     "decreases": "g_n-k"},
    {"function": BODY, "loop": 3, "locals": [["l", "1::4::1::1::1::l"], ["val", "1::4::1::1::val"]],
     "invariants": ["0<=l && l<=g_cap"], "assigns": ["l", "val"], "decreases": "g_cap-l"},
    {"function": BODY, "loop": 4, "locals": [["k", "1::4::1::k"], "maxRowLo", "domIdx"],
     "invariants": ["0<=k && k<=g_n", "*gp_i2 == k", "domIdx == -1 || (0<=domIdx && domIdx<k)"],
     "assigns": ["k", "maxRowLo", "domIdx", "*gp_i2", "__CPROVER_object_upto(gp_d1, 64)", "__CPROVER_object_upto(gp_i3, 32)"],
     "decreases": "g_n-k"},
    {"function": BODY, "loop": 5, "locals": [["k", "1::5::k"]],
     "invariants": ["0<=k && k<=g_n"] + FZ_KEEP,
     "assigns": ["k", "__CPROVER_object_whole(gp_s)"], "decreases": "g_n-k"},
    {"function": BODY, "loop": 6, "locals": [["k", "1::6::k"]],
     "invariants": ["0<=k && k<=g_n", "g_k2 >= k || gp_y[gp_i1[g_k2]]==0.0"] + FZ_KEEP,
     "assigns": ["k", "__CPROVER_object_whole(gp_y)"], "decreases": "g_n-k"},
    {"function": BODY, "loop": 7, "locals": [["k", "1::7::k"], "domIdx"],
     "invariants": ["0<=k && k<=g_n",
                    "g_k2 >= k || ((gp_rst[gp_i1[g_k2]]==%d) == (g_k2 != domIdx))" % BASIC,
                    "g_k2 >= k || g_k2 != domIdx || gp_rst[gp_i1[g_k2]]==g_exp",
                    "!(0<=domIdx && domIdx<k) || gp_cst[g_a]==%d" % BASIC,
                    "g_kc == g_a || g_kc == g_b || gp_cst[g_kc]==v_cs",
                    "g_a == g_b || gp_cst[g_b]==v_cs2"] + FZ_KEEP,
     "assigns": ["k", "__CPROVER_object_whole(gp_rst)", "__CPROVER_object_whole(gp_cst)"], "decreases": "g_n-k"},
]
inst("FreeZeroObjVariable", "FreeZeroObjVariablePS", XYSR,
     [("int", "m_j"), ("int", "m_old_j"), ("int", "m_old_i"), (R_, "m_bnd"), (DSV, "m_col"), (DSV, "m_lRhs"), (DSV, "m_rowObj"),
      (r"Array<DSVectorBase<R>>", "m_rows"), ("bool", "m_loFree")],
     loops=FZ_LOOPS, min_obl=1000, defines={"CAP": "3", "DIM": "6"},
     must=[r"y\[idx\] = m_rowObj\[idx\];"],
     mutants=[mut("dom_status", "FreeZeroObjVariablePS", "cStatus[m_j] = SPxSolverBase<R>::BASIC;", "cStatus[m_j] = SPxSolverBase<R>::ZERO;"),
              mut("row_status", "FreeZeroObjVariablePS", "rStatus[m_col.index(k)] = SPxSolverBase<R>::BASIC;", "rStatus[m_col.index(k)] = SPxSolverBase<R>::ON_LOWER;"),
              mut("swap_bound", "FreeZeroObjVariablePS", "         cStatus[m_j] = SPxSolverBase<R>::ON_UPPER;\n      else", "         cStatus[m_j] = SPxSolverBase<R>::ON_LOWER;\n      else"),
              mut("shift_start", "FreeZeroObjVariablePS", "int rIdx = m_old_i - m_col.size() + 1;", "int rIdx = m_old_i - m_col.size();"),
              mut("shift_idx", "FreeZeroObjVariablePS", "cStatus[m_old_j] = cStatus[m_j];", "cStatus[m_j] = cStatus[m_old_j];")])


def simple_loop(n, kname, others, bound="g_n"):
    return {"function": BODY, "loop": n, "locals": [["k", kname]] + others, "invariants": ["0<=k && k<=%s" % bound],
            "assigns": ["k"] + [o if isinstance(o, str) else o[0] for o in others], "decreases": "%s-k" % bound}


inst("ZeroObjColSingleton", "ZeroObjColSingletonPS", XYSR,
     [("int", "m_j"), ("int", "m_i"), ("int", "m_old_j"), (R_, "m_lhs"), (R_, "m_rhs"), (R_, "m_lower"), (R_, "m_upper"), (DSV, "m_row")],
     tier="quick", min_obl=500,
     mutants=[mut("swap_status", "ZeroObjColSingletonPS", "         x[m_j]       = m_upper;\n         cStatus[m_j] = SPxSolverBase<R>::ON_UPPER;\n      }\n      else if(aij < 0)\n      {\n         x[m_j]       = m_lower;\n         cStatus[m_j] = SPxSolverBase<R>::ON_LOWER;",
                  "         x[m_j]       = m_upper;\n         cStatus[m_j] = SPxSolverBase<R>::ON_LOWER;\n      }\n      else if(aij < 0)\n      {\n         x[m_j]       = m_lower;\n         cStatus[m_j] = SPxSolverBase<R>::ON_LOWER;"),
              mut("drop_row_status", "ZeroObjColSingletonPS", "         rStatus[m_i] = (aij > 0 ? SPxSolverBase<R>::ON_LOWER : SPxSolverBase<R>::ON_UPPER);", "         ;"),
              mut("shift_idx", "ZeroObjColSingletonPS", "cStatus[m_old_j] = cStatus[m_j];", "cStatus[m_j] = cStatus[m_old_j];"),
              mut("basic_in_nonbasic_case", "ZeroObjColSingletonPS", "         x[m_j] = 0.0;\n         cStatus[m_j] = SPxSolverBase<R>::ZERO;", "         x[m_j] = 0.0;\n         cStatus[m_j] = SPxSolverBase<R>::BASIC;")])

inst("FreeColSingleton", "FreeColSingletonPS", XYSR,
     [("int", "m_j"), ("int", "m_i"), ("int", "m_old_j"), ("int", "m_old_i"), (R_, "m_obj"), (R_, "m_lRhs"), ("bool", "m_onLhs"), ("bool", "m_eqCons"), (DSV, "m_row")],
     tier="quick", min_obl=500, loops=[simple_loop(0, "1::3::k", ["val"])],
     mutants=[mut("col_status", "FreeColSingletonPS", "cStatus[m_j] = SPxSolverBase<R>::BASIC;", "cStatus[m_j] = SPxSolverBase<R>::ZERO;"),
              mut("row_status", "FreeColSingletonPS", "rStatus[m_i] = SPxSolverBase<R>::FIXED;", "rStatus[m_i] = SPxSolverBase<R>::BASIC;"),
              mut("shift_idx", "FreeColSingletonPS", "x[m_old_j] = x[m_j];", "x[m_old_j] = x[m_old_j];"),
              mut("wrong_row", "FreeColSingletonPS", "rStatus[m_old_i] = rStatus[m_i];", "rStatus[m_old_i] = rStatus[m_old_i];")])

inst("MultiAggregation", "MultiAggregationPS", XYSR,
     [("int", "m_j"), ("int", "m_i"), ("int", "m_old_j"), ("int", "m_old_i"), (R_, "m_upper"), (R_, "m_lower"), (R_, "m_obj"), (R_, "m_const"),
      ("bool", "m_onLhs"), ("bool", "m_eqCons"), (DSV, "m_row"), (DSV, "m_col")],
     tier="quick", min_obl=500, loops=[simple_loop(0, "1::3::k", ["val"]), simple_loop(1, "1::4::k", ["dualVal"], "g_n2")],
     mutants=[mut("col_status", "MultiAggregationPS", "cStatus[m_j] = SPxSolverBase<R>::BASIC;", "cStatus[m_j] = SPxSolverBase<R>::FIXED;"),
              mut("redcost", "MultiAggregationPS", "r[m_j] = 0.0;", "r[m_old_j] = 0.0;"),
              mut("swap_status", "MultiAggregationPS", "rStatus[m_i] = SPxSolverBase<R>::ON_LOWER;", "rStatus[m_i] = SPxSolverBase<R>::ON_UPPER;")])

inst("Aggregation", "AggregationPS", XYSR,
     [("int", "m_j"), ("int", "m_i"), ("int", "m_old_j"), ("int", "m_old_i"), (R_, "m_upper"), (R_, "m_lower"), (R_, "m_obj"), (R_, "m_oldupper"),
      (R_, "m_oldlower"), (R_, "m_rhs"), (DSV, "m_row"), (DSV, "m_col")],
     tier="quick", min_obl=500,
     loops=[{"function": BODY, "loop": 0, "locals": [["k", "1::3::k"], "active_idx", "val"],
             "invariants": ["0<=k && k<=2",
                            "(k==0 && active_idx==-1) || (k==1 && active_idx==(gp_i1[0]==g_b ? -1 : gp_i1[0])) || (k==2 && active_idx==g_a)"],
             "assigns": ["k", "active_idx", "val"], "decreases": "2-k"},
            simple_loop(1, "1::5::k", ["dualVal"])],
     mutants=[mut("act_status", "AggregationPS", "cStatus[active_idx] = SPxSolverBase<R>::BASIC;", "cStatus[active_idx] = SPxSolverBase<R>::FIXED;"),
              mut("else_status", "AggregationPS", "      cStatus[m_j] = SPxSolverBase<R>::BASIC;\n   }\n\n   // sides", "      cStatus[m_j] = SPxSolverBase<R>::ON_LOWER;\n   }\n\n   // sides"),
              mut("row_status", "AggregationPS", "rStatus[m_i] = SPxSolverBase<R>::ON_UPPER;", "rStatus[m_i] = SPxSolverBase<R>::BASIC;"),
              mut("both_basic", "AggregationPS", "         cStatus[m_j] = SPxSolverBase<R>::ZERO;", "         cStatus[m_j] = SPxSolverBase<R>::BASIC;")])

inst("DoubletonEquation", "DoubletonEquationPS", ["x", "y", "", "r", "cStatus", "rStatus", "isOptimal"],
     [("int", "m_j"), ("int", "m_k"), ("int", "m_i"), ("bool", "m_maxSense"), ("bool", "m_jFixed"), (R_, "m_jObj"), (R_, "m_kObj"), (R_, "m_aij"),
      ("bool", "m_strictLo"), ("bool", "m_strictUp"), (R_, "m_newLo"), (R_, "m_newUp"), (R_, "m_oldLo"), (R_, "m_oldUp"), (R_, "m_Lo_j"), (R_, "m_Up_j"),
      (R_, "m_lhs"), (R_, "m_rhs"), (DSV, "m_col")],
     tier="quick", min_obl=400,
     loops=[{"function": BODY, "loop": 0, "locals": ["_k", "val"], "invariants": ["0<=_k && _k<=g_n"], "assigns": ["_k", "val"], "decreases": "g_n-_k"}],
     mutants=[mut("k_status", "DoubletonEquationPS", "cStatus[m_k] = SPxSolverBase<R>::BASIC;", "cStatus[m_k] = SPxSolverBase<R>::ON_LOWER;"),
              mut("j_status", "DoubletonEquationPS", "            cStatus[m_j] = SPxSolverBase<R>::ON_UPPER;", "            cStatus[m_j] = SPxSolverBase<R>::BASIC;"),
              mut("wrong_index", "DoubletonEquationPS", "r[m_k] = 0.0;", "r[m_j] = 0.0;"),
              mut("guard", "DoubletonEquationPS", "if((cStatus[m_k]  != SPxSolverBase<R>::BASIC) &&", "if((cStatus[m_k]  == SPxSolverBase<R>::BASIC) ||")])


def col_same(pos, vx, vr, vcs):
    return "(%s && %s && gp_cst[%s]==%s)" % (same("gp_x[%s]" % pos, vx), same("gp_r[%s]" % pos, vr), pos, vcs)


inst("DuplicateCols_main", "DuplicateColsPS", ["x", "", "", "r", "cStatus", "rStatus", "isOptimal"],
     [("int", "m_j"), ("int", "m_k"), (R_, "m_loJ"), (R_, "m_upJ"), (R_, "m_loK"), (R_, "m_upK"), (R_, "m_scale"), ("bool", "m_isFirst"),
      ("bool", "m_isLast"), (r"DataArray<int>", "m_perm")],
     tier="quick", min_obl=800, defines={"PS_ONLY_MAIN": ""},
     loops=[{"function": BODY, "loop": 0, "locals": ["i"],
             "invariants": ["-1<=i && i<g_n",
                            "(g_kc < g_n && gp_i1[g_kc] >= 0 && g_kc > i) ? " + col_same("g_kc", "v_x2", "v_r2", "v_cs2") + " : " + col_same("g_kc", "v_x", "v_r", "v_cs"),
                            "g_a > i || " + col_same("g_a", "v_x2", "v_r2", "v_cs2")],
             "assigns": ["i", "__CPROVER_object_whole(gp_x)", "__CPROVER_object_whole(gp_r)", "__CPROVER_object_whole(gp_cst)"],
             "decreases": "i+1"}],
     mutants=[              mut("swap_status", "DuplicateColsPS", "         x[m_j]       = m_loJ;\n         cStatus[m_j] = (m_loJ == m_upJ) ? SPxSolverBase<R>::FIXED : SPxSolverBase<R>::ON_LOWER;\n      }\n      else\n      {\n         x[m_j]       = m_upJ;",
                  "         x[m_j]       = m_loJ;\n         cStatus[m_j] = (m_loJ == m_upJ) ? SPxSolverBase<R>::FIXED : SPxSolverBase<R>::ON_UPPER;\n      }\n      else\n      {\n         x[m_j]       = m_upJ;"),
              mut("both_basic", "DuplicateColsPS", "            cStatus[m_k] = (m_loK == m_upK) ? SPxSolverBase<R>::FIXED : SPxSolverBase<R>::ON_UPPER;\n            x[m_k] = m_upK;\n            cStatus[m_j] = SPxSolverBase<R>::BASIC;",
                  "            x[m_k] = m_upK;\n            cStatus[m_j] = SPxSolverBase<R>::BASIC;"),
              mut("wrong_index", "DuplicateColsPS", "      x[m_j]       = m_loJ;\n      cStatus[m_j] = SPxSolverBase<R>::FIXED;", "      x[m_j]       = m_loJ;\n      cStatus[m_k] = SPxSolverBase<R>::FIXED;")])

inst("DuplicateCols_perm", "DuplicateColsPS", ["x", "", "", "r", "cStatus", "rStatus", "isOptimal"],
     [("int", "m_j"), ("int", "m_k"), (R_, "m_loJ"), (R_, "m_upJ"), (R_, "m_loK"), (R_, "m_upK"), (R_, "m_scale"), ("bool", "m_isFirst"),
      ("bool", "m_isLast"), (r"DataArray<int>", "m_perm")],
     tier="thorough", min_obl=300, defines={"PS_ONLY_PERM": ""},
     loops=[{"function": BODY, "loop": 0, "locals": ["i"],
             "invariants": ["-1<=i && i<g_n",
                            "(g_kc < g_n && gp_i1[g_kc] >= 0 && g_kc > i) ? " + col_same("g_kc", "v_x2", "v_r2", "v_cs2") + " : " + col_same("g_kc", "v_x", "v_r", "v_cs"),
                            "g_a > i || " + col_same("g_a", "v_x2", "v_r2", "v_cs2")],
             "assigns": ["i", "__CPROVER_object_whole(gp_x)", "__CPROVER_object_whole(gp_r)", "__CPROVER_object_whole(gp_cst)"],
             "decreases": "i+1"}],
     mutants=[mut("perm_dir", "DuplicateColsPS", "cStatus[cIdx] = cStatus[cIdx_new];", "cStatus[cIdx_new] = cStatus[cIdx];"),
              mut("perm_src", "DuplicateColsPS", "x[cIdx] = x[cIdx_new];", "x[cIdx] = x[cIdx];")])


def sv_has(idx, n, i):
    """text of SV_HAS(idx, n, i) (ps_contract.h) for loop invariants"""
    return "(" + " || ".join("(%d < %s && %s[%d] == %s)" % (k, n, idx, k, i) for k in range(8)) + ")"


def nb(e):
    return "(%s != %d)" % (e, BASIC)


def defined(e):
    return "(0 <= %s && %s <= %d)" % (e, e, BASIC)


RS_P, RS_Q, RS_MI = "gp_rst[gp_i1[g_k2]]", "gp_rst[gp_i1[g_kc2]]", "gp_rst[g_a]"


def rs_cand(m):
    return "(0 <= %s && %s < g_nR && %s != g_a && %s && %s)" % (m, m, m, sv_has("gp_i1", "k", m), nb("gp_rst[%s]" % m))


inst("DuplicateRows", "DuplicateRowsPS", ["", "y", "s", "", "cStatus", "rStatus", "isOptimal"],
     [("int", "m_i"), (R_, "m_i_rowObj"), ("int", "m_maxLhsIdx"), ("int", "m_minRhsIdx"), ("bool", "m_maxSense"), ("bool", "m_isFirst"),
      ("bool", "m_isLast"), ("bool", "m_fixed"), ("int", "m_nCols"), (DSV, "m_scale"), (DSV, "m_rowObj"), (r"DataArray<int>", "m_rIdxLocalOld"),
      (r"DataArray<int>", "m_perm"), (r"DataArray<bool>", "m_isLhsEqualRhs")],
     tier="quick", min_obl=1000,
     loops=[{"function": BODY, "loop": 0, "locals": [["i", "1::1::1::i"]],
             "invariants": ["-1<=i && i<g_n2",
                            "(g_kr < g_n2 && gp_i2[g_kr] >= 0 && g_kr > i) ? " + row_same("g_kr", "v_y2", "v_s2", "v_rs3") + " : " + row_same("g_kr", "v_y", "v_s", "v_rs"),
                            "g_b > i || " + row_same("g_b", "v_y2", "v_s2", "v_rs3"),
                            "g_a <= i || gp_rst[g_a]==v_rs2",
                            "g_e > i || gp_rst[g_e]==v_rs2"],
             "assigns": ["i", "__CPROVER_object_whole(gp_s)", "__CPROVER_object_whole(gp_y)", "__CPROVER_object_whole(gp_rst)"],
             "decreases": "i+1"},
            {"function": BODY, "loop": 1, "locals": [["k", "1::2::k"]],
             "invariants": ["0<=k && k<=g_n", "g_in != 0 || " + same("gp_s[g_kr]", "v_s2")],
             "assigns": ["k", "__CPROVER_object_whole(gp_s)"], "decreases": "g_n-k"},
            {"function": BODY, "loop": 2, "locals": [["k", "1::3::k"], "haveSetBasis"],
             "invariants": ["0<=k && k<=g_n",
                            "haveSetBasis || %s==v_rs2" % RS_MI,
                            "!haveSetBasis || v_rs2 != %d" % BASIC,
                            "v_rs2 != %d || g_k2 >= k || %s==%d" % (BASIC, RS_P, BASIC),
                            "!(g_k2 < k && g_kc2 < k && g_k2 != g_kc2 && %s) || !%s" % (nb(RS_P), nb(RS_Q)),
                            "!(g_k2 < k && gp_i1[g_k2] != g_a && %s) || !%s" % (nb(RS_P), nb(RS_MI)),
                            "!(g_kc2 < k && gp_i1[g_kc2] != g_a && %s) || !%s" % (nb(RS_Q), nb(RS_MI)),
                            "v_rs2 == %d || %s || (haveSetBasis && (%s || %s))" % (BASIC, nb(RS_MI), rs_cand("g_c"), rs_cand("g_d")),
                            "!(g_k2 < k && gp_i1[g_k2] != g_a && %s==%d) || %s" % (RS_P, BASIC, same("gp_y[gp_i1[g_k2]]", "gp_d1[g_k2]")),
                            "!(%s==%d && (v_rs2 != %d || %s)) || %s" % (RS_MI, BASIC, BASIC, sv_has("gp_i1", "k", "g_a"), same("gp_y[g_a]", "v_x2")),
                            "g_k2 >= k || " + defined(RS_P), defined(RS_MI),
                            "!(g_k2 < k && gp_i1[g_k2] != g_a && %s) || (%s==%d || %s==%d || %s==%d)" % (nb(RS_P), RS_P, FIXED, RS_P, ON_LOWER, RS_P, ON_UPPER),
                            "g_in != 0 || (%s && gp_rst[g_kr]==v_rs3)" % same("gp_y[g_kr]", "v_y2")],
             "assigns": ["k", "haveSetBasis", "__CPROVER_object_whole(gp_y)", "__CPROVER_object_whole(gp_rst)"], "decreases": "g_n-k"}],
     mutants=[mut("dup_status", "DuplicateRowsPS", "         y[i]       = m_rowObj.value(k);\n         rStatus[i] = SPxSolverBase<R>::BASIC;\n      }\n   }",
                  "         y[i]       = m_rowObj.value(k);\n         rStatus[i] = SPxSolverBase<R>::ON_LOWER;\n      }\n   }"),
              mut("drop_mi_basic", "DuplicateRowsPS", "            rStatus[m_i] = SPxSolverBase<R>::BASIC;\n\n         haveSetBasis = true;\n      }\n      else if(i == m_minRhsIdx",
                  "            ;\n\n         haveSetBasis = true;\n      }\n      else if(i == m_minRhsIdx"),
              mut("perm_dir", "DuplicateRowsPS", "rStatus[rIdx] = rStatus[rIdx_new];", "rStatus[rIdx_new] = rStatus[rIdx];"),
              mut("drop_flag", "DuplicateRowsPS", "         haveSetBasis = true;\n      }\n      else if(i == m_maxLhsIdx", "         ;\n      }\n      else if(i == m_maxLhsIdx"),
              mut("dual", "DuplicateRowsPS", "         y[i]       = m_rowObj.value(k);\n         rStatus[i] = SPxSolverBase<R>::BASIC;\n         continue;",
                  "         y[m_i]       = m_rowObj.value(k);\n         rStatus[i] = SPxSolverBase<R>::BASIC;\n         continue;")])

# ---------------------------------------------------------------------------------------------------
UNIT = {
    "property": ["C08", "C04"],
    "desc": "postsolve steps SPxMainSM<R>::*PS::execute (spxmainsm.hpp): basis cardinality delta, index-shift undo, frame, "
            "exact complementary facts; real bodies at R = double",
    "rmode": "double (IEEE, bit-precise); tolerance comparisons EQrel/isZero/GErel/... = arbitrary booleans",
    "defines": {"CAP": "4", "DIM": "6"},
    "defines_small": {"CAP": "2", "DIM": "4"},
    "flags": ["--bounds-check", "--pointer-check"],
    "timeout_s": 600, "mem_gb": 8,
    "constants": [{"name": "SOPLEX_DEFAULT_INFINITY", "file": "src/soplex/spxdefines.h",
                   "regex": r"#define\s+SOPLEX_DEFAULT_INFINITY\s+([0-9.e+]+)\s*\n"}],
    "extracts": [{"as": "VarStatus.inc", "file": "src/soplex/spxsolver.h",
                  "regex": r"enum VarStatus\s*\{\s*ON_UPPER,[^}]*?ON_LOWER,[^}]*?FIXED,[^}]*?ZERO,[^}]*?BASIC,[^}]*?UNDEFINED[^}]*?\};"}],
    "trusted": [
        "host structs replicate the private data members of each SPxMainSM<R>::*PS class (conformance-checked against spxmainsm.h on every run); "
        "`const` of the members dropped, body() is const",
        "VectorBase/DataArray (stubs/containers.h), SVectorBase-with-lookup/DSVectorBase/Array (stubs/svec_ext.h) are executable models that add the "
        "bounds assertion; SVector lookup operator[] is the first-match search written out for <= 8 entries (asserts size <= 8)",
        "assumed type invariant of stored rows/columns: every stored index is within the dimension it refers to (assume in SVectorLk::index)",
        "EQ/NE/LT/GT/EQrel/LTrel/LErel/GErel/isZero are arbitrary booleans (over-approximation); spxAbs/maxAbs are their real one-line bodies (conformance-checked)",
        "feastol()/epsilon() are two arbitrary positive doubles",
        "`throw SPxInternalCodeException` = obligation 'unreachable under the precondition'; `throw SPxException` allowed only where the contract says so; "
        "a throwing path promises nothing",
        "assert(), SOPLEX_ASSERT_WARN, SPX_MSG_ERROR, SPxOut::debug compiled out; NDEBUG semantics (no SOPLEX_CHECK_BASIS_DIM blocks)",
        "stored sparse vectors capped at CAP entries, solution vectors at DIM entries (loop proofs are inductive; the caps bound object sizes only)",
        "frame/copy clauses compare doubles with ==, extended by NaN==NaN (sign of zero and NaN payload not distinguished)",
        "the harness passes six distinct TYPED automatic arrays (DIM entries each) for x,y,s,r,cStatus,rStatus and typed arrays for the stored "
        "vectors instead of __CPROVER_is_fresh byte objects (6-10x faster: no byte-extract at symbolic offsets); logical dimensions nC,nR <= DIM are "
        "what the container models check every access against; ghost alias pointers are assigned by the harness",
        "ghost exports appended AFTER the verbatim slice inside body(): g_out = cBasisCandidate (ForceConstraintPS), g_out = domIdx "
        "(FreeZeroObjVariablePS); DSVEC_CTOR_HOOK exports aliases of the body-local DSVector `slack` (FreeZeroObjVariablePS) for loop assigns clauses",
        "call-site preconditions of each contract (see contract.c comments) are conformance-checked by regex against spxmainsm.hpp/.h where possible",
        "VarStatus enumerator values 0..5 are used as literals in loop invariants; the extract regex pins the enumerator order without explicit values",
    ],
    "instances": INST,
}

json.dump(UNIT, open(os.path.join(HERE, "unit.json"), "w"), indent=1)
print("wrote unit.json with %d instances" % len(INST))
