/* C08/C04 postsolve units: environment shared by all SPxMainSM<R>::*PS::execute hosts (C++ side).
 * R = double (CBMC's exact IEEE model). */
#ifndef PS_COMMON_H
#define PS_COMMON_H
#include "verif.h"
/* proofs are for the NDEBUG build: assert() compiled out, `#ifndef NDEBUG` blocks inside slices dropped,
 * SOPLEX_CHECK_BASIS_DIM (defined in spxmainsm.hpp only without NDEBUG) not defined */
#ifndef NDEBUG
#define NDEBUG 1
#endif
typedef double R;
#include "constants.h"            /* SOPLEX_DEFAULT_INFINITY, extracted from spxdefines.h on every run */
#define infinity SOPLEX_DEFAULT_INFINITY
#include "svec_ext.h"
#define SVectorBase SVectorLk      /* see stubs/svec_ext.h */

/* names-only template: serves the qualified names SPxSolverBase<R>::BASIC etc.; the enumeration is
 * the verbatim text of spxsolver.h */
template <class T> struct SPxSolverBase
{
#include "VarStatus.inc"
};
typedef SPxSolverBase<R>::VarStatus VarStatus;

struct SPxOut { static void debug(const void*, const char*, ...) {} };
#define SPX_MSG_ERROR(x)
#define SOPLEX_ASSERT_WARN(prefix, expr)

/* tolerance comparison helpers of spxdefines.hpp: over-approximated as arbitrary (nondet) booleans.
 * Every contract clause is universally quantified over the branch outcomes, so this only strengthens
 * what is proved.  isNotZero occurs only inside SOPLEX_ASSERT_WARN (dropped). */
template <class A, class B, class C> inline bool EQ(A, B, C) { return nondet_bool(); }
template <class A, class B, class C> inline bool NE(A, B, C) { return nondet_bool(); }
template <class A, class B, class C> inline bool LT(A, B, C) { return nondet_bool(); }
template <class A, class B, class C> inline bool GT(A, B, C) { return nondet_bool(); }
template <class A, class B, class C> inline bool EQrel(A, B, C) { return nondet_bool(); }
template <class A, class B, class C> inline bool LTrel(A, B, C) { return nondet_bool(); }
template <class A, class B, class C> inline bool LErel(A, B, C) { return nondet_bool(); }
template <class A, class B, class C> inline bool GErel(A, B, C) { return nondet_bool(); }
template <class A, class B> inline bool isZero(A, B) { return nondet_bool(); }
/* spxdefines.h: spxAbs = fabs, maxAbs = max(|a|,|b|) (conformance-checked) */
inline R spxAbs(R a) { return a < 0 ? -a : a; }
inline R maxAbs(R a, R b) { const R absa = spxAbs(a); const R absb = spxAbs(b); return absa > absb ? absa : absb; }

/* `throw X(...)` inside a slice becomes `(void) X(...)`: the constructor of the exception stub decides.
 *  The ghost g_may_throw (fixed by each contract's `requires`, 0 if the contract does not mention it... see
 *  contract.c) says which throws the contract allows: bit 0 = SPxException, bit 1 = SPxInternalCodeException
 *  ("This should never happen").  A throw that is not allowed is a failed obligation; a path that throws ends
 *  there (no postcondition is promised for it). */
extern "C" { extern int g_may_throw; }
struct SPxInternalCodeException
{
   SPxInternalCodeException(const char*)
   {
      __CPROVER_assert((g_may_throw & 2) != 0, "SPxInternalCodeException is thrown only where the contract allows it");
      __CPROVER_assume(0);
   }
};
struct SPxException
{
   SPxException(const char*)
   {
      __CPROVER_assert((g_may_throw & 1) != 0, "SPxException is thrown only where the contract allows it");
      __CPROVER_assume(0);
   }
};
#define throw (void)

/* ghost alias pointers for loop invariants (C globals; assigned by the HARNESS before the call, so that they
 * need not appear in any assigns clause: every assigns target costs one comparison per checked write) */
extern "C" { extern double* gp_x; extern double* gp_y; extern double* gp_s; extern double* gp_r;
             extern int* gp_cst; extern int* gp_rst; }

/* replica of SPxMainSM<R>::PostStep as far as the bodies use it: feastol(), epsilon(); plus the seven
 * parameters of execute() as pointer members (reference members of class type are rejected by the front
 * end); PS_PROLOGUE binds the real parameter names at the top of body(). */
struct PostStepHost
{
   R tol_feas; R tol_eps;
   R feastol() const { return tol_feas; }
   R epsilon() const { return tol_eps; }
   VectorBase<R>* x_; VectorBase<R>* y_; VectorBase<R>* s_; VectorBase<R>* r_;
   DataArray<VarStatus>* cStatus_; DataArray<VarStatus>* rStatus_;
   bool isOptimal;
};
#define PS_PROLOGUE \
   VectorBase<R>& x = *x_; VectorBase<R>& y = *y_; VectorBase<R>& s = *s_; VectorBase<R>& r = *r_; \
   DataArray<VarStatus>& cStatus = *cStatus_; DataArray<VarStatus>& rStatus = *rStatus_;

/* common wrapper parameters: the four solution vectors and the two status arrays as raw arrays
 * (x, r, cst: nC entries; y, s, rst: nR entries), the two tolerances, isOptimal.
 * PS_BIND also records the inputs in the counterexample trace (VIN). */
#define PS_PARAMS double* x, double* y, double* s, double* r, int* cst, int* rst, int nC, int nR, \
                  double feastol, double eps, int isOptimal
#define PS_BIND(h) \
   VectorBase<R> vx; vx.val = x; vx.dimen = nC; VectorBase<R> vy; vy.val = y; vy.dimen = nR; \
   VectorBase<R> vs; vs.val = s; vs.dimen = nR; VectorBase<R> vr; vr.val = r; vr.dimen = nC; \
   DataArray<VarStatus> dc; dc.data = (VarStatus*)cst; dc.thesize = nC; \
   DataArray<VarStatus> dr; dr.data = (VarStatus*)rst; dr.thesize = nR; \
   h.x_ = &vx; h.y_ = &vy; h.s_ = &vs; h.r_ = &vr; h.cStatus_ = &dc; h.rStatus_ = &dr; \
   h.tol_feas = feastol; h.tol_eps = eps; h.isOptimal = (isOptimal != 0); \
   VIN("nC", nC); VIN("nR", nR); VIN_ARR8("cst", cst, nC) VIN_ARR8("rst", rst, nR) \
   VIN_ARR8("x", x, nC) VIN_ARR8("r", r, nC) VIN_ARR8("y", y, nR) VIN_ARR8("s", s, nR)
/* sparse vector member from raw arrays; `bnd` = dimension its indices live in */
#define PS_SVEC(m, idx, val, n, bnd) m.idxs = idx; m.vals = val; m.used = n; m.cap = n; m.bound = bnd;
#endif
