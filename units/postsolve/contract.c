/* C08 (postsolve) / C04 (basis cardinality): contracts of the SPxMainSM<R>::*PS::execute steps.
 *
 * Model of the data: x, r, cst are the primal, reduced-cost and column-status arrays (nC entries), y, s, rst
 * the dual, slack and row-status arrays (nR entries) that SPxMainSM::unsimplify hands to every step; they have
 * the dimensions of the ORIGINAL LP, the reduced LP occupies a prefix.  A step that re-inserts row m_i first
 * moves the entries found at m_i back to m_old_i (the row that had been moved into the hole when m_i was
 * removed), likewise for columns.
 *
 * Clauses per step (DESIGN.md C08):
 *  (a) basis cardinality as a local delta over the touched status entries, for every branch outcome;
 *  (b) index-shift undo;  (c) frame (ghost row g_kr / ghost column g_kc; vectors that are not in the assigns
 *  clause are never written at all; all accesses in bounds via the container models);
 *  (d) exact complementary facts (row made BASIC => y == row objective; column made BASIC => r == 0; no
 *  status left UNDEFINED).
 * The tolerance comparisons (EQrel, isZero, ...) are arbitrary booleans, so every clause holds whatever
 * they answer.  Values computed by floating-point algebra (x, s, y, r of the re-inserted row/column) are
 * not specified except where the code stores a constant or a copy. */
#include "ps_contract.h"

/* ------------------------------------------------------------------------------------------- */
#ifdef INST_RowObj
/* Undo of "row objective -> extra slack column m_j (+1 in row m_i), row range [0,0]".  The extra columns
 * are cut off the end of the vectors after the last step, so the column must end up non-basic and the
 * row inherits its status with the bound flipped (x_j = -activity).  Pre: not both basic (the two basis
 * columns would both be +-e_i: singular) - the code asserts the same. */
#define FLIP(e) ((e) == ON_UPPER ? ON_LOWER : (e) == ON_LOWER ? ON_UPPER : (e))
void w_RowObj(PS_PARAMS, int m_i, int m_j)
__CPROVER_requires(PS_WF && 0 <= m_i && m_i < nR && 0 <= m_j && m_j < nC)
__CPROVER_requires(DEFINED(rst[m_i]) && DEFINED(cst[m_j]) && !(rst[m_i] == BASIC && cst[m_j] == BASIC))
__CPROVER_requires(GHOST_COL && GHOST_ROW)
__CPROVER_assigns(GP_ALL, W(s), W(cst), W(rst))
/* (a) count preserved, and the column that will be cut off is not basic */
__CPROVER_ensures(B(rst[m_i]) + B(cst[m_j]) == B(__CPROVER_old(rst[m_i])) + B(__CPROVER_old(cst[m_j])))
__CPROVER_ensures(cst[m_j] != BASIC)
/* (d) exact status transfer */
__CPROVER_ensures(__CPROVER_old(rst[m_i]) != BASIC ==> (cst[m_j] == ZERO && rst[m_i] == FLIP(__CPROVER_old(cst[m_j]))))
__CPROVER_ensures(__CPROVER_old(rst[m_i]) == BASIC ==> (cst[m_j] == __CPROVER_old(cst[m_j]) && rst[m_i] == BASIC))
__CPROVER_ensures(DEFINED(rst[m_i]) && DEFINED(cst[m_j]))
/* (c) frame */
__CPROVER_ensures(g_kr != m_i ==> ROW_UNCHANGED)
__CPROVER_ensures(g_kr == m_i ==> SAME(y[g_kr], v_y))
__CPROVER_ensures(g_kc != m_j ==> COL_UNCHANGED)
__CPROVER_ensures(g_kc == m_j ==> (SAME(x[g_kc], v_x) && SAME(r[g_kc], v_r)))
;
void h_RowObj(void)
{
   PS_LOCALS; int m_i, m_j;
   havoc_ghosts();
   w_RowObj(PS_ARGS, m_i, m_j);
   CANARY();
}
#endif

/* the clauses shared by all steps that re-insert row m_i (last row index m_old_i) */
#define ROW_SHIFT_REQ (0 <= m_i && m_i <= m_old_i && m_old_i < nR)
#define ROW_SHIFT_UNDO (m_i != m_old_i ==> (SAME(s[m_old_i], __CPROVER_old(s[m_i])) && SAME(y[m_old_i], __CPROVER_old(y[m_i])) \
                                            && rst[m_old_i] == __CPROVER_old(rst[m_i])))
#define COL_SHIFT_REQ (0 <= m_j && m_j <= m_old_j && m_old_j < nC)
#define COL_SHIFT_UNDO (m_j != m_old_j ==> (SAME(x[m_old_j], __CPROVER_old(x[m_j])) && SAME(r[m_old_j], __CPROVER_old(r[m_j])) \
                                            && cst[m_old_j] == __CPROVER_old(cst[m_j])))
/* number of BASIC entries among the row entries {m_i, m_old_i} after, minus before (before the step the
 * entry m_old_i is outside the reduced LP and does not count; if m_i == m_old_i neither does m_i) */
#define ROW_DELTA (B(rst[m_i]) + (m_i != m_old_i ? B(rst[m_old_i]) - B(__CPROVER_old(rst[m_i])) : 0))
#define COL_DELTA (B(cst[m_j]) + (m_j != m_old_j ? B(cst[m_old_j]) - B(__CPROVER_old(cst[m_j])) : 0))

/* ------------------------------------------------------------------------------------------- */
#ifdef INST_FreeConstraint
/* re-inserts a free row: slack = activity (float algebra, not specified), dual = row objective, BASIC */
void w_FreeConstraint(PS_PARAMS, int m_i, int m_old_i, int* row_idx, double* row_val, int row_n, double m_row_obj)
__CPROVER_requires(PS_WF && ROW_SHIFT_REQ && SV_WF(row_idx, row_val, row_n) && g_n == row_n)
__CPROVER_requires(GHOST_COL && GHOST_ROW)
__CPROVER_assigns(GP_ALL, W(y), W(s), W(rst))
__CPROVER_ensures(ROW_DELTA == 1)                                            /* (a) one row, one more BASIC */
__CPROVER_ensures(ROW_SHIFT_UNDO)                                            /* (b) */
__CPROVER_ensures(rst[m_i] == BASIC && SAME(y[m_i], m_row_obj))              /* (d) */
__CPROVER_ensures((m_i != m_old_i && DEFINED(__CPROVER_old(rst[m_i]))) ==> DEFINED(rst[m_old_i]))
__CPROVER_ensures((g_kr != m_i && g_kr != m_old_i) ==> ROW_UNCHANGED)        /* (c) */
;
void h_FreeConstraint(void)
{
   PS_LOCALS; int m_i, m_old_i; int* row_idx; double* row_val; int row_n; double m_row_obj;
   havoc_ghosts();
   w_FreeConstraint(PS_ARGS, m_i, m_old_i, row_idx, row_val, row_n, m_row_obj);
   CANARY();
}
#endif

/* ------------------------------------------------------------------------------------------- */
#ifdef INST_EmptyConstraint
void w_EmptyConstraint(PS_PARAMS, int m_i, int m_old_i, double m_row_obj)
__CPROVER_requires(PS_WF && ROW_SHIFT_REQ)
__CPROVER_requires(GHOST_COL && GHOST_ROW)
__CPROVER_assigns(GP_ALL, W(y), W(s), W(rst))
__CPROVER_ensures(ROW_DELTA == 1)                                            /* (a) */
__CPROVER_ensures(ROW_SHIFT_UNDO)                                            /* (b) */
__CPROVER_ensures(rst[m_i] == BASIC && SAME(y[m_i], m_row_obj) && s[m_i] == 0.0)   /* (d) */
__CPROVER_ensures((m_i != m_old_i && DEFINED(__CPROVER_old(rst[m_i]))) ==> DEFINED(rst[m_old_i]))
__CPROVER_ensures((g_kr != m_i && g_kr != m_old_i) ==> ROW_UNCHANGED)        /* (c) */
;
void h_EmptyConstraint(void)
{
   PS_LOCALS; int m_i, m_old_i; double m_row_obj;
   havoc_ghosts();
   w_EmptyConstraint(PS_ARGS, m_i, m_old_i, m_row_obj);
   CANARY();
}
#endif

/* ------------------------------------------------------------------------------------------- */
#ifdef INST_FixBounds
/* restores the status of a column whose bounds had been fixed to one value.  Call sites (spxmainsm.hpp):
 * every `new FixBoundsPS` is followed by fixColumn()/FixVariablePS for the same column, which postsolve
 * executes FIRST and which leaves the column non-basic; the constructor stores one of the four non-basic
 * statuses in m_status or throws. */
void w_FixBounds(PS_PARAMS, int m_j, int m_status)
__CPROVER_requires(PS_WF && 0 <= m_j && m_j < nC && NONBASIC(m_status) && NONBASIC(cst[m_j]))
__CPROVER_requires(GHOST_COL && GHOST_ROW)
__CPROVER_assigns(GP_ALL, W(cst))
__CPROVER_ensures(cst[m_j] == m_status)
__CPROVER_ensures(B(cst[m_j]) == B(__CPROVER_old(cst[m_j])) && DEFINED(cst[m_j]))   /* (a) pure bound step: delta 0 */
__CPROVER_ensures(g_kc != m_j ==> cst[g_kc] == v_cs)                                  /* (c) */
;
void h_FixBounds(void)
{
   PS_LOCALS; int m_j, m_status;
   havoc_ghosts();
   w_FixBounds(PS_ARGS, m_j, m_status);
   CANARY();
}
#endif

/* ------------------------------------------------------------------------------------------- */
#ifdef INST_TightenBounds
void w_TightenBounds(PS_PARAMS, int m_j, double m_origupper, double m_origlower)
__CPROVER_requires(PS_WF && 0 <= m_j && m_j < nC && DEFINED(cst[m_j]))
__CPROVER_requires(GHOST_COL && GHOST_ROW)
__CPROVER_assigns(GP_ALL, W(cst))
__CPROVER_ensures(DEFINED(cst[m_j]))
__CPROVER_ensures((__CPROVER_old(cst[m_j]) == ZERO || __CPROVER_old(cst[m_j]) == BASIC) ==> cst[m_j] == __CPROVER_old(cst[m_j]))
__CPROVER_ensures(__CPROVER_old(cst[m_j]) == ON_LOWER ==> (cst[m_j] == ON_LOWER || cst[m_j] == BASIC))
__CPROVER_ensures(__CPROVER_old(cst[m_j]) == ON_UPPER ==> (cst[m_j] == ON_UPPER || cst[m_j] == BASIC))
__CPROVER_ensures(__CPROVER_old(cst[m_j]) == FIXED ==> cst[m_j] != ZERO)
__CPROVER_ensures(g_kc != m_j ==> cst[g_kc] == v_cs)                                  /* (c) */
#ifdef CLAUSE_CARD
__CPROVER_ensures(B(cst[m_j]) == B(__CPROVER_old(cst[m_j])))                          /* (a) pure bound step: delta 0 */
#endif
;
void h_TightenBounds(void)
{
   PS_LOCALS; int m_j; double m_origupper, m_origlower;
   havoc_ghosts();
   w_TightenBounds(PS_ARGS, m_j, m_origupper, m_origlower);
   CANARY();
}
#endif

/* ------------------------------------------------------------------------------------------- */
#ifdef INST_RowSingleton
/* re-inserts singleton row m_i (only column m_j).  Either the row becomes BASIC (dual = row objective) or it
 * takes over a bound of x_j and x_j becomes BASIC (reduced cost 0): exactly one more BASIC entry. */
void w_RowSingleton(PS_PARAMS, int m_i, int m_old_i, int m_j, double m_lhs, double m_rhs, int m_strictLo, int m_strictUp,
                    int m_maxSense, double m_obj, int* col_idx, double* col_val, int col_n, double m_newLo, double m_newUp,
                    double m_oldLo, double m_oldUp, double m_row_obj)
__CPROVER_requires(PS_WF && ROW_SHIFT_REQ && 0 <= m_j && m_j < nC && SV_WF(col_idx, col_val, col_n) && g_n == col_n)
__CPROVER_requires(DEFINED(cst[m_j]))          /* UNDEFINED would fall through `default: break;` and leave the new row's status stale */
__CPROVER_requires(GHOST_COL && GHOST_ROW)
__CPROVER_assigns(GP_ALL, W(y), W(s), W(r), W(cst), W(rst))
__CPROVER_ensures(ROW_DELTA + B(cst[m_j]) - B(__CPROVER_old(cst[m_j])) == 1)                 /* (a) */
__CPROVER_ensures(ROW_SHIFT_UNDO)                                                            /* (b) */
__CPROVER_ensures(rst[m_i] == BASIC ==> SAME(y[m_i], m_row_obj))                             /* (d) */
__CPROVER_ensures(cst[m_j] == BASIC ==> r[m_j] == 0.0)
__CPROVER_ensures(DEFINED(rst[m_i]) && DEFINED(cst[m_j]))
__CPROVER_ensures(rst[m_i] != BASIC ==> ((rst[m_i] == ON_LOWER || rst[m_i] == ON_UPPER) && cst[m_j] == BASIC && __CPROVER_old(cst[m_j]) != BASIC))
__CPROVER_ensures((__CPROVER_old(cst[m_j]) == ZERO || __CPROVER_old(cst[m_j]) == BASIC) ==> (cst[m_j] == __CPROVER_old(cst[m_j]) && rst[m_i] == BASIC))
__CPROVER_ensures((g_kr != m_i && g_kr != m_old_i) ==> ROW_UNCHANGED)                        /* (c) */
__CPROVER_ensures(g_kc != m_j ==> COL_UNCHANGED)
__CPROVER_ensures(SAME(x[g_kc], v_x))
;
void h_RowSingleton(void)
{
   PS_LOCALS; int m_i, m_old_i, m_j, m_strictLo, m_strictUp, m_maxSense, col_n; double m_lhs, m_rhs, m_obj, m_newLo, m_newUp, m_oldLo, m_oldUp, m_row_obj;
   int* col_idx; double* col_val;
   havoc_ghosts();
   w_RowSingleton(PS_ARGS, m_i, m_old_i, m_j, m_lhs, m_rhs, m_strictLo, m_strictUp, m_maxSense, m_obj, col_idx, col_val, col_n, m_newLo, m_newUp,
                  m_oldLo, m_oldUp, m_row_obj);
   CANARY();
}
#endif

/* ------------------------------------------------------------------------------------------- */
#ifdef INST_FixVariable
/* re-inserts the fixed column m_j as a NON-BASIC column (FIXED / ON_LOWER / ON_UPPER / ZERO): delta 0.
 * m_correctIdx == false: the index shift was already undone by another step (e.g. the FixVariablePS of a
 * duplicate column), only the entry m_j is rewritten. */
void w_FixVariable(PS_PARAMS, int m_j, int m_old_j, double m_val, double m_obj, double m_lower, double m_upper, int m_correctIdx,
                   int* col_idx, double* col_val, int col_n)
__CPROVER_requires(PS_WF && COL_SHIFT_REQ && SV_WF(col_idx, col_val, col_n) && g_n == col_n)
__CPROVER_requires(GHOST_COL && GHOST_ROW && g_out == (SV_HAS(col_idx, col_n, g_kr) ? 1 : 0))
__CPROVER_assigns(GP_ALL, gp_i1, W(x), W(s), W(r), W(cst))
__CPROVER_ensures(NONBASIC(cst[m_j]))                                                        /* (a),(d) */
__CPROVER_ensures(m_correctIdx ==> COL_DELTA == 0)
__CPROVER_ensures(m_correctIdx ==> COL_SHIFT_UNDO)                                           /* (b) */
__CPROVER_ensures((m_lower == m_upper) == (cst[m_j] == FIXED))
__CPROVER_ensures(SAME(x[m_j], m_val))
__CPROVER_ensures((g_kc != m_j && (g_kc != m_old_j || !m_correctIdx)) ==> COL_UNCHANGED)    /* (c) */
__CPROVER_ensures(SAME(y[g_kr], v_y) && rst[g_kr] == v_rs)
__CPROVER_ensures(!SV_HAS(col_idx, col_n, g_kr) ==> SAME(s[g_kr], v_s))
;
void h_FixVariable(void)
{
   PS_LOCALS; int m_j, m_old_j, m_correctIdx, col_n; double m_val, m_obj, m_lower, m_upper; int* col_idx; double* col_val;
   havoc_ghosts();
   w_FixVariable(PS_ARGS, m_j, m_old_j, m_val, m_obj, m_lower, m_upper, m_correctIdx, col_idx, col_val, col_n);
   CANARY();
}
#endif
