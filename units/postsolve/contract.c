/* C08 (postsolve) / C04 (basis cardinality): contracts of the SPxMainSM<R>::*PS::execute steps.
 *
 * Model of the data: x, r, cst are the primal, reduced-cost and column-status arrays (nC entries), y, s, rst
 * the dual, slack and row-status arrays (nR entries) that SPxMainSM::unsimplify hands to every step; they have
 * the dimensions of the ORIGINAL LP, the reduced LP occupies a prefix.  A step that re-inserts row m_i first
 * moves the entries found at m_i back to m_old_i (the row that had been moved into the hole when m_i was
 * removed), likewise for columns.
 *
 * Clauses per step (DESIGN.md C08):
 *  (a) basis cardinality as a local delta over the touched status entries, for every branch outcome;
 *  (b) index-shift undo;  (c) frame (ghost row g_kr / ghost column g_kc; vectors that are not in the assigns
 *  clause are never written at all; all accesses in bounds via the container models);
 *  (d) exact complementary facts (row made BASIC => y == row objective; column made BASIC => r == 0; no
 *  status left UNDEFINED).
 * The tolerance comparisons (EQrel, isZero, ...) are arbitrary booleans, so every clause holds whatever
 * they answer.  Values computed by floating-point algebra (x, s, y, r of the re-inserted row/column) are
 * not specified except where the code stores a constant or a copy. */
#include "ps_contract.h"

/* ------------------------------------------------------------------------------------------- */
#ifdef INST_RowObj
/* Undo of "row objective -> extra slack column m_j (+1 in row m_i), row range [0,0]".  The extra columns
 * are cut off the end of the vectors after the last step, so the column must end up non-basic and the
 * row inherits its status with the bound flipped (x_j = -activity).  Pre: not both basic (the two basis
 * columns would both be +-e_i: singular) - the code asserts the same. */
#define FLIP(e) ((e) == ON_UPPER ? ON_LOWER : (e) == ON_LOWER ? ON_UPPER : (e))
void w_RowObj(PS_PARAMS, int m_i, int m_j)
__CPROVER_requires(PS_WF && 0 <= m_i && m_i < nR && 0 <= m_j && m_j < nC)
__CPROVER_requires(DEFINED(rst[m_i]) && DEFINED(cst[m_j]) && !(rst[m_i] == BASIC && cst[m_j] == BASIC))
__CPROVER_requires(GHOST_COL && GHOST_ROW)
__CPROVER_assigns(W(s), W(cst), W(rst))
/* (a) count preserved, and the column that will be cut off is not basic */
__CPROVER_ensures(B(rst[m_i]) + B(cst[m_j]) == B(__CPROVER_old(rst[m_i])) + B(__CPROVER_old(cst[m_j])))
__CPROVER_ensures(cst[m_j] != BASIC)
/* (d) exact status transfer */
__CPROVER_ensures(__CPROVER_old(rst[m_i]) != BASIC ==> (cst[m_j] == ZERO && rst[m_i] == FLIP(__CPROVER_old(cst[m_j]))))
__CPROVER_ensures(__CPROVER_old(rst[m_i]) == BASIC ==> (cst[m_j] == __CPROVER_old(cst[m_j]) && rst[m_i] == BASIC))
__CPROVER_ensures(DEFINED(rst[m_i]) && DEFINED(cst[m_j]))
/* (c) frame */
__CPROVER_ensures(g_kr != m_i ==> ROW_UNCHANGED)
__CPROVER_ensures(g_kr == m_i ==> SAME(y[g_kr], v_y))
__CPROVER_ensures(g_kc != m_j ==> COL_UNCHANGED)
__CPROVER_ensures(g_kc == m_j ==> (SAME(x[g_kc], v_x) && SAME(r[g_kc], v_r)))
;
void h_RowObj(void)
{
   PS_LOCALS; int m_i, m_j;
   havoc_ghosts(); PS_GHOST_PTRS;
   w_RowObj(PS_ARGS, m_i, m_j);
   CANARY();
}
#endif

/* the clauses shared by all steps that re-insert row m_i (last row index m_old_i) */
#define ROW_SHIFT_REQ (0 <= m_i && m_i <= m_old_i && m_old_i < nR)
#define ROW_SHIFT_UNDO (m_i != m_old_i ==> (SAME(s[m_old_i], __CPROVER_old(s[m_i])) && SAME(y[m_old_i], __CPROVER_old(y[m_i])) \
                                            && rst[m_old_i] == __CPROVER_old(rst[m_i])))
#define COL_SHIFT_REQ (0 <= m_j && m_j <= m_old_j && m_old_j < nC)
#define COL_SHIFT_UNDO (m_j != m_old_j ==> (SAME(x[m_old_j], __CPROVER_old(x[m_j])) && SAME(r[m_old_j], __CPROVER_old(r[m_j])) \
                                            && cst[m_old_j] == __CPROVER_old(cst[m_j])))
/* number of BASIC entries among the row entries {m_i, m_old_i} after, minus before (before the step the
 * entry m_old_i is outside the reduced LP and does not count; if m_i == m_old_i neither does m_i) */
#define ROW_DELTA (B(rst[m_i]) + (m_i != m_old_i ? B(rst[m_old_i]) - B(__CPROVER_old(rst[m_i])) : 0))
#define COL_DELTA (B(cst[m_j]) + (m_j != m_old_j ? B(cst[m_old_j]) - B(__CPROVER_old(cst[m_j])) : 0))

/* ------------------------------------------------------------------------------------------- */
#ifdef INST_FreeConstraint
/* re-inserts a free row: slack = activity (float algebra, not specified), dual = row objective, BASIC */
void w_FreeConstraint(PS_PARAMS, int m_i, int m_old_i, int* row_idx, double* row_val, int row_n, double m_row_obj)
__CPROVER_requires(PS_WF && ROW_SHIFT_REQ && SV_WF(row_idx, row_val, row_n) && g_n == row_n)
__CPROVER_requires(GHOST_COL && GHOST_ROW)
__CPROVER_assigns(W(y), W(s), W(rst))
__CPROVER_ensures(ROW_DELTA == 1)                                            /* (a) one row, one more BASIC */
__CPROVER_ensures(ROW_SHIFT_UNDO)                                            /* (b) */
__CPROVER_ensures(rst[m_i] == BASIC && SAME(y[m_i], m_row_obj))              /* (d) */
__CPROVER_ensures((m_i != m_old_i && DEFINED(__CPROVER_old(rst[m_i]))) ==> DEFINED(rst[m_old_i]))
__CPROVER_ensures((g_kr != m_i && g_kr != m_old_i) ==> ROW_UNCHANGED)        /* (c) */
;
void h_FreeConstraint(void)
{
   PS_LOCALS; int m_i, m_old_i; int row_idx[CAP]; double row_val[CAP]; int row_n; double m_row_obj;
   havoc_ghosts(); PS_GHOST_PTRS;
   w_FreeConstraint(PS_ARGS, m_i, m_old_i, row_idx, row_val, row_n, m_row_obj);
   CANARY();
}
#endif

/* ------------------------------------------------------------------------------------------- */
#ifdef INST_EmptyConstraint
void w_EmptyConstraint(PS_PARAMS, int m_i, int m_old_i, double m_row_obj)
__CPROVER_requires(PS_WF && ROW_SHIFT_REQ)
__CPROVER_requires(GHOST_COL && GHOST_ROW)
__CPROVER_assigns(W(y), W(s), W(rst))
__CPROVER_ensures(ROW_DELTA == 1)                                            /* (a) */
__CPROVER_ensures(ROW_SHIFT_UNDO)                                            /* (b) */
__CPROVER_ensures(rst[m_i] == BASIC && SAME(y[m_i], m_row_obj) && s[m_i] == 0.0)   /* (d) */
__CPROVER_ensures((m_i != m_old_i && DEFINED(__CPROVER_old(rst[m_i]))) ==> DEFINED(rst[m_old_i]))
__CPROVER_ensures((g_kr != m_i && g_kr != m_old_i) ==> ROW_UNCHANGED)        /* (c) */
;
void h_EmptyConstraint(void)
{
   PS_LOCALS; int m_i, m_old_i; double m_row_obj;
   havoc_ghosts(); PS_GHOST_PTRS;
   w_EmptyConstraint(PS_ARGS, m_i, m_old_i, m_row_obj);
   CANARY();
}
#endif

/* ------------------------------------------------------------------------------------------- */
#ifdef INST_FixBounds
/* restores the status of a column whose bounds had been fixed to one value.  Call sites (spxmainsm.hpp):
 * every `new FixBoundsPS` is followed by fixColumn()/FixVariablePS for the same column, which postsolve
 * executes FIRST and which leaves the column non-basic; the constructor stores one of the four non-basic
 * statuses in m_status or throws. */
void w_FixBounds(PS_PARAMS, int m_j, int m_status)
__CPROVER_requires(PS_WF && 0 <= m_j && m_j < nC && NONBASIC(m_status) && NONBASIC(cst[m_j]))
__CPROVER_requires(GHOST_COL && GHOST_ROW)
__CPROVER_assigns(W(cst))
__CPROVER_ensures(cst[m_j] == m_status)
__CPROVER_ensures(B(cst[m_j]) == B(__CPROVER_old(cst[m_j])) && DEFINED(cst[m_j]))   /* (a) pure bound step: delta 0 */
__CPROVER_ensures(g_kc != m_j ==> cst[g_kc] == v_cs)                                  /* (c) */
;
void h_FixBounds(void)
{
   PS_LOCALS; int m_j, m_status;
   havoc_ghosts(); PS_GHOST_PTRS;
   w_FixBounds(PS_ARGS, m_j, m_status);
   CANARY();
}
#endif

/* ------------------------------------------------------------------------------------------- */
#ifdef INST_TightenBounds
/* A column bound had been tightened (propagatePseudoobj); if x_j sits on the tightened bound strictly inside its
 * original bounds the step makes it BASIC.  Nothing is made non-basic in exchange, so clause (a) "delta 0 for a
 * pure bound step" does NOT hold for this body: with the tolerance tests arbitrary, a non-basic column can turn
 * BASIC (delta +1).  What is proved: the delta is 0 or +1, it is +1 only for a column that was ON_LOWER / ON_UPPER /
 * FIXED, a BASIC or ZERO column is never touched, no status becomes UNDEFINED, x is not written, frame.
 * (Whether unsimplify can reach the +1 case depends on values: it needs an optimal basis of the reduced LP with
 * x_j non-basic ON the tightened bound - listed under not_covered / suspected weakness.) */
void w_TightenBounds(PS_PARAMS, int m_j, double m_origupper, double m_origlower)
__CPROVER_requires(PS_WF && 0 <= m_j && m_j < nC && DEFINED(cst[m_j]))
__CPROVER_requires(GHOST_COL && GHOST_ROW)
__CPROVER_assigns(W(cst))
__CPROVER_ensures(DEFINED(cst[m_j]))
__CPROVER_ensures(B(cst[m_j]) - B(__CPROVER_old(cst[m_j])) == 0 || B(cst[m_j]) - B(__CPROVER_old(cst[m_j])) == 1)    /* (a'), see above */
__CPROVER_ensures((__CPROVER_old(cst[m_j]) == ZERO || __CPROVER_old(cst[m_j]) == BASIC) ==> cst[m_j] == __CPROVER_old(cst[m_j]))
__CPROVER_ensures(__CPROVER_old(cst[m_j]) == ON_LOWER ==> (cst[m_j] == ON_LOWER || cst[m_j] == BASIC))
__CPROVER_ensures(__CPROVER_old(cst[m_j]) == ON_UPPER ==> (cst[m_j] == ON_UPPER || cst[m_j] == BASIC))
__CPROVER_ensures(__CPROVER_old(cst[m_j]) == FIXED ==> cst[m_j] != ZERO)
__CPROVER_ensures(g_kc != m_j ==> cst[g_kc] == v_cs)                                  /* (c) */
;
void h_TightenBounds(void)
{
   PS_LOCALS; int m_j; double m_origupper, m_origlower;
   havoc_ghosts(); PS_GHOST_PTRS;
   w_TightenBounds(PS_ARGS, m_j, m_origupper, m_origlower);
   CANARY();
}
#endif

/* ------------------------------------------------------------------------------------------- */
#ifdef INST_RowSingleton
/* re-inserts singleton row m_i (only column m_j).  Either the row becomes BASIC (dual = row objective) or it
 * takes over a bound of x_j and x_j becomes BASIC (reduced cost 0): exactly one more BASIC entry. */
void w_RowSingleton(PS_PARAMS, int m_i, int m_old_i, int m_j, double m_lhs, double m_rhs, int m_strictLo, int m_strictUp,
                    int m_maxSense, double m_obj, int* col_idx, double* col_val, int col_n, double m_newLo, double m_newUp,
                    double m_oldLo, double m_oldUp, double m_row_obj)
__CPROVER_requires(PS_WF && ROW_SHIFT_REQ && 0 <= m_j && m_j < nC && SV_WF(col_idx, col_val, col_n) && g_n == col_n)
__CPROVER_requires(DEFINED(cst[m_j]))          /* UNDEFINED would fall through `default: break;` and leave the new row's status stale */
__CPROVER_requires(GHOST_COL && GHOST_ROW)
__CPROVER_assigns(W(y), W(s), W(r), W(cst), W(rst))
__CPROVER_ensures(ROW_DELTA + B(cst[m_j]) - B(__CPROVER_old(cst[m_j])) == 1)                 /* (a) */
__CPROVER_ensures(ROW_SHIFT_UNDO)                                                            /* (b) */
__CPROVER_ensures(rst[m_i] == BASIC ==> SAME(y[m_i], m_row_obj))                             /* (d) */
__CPROVER_ensures(cst[m_j] == BASIC ==> r[m_j] == 0.0)
__CPROVER_ensures(DEFINED(rst[m_i]) && DEFINED(cst[m_j]))
__CPROVER_ensures(rst[m_i] != BASIC ==> ((rst[m_i] == ON_LOWER || rst[m_i] == ON_UPPER) && cst[m_j] == BASIC && __CPROVER_old(cst[m_j]) != BASIC))
__CPROVER_ensures((__CPROVER_old(cst[m_j]) == ZERO || __CPROVER_old(cst[m_j]) == BASIC) ==> (cst[m_j] == __CPROVER_old(cst[m_j]) && rst[m_i] == BASIC))
__CPROVER_ensures((g_kr != m_i && g_kr != m_old_i) ==> ROW_UNCHANGED)                        /* (c) */
__CPROVER_ensures(g_kc != m_j ==> COL_UNCHANGED)
__CPROVER_ensures(SAME(x[g_kc], v_x))
;
void h_RowSingleton(void)
{
   PS_LOCALS; int m_i, m_old_i, m_j, m_strictLo, m_strictUp, m_maxSense, col_n; double m_lhs, m_rhs, m_obj, m_newLo, m_newUp, m_oldLo, m_oldUp, m_row_obj;
   int col_idx[CAP]; double col_val[CAP];
   havoc_ghosts(); PS_GHOST_PTRS;
   w_RowSingleton(PS_ARGS, m_i, m_old_i, m_j, m_lhs, m_rhs, m_strictLo, m_strictUp, m_maxSense, m_obj, col_idx, col_val, col_n, m_newLo, m_newUp,
                  m_oldLo, m_oldUp, m_row_obj);
   CANARY();
}
#endif

/* ------------------------------------------------------------------------------------------- */
#ifdef INST_FixVariable
/* re-inserts the fixed column m_j as a NON-BASIC column (FIXED / ON_LOWER / ON_UPPER / ZERO): delta 0.
 * m_correctIdx == false: the index shift was already undone by another step (e.g. the FixVariablePS of a
 * duplicate column), only the entry m_j is rewritten. */
void w_FixVariable(PS_PARAMS, int m_j, int m_old_j, double m_val, double m_obj, double m_lower, double m_upper, int m_correctIdx,
                   int* col_idx, double* col_val, int col_n)
__CPROVER_requires(PS_WF && COL_SHIFT_REQ && SV_WF(col_idx, col_val, col_n) && g_n == col_n)
__CPROVER_requires(GHOST_COL && GHOST_ROW && g_in == (SV_HAS(col_idx, col_n, g_kr) ? 1 : 0))
__CPROVER_assigns(W(x), W(s), W(r), W(cst))
__CPROVER_ensures(NONBASIC(cst[m_j]))                                                        /* (a),(d) */
__CPROVER_ensures(m_correctIdx ==> COL_DELTA == 0)
__CPROVER_ensures(m_correctIdx ==> COL_SHIFT_UNDO)                                           /* (b) */
__CPROVER_ensures((m_lower == m_upper) == (cst[m_j] == FIXED))
__CPROVER_ensures(SAME(x[m_j], m_val))
__CPROVER_ensures((g_kc != m_j && (g_kc != m_old_j || !m_correctIdx)) ==> COL_UNCHANGED)    /* (c) */
__CPROVER_ensures(SAME(y[g_kr], v_y) && rst[g_kr] == v_rs)
__CPROVER_ensures(!SV_HAS(col_idx, col_n, g_kr) ==> SAME(s[g_kr], v_s))
;
void h_FixVariable(void)
{
   PS_LOCALS; int m_j, m_old_j, m_correctIdx, col_n; double m_val, m_obj, m_lower, m_upper; int col_idx[CAP]; double col_val[CAP];
   havoc_ghosts(); PS_GHOST_PTRS; gp_i1 = col_idx;
   w_FixVariable(PS_ARGS, m_j, m_old_j, m_val, m_obj, m_lower, m_upper, m_correctIdx, col_idx, col_val, col_n);
   CANARY();
}
#endif

/* ------------------------------------------------------------------------------------------- */
#ifdef INST_ForceConstraint
/* re-inserts forcing row m_i.  Columns of the row that the row had fixed (status FIXED, m_fixed[k]) go back
 * to ON_LOWER/ON_UPPER (non-basic -> non-basic).  Then either one of them (g_out = cBasisCandidate, exported
 * from the body) becomes BASIC with reduced cost 0 and the row is non-basic, or the row is BASIC with
 * dual = row objective: exactly one more BASIC entry.
 * Pre (constructor): m_objs, m_fixed, m_cols, m_oldLowers, m_oldUppers have one entry per row nonzero.
 * Pre (SVector type invariant): the row's indices are pairwise distinct. */
#define COLN_OK(k) (0 <= cols_n[k] && cols_n[k] <= CAP)
void w_ForceConstraint(PS_PARAMS, int m_i, int m_old_i, double m_lRhs, int* row_idx, double* row_val, int row_n, double* objs,
                       _Bool* fixed, int* cols_idx, double* cols_val, int* cols_n, int m_lhsFixed, int m_maxSense,
                       double* oldLo, double* oldUp, double m_lhs, double m_rhs, double m_rowobj)
__CPROVER_requires(PS_WF && ROW_SHIFT_REQ && SV_WF(row_idx, row_val, row_n) && g_n == row_n && GHOST_DIMS)
__CPROVER_requires(ARR_OK(objs, CAP, double) && ARR_OK(fixed, CAP, _Bool) && ARR_OK(oldLo, CAP, double) && ARR_OK(oldUp, CAP, double)
                   && ARR_OK(cols_idx, CAP * CAP, int) && ARR_OK(cols_val, CAP * CAP, double) && ARR_OK(cols_n, CAP, int) && ALLK(COLN_OK))
__CPROVER_requires(SV_DISTINCT(row_idx, row_n))
__CPROVER_requires(GHOST_COL && GHOST_ROW && g_in == (SV_HAS(row_idx, row_n, g_kc) ? 1 : 0))
__CPROVER_assigns(g_out, W(y), W(s), W(r), W(cst), W(rst))
/* (a) */
__CPROVER_ensures(g_out == -1 || (0 <= g_out && g_out < nC))
__CPROVER_ensures(g_out == -1 ==> (rst[m_i] == BASIC && B(cst[g_kc]) == B(v_cs)))
__CPROVER_ensures(g_out >= 0 ==> ((rst[m_i] == ON_LOWER || rst[m_i] == ON_UPPER) && cst[g_out] == BASIC && r[g_out] == 0.0))
__CPROVER_ensures((g_out >= 0 && g_kc == g_out) ==> v_cs == FIXED)
__CPROVER_ensures((g_out >= 0 && g_kc != g_out) ==> B(cst[g_kc]) == B(v_cs))
__CPROVER_ensures(ROW_SHIFT_UNDO)                                                            /* (b) */
__CPROVER_ensures(rst[m_i] == BASIC ==> SAME(y[m_i], m_rowobj))                              /* (d) */
__CPROVER_ensures(SAME(s[m_i], m_lRhs))
__CPROVER_ensures(DEFINED(v_cs) ==> DEFINED(cst[g_kc]))
__CPROVER_ensures(cst[g_kc] == v_cs || (v_cs == FIXED && g_in && (cst[g_kc] == ON_LOWER || cst[g_kc] == ON_UPPER || cst[g_kc] == BASIC)))
__CPROVER_ensures((g_kr != m_i && g_kr != m_old_i) ==> ROW_UNCHANGED)                        /* (c) */
__CPROVER_ensures(!g_in ==> COL_UNCHANGED)
__CPROVER_ensures(SAME(x[g_kc], v_x))
;
void h_ForceConstraint(void)
{
   PS_LOCALS; int m_i, m_old_i, row_n, m_lhsFixed, m_maxSense; double m_lRhs, m_lhs, m_rhs, m_rowobj;
   int row_idx[CAP]; double row_val[CAP]; double objs[CAP]; _Bool fixed[CAP]; int cols_idx[CAP * CAP]; double cols_val[CAP * CAP]; int cols_n[CAP];
   double oldLo[CAP]; double oldUp[CAP];
   havoc_ghosts(); PS_GHOST_PTRS; gp_i1 = row_idx;
   w_ForceConstraint(PS_ARGS, m_i, m_old_i, m_lRhs, row_idx, row_val, row_n, objs, fixed, cols_idx, cols_val, cols_n, m_lhsFixed, m_maxSense,
                     oldLo, oldUp, m_lhs, m_rhs, m_rowobj);
   CANARY();
}
#endif

/* ------------------------------------------------------------------------------------------- */
#ifdef INST_FreeZeroObjVariable
/* re-inserts column m_j (zero objective, free in one direction) together with ALL rows it occurs in
 * (m_col, n = col_n rows, indices sorted ascending; they were removed largest index first).
 * Among the n re-inserted rows and the column exactly n entries are BASIC: either every row and the column
 * sits on its bound, or the binding row g_out (= domIdx, exported from the body) is non-basic and the column is BASIC.
 * Row index undo: for k = 0..n-1 in this order  entry[t+k] := entry[m_col.index(k)],  t = m_old_i-n+1.  Proved
 * here: every entry t+k that is not itself a re-inserted row and whose source m_col.index(k) lies below t ends
 * up with the source's old contents (one-step moves).  NOT covered: chained moves (a source that lies in the
 * tail [t, m_old_i], i.e. one of the removed rows was among the last n rows).
 * Pre (constructor/call site): m_lRhs, m_rowObj, m_rows have n entries; m_col sorted by index, indices <= m_old_i;
 * all stored row objectives are 0 (handleRowObjectives() has moved row objectives into columns before any step
 * is recorded) - with that, `y[idx] = m_rowObj[idx]` (which looks the row objective up under the ROW INDEX instead
 * of the position k, a latent slip) still yields the row objective. */
#define ROWN_OK(k) (0 <= rows_n[k] && rows_n[k] <= CAP)
#define COLIDX_OK(k) ((k) >= col_n || (0 <= col_idx[k] && col_idx[k] <= m_old_i))
#define ROBJ_ZERO(k) ((k) >= col_n || robj_val[k] == 0.0)
#define T0 (m_old_i - col_n + 1)
#define EXP_DOM_STATUS(k) (m_loFree ? (col_val[k] > 0 ? ON_UPPER : ON_LOWER) : (col_val[k] > 0 ? ON_LOWER : ON_UPPER))
void w_FreeZeroObjVariable(PS_PARAMS, int m_j, int m_old_j, int m_old_i, double m_bnd, int* col_idx, double* col_val, int col_n,
                           int* lrhs_idx, double* lrhs_val, int* robj_idx, double* robj_val,
                           int* rows_idx, double* rows_val, int* rows_n, int m_loFree)
__CPROVER_requires(PS_WF && COL_SHIFT_REQ && 0 <= m_old_i && m_old_i < nR && SV_WF(col_idx, col_val, col_n) && 1 <= col_n && 0 <= T0)
__CPROVER_requires(ARR_OK(lrhs_idx, CAP, int) && ARR_OK(lrhs_val, CAP, double) && ARR_OK(robj_idx, CAP, int) && ARR_OK(robj_val, CAP, double)
                   && ARR_OK(rows_idx, CAP * CAP, int) && ARR_OK(rows_val, CAP * CAP, double) && ARR_OK(rows_n, CAP, int) && ALLK(ROWN_OK))
__CPROVER_requires(SV_SORTED(col_idx, col_n) && ALLK(COLIDX_OK) && ALLK(ROBJ_ZERO))
__CPROVER_requires(g_n == col_n && g_n2 == T0 && GHOST_DIMS && g_a == m_j && g_b == m_old_j)
__CPROVER_requires(GHOST_COL && GHOST_ROW && g_in == (SV_HAS(col_idx, col_n, g_kr) ? 1 : 0))
__CPROVER_requires(0 <= g_k2 && g_k2 < col_n && SAME(v_s2, s[col_idx[g_k2]]) && SAME(v_y2, y[col_idx[g_k2]]) && v_rs2 == rst[col_idx[g_k2]]
                   && g_in2 == (SV_HAS(col_idx, col_n, T0 + g_k2) ? 1 : 0) && g_exp == EXP_DOM_STATUS(g_k2) && v_cs2 == cst[m_j])
__CPROVER_assigns(g_out, gp_i2, gp_i3, gp_d1, W(x), W(y), W(s), W(r), W(cst), W(rst))
/* (a),(d): n BASIC entries among the n rows and the column */
__CPROVER_ensures(-1 <= g_out && g_out < col_n)
__CPROVER_ensures(cst[m_j] == (g_out == -1 ? (m_loFree ? ON_UPPER : ON_LOWER) : BASIC) && r[m_j] == 0.0)
__CPROVER_ensures((rst[col_idx[g_k2]] == BASIC) == (g_k2 != g_out))
__CPROVER_ensures(g_k2 == g_out ==> rst[col_idx[g_k2]] == EXP_DOM_STATUS(g_k2))
__CPROVER_ensures(y[col_idx[g_k2]] == 0.0 && SAME(y[col_idx[g_k2]], robj_val[g_k2]))
/* (b) */
__CPROVER_ensures(COL_SHIFT_UNDO)
__CPROVER_ensures((col_idx[g_k2] < T0 && !g_in2) ==> (SAME(s[T0 + g_k2], v_s2) && SAME(y[T0 + g_k2], v_y2) && rst[T0 + g_k2] == v_rs2))
/* (c) */
__CPROVER_ensures((g_kr < T0 && !g_in) ==> ROW_UNCHANGED)
__CPROVER_ensures((g_kc != m_j && g_kc != m_old_j) ==> COL_UNCHANGED)
;
void h_FreeZeroObjVariable(void)
{
   PS_LOCALS; int m_j, m_old_j, m_old_i, col_n, m_loFree; double m_bnd;
   int col_idx[CAP]; double col_val[CAP]; int lrhs_idx[CAP]; double lrhs_val[CAP]; int robj_idx[CAP]; double robj_val[CAP];
   int rows_idx[CAP * CAP]; double rows_val[CAP * CAP]; int rows_n[CAP];
   havoc_ghosts(); PS_GHOST_PTRS; gp_i1 = col_idx;
   w_FreeZeroObjVariable(PS_ARGS, m_j, m_old_j, m_old_i, m_bnd, col_idx, col_val, col_n, lrhs_idx, lrhs_val, robj_idx, robj_val,
                         rows_idx, rows_val, rows_n, m_loFree);
   CANARY();
}
#endif

/* ------------------------------------------------------------------------------------------- */
#ifdef INST_ZeroObjColSingleton
/* re-inserts column m_j (zero objective, only in row m_i; the row stayed in the LP with relaxed sides): pure
 * column step, delta 0.  Either the column is non-basic at a bound / fixed / free-at-zero, or - only if the row
 * was BASIC - the column becomes BASIC and the row takes the bound.
 * Pre (call site): a_ij = m_row[m_j] is a proper nonzero; the row is not free (a free row is removed by the
 * FreeConstraintPS pushed right after), so its status is ON_LOWER, ON_UPPER, FIXED or BASIC.
 * Throws: SPxException "infinite activities" only if s[m_i] >= infinity; the internal-error throws XMAISM01/02/04
 * are unreachable; XMAISM03 (row BASIC, but neither a bound of x_j nor a finite implied bound fits) depends on
 * computed values and is allowed exactly when the row is BASIC. */
#define AIJ SV_GET(row_idx, row_val, row_n, m_j)
#define FREECOL (m_lower <= -INF && m_upper >= INF)
void w_ZeroObjColSingleton(PS_PARAMS, int m_j, int m_i, int m_old_j, double m_lhs, double m_rhs, double m_lower, double m_upper,
                           int* row_idx, double* row_val, int row_n)
__CPROVER_requires(PS_WF && COL_SHIFT_REQ && 0 <= m_i && m_i < nR && SV_WF(row_idx, row_val, row_n) && (AIJ > 0 || AIJ < 0))
__CPROVER_requires(rst[m_i] == ON_LOWER || rst[m_i] == ON_UPPER || rst[m_i] == FIXED || rst[m_i] == BASIC)
__CPROVER_requires(g_may_throw == ((s[m_i] >= INF ? 1 : 0) | (rst[m_i] == BASIC ? 2 : 0)))
__CPROVER_requires(GHOST_COL && GHOST_ROW)
__CPROVER_assigns(W(x), W(s), W(r), W(cst), W(rst))
__CPROVER_ensures(COL_DELTA + B(rst[m_i]) - B(__CPROVER_old(rst[m_i])) == 0)                 /* (a) */
__CPROVER_ensures(COL_SHIFT_UNDO)                                                            /* (b) */
__CPROVER_ensures(DEFINED(cst[m_j]) && DEFINED(rst[m_i]))                                    /* (d) */
__CPROVER_ensures(__CPROVER_old(rst[m_i]) != BASIC ==> (rst[m_i] == __CPROVER_old(rst[m_i]) && NONBASIC(cst[m_j])))
__CPROVER_ensures(cst[m_j] == BASIC ==> (__CPROVER_old(rst[m_i]) == BASIC && (rst[m_i] == ON_LOWER || rst[m_i] == ON_UPPER)))
__CPROVER_ensures(__CPROVER_old(rst[m_i]) == ON_LOWER ==> cst[m_j] == (FREECOL ? ZERO : m_lower == m_upper ? FIXED : AIJ > 0 ? ON_UPPER : ON_LOWER))
__CPROVER_ensures(__CPROVER_old(rst[m_i]) == ON_UPPER ==> cst[m_j] == (FREECOL ? ZERO : m_lower == m_upper ? FIXED : AIJ > 0 ? ON_LOWER : ON_UPPER))
__CPROVER_ensures(__CPROVER_old(rst[m_i]) == FIXED ==> cst[m_j] == (FREECOL ? ZERO : FIXED))
__CPROVER_ensures(cst[m_j] == ON_UPPER ==> SAME(x[m_j], m_upper))
__CPROVER_ensures(cst[m_j] == ON_LOWER ==> SAME(x[m_j], m_lower))
__CPROVER_ensures(cst[m_j] == ZERO ==> x[m_j] == 0.0)
__CPROVER_ensures((g_kc != m_j && g_kc != m_old_j) ==> COL_UNCHANGED)                        /* (c) */
__CPROVER_ensures(g_kr != m_i ==> ROW_UNCHANGED)
__CPROVER_ensures(SAME(y[g_kr], v_y))
;
void h_ZeroObjColSingleton(void)
{
   PS_LOCALS; int m_j, m_i, m_old_j, row_n; double m_lhs, m_rhs, m_lower, m_upper; int row_idx[CAP]; double row_val[CAP];
   havoc_ghosts(); PS_GHOST_PTRS;
   w_ZeroObjColSingleton(PS_ARGS, m_j, m_i, m_old_j, m_lhs, m_rhs, m_lower, m_upper, row_idx, row_val, row_n);
   CANARY();
}
#endif

/* ------------------------------------------------------------------------------------------- */
#ifdef INST_FreeColSingleton
/* re-inserts row m_i together with the free column singleton m_j that was substituted out: the column is BASIC
 * (reduced cost 0), the row sits on the side it was fixed to: one row, one more BASIC. */
void w_FreeColSingleton(PS_PARAMS, int m_j, int m_i, int m_old_j, int m_old_i, double m_obj, double m_lRhs, int m_onLhs, int m_eqCons,
                        int* row_idx, double* row_val, int row_n)
__CPROVER_requires(PS_WF && COL_SHIFT_REQ && ROW_SHIFT_REQ && SV_WF(row_idx, row_val, row_n) && g_n == row_n)
__CPROVER_requires(GHOST_COL && GHOST_ROW)
__CPROVER_assigns(W(x), W(y), W(s), W(r), W(cst), W(rst))
__CPROVER_ensures(ROW_DELTA + COL_DELTA == 1)                                                /* (a) */
__CPROVER_ensures(ROW_SHIFT_UNDO && COL_SHIFT_UNDO)                                          /* (b) */
__CPROVER_ensures(cst[m_j] == BASIC && r[m_j] == 0.0)                                        /* (d) */
__CPROVER_ensures(rst[m_i] == (m_eqCons ? FIXED : m_onLhs ? ON_LOWER : ON_UPPER) && SAME(s[m_i], m_lRhs))
__CPROVER_ensures((g_kr != m_i && g_kr != m_old_i) ==> ROW_UNCHANGED)                        /* (c) */
__CPROVER_ensures((g_kc != m_j && g_kc != m_old_j) ==> COL_UNCHANGED)
;
void h_FreeColSingleton(void)
{
   PS_LOCALS; int m_j, m_i, m_old_j, m_old_i, m_onLhs, m_eqCons, row_n; double m_obj, m_lRhs; int row_idx[CAP]; double row_val[CAP];
   havoc_ghosts(); PS_GHOST_PTRS;
   w_FreeColSingleton(PS_ARGS, m_j, m_i, m_old_j, m_old_i, m_obj, m_lRhs, m_onLhs, m_eqCons, row_idx, row_val, row_n);
   CANARY();
}
#endif

/* ------------------------------------------------------------------------------------------- */
#ifdef INST_MultiAggregation
/* re-inserts row m_i and the multi-aggregated column m_j: column BASIC (reduced cost 0), row non-basic, slack 0 */
void w_MultiAggregation(PS_PARAMS, int m_j, int m_i, int m_old_j, int m_old_i, double m_upper, double m_lower, double m_obj,
                        double m_const, int m_onLhs, int m_eqCons, int* row_idx, double* row_val, int row_n,
                        int* col_idx, double* col_val, int col_n)
__CPROVER_requires(PS_WF && COL_SHIFT_REQ && ROW_SHIFT_REQ && SV_WF(row_idx, row_val, row_n) && SV_WF(col_idx, col_val, col_n)
                   && g_n == row_n && g_n2 == col_n)
__CPROVER_requires(GHOST_COL && GHOST_ROW)
__CPROVER_assigns(W(x), W(y), W(s), W(r), W(cst), W(rst))
__CPROVER_ensures(ROW_DELTA + COL_DELTA == 1)                                                /* (a) */
__CPROVER_ensures(ROW_SHIFT_UNDO && COL_SHIFT_UNDO)                                          /* (b) */
__CPROVER_ensures(cst[m_j] == BASIC && r[m_j] == 0.0)                                        /* (d) */
__CPROVER_ensures(rst[m_i] == (m_eqCons ? FIXED : m_onLhs ? ON_LOWER : ON_UPPER) && s[m_i] == 0.0)
__CPROVER_ensures((g_kr != m_i && g_kr != m_old_i) ==> ROW_UNCHANGED)                        /* (c) */
__CPROVER_ensures((g_kc != m_j && g_kc != m_old_j) ==> COL_UNCHANGED)
;
void h_MultiAggregation(void)
{
   PS_LOCALS; int m_j, m_i, m_old_j, m_old_i, m_onLhs, m_eqCons, row_n, col_n; double m_upper, m_lower, m_obj, m_const;
   int row_idx[CAP]; double row_val[CAP]; int col_idx[CAP]; double col_val[CAP];
   havoc_ghosts(); PS_GHOST_PTRS;
   w_MultiAggregation(PS_ARGS, m_j, m_i, m_old_j, m_old_i, m_upper, m_lower, m_obj, m_const, m_onLhs, m_eqCons, row_idx, row_val, row_n,
                      col_idx, col_val, col_n);
   CANARY();
}
#endif

/* ------------------------------------------------------------------------------------------- */
#ifdef INST_Aggregation
/* re-inserts doubleton equation m_i and the aggregated column m_j (x_j expressed through x_act, act = the other
 * column of the row).  Row non-basic (ON_UPPER); either x_j is BASIC, or - if x_act sits on a bound that only the
 * aggregation had implied - x_act becomes BASIC and x_j goes to its own bound: one row, one more BASIC.
 * Pre (aggregateVars): the row has exactly two entries, m_j and act != m_j.
 * The internal-error throw ("unexpected basis status") depends on computed values; it is allowed exactly when
 * x_act is non-basic at a bound (ON_UPPER / ON_LOWER / FIXED), i.e. where the swap is attempted. */
#define ACT (row_idx[0] == m_j ? row_idx[1] : row_idx[0])
/* status of x_act when the step starts (its entry still sits at m_j if act is the last column) */
#define ACT_ST0 ((ACT == m_old_j && m_j != m_old_j) ? cst[m_j] : cst[ACT])
void w_Aggregation(PS_PARAMS, int m_j, int m_i, int m_old_j, int m_old_i, double m_upper, double m_lower, double m_obj,
                   double m_oldupper, double m_oldlower, double m_rhs, int* row_idx, double* row_val, int row_n,
                   int* col_idx, double* col_val, int col_n)
__CPROVER_requires(PS_WF && COL_SHIFT_REQ && ROW_SHIFT_REQ && SV_WF(row_idx, row_val, row_n) && SV_WF(col_idx, col_val, col_n) && g_n == col_n)
__CPROVER_requires(row_n == 2 && (row_idx[0] == m_j) != (row_idx[1] == m_j) && 0 <= ACT && ACT <= m_old_j)
__CPROVER_requires(g_a == ACT && g_b == m_j && GHOST_DIMS && v_cs2 == ACT_ST0 && DEFINED(v_cs2)
                   && g_may_throw == ((v_cs2 == ON_UPPER || v_cs2 == ON_LOWER || v_cs2 == FIXED) ? 2 : 0))
__CPROVER_requires(GHOST_COL && GHOST_ROW)
__CPROVER_assigns(W(x), W(y), W(s), W(r), W(cst), W(rst))
/* (a): row entries {m_i, m_old_i} and column entries {m_j, m_old_j, act} */
__CPROVER_ensures(ROW_DELTA + B(cst[m_j]) + (m_j != m_old_j && g_a != m_old_j ? B(cst[m_old_j]) - B(__CPROVER_old(cst[m_j])) : 0)
                  + B(cst[g_a]) - B(v_cs2) == 1)
__CPROVER_ensures(ROW_SHIFT_UNDO)                                                            /* (b) */
__CPROVER_ensures((m_j != m_old_j && g_a != m_old_j) ==> (SAME(x[m_old_j], __CPROVER_old(x[m_j])) && SAME(r[m_old_j], __CPROVER_old(r[m_j]))
                                                        && cst[m_old_j] == __CPROVER_old(cst[m_j])))
__CPROVER_ensures(m_j != m_old_j ==> SAME(x[m_old_j], __CPROVER_old(x[m_j])))
__CPROVER_ensures(rst[m_i] == ON_UPPER && SAME(s[m_i], m_rhs) && r[m_j] == 0.0)             /* (d) */
__CPROVER_ensures(cst[m_j] == BASIC || (NONBASIC(cst[m_j]) && cst[m_j] != FIXED && cst[g_a] == BASIC && r[g_a] == 0.0 && v_cs2 != BASIC))
__CPROVER_ensures(cst[m_j] == BASIC ==> cst[g_a] == v_cs2)
__CPROVER_ensures(DEFINED(cst[m_j]) && DEFINED(cst[g_a]))
__CPROVER_ensures((g_kr != m_i && g_kr != m_old_i) ==> ROW_UNCHANGED)                        /* (c) */
__CPROVER_ensures((g_kc != m_j && g_kc != m_old_j && g_kc != g_a) ==> COL_UNCHANGED)
;
void h_Aggregation(void)
{
   PS_LOCALS; int m_j, m_i, m_old_j, m_old_i, row_n, col_n; double m_upper, m_lower, m_obj, m_oldupper, m_oldlower, m_rhs;
   int row_idx[CAP]; double row_val[CAP]; int col_idx[CAP]; double col_val[CAP];
   havoc_ghosts(); PS_GHOST_PTRS; gp_i1 = row_idx;
   w_Aggregation(PS_ARGS, m_j, m_i, m_old_j, m_old_i, m_upper, m_lower, m_obj, m_oldupper, m_oldlower, m_rhs, row_idx, row_val, row_n,
                 col_idx, col_val, col_n);
   CANARY();
}
#endif

/* ------------------------------------------------------------------------------------------- */
#ifdef INST_DoubletonEquation
/* A column singleton x_j in a doubleton equation (row m_i: x_j, x_k) was made free by moving its bounds onto x_k.
 * No index moves.  If x_k sits (non-basic) on a bound that only came from x_j, x_k becomes BASIC (reduced cost 0)
 * and x_j goes to the corresponding bound; otherwise nothing changes: delta 0.
 * Pre (call site, simplifyCols step 5 falls through to step 6): the FreeColSingletonPS of the same x_j is pushed
 * right after this step, hence executed right before it, and leaves x_j BASIC. */
#define CH (cst[m_k] == BASIC && __CPROVER_old(cst[m_k]) != BASIC)
void w_DoubletonEquation(PS_PARAMS, int m_j, int m_k, int m_i, int m_maxSense, int m_jFixed, double m_jObj, double m_kObj, double m_aij,
                         int m_strictLo, int m_strictUp, double m_newLo, double m_newUp, double m_oldLo, double m_oldUp,
                         double m_Lo_j, double m_Up_j, double m_lhs, double m_rhs, int* col_idx, double* col_val, int col_n)
__CPROVER_requires(PS_WF && 0 <= m_j && m_j < nC && 0 <= m_k && m_k < nC && m_j != m_k && 0 <= m_i && m_i < nR
                   && SV_WF(col_idx, col_val, col_n) && g_n == col_n)
__CPROVER_requires(cst[m_j] == BASIC && DEFINED(cst[m_k]))
__CPROVER_requires(GHOST_COL && GHOST_ROW)
__CPROVER_assigns(W(y), W(r), W(cst))
__CPROVER_ensures(B(cst[m_j]) + B(cst[m_k]) == B(__CPROVER_old(cst[m_j])) + B(__CPROVER_old(cst[m_k])))     /* (a) */
__CPROVER_ensures(CH ==> ((cst[m_j] == FIXED || cst[m_j] == ON_LOWER || cst[m_j] == ON_UPPER) && r[m_k] == 0.0       /* (d) */
                          && (m_jFixed ==> cst[m_j] == FIXED) && (!m_jFixed ==> cst[m_j] != FIXED)
                          && (__CPROVER_old(cst[m_k]) == ON_LOWER || __CPROVER_old(cst[m_k]) == ON_UPPER || __CPROVER_old(cst[m_k]) == FIXED)))
__CPROVER_ensures(!CH ==> (cst[m_j] == BASIC && cst[m_k] == __CPROVER_old(cst[m_k]) && SAME(y[m_i], __CPROVER_old(y[m_i]))
                           && SAME(r[m_j], __CPROVER_old(r[m_j])) && SAME(r[m_k], __CPROVER_old(r[m_k]))))
__CPROVER_ensures((g_kc != m_j && g_kc != m_k) ==> COL_UNCHANGED)                            /* (c) */
__CPROVER_ensures(SAME(x[g_kc], v_x))
__CPROVER_ensures(g_kr != m_i ==> ROW_UNCHANGED)
__CPROVER_ensures(SAME(s[g_kr], v_s) && rst[g_kr] == v_rs)
;
void h_DoubletonEquation(void)
{
   PS_LOCALS; int m_j, m_k, m_i, m_maxSense, m_jFixed, m_strictLo, m_strictUp, col_n;
   double m_jObj, m_kObj, m_aij, m_newLo, m_newUp, m_oldLo, m_oldUp, m_Lo_j, m_Up_j, m_lhs, m_rhs; int col_idx[CAP]; double col_val[CAP];
   havoc_ghosts(); PS_GHOST_PTRS;
   w_DoubletonEquation(PS_ARGS, m_j, m_k, m_i, m_maxSense, m_jFixed, m_jObj, m_kObj, m_aij, m_strictLo, m_strictUp, m_newLo, m_newUp,
                       m_oldLo, m_oldUp, m_Lo_j, m_Up_j, m_lhs, m_rhs, col_idx, col_val, col_n);
   CANARY();
}
#endif

/* "for every i < 8: P(i)" written out; used for index maps over the solution vectors (DIM <= 8) */
#define ALL8(P) (P(0) && P(1) && P(2) && P(3) && P(4) && P(5) && P(6) && P(7))

/* ------------------------------------------------------------------------------------------- */
#ifdef INST_DuplicateCols
/* Three roles (spxmainsm.hpp duplicateCols()):
 *  m_isFirst: marker, does nothing.
 *  m_isLast (executed first): undoes the one removeCols(perm) call: entry[i] := entry[perm[i]] for i = n-1..0 where
 *    perm[i] >= 0.  Pre: perm is the order-preserving compaction map, -1 <= perm[i] <= i.  Post: every kept column i
 *    holds what perm[i] held, every other entry is unchanged.
 *  otherwise: column m_j had been merged into m_k (x_k' = x_k + scale * x_j); x_j gets a status/value, x_k may swap
 *    roles with it: delta 0 (entry m_j was stale before).  Pre: m_j != m_k, status of x_k defined.
 *    The internal-error throws (XMAISM05/06/08/09) depend on tolerance tests / computed values and are allowed
 *    exactly in the two branches that contain them (x_k ZERO or BASIC). */
#if DIM > 8
#error "DuplicateCols contract writes the permutation precondition out for at most 8 columns"
#endif
#define PERM_OK(i) ((i) >= perm_n || (-1 <= perm[i] && perm[i] <= (i)))
#define MAIN (!m_isFirst && !m_isLast)
#define OLDK __CPROVER_old(cst[m_k])
void w_DuplicateCols(PS_PARAMS, int m_j, int m_k, double m_loJ, double m_upJ, double m_loK, double m_upK, double m_scale,
                     int m_isFirst, int m_isLast, int* perm, int perm_n)
__CPROVER_requires(PS_WF && 0 <= m_j && m_j < nC && 0 <= m_k && m_k < nC && ARR_OK(perm, DIM, int) && 0 <= perm_n && perm_n <= nC && ALL8(PERM_OK))
__CPROVER_requires(MAIN ==> (m_j != m_k && DEFINED(cst[m_k])))
#ifdef PS_ONLY_MAIN        /* the two instances DuplicateCols_main / DuplicateCols_perm split the proof by role */
__CPROVER_requires(MAIN)
#endif
#ifdef PS_ONLY_PERM
__CPROVER_requires(!MAIN)
#endif
__CPROVER_requires(g_may_throw == ((MAIN && (cst[m_k] == ZERO || cst[m_k] == BASIC)) ? 2 : 0) && g_n == perm_n)
__CPROVER_requires(GHOST_COL && GHOST_ROW)
__CPROVER_requires(g_a == ((g_kc < perm_n && perm[g_kc] >= 0) ? perm[g_kc] : g_kc) && SAME(v_x2, x[g_a]) && SAME(v_r2, r[g_a]) && v_cs2 == cst[g_a])
__CPROVER_assigns(W(x), W(r), W(cst))
__CPROVER_ensures(m_isFirst ==> COL_UNCHANGED)
__CPROVER_ensures((!m_isFirst && m_isLast) ==> (SAME(x[g_kc], v_x2) && SAME(r[g_kc], v_r2) && cst[g_kc] == v_cs2))   /* (b) */
__CPROVER_ensures(MAIN ==> B(cst[m_j]) + B(cst[m_k]) == B(OLDK))                                                     /* (a) */
__CPROVER_ensures(MAIN ==> (DEFINED(cst[m_j]) && DEFINED(cst[m_k])))                                                 /* (d) */
__CPROVER_ensures((MAIN && cst[m_j] == BASIC) ==> (OLDK == BASIC && NONBASIC(cst[m_k])))
__CPROVER_ensures((MAIN && (OLDK == ON_LOWER || OLDK == ON_UPPER || OLDK == FIXED)) ==> (cst[m_k] == OLDK && NONBASIC(cst[m_j])))
__CPROVER_ensures((MAIN && OLDK == ON_LOWER) ==> (SAME(x[m_k], m_loK) && cst[m_j] == (m_loJ == m_upJ ? FIXED : m_scale > 0 ? ON_LOWER : ON_UPPER)))
__CPROVER_ensures((MAIN && OLDK == ON_UPPER) ==> (SAME(x[m_k], m_upK) && cst[m_j] == (m_loJ == m_upJ ? FIXED : m_scale > 0 ? ON_UPPER : ON_LOWER)))
__CPROVER_ensures((MAIN && OLDK == FIXED) ==> (cst[m_j] == FIXED && SAME(x[m_j], m_loJ)))
__CPROVER_ensures((MAIN && OLDK != ZERO && cst[m_j] == ON_LOWER) ==> SAME(x[m_j], m_loJ))
__CPROVER_ensures((MAIN && OLDK != ZERO && cst[m_j] == ON_UPPER) ==> SAME(x[m_j], m_upJ))
__CPROVER_ensures((MAIN && cst[m_j] == ZERO) ==> x[m_j] == 0.0)
__CPROVER_ensures((MAIN && g_kc != m_j && g_kc != m_k) ==> COL_UNCHANGED)                                            /* (c) */
;
void h_DuplicateCols(void)
{
   PS_LOCALS; int m_j, m_k, m_isFirst, m_isLast, perm_n; double m_loJ, m_upJ, m_loK, m_upK, m_scale; int perm[DIM];
   havoc_ghosts(); PS_GHOST_PTRS; gp_i1 = perm;
   w_DuplicateCols(PS_ARGS, m_j, m_k, m_loJ, m_upJ, m_loK, m_upK, m_scale, m_isFirst, m_isLast, perm, perm_n);
   CANARY();
}
#endif

/* ------------------------------------------------------------------------------------------- */
#ifdef INST_DuplicateRows
/* One step per class of duplicate (parallel) rows: m_scale lists the n rows of the class (the kept row m_i among
 * them, pairwise distinct); the other n-1 rows were removed, all classes by ONE removeRows(perm) call that the
 * step with m_isLast (executed first) undoes: entry[i] := entry[perm[i]] for i = np-1..0 where perm[i] >= 0.
 * Let r0 be the status of the kept row in the reduced LP (after that undo).  Afterwards
 *   r0 BASIC      : all n rows BASIC;
 *   r0 non-basic  : exactly one of the n rows non-basic (m_i itself, or the row that supplied the tightest side,
 *                   m_maxLhsIdx / m_minRhsIdx, in which case m_i becomes BASIC), all others BASIC;
 * i.e. the n rows carry n-1 more BASIC entries than the kept row alone did: n-1 rows re-inserted.  "All" and "at
 * most one" are stated at ghost positions g_k2, g_kc2 of m_scale; "at least one" names the three candidates.
 * Every row made BASIC gets dual = its row objective.
 * Pre (constructor): m_rowObj, m_isLhsEqualRhs parallel to m_scale; m_rowObj's entry for m_i equals m_i_rowObj
 * (both are lp.rowObj(m_i)); perm is the order-preserving compaction map (-1 <= perm[i] <= i) and keeps m_i. */
#if DIM > 8
#error "DuplicateRows contract writes the permutation precondition out for at most 8 rows"
#endif
#define PERM_OK(i) ((i) >= perm_n || (-1 <= perm[i] && perm[i] <= (i)))
#define SRC(i) ((m_isLast && (i) < perm_n && perm[i] >= 0) ? perm[i] : (i))
#define RP rst[scale_idx[g_k2]]
#define RQ rst[scale_idx[g_kc2]]
#define CAND(m) (0 <= (m) && (m) < nR && (m) != m_i && SV_HAS(scale_idx, scale_n, m) && rst[m] != BASIC)
#define SCALEIDX_OK(k) ((k) >= scale_n || (0 <= scale_idx[k] && scale_idx[k] < nR))
void w_DuplicateRows(PS_PARAMS, int m_i, double m_i_rowObj, int m_maxLhsIdx, int m_minRhsIdx, int m_maxSense, int m_isFirst,
                     int m_isLast, int m_fixed, int m_nCols, int* scale_idx, double* scale_val, int scale_n,
                     int* robj_idx, double* robj_val, int* rIdxLocalOld, int* perm, int perm_n, _Bool* isLhsEqualRhs)
__CPROVER_requires(PS_WF && 0 <= m_i && m_i < nR && SV_WF(scale_idx, scale_val, scale_n) && SV_WF(robj_idx, robj_val, scale_n)
                   && ARR_OK(rIdxLocalOld, CAP, int) && ARR_OK(isLhsEqualRhs, CAP, _Bool) && ARR_OK(perm, DIM, int))
__CPROVER_requires(1 <= scale_n && SV_DISTINCT(scale_idx, scale_n) && SV_HAS(scale_idx, scale_n, m_i) && ALLK(SCALEIDX_OK) && GHOST_DIMS)
__CPROVER_requires(0 <= perm_n && perm_n <= nR && ALL8(PERM_OK) && (m_isLast ==> (m_i < perm_n && perm[m_i] >= 0)))
__CPROVER_requires(SAME(SV_GET(scale_idx, robj_val, scale_n, m_i), m_i_rowObj) && SAME(v_x2, m_i_rowObj))
__CPROVER_requires(g_n == scale_n && g_n2 == perm_n && g_a == m_i && g_c == m_maxLhsIdx && g_d == m_minRhsIdx && g_e == SRC(m_i)
                   && v_rs2 == rst[g_e] && DEFINED(v_rs2))
__CPROVER_requires(GHOST_COL && GHOST_ROW && g_in == (SV_HAS(scale_idx, scale_n, g_kr) ? 1 : 0)
                   && g_b == SRC(g_kr) && SAME(v_y2, y[g_b]) && SAME(v_s2, s[g_b]) && v_rs3 == rst[g_b])
__CPROVER_requires(0 <= g_k2 && g_k2 < scale_n && 0 <= g_kc2 && g_kc2 < scale_n)
__CPROVER_assigns(W(y), W(s), W(rst))
/* (a) */
__CPROVER_ensures(v_rs2 == BASIC ==> RP == BASIC)
__CPROVER_ensures((v_rs2 != BASIC && g_k2 != g_kc2 && RP != BASIC) ==> RQ == BASIC)
__CPROVER_ensures(v_rs2 != BASIC ==> (rst[m_i] != BASIC || CAND(m_maxLhsIdx) || CAND(m_minRhsIdx)))
/* (d) */
__CPROVER_ensures(RP == BASIC ==> SAME(y[scale_idx[g_k2]], robj_val[g_k2]))
__CPROVER_ensures(DEFINED(RP))
__CPROVER_ensures((RP != BASIC && scale_idx[g_k2] != m_i) ==> (RP == FIXED || RP == ON_LOWER || RP == ON_UPPER))
/* (b),(c): rows outside the class hold what their source position held (perm undo), or are unchanged */
__CPROVER_ensures(!g_in ==> (SAME(y[g_kr], v_y2) && SAME(s[g_kr], v_s2) && rst[g_kr] == v_rs3))
;
void h_DuplicateRows(void)
{
   PS_LOCALS; int m_i, m_maxLhsIdx, m_minRhsIdx, m_maxSense, m_isFirst, m_isLast, m_fixed, m_nCols, scale_n, perm_n; double m_i_rowObj;
   int scale_idx[CAP]; double scale_val[CAP]; int robj_idx[CAP]; double robj_val[CAP]; int rIdxLocalOld[CAP]; int perm[DIM]; _Bool isLhsEqualRhs[CAP];
   havoc_ghosts(); PS_GHOST_PTRS; gp_i1 = scale_idx; gp_i2 = perm; gp_d1 = robj_val;
   w_DuplicateRows(PS_ARGS, m_i, m_i_rowObj, m_maxLhsIdx, m_minRhsIdx, m_maxSense, m_isFirst, m_isLast, m_fixed, m_nCols,
                   scale_idx, scale_val, scale_n, robj_idx, robj_val, rIdxLocalOld, perm, perm_n, isLhsEqualRhs);
   CANARY();
}
#endif
