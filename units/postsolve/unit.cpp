/* C08/C04: the postsolve steps SPxMainSM<R>::*PS::execute (src/soplex/spxmainsm.hpp), R = double.
 * Every body() below is the verbatim slice of the real execute(); each host struct replicates the data
 * members of the real nested class (spxmainsm.h, conformance-checked by regex) with DSVectorBase /
 * DataArray / Array members replaced by the models of stubs/containers.h and stubs/svec_ext.h.
 * `const` qualifiers of the members are dropped (the wrapper has to fill them in; body() is const, so
 * the body still cannot write them). */
#include "ps_common.h"

extern "C" { extern int g_out; extern int g_out2; extern int* gp_i1; extern int* gp_i2; extern double* gp_d1; }

/* ------------------------------------------------------------------------------------------- */
#ifdef INST_RowObj
struct H : PostStepHost
{
   int m_i; int m_j;
   void body() const
   {
      PS_PROLOGUE
#include "RowObjPS.inc"
   }
};
extern "C" void w_RowObj(PS_PARAMS, int m_i, int m_j)
{
   H h; PS_BIND(h) h.m_i = m_i; h.m_j = m_j;
   h.body();
}
#endif

/* ------------------------------------------------------------------------------------------- */
#ifdef INST_FreeConstraint
struct H : PostStepHost
{
   int m_i; int m_old_i; DSVectorBase<R> m_row; R m_row_obj;
   void body() const
   {
      PS_PROLOGUE
#include "FreeConstraintPS.inc"
   }
};
extern "C" void w_FreeConstraint(PS_PARAMS, int m_i, int m_old_i, int* row_idx, double* row_val, int row_n, double m_row_obj)
{
   H h; PS_BIND(h) h.m_i = m_i; h.m_old_i = m_old_i; h.m_row_obj = m_row_obj;
   PS_SVEC(h.m_row, row_idx, row_val, row_n, nC)
   h.body();
}
#endif

/* ------------------------------------------------------------------------------------------- */
#ifdef INST_EmptyConstraint
struct H : PostStepHost
{
   int m_i; int m_old_i; R m_row_obj;
   void body() const
   {
      PS_PROLOGUE
#include "EmptyConstraintPS.inc"
   }
};
extern "C" void w_EmptyConstraint(PS_PARAMS, int m_i, int m_old_i, double m_row_obj)
{
   H h; PS_BIND(h) h.m_i = m_i; h.m_old_i = m_old_i; h.m_row_obj = m_row_obj;
   h.body();
}
#endif

/* ------------------------------------------------------------------------------------------- */
#ifdef INST_FixBounds
struct H : PostStepHost
{
   int m_j; VarStatus m_status;
   void body() const
   {
      PS_PROLOGUE
#include "FixBoundsPS.inc"
   }
};
extern "C" void w_FixBounds(PS_PARAMS, int m_j, int m_status)
{
   H h; PS_BIND(h) h.m_j = m_j; h.m_status = (VarStatus)m_status;
   h.body();
}
#endif

/* ------------------------------------------------------------------------------------------- */
#ifdef INST_TightenBounds
struct H : PostStepHost
{
   int m_j; R m_origupper; R m_origlower;
   void body() const
   {
      PS_PROLOGUE
#include "TightenBoundsPS.inc"
   }
};
extern "C" void w_TightenBounds(PS_PARAMS, int m_j, double m_origupper, double m_origlower)
{
   H h; PS_BIND(h) h.m_j = m_j; h.m_origupper = m_origupper; h.m_origlower = m_origlower;
   h.body();
}
#endif
