/* C08/C04: the postsolve steps SPxMainSM<R>::*PS::execute (src/soplex/spxmainsm.hpp), R = double.
 * Every body() below is the verbatim slice of the real execute(); each host struct replicates the data
 * members of the real nested class (spxmainsm.h, conformance-checked by regex) with DSVectorBase /
 * DataArray / Array members replaced by the models of stubs/containers.h and stubs/svec_ext.h.
 * `const` qualifiers of the members are dropped (the wrapper has to fill them in; body() is const, so
 * the body still cannot write them). */
#include "ps_common.h"

extern "C" { extern int g_out; extern int g_out2; extern int* gp_i1; extern int* gp_i2; extern double* gp_d1; }

/* ------------------------------------------------------------------------------------------- */
#ifdef INST_RowObj
struct H : PostStepHost
{
   int m_i; int m_j;
   void body() const
   {
      PS_PROLOGUE
#include "RowObjPS.inc"
   }
};
extern "C" void w_RowObj(PS_PARAMS, int m_i, int m_j)
{
   H h; PS_BIND(h) h.m_i = m_i; h.m_j = m_j;
   h.body();
}
#endif

/* ------------------------------------------------------------------------------------------- */
#ifdef INST_FreeConstraint
struct H : PostStepHost
{
   int m_i; int m_old_i; DSVectorBase<R> m_row; R m_row_obj;
   void body() const
   {
      PS_PROLOGUE
#include "FreeConstraintPS.inc"
   }
};
extern "C" void w_FreeConstraint(PS_PARAMS, int m_i, int m_old_i, int* row_idx, double* row_val, int row_n, double m_row_obj)
{
   H h; PS_BIND(h) h.m_i = m_i; h.m_old_i = m_old_i; h.m_row_obj = m_row_obj;
   PS_SVEC(h.m_row, row_idx, row_val, row_n, nC)
   h.body();
}
#endif

/* ------------------------------------------------------------------------------------------- */
#ifdef INST_EmptyConstraint
struct H : PostStepHost
{
   int m_i; int m_old_i; R m_row_obj;
   void body() const
   {
      PS_PROLOGUE
#include "EmptyConstraintPS.inc"
   }
};
extern "C" void w_EmptyConstraint(PS_PARAMS, int m_i, int m_old_i, double m_row_obj)
{
   H h; PS_BIND(h) h.m_i = m_i; h.m_old_i = m_old_i; h.m_row_obj = m_row_obj;
   h.body();
}
#endif

/* ------------------------------------------------------------------------------------------- */
#ifdef INST_FixBounds
struct H : PostStepHost
{
   int m_j; VarStatus m_status;
   void body() const
   {
      PS_PROLOGUE
#include "FixBoundsPS.inc"
   }
};
extern "C" void w_FixBounds(PS_PARAMS, int m_j, int m_status)
{
   H h; PS_BIND(h) h.m_j = m_j; h.m_status = (VarStatus)m_status;
   h.body();
}
#endif

/* ------------------------------------------------------------------------------------------- */
#ifdef INST_TightenBounds
struct H : PostStepHost
{
   int m_j; R m_origupper; R m_origlower;
   void body() const
   {
      PS_PROLOGUE
#include "TightenBoundsPS.inc"
   }
};
extern "C" void w_TightenBounds(PS_PARAMS, int m_j, double m_origupper, double m_origlower)
{
   H h; PS_BIND(h) h.m_j = m_j; h.m_origupper = m_origupper; h.m_origlower = m_origlower;
   h.body();
}
#endif

/* ------------------------------------------------------------------------------------------- */
#ifdef INST_RowSingleton
struct H : PostStepHost
{
   int m_i; int m_old_i; int m_j; R m_lhs; R m_rhs; bool m_strictLo; bool m_strictUp; bool m_maxSense; R m_obj;
   DSVectorBase<R> m_col; R m_newLo; R m_newUp; R m_oldLo; R m_oldUp; R m_row_obj;
   void body() const
   {
      PS_PROLOGUE
#include "RowSingletonPS.inc"
   }
};
extern "C" void w_RowSingleton(PS_PARAMS, int m_i, int m_old_i, int m_j, double m_lhs, double m_rhs, int m_strictLo, int m_strictUp,
                               int m_maxSense, double m_obj, int* col_idx, double* col_val, int col_n, double m_newLo, double m_newUp,
                               double m_oldLo, double m_oldUp, double m_row_obj)
{
   H h; PS_BIND(h) h.m_i = m_i; h.m_old_i = m_old_i; h.m_j = m_j; h.m_lhs = m_lhs; h.m_rhs = m_rhs; h.m_strictLo = m_strictLo != 0;
   h.m_strictUp = m_strictUp != 0; h.m_maxSense = m_maxSense != 0; h.m_obj = m_obj; h.m_newLo = m_newLo; h.m_newUp = m_newUp;
   h.m_oldLo = m_oldLo; h.m_oldUp = m_oldUp; h.m_row_obj = m_row_obj;
   PS_SVEC(h.m_col, col_idx, col_val, col_n, nR)
   h.body();
}
#endif

/* ------------------------------------------------------------------------------------------- */
#ifdef INST_FixVariable
struct H : PostStepHost
{
   int m_j; int m_old_j; R m_val; R m_obj; R m_lower; R m_upper; bool m_correctIdx; DSVectorBase<R> m_col;
   void body() const
   {
      PS_PROLOGUE
#include "FixVariablePS.inc"
   }
};
extern "C" void w_FixVariable(PS_PARAMS, int m_j, int m_old_j, double m_val, double m_obj, double m_lower, double m_upper, int m_correctIdx,
                              int* col_idx, double* col_val, int col_n)
{
   H h; PS_BIND(h) h.m_j = m_j; h.m_old_j = m_old_j; h.m_val = m_val; h.m_obj = m_obj; h.m_lower = m_lower; h.m_upper = m_upper;
   h.m_correctIdx = m_correctIdx != 0;
   PS_SVEC(h.m_col, col_idx, col_val, col_n, nR)
   gp_i1 = col_idx;
   h.body();
}
#endif
