/* C08/C04: the postsolve steps SPxMainSM<R>::*PS::execute (src/soplex/spxmainsm.hpp), R = double.
 * Every body() below is the verbatim slice of the real execute(); each host struct replicates the data
 * members of the real nested class (spxmainsm.h, conformance-checked by regex) with DSVectorBase /
 * DataArray / Array members replaced by the models of stubs/containers.h and stubs/svec_ext.h.
 * `const` qualifiers of the members are dropped (the wrapper has to fill them in; body() is const, so
 * the body still cannot write them). */
extern "C" { extern int g_out; extern int g_out2; extern int g_n2; extern int* gp_i1; extern int* gp_i2; extern int* gp_i3; extern double* gp_d1; }
#ifdef INST_FreeZeroObjVariable
/* the body builds a local DSVectorBase `slack`; export aliases to its size and inline buffers */
#define DSVEC_CTOR_HOOK(self) gp_i2 = &(self)->used; gp_i3 = (self)->buf_i; gp_d1 = (self)->buf_v;
#endif
#include "ps_common.h"

/* ------------------------------------------------------------------------------------------- */
#ifdef INST_RowObj
struct H : PostStepHost
{
   int m_i; int m_j;
   void body() const
   {
      PS_PROLOGUE
#include "RowObjPS.inc"
   }
};
extern "C" void w_RowObj(PS_PARAMS, int m_i, int m_j)
{
   H h; PS_BIND(h) h.m_i = m_i; h.m_j = m_j;
   h.body();
}
#endif

/* ------------------------------------------------------------------------------------------- */
#ifdef INST_FreeConstraint
struct H : PostStepHost
{
   int m_i; int m_old_i; DSVectorBase<R> m_row; R m_row_obj;
   void body() const
   {
      PS_PROLOGUE
#include "FreeConstraintPS.inc"
   }
};
extern "C" void w_FreeConstraint(PS_PARAMS, int m_i, int m_old_i, int* row_idx, double* row_val, int row_n, double m_row_obj)
{
   H h; PS_BIND(h) h.m_i = m_i; h.m_old_i = m_old_i; h.m_row_obj = m_row_obj;
   PS_SVEC(h.m_row, row_idx, row_val, row_n, nC)
   h.body();
}
#endif

/* ------------------------------------------------------------------------------------------- */
#ifdef INST_EmptyConstraint
struct H : PostStepHost
{
   int m_i; int m_old_i; R m_row_obj;
   void body() const
   {
      PS_PROLOGUE
#include "EmptyConstraintPS.inc"
   }
};
extern "C" void w_EmptyConstraint(PS_PARAMS, int m_i, int m_old_i, double m_row_obj)
{
   H h; PS_BIND(h) h.m_i = m_i; h.m_old_i = m_old_i; h.m_row_obj = m_row_obj;
   h.body();
}
#endif

/* ------------------------------------------------------------------------------------------- */
#ifdef INST_FixBounds
struct H : PostStepHost
{
   int m_j; VarStatus m_status;
   void body() const
   {
      PS_PROLOGUE
#include "FixBoundsPS.inc"
   }
};
extern "C" void w_FixBounds(PS_PARAMS, int m_j, int m_status)
{
   H h; PS_BIND(h) h.m_j = m_j; h.m_status = (VarStatus)m_status;
   h.body();
}
#endif

/* ------------------------------------------------------------------------------------------- */
#ifdef INST_TightenBounds
struct H : PostStepHost
{
   int m_j; R m_origupper; R m_origlower;
   void body() const
   {
      PS_PROLOGUE
#include "TightenBoundsPS.inc"
   }
};
extern "C" void w_TightenBounds(PS_PARAMS, int m_j, double m_origupper, double m_origlower)
{
   H h; PS_BIND(h) h.m_j = m_j; h.m_origupper = m_origupper; h.m_origlower = m_origlower;
   h.body();
}
#endif

/* ------------------------------------------------------------------------------------------- */
#ifdef INST_RowSingleton
struct H : PostStepHost
{
   int m_i; int m_old_i; int m_j; R m_lhs; R m_rhs; bool m_strictLo; bool m_strictUp; bool m_maxSense; R m_obj;
   DSVectorBase<R> m_col; R m_newLo; R m_newUp; R m_oldLo; R m_oldUp; R m_row_obj;
   void body() const
   {
      PS_PROLOGUE
#include "RowSingletonPS.inc"
   }
};
extern "C" void w_RowSingleton(PS_PARAMS, int m_i, int m_old_i, int m_j, double m_lhs, double m_rhs, int m_strictLo, int m_strictUp,
                               int m_maxSense, double m_obj, int* col_idx, double* col_val, int col_n, double m_newLo, double m_newUp,
                               double m_oldLo, double m_oldUp, double m_row_obj)
{
   H h; PS_BIND(h) h.m_i = m_i; h.m_old_i = m_old_i; h.m_j = m_j; h.m_lhs = m_lhs; h.m_rhs = m_rhs; h.m_strictLo = m_strictLo != 0;
   h.m_strictUp = m_strictUp != 0; h.m_maxSense = m_maxSense != 0; h.m_obj = m_obj; h.m_newLo = m_newLo; h.m_newUp = m_newUp;
   h.m_oldLo = m_oldLo; h.m_oldUp = m_oldUp; h.m_row_obj = m_row_obj;
   PS_SVEC(h.m_col, col_idx, col_val, col_n, nR)
   h.body();
}
#endif

/* ------------------------------------------------------------------------------------------- */
#ifdef INST_FixVariable
struct H : PostStepHost
{
   int m_j; int m_old_j; R m_val; R m_obj; R m_lower; R m_upper; bool m_correctIdx; DSVectorBase<R> m_col;
   void body() const
   {
      PS_PROLOGUE
#include "FixVariablePS.inc"
   }
};
extern "C" void w_FixVariable(PS_PARAMS, int m_j, int m_old_j, double m_val, double m_obj, double m_lower, double m_upper, int m_correctIdx,
                              int* col_idx, double* col_val, int col_n)
{
   H h; PS_BIND(h) h.m_j = m_j; h.m_old_j = m_old_j; h.m_val = m_val; h.m_obj = m_obj; h.m_lower = m_lower; h.m_upper = m_upper;
   h.m_correctIdx = m_correctIdx != 0;
   PS_SVEC(h.m_col, col_idx, col_val, col_n, nR)
   h.body();
}
#endif

/* array of CAP sparse vectors laid out in two flat arrays (vector k = cells [k*CAP, k*CAP + n[k])), built
 * without a loop (harness/wrapper loops would need contracts); CAP <= 8 */
#define PS_SV1(a, k, fi, fv, fn, bnd) if(k < CAP) { PS_SVEC(a[k], fi + k * CAP, fv + k * CAP, fn[k], bnd) }
#define PS_SVARR(a, fi, fv, fn, bnd) \
   PS_SV1(a, 0, fi, fv, fn, bnd) PS_SV1(a, 1, fi, fv, fn, bnd) PS_SV1(a, 2, fi, fv, fn, bnd) PS_SV1(a, 3, fi, fv, fn, bnd) \
   PS_SV1(a, 4, fi, fv, fn, bnd) PS_SV1(a, 5, fi, fv, fn, bnd) PS_SV1(a, 6, fi, fv, fn, bnd) PS_SV1(a, 7, fi, fv, fn, bnd)

/* ------------------------------------------------------------------------------------------- */
#ifdef INST_ForceConstraint
struct H : PostStepHost
{
   int m_i; int m_old_i; R m_lRhs; DSVectorBase<R> m_row; Array<R> m_objs; DataArray<bool> m_fixed; Array<DSVectorBase<R> > m_cols;
   bool m_lhsFixed; bool m_maxSense; Array<R> m_oldLowers; Array<R> m_oldUppers; R m_lhs; R m_rhs; R m_rowobj;
   void body() const
   {
      PS_PROLOGUE
#include "ForceConstraintPS.inc"
      g_out = cBasisCandidate;      /* ghost export of a body local for the postcondition (verification only) */
   }
};
extern "C" void w_ForceConstraint(PS_PARAMS, int m_i, int m_old_i, double m_lRhs, int* row_idx, double* row_val, int row_n, double* objs,
                                  bool* fixed, int* cols_idx, double* cols_val, int* cols_n, int m_lhsFixed, int m_maxSense,
                                  double* oldLo, double* oldUp, double m_lhs, double m_rhs, double m_rowobj)
{
   H h; PS_BIND(h) h.m_i = m_i; h.m_old_i = m_old_i; h.m_lRhs = m_lRhs; h.m_lhsFixed = m_lhsFixed != 0; h.m_maxSense = m_maxSense != 0;
   h.m_lhs = m_lhs; h.m_rhs = m_rhs; h.m_rowobj = m_rowobj;
   PS_SVEC(h.m_row, row_idx, row_val, row_n, nC)
   h.m_objs.data = objs; h.m_objs.thesize = row_n; h.m_fixed.data = fixed; h.m_fixed.thesize = row_n;
   h.m_oldLowers.data = oldLo; h.m_oldLowers.thesize = row_n; h.m_oldUppers.data = oldUp; h.m_oldUppers.thesize = row_n;
   DSVectorBase<R> cols[CAP];
   PS_SVARR(cols, cols_idx, cols_val, cols_n, nR)
   h.m_cols.data = cols; h.m_cols.thesize = row_n;
   h.body();
}
#endif

/* ------------------------------------------------------------------------------------------- */
#ifdef INST_FreeZeroObjVariable
struct H : PostStepHost
{
   int m_j; int m_old_j; int m_old_i; R m_bnd; DSVectorBase<R> m_col; DSVectorBase<R> m_lRhs; DSVectorBase<R> m_rowObj;
   Array<DSVectorBase<R> > m_rows; bool m_loFree;
   void body() const
   {
      PS_PROLOGUE
#include "FreeZeroObjVariablePS.inc"
      g_out = domIdx;               /* ghost export of a body local for the postcondition (verification only) */
   }
};
extern "C" void w_FreeZeroObjVariable(PS_PARAMS, int m_j, int m_old_j, int m_old_i, double m_bnd, int* col_idx, double* col_val, int col_n,
                                      int* lrhs_idx, double* lrhs_val, int* robj_idx, double* robj_val,
                                      int* rows_idx, double* rows_val, int* rows_n, int m_loFree)
{
   H h; PS_BIND(h) h.m_j = m_j; h.m_old_j = m_old_j; h.m_old_i = m_old_i; h.m_bnd = m_bnd; h.m_loFree = m_loFree != 0;
   PS_SVEC(h.m_col, col_idx, col_val, col_n, nR)
   PS_SVEC(h.m_lRhs, lrhs_idx, lrhs_val, col_n, CAP)
   PS_SVEC(h.m_rowObj, robj_idx, robj_val, col_n, CAP)
   DSVectorBase<R> rows[CAP];
   PS_SVARR(rows, rows_idx, rows_val, rows_n, nC)
   h.m_rows.data = rows; h.m_rows.thesize = col_n;
   h.body();
}
#endif
