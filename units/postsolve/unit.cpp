/* C08/C04: the postsolve steps SPxMainSM<R>::*PS::execute (src/soplex/spxmainsm.hpp), R = double.
 * Every body() below is the verbatim slice of the real execute(); each host struct replicates the data
 * members of the real nested class (spxmainsm.h, conformance-checked by regex) with DSVectorBase /
 * DataArray / Array members replaced by the models of stubs/containers.h and stubs/svec_ext.h.
 * `const` qualifiers of the members are dropped (the wrapper has to fill them in; body() is const, so
 * the body still cannot write them). */
extern "C" { extern int g_out; extern int g_out2; extern int g_n2; extern int* gp_i1; extern int* gp_i2; extern int* gp_i3; extern double* gp_d1; }
#ifdef INST_FreeZeroObjVariable
/* the body builds a local DSVectorBase `slack`; export aliases to its size and inline buffers */
#define DSVEC_CTOR_HOOK(self) gp_i2 = &(self)->used; gp_i3 = (self)->buf_i; gp_d1 = (self)->buf_v;
#endif
#include "ps_common.h"

/* ------------------------------------------------------------------------------------------- */
#ifdef INST_RowObj
struct H : PostStepHost
{
   int m_i; int m_j;
   void body() const
   {
      PS_PROLOGUE
#include "RowObjPS.inc"
   }
};
extern "C" void w_RowObj(PS_PARAMS, int m_i, int m_j)
{
   VIN("m_i", m_i); VIN("m_j", m_j);
   H h; PS_BIND(h) h.m_i = m_i; h.m_j = m_j;
   h.body();
}
#endif

/* ------------------------------------------------------------------------------------------- */
#ifdef INST_FreeConstraint
struct H : PostStepHost
{
   int m_i; int m_old_i; DSVectorBase<R> m_row; R m_row_obj;
   void body() const
   {
      PS_PROLOGUE
#include "FreeConstraintPS.inc"
   }
};
extern "C" void w_FreeConstraint(PS_PARAMS, int m_i, int m_old_i, int* row_idx, double* row_val, int row_n, double m_row_obj)
{
   VIN("m_i", m_i); VIN("m_old_i", m_old_i); VIN("row_n", row_n); VIN("m_row_obj", m_row_obj);
   H h; PS_BIND(h) h.m_i = m_i; h.m_old_i = m_old_i; h.m_row_obj = m_row_obj;
   PS_SVEC(h.m_row, row_idx, row_val, row_n, nC)
   h.body();
}
#endif

/* ------------------------------------------------------------------------------------------- */
#ifdef INST_EmptyConstraint
struct H : PostStepHost
{
   int m_i; int m_old_i; R m_row_obj;
   void body() const
   {
      PS_PROLOGUE
#include "EmptyConstraintPS.inc"
   }
};
extern "C" void w_EmptyConstraint(PS_PARAMS, int m_i, int m_old_i, double m_row_obj)
{
   VIN("m_i", m_i); VIN("m_old_i", m_old_i); VIN("m_row_obj", m_row_obj);
   H h; PS_BIND(h) h.m_i = m_i; h.m_old_i = m_old_i; h.m_row_obj = m_row_obj;
   h.body();
}
#endif

/* ------------------------------------------------------------------------------------------- */
#ifdef INST_FixBounds
struct H : PostStepHost
{
   int m_j; VarStatus m_status;
   void body() const
   {
      PS_PROLOGUE
#include "FixBoundsPS.inc"
   }
};
extern "C" void w_FixBounds(PS_PARAMS, int m_j, int m_status)
{
   VIN("m_j", m_j); VIN("m_status", m_status);
   H h; PS_BIND(h) h.m_j = m_j; h.m_status = (VarStatus)m_status;
   h.body();
}
#endif

/* ------------------------------------------------------------------------------------------- */
#ifdef INST_TightenBounds
struct H : PostStepHost
{
   int m_j; R m_origupper; R m_origlower;
   void body() const
   {
      PS_PROLOGUE
#include "TightenBoundsPS.inc"
   }
};
extern "C" void w_TightenBounds(PS_PARAMS, int m_j, double m_origupper, double m_origlower)
{
   VIN("m_j", m_j); VIN("m_origupper", m_origupper); VIN("m_origlower", m_origlower);
   H h; PS_BIND(h) h.m_j = m_j; h.m_origupper = m_origupper; h.m_origlower = m_origlower;
   h.body();
}
#endif

/* ------------------------------------------------------------------------------------------- */
#ifdef INST_RowSingleton
struct H : PostStepHost
{
   int m_i; int m_old_i; int m_j; R m_lhs; R m_rhs; bool m_strictLo; bool m_strictUp; bool m_maxSense; R m_obj;
   DSVectorBase<R> m_col; R m_newLo; R m_newUp; R m_oldLo; R m_oldUp; R m_row_obj;
   void body() const
   {
      PS_PROLOGUE
#include "RowSingletonPS.inc"
   }
};
extern "C" void w_RowSingleton(PS_PARAMS, int m_i, int m_old_i, int m_j, double m_lhs, double m_rhs, int m_strictLo, int m_strictUp,
                               int m_maxSense, double m_obj, int* col_idx, double* col_val, int col_n, double m_newLo, double m_newUp,
                               double m_oldLo, double m_oldUp, double m_row_obj)
{
   VIN("m_i", m_i); VIN("m_old_i", m_old_i); VIN("m_j", m_j); VIN("m_lhs", m_lhs); VIN("m_rhs", m_rhs); VIN("m_strictLo", m_strictLo); VIN("m_strictUp", m_strictUp); VIN("m_maxSense", m_maxSense); VIN("m_obj", m_obj); VIN("col_n", col_n); VIN("m_newLo", m_newLo); VIN("m_newUp", m_newUp); VIN("m_oldLo", m_oldLo); VIN("m_oldUp", m_oldUp); VIN("m_row_obj", m_row_obj);
   H h; PS_BIND(h) h.m_i = m_i; h.m_old_i = m_old_i; h.m_j = m_j; h.m_lhs = m_lhs; h.m_rhs = m_rhs; h.m_strictLo = m_strictLo != 0;
   h.m_strictUp = m_strictUp != 0; h.m_maxSense = m_maxSense != 0; h.m_obj = m_obj; h.m_newLo = m_newLo; h.m_newUp = m_newUp;
   h.m_oldLo = m_oldLo; h.m_oldUp = m_oldUp; h.m_row_obj = m_row_obj;
   PS_SVEC(h.m_col, col_idx, col_val, col_n, nR)
   h.body();
}
#endif

/* ------------------------------------------------------------------------------------------- */
#ifdef INST_FixVariable
struct H : PostStepHost
{
   int m_j; int m_old_j; R m_val; R m_obj; R m_lower; R m_upper; bool m_correctIdx; DSVectorBase<R> m_col;
   void body() const
   {
      PS_PROLOGUE
#include "FixVariablePS.inc"
   }
};
extern "C" void w_FixVariable(PS_PARAMS, int m_j, int m_old_j, double m_val, double m_obj, double m_lower, double m_upper, int m_correctIdx,
                              int* col_idx, double* col_val, int col_n)
{
   VIN("m_j", m_j); VIN("m_old_j", m_old_j); VIN("m_val", m_val); VIN("m_obj", m_obj); VIN("m_lower", m_lower); VIN("m_upper", m_upper); VIN("m_correctIdx", m_correctIdx); VIN("col_n", col_n);
   H h; PS_BIND(h) h.m_j = m_j; h.m_old_j = m_old_j; h.m_val = m_val; h.m_obj = m_obj; h.m_lower = m_lower; h.m_upper = m_upper;
   h.m_correctIdx = m_correctIdx != 0;
   PS_SVEC(h.m_col, col_idx, col_val, col_n, nR)
   h.body();
}
#endif

/* array of CAP sparse vectors laid out in two flat arrays (vector k = cells [k*CAP, k*CAP + n[k])), built
 * without a loop (harness/wrapper loops would need contracts); CAP <= 8 */
#define PS_SV1(a, k, fi, fv, fn, bnd) if(k < CAP) { PS_SVEC(a[k], fi + k * CAP, fv + k * CAP, fn[k], bnd) }
#define PS_SVARR(a, fi, fv, fn, bnd) \
   PS_SV1(a, 0, fi, fv, fn, bnd) PS_SV1(a, 1, fi, fv, fn, bnd) PS_SV1(a, 2, fi, fv, fn, bnd) PS_SV1(a, 3, fi, fv, fn, bnd) \
   PS_SV1(a, 4, fi, fv, fn, bnd) PS_SV1(a, 5, fi, fv, fn, bnd) PS_SV1(a, 6, fi, fv, fn, bnd) PS_SV1(a, 7, fi, fv, fn, bnd)

/* ------------------------------------------------------------------------------------------- */
#ifdef INST_ForceConstraint
struct H : PostStepHost
{
   int m_i; int m_old_i; R m_lRhs; DSVectorBase<R> m_row; Array<R> m_objs; DataArray<bool> m_fixed; Array<DSVectorBase<R> > m_cols;
   bool m_lhsFixed; bool m_maxSense; Array<R> m_oldLowers; Array<R> m_oldUppers; R m_lhs; R m_rhs; R m_rowobj;
   void body() const
   {
      PS_PROLOGUE
#include "ForceConstraintPS.inc"
      g_out = cBasisCandidate;      /* ghost export of a body local for the postcondition (verification only) */
   }
};
extern "C" void w_ForceConstraint(PS_PARAMS, int m_i, int m_old_i, double m_lRhs, int* row_idx, double* row_val, int row_n, double* objs,
                                  bool* fixed, int* cols_idx, double* cols_val, int* cols_n, int m_lhsFixed, int m_maxSense,
                                  double* oldLo, double* oldUp, double m_lhs, double m_rhs, double m_rowobj)
{
   VIN("m_i", m_i); VIN("m_old_i", m_old_i); VIN("m_lRhs", m_lRhs); VIN("row_n", row_n); VIN("m_lhsFixed", m_lhsFixed); VIN("m_maxSense", m_maxSense); VIN("m_lhs", m_lhs); VIN("m_rhs", m_rhs); VIN("m_rowobj", m_rowobj);
   H h; PS_BIND(h) h.m_i = m_i; h.m_old_i = m_old_i; h.m_lRhs = m_lRhs; h.m_lhsFixed = m_lhsFixed != 0; h.m_maxSense = m_maxSense != 0;
   h.m_lhs = m_lhs; h.m_rhs = m_rhs; h.m_rowobj = m_rowobj;
   PS_SVEC(h.m_row, row_idx, row_val, row_n, nC)
   h.m_objs.data = objs; h.m_objs.thesize = row_n; h.m_fixed.data = fixed; h.m_fixed.thesize = row_n;
   h.m_oldLowers.data = oldLo; h.m_oldLowers.thesize = row_n; h.m_oldUppers.data = oldUp; h.m_oldUppers.thesize = row_n;
   DSVectorBase<R> cols[CAP];
   PS_SVARR(cols, cols_idx, cols_val, cols_n, nR)
   h.m_cols.data = cols; h.m_cols.thesize = row_n;
   h.body();
}
#endif

/* ------------------------------------------------------------------------------------------- */
#ifdef INST_FreeZeroObjVariable
struct H : PostStepHost
{
   int m_j; int m_old_j; int m_old_i; R m_bnd; DSVectorBase<R> m_col; DSVectorBase<R> m_lRhs; DSVectorBase<R> m_rowObj;
   Array<DSVectorBase<R> > m_rows; bool m_loFree;
   void body() const
   {
      PS_PROLOGUE
#include "FreeZeroObjVariablePS.inc"
      g_out = domIdx;               /* ghost export of a body local for the postcondition (verification only) */
   }
};
extern "C" void w_FreeZeroObjVariable(PS_PARAMS, int m_j, int m_old_j, int m_old_i, double m_bnd, int* col_idx, double* col_val, int col_n,
                                      int* lrhs_idx, double* lrhs_val, int* robj_idx, double* robj_val,
                                      int* rows_idx, double* rows_val, int* rows_n, int m_loFree)
{
   VIN("m_j", m_j); VIN("m_old_j", m_old_j); VIN("m_old_i", m_old_i); VIN("m_bnd", m_bnd); VIN("col_n", col_n); VIN("m_loFree", m_loFree);
   H h; PS_BIND(h) h.m_j = m_j; h.m_old_j = m_old_j; h.m_old_i = m_old_i; h.m_bnd = m_bnd; h.m_loFree = m_loFree != 0;
   PS_SVEC(h.m_col, col_idx, col_val, col_n, nR)
   PS_SVEC(h.m_lRhs, lrhs_idx, lrhs_val, col_n, CAP)
   PS_SVEC(h.m_rowObj, robj_idx, robj_val, col_n, CAP)
   DSVectorBase<R> rows[CAP];
   PS_SVARR(rows, rows_idx, rows_val, rows_n, nC)
   h.m_rows.data = rows; h.m_rows.thesize = col_n;
   h.body();
}
#endif

/* ------------------------------------------------------------------------------------------- */
#ifdef INST_ZeroObjColSingleton
struct H : PostStepHost
{
   int m_j; int m_i; int m_old_j; R m_lhs; R m_rhs; R m_lower; R m_upper; DSVectorBase<R> m_row;
   void body() const
   {
      PS_PROLOGUE
#include "ZeroObjColSingletonPS.inc"
   }
};
extern "C" void w_ZeroObjColSingleton(PS_PARAMS, int m_j, int m_i, int m_old_j, double m_lhs, double m_rhs, double m_lower, double m_upper,
                                      int* row_idx, double* row_val, int row_n)
{
   VIN("m_j", m_j); VIN("m_i", m_i); VIN("m_old_j", m_old_j); VIN("m_lhs", m_lhs); VIN("m_rhs", m_rhs); VIN("m_lower", m_lower); VIN("m_upper", m_upper); VIN("row_n", row_n);
   H h; PS_BIND(h) h.m_j = m_j; h.m_i = m_i; h.m_old_j = m_old_j; h.m_lhs = m_lhs; h.m_rhs = m_rhs; h.m_lower = m_lower; h.m_upper = m_upper;
   PS_SVEC(h.m_row, row_idx, row_val, row_n, nC)
   h.body();
}
#endif

/* ------------------------------------------------------------------------------------------- */
#ifdef INST_FreeColSingleton
struct H : PostStepHost
{
   int m_j; int m_i; int m_old_j; int m_old_i; R m_obj; R m_lRhs; bool m_onLhs; bool m_eqCons; DSVectorBase<R> m_row;
   void body() const
   {
      PS_PROLOGUE
#include "FreeColSingletonPS.inc"
   }
};
extern "C" void w_FreeColSingleton(PS_PARAMS, int m_j, int m_i, int m_old_j, int m_old_i, double m_obj, double m_lRhs, int m_onLhs, int m_eqCons,
                                   int* row_idx, double* row_val, int row_n)
{
   VIN("m_j", m_j); VIN("m_i", m_i); VIN("m_old_j", m_old_j); VIN("m_old_i", m_old_i); VIN("m_obj", m_obj); VIN("m_lRhs", m_lRhs); VIN("m_onLhs", m_onLhs); VIN("m_eqCons", m_eqCons); VIN("row_n", row_n);
   H h; PS_BIND(h) h.m_j = m_j; h.m_i = m_i; h.m_old_j = m_old_j; h.m_old_i = m_old_i; h.m_obj = m_obj; h.m_lRhs = m_lRhs;
   h.m_onLhs = m_onLhs != 0; h.m_eqCons = m_eqCons != 0;
   PS_SVEC(h.m_row, row_idx, row_val, row_n, nC)
   h.body();
}
#endif

/* ------------------------------------------------------------------------------------------- */
#ifdef INST_MultiAggregation
struct H : PostStepHost
{
   int m_j; int m_i; int m_old_j; int m_old_i; R m_upper; R m_lower; R m_obj; R m_const; bool m_onLhs; bool m_eqCons;
   DSVectorBase<R> m_row; DSVectorBase<R> m_col;
   void body() const
   {
      PS_PROLOGUE
#include "MultiAggregationPS.inc"
   }
};
extern "C" void w_MultiAggregation(PS_PARAMS, int m_j, int m_i, int m_old_j, int m_old_i, double m_upper, double m_lower, double m_obj,
                                   double m_const, int m_onLhs, int m_eqCons, int* row_idx, double* row_val, int row_n,
                                   int* col_idx, double* col_val, int col_n)
{
   VIN("m_j", m_j); VIN("m_i", m_i); VIN("m_old_j", m_old_j); VIN("m_old_i", m_old_i); VIN("m_upper", m_upper); VIN("m_lower", m_lower); VIN("m_obj", m_obj); VIN("m_const", m_const); VIN("m_onLhs", m_onLhs); VIN("m_eqCons", m_eqCons); VIN("row_n", row_n); VIN("col_n", col_n);
   H h; PS_BIND(h) h.m_j = m_j; h.m_i = m_i; h.m_old_j = m_old_j; h.m_old_i = m_old_i; h.m_upper = m_upper; h.m_lower = m_lower;
   h.m_obj = m_obj; h.m_const = m_const; h.m_onLhs = m_onLhs != 0; h.m_eqCons = m_eqCons != 0;
   PS_SVEC(h.m_row, row_idx, row_val, row_n, nC)
   PS_SVEC(h.m_col, col_idx, col_val, col_n, nR)
   h.body();
}
#endif

/* ------------------------------------------------------------------------------------------- */
#ifdef INST_Aggregation
struct H : PostStepHost
{
   int m_j; int m_i; int m_old_j; int m_old_i; R m_upper; R m_lower; R m_obj; R m_oldupper; R m_oldlower; R m_rhs;
   DSVectorBase<R> m_row; DSVectorBase<R> m_col;
   void body() const
   {
      PS_PROLOGUE
#include "AggregationPS.inc"
   }
};
extern "C" void w_Aggregation(PS_PARAMS, int m_j, int m_i, int m_old_j, int m_old_i, double m_upper, double m_lower, double m_obj,
                              double m_oldupper, double m_oldlower, double m_rhs, int* row_idx, double* row_val, int row_n,
                              int* col_idx, double* col_val, int col_n)
{
   VIN("m_j", m_j); VIN("m_i", m_i); VIN("m_old_j", m_old_j); VIN("m_old_i", m_old_i); VIN("m_upper", m_upper); VIN("m_lower", m_lower); VIN("m_obj", m_obj); VIN("m_oldupper", m_oldupper); VIN("m_oldlower", m_oldlower); VIN("m_rhs", m_rhs); VIN("row_n", row_n); VIN("col_n", col_n);
   H h; PS_BIND(h) h.m_j = m_j; h.m_i = m_i; h.m_old_j = m_old_j; h.m_old_i = m_old_i; h.m_upper = m_upper; h.m_lower = m_lower;
   h.m_obj = m_obj; h.m_oldupper = m_oldupper; h.m_oldlower = m_oldlower; h.m_rhs = m_rhs;
   PS_SVEC(h.m_row, row_idx, row_val, row_n, nC)
   PS_SVEC(h.m_col, col_idx, col_val, col_n, nR)
   h.body();
}
#endif

/* ------------------------------------------------------------------------------------------- */
#ifdef INST_DoubletonEquation
struct H : PostStepHost
{
   int m_j; int m_k; int m_i; bool m_maxSense; bool m_jFixed; R m_jObj; R m_kObj; R m_aij; bool m_strictLo; bool m_strictUp;
   R m_newLo; R m_newUp; R m_oldLo; R m_oldUp; R m_Lo_j; R m_Up_j; R m_lhs; R m_rhs; DSVectorBase<R> m_col;
   void body() const
   {
      PS_PROLOGUE
#include "DoubletonEquationPS.inc"
   }
};
extern "C" void w_DoubletonEquation(PS_PARAMS, int m_j, int m_k, int m_i, int m_maxSense, int m_jFixed, double m_jObj, double m_kObj, double m_aij,
                                    int m_strictLo, int m_strictUp, double m_newLo, double m_newUp, double m_oldLo, double m_oldUp,
                                    double m_Lo_j, double m_Up_j, double m_lhs, double m_rhs, int* col_idx, double* col_val, int col_n)
{
   VIN("m_j", m_j); VIN("m_k", m_k); VIN("m_i", m_i); VIN("m_maxSense", m_maxSense); VIN("m_jFixed", m_jFixed); VIN("m_jObj", m_jObj); VIN("m_kObj", m_kObj); VIN("m_aij", m_aij); VIN("m_strictLo", m_strictLo); VIN("m_strictUp", m_strictUp); VIN("m_newLo", m_newLo); VIN("m_newUp", m_newUp); VIN("m_oldLo", m_oldLo); VIN("m_oldUp", m_oldUp); VIN("m_Lo_j", m_Lo_j); VIN("m_Up_j", m_Up_j); VIN("m_lhs", m_lhs); VIN("m_rhs", m_rhs); VIN("col_n", col_n);
   H h; PS_BIND(h) h.m_j = m_j; h.m_k = m_k; h.m_i = m_i; h.m_maxSense = m_maxSense != 0; h.m_jFixed = m_jFixed != 0; h.m_jObj = m_jObj;
   h.m_kObj = m_kObj; h.m_aij = m_aij; h.m_strictLo = m_strictLo != 0; h.m_strictUp = m_strictUp != 0; h.m_newLo = m_newLo; h.m_newUp = m_newUp;
   h.m_oldLo = m_oldLo; h.m_oldUp = m_oldUp; h.m_Lo_j = m_Lo_j; h.m_Up_j = m_Up_j; h.m_lhs = m_lhs; h.m_rhs = m_rhs;
   PS_SVEC(h.m_col, col_idx, col_val, col_n, nR)
   h.body();
}
#endif

/* ------------------------------------------------------------------------------------------- */
#ifdef INST_DuplicateCols
struct H : PostStepHost
{
   int m_j; int m_k; R m_loJ; R m_upJ; R m_loK; R m_upK; R m_scale; bool m_isFirst; bool m_isLast; DataArray<int> m_perm;
   void body() const
   {
      PS_PROLOGUE
#include "DuplicateColsPS.inc"
   }
};
extern "C" void w_DuplicateCols(PS_PARAMS, int m_j, int m_k, double m_loJ, double m_upJ, double m_loK, double m_upK, double m_scale,
                                int m_isFirst, int m_isLast, int* perm, int perm_n)
{
   VIN("m_j", m_j); VIN("m_k", m_k); VIN("m_loJ", m_loJ); VIN("m_upJ", m_upJ); VIN("m_loK", m_loK); VIN("m_upK", m_upK); VIN("m_scale", m_scale); VIN("m_isFirst", m_isFirst); VIN("m_isLast", m_isLast); VIN("perm_n", perm_n);
   H h; PS_BIND(h) h.m_j = m_j; h.m_k = m_k; h.m_loJ = m_loJ; h.m_upJ = m_upJ; h.m_loK = m_loK; h.m_upK = m_upK; h.m_scale = m_scale;
   h.m_isFirst = m_isFirst != 0; h.m_isLast = m_isLast != 0; h.m_perm.data = perm; h.m_perm.thesize = perm_n;
   h.body();
}
#endif

/* ------------------------------------------------------------------------------------------- */
#ifdef INST_DuplicateRows
struct H : PostStepHost
{
   int m_i; R m_i_rowObj; int m_maxLhsIdx; int m_minRhsIdx; bool m_maxSense; bool m_isFirst; bool m_isLast; bool m_fixed; int m_nCols;
   DSVectorBase<R> m_scale; DSVectorBase<R> m_rowObj; DataArray<int> m_rIdxLocalOld; DataArray<int> m_perm; DataArray<bool> m_isLhsEqualRhs;
   void body() const
   {
      PS_PROLOGUE
#include "DuplicateRowsPS.inc"
   }
};
extern "C" void w_DuplicateRows(PS_PARAMS, int m_i, double m_i_rowObj, int m_maxLhsIdx, int m_minRhsIdx, int m_maxSense, int m_isFirst,
                                int m_isLast, int m_fixed, int m_nCols, int* scale_idx, double* scale_val, int scale_n,
                                int* robj_idx, double* robj_val, int* rIdxLocalOld, int* perm, int perm_n, bool* isLhsEqualRhs)
{
   VIN("m_i", m_i); VIN("m_i_rowObj", m_i_rowObj); VIN("m_maxLhsIdx", m_maxLhsIdx); VIN("m_minRhsIdx", m_minRhsIdx); VIN("m_maxSense", m_maxSense); VIN("m_isFirst", m_isFirst); VIN("m_isLast", m_isLast); VIN("m_fixed", m_fixed); VIN("m_nCols", m_nCols); VIN("scale_n", scale_n); VIN("perm_n", perm_n);
   H h; PS_BIND(h) h.m_i = m_i; h.m_i_rowObj = m_i_rowObj; h.m_maxLhsIdx = m_maxLhsIdx; h.m_minRhsIdx = m_minRhsIdx;
   h.m_maxSense = m_maxSense != 0; h.m_isFirst = m_isFirst != 0; h.m_isLast = m_isLast != 0; h.m_fixed = m_fixed != 0; h.m_nCols = m_nCols;
   PS_SVEC(h.m_scale, scale_idx, scale_val, scale_n, nR)
   PS_SVEC(h.m_rowObj, robj_idx, robj_val, scale_n, nR)
   h.m_rIdxLocalOld.data = rIdxLocalOld; h.m_rIdxLocalOld.thesize = scale_n;
   h.m_perm.data = perm; h.m_perm.thesize = perm_n;
   h.m_isLhsEqualRhs.data = isLhsEqualRhs; h.m_isLhsEqualRhs.thesize = scale_n;
   h.body();
}
#endif
