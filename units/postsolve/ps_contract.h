/* C08/C04 postsolve units: vocabulary shared by all contracts (C side). */
#ifndef PS_CONTRACT_H
#define PS_CONTRACT_H
#include "verif_c.h"
#include "constants.h"
#include "VarStatus.inc"          /* enum VarStatus { ON_UPPER, ON_LOWER, FIXED, ZERO, BASIC, UNDEFINED }; verbatim */
#ifndef CAP
#define CAP 4                     /* max entries of a stored sparse row/column (<= 8 = SVEC_LOOKUP_MAX) */
#endif
#ifndef DIM
#define DIM 6                     /* max number of rows / columns of the solution vectors */
#endif
#define INF SOPLEX_DEFAULT_INFINITY

/* ghosts.  g_kc: an arbitrary column, g_kr: an arbitrary row (frame clauses are stated at them, hence hold
 * for all); v_*: the values found there before the call. */
int g_kc, g_kr, g_kc2; double v_x, v_r, v_y, v_s; int v_cs, v_rs, v_cs2;
int g_k2, v_rs2, v_rs3, g_a, g_b, g_c, g_d, g_e, g_exp; double v_s2, v_y2, v_x2, v_r2; int* gp_i3;
int g_n, g_n2, g_may_throw, g_out, g_out2, g_cap, g_nC, g_nR, g_in, g_in2;
double* gp_x; double* gp_y; double* gp_s; double* gp_r; int* gp_cst; int* gp_rst;
int* gp_i1; int* gp_i2; double* gp_d1;
static void havoc_ghosts(void)
{
   g_kc = nondet_int(); g_kr = nondet_int(); g_kc2 = nondet_int(); v_x = nondet_double(); v_r = nondet_double();
   v_y = nondet_double(); v_s = nondet_double(); v_cs = nondet_int(); v_rs = nondet_int(); v_cs2 = nondet_int();
   v_rs3 = nondet_int(); g_c = nondet_int(); g_d = nondet_int(); g_e = nondet_int();
   g_k2 = nondet_int(); v_rs2 = nondet_int(); g_a = nondet_int(); g_b = nondet_int(); g_exp = nondet_int();
   v_s2 = nondet_double(); v_y2 = nondet_double(); v_x2 = nondet_double(); v_r2 = nondet_double();
   g_n = nondet_int(); g_n2 = nondet_int(); g_in = nondet_int(); g_in2 = nondet_int(); g_cap = nondet_int(); g_nC = nondet_int(); g_nR = nondet_int(); g_may_throw = nondet_int(); g_out = nondet_int(); g_out2 = nondet_int();
}

/* equality of doubles that also accepts NaN == NaN (a copied NaN stays a NaN); +0 == -0 */
#define SAME(a, b) ((a) == (b) || ((a) != (a) && (b) != (b)))
#define B(e) ((e) == BASIC ? 1 : 0)
#define DEFINED(e) ((e) == ON_UPPER || (e) == ON_LOWER || (e) == FIXED || (e) == ZERO || (e) == BASIC)   /* not UNDEFINED, not garbage */
#define NONBASIC(e) ((e) == ON_UPPER || (e) == ON_LOWER || (e) == FIXED || (e) == ZERO)

#define PS_PARAMS double* x, double* y, double* s, double* r, int* cst, int* rst, int nC, int nR, \
                  double feastol, double eps, int isOptimal
#define PS_ARGS x, y, s, r, cst, rst, nC, nR, feastol, eps, isOptimal
/* The harness passes six DISTINCT typed automatic arrays of DIM entries (the logical dimensions nC, nR <= DIM are
 * what the container models check every access against).  Typed arrays instead of __CPROVER_is_fresh byte
 * objects: is_fresh objects are untyped, every double access through them is a byte-extract at a symbolic
 * offset and the same proofs take 6-10 times longer. */
#define PS_LOCALS double x[DIM]; double y[DIM]; double s[DIM]; double r[DIM]; int cst[DIM]; int rst[DIM]; int nC, nR; double feastol, eps; int isOptimal
/* well-formed vectors: x, r, cst have nC entries; y, s, rst have nR entries; tolerances positive */
#define PS_WF (0 < nC && nC <= DIM && 0 < nR && nR <= DIM \
   && __CPROVER_rw_ok(x, DIM * sizeof(double)) && __CPROVER_rw_ok(r, DIM * sizeof(double)) \
   && __CPROVER_rw_ok(y, DIM * sizeof(double)) && __CPROVER_rw_ok(s, DIM * sizeof(double)) \
   && __CPROVER_rw_ok(cst, DIM * sizeof(int)) && __CPROVER_rw_ok(rst, DIM * sizeof(int)) \
   && feastol > 0.0 && eps > 0.0)
/* stored sparse vector: n <= CAP entries in two parallel arrays (typed automatic arrays of the harness, like x..rst) */
#define SV_WF(idx, val, n) (0 <= (n) && (n) <= CAP \
   && __CPROVER_rw_ok(idx, CAP * sizeof(int)) && __CPROVER_rw_ok(val, CAP * sizeof(double)))
#define ARR_OK(p, n, T) __CPROVER_rw_ok(p, (n) * sizeof(T))
/* executed by every harness before the call */
#define PS_GHOST_PTRS gp_x = x; gp_y = y; gp_s = s; gp_r = r; gp_cst = cst; gp_rst = rst
/* the ghost column / row and the values found there */
#define GHOST_COL (0 <= g_kc && g_kc < nC && SAME(v_x, x[g_kc]) && SAME(v_r, r[g_kc]) && v_cs == cst[g_kc])
#define GHOST_ROW (0 <= g_kr && g_kr < nR && SAME(v_y, y[g_kr]) && SAME(v_s, s[g_kr]) && v_rs == rst[g_kr])
#define COL_UNCHANGED (SAME(x[g_kc], v_x) && SAME(r[g_kc], v_r) && cst[g_kc] == v_cs)
#define ROW_UNCHANGED (SAME(y[g_kr], v_y) && SAME(s[g_kr], v_s) && rst[g_kr] == v_rs)
#define W(a) __CPROVER_object_whole(a)

/* first-match lookup / membership in a stored sparse vector of at most 8 entries, written out
 * (mirrors SVectorBase::operator[] / pos()) */
#define SV_HAS(idx, n, i) ((0 < (n) && (idx)[0] == (i)) || (1 < (n) && (idx)[1] == (i)) || (2 < (n) && (idx)[2] == (i)) \
   || (3 < (n) && (idx)[3] == (i)) || (4 < (n) && (idx)[4] == (i)) || (5 < (n) && (idx)[5] == (i)) \
   || (6 < (n) && (idx)[6] == (i)) || (7 < (n) && (idx)[7] == (i)))
#define SV_GET(idx, val, n, i) ((0 < (n) && (idx)[0] == (i)) ? (val)[0] : (1 < (n) && (idx)[1] == (i)) ? (val)[1] \
   : (2 < (n) && (idx)[2] == (i)) ? (val)[2] : (3 < (n) && (idx)[3] == (i)) ? (val)[3] \
   : (4 < (n) && (idx)[4] == (i)) ? (val)[4] : (5 < (n) && (idx)[5] == (i)) ? (val)[5] \
   : (6 < (n) && (idx)[6] == (i)) ? (val)[6] : (7 < (n) && (idx)[7] == (i)) ? (val)[7] : 0.0)
/* type invariant of a stored sparse vector: pairwise distinct indices (written out for <= 8 entries) */
#define SV_D1(idx, n, a, b) ((b) >= (n) || (idx)[a] != (idx)[b])
#define SV_DISTINCT(idx, n) (SV_D1(idx,n,0,1) && SV_D1(idx,n,0,2) && SV_D1(idx,n,0,3) && SV_D1(idx,n,0,4) && SV_D1(idx,n,0,5) && SV_D1(idx,n,0,6) && SV_D1(idx,n,0,7) \
   && SV_D1(idx,n,1,2) && SV_D1(idx,n,1,3) && SV_D1(idx,n,1,4) && SV_D1(idx,n,1,5) && SV_D1(idx,n,1,6) && SV_D1(idx,n,1,7) \
   && SV_D1(idx,n,2,3) && SV_D1(idx,n,2,4) && SV_D1(idx,n,2,5) && SV_D1(idx,n,2,6) && SV_D1(idx,n,2,7) \
   && SV_D1(idx,n,3,4) && SV_D1(idx,n,3,5) && SV_D1(idx,n,3,6) && SV_D1(idx,n,3,7) && SV_D1(idx,n,4,5) && SV_D1(idx,n,4,6) && SV_D1(idx,n,4,7) \
   && SV_D1(idx,n,5,6) && SV_D1(idx,n,5,7) && SV_D1(idx,n,6,7))
/* "for every k < CAP: P(k)" written out (CAP <= 8) */
#define ALLK(P) ((0 >= CAP || P(0)) && (1 >= CAP || P(1)) && (2 >= CAP || P(2)) && (3 >= CAP || P(3)) \
   && (4 >= CAP || P(4)) && (5 >= CAP || P(5)) && (6 >= CAP || P(6)) && (7 >= CAP || P(7)))
#define GHOST_DIMS (g_cap == CAP && g_nC == nC && g_nR == nR)
/* strictly ascending indices (sorted stored vector), written out for <= 8 entries; implies SV_DISTINCT */
#define SV_S1(idx, n, a) ((a) + 1 >= (n) || (idx)[a] < (idx)[(a) + 1])
#define SV_SORTED(idx, n) (SV_S1(idx,n,0) && SV_S1(idx,n,1) && SV_S1(idx,n,2) && SV_S1(idx,n,3) && SV_S1(idx,n,4) && SV_S1(idx,n,5) && SV_S1(idx,n,6))
#endif
