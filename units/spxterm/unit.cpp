/* C16: the stopping tests of SPxSolverBase<R> at R = double.
 *   terminate()  (src/soplex/spxsolve.hpp);  isTimeLimitReached, setTerminationTime, setTerminationIter  (src/soplex/spxsolver.hpp)
 * Bodies are #included verbatim from slices of the current tree.  The host declares the data members the bodies touch under
 * their real names; the numerical callees of terminate() are ghost-recording stubs (count + position per kind).
 * The real class is  SPxSolverBase : public SPxLPBase<R>, protected SPxBasisBase<R>  (conformance-checked); CBMC's front end
 * mishandles member functions of a second base (README pitfall 16), so the host derives from the basis stub ONLY and carries
 * the one SPxLPBase member the bodies use (spxSense()) itself; SPxLPBase<T> is a names-only template. */
#include "verif.h"
#include "constants.h"
#include "kinds.h"
typedef double R;
typedef double Real;
/* spxdefines.cpp: `const Real infinity = SOPLEX_DEFAULT_INFINITY;` (conformance-checked; value extracted into constants.h) */
static const Real infinity = VERIF_SOPLEX_INFINITY;
#define SOPLEX_MAXNCLCKSKIPS VERIF_MAXNCLCKSKIPS
#define SOPLEX_SAFETYFACTOR VERIF_SAFETYFACTOR
#define SOPLEX_NINITCALLS VERIF_NINITCALLS

#define SPX_MSG_INFO1(...)
#define SPX_MSG_INFO2(...)
#define SPX_MSG_INFO3(...)
#define SPX_MSG_WARNING(...)
/* SPxOut::debug(this, fmt, args...) -> SPxOut::verif_debug_sink(): a C-variadic callee with extra arguments crashes dfcc (README 17).
 * The arguments (value(), objLimit, ...) are pure reads and are not evaluated. */
struct SPxOut { static void verif_debug_sink() {} };
#define debug(...) verif_debug_sink()

extern "C" {
   extern int g_nev;
   extern int k_cnt[NKIND], k_seq[NKIND], k_arg[NKIND], k_arg2[NKIND];
   extern int g_phase;                 /* number of state-changing numerical callees so far (unShift, factorizeAndRecompute) */
   extern double g_nv_tol[NPHASE];     /* tolerance handed to noViols() in each phase */
}
static inline void kev(int kind, int arg = 0, int arg2 = 0)
{
   g_nev = g_nev + 1;
   k_cnt[kind] = k_cnt[kind] + 1; k_seq[kind] = g_nev; k_arg[kind] = arg; k_arg2[kind] = arg2;
}

template <class T> struct SPxLPBase
{
#include "SPxSense.inc"
};
struct VecS { int id; };     /* vectors: identity only (1 theCoPvec, 2 theCoPrhs, 3 theFvec, 4 theFrhs) */

template <class T> struct SPxBasisBase
{
#include "SPxStatus.inc"
   SPxStatus thestatus;
   int iterCount, lastIterCount, updateCount;
   SPxStatus status() const
   {
#include "basis_status.inc"
   }
   int iteration() const
   {
#include "basis_iteration.inc"
   }
   void coSolve(VecS& x, const VecS& rhs) { kev(K_COSOLVE, x.id, rhs.id); }
   void solve(VecS& x, const VecS& rhs) { kev(K_SOLVE, x.id, rhs.id); }
};

struct TolStub
{
   Real s_floating_point_opttol;
   Real floatingPointOpttol()
   {
#include "floatingPointOpttol.inc"
   }
};

struct Host : SPxBasisBase<R>
{
#include "SolverStatus.inc"
#include "SolverType.inc"
#include "SolverRep.inc"
#include "SolverPricing.inc"
   Status m_status;
   Type theType; Representation theRep; Pricing thePricing;
   int thedim;
   Real maxTime; int maxIters; int nClckSkipsLeft; long nCallsToTimelim;
   R objLimit;
   VecS* theCoPvec; VecS* theCoPrhs; VecS* theFvec; VecS* theFrhs;
   TolStub* tol;
   int sense;
   /* phase-dependent numerical state: shift(), value(), noViols() as they are after 0, 1, 2 ... state-changing callees */
   const double* sh; const double* val; const int* nv; double eps;
   int tl_answer; double now, cumul;

   Type type() const { return theType; }
   Representation rep() const { return theRep; }
   Pricing pricing() const { return thePricing; }
   int dim() const { return thedim; }
   SPxLPBase<R>::SPxSense spxSense() const { return (SPxLPBase<R>::SPxSense)sense; }
   TolStub* tolerances() const { return tol; }          /* real: const std::shared_ptr<Tolerances>& */
   R epsilon() const { return eps; }
   static int ph() { return g_phase < NPHASE ? g_phase : NPHASE - 1; }
   R shift() const { return sh[ph()]; }
   R value() { return val[ph()]; }
   bool noViols(R tol_) const { kev(K_NOVIOLS, ph()); g_nv_tol[ph()] = tol_; return nv[ph()] != 0; }
   void unShift() { kev(K_UNSHIFT, g_phase); g_phase = g_phase + 1; }
   void factorizeAndRecompute() { kev(K_RECOMPUTE, g_phase); g_phase = g_phase + 1; }
   void computeEnterCoPrhs() { kev(K_ENTERCOPRHS); }
   void computeLeaveCoPrhs() { kev(K_LEAVECOPRHS); }
   void computeFrhs() { kev(K_FRHS); }
   void factorize() { kev(K_FACTORIZE); }
   void computePvec() { kev(K_PVEC); }
   void computeCoTest() { kev(K_COTEST); }
   void computeTest() { kev(K_TEST); }
   Real time() const { kev(K_TIME); return now; }
   Real cumulativeTime() const { return cumul; }
#ifdef INST_TERMINATE
   bool isTimeLimitReached(const bool forceCheck = false) { kev(K_TIMELIM, forceCheck); return tl_answer != 0; }
   bool body()
   {
#include "terminate.inc"
   }
#endif
#ifdef INST_TIMELIM
   bool body(const bool forceCheck)
   {
#include "isTimeLimitReached.inc"
   }
#endif
#ifdef INST_SETTIME
   void body(Real p_time)
   {
#include "setTerminationTime.inc"
   }
#endif
#ifdef INST_SETITER
   void body(int p_iteration)
   {
#include "setTerminationIter.inc"
   }
#endif
#ifdef INST_GATE
   /* The region of solve() between the pricing step and the pivot: from the comment "check if we have iterations left" up to, not
    * including, `enter(enterId);` resp. `leave(leaveNum);`, verbatim.  In the tree it sits in the simplex loop and leaves it with
    * `break`; here it sits in a switch, so `break` means "the pivot is not reached" (gate() returns 0) and falling through means
    * "the pivot is next" (gate() returns 1). */
   const Host& basis() const { return *(Host*)this; }
   int iterations() const
   {
#include "iterations.inc"
   }
   bool stop;
   int gate(volatile bool* interrupt)
   {
      switch(0)
      {
      default:
      {
#include SLICE
         return 1;
      }
      }
      return 0;
   }
#endif
};

#ifdef INST_TERMINATE
extern "C" int w_terminate(int dim, int iterCount, int* lastIterCount, int updateCount, int type, int rep, int pricing, int basisStatus,
                           int* m_status, int tl, double objLimit, int sense, const double* sh, const double* val, const int* nv,
                           double eps, double opttol)
{
   VIN("dim", dim); VIN("iterCount", iterCount); VIN("updateCount", updateCount); VIN("type", type); VIN("rep", rep); VIN("pricing", pricing);
   VIN("basisStatus", basisStatus); VIN("m_status", *m_status); VIN("tl", tl); VIN("objLimit", objLimit); VIN("sense", sense);
   VIN("eps", eps); VIN("opttol", opttol);
   Host h; TolStub t; VecS v1, v2, v3, v4;
   v1.id = 1; v2.id = 2; v3.id = 3; v4.id = 4;
   t.s_floating_point_opttol = opttol;
   h.thestatus = (SPxBasisBase<R>::SPxStatus)basisStatus; h.iterCount = iterCount; h.lastIterCount = *lastIterCount; h.updateCount = updateCount;
   h.m_status = (Host::Status)(*m_status); h.theType = (Host::Type)type; h.theRep = (Host::Representation)rep; h.thePricing = (Host::Pricing)pricing;
   h.thedim = dim; h.objLimit = objLimit; h.sense = sense; h.tol = &t;
   h.theCoPvec = &v1; h.theCoPrhs = &v2; h.theFvec = &v3; h.theFrhs = &v4;
   h.sh = sh; h.val = val; h.nv = nv; h.eps = eps; h.tl_answer = tl;
   g_nev = 0; g_phase = 0;
   bool r = h.body();
   *m_status = (int)h.m_status; *lastIterCount = h.lastIterCount;
   return r ? 1 : 0;
}
#endif

#ifdef INST_TIMELIM
extern "C" int w_timelim(int forceCheck, double maxTime, long* nCallsToTimelim, int* nClckSkipsLeft, double now, double cumul)
{
   VIN("forceCheck", forceCheck); VIN("maxTime", maxTime); VIN("nCallsToTimelim", *nCallsToTimelim); VIN("nClckSkipsLeft", *nClckSkipsLeft);
   VIN("now", now); VIN("cumul", cumul);
   Host h;
   h.maxTime = maxTime; h.nCallsToTimelim = *nCallsToTimelim; h.nClckSkipsLeft = *nClckSkipsLeft; h.now = now; h.cumul = cumul;
   g_nev = 0;
   bool r = h.body(forceCheck != 0);
   *nCallsToTimelim = h.nCallsToTimelim; *nClckSkipsLeft = h.nClckSkipsLeft;
   return r ? 1 : 0;
}
#endif

#ifdef INST_SETTIME
extern "C" double w_settime(double p_time)
{
   VIN("p_time", p_time);
   Host h; h.maxTime = 0;
   h.body(p_time);
   return h.maxTime;
}
#endif

#ifdef INST_SETITER
extern "C" int w_setiter(int p_iteration)
{
   VIN("p_iteration", p_iteration);
   Host h; h.maxIters = 0;
   h.body(p_iteration);
   return h.maxIters;
}
#endif

#ifdef INST_GATE
extern "C" int w_gate(int maxIters, int iterCount, int haveInterrupt, int flag, int* m_status, int* stop)
{
   VIN("maxIters", maxIters); VIN("iterCount", iterCount); VIN("haveInterrupt", haveInterrupt); VIN("flag", flag); VIN("m_status", *m_status);
   Host h; volatile bool f = flag != 0;
   h.maxIters = maxIters; h.iterCount = iterCount; h.m_status = (Host::Status)(*m_status); h.stop = *stop != 0;
   int reached = h.gate(haveInterrupt ? &f : (volatile bool*)0);
   *m_status = (int)h.m_status; *stop = h.stop;
   return reached;
}
#endif
