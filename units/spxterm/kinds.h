/* By-kind call log shared by unit.cpp (C++) and contract.c (C): k_cnt[kind] occurrences, k_seq[kind] position of the (last)
 * occurrence in the call sequence (1-based), k_arg / k_arg2 its arguments; g_nev = total number of recorded calls. */
#ifndef SPXTERM_KINDS_H
#define SPXTERM_KINDS_H
enum
{
   K_ENTERCOPRHS = 1,   /* computeEnterCoPrhs() */
   K_LEAVECOPRHS = 2,   /* computeLeaveCoPrhs() */
   K_FRHS = 3,          /* computeFrhs() */
   K_FACTORIZE = 4,     /* factorize() */
   K_COSOLVE = 5,       /* SPxBasisBase::coSolve(x, rhs): arg = id of x, arg2 = id of rhs (1 theCoPvec, 2 theCoPrhs, 3 theFvec, 4 theFrhs) */
   K_SOLVE = 6,         /* SPxBasisBase::solve(x, rhs) */
   K_PVEC = 7,          /* computePvec() */
   K_COTEST = 8,        /* computeCoTest() */
   K_TEST = 9,          /* computeTest() */
   K_UNSHIFT = 10,      /* unShift(): arg = phase before; starts a new phase */
   K_TIMELIM = 11,      /* isTimeLimitReached(arg = forceCheck) (stub in the terminate instance) */
   K_NOVIOLS = 12,      /* noViols(tol): arg = phase of the (last) call; tolerance in g_nv_tol[phase] */
   K_RECOMPUTE = 13,    /* factorizeAndRecompute(): arg = phase before; starts a new phase */
   K_TIME = 14,         /* time(): a clock reading */
   NKIND = 16
};
/* shift(), value(), noViols() are functions of the phase = number of state-changing callees (unShift, factorizeAndRecompute) so far */
#define NPHASE 4
#endif
