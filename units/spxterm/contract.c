/* C16: contracts for the stopping tests of SPxSolverBase<R> (R = double, CBMC's bit-precise IEEE model). */
#include "verif_c.h"
#include "constants.h"
#define HAVE_SolverStatus
#define HAVE_SPxStatus
#define HAVE_SolverType
#define HAVE_SolverRep
#define HAVE_SPxSense
#include "solve_enums_c.h"
#include "SolverPricing.inc"
#include "kinds.h"
#include <limits.h>

int g_nev; int k_cnt[NKIND], k_seq[NKIND], k_arg[NKIND], k_arg2[NKIND];
int g_phase; double g_nv_tol[NPHASE];
#define KLOG_ASSIGNS g_nev, g_phase, __CPROVER_object_whole(k_cnt), __CPROVER_object_whole(k_seq), __CPROVER_object_whole(k_arg), \
   __CPROVER_object_whole(k_arg2), __CPROVER_object_whole(g_nv_tol)
#define ONCE(k) (k_cnt[k] == 1)
#define NEVER(k) (k_cnt[k] == 0)
#define NOTNAN(x) ((x) == (x))
#define INFTY VERIF_SOPLEX_INFINITY

/* ===================================================================================================================== */
#ifdef INST_TERMINATE
/* every 'redo' iterations the vectors are recomputed from scratch.  WHEN that happens (iteration() % max(dim, 1000) == 0) is not
   restated here - two integer dividers are as hard for SAT as two floating-point subtractors, and the period has nothing to do
   with C16 -; the refresh is OBSERVED through the log: it ran iff computeFrhs() was called */
#define REFRESH (k_cnt[K_FRHS] != 0)
/* phase in which the limit tests run: one later if the refresh block removed a shift */
#define P0 ((REFRESH && sh[0] > 0.0) ? 1 : 0)
#define TERMINAL (basisStatus >= BS_OPTIMAL || basisStatus <= BS_SINGULAR)
/* PROPERTY (C16): "the value lies beyond the limit in the direction of optimisation": the dual simplex value is a bound on the
   optimum from the good side, so minimisation stops when value >= limit, maximisation when value <= limit */
#define BEYOND(v) (sense == SN_MINIMIZE ? (v) >= objLimit : (v) <= objLimit)
#define VALUE_OK(p) (sh[p] < eps && nv[p] != 0 && BEYOND(val[p]))
#define DUAL_ALGO (type * rep > 0)
#define LIMIT_SET (objLimit < INFTY)
#define FIRST_OK (LIMIT_SET && DUAL_ALGO && VALUE_OK(P0))

int w_terminate(int dim, int iterCount, int* lastIterCount, int updateCount, int type, int rep, int pricing, int basisStatus,
                int* m_status, int tl, double objLimit, int sense, const double* sh, const double* val, const int* nv,
                double eps, double opttol)
__CPROVER_requires(__CPROVER_is_fresh(lastIterCount, sizeof(int)) && __CPROVER_is_fresh(m_status, sizeof(int)))
__CPROVER_requires(__CPROVER_is_fresh(sh, NPHASE * sizeof(double)) && __CPROVER_is_fresh(val, NPHASE * sizeof(double)) && __CPROVER_is_fresh(nv, NPHASE * sizeof(int)))
__CPROVER_requires(0 <= dim && 0 <= iterCount)
__CPROVER_requires((type == TY_ENTER || type == TY_LEAVE) && (rep == RP_ROW || rep == RP_COLUMN) && (sense == SN_MINIMIZE || sense == SN_MAXIMIZE))
__CPROVER_requires((tl == 0 || tl == 1) && NEVER(K_ENTERCOPRHS) && NEVER(K_LEAVECOPRHS) && NEVER(K_FRHS) && NEVER(K_FACTORIZE) && NEVER(K_COSOLVE) && NEVER(K_SOLVE))
__CPROVER_requires(NEVER(K_PVEC) && NEVER(K_COTEST) && NEVER(K_TEST) && NEVER(K_UNSHIFT) && NEVER(K_TIMELIM) && NEVER(K_NOVIOLS) && NEVER(K_RECOMPUTE))
/* the shift is a sum of absolute bound changes: never negative, never NaN; tolerances are not NaN */
__CPROVER_requires(sh[0] >= 0.0 && sh[1] >= 0.0 && sh[2] >= 0.0 && sh[3] >= 0.0 && NOTNAN(opttol) && NOTNAN(eps))
__CPROVER_assigns(*lastIterCount, *m_status, KLOG_ASSIGNS)
/* ---- result / status table ------------------------------------------------------------------------------------------ */
__CPROVER_ensures(__CPROVER_return_value == 0 || __CPROVER_return_value == 1)
/* a terminal basis (optimal, unbounded, infeasible - or singular / no problem) ends the loop; the limits are not even consulted */
__CPROVER_ensures(TERMINAL ==> (__CPROVER_return_value == 1 && *m_status == ST_UNKNOWN && NEVER(K_TIMELIM) && NEVER(K_NOVIOLS) && NEVER(K_RECOMPUTE)))
/* the time limit is consulted exactly once, before the objective limit */
__CPROVER_ensures(!TERMINAL ==> (ONCE(K_TIMELIM) && k_arg[K_TIMELIM] == 0))
__CPROVER_ensures((!TERMINAL && tl) ==> (__CPROVER_return_value == 1 && *m_status == ST_ABORT_TIME && NEVER(K_NOVIOLS) && NEVER(K_RECOMPUTE)))
/* objective limit: reported iff the test holds, the solution is then recomputed from a fresh factorization, and the test holds AGAIN */
__CPROVER_ensures((!TERMINAL && !tl && FIRST_OK) ==> (ONCE(K_RECOMPUTE) && k_arg[K_RECOMPUTE] == P0 && k_cnt[K_NOVIOLS] == (sh[P0 + 1] < eps ? 2 : 1) && g_phase == P0 + 1))
__CPROVER_ensures((!TERMINAL && !tl && FIRST_OK && VALUE_OK(P0 + 1)) ==> (__CPROVER_return_value == 1 && *m_status == ST_ABORT_VALUE))
__CPROVER_ensures((!TERMINAL && !tl && FIRST_OK && !VALUE_OK(P0 + 1)) ==> __CPROVER_return_value == 0)
__CPROVER_ensures((!TERMINAL && !tl && !FIRST_OK) ==> (__CPROVER_return_value == 0 && NEVER(K_RECOMPUTE)))
/* going on: status untouched, iteration count remembered */
__CPROVER_ensures(__CPROVER_return_value == 0 ==> (*m_status == __CPROVER_old(*m_status) && *lastIterCount == iterCount))
__CPROVER_ensures(__CPROVER_return_value == 1 ==> (*lastIterCount == __CPROVER_old(*lastIterCount)
                  && (*m_status == ST_UNKNOWN || *m_status == ST_ABORT_TIME || *m_status == ST_ABORT_VALUE)))
/* ---- PROPERTY clauses (C16) ------------------------------------------------------------------------------------------ */
/* ABORT_TIME only if isTimeLimitReached() was asked and answered true */
__CPROVER_ensures((__CPROVER_return_value == 1 && *m_status == ST_ABORT_TIME) ==> (ONCE(K_TIMELIM) && tl))
/* ABORT_VALUE only if a limit is set, the DUAL algorithm runs (type * rep > 0), and - evaluated after factorizeAndRecompute(),
   i.e. at the SECOND evaluation - there is no shift, no violation and the value is beyond the limit; the time limit was not hit */
__CPROVER_ensures((__CPROVER_return_value == 1 && *m_status == ST_ABORT_VALUE) ==> (LIMIT_SET && DUAL_ALGO && !tl && ONCE(K_RECOMPUTE)
                  && g_phase == k_arg[K_RECOMPUTE] + 1 && k_arg[K_NOVIOLS] == g_phase
                  && sh[g_phase] < eps && nv[g_phase] != 0 && BEYOND(val[g_phase])))
/* the tolerance handed to noViols() is the optimality tolerance REDUCED by the shift, never loosened */
__CPROVER_ensures((__CPROVER_return_value == 1 && *m_status == ST_ABORT_VALUE) ==> (g_nv_tol[g_phase] <= opttol && g_nv_tol[k_arg[K_RECOMPUTE]] <= opttol))
/* ---- the periodic refresh (complete case table of the function) --------------------------------------------------------- */
__CPROVER_ensures(REFRESH ==> (iterCount > 10 && (type == TY_ENTER ? (ONCE(K_ENTERCOPRHS) && NEVER(K_LEAVECOPRHS)) : (ONCE(K_LEAVECOPRHS) && NEVER(K_ENTERCOPRHS)))
                  && ONCE(K_FRHS) && (updateCount > 1 ? ONCE(K_FACTORIZE) : NEVER(K_FACTORIZE))
                  && ONCE(K_COSOLVE) && k_arg[K_COSOLVE] == 1 && k_arg2[K_COSOLVE] == 2 && ONCE(K_SOLVE) && k_arg[K_SOLVE] == 3 && k_arg2[K_SOLVE] == 4
                  && k_seq[K_FRHS] < k_seq[K_COSOLVE] && k_seq[K_COSOLVE] < k_seq[K_SOLVE] && (updateCount > 1 ==> (k_seq[K_FRHS] < k_seq[K_FACTORIZE] && k_seq[K_FACTORIZE] < k_seq[K_COSOLVE]))
                  && (pricing == FULL ? ONCE(K_PVEC) : NEVER(K_PVEC)) && ((pricing == FULL && type == TY_ENTER) ? (ONCE(K_COTEST) && ONCE(K_TEST)) : (NEVER(K_COTEST) && NEVER(K_TEST)))
                  && (sh[0] > 0.0 ? (ONCE(K_UNSHIFT) && k_seq[K_UNSHIFT] > k_seq[K_SOLVE]) : NEVER(K_UNSHIFT))))
__CPROVER_ensures(!REFRESH ==> (NEVER(K_ENTERCOPRHS) && NEVER(K_LEAVECOPRHS) && NEVER(K_FRHS) && NEVER(K_FACTORIZE) && NEVER(K_COSOLVE) && NEVER(K_SOLVE)
                  && NEVER(K_PVEC) && NEVER(K_COTEST) && NEVER(K_TEST) && NEVER(K_UNSHIFT)))
;
void h_terminate(void)
{
   int dim, iterCount, updateCount, type, rep, pricing, basisStatus, tl, sense; double objLimit, eps, opttol;
   int* lastIterCount; int* m_status; const double* sh; const double* val; const int* nv;
   w_terminate(dim, iterCount, lastIterCount, updateCount, type, rep, pricing, basisStatus, m_status, tl, objLimit, sense, sh, val, nv, eps, opttol);
   CANARY();
}
#endif

/* ===================================================================================================================== */
#ifdef INST_TIMELIM
#define FINITE_LIMIT (maxTime < INFTY)
#define CALLS1 (__CPROVER_old(*nCallsToTimelim) + 1)
#define SKIPS0 (__CPROVER_old(*nClckSkipsLeft))
/* the clock is read iff a limit is set and (the caller insists, or the warm-up phase is not over, or no skips are left) */
#define READS_CLOCK (FINITE_LIMIT && (forceCheck || CALLS1 < VERIF_NINITCALLS || SKIPS0 <= 0))
int w_timelim(int forceCheck, double maxTime, long* nCallsToTimelim, int* nClckSkipsLeft, double now, double cumul)
__CPROVER_requires(__CPROVER_is_fresh(nCallsToTimelim, sizeof(long)) && __CPROVER_is_fresh(nClckSkipsLeft, sizeof(int)))
/* type invariant of the two counters (initialised to 0, only changed here): the call counter does not overflow a long */
__CPROVER_requires(0 <= *nCallsToTimelim && *nCallsToTimelim < LONG_MAX && 0 <= *nClckSkipsLeft && *nClckSkipsLeft <= VERIF_MAXNCLCKSKIPS)
__CPROVER_requires((forceCheck == 0 || forceCheck == 1) && NOTNAN(maxTime) && NEVER(K_TIME))
__CPROVER_assigns(*nCallsToTimelim, *nClckSkipsLeft, g_nev, __CPROVER_object_whole(k_cnt), __CPROVER_object_whole(k_seq), __CPROVER_object_whole(k_arg), __CPROVER_object_whole(k_arg2))
/* PROPERTY (C16): "limit reached" is only ever answered on the evidence of a clock reading >= the limit, never for an infinite limit */
__CPROVER_ensures(__CPROVER_return_value != 0 ==> (FINITE_LIMIT && ONCE(K_TIME) && now >= maxTime))
__CPROVER_ensures(!FINITE_LIMIT ==> (__CPROVER_return_value == 0 && NEVER(K_TIME) && *nClckSkipsLeft == SKIPS0))
/* exact: the answer is true iff the clock was read and showed >= maxTime; the clock is read at most once */
__CPROVER_ensures((__CPROVER_return_value != 0) == (READS_CLOCK && now >= maxTime))
__CPROVER_ensures(READS_CLOCK ? ONCE(K_TIME) : NEVER(K_TIME))
/* a forced check always reads the clock (when a limit is set) */
__CPROVER_ensures((forceCheck && FINITE_LIMIT) ==> ONCE(K_TIME))
/* the call counter counts every call */
__CPROVER_ensures(*nCallsToTimelim == CALLS1)
/* the skip counter stays within [0, SOPLEX_MAXNCLCKSKIPS]; a skipped call consumes one skip, so the clock is read again after at
   most SOPLEX_MAXNCLCKSKIPS skipped calls */
__CPROVER_ensures(0 <= *nClckSkipsLeft && *nClckSkipsLeft <= VERIF_MAXNCLCKSKIPS)
__CPROVER_ensures((FINITE_LIMIT && !READS_CLOCK) ==> (SKIPS0 > 0 && *nClckSkipsLeft == SKIPS0 - 1))
__CPROVER_ensures((READS_CLOCK && __CPROVER_return_value == 0) ==> (*nClckSkipsLeft == 0 || *nClckSkipsLeft == VERIF_MAXNCLCKSKIPS))
__CPROVER_ensures((READS_CLOCK && __CPROVER_return_value != 0) ==> *nClckSkipsLeft == SKIPS0)
;
void h_timelim(void)
{
   int forceCheck; double maxTime, now, cumul; long* nCallsToTimelim; int* nClckSkipsLeft;
   w_timelim(forceCheck, maxTime, nCallsToTimelim, nClckSkipsLeft, now, cumul);
   CANARY();
}
#endif

/* ===================================================================================================================== */
#ifdef INST_SETTIME
/* a negative time limit is clamped to 0 (the solve stops at the first check); anything else is stored as given */
double w_settime(double p_time)
__CPROVER_requires(NOTNAN(p_time))
__CPROVER_assigns()
__CPROVER_ensures(__CPROVER_return_value == (p_time < 0.0 ? 0.0 : p_time) && __CPROVER_return_value >= 0.0)
;
void h_settime(void) { double p_time; w_settime(p_time); CANARY(); }
#endif

#ifdef INST_SETITER
/* a negative iteration limit means "no limit" and is normalised to -1; anything else is stored as given */
int w_setiter(int p_iteration)
__CPROVER_assigns()
__CPROVER_ensures(__CPROVER_return_value == (p_iteration < 0 ? -1 : p_iteration) && __CPROVER_return_value >= -1)
;
void h_setiter(void) { int p_iteration; w_setiter(p_iteration); CANARY(); }
#endif

/* ===================================================================================================================== */
#ifdef INST_GATE
/* PROPERTY (C16): in the simplex loop of solve() a pivot (enter() resp. leave()) is started only while the iteration limit - if
   one is set (>= 0) - has not been reached and the interrupt flag - if one is given - is not raised; otherwise the loop is left
   with the corresponding abort status (iteration limit: ABORT_ITER; interrupt: ABORT_TIME) and `stop` set.
   By induction over the pivots (each raises iteration() by one: SPxBasisBase::change, not under contract) no more than maxIters
   iterations are performed in this loop. */
#define ITER_STOP (maxIters >= 0 && iterCount >= maxIters)
#define INTR_STOP (haveInterrupt && flag)
int w_gate(int maxIters, int iterCount, int haveInterrupt, int flag, int* m_status, int* stop)
__CPROVER_requires(__CPROVER_is_fresh(m_status, sizeof(int)) && __CPROVER_is_fresh(stop, sizeof(int)))
__CPROVER_requires((haveInterrupt == 0 || haveInterrupt == 1) && (flag == 0 || flag == 1) && (*stop == 0 || *stop == 1))
__CPROVER_assigns(*m_status, *stop)
__CPROVER_ensures((__CPROVER_return_value == 1) == (!ITER_STOP && !INTR_STOP) && (__CPROVER_return_value == 0 || __CPROVER_return_value == 1))
__CPROVER_ensures(__CPROVER_return_value == 1 ==> (*m_status == __CPROVER_old(*m_status) && *stop == __CPROVER_old(*stop)))
__CPROVER_ensures(ITER_STOP ==> (*m_status == ST_ABORT_ITER && *stop == 1))
__CPROVER_ensures((!ITER_STOP && INTR_STOP) ==> (*m_status == ST_ABORT_TIME && *stop == 1))
/* a pivot is never started with the limit already used up */
__CPROVER_ensures((__CPROVER_return_value == 1 && maxIters >= 0) ==> iterCount < maxIters)
;
void h_gate(void)
{
   int maxIters, iterCount, haveInterrupt, flag; int* m_status; int* stop;
   w_gate(maxIters, iterCount, haveInterrupt, flag, m_status, stop);
   CANARY();
}
#endif
