#!/usr/bin/env python3
"""Writes unit.json for units/spxterm."""
import json
import os

SOLVE = "src/soplex/spxsolve.hpp"
SOLVER = "src/soplex/spxsolver.hpp"
SOLVER_H = "src/soplex/spxsolver.h"
BASIS_H = "src/soplex/spxbasis.h"

extracts = [
    {"as": "SolverStatus.inc", "file": SOLVER_H, "regex": r"enum Status\s*\{\s*ERROR.*?\};"},
    {"as": "SolverType.inc", "file": SOLVER_H, "regex": r"enum Type\s*\{.*?\};"},
    {"as": "SolverRep.inc", "file": SOLVER_H, "regex": r"enum Representation\s*\{.*?\};"},
    {"as": "SolverPricing.inc", "file": SOLVER_H, "regex": r"enum Pricing\s*\{.*?\};"},
    {"as": "SPxStatus.inc", "file": BASIS_H, "regex": r"enum SPxStatus\s*\{.*?\};"},
    {"as": "SPxSense.inc", "file": "src/soplex/spxlpbase.h", "regex": r"enum SPxSense\s*\{.*?\};"},
]
constants = [
    {"name": "VERIF_SOPLEX_INFINITY", "file": "src/soplex/spxdefines.h", "regex": r"typedef\s+double\s+Real;.*?#define\s+SOPLEX_DEFAULT_INFINITY\s+([0-9.eE+]+)\s"},
    {"name": "VERIF_MAXNCLCKSKIPS", "file": SOLVER_H, "regex": r"#define\s+SOPLEX_MAXNCLCKSKIPS\s+(\d+)\s"},
    {"name": "VERIF_SAFETYFACTOR", "file": SOLVER_H, "regex": r"#define\s+SOPLEX_SAFETYFACTOR\s+([0-9.eE+-]+)\s"},
    {"name": "VERIF_NINITCALLS", "file": SOLVER_H, "regex": r"#define\s+SOPLEX_NINITCALLS\s+(\d+)\s"},
]


def conf(file, regex, why, absent=False):
    d = {"file": file, "regex": regex, "why": why}
    if absent:
        d["absent"] = True
    return d


conformance = [
    conf("src/soplex/spxdefines.cpp", r"const\s+Real\s+infinity\s*=\s*SOPLEX_DEFAULT_INFINITY\s*;", "`infinity` is SOPLEX_DEFAULT_INFINITY"),
    conf(SOLVER_H, r"class\s+SPxSolverBase\s*:\s*public\s+SPxLPBase<R>,\s*protected\s+SPxBasisBase<R>", "real hierarchy (host is linearised, see unit.cpp)"),
    conf(SOLVER_H, r"Status\s+m_status;", "host member"),
    conf(SOLVER_H, r"int\s+maxIters;.*?Real\s+maxTime;.*?int\s+nClckSkipsLeft;.*?long\s+nCallsToTimelim;.*?R\s+objLimit;", "host members and their types (nCallsToTimelim is long)"),
    conf(SOLVER_H, r"VectorBase<R>\*\s*theFrhs;.*?UpdateVector<R>\*\s*theFvec;.*?VectorBase<R>\*\s*theCoPrhs;\s*UpdateVector<R>\*\s*theCoPvec;", "vector members (identity only in the stub)"),
    conf(SOLVER_H, r"Representation\s+rep\(\)\s*const", "rep()"),
    conf(SOLVER_H, r"Type\s+type\(\)\s*const", "type()"),
    conf(SOLVER_H, r"Pricing\s+pricing\(\)\s*const", "pricing()"),
    conf(SOLVER_H, r"int\s+dim\(\)\s*const", "dim()"),
    conf(SOLVER_H, r"virtual\s+R\s+value\(\);", "value()"),
    conf(SOLVER_H, r"virtual\s+R\s+shift\(\)\s*const", "shift()"),
    conf(SOLVER_H, r"R\s+epsilon\(\)\s*const", "epsilon()"),
    conf(SOLVER_H, r"virtual\s+bool\s+noViols\(R\s+tol\)\s*const;", "noViols(tol)"),
    conf(SOLVER_H, r"virtual\s+void\s+factorizeAndRecompute\(\);", "factorizeAndRecompute()"),
    conf(SOLVER_H, r"virtual\s+void\s+unShift\(void\);", "unShift()"),
    conf(SOLVER_H, r"bool\s+isTimeLimitReached\(const\s+bool\s+forceCheck\s*=\s*false\);", "isTimeLimitReached default argument"),
    conf(SOLVER_H, r"Real\s+time\(\)\s*const", "time()"),
    conf(SOLVER_H, r"Real\s+cumulativeTime\(\)\s*const", "cumulativeTime()"),
    conf(BASIS_H, r"int\s+iterCount;.*?int\s+lastIterCount;.*?int\s+updateCount;", "basis counters"),
    conf(BASIS_H, r"SPxStatus\s+thestatus;", "basis status member"),
    conf(BASIS_H, r"void\s+coSolve\(VectorBase<R>&\s*x,\s*const\s+VectorBase<R>&\s*rhs\)", "coSolve(x, rhs)"),
    conf(BASIS_H, r"void\s+solve\(VectorBase<R>&\s*x,\s*const\s+VectorBase<R>&\s*rhs\)", "solve(x, rhs)"),
    conf("src/soplex/spxlpbase.h", r"SPxSense\s+spxSense\(\)\s*const", "spxSense()"),
]
trusted = [
    "terminate(): the numerical callees (computeEnterCoPrhs/LeaveCoPrhs, computeFrhs, factorize, coSolve, solve, computePvec, computeCoTest, computeTest, unShift, factorizeAndRecompute, noViols) are recorded no-ops; "
    "shift(), value(), noViols() are arbitrary functions of the PHASE = number of state-changing callees (unShift, factorizeAndRecompute) executed so far - i.e. they are constant between two such calls (shift() and value() are pure reads of the solver state) and arbitrary across them",
    "terminate(): isTimeLimitReached() is an arbitrary recorded answer (its own body is the isTimeLimitReached instance); that value() IS the dual objective of the current basis and noViols() IS dual feasibility is not part of this unit",
    "shift() >= 0 and not NaN (sum of absolute bound changes), tolerances not NaN: stated in requires",
    "isTimeLimitReached(): time() and cumulativeTime() are arbitrary doubles (time() recorded); type invariant of the counters assumed at entry: 0 <= nCallsToTimelim < LONG_MAX, 0 <= nClckSkipsLeft <= SOPLEX_MAXNCLCKSKIPS (preserved, as proved)",
    "SPxOut::debug and SPX_MSG_* compiled out; assert() compiled out; #ifdef ENABLE_ADDITIONAL_CHECKS blocks are not compiled (macro undefined, as in the default build)",
    "solve_gate_* instances: a REGION of solve() (from the comment `check if we have iterations left` up to the pivot call) is compiled inside `switch(0) { default: ... }`, so its `break` statements mean `pivot not reached`; the loop around it, the pricing before and the pivot after it are not part of the unit; iterations() is the real one-line body over the basis counter",
    "the host derives from the basis stub only; spxSense() (an SPxLPBase member in the tree) is a host member returning an arbitrary input in {MINIMIZE, MAXIMIZE}",
]

common = [
    {"as": "basis_status.inc", "file": BASIS_H, "sig": r"SPxStatus\s+status\s*\(\s*\)\s*const", "must_contain": [r"return\s+thestatus;"]},
    {"as": "basis_iteration.inc", "file": BASIS_H, "sig": r"inline\s+int\s+iteration\s*\(\s*\)\s*const", "must_contain": [r"return\s+iterCount;"]},
    {"as": "floatingPointOpttol.inc", "file": "src/soplex/spxdefines.cpp", "sig": r"Real\s+Tolerances::floatingPointOpttol\s*\(\s*\)"},
]


def inst(name, function, define, harness, enforce, slices, mutants, min_obl):
    return {"name": name, "function": function, "defines": {define: ""}, "harness": harness, "enforce": enforce,
            "slices": common + slices, "min_obligations": min_obl, "tier": "quick", "mutants": mutants}


T = "terminate.inc"
TL = "isTimeLimitReached.inc"
instances = [
    inst("terminate", "SPxSolverBase<R>::terminate()  [src/soplex/spxsolve.hpp]", "INST_TERMINATE", "h_terminate", "w_terminate",
         [{"as": T, "file": SOLVE, "sig": r"bool\s+SPxSolverBase<R>::terminate\s*\(\s*\)",
           "must_contain": [r"factorizeAndRecompute\(\);", r"objLimit\s*<\s*R\(infinity\)\s*&&\s*type\(\)\s*\*\s*rep\(\)\s*>\s*0", r"if\(isTimeLimitReached\(\)\)"]}],
         [
             {"name": "time_abort_reported_as_value", "slice": T, "find": "m_status = ABORT_TIME;", "replace": "m_status = ABORT_VALUE;"},
             {"name": "time_limit_negated", "slice": T, "find": "if(isTimeLimitReached())", "replace": "if(!isTimeLimitReached())"},
             {"name": "second_check_dropped", "slice": T, "regex": True,
              "find": r"(// check no violations and objective limit again\s*)if\(shift\(\) < epsilon\(\) && noViols\(tolerances\(\)->floatingPointOpttol\(\) - shift\(\)\)\s*&& int\(this->spxSense\(\)\) \* value\(\) <= int\(this->spxSense\(\)\) \* objLimit\)",
              "replace": r"\1if(true)"},
             {"name": "second_check_without_violation_test", "slice": T, "regex": True,
              "find": r"(// check no violations and objective limit again\s*if\(shift\(\) < epsilon\(\)) && noViols\(tolerances\(\)->floatingPointOpttol\(\) - shift\(\)\)",
              "replace": r"\1"},
             {"name": "second_check_sense_flipped", "slice": T, "regex": True,
              "find": r"(&& int\(this->spxSense\(\)\) \* value\(\)) <= (int\(this->spxSense\(\)\) \* objLimit\))",
              "replace": r"\1 >= \2"},
             {"name": "primal_algorithm_accepted", "slice": T, "find": "type() * rep() > 0", "replace": "type() * rep() < 0"},
             {"name": "tolerance_loosened_by_shift", "slice": T, "regex": True,
              "find": r"(again\s*if\(shift\(\) < epsilon\(\) && noViols\(tolerances\(\)->floatingPointOpttol\(\)) - shift\(\)\)",
              "replace": r"\1 + shift())"},
             {"name": "shift_test_flipped", "slice": T, "regex": True,
              "find": r"(again\s*if\(shift\(\)) < epsilon\(\)", "replace": r"\1 > epsilon()"},
             {"name": "terminal_basis_goes_on", "slice": T, "find": "SPxBasisBase<R>::status() >= SPxBasisBase<R>::OPTIMAL  ||", "replace": "SPxBasisBase<R>::status() > SPxBasisBase<R>::OPTIMAL  ||"},
             {"name": "itercount_not_remembered", "slice": T, "find": "this->lastIterCount = this->iterCount;", "replace": "this->iterCount = this->lastIterCount;"},
         ], 100),
    inst("isTimeLimitReached", "SPxSolverBase<R>::isTimeLimitReached(const bool forceCheck)  [src/soplex/spxsolver.hpp]", "INST_TIMELIM", "h_timelim", "w_timelim",
         [{"as": TL, "file": SOLVER, "sig": r"bool\s+SPxSolverBase<R>::isTimeLimitReached\s*\(\s*const\s+bool\s+forceCheck\s*\)",
           "must_contain": [r"\+\+nCallsToTimelim;", r"if\(currtime\s*>=\s*maxTime\)\s*return\s+true;", r"--nClckSkipsLeft;"]}],
         [
             {"name": "time_test_flipped", "slice": TL, "find": "if(currtime >= maxTime)", "replace": "if(currtime <= maxTime)"},
             {"name": "infinite_limit_test_flipped", "slice": TL, "find": "if(maxTime >= R(infinity))", "replace": "if(maxTime <= R(infinity))"},
             {"name": "skip_counter_incremented", "slice": TL, "find": "--nClckSkipsLeft;", "replace": "++nClckSkipsLeft;"},
             {"name": "skip_counter_goes_negative", "slice": TL, "find": "nClckSkipsLeft <= 0)", "replace": "nClckSkipsLeft < 0)"},
             {"name": "force_ignored", "slice": TL, "find": "if(forceCheck ||", "replace": "if(!forceCheck ||"},
             {"name": "true_without_clock", "slice": TL, "find": "else\n         --nClckSkipsLeft;", "replace": "else\n         return true;"},
         ], 20),
    inst("setTerminationTime", "SPxSolverBase<R>::setTerminationTime(Real p_time)  [src/soplex/spxsolver.hpp]", "INST_SETTIME", "h_settime", "w_settime",
         [{"as": "setTerminationTime.inc", "file": SOLVER, "sig": r"void\s+SPxSolverBase<R>::setTerminationTime\s*\(\s*Real\s+p_time\s*\)"}],
         [
             {"name": "clamp_flipped", "slice": "setTerminationTime.inc", "find": "if(p_time < 0.0)", "replace": "if(p_time > 0.0)"},
             {"name": "not_stored", "slice": "setTerminationTime.inc", "find": "maxTime = p_time;", "replace": "p_time = maxTime;"},
         ], 3),
    inst("setTerminationIter", "SPxSolverBase<R>::setTerminationIter(int p_iteration)  [src/soplex/spxsolver.hpp]", "INST_SETITER", "h_setiter", "w_setiter",
         [{"as": "setTerminationIter.inc", "file": SOLVER, "sig": r"void\s+SPxSolverBase<R>::setTerminationIter\s*\(\s*int\s+p_iteration\s*\)"}],
         [
             {"name": "zero_means_unlimited", "slice": "setTerminationIter.inc", "find": "if(p_iteration < 0)", "replace": "if(p_iteration <= 0)"},
             {"name": "negative_normalised_to_zero", "slice": "setTerminationIter.inc", "find": "p_iteration = -1;", "replace": "p_iteration = 0;"},
         ], 3),
]

GATE_MUT = [
    {"name": "limit_off_by_one", "find": "iterations() >= maxIters", "replace": "iterations() > maxIters"},
    {"name": "zero_limit_unlimited", "find": "if(maxIters >= 0 &&", "replace": "if(maxIters > 0 &&"},
    {"name": "iter_abort_reported_as_time", "find": "m_status = ABORT_ITER;", "replace": "m_status = ABORT_TIME;"},
    {"name": "interrupt_negated", "find": "interrupt != nullptr && *interrupt", "replace": "interrupt != nullptr && !*interrupt"},
    {"name": "interrupt_does_not_stop", "find": "m_status = ABORT_TIME;\n                  stop = true;\n                  break;", "replace": "m_status = ABORT_TIME;\n                  stop = true;"},
]
GATE_MUST = [r"if\(maxIters\s*>=\s*0\s*&&\s*iterations\(\)\s*>=\s*maxIters\)", r"m_status\s*=\s*ABORT_ITER;\s*stop\s*=\s*true;\s*break;", r"if\(interrupt\s*!=\s*nullptr\s*&&\s*\*interrupt\)"]
ITER_SLICE = {"as": "iterations.inc", "file": SOLVER_H, "sig": r"int\s+iterations\s*\(\s*\)\s*const", "must_contain": [r"return\s+basis\(\)\.iteration\(\);"]}
START = r"/\* check if we have iterations left \*/"
for nm, start, end, what in (
        ("solve_gate_enter", START, r"enter\(enterId\);", "entering"),
        ("solve_gate_leave", START + r"(?=(?:(?!enter\(enterId\);).)*?leave\(leaveNum\);)", r"leave\(leaveNum\);", "leaving")):
    d = inst(nm, "SPxSolverBase<R>::solve(volatile bool* interrupt, bool polish), region between pricing and the pivot of the %s simplex loop "
             "(`/* check if we have iterations left */` .. the pivot call)  [src/soplex/spxsolve.hpp]" % what,
             "INST_GATE", "h_gate", "w_gate",
             [ITER_SLICE, {"as": nm + ".inc", "file": SOLVE, "region_start": start, "region_end": end, "must_contain": GATE_MUST}],
             [dict(m, slice=nm + ".inc") for m in GATE_MUT], 10)
    d["defines"]["SLICE"] = "\"%s.inc\"" % nm
    instances.append(d)

unit = {
    "property": ["C16"],
    "desc": "stopping tests of SPxSolverBase<R>: terminate() and the iteration-limit / interrupt gate before each pivot of solve() (spxsolve.hpp), isTimeLimitReached / setTerminationTime / setTerminationIter (spxsolver.hpp)",
    "rmode": "double (IEEE, bit-precise)",
    "flags": ["--bounds-check", "--pointer-check", "--signed-overflow-check", "--div-by-zero-check"],
    "timeout_s": 240,
    "extracts": extracts, "constants": constants, "conformance": conformance, "trusted": trusted, "instances": instances,
}
json.dump(unit, open(os.path.join(os.path.dirname(os.path.abspath(__file__)), "unit.json"), "w"), indent=1)
print("wrote unit.json with", len(instances), "instances")
