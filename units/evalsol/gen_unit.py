#!/usr/bin/env python3
"""Writes unit.json for units/evalsol (kept as a script because the common slices / extracts repeat per instance)."""
import json
import os

HPP = "src/soplex.hpp"
SR = "src/soplex/solvereal.hpp"
SOLVER_H = "src/soplex/spxsolver.h"

extracts = [
    {"as": "SimplifierResult.inc", "file": "src/soplex/spxsimplifier.h", "regex": r"enum Result\s*\{.*?\};"},
    {"as": "SolverStatus.inc", "file": SOLVER_H, "regex": r"enum Status\s*\{\s*ERROR.*?\};"},
    {"as": "VarStatus.inc", "file": SOLVER_H, "regex": r"enum VarStatus\s*\{.*?\};"},
    {"as": "SPxStatus.inc", "file": "src/soplex/spxbasis.h", "regex": r"enum SPxStatus\s*\{.*?\};"},
    {"as": "BoolParam.inc", "file": "src/soplex.h", "regex": r"typedef enum\s*\{(?:(?!typedef enum).)*?\}\s*BoolParam;"},
    {"as": "IntParam.inc", "file": "src/soplex.h", "regex": r"typedef enum\s*\{(?:(?!typedef enum).)*?\}\s*IntParam;"},
    {"as": "RealParam.inc", "file": "src/soplex.h", "regex": r"typedef enum\s*\{(?:(?!typedef enum).)*?\}\s*RealParam;"},
    {"as": "ObjSense.inc", "file": "src/soplex.h", "regex": r"enum\s*\{[^{}]*?OBJSENSE_MINIMIZE[^{}]*?OBJSENSE_MAXIMIZE[^{}]*?\};"},
]

common = [
    {"as": "boolParam.inc", "file": HPP, "sig": r"bool\s+SoPlexBase<R>::boolParam\s*\(\s*const\s+BoolParam\s+param\s*\)\s*const",
     "must_contain": [r"_currentSettings->_boolParamValues\[param\]"]},
    {"as": "intParam.inc", "file": HPP, "sig": r"int\s+SoPlexBase<R>::intParam\s*\(\s*const\s+IntParam\s+param\s*\)\s*const"},
    {"as": "realParam.inc", "file": HPP, "sig": r"Real\s+SoPlexBase<R>::realParam\s*\(\s*const\s+RealParam\s+param\s*\)\s*const"},
    {"as": "status.inc", "file": HPP, "sig": r"typename\s+SPxSolverBase<R>::Status\s+SoPlexBase<R>::status\s*\(\s*\)\s*const",
     "must_contain": [r"return\s+_status;"]},
]


def conf(file, regex, why, absent=False):
    d = {"file": file, "regex": regex, "why": why}
    if absent:
        d["absent"] = True
    return d


conformance = [
    conf("src/soplex.h", r"bool\s+_hasBasis;\s*bool\s+_hasSolReal;", "host members"),
    conf("src/soplex.h", r"bool\s+_isRealLPLoaded;", "host member"),
    conf("src/soplex.h", r"bool\s+_isRealLPScaled;\s*bool\s+_applyPolishing;", "host members"),
    conf("src/soplex.h", r"typename\s+SPxSolverBase<R>::Status\s+_status;", "host member"),
    conf("src/soplex.h", r"int\s+_unscaleCalls;", "host member"),
    conf("src/soplex.h", r"SPxSolverBase<R>\s+_solver;", "_solver is held by value"),
    conf("src/soplex.h", r"SPxLPBase<R>\*\s*_realLP;\s*SPxSimplifier<R>\*\s*_simplifier;\s*SPxScaler<R>\*\s*_scaler;", "pointer members tested against nullptr / &_solver"),
    conf("src/soplex.h", r"bool\s+_boolParamValues\[SoPlexBase<R>::BOOLPARAM_COUNT\];", "SettingsStub"),
    conf("src/soplex.h", r"int\s+_intParamValues\[SoPlexBase<R>::INTPARAM_COUNT\];", "SettingsStub"),
    conf("src/soplex.h", r"Real\s+_realParamValues\[SoPlexBase<R>::REALPARAM_COUNT\];", "SettingsStub"),
    conf("src/soplex.h", r"void\s+_preprocessAndSolveReal\(bool\s+applyPreprocessing,\s*volatile\s+bool\*\s*interrupt\s*=\s*nullptr\);", "stub signature (argument false = no simplifier/scaler)"),
    conf("src/soplex.h", r"void\s+_resolveWithoutPreprocessing\(typename\s+SPxSimplifier<R>::Result\s+simplificationStatus\);", "stub signature"),
    conf("src/soplex.h", r"void\s+_storeSolutionReal\(bool\s+verify\s*=\s*true\);", "stub signature"),
    conf("src/soplex.h", r"void\s+_storeSolutionRealFromPresol\(\);", "stub signature"),
    conf("src/soplex.h", r"void\s+_loadRealLP\(bool\s+initBasis\);", "stub signature"),
    conf("src/soplex.h", r"void\s+_unscaleSolutionReal\(SPxLPBase<R>&\s*LP,\s*bool\s+persistent\s*=\s*true\);", "stub signature"),
    conf("src/soplex.h", r"void\s+_verifySolutionReal\(\);", "stub signature"),
    conf("src/soplex.h", r"void\s+_verifyObjLimitReal\(\);", "stub signature"),
    conf("src/soplex.h", r"bool\s+setIntParam\(const\s+IntParam\s+param,\s*const\s+int\s+value,\s*const\s+bool\s+init\s*=\s*true\);", "stub signature and default"),
    conf(SR, r"void\s+SoPlexBase<R>::_loadRealLP\(bool\s+initBasis\)\s*\{\s*_solver\.loadLP\(\*_realLP,\s*initBasis\);\s*_isRealLPLoaded\s*=\s*true;[^}]*_realLP\s*=\s*&_solver;",
         "_loadRealLP stub: sets _isRealLPLoaded and _realLP = &_solver, does not touch _status / _hasBasis"),
    conf(SOLVER_H, r"Status\s+status\(\)\s*const;", "_solver.status()"),
    conf(SOLVER_H, r"R\s+epsilon\(\)\s*const", "_solver.epsilon()"),
    conf(SOLVER_H, r"virtual\s+R\s+shift\(\)\s*const", "_solver.shift()"),
    conf(SOLVER_H, r"void\s+setBasisStatus\(typename\s+SPxBasisBase<R>::SPxStatus\s+stat\)", "_solver.setBasisStatus"),
    conf(SOLVER_H, r"typename\s+SPxBasisBase<R>::SPxStatus\s+getBasisStatus\(\)\s*const", "_solver.getBasisStatus"),
    conf(SOLVER_H, r"virtual\s+Status\s+getPrimalray\(VectorBase<R>&\s*vector\)\s*const;", "_solver.getPrimalray"),
    conf(SOLVER_H, r"virtual\s+Status\s+getDualfarkas\(VectorBase<R>&\s*vector\)\s*const;", "_solver.getDualfarkas"),
    conf(SOLVER_H, r"Status\s+getBasis\(VarStatus\s+rows\[\],\s*VarStatus\s+cols\[\],\s*const\s+int\s+rowsSize\s*=\s*-1,", "_solver.getBasis"),
    conf(SOLVER_H, r"void\s+toggleTerminationValue\(bool\s+enable\)", "_solver.toggleTerminationValue"),
    conf(SOLVER_H, r"void\s+unscaleLPandReloadBasis\(\);", "_solver.unscaleLPandReloadBasis"),
    conf("src/soplex/spxlpbase.h", r"void\s+changeObjOffset\(const\s+T&\s*o\)", "_solver.changeObjOffset"),
    conf("src/soplex/solbase.h", r"bool\s+isPrimalFeasible\(\)\s*const\s*\{\s*return\s+_isPrimalFeasible;", "SolStub"),
    conf("src/soplex/solbase.h", r"bool\s+isDualFeasible\(\)\s*const\s*\{\s*return\s+_isDualFeasible;", "SolStub"),
    conf("src/soplex/solbase.h", r"VectorBase<R>\s+_primal;\s*VectorBase<R>\s+_slacks;\s*VectorBase<R>\s+_primalRay;\s*VectorBase<R>\s+_dual;\s*VectorBase<R>\s+_redCost;\s*VectorBase<R>\s+_dualFarkas;\s*R\s+_objVal;", "SolStub members"),
    conf("src/soplex/spxsimplifier.h", r"virtual\s+void\s+unsimplify\(const\s+VectorBase<R>&,\s*const\s+VectorBase<R>&,\s*const\s+VectorBase<R>&,\s*const\s+VectorBase<R>&,\s*const\s+typename\s+SPxSolverBase<R>::VarStatus\[\],\s*const\s+typename\s+SPxSolverBase<R>::VarStatus\[\],\s*bool\s+isOptimal\s*=\s*true\)", "SimplifierStub::unsimplify"),
    conf("src/soplex/spxmainsm.hpp", r"void\s+SPxMainSM<R>::unsimplify\(const\s+VectorBase<R>&\s*x,\s*const\s+VectorBase<R>&\s*y,\s*const\s+VectorBase<R>&\s*s,\s*const\s+VectorBase<R>&\s*r,", "argument order primal, dual, slacks, reduced costs"),
    conf("src/soplex/statistics.h", r"Timer\*\s*solvingTime;", "StatStub"),
    conf(SOLVER_H, r"int\s+maxIters;.*?Real\s+maxTime;", "SolverStubL members"),
    conf("src/soplex/statistics.h", r"int\s+iterations;.*?int\s+refinements;.*?int\s+stallRefinements;", "StatStub"),
]

trusted = [
    "every callee of the functions under contract is a ghost-recording stub: it appends (kind, arguments, _status/_hasBasis/_isRealLPLoaded at entry) to an event log; the contracts are statements about this log",
    "callees that may run a complete re-solve (_preprocessAndSolveReal, _resolveWithoutPreprocessing, _storeSolutionReal, _storeSolutionRealFromPresol, _verifySolutionReal, _verifyObjLimitReal) leave ARBITRARY values in _status, _hasBasis, _applyPolishing, _isRealLPLoaded (recorded); the contracts say which callee's leftovers the final state is",
    "_loadRealLP(initBasis): stub sets _isRealLPLoaded = true (and _realLP = &_solver in the store instance), conformance-checked against the real five-line body; it does not touch _status/_hasBasis",
    "_solver.status(), shift(), epsilon(), basis().status(), getBasisStatus(), isScaled(), nRows(), nCols(), objValue() are arbitrary inputs; that the solver's own status is right is C01/C04 (units solextract, basis_solver) resp. not covered",
    "store instance: try { _simplifier->unsimplify(..); } catch(const SPxException&) { H } is compiled as `{ unsimplify(..); } if(threw) { H }` with `threw` chosen arbitrarily by the unsimplify stub (CBMC's C++ front end has no exceptions); exact because the call is the only statement of the try block (must_contain) and a throwing unsimplify writes nothing the handler or the remaining code reads; an exception of another type / from another callee is not modelled",
    "store instance: vectors are (dimension, identity) pairs; VectorBase assignment from the simplifier's result vectors is a recorded event; getPrimalray / getDualfarkas / the four getters are recorded with the identity and dimension of the vector they were handed (their bodies: unit solextract for the getters; getPrimalray/getDualfarkas copy primalRay/dualFarkas, not under contract)",
    "type invariant assumed at entry of _storeSolutionReal: _isRealLPLoaded <=> _realLP == &_solver (established by _loadRealLP / _preprocessAndSolveReal)",
    "verifyObjLimit instance: getDualViolation / getRedCostViolation are replaced by the caller-side part of the contract proved on their real bodies in units/verifynet (on failure nothing is written, on success the maximum is >= 0)",
    "solveRealLP_limits instance: a REGION of _solveRealLPAndRecordStatistics (the limit hand-over) with the real setters; assumed driver invariant: recorded iterations <= a set ITERLIMIT (without it a negative remainder becomes `no limit`); parameter domains as enforced by setIntParam/setRealParam (C15)",
    "SPX_MSG_* logging compiled out; assert() compiled out (NDEBUG semantics)",
]


def inst(name, function, define, harness, enforce, slices, mutants, min_obl, replace=None, tier="quick"):
    d = {"name": name, "function": function, "defines": {define: ""}, "harness": harness, "enforce": enforce,
         "slices": common + slices, "min_obligations": min_obl, "tier": tier, "mutants": mutants}
    if replace:
        d["replace"] = replace
    return d


instances = [
    inst("evaluateSolutionReal",
         "SoPlexBase<R>::_evaluateSolutionReal(typename SPxSimplifier<R>::Result simplificationStatus)  [src/soplex/solvereal.hpp]",
         "INST_EVAL", "h_eval", "w_eval",
         [{"as": "_evaluateSolutionReal.inc", "file": SR,
           "sig": r"void\s+SoPlexBase<R>::_evaluateSolutionReal\s*\(\s*typename\s+SPxSimplifier<R>::Result\s+simplificationStatus\s*\)",
           "must_contain": [r"boolParam\(SoPlexBase<R>::ENSURERAY\)", r"_status\s*=\s*_solver\.status\(\);", r"case\s+SPxSolverBase<R>::ABORT_TIME:"]}],
         [
             {"name": "simplifier_infeasible_reported_unbounded", "slice": "_evaluateSolutionReal.inc",
              "find": "_status = SPxSolverBase<R>::INFEASIBLE;", "replace": "_status = SPxSolverBase<R>::UNBOUNDED;"},
             {"name": "dual_infeasible_reported_unbounded", "slice": "_evaluateSolutionReal.inc",
              "find": "_status = SPxSolverBase<R>::INForUNBD;", "replace": "_status = SPxSolverBase<R>::UNBOUNDED;"},
             {"name": "ensureray_negated", "slice": "_evaluateSolutionReal.inc",
              "find": "if(boolParam(SoPlexBase<R>::ENSURERAY))", "replace": "if(!boolParam(SoPlexBase<R>::ENSURERAY))"},
             {"name": "ensureray_ignored_for_solver_verdict", "slice": "_evaluateSolutionReal.inc",
              "find": "if(!_isRealLPLoaded && boolParam(SoPlexBase<R>::ENSURERAY))", "replace": "if(!_isRealLPLoaded && !boolParam(SoPlexBase<R>::ENSURERAY))"},
             {"name": "vanished_not_optimal", "slice": "_evaluateSolutionReal.inc",
              "find": "_status = SPxSolverBase<R>::OPTIMAL;", "replace": "_status = SPxSolverBase<R>::UNKNOWN;"},
             {"name": "abort_time_dropped", "slice": "_evaluateSolutionReal.inc",
              "find": "case SPxSolverBase<R>::ABORT_TIME:", "replace": ""},
             {"name": "abort_iter_overwritten_optimal", "slice": "_evaluateSolutionReal.inc",
              "find": "case SPxSolverBase<R>::ABORT_ITER:", "replace": "case SPxSolverBase<R>::ABORT_ITER: _status = SPxSolverBase<R>::OPTIMAL;"},
             {"name": "abort_value_unverified", "slice": "_evaluateSolutionReal.inc",
              "find": "_storeSolutionReal(true);\n      break;", "replace": "_storeSolutionReal(false);\n      break;"},
             {"name": "shift_test_flipped", "slice": "_evaluateSolutionReal.inc",
              "find": "if(_solver.shift() > _solver.epsilon())\n         _solver.setBasisStatus(SPxBasisBase<R>::REGULAR);\n\n      _storeSolutionReal(false);",
              "replace": "if(_solver.shift() < _solver.epsilon())\n         _solver.setBasisStatus(SPxBasisBase<R>::REGULAR);\n\n      _storeSolutionReal(false);"},
             {"name": "cycling_renamed_optimal", "slice": "_evaluateSolutionReal.inc",
              "find": "_status = SPxSolverBase<R>::OPTIMAL_UNSCALED_VIOLATIONS;", "replace": "_status = SPxSolverBase<R>::OPTIMAL;"},
         ], 60),
    inst("storeSolutionReal",
         "SoPlexBase<R>::_storeSolutionReal(bool verify)  [src/soplex/solvereal.hpp] (whole body)",
         "INST_STORE", "h_store", "w_store",
         [{"as": "_storeSolutionReal.inc", "file": SR,
           "sig": r"void\s+SoPlexBase<R>::_storeSolutionReal\s*\(\s*bool\s+verify\s*\)",
           "must_contain": [r"_solReal\._hasPrimalRay\s*=\s*\(status\(\)\s*==\s*SPxSolverBase<R>::UNBOUNDED\s*&&\s*_isRealLPLoaded\);",
                            r"_solReal\._hasDualFarkas\s*=\s*\(status\(\)\s*==\s*SPxSolverBase<R>::INFEASIBLE\s*&&\s*_isRealLPLoaded\);",
                            r"try\s*\{\s*(?://[^\n]*\n\s*)*_simplifier->unsimplify\([^;]*;\s*\}\s*catch\(const\s+SPxException&\s*E\)",
                            r"if\(_status\s*==\s*SPxSolverBase<R>::ABORT_VALUE\)\s*_verifyObjLimitReal\(\);"]}],
         [
             {"name": "ray_for_infeasible", "slice": "_storeSolutionReal.inc",
              "find": "_solReal._hasPrimalRay = (status() == SPxSolverBase<R>::UNBOUNDED", "replace": "_solReal._hasPrimalRay = (status() == SPxSolverBase<R>::INFEASIBLE"},
             {"name": "farkas_without_loaded_lp", "slice": "_storeSolutionReal.inc",
              "find": "_solReal._hasDualFarkas = (status() == SPxSolverBase<R>::INFEASIBLE && _isRealLPLoaded);",
              "replace": "_solReal._hasDualFarkas = (status() == SPxSolverBase<R>::INFEASIBLE);"},
             {"name": "farkas_fetched_on_ray_flag", "slice": "_storeSolutionReal.inc",
              "find": "if(_solReal._hasDualFarkas)", "replace": "if(_solReal._hasPrimalRay)"},
             {"name": "farkas_into_ray_vector", "slice": "_storeSolutionReal.inc",
              "find": "_solver.getDualfarkas(_solReal._dualFarkas);", "replace": "_solver.getDualfarkas(_solReal._primalRay);"},
             {"name": "ray_dimension_rows", "slice": "_storeSolutionReal.inc",
              "find": "_solReal._primalRay.reDim(_solver.nCols(), false);", "replace": "_solReal._primalRay.reDim(_solver.nRows(), false);"},
             {"name": "objlimit_check_dispatch_flipped", "slice": "_storeSolutionReal.inc",
              "find": "if(_status == SPxSolverBase<R>::ABORT_VALUE)", "replace": "if(_status != SPxSolverBase<R>::ABORT_VALUE)"},
             {"name": "verify_ignored", "slice": "_storeSolutionReal.inc",
              "find": "if(verify)", "replace": "if(!verify)"},
             {"name": "dual_primal_swapped_in_unsimplify", "slice": "_storeSolutionReal.inc",
              "find": "_simplifier->unsimplify(_solReal._primal, _solReal._dual, _solReal._slacks,", "replace": "_simplifier->unsimplify(_solReal._primal, _solReal._slacks, _solReal._dual,"},
         ], 100, tier="quick"),
    inst("verifyObjLimitReal",
         "SoPlexBase<R>::_verifyObjLimitReal()  [src/soplex/solvereal.hpp]",
         "INST_OBJLIM", "h_objlim", "w_objlim",
         [{"as": "floatingPointOpttol.inc", "file": "src/soplex/spxdefines.cpp", "sig": r"Real\s+Tolerances::floatingPointOpttol\s*\(\s*\)"},
          {"as": "_verifyObjLimitReal.inc", "file": SR, "sig": r"void\s+SoPlexBase<R>::_verifyObjLimitReal\s*\(\s*\)",
           "must_contain": [r"getDualViolation\(dualviol,\s*sumviol\)", r"getRedCostViolation\(redcostviol,\s*sumviol\)", r"_preprocessAndSolveReal\(false\);"]}],
         [
             {"name": "dual_test_flipped", "slice": "_verifyObjLimitReal.inc",
              "find": "dualviol >= _solver.tolerances()->floatingPointOpttol()", "replace": "dualviol <= _solver.tolerances()->floatingPointOpttol()"},
             {"name": "redcost_failure_ignored", "slice": "_verifyObjLimitReal.inc",
              "find": "if(!getRedCostViolation(redcostviol, sumviol))", "replace": "if(getRedCostViolation(redcostviol, sumviol))"},
             {"name": "redcost_not_compared", "slice": "_verifyObjLimitReal.inc",
              "find": "|| redcostviol >= _solver.tolerances()->floatingPointOpttol()", "replace": "|| dualviol >= _solver.tolerances()->floatingPointOpttol()"},
             {"name": "limit_not_disabled", "slice": "_verifyObjLimitReal.inc",
              "find": "_solver.toggleTerminationValue(false);", "replace": "_solver.toggleTerminationValue(true);"},
         ], 40, replace=["c_getDualViolation", "c_getRedCostViolation"]),
    inst("isSolveStopped",
         "SoPlexBase<R>::_isSolveStopped(bool& stoppedTime, bool& stoppedIter) const  [src/soplex.hpp]",
         "INST_STOPPED", "h_stopped", "w_stopped",
         [{"as": "_isSolveStopped.inc", "file": HPP,
           "sig": r"bool\s+SoPlexBase<R>::_isSolveStopped\s*\(\s*bool&\s*stoppedTime\s*,\s*bool&\s*stoppedIter\s*\)\s*const",
           "must_contain": [r"realParam\(TIMELIMIT\)", r"intParam\(ITERLIMIT\)"]}],
         [
             {"name": "time_test_flipped", "slice": "_isSolveStopped.inc",
              "find": "_statistics->solvingTime->time() >= realParam(TIMELIMIT)", "replace": "_statistics->solvingTime->time() <= realParam(TIMELIMIT)"},
             {"name": "iterlimit_zero_unlimited", "slice": "_isSolveStopped.inc",
              "find": "intParam(ITERLIMIT) >= 0", "replace": "intParam(ITERLIMIT) > 0"},
             {"name": "iter_off_by_one", "slice": "_isSolveStopped.inc",
              "find": "_statistics->iterations >= intParam(ITERLIMIT)", "replace": "_statistics->iterations > intParam(ITERLIMIT)"},
             {"name": "flags_anded", "slice": "_isSolveStopped.inc",
              "find": "return stoppedTime || stoppedIter;", "replace": "return stoppedTime && stoppedIter;"},
             {"name": "infinite_limit_not_exempt", "slice": "_isSolveStopped.inc",
              "find": "realParam(TIMELIMIT) < realParam(INFTY)", "replace": "realParam(TIMELIMIT) <= realParam(INFTY)"},
         ], 10),
    inst("solveRealLP_limits",
         "SoPlexBase<R>::_solveRealLPAndRecordStatistics(volatile bool* interrupt), region `set time and iteration limit`  [src/soplex.hpp]; "
         "SPxSolverBase<R>::setTerminationIter, setTerminationTime  [src/soplex/spxsolver.hpp]",
         "INST_LIMITS", "h_limits", "w_limits",
         [{"as": "setTerminationIter.inc", "file": "src/soplex/spxsolver.hpp", "sig": r"void\s+SPxSolverBase<R>::setTerminationIter\s*\(\s*int\s+p_iteration\s*\)"},
          {"as": "setTerminationTime.inc", "file": "src/soplex/spxsolver.hpp", "sig": r"void\s+SPxSolverBase<R>::setTerminationTime\s*\(\s*Real\s+p_time\s*\)"},
          {"as": "solveRealLP_limits.inc", "file": HPP, "region_start": r"// set time and iteration limit\s*if\(intParam\(SoPlexBase<R>::ITERLIMIT\) < realParam\(SoPlexBase<R>::INFTY\)\)\s*_solver\.setTerminationIter",
           "region_end": r"// ensure that tolerances are not too small",
           "must_contain": [r"_solver\.setTerminationIter\(intParam\(SoPlexBase<R>::ITERLIMIT\)\s*-\s*_statistics->iterations\);",
                            r"_solver\.setTerminationTime\(Real\(realParam\(SoPlexBase<R>::TIMELIMIT\)\)\s*-\s*_statistics->solvingTime->time\(\)\);"]}],
         [
             {"name": "full_limit_for_every_resolve", "slice": "solveRealLP_limits.inc",
              "find": "_solver.setTerminationIter(intParam(SoPlexBase<R>::ITERLIMIT) - _statistics->iterations);", "replace": "_solver.setTerminationIter(intParam(SoPlexBase<R>::ITERLIMIT));"},
             {"name": "remainder_sign_flipped", "slice": "solveRealLP_limits.inc",
              "find": "_solver.setTerminationIter(intParam(SoPlexBase<R>::ITERLIMIT) - _statistics->iterations);", "replace": "_solver.setTerminationIter(_statistics->iterations - intParam(SoPlexBase<R>::ITERLIMIT));"},
             {"name": "full_time_for_every_resolve", "slice": "solveRealLP_limits.inc",
              "find": "_solver.setTerminationTime(Real(realParam(SoPlexBase<R>::TIMELIMIT)) -\n                                 _statistics->solvingTime->time());", "replace": "_solver.setTerminationTime(Real(realParam(SoPlexBase<R>::TIMELIMIT)) + _statistics->solvingTime->time());"},
             {"name": "time_limit_test_flipped", "slice": "solveRealLP_limits.inc",
              "find": "if(realParam(SoPlexBase<R>::TIMELIMIT) < realParam(SoPlexBase<R>::INFTY))", "replace": "if(realParam(SoPlexBase<R>::TIMELIMIT) > realParam(SoPlexBase<R>::INFTY))"},
             {"name": "negative_iterations_clamped_to_zero_time", "slice": "setTerminationTime.inc", "find": "p_time = 0.0;", "replace": "p_time = -1.0;"},
         ], 10),
]

unit = {
    "property": ["C02", "C16"],
    "desc": "verdict bookkeeping of SoPlexBase<R> around a floating-point solve: _evaluateSolutionReal, _storeSolutionReal (whole body), "
            "_verifyObjLimitReal (solvereal.hpp), _isSolveStopped (soplex.hpp); all callees are ghost-recording stubs, contracts are complete event traces + property clauses",
    "rmode": "double (IEEE, bit-precise)",
    "flags": ["--bounds-check", "--pointer-check", "--signed-overflow-check"],
    "timeout_s": 240,
    "extracts": extracts,
    "conformance": conformance,
    "trusted": trusted,
    "instances": instances,
}
json.dump(unit, open(os.path.join(os.path.dirname(os.path.abspath(__file__)), "unit.json"), "w"), indent=1)
print("wrote unit.json with", len(instances), "instances")
