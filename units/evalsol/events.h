/* Event log shared by unit.cpp (C++) and contract.c (C): capacity and event kinds. */
#ifndef EVALSOL_EVENTS_H
#define EVALSOL_EVENTS_H
#define NEV 8
/* event kinds */
enum
{
   K_RESOLVE = 1,       /* _preprocessAndSolveReal(arg)                 - re-solves */
   K_LOADLP = 2,        /* _loadRealLP(arg)                             - sets _isRealLPLoaded */
   K_STOREPRESOL = 3,   /* _storeSolutionRealFromPresol()               - may re-solve */
   K_STORE = 4,         /* _storeSolutionReal(arg)                      - may re-solve */
   K_RESOLVEWO = 5,     /* _resolveWithoutPreprocessing(arg)            - re-solves */
   K_SETBASIS = 6,      /* _solver.setBasisStatus(arg) */
   K_OBJOFF = 7,        /* _solver.changeObjOffset(.)  (value in g_objoff) */
   K_SETINT = 8,        /* setIntParam(arg, arg2) */
   K_VERIFYOBJ = 9,     /* _verifyObjLimitReal()                        - may re-solve */
   K_VERIFYSOL = 10,    /* _verifySolutionReal()                        - may re-solve */
   K_UNSCALESOL = 11,   /* _unscaleSolutionReal(LP, arg2 = persistent); arg = 1 if LP is _solver, 2 if LP is *_realLP (and not _solver) */
   K_GETRAY = 12,       /* _solver.getPrimalray(v); arg = 1 iff v is _solReal._primalRay, arg2 = v.dim() */
   K_GETFARKAS = 13,    /* _solver.getDualfarkas(v); arg = 1 iff v is _solReal._dualFarkas, arg2 = v.dim() */
   K_GETBASIS = 14,     /* _solver.getBasis(rows, cols, rowsSize, colsSize) */
   K_GETSOL = 15,       /* _solver.getPrimalSol/getSlacks/getDualSol/getRedCostSol; arg = 1..4 iff handed the matching _solReal vector */
   K_UNSIMPLIFY = 16,   /* _simplifier->unsimplify(..., isOptimal = arg2); arg = 1 iff the six arguments are the stored vectors / bases in order */
   K_SIMPBASIS = 17,    /* _simplifier->getBasis(...) */
   K_SETBASISVEC = 18,  /* _solver.setBasis(rows, cols) */
   K_TOGGLEVALUE = 19,  /* _solver.toggleTerminationValue(arg) */
   K_UNSCALELP = 20,    /* _solver.unscaleLPandReloadBasis() */
   K_COPYSOL = 21,      /* (unused) */
   /* kinds used by the by-kind log of the _storeSolutionReal instance */
   K_GETPRIMAL = 22, K_GETSLACKS = 23, K_GETDUAL = 24, K_GETREDCOST = 25,   /* _solver.getPrimalSol/getSlacks/getDualSol/getRedCostSol(v): arg = 1 iff v is the matching _solReal vector, arg2 = v.dim() */
   K_COPYSOL0 = 25,     /* K_COPYSOL0 + k (k = 1..4): _solReal.<k-th vector> = _simplifier->unsimplified<Vector>(): arg = 1 iff source matches target */
   K_UNSCALE_INT = 30,  /* _unscaleSolutionReal(LP, false): arg = 1 iff LP is _solver */
   K_UNSCALE_PERS = 31, /* _unscaleSolutionReal(LP, true):  arg = 1 iff LP is _solver */
   NKIND = 32
};
#endif
