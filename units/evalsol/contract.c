/* C02 / C16: contracts for the verdict bookkeeping around a floating-point solve (R = double).
 * Every callee of the functions under contract is a ghost-recording stub (unit.cpp): event i of a call is
 *   g_ev[i] (kind, events.h), g_arg[i] / g_arg2[i] (arguments), g_st_in[i] / g_hb_in[i] / g_ld_in[i] (_status, _hasBasis,
 *   _isRealLPLoaded when the callee was entered) and, for a callee that may re-solve, g_st_out[i] / g_hb_out[i] / g_ap_out[i] /
 *   g_ld_out[i] (the arbitrary values it left in _status, _hasBasis, _applyPolishing, _isRealLPLoaded).
 * A contract states the complete event trace of each case, plus the property-level clauses (marked PROPERTY) taken from the
 * text of C02 / C16. */
#include "verif_c.h"
#define HAVE_SolverStatus
#define HAVE_SimplifierResult
#define HAVE_SPxStatus
#include "solve_enums_c.h"
#include "IntParam.inc"
#include "events.h"
#include <limits.h>

int g_nev;
int g_ev[NEV], g_arg[NEV], g_arg2[NEV], g_st_in[NEV], g_hb_in[NEV], g_ld_in[NEV], g_st_out[NEV], g_hb_out[NEV], g_ap_out[NEV], g_ld_out[NEV];
double g_objoff;
#define LOG_ASSIGNS g_nev, __CPROVER_object_whole(g_ev), __CPROVER_object_whole(g_arg), __CPROVER_object_whole(g_arg2), \
   __CPROVER_object_whole(g_st_in), __CPROVER_object_whole(g_hb_in), __CPROVER_object_whole(g_ld_in), \
   __CPROVER_object_whole(g_st_out), __CPROVER_object_whole(g_hb_out), __CPROVER_object_whole(g_ap_out), __CPROVER_object_whole(g_ld_out)
#define EV(i, k, a) (g_ev[i] == (k) && g_arg[i] == (a))
#define BOOL01(x) ((x) == 0 || (x) == 1)
#define NOTNAN(x) ((x) == (x))

/* ===================================================================================================================== */
#ifdef INST_EVAL
#define LD0 (__CPROVER_old(*isRealLPLoaded))
#define SIMP3 (simp == SIMP_INFEASIBLE || simp == SIMP_DUAL_INFEASIBLE || simp == SIMP_UNBOUNDED)
/* what the simplifier's verdict means for the user (property text): */
#define VERDICT (simp == SIMP_INFEASIBLE ? ST_INFEASIBLE : simp == SIMP_UNBOUNDED ? ST_UNBOUNDED : ST_INForUNBD)
/* the status the second half works with: the solver's, if the simplifier left a problem to solve */
#define S solverStatus
#define OKAY (simp == SIMP_OKAY)
#define SHIFTED (shift > eps)
#define IS_VERDICT(s) ((s) == ST_UNBOUNDED || (s) == ST_INFEASIBLE || (s) == ST_INForUNBD)
#define PLAIN_ABORT(s) ((s) == ST_ABORT_TIME || (s) == ST_ABORT_ITER || (s) == ST_REGULAR || (s) == ST_RUNNING)
#define CYCLING_FINAL (S == ST_ABORT_CYCLING && LD0 && !isRealLPScaled)      /* cycling on the LP as entered: nothing left to switch off */
#define S2 ((S == ST_ABORT_CYCLING && (pfeas || dfeas)) ? ST_OPTIMAL_UNSCALED_VIOLATIONS : S)
#define HANDLED(s) ((s) == ST_OPTIMAL || IS_VERDICT(s) || (s) == ST_SINGULAR || (s) == ST_ABORT_VALUE || (s) == ST_ABORT_CYCLING || PLAIN_ABORT(s))
/* event i hands a solution/verdict to the storing routines */
#define STORES(i) ((i) < g_nev && (g_ev[i] == K_STORE || g_ev[i] == K_STOREPRESOL))
#define RESOLVES(i) ((i) < g_nev && (g_ev[i] == K_RESOLVE || g_ev[i] == K_RESOLVEWO))
/* no callee that could re-solve ran: the final _status is what this function itself wrote */
#define NOHAVOC (g_nev == 0 || (g_nev == 1 && g_ev[0] == K_LOADLP))

void w_eval(int simp, int* status, int solverStatus, int ensureRay, int* isRealLPLoaded, int isRealLPScaled,
            int* applyPolishing, double shift, double eps, int pfeas, int dfeas, int* hasBasis, int polishing, double objoffset)
__CPROVER_requires(__CPROVER_is_fresh(status, sizeof(int)) && __CPROVER_is_fresh(isRealLPLoaded, sizeof(int)))
__CPROVER_requires(__CPROVER_is_fresh(applyPolishing, sizeof(int)) && __CPROVER_is_fresh(hasBasis, sizeof(int)))
/* the parameter is of the enumeration type SPxSimplifier<R>::Result */
__CPROVER_requires(simp == SIMP_OKAY || simp == SIMP_INFEASIBLE || simp == SIMP_DUAL_INFEASIBLE || simp == SIMP_UNBOUNDED || simp == SIMP_VANISHED)
__CPROVER_requires(BOOL01(ensureRay) && BOOL01(*isRealLPLoaded) && BOOL01(isRealLPScaled) && BOOL01(*applyPolishing) && BOOL01(*hasBasis) && BOOL01(pfeas) && BOOL01(dfeas))
__CPROVER_requires(NOTNAN(objoffset))
__CPROVER_assigns(*status, *isRealLPLoaded, *applyPolishing, *hasBasis, g_objoff, LOG_ASSIGNS)

/* ---- simplifier verdicts ------------------------------------------------------------------------------------------ */
/* PROPERTY (C02): with ENSURERAY a simplifier verdict is not reported without a proof: exactly one re-solve WITHOUT the
   simplifier happens instead, nothing is stored, and this function does not write _status itself */
__CPROVER_ensures((SIMP3 && ensureRay) ==> (g_nev == 1 && EV(0, K_RESOLVE, 0) && g_hb_in[0] == 0 && g_st_in[0] == __CPROVER_old(*status)
                  && *status == g_st_out[0] && *hasBasis == g_hb_out[0]))
/* PROPERTY (C02): INFEASIBLE -> INFEASIBLE, UNBOUNDED -> UNBOUNDED, DUAL_INFEASIBLE -> INForUNBD; no basis; clean solver state */
__CPROVER_ensures((SIMP3 && !ensureRay) ==> (g_nev == 1 && EV(0, K_LOADLP, 0) && *status == VERDICT && g_st_in[0] == VERDICT
                  && *hasBasis == 0 && *isRealLPLoaded == 1))
/* the problem vanished in presolving: OPTIMAL, solution reconstructed from the presolver */
__CPROVER_ensures(simp == SIMP_VANISHED ==> (g_nev == 1 && EV(0, K_STOREPRESOL, 0) && g_st_in[0] == ST_OPTIMAL && *status == g_st_out[0]))

/* ---- the simplex ran: _status = _solver.status() -------------------------------------------------------------------- */
/* OPTIMAL: store (verified iff the LP in the solver is not the user's unscaled LP); then, if polishing is pending, re-solve */
__CPROVER_ensures((OKAY && S == ST_OPTIMAL) ==> (g_nev >= 1 && EV(0, K_STORE, (!LD0 || isRealLPScaled)) && g_st_in[0] == ST_OPTIMAL
                  && (g_ap_out[0] ? (g_nev == 3 && EV(1, K_SETINT, SOLUTION_POLISHING) && g_arg2[1] == polishing && EV(2, K_RESOLVE, 0) && *status == g_st_out[2])
                                  : (g_nev == 1 && *status == g_st_out[0]))))
/* UNBOUNDED / INFEASIBLE / INForUNBD from the simplex */
__CPROVER_ensures((OKAY && IS_VERDICT(S) && !LD0 && ensureRay) ==> (g_nev == 2 && EV(0, K_OBJOFF, 0) && g_objoff == objoffset
                  && EV(1, K_RESOLVEWO, simp) && g_st_in[1] == S && *status == g_st_out[1]))
__CPROVER_ensures((OKAY && IS_VERDICT(S) && !(!LD0 && ensureRay)) ==> (g_nev == 1 && EV(0, K_STORE, 0) && g_st_in[0] == S && g_ld_in[0] == LD0
                  && *status == g_st_out[0]))
/* SINGULAR */
__CPROVER_ensures((OKAY && S == ST_SINGULAR && !LD0) ==> (g_nev == 1 && EV(0, K_RESOLVE, 0) && *status == g_st_out[0]))
__CPROVER_ensures((OKAY && S == ST_SINGULAR && LD0) ==> (g_nev == 0 && *hasBasis == 0 && *status == ST_SINGULAR))
/* ABORT_VALUE: stored WITH verification (-> _verifyObjLimitReal, see w_store) */
__CPROVER_ensures((OKAY && S == ST_ABORT_VALUE && SHIFTED) ==> (g_nev == 2 && EV(0, K_SETBASIS, BS_REGULAR) && EV(1, K_STORE, 1) && g_st_in[1] == S && *status == g_st_out[1]))
__CPROVER_ensures((OKAY && S == ST_ABORT_VALUE && !SHIFTED) ==> (g_nev == 1 && EV(0, K_STORE, 1) && g_st_in[0] == S && *status == g_st_out[0]))
/* ABORT_CYCLING while presolving/scaling is still in the way: store with verification (which triggers the re-solve) */
__CPROVER_ensures((OKAY && S == ST_ABORT_CYCLING && !CYCLING_FINAL) ==> (g_nev == 1 && EV(0, K_STORE, 1) && g_st_in[0] == S && *status == g_st_out[0]))
/* ABORT_TIME / ABORT_ITER / REGULAR / RUNNING, and final cycling: stored as they are, without verification */
__CPROVER_ensures((OKAY && (PLAIN_ABORT(S) || CYCLING_FINAL) && SHIFTED) ==> (g_nev == 2 && EV(0, K_SETBASIS, BS_REGULAR) && EV(1, K_STORE, 0) && g_st_in[1] == S2 && *status == g_st_out[1]))
__CPROVER_ensures((OKAY && (PLAIN_ABORT(S) || CYCLING_FINAL) && !SHIFTED) ==> (g_nev == 1 && EV(0, K_STORE, 0) && g_st_in[0] == S2 && *status == g_st_out[0]))
/* anything else (ERROR, NO_*, NOT_INIT, NO_PROBLEM, UNKNOWN, ...): no solution, no basis */
__CPROVER_ensures((OKAY && !HANDLED(S)) ==> (g_nev == 0 && *hasBasis == 0 && *status == S))

/* ---- PROPERTY clauses, independent of the case table --------------------------------------------------------------- */
/* C02: OPTIMAL is handed to the storing routines only if the presolver solved the LP or the simplex reported OPTIMAL */
__CPROVER_ensures(((STORES(0) && g_st_in[0] == ST_OPTIMAL) || (STORES(1) && g_st_in[1] == ST_OPTIMAL) || (STORES(2) && g_st_in[2] == ST_OPTIMAL))
                  ==> (simp == SIMP_VANISHED || (OKAY && S == ST_OPTIMAL)))
/* C02: this function itself never leaves OPTIMAL behind without storing a solution */
__CPROVER_ensures(NOHAVOC ==> *status != ST_OPTIMAL)
/* C02: INFEASIBLE / UNBOUNDED are handed to the storing routines only if the simplex said so, and are left behind by this
   function itself only for the matching simplifier verdict (without ENSURERAY) */
#define STORES_ST(i, st) (STORES(i) && g_st_in[i] == (st))
__CPROVER_ensures((STORES_ST(0, ST_INFEASIBLE) || STORES_ST(1, ST_INFEASIBLE) || STORES_ST(2, ST_INFEASIBLE)) ==> (OKAY && S == ST_INFEASIBLE))
__CPROVER_ensures((STORES_ST(0, ST_UNBOUNDED) || STORES_ST(1, ST_UNBOUNDED) || STORES_ST(2, ST_UNBOUNDED)) ==> (OKAY && S == ST_UNBOUNDED))
__CPROVER_ensures((NOHAVOC && *status == ST_INFEASIBLE) ==> (simp == SIMP_INFEASIBLE && !ensureRay))
__CPROVER_ensures((NOHAVOC && *status == ST_UNBOUNDED) ==> (simp == SIMP_UNBOUNDED && !ensureRay))
/* C02: with ENSURERAY an INFEASIBLE / UNBOUNDED verdict is never stored while the user's LP is not the one in the solver
   (only then can _storeSolutionReal fetch the Farkas vector / the ray, see w_store): a re-solve on the user's LP happens instead */
#define NOPROOF_STORE(i) (STORES(i) && (g_st_in[i] == ST_INFEASIBLE || g_st_in[i] == ST_UNBOUNDED) && !g_ld_in[i])
__CPROVER_ensures(ensureRay ==> (!NOPROOF_STORE(0) && !NOPROOF_STORE(1) && !NOPROOF_STORE(2)))
__CPROVER_ensures((ensureRay && (SIMP3 || (OKAY && (S == ST_INFEASIBLE || S == ST_UNBOUNDED) && !LD0))) ==> (g_nev >= 1 && g_nev <= 2 && RESOLVES(g_nev - 1) && !STORES(0)))
/* C16: an abort by time / iteration / objective limit reaches _storeSolutionReal unchanged: it is not replaced by OPTIMAL,
   INFEASIBLE or UNBOUNDED, and no re-solve is started from here */
__CPROVER_ensures((OKAY && (S == ST_ABORT_TIME || S == ST_ABORT_ITER || S == ST_ABORT_VALUE)) ==>
                  (g_nev >= 1 && g_nev <= 2 && g_ev[g_nev - 1] == K_STORE && g_st_in[g_nev - 1] == S && !RESOLVES(0) && !RESOLVES(1)
                   && g_arg[g_nev - 1] == (S == ST_ABORT_VALUE)))
/* C16 (valid basis): if bounds are still shifted at the abort, the basis is downgraded to REGULAR (neither primal nor dual
   feasibility is claimed) before anything is stored */
__CPROVER_ensures((OKAY && (PLAIN_ABORT(S) || S == ST_ABORT_VALUE || CYCLING_FINAL) && SHIFTED) ==> (g_nev == 2 && EV(0, K_SETBASIS, BS_REGULAR) && g_ev[1] == K_STORE))
/* the cycling abort is only ever renamed to OPTIMAL_UNSCALED_VIOLATIONS, never to OPTIMAL */
__CPROVER_ensures((OKAY && S == ST_ABORT_CYCLING) ==> (g_nev >= 1 && g_ev[g_nev - 1] == K_STORE && (g_st_in[g_nev - 1] == ST_ABORT_CYCLING || g_st_in[g_nev - 1] == ST_OPTIMAL_UNSCALED_VIOLATIONS)))
;

void h_eval(void)
{
   int simp, solverStatus, ensureRay, isRealLPScaled, pfeas, dfeas, polishing; double shift, eps, objoffset;
   int* status; int* isRealLPLoaded; int* applyPolishing; int* hasBasis;
   w_eval(simp, status, solverStatus, ensureRay, isRealLPLoaded, isRealLPScaled, applyPolishing, shift, eps, pfeas, dfeas, hasBasis, polishing, objoffset);
   CANARY();
}
#endif

/* ===================================================================================================================== */
#ifdef INST_STORE
int g_unsimp_threw;
int g_primal_dim, g_slacks_dim, g_dual_dim, g_redcost_dim, g_ray_dim, g_farkas_dim, g_rows_size, g_cols_size;
/* this instance logs by kind: k_cnt[kind] occurrences, k_seq[kind] position in the call sequence (1-based), arguments and entry state */
int k_cnt[NKIND], k_seq[NKIND], k_arg[NKIND], k_arg2[NKIND], k_st_in[NKIND], k_hb_in[NKIND], k_ld_in[NKIND], k_hb_out[NKIND], k_ld_out[NKIND];
#define KLOG_ASSIGNS g_nev, __CPROVER_object_whole(k_cnt), __CPROVER_object_whole(k_seq), __CPROVER_object_whole(k_arg), __CPROVER_object_whole(k_arg2), \
   __CPROVER_object_whole(k_st_in), __CPROVER_object_whole(k_hb_in), __CPROVER_object_whole(k_ld_in), __CPROVER_object_whole(k_hb_out), __CPROVER_object_whole(k_ld_out)
/* kind k happened exactly once, as event number `pos` (1-based), with first argument a */
#define AT(k, pos, a) (k_cnt[k] == 1 && k_seq[k] == (pos) && k_arg[k] == (a))
#define NEVER(k) (k_cnt[k] == 0)
#define LD0 (__CPROVER_old(*isRealLPLoaded) != 0)
#define SC0 (__CPROVER_old(*isRealLPScaled) != 0)
/* PROPERTY (C02): a ray is offered exactly for UNBOUNDED, a Farkas vector exactly for INFEASIBLE - and only when the LP in the
   solver is the user's LP (otherwise the vector would live in the presolved / internally scaled space) */
#define RAY (status == ST_UNBOUNDED && LD0)
#define FARKAS (status == ST_INFEASIBLE && LD0)
/* feasibility flags: stated without the shift test `shift() < 10 * EPSILON_ZERO` (restating the floating-point product in the
   specification costs SAT 40 s; the flags are not part of C02 / C16) */
#define PFEAS_MAY (status == ST_OPTIMAL || basisStatus == BS_PRIMAL || basisStatus == BS_UNBOUNDED)
#define DFEAS_MAY (status == ST_OPTIMAL || basisStatus == BS_DUAL || basisStatus == BS_INFEASIBLE)
/* positions in the call sequence (1-based) */
#define P_BASIS ((RAY ? 1 : 0) + (FARKAS ? 1 : 0) + 1)
#define UNSC1 (solverScaled && !LD0)                     /* internal unscaling: solver LP scaled and not the user's LP */
#define P_SIMP (P_BASIS + 5 + (UNSC1 ? 1 : 0))           /* first event after the extraction block */
#define THREW (haveSimplifier && g_unsimp_threw)
#define P_UNSC2 (P_SIMP + (haveSimplifier ? 9 : (!LD0 ? 1 : 0)))
#define P_VERIFY (P_UNSC2 + (SC0 ? 1 : 0))
#define TOTAL (P_VERIFY - 1 + (verify ? 1 : 0))
#define K_VERIFY_EXPECTED (status == ST_ABORT_VALUE ? K_VERIFYOBJ : K_VERIFYSOL)
#define K_VERIFY_OTHER (status == ST_ABORT_VALUE ? K_VERIFYSOL : K_VERIFYOBJ)

void w_store(int verify, int status, int basisStatus, double shift, double epszero, int* isRealLPLoaded, int* isRealLPScaled,
             int solverScaled, int haveSimplifier, int nr, int nc, int nr_orig, int nc_orig, double objval,
             int* hasBasis, int* hasSolReal, int* pfeas, int* dfeas, int* hasPrimalRay, int* hasDualFarkas, double* objValOut,
             int* weightsAreSetup)
__CPROVER_requires(__CPROVER_is_fresh(isRealLPLoaded, sizeof(int)) && __CPROVER_is_fresh(isRealLPScaled, sizeof(int)))
__CPROVER_requires(__CPROVER_is_fresh(hasBasis, sizeof(int)) && __CPROVER_is_fresh(hasSolReal, sizeof(int)))
__CPROVER_requires(__CPROVER_is_fresh(pfeas, sizeof(int)) && __CPROVER_is_fresh(dfeas, sizeof(int)))
__CPROVER_requires(__CPROVER_is_fresh(hasPrimalRay, sizeof(int)) && __CPROVER_is_fresh(hasDualFarkas, sizeof(int)))
__CPROVER_requires(__CPROVER_is_fresh(objValOut, sizeof(double)) && __CPROVER_is_fresh(weightsAreSetup, sizeof(int)))
__CPROVER_requires(BOOL01(verify) && BOOL01(*isRealLPLoaded) && BOOL01(*isRealLPScaled) && BOOL01(solverScaled) && BOOL01(haveSimplifier))
__CPROVER_requires(BOOL01(*hasBasis) && BOOL01(*hasSolReal) && BOOL01(*pfeas) && BOOL01(*dfeas) && BOOL01(*hasPrimalRay) && BOOL01(*hasDualFarkas) && BOOL01(*weightsAreSetup))
__CPROVER_requires(0 <= nr && 0 <= nc && 0 <= nr_orig && 0 <= nc_orig && NOTNAN(objval) && NOTNAN(shift) && NOTNAN(epszero))
/* the harness zeroes the per-kind counters */
__CPROVER_requires(NEVER(K_RESOLVE) && NEVER(K_LOADLP) && NEVER(K_SETBASIS) && NEVER(K_VERIFYOBJ) && NEVER(K_VERIFYSOL) && NEVER(K_GETRAY) && NEVER(K_GETFARKAS))
__CPROVER_requires(NEVER(K_GETBASIS) && NEVER(K_GETPRIMAL) && NEVER(K_GETSLACKS) && NEVER(K_GETDUAL) && NEVER(K_GETREDCOST) && NEVER(K_UNSIMPLIFY) && NEVER(K_SIMPBASIS))
__CPROVER_requires(NEVER(K_SETBASISVEC) && NEVER(K_COPYSOL0 + 1) && NEVER(K_COPYSOL0 + 2) && NEVER(K_COPYSOL0 + 3) && NEVER(K_COPYSOL0 + 4) && NEVER(K_UNSCALE_INT) && NEVER(K_UNSCALE_PERS))
__CPROVER_assigns(*isRealLPLoaded, *isRealLPScaled, *hasBasis, *hasSolReal, *pfeas, *dfeas, *hasPrimalRay, *hasDualFarkas, *objValOut, *weightsAreSetup)
__CPROVER_assigns(g_unsimp_threw, g_primal_dim, g_slacks_dim, g_dual_dim, g_redcost_dim, g_ray_dim, g_farkas_dim, g_rows_size, g_cols_size, KLOG_ASSIGNS)
/* ---- the flag block ------------------------------------------------------------------------------------------------ */
__CPROVER_ensures((*hasPrimalRay != 0) == RAY && (*hasDualFarkas != 0) == FARKAS)
__CPROVER_ensures(BOOL01(*pfeas) && BOOL01(*dfeas) && (status == ST_OPTIMAL ==> (*pfeas && *dfeas)) && (*pfeas ==> PFEAS_MAY) && (*dfeas ==> DFEAS_MAY))
__CPROVER_ensures(*hasSolReal == 1 && *objValOut == objval && *isRealLPScaled == __CPROVER_old(*isRealLPScaled))
/* PROPERTY (C02): the ray / the Farkas vector is fetched from the solver exactly when the flag is set: once, into the stored
   vector, after that vector got the solver's column / row dimension; otherwise the getter is not called at all */
__CPROVER_ensures(RAY ? (AT(K_GETRAY, 1, 1) && k_arg2[K_GETRAY] == nc && g_ray_dim == nc) : (NEVER(K_GETRAY) && g_ray_dim == -1))
__CPROVER_ensures(FARKAS ? (AT(K_GETFARKAS, 1, 1) && k_arg2[K_GETFARKAS] == nr && g_farkas_dim == nr) : (NEVER(K_GETFARKAS) && g_farkas_dim == -1))
/* basis and the four solution vectors: always fetched, once each, each into its own stored vector of the solver's dimension */
__CPROVER_ensures(AT(K_GETBASIS, P_BASIS, 1) && k_arg2[K_GETBASIS] == nr_orig)
__CPROVER_ensures(AT(K_GETPRIMAL, P_BASIS + 1, 1) && k_arg2[K_GETPRIMAL] == nc && AT(K_GETSLACKS, P_BASIS + 2, 1) && k_arg2[K_GETSLACKS] == nr)
__CPROVER_ensures(AT(K_GETDUAL, P_BASIS + 3, 1) && k_arg2[K_GETDUAL] == nr && AT(K_GETREDCOST, P_BASIS + 4, 1) && k_arg2[K_GETREDCOST] == nc)
__CPROVER_ensures(g_primal_dim == nc && g_slacks_dim == nr && g_dual_dim == nr && g_redcost_dim == nc && g_rows_size == nr_orig && g_cols_size == nc_orig)
/* internal scaling removed first (LP = the solver's), exactly when the solver's LP is scaled and is not the user's LP */
__CPROVER_ensures(UNSC1 ? AT(K_UNSCALE_INT, P_BASIS + 5, 1) : NEVER(K_UNSCALE_INT))
/* ---- unsimplification --------------------------------------------------------------------------------------------- */
__CPROVER_ensures(haveSimplifier ? (AT(K_UNSIMPLIFY, P_SIMP, 1) && k_arg2[K_UNSIMPLIFY] == (status == ST_OPTIMAL)) : NEVER(K_UNSIMPLIFY))
/* exception during unsimplification: no basis, exactly one re-solve without presolving, nothing else */
__CPROVER_ensures(THREW ==> (g_nev == P_SIMP + 1 && AT(K_RESOLVE, P_SIMP + 1, 0) && k_hb_in[K_RESOLVE] == 0
                  && *hasBasis == k_hb_out[K_RESOLVE] && *isRealLPLoaded == k_ld_out[K_RESOLVE]
                  && NEVER(K_LOADLP) && NEVER(K_UNSCALE_PERS) && NEVER(K_VERIFYOBJ) && NEVER(K_VERIFYSOL) && NEVER(K_SIMPBASIS) && NEVER(K_COPYSOL0 + 1)))
__CPROVER_ensures(!THREW ==> NEVER(K_RESOLVE))
__CPROVER_ensures((haveSimplifier && !THREW) ==> (AT(K_COPYSOL0 + 1, P_SIMP + 1, 1) && AT(K_COPYSOL0 + 2, P_SIMP + 2, 1) && AT(K_COPYSOL0 + 3, P_SIMP + 3, 1) && AT(K_COPYSOL0 + 4, P_SIMP + 4, 1)
                  && AT(K_SIMPBASIS, P_SIMP + 5, 1) && AT(K_LOADLP, P_SIMP + 6, 0) && AT(K_SETBASIS, P_SIMP + 7, basisStatus) && AT(K_SETBASISVEC, P_SIMP + 8, 1)
                  && *weightsAreSetup == 0))
__CPROVER_ensures(!haveSimplifier ==> (NEVER(K_SIMPBASIS) && NEVER(K_SETBASIS) && NEVER(K_SETBASISVEC) && NEVER(K_COPYSOL0 + 1) && NEVER(K_COPYSOL0 + 2) && NEVER(K_COPYSOL0 + 3) && NEVER(K_COPYSOL0 + 4)
                  && *weightsAreSetup == __CPROVER_old(*weightsAreSetup) && (!LD0 ? AT(K_LOADLP, P_SIMP, 0) : NEVER(K_LOADLP))))
/* persistent scaling removed from the stored solution (on the user's LP, which is the solver's LP by now) */
__CPROVER_ensures((!THREW && SC0) ? AT(K_UNSCALE_PERS, P_UNSC2, 1) : NEVER(K_UNSCALE_PERS))
/* ---- verification dispatch (C16): an objective-limit abort is checked by _verifyObjLimitReal, everything else by
        _verifySolutionReal; exactly one of them, and only if asked for ---------------------------------------------------- */
__CPROVER_ensures((!THREW && verify) ==> (g_nev == TOTAL && AT(K_VERIFY_EXPECTED, P_VERIFY, 0) && NEVER(K_VERIFY_OTHER) && k_st_in[K_VERIFY_EXPECTED] == status
                  && k_hb_in[K_VERIFY_EXPECTED] == 1 && k_ld_in[K_VERIFY_EXPECTED] == 1 && *hasBasis == k_hb_out[K_VERIFY_EXPECTED] && *isRealLPLoaded == k_ld_out[K_VERIFY_EXPECTED]))
__CPROVER_ensures((!THREW && !verify) ==> (g_nev == TOTAL && NEVER(K_VERIFYOBJ) && NEVER(K_VERIFYSOL) && *hasBasis == 1 && *isRealLPLoaded == 1))
;

void h_store(void)
{
   int verify, status, basisStatus, solverScaled, haveSimplifier, nr, nc, nr_orig, nc_orig; double shift, epszero, objval;
   int* isRealLPLoaded; int* isRealLPScaled; int* hasBasis; int* hasSolReal; int* pfeas; int* dfeas; int* hasPrimalRay; int* hasDualFarkas;
   double* objValOut; int* weightsAreSetup;
   w_store(verify, status, basisStatus, shift, epszero, isRealLPLoaded, isRealLPScaled, solverScaled, haveSimplifier, nr, nc, nr_orig, nc_orig, objval,
           hasBasis, hasSolReal, pfeas, dfeas, hasPrimalRay, hasDualFarkas, objValOut, weightsAreSetup);
   CANARY();
}
#endif

/* ===================================================================================================================== */
#ifdef INST_OBJLIM
/* callee contracts: getDualViolation / getRedCostViolation as seen by their callers - the out-parameter part of the contract
 * proved on the real bodies in units/verifynet (C01): on failure nothing is written, on success the maximum is >= 0 */
int g_ok_dual, g_ok_redcost; double g_out_dual, g_out_redcost; int g_calls_dual, g_calls_redcost;
#define GETTER(NAME, X) \
int NAME(double* maxviol, double* sumviol) \
__CPROVER_requires(__CPROVER_w_ok(maxviol, sizeof(double)) && __CPROVER_w_ok(sumviol, sizeof(double))) \
__CPROVER_assigns(g_out_##X, g_calls_##X) \
__CPROVER_assigns(g_ok_##X: *maxviol, *sumviol) \
__CPROVER_ensures((__CPROVER_return_value != 0) == (g_ok_##X != 0)) \
__CPROVER_ensures(__CPROVER_return_value ==> *maxviol >= 0.0) \
__CPROVER_ensures(g_out_##X == *maxviol && g_calls_##X == __CPROVER_old(g_calls_##X) + 1) \
;
GETTER(c_getDualViolation, dual)
GETTER(c_getRedCostViolation, redcost)
/* the objective-limit verdict is NOT kept if dual feasibility in the user's space cannot be confirmed */
#define MEAS(X) (g_ok_##X ? g_out_##X : 0.0)
#define VIOLATED (!g_ok_dual || !g_ok_redcost || MEAS(dual) >= opttol || MEAS(redcost) >= opttol)
#define SC0 (__CPROVER_old(*isRealLPScaled))

void w_objlim(double opttol, int haveScaler, int haveSimplifier, int* isRealLPScaled, int* unscaleCalls)
__CPROVER_requires(__CPROVER_is_fresh(isRealLPScaled, sizeof(int)) && __CPROVER_is_fresh(unscaleCalls, sizeof(int)))
__CPROVER_requires(BOOL01(*isRealLPScaled) && BOOL01(haveScaler) && BOOL01(haveSimplifier) && 0 <= *unscaleCalls && *unscaleCalls < INT_MAX)
__CPROVER_requires(NOTNAN(opttol) && g_calls_dual == 0 && g_calls_redcost == 0)
__CPROVER_assigns(*isRealLPScaled, *unscaleCalls, g_out_dual, g_out_redcost, g_calls_dual, g_calls_redcost, LOG_ASSIGNS)
__CPROVER_ensures(g_calls_dual == 1 && g_calls_redcost == 1)
/* PROPERTY (C16): ABORT_VALUE survives (no re-solve) only if the dual solution handed to the user is dual feasible within
   the optimality tolerance in the user's space - multipliers and reduced costs - so that its objective value is a valid bound */
__CPROVER_ensures(g_nev == 0 ==> (g_ok_dual && g_ok_redcost && g_out_dual < opttol && g_out_redcost < opttol))
__CPROVER_ensures((g_nev == 0) == !(VIOLATED))
__CPROVER_ensures(g_nev == 0 ==> (*isRealLPScaled == SC0 && *unscaleCalls == __CPROVER_old(*unscaleCalls)))
/* otherwise exactly one re-solve without presolving; what is switched off first: presolving/scaling, then the limit itself */
__CPROVER_ensures((VIOLATED && !haveScaler && !haveSimplifier) ==> (g_nev == 2 && EV(0, K_TOGGLEVALUE, 0) && EV(1, K_RESOLVE, 0)
                  && *isRealLPScaled == SC0 && *unscaleCalls == __CPROVER_old(*unscaleCalls)))
__CPROVER_ensures((VIOLATED && (haveScaler || haveSimplifier) && SC0) ==> (g_nev == 2 && EV(0, K_UNSCALELP, 0) && EV(1, K_RESOLVE, 0)
                  && *isRealLPScaled == 0 && *unscaleCalls == __CPROVER_old(*unscaleCalls) + 1))
__CPROVER_ensures((VIOLATED && (haveScaler || haveSimplifier) && !SC0) ==> (g_nev == 1 && EV(0, K_RESOLVE, 0)
                  && *isRealLPScaled == 0 && *unscaleCalls == __CPROVER_old(*unscaleCalls)))
;
void h_objlim(void)
{
   double opttol; int haveScaler, haveSimplifier; int* isRealLPScaled; int* unscaleCalls;
   g_ok_dual = nondet_int(); g_ok_redcost = nondet_int(); g_calls_dual = 0; g_calls_redcost = 0;
   w_objlim(opttol, haveScaler, haveSimplifier, isRealLPScaled, unscaleCalls);
   CANARY();
}
#endif

/* ===================================================================================================================== */
#ifdef INST_STOPPED
/* PROPERTY (C16): the solve counts as stopped iff the time limit (if one is set: below the infinity parameter) has been
   reached or one of the iteration / refinement limits (if set: non-negative) has been reached; the out-flags say which */
#define T_STOP (timelimit < infty && now >= timelimit)
#define I_STOP ((iterlimit >= 0 && iterations >= iterlimit) || (reflimit >= 0 && refinements >= reflimit) || (stallreflimit >= 0 && stallRefinements >= stallreflimit))
int w_stopped(double timelimit, double infty, double now, int iterlimit, int reflimit, int stallreflimit,
              int iterations, int refinements, int stallRefinements, int* stoppedTime, int* stoppedIter)
__CPROVER_requires(__CPROVER_is_fresh(stoppedTime, sizeof(int)) && __CPROVER_is_fresh(stoppedIter, sizeof(int)))
__CPROVER_assigns(*stoppedTime, *stoppedIter)
__CPROVER_ensures((*stoppedTime == 1) == (T_STOP) && (*stoppedTime == 0 || *stoppedTime == 1))
__CPROVER_ensures((*stoppedIter == 1) == (I_STOP) && (*stoppedIter == 0 || *stoppedIter == 1))
__CPROVER_ensures((__CPROVER_return_value != 0) == ((T_STOP) || (I_STOP)))
/* no limit set => never stopped */
__CPROVER_ensures((!(timelimit < infty) && iterlimit < 0 && reflimit < 0 && stallreflimit < 0) ==> __CPROVER_return_value == 0)
;
void h_stopped(void)
{
   double timelimit, infty, now; int iterlimit, reflimit, stallreflimit, iterations, refinements, stallRefinements; int* stoppedTime; int* stoppedIter;
   w_stopped(timelimit, infty, now, iterlimit, reflimit, stallreflimit, iterations, refinements, stallRefinements, stoppedTime, stoppedIter);
   CANARY();
}
#endif

/* ===================================================================================================================== */
#ifdef INST_LIMITS
/* PROPERTY (C16): the solver is started with what is LEFT of the user's limits: a set limit stays a limit (0 left = stop before
   the first pivot / at the first clock reading), no limit stays no limit. */
void w_limits(int iterlimit, int done, double timelimit, double infty, double elapsed, int* maxIters, double* maxTime, int* iter_calls, int* time_calls)
__CPROVER_requires(__CPROVER_is_fresh(maxIters, sizeof(int)) && __CPROVER_is_fresh(maxTime, sizeof(double)))
__CPROVER_requires(__CPROVER_is_fresh(iter_calls, sizeof(int)) && __CPROVER_is_fresh(time_calls, sizeof(int)))
/* parameter domain (C15): ITERLIMIT >= -1, INFTY > 0 (so every int is below it), TIMELIMIT in [0, INFTY]; clock and counter non-negative */
__CPROVER_requires(iterlimit >= -1 && infty >= 1e10 && 0.0 <= timelimit && timelimit <= infty && 0.0 <= elapsed && elapsed <= infty && 0 <= done)
/* ASSUMED INVARIANT of the driver: the iterations recorded so far do not exceed a set limit (each solve was started with the
   remainder and - C16, not covered inside solve() - respects it).  WITHOUT it the code turns a negative remainder into
   "no limit" (setTerminationIter clamps negative values to -1); see the report / level_note */
__CPROVER_requires(iterlimit >= 0 ==> done <= iterlimit)
__CPROVER_assigns(*maxIters, *maxTime, *iter_calls, *time_calls)
__CPROVER_ensures(*iter_calls == 1 && *time_calls == 1)
__CPROVER_ensures(iterlimit < 0 ==> *maxIters == -1)
__CPROVER_ensures(iterlimit >= 0 ==> (*maxIters == iterlimit - done && *maxIters >= 0))
/* time: no limit -> the infinity parameter; otherwise the remainder, clamped at 0: positive iff the limit is not yet reached,
   never more than the limit (stated without restating the floating-point subtraction) */
__CPROVER_ensures(!(timelimit < infty) ==> *maxTime == infty)
__CPROVER_ensures(timelimit < infty ==> (0.0 <= *maxTime && *maxTime <= timelimit && ((*maxTime > 0.0) == (elapsed < timelimit))))
;
void h_limits(void)
{
   int iterlimit, done; double timelimit, infty, elapsed; int* maxIters; double* maxTime; int* iter_calls; int* time_calls;
   w_limits(iterlimit, done, timelimit, infty, elapsed, maxIters, maxTime, iter_calls, time_calls);
   CANARY();
}
#endif
