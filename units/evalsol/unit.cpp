/* C02 / C16: the verdict bookkeeping of SoPlexBase<R> around a floating-point solve, at R = double.
 *   _evaluateSolutionReal, _storeSolutionReal, _verifyObjLimitReal (src/soplex/solvereal.hpp), _isSolveStopped (src/soplex.hpp)
 * The bodies are #included verbatim from slices cut out of the current tree.  The host declares the data members the bodies
 * touch under their real names; every callee is a GHOST-RECORDING stub: it appends (kind, argument, _status / _hasBasis /
 * _isRealLPLoaded at entry) to an event log and - if the real callee may re-solve - leaves arbitrary values in the members a
 * re-solve rewrites (recorded as well).  Enumerations are extracted from the tree, never re-typed. */
#include "verif.h"
typedef double R;
typedef double Real;

#define SPX_MSG_INFO1(...)
#define SPX_MSG_INFO2(...)
#define SPX_MSG_INFO3(...)

/* names-only templates serving the qualified names used by the bodies */
template <class T> struct SPxSimplifier
{
#include "SimplifierResult.inc"
};
template <class T> struct SPxSolverBase
{
#include "SolverStatus.inc"
#include "VarStatus.inc"
};
template <class T> struct SPxBasisBase
{
#include "SPxStatus.inc"
};
template <class T> struct SoPlexBase
{
#include "BoolParam.inc"
#include "IntParam.inc"
#include "RealParam.inc"
#include "ObjSense.inc"
};

struct SettingsStub
{
   bool _boolParamValues[SoPlexBase<R>::BOOLPARAM_COUNT];
   int _intParamValues[SoPlexBase<R>::INTPARAM_COUNT];
   Real _realParamValues[SoPlexBase<R>::REALPARAM_COUNT];
};

/* ---- event log (C globals, defined in contract.c) ------------------------------------------------------------------ */
#include "events.h"
extern "C" {
   extern int g_nev;
   extern int g_ev[NEV], g_arg[NEV], g_arg2[NEV];            /* kind, argument(s) */
   extern int g_st_in[NEV], g_hb_in[NEV], g_ld_in[NEV];      /* _status, _hasBasis, _isRealLPLoaded when the callee was entered */
   extern int g_st_out[NEV], g_hb_out[NEV], g_ap_out[NEV], g_ld_out[NEV];   /* what a (possibly re-solving) callee left behind */
   extern double g_objoff;
}

struct HostBase : SoPlexBase<R>
{
   SettingsStub* _currentSettings;
   bool _hasBasis, _hasSolReal, _isRealLPLoaded, _isRealLPScaled, _applyPolishing;
   int _unscaleCalls;
   SPxSolverBase<R>::Status _status;

   int ev(int kind, int arg, int arg2 = 0)
   {
      int i = g_nev;
      if(i < NEV)
      {
         g_ev[i] = kind; g_arg[i] = arg; g_arg2[i] = arg2;
         g_st_in[i] = (int)_status; g_hb_in[i] = _hasBasis; g_ld_in[i] = _isRealLPLoaded;
      }
      g_nev = i + 1;
      return i;
   }
   /* a callee that may run a complete re-solve: everything a re-solve rewrites is arbitrary afterwards */
   void havoc(int i)
   {
      _status = (SPxSolverBase<R>::Status)nondet_int();
      _hasBasis = nondet_bool(); _applyPolishing = nondet_bool(); _isRealLPLoaded = nondet_bool();
      if(i < NEV) { g_st_out[i] = (int)_status; g_hb_out[i] = _hasBasis; g_ap_out[i] = _applyPolishing; g_ld_out[i] = _isRealLPLoaded; }
   }

   bool boolParam(const BoolParam param) const
   {
#include "boolParam.inc"
   }
   int intParam(const IntParam param) const
   {
#include "intParam.inc"
   }
   Real realParam(const RealParam param) const
   {
#include "realParam.inc"
   }
   SPxSolverBase<R>::Status status() const
   {
#include "status.inc"
   }
   bool setIntParam(const IntParam param, const int value, const bool init = true) { ev(K_SETINT, (int)param, value); return true; }
   void _preprocessAndSolveReal(bool applySimplifier, volatile bool* interrupt = 0) { havoc(ev(K_RESOLVE, applySimplifier)); }
   void _loadRealLP(bool initBasis) { ev(K_LOADLP, initBasis); _isRealLPLoaded = true; }
};

/* ===================================================================================================================== */
#ifdef INST_EVAL
struct SolverStubE
{
   HostBase* host;
   int st; double sh, eps;
   SPxSolverBase<R>::Status status() const { return (SPxSolverBase<R>::Status)st; }
   R shift() const { return sh; }
   R epsilon() const { return eps; }
   void setBasisStatus(SPxBasisBase<R>::SPxStatus stat) { host->ev(K_SETBASIS, (int)stat); }
   void changeObjOffset(const R& o) { host->ev(K_OBJOFF, 0); g_objoff = o; }
};
struct SolStubE
{
   bool _isPrimalFeasible, _isDualFeasible;
   bool isPrimalFeasible() const { return _isPrimalFeasible; }
   bool isDualFeasible() const { return _isDualFeasible; }
};
struct H : HostBase
{
   SolverStubE _solver;
   SolStubE _solReal;
   void _storeSolutionRealFromPresol() { havoc(ev(K_STOREPRESOL, 0)); }
   void _storeSolutionReal(bool verify) { havoc(ev(K_STORE, verify)); }
   void _resolveWithoutPreprocessing(SPxSimplifier<R>::Result simplificationStatus) { havoc(ev(K_RESOLVEWO, (int)simplificationStatus)); }
   void body(SPxSimplifier<R>::Result simplificationStatus)
   {
#include "_evaluateSolutionReal.inc"
   }
};
extern "C" void w_eval(int simp, int* status, int solverStatus, int ensureRay, int* isRealLPLoaded, int isRealLPScaled,
                       int* applyPolishing, double shift, double eps, int pfeas, int dfeas, int* hasBasis, int polishing, double objoffset)
{
   VIN("simp", simp); VIN("status0", *status); VIN("solverStatus", solverStatus); VIN("ensureRay", ensureRay);
   VIN("isRealLPLoaded", *isRealLPLoaded); VIN("isRealLPScaled", isRealLPScaled); VIN("applyPolishing", *applyPolishing);
   VIN("shift", shift); VIN("eps", eps); VIN("pfeas", pfeas); VIN("dfeas", dfeas);
   SettingsStub set; H h;
   set._boolParamValues[SoPlexBase<R>::ENSURERAY] = ensureRay != 0;
   set._intParamValues[SoPlexBase<R>::SOLUTION_POLISHING] = polishing;
   set._realParamValues[SoPlexBase<R>::OBJ_OFFSET] = objoffset;
   h._currentSettings = &set;
   h._solver.host = &h; h._solver.st = solverStatus; h._solver.sh = shift; h._solver.eps = eps;
   h._solReal._isPrimalFeasible = pfeas != 0; h._solReal._isDualFeasible = dfeas != 0;
   h._status = (SPxSolverBase<R>::Status)(*status);
   h._hasBasis = *hasBasis != 0; h._isRealLPLoaded = *isRealLPLoaded != 0; h._isRealLPScaled = isRealLPScaled != 0;
   h._applyPolishing = *applyPolishing != 0;
   g_nev = 0;
   h.body((SPxSimplifier<R>::Result)simp);
   *status = (int)h._status; *hasBasis = h._hasBasis; *isRealLPLoaded = h._isRealLPLoaded; *applyPolishing = h._applyPolishing;
}
#endif

/* ===================================================================================================================== */
#ifdef INST_STORE
/* try { f(); } catch(const SPxException& E) { H }   with f the ONLY statement of the try block (must_contain-checked):
 * equivalent to  { f(); } if(f threw) { H }  where a throwing f has no effect the handler or the code after it reads.
 * The unsimplify stub decides arbitrarily whether it "throws" (g_unsimp_threw); the handler text is compiled verbatim. */
extern "C" { extern int g_unsimp_threw; }
#define try
#define catch(decl) if(g_unsimp_threw)

/* vectors: only dimension and identity matter here */
struct VecStub
{
   int dimen;
   void reDim(int newdim, const bool setZero = true) { dimen = newdim; }
   int dim() const { return dimen; }
};
struct HostS;
struct StatArr
{
   int thesize;
   void reSize(int newsize) { thesize = newsize; }
   int size() const { return thesize; }
   int* get_ptr() { return (int*)this; }               /* identity only: the basis arrays are never dereferenced here */
   const int* get_const_ptr() const { return (const int*)this; }
};
struct BasisStub
{
   int st;
   SPxBasisBase<R>::SPxStatus status() const { return (SPxBasisBase<R>::SPxStatus)st; }
};
struct LPStub { int nr, nc; int scaled; };
struct SolverStubS : LPStub
{
   HostBase* host;
   BasisStub bas; double sh; double objval; int basisStatus;
   bool weightsAreSetup;
   const void* ray_expected; const void* farkas_expected; const void* sol_expected[5]; const void* rows_expected; const void* cols_expected;
   int nRows() const { return nr; }
   int nCols() const { return nc; }
   bool isScaled() const { return scaled != 0; }
   const BasisStub& basis() const { return *(BasisStub*)&bas; }   /* front end drops the const otherwise (README pitfall 3) */
   R shift() const { return sh; }
   SPxSolverBase<R>::Status getPrimalray(VecStub& v) const { host->ev(K_GETRAY, (const void*)&v == ray_expected, v.dimen); return (SPxSolverBase<R>::Status)0; }
   SPxSolverBase<R>::Status getDualfarkas(VecStub& v) const { host->ev(K_GETFARKAS, (const void*)&v == farkas_expected, v.dimen); return (SPxSolverBase<R>::Status)0; }
   SPxSolverBase<R>::Status getBasis(int* rows, int* cols, const int rowsSize = -1, const int colsSize = -1) const
   { host->ev(K_GETBASIS, (const void*)rows == rows_expected && (const void*)cols == cols_expected, rowsSize); return (SPxSolverBase<R>::Status)0; }
   int which(const VecStub& v) const
   { return (const void*)&v == sol_expected[1] ? 1 : (const void*)&v == sol_expected[2] ? 2 : (const void*)&v == sol_expected[3] ? 3 : (const void*)&v == sol_expected[4] ? 4 : 0; }
   SPxSolverBase<R>::Status getPrimalSol(VecStub& v) const { host->ev(K_GETSOL, which(v) == 1 ? 1 : 0, v.dimen); return (SPxSolverBase<R>::Status)0; }
   SPxSolverBase<R>::Status getSlacks(VecStub& v) const { host->ev(K_GETSOL, which(v) == 2 ? 2 : 0, v.dimen); return (SPxSolverBase<R>::Status)0; }
   SPxSolverBase<R>::Status getDualSol(VecStub& v) const { host->ev(K_GETSOL, which(v) == 3 ? 3 : 0, v.dimen); return (SPxSolverBase<R>::Status)0; }
   SPxSolverBase<R>::Status getRedCostSol(VecStub& v) const { host->ev(K_GETSOL, which(v) == 4 ? 4 : 0, v.dimen); return (SPxSolverBase<R>::Status)0; }
   void forceRecompNonbasicValue() {}
   R objValue() { return objval; }
   SPxBasisBase<R>::SPxStatus getBasisStatus() const { return (SPxBasisBase<R>::SPxStatus)basisStatus; }
   void setBasisStatus(SPxBasisBase<R>::SPxStatus stat) { host->ev(K_SETBASIS, (int)stat); }
   void setBasis(const int* rows, const int* cols) { host->ev(K_SETBASISVEC, (const void*)rows == rows_expected && (const void*)cols == cols_expected); }
};
/* the four result vectors of the simplifier: `_solReal._primal = _simplifier->unsimplifiedPrimal()` is a recorded copy */
struct SimpVec { int which; };
struct SimplifierStub
{
   HostBase* host; SolverStubS* solver;
   SimpVec up, us, ud, ur;
   void unsimplify(const VecStub& x, const VecStub& y, const VecStub& s, const VecStub& r, const int* rows, const int* cols, bool isOptimal = true)
   {
      int ok = solver->which(x) == 1 && solver->which(y) == 3 && solver->which(s) == 2 && solver->which(r) == 4
               && (const void*)rows == solver->rows_expected && (const void*)cols == solver->cols_expected;
      host->ev(K_UNSIMPLIFY, ok, isOptimal);
      g_unsimp_threw = nondet_bool();
   }
   const SimpVec& unsimplifiedPrimal() { return *(SimpVec*)&up; }
   const SimpVec& unsimplifiedSlacks() { return *(SimpVec*)&us; }
   const SimpVec& unsimplifiedDual() { return *(SimpVec*)&ud; }
   const SimpVec& unsimplifiedRedCost() { return *(SimpVec*)&ur; }
   void getBasis(int* rows, int* cols, const int rowsSize = -1, const int colsSize = -1) const
   { host->ev(K_SIMPBASIS, (const void*)rows == solver->rows_expected && (const void*)cols == solver->cols_expected); }
};
struct SolVec : VecStub
{
   HostBase* host; int me;
   SolVec& operator=(const SimpVec& src) { host->ev(K_COPYSOL, src.which == me ? me : 0); return *this; }
};
struct SolStubS2
{
   SolVec _primal, _slacks, _dual, _redCost;
   VecStub _primalRay, _dualFarkas;
   R _objVal;
   bool _isPrimalFeasible, _isDualFeasible, _hasPrimalRay, _hasDualFarkas;
};
struct H : HostBase
{
   SolverStubS _solver;
   LPStub* _realLP;
   SolStubS2 _solReal;
   StatArr _basisStatusRows, _basisStatusCols;
   SimplifierStub* _simplifier;
   int nrows_orig, ncols_orig;
   int numRows() const { return nrows_orig; }
   int numCols() const { return ncols_orig; }
   void _unscaleSolutionReal(LPStub& LP, bool persistent)
   { ev(K_UNSCALESOL, (&LP == (LPStub*)&_solver) ? 1 : (&LP == _realLP ? 2 : 0), persistent); }
   void _verifyObjLimitReal() { havoc(ev(K_VERIFYOBJ, 0)); }
   void _verifySolutionReal() { havoc(ev(K_VERIFYSOL, 0)); }
   /* the real _loadRealLP makes the solver hold the real LP: _realLP = &_solver (needed by `else if(_realLP != &_solver)`) */
   void _loadRealLP(bool initBasis) { ev(K_LOADLP, initBasis); _isRealLPLoaded = true; _realLP = &_solver; }
   void body(bool verify)
   {
#include "_storeSolutionReal.inc"
   }
};
extern "C" { extern int g_primal_dim, g_slacks_dim, g_dual_dim, g_redcost_dim, g_ray_dim, g_farkas_dim, g_rows_size, g_cols_size; }
extern "C" void w_store(int verify, int status, int basisStatus, double shift, double epszero, int* isRealLPLoaded, int* isRealLPScaled,
                        int solverScaled, int haveSimplifier, int nr, int nc, int nr_orig, int nc_orig, double objval,
                        int* hasBasis, int* hasSolReal, int* pfeas, int* dfeas, int* hasPrimalRay, int* hasDualFarkas, double* objValOut,
                        int* weightsAreSetup)
{
   VIN("verify", verify); VIN("status", status); VIN("basisStatus", basisStatus); VIN("shift", shift); VIN("epszero", epszero);
   VIN("isRealLPLoaded", *isRealLPLoaded); VIN("isRealLPScaled", *isRealLPScaled); VIN("solverScaled", solverScaled);
   VIN("haveSimplifier", haveSimplifier);
   SettingsStub set; H h; LPStub other; SimplifierStub simp;
   set._realParamValues[SoPlexBase<R>::EPSILON_ZERO] = epszero;
   h._currentSettings = &set;
   h._status = (SPxSolverBase<R>::Status)status;
   h._hasBasis = *hasBasis != 0; h._hasSolReal = *hasSolReal != 0;
   h._isRealLPLoaded = *isRealLPLoaded != 0; h._isRealLPScaled = *isRealLPScaled != 0; h._applyPolishing = false;
   h._solver.host = &h; h._solver.nr = nr; h._solver.nc = nc; h._solver.scaled = solverScaled; h._solver.bas.st = basisStatus;
   h._solver.sh = shift; h._solver.objval = objval; h._solver.basisStatus = basisStatus; h._solver.weightsAreSetup = *weightsAreSetup != 0;
   h._solver.ray_expected = &h._solReal._primalRay; h._solver.farkas_expected = &h._solReal._dualFarkas;
   h._solver.sol_expected[1] = (VecStub*)&h._solReal._primal; h._solver.sol_expected[2] = (VecStub*)&h._solReal._slacks;
   h._solver.sol_expected[3] = (VecStub*)&h._solReal._dual; h._solver.sol_expected[4] = (VecStub*)&h._solReal._redCost;
   h._solver.rows_expected = &h._basisStatusRows; h._solver.cols_expected = &h._basisStatusCols;
   /* type invariant of SoPlexBase: the real LP is loaded  <=>  _realLP == &_solver */
   h._realLP = h._isRealLPLoaded ? (LPStub*)&h._solver : &other;
   simp.host = &h; simp.solver = &h._solver; simp.up.which = 1; simp.us.which = 2; simp.ud.which = 3; simp.ur.which = 4;
   h._simplifier = haveSimplifier ? &simp : (SimplifierStub*)0;
   h._solReal._primal.host = &h; h._solReal._primal.me = 1; h._solReal._slacks.host = &h; h._solReal._slacks.me = 2;
   h._solReal._dual.host = &h; h._solReal._dual.me = 3; h._solReal._redCost.host = &h; h._solReal._redCost.me = 4;
   h._solReal._primal.dimen = -1; h._solReal._slacks.dimen = -1; h._solReal._dual.dimen = -1; h._solReal._redCost.dimen = -1;
   h._solReal._primalRay.dimen = -1; h._solReal._dualFarkas.dimen = -1;
   h._solReal._isPrimalFeasible = *pfeas != 0; h._solReal._isDualFeasible = *dfeas != 0;
   h._solReal._hasPrimalRay = *hasPrimalRay != 0; h._solReal._hasDualFarkas = *hasDualFarkas != 0; h._solReal._objVal = *objValOut;
   h._basisStatusRows.thesize = -1; h._basisStatusCols.thesize = -1;
   h.nrows_orig = nr_orig; h.ncols_orig = nc_orig;
   g_nev = 0; g_unsimp_threw = 0;
   h.body(verify != 0);
   *isRealLPLoaded = h._isRealLPLoaded; *isRealLPScaled = h._isRealLPScaled; *hasBasis = h._hasBasis; *hasSolReal = h._hasSolReal;
   *pfeas = h._solReal._isPrimalFeasible; *dfeas = h._solReal._isDualFeasible;
   *hasPrimalRay = h._solReal._hasPrimalRay; *hasDualFarkas = h._solReal._hasDualFarkas; *objValOut = h._solReal._objVal;
   *weightsAreSetup = h._solver.weightsAreSetup;
   g_primal_dim = h._solReal._primal.dimen; g_slacks_dim = h._solReal._slacks.dimen; g_dual_dim = h._solReal._dual.dimen;
   g_redcost_dim = h._solReal._redCost.dimen; g_ray_dim = h._solReal._primalRay.dimen; g_farkas_dim = h._solReal._dualFarkas.dimen;
   g_rows_size = h._basisStatusRows.thesize; g_cols_size = h._basisStatusCols.thesize;
}
#endif

/* ===================================================================================================================== */
#ifdef INST_OBJLIM
/* the two getters are replaced by their contracts (contract.c), as in units/verifynet */
extern "C" {
   int c_getDualViolation(double* maxviol, double* sumviol);
   int c_getRedCostViolation(double* maxviol, double* sumviol);
}
struct TolStub
{
   Real s_floating_point_opttol;
   Real floatingPointOpttol()
   {
#include "floatingPointOpttol.inc"
   }
};
struct SolverStubO
{
   HostBase* host; TolStub* tol;
   TolStub* tolerances() const { return tol; }       /* real: const std::shared_ptr<Tolerances>& */
   void toggleTerminationValue(bool enable) { host->ev(K_TOGGLEVALUE, enable); }
   void unscaleLPandReloadBasis() { host->ev(K_UNSCALELP, 0); }
};
struct H : HostBase
{
   SolverStubO _solver;
   void* _scaler; void* _simplifier;
   bool getDualViolation(R& maxviol, R& sumviol) { return c_getDualViolation(&maxviol, &sumviol) != 0; }
   bool getRedCostViolation(R& maxviol, R& sumviol) { return c_getRedCostViolation(&maxviol, &sumviol) != 0; }
   void body()
   {
#include "_verifyObjLimitReal.inc"
   }
};
extern "C" void w_objlim(double opttol, int haveScaler, int haveSimplifier, int* isRealLPScaled, int* unscaleCalls)
{
   VIN("opttol", opttol); VIN("haveScaler", haveScaler); VIN("haveSimplifier", haveSimplifier); VIN("isRealLPScaled", *isRealLPScaled);
   TolStub tol; H h; int dummy;
   tol.s_floating_point_opttol = opttol;
   h._solver.host = &h; h._solver.tol = &tol;
   h._scaler = haveScaler ? (void*)&dummy : (void*)0; h._simplifier = haveSimplifier ? (void*)&dummy : (void*)0;
   h._isRealLPScaled = *isRealLPScaled != 0; h._unscaleCalls = *unscaleCalls;
   h._status = (SPxSolverBase<R>::Status)0; h._hasBasis = true; h._isRealLPLoaded = true; h._applyPolishing = false;
   g_nev = 0;
   h.body();
   *isRealLPScaled = h._isRealLPScaled; *unscaleCalls = h._unscaleCalls;
}
#endif

/* ===================================================================================================================== */
#ifdef INST_STOPPED
struct TimerStub { Real t; Real time() const { return t; } };
struct StatStub { TimerStub* solvingTime; int iterations, refinements, stallRefinements; };
struct H : HostBase
{
   StatStub* _statistics;
   bool body(bool& stoppedTime, bool& stoppedIter) const
   {
#include "_isSolveStopped.inc"
   }
};
extern "C" int w_stopped(double timelimit, double infty, double now, int iterlimit, int reflimit, int stallreflimit,
                         int iterations, int refinements, int stallRefinements, int* stoppedTime, int* stoppedIter)
{
   VIN("timelimit", timelimit); VIN("infty", infty); VIN("now", now); VIN("iterlimit", iterlimit); VIN("iterations", iterations);
   SettingsStub set; H h; TimerStub tm; StatStub st;
   set._realParamValues[SoPlexBase<R>::TIMELIMIT] = timelimit; set._realParamValues[SoPlexBase<R>::INFTY] = infty;
   set._intParamValues[SoPlexBase<R>::ITERLIMIT] = iterlimit; set._intParamValues[SoPlexBase<R>::REFLIMIT] = reflimit;
   set._intParamValues[SoPlexBase<R>::STALLREFLIMIT] = stallreflimit;
   tm.t = now; st.solvingTime = &tm; st.iterations = iterations; st.refinements = refinements; st.stallRefinements = stallRefinements;
   h._currentSettings = &set; h._statistics = &st;
   bool bt = *stoppedTime != 0, bi = *stoppedIter != 0;
   bool r = h.body(bt, bi);
   *stoppedTime = bt; *stoppedIter = bi;
   return r ? 1 : 0;
}
#endif
