/* C02 / C16: the verdict bookkeeping of SoPlexBase<R> around a floating-point solve, at R = double.
 *   _evaluateSolutionReal, _storeSolutionReal, _verifyObjLimitReal (src/soplex/solvereal.hpp), _isSolveStopped (src/soplex.hpp)
 * The bodies are #included verbatim from slices cut out of the current tree.  The host declares the data members the bodies
 * touch under their real names; every callee is a GHOST-RECORDING stub: it appends (kind, argument, _status / _hasBasis /
 * _isRealLPLoaded at entry) to an event log and - if the real callee may re-solve - leaves arbitrary values in the members a
 * re-solve rewrites (recorded as well).  Enumerations are extracted from the tree, never re-typed. */
#include "verif.h"
typedef double R;
typedef double Real;

#define SPX_MSG_INFO1(...)
#define SPX_MSG_INFO2(...)
#define SPX_MSG_INFO3(...)

/* names-only templates serving the qualified names used by the bodies */
template <class T> struct SPxSimplifier
{
#include "SimplifierResult.inc"
};
template <class T> struct SPxSolverBase
{
#include "SolverStatus.inc"
#include "VarStatus.inc"
};
template <class T> struct SPxBasisBase
{
#include "SPxStatus.inc"
};
template <class T> struct SoPlexBase
{
#include "BoolParam.inc"
#include "IntParam.inc"
#include "RealParam.inc"
#include "ObjSense.inc"
};

struct SettingsStub
{
   bool _boolParamValues[SoPlexBase<R>::BOOLPARAM_COUNT];
   int _intParamValues[SoPlexBase<R>::INTPARAM_COUNT];
   Real _realParamValues[SoPlexBase<R>::REALPARAM_COUNT];
};

/* ---- event log (C globals, defined in contract.c) ------------------------------------------------------------------ */
#include "events.h"
extern "C" {
   extern int g_nev;
   extern int g_ev[NEV], g_arg[NEV], g_arg2[NEV];            /* kind, argument(s) */
   extern int g_st_in[NEV], g_hb_in[NEV], g_ld_in[NEV];      /* _status, _hasBasis, _isRealLPLoaded when the callee was entered */
   extern int g_st_out[NEV], g_hb_out[NEV], g_ap_out[NEV], g_ld_out[NEV];   /* what a (possibly re-solving) callee left behind */
   extern double g_objoff;
}

struct HostBase : SoPlexBase<R>
{
   SettingsStub* _currentSettings;
   bool _hasBasis, _hasSolReal, _isRealLPLoaded, _isRealLPScaled, _applyPolishing;
   int _unscaleCalls;
   SPxSolverBase<R>::Status _status;

   int ev(int kind, int arg, int arg2 = 0)
   {
      int i = g_nev;
      if(i < NEV)
      {
         g_ev[i] = kind; g_arg[i] = arg; g_arg2[i] = arg2;
         g_st_in[i] = (int)_status; g_hb_in[i] = _hasBasis; g_ld_in[i] = _isRealLPLoaded;
      }
      g_nev = i + 1;
      return i;
   }
   /* a callee that may run a complete re-solve: everything a re-solve rewrites is arbitrary afterwards */
   void havoc(int i)
   {
      _status = (SPxSolverBase<R>::Status)nondet_int();
      _hasBasis = nondet_bool(); _applyPolishing = nondet_bool(); _isRealLPLoaded = nondet_bool();
      if(i < NEV) { g_st_out[i] = (int)_status; g_hb_out[i] = _hasBasis; g_ap_out[i] = _applyPolishing; g_ld_out[i] = _isRealLPLoaded; }
   }

   bool boolParam(const BoolParam param) const
   {
#include "boolParam.inc"
   }
   int intParam(const IntParam param) const
   {
#include "intParam.inc"
   }
   Real realParam(const RealParam param) const
   {
#include "realParam.inc"
   }
   SPxSolverBase<R>::Status status() const
   {
#include "status.inc"
   }
   bool setIntParam(const IntParam param, const int value, const bool init = true) { ev(K_SETINT, (int)param, value); return true; }
   void _preprocessAndSolveReal(bool applySimplifier, volatile bool* interrupt = 0) { havoc(ev(K_RESOLVE, applySimplifier)); }
   void _loadRealLP(bool initBasis) { ev(K_LOADLP, initBasis); _isRealLPLoaded = true; }
};

/* ===================================================================================================================== */
#ifdef INST_EVAL
struct SolverStubE
{
   HostBase* host;
   int st; double sh, eps;
   SPxSolverBase<R>::Status status() const { return (SPxSolverBase<R>::Status)st; }
   R shift() const { return sh; }
   R epsilon() const { return eps; }
   void setBasisStatus(SPxBasisBase<R>::SPxStatus stat) { host->ev(K_SETBASIS, (int)stat); }
   void changeObjOffset(const R& o) { host->ev(K_OBJOFF, 0); g_objoff = o; }
};
struct SolStubE
{
   bool _isPrimalFeasible, _isDualFeasible;
   bool isPrimalFeasible() const { return _isPrimalFeasible; }
   bool isDualFeasible() const { return _isDualFeasible; }
};
struct H : HostBase
{
   SolverStubE _solver;
   SolStubE _solReal;
   /* members the body does not read today but a changed body plausibly would: present (arbitrary null / non-null) so that
      such a change is judged by the contract instead of failing to compile */
   void* _simplifier; void* _scaler;
   void _storeSolutionRealFromPresol() { havoc(ev(K_STOREPRESOL, 0)); }
   void _storeSolutionReal(bool verify) { havoc(ev(K_STORE, verify)); }
   void _resolveWithoutPreprocessing(SPxSimplifier<R>::Result simplificationStatus) { havoc(ev(K_RESOLVEWO, (int)simplificationStatus)); }
   void body(SPxSimplifier<R>::Result simplificationStatus)
   {
#include "_evaluateSolutionReal.inc"
   }
};
extern "C" void w_eval(int simp, int* status, int solverStatus, int ensureRay, int* isRealLPLoaded, int isRealLPScaled,
                       int* applyPolishing, double shift, double eps, int pfeas, int dfeas, int* hasBasis, int polishing, double objoffset)
{
   VIN("simp", simp); VIN("status0", *status); VIN("solverStatus", solverStatus); VIN("ensureRay", ensureRay);
   VIN("isRealLPLoaded", *isRealLPLoaded); VIN("isRealLPScaled", isRealLPScaled); VIN("applyPolishing", *applyPolishing);
   VIN("shift", shift); VIN("eps", eps); VIN("pfeas", pfeas); VIN("dfeas", dfeas);
   SettingsStub set; H h; int some_object;
   h._simplifier = nondet_bool() ? (void*)&some_object : (void*)0; h._scaler = nondet_bool() ? (void*)&some_object : (void*)0;
   set._boolParamValues[SoPlexBase<R>::ENSURERAY] = ensureRay != 0;
   set._intParamValues[SoPlexBase<R>::SOLUTION_POLISHING] = polishing;
   set._realParamValues[SoPlexBase<R>::OBJ_OFFSET] = objoffset;
   h._currentSettings = &set;
   h._solver.host = &h; h._solver.st = solverStatus; h._solver.sh = shift; h._solver.eps = eps;
   h._solReal._isPrimalFeasible = pfeas != 0; h._solReal._isDualFeasible = dfeas != 0;
   h._status = (SPxSolverBase<R>::Status)(*status);
   h._hasBasis = *hasBasis != 0; h._isRealLPLoaded = *isRealLPLoaded != 0; h._isRealLPScaled = isRealLPScaled != 0;
   h._applyPolishing = *applyPolishing != 0;
   g_nev = 0;
   h.body((SPxSimplifier<R>::Result)simp);
   *status = (int)h._status; *hasBasis = h._hasBasis; *isRealLPLoaded = h._isRealLPLoaded; *applyPolishing = h._applyPolishing;
}
#endif

/* ===================================================================================================================== */
#ifdef INST_STORE
/* try { f(); } catch(const SPxException& E) { H }   with f the ONLY statement of the try block (must_contain-checked):
 * equivalent to  { f(); } if(f threw) { H }  where a throwing f has no effect the handler or the code after it reads.
 * The unsimplify stub decides arbitrarily whether it "throws" (g_unsimp_threw); the handler text is compiled verbatim. */
extern "C" { extern int g_unsimp_threw; }
#define try
#define catch(decl) if(g_unsimp_threw)

/* This instance logs BY KIND (every kind occurs at most once per call of _storeSolutionReal, asserted by the contract through
 * k_cnt): k_seq[kind] is the position of the event in the call sequence (1, 2, ...), g_nev the total number of events. */
extern "C" {
   extern int k_cnt[NKIND], k_seq[NKIND], k_arg[NKIND], k_arg2[NKIND], k_st_in[NKIND], k_hb_in[NKIND], k_ld_in[NKIND], k_hb_out[NKIND], k_ld_out[NKIND];
}
struct HostK : HostBase
{
   void kev(int kind, int arg, int arg2 = 0)
   {
      g_nev = g_nev + 1;
      k_cnt[kind] = k_cnt[kind] + 1; k_seq[kind] = g_nev; k_arg[kind] = arg; k_arg2[kind] = arg2;
      k_st_in[kind] = (int)_status; k_hb_in[kind] = _hasBasis; k_ld_in[kind] = _isRealLPLoaded;
   }
   void khavoc(int kind)
   {
      _status = (SPxSolverBase<R>::Status)nondet_int();
      _hasBasis = nondet_bool(); _applyPolishing = nondet_bool(); _isRealLPLoaded = nondet_bool();
      k_hb_out[kind] = _hasBasis; k_ld_out[kind] = _isRealLPLoaded;
   }
};

/* vectors: only dimension and identity (id: 1 primal, 2 slacks, 3 dual, 4 reduced costs, 5 primal ray, 6 Farkas) matter here */
struct VecStub
{
   int dimen; int id;
   void reDim(int newdim, const bool setZero = true) { dimen = newdim; }
   int dim() const { return dimen; }
};
/* DataArray<VarStatus>: size and identity (tag 7 rows, 8 columns; get_ptr() hands out the address of the tag) */
struct StatArr
{
   int thesize; int tag;
   void reSize(int newsize) { thesize = newsize; }
   int size() const { return thesize; }
   int* get_ptr() { return &tag; }
   const int* get_const_ptr() const { return &tag; }
};
struct BasisStub
{
   int st;
   SPxBasisBase<R>::SPxStatus status() const { return (SPxBasisBase<R>::SPxStatus)st; }
};
struct LPStub { int nr, nc; int scaled; };
#define ST0 ((SPxSolverBase<R>::Status)0)
struct SolverStubS : LPStub
{
   HostK* host;
   BasisStub bas; double sh; double objval; int basisStatus;
   bool weightsAreSetup;
   int nRows() const { return nr; }
   int nCols() const { return nc; }
   bool isScaled() const { return scaled != 0; }
   const BasisStub& basis() const { return *(BasisStub*)&bas; }   /* front end drops the const otherwise (README pitfall 3) */
   R shift() const { return sh; }
   SPxSolverBase<R>::Status getPrimalray(VecStub& v) const { host->kev(K_GETRAY, v.id == 5, v.dimen); return ST0; }
   SPxSolverBase<R>::Status getDualfarkas(VecStub& v) const { host->kev(K_GETFARKAS, v.id == 6, v.dimen); return ST0; }
   SPxSolverBase<R>::Status getBasis(int* rows, int* cols, const int rowsSize = -1, const int colsSize = -1) const
   { host->kev(K_GETBASIS, *rows == 7 && *cols == 8, rowsSize); return ST0; }
   SPxSolverBase<R>::Status getPrimalSol(VecStub& v) const { host->kev(K_GETPRIMAL, v.id == 1, v.dimen); return ST0; }
   SPxSolverBase<R>::Status getSlacks(VecStub& v) const { host->kev(K_GETSLACKS, v.id == 2, v.dimen); return ST0; }
   SPxSolverBase<R>::Status getDualSol(VecStub& v) const { host->kev(K_GETDUAL, v.id == 3, v.dimen); return ST0; }
   SPxSolverBase<R>::Status getRedCostSol(VecStub& v) const { host->kev(K_GETREDCOST, v.id == 4, v.dimen); return ST0; }
   void forceRecompNonbasicValue() {}
   R objValue() { return objval; }
   SPxBasisBase<R>::SPxStatus getBasisStatus() const { return (SPxBasisBase<R>::SPxStatus)basisStatus; }
   void setBasisStatus(SPxBasisBase<R>::SPxStatus stat) { host->kev(K_SETBASIS, (int)stat); }
   void setBasis(const int* rows, const int* cols) { host->kev(K_SETBASISVEC, *rows == 7 && *cols == 8); }
};
/* the four result vectors of the simplifier: `_solReal._primal = _simplifier->unsimplifiedPrimal()` is a recorded copy */
struct SimpVec { int which; };
struct SimplifierStub
{
   HostK* host;
   SimpVec up, us, ud, ur;
   void unsimplify(const VecStub& x, const VecStub& y, const VecStub& s, const VecStub& r, const int* rows, const int* cols, bool isOptimal = true)
   {
      host->kev(K_UNSIMPLIFY, x.id == 1 && y.id == 3 && s.id == 2 && r.id == 4 && *rows == 7 && *cols == 8, isOptimal);
      g_unsimp_threw = nondet_bool();
   }
   const SimpVec& unsimplifiedPrimal() { return *(SimpVec*)&up; }
   const SimpVec& unsimplifiedSlacks() { return *(SimpVec*)&us; }
   const SimpVec& unsimplifiedDual() { return *(SimpVec*)&ud; }
   const SimpVec& unsimplifiedRedCost() { return *(SimpVec*)&ur; }
   void getBasis(int* rows, int* cols, const int rowsSize = -1, const int colsSize = -1) const
   { host->kev(K_SIMPBASIS, *rows == 7 && *cols == 8); }
};
template <int ME> struct SolVec : VecStub
{
   HostK* host;
   SolVec& operator=(const SimpVec& src) { host->kev(K_COPYSOL0 + ME, src.which == ME); return *this; }
};
struct SolStubS
{
   SolVec<1> _primal; SolVec<2> _slacks; SolVec<3> _dual; SolVec<4> _redCost;
   VecStub _primalRay, _dualFarkas;
   R _objVal;
   bool _isPrimalFeasible, _isDualFeasible, _hasPrimalRay, _hasDualFarkas;
};
struct H : HostK
{
   SolverStubS _solver;
   LPStub* _realLP;
   SolStubS _solReal;
   StatArr _basisStatusRows, _basisStatusCols;
   SimplifierStub* _simplifier;
   int nrows_orig, ncols_orig;
   int numRows() const { return nrows_orig; }
   int numCols() const { return ncols_orig; }
   /* arg = 1 if LP is _solver, 2 if it is another LP */
   void _unscaleSolutionReal(LPStub& LP, bool persistent)
   { if(persistent) kev(K_UNSCALE_PERS, (&LP == (LPStub*)&_solver) ? 1 : 2); else kev(K_UNSCALE_INT, (&LP == (LPStub*)&_solver) ? 1 : 2); }
   void _verifyObjLimitReal() { kev(K_VERIFYOBJ, 0); khavoc(K_VERIFYOBJ); }
   void _verifySolutionReal() { kev(K_VERIFYSOL, 0); khavoc(K_VERIFYSOL); }
   void _preprocessAndSolveReal(bool applySimplifier, volatile bool* interrupt = 0) { kev(K_RESOLVE, applySimplifier); khavoc(K_RESOLVE); }
   /* the real _loadRealLP makes the solver hold the real LP: _realLP = &_solver (needed by `else if(_realLP != &_solver)`) */
   void _loadRealLP(bool initBasis) { kev(K_LOADLP, initBasis); _isRealLPLoaded = true; _realLP = &_solver; }
   void body(bool verify)
   {
#include "_storeSolutionReal.inc"
   }
};
extern "C" { extern int g_primal_dim, g_slacks_dim, g_dual_dim, g_redcost_dim, g_ray_dim, g_farkas_dim, g_rows_size, g_cols_size; }
extern "C" void w_store(int verify, int status, int basisStatus, double shift, double epszero, int* isRealLPLoaded, int* isRealLPScaled,
                        int solverScaled, int haveSimplifier, int nr, int nc, int nr_orig, int nc_orig, double objval,
                        int* hasBasis, int* hasSolReal, int* pfeas, int* dfeas, int* hasPrimalRay, int* hasDualFarkas, double* objValOut,
                        int* weightsAreSetup)
{
   VIN("verify", verify); VIN("status", status); VIN("basisStatus", basisStatus); VIN("shift", shift); VIN("epszero", epszero);
   VIN("isRealLPLoaded", *isRealLPLoaded); VIN("isRealLPScaled", *isRealLPScaled); VIN("solverScaled", solverScaled);
   VIN("haveSimplifier", haveSimplifier);
   SettingsStub set; H h; LPStub other; SimplifierStub simp;
   set._realParamValues[SoPlexBase<R>::EPSILON_ZERO] = epszero;
   h._currentSettings = &set;
   h._status = (SPxSolverBase<R>::Status)status;
   h._hasBasis = *hasBasis != 0; h._hasSolReal = *hasSolReal != 0;
   h._isRealLPLoaded = *isRealLPLoaded != 0; h._isRealLPScaled = *isRealLPScaled != 0; h._applyPolishing = false;
   h._solver.host = &h; h._solver.nr = nr; h._solver.nc = nc; h._solver.scaled = solverScaled; h._solver.bas.st = basisStatus;
   h._solver.sh = shift; h._solver.objval = objval; h._solver.basisStatus = basisStatus; h._solver.weightsAreSetup = *weightsAreSetup != 0;
   /* type invariant of SoPlexBase: the real LP is loaded  <=>  _realLP == &_solver */
   h._realLP = h._isRealLPLoaded ? (LPStub*)&h._solver : &other;
   simp.host = &h; simp.up.which = 1; simp.us.which = 2; simp.ud.which = 3; simp.ur.which = 4;
   h._simplifier = haveSimplifier ? &simp : (SimplifierStub*)0;
   h._solReal._primal.host = &h; h._solReal._slacks.host = &h; h._solReal._dual.host = &h; h._solReal._redCost.host = &h;
   h._solReal._primal.id = 1; h._solReal._slacks.id = 2; h._solReal._dual.id = 3; h._solReal._redCost.id = 4;
   h._solReal._primalRay.id = 5; h._solReal._dualFarkas.id = 6;
   h._solReal._primal.dimen = -1; h._solReal._slacks.dimen = -1; h._solReal._dual.dimen = -1; h._solReal._redCost.dimen = -1;
   h._solReal._primalRay.dimen = -1; h._solReal._dualFarkas.dimen = -1;
   h._solReal._isPrimalFeasible = *pfeas != 0; h._solReal._isDualFeasible = *dfeas != 0;
   h._solReal._hasPrimalRay = *hasPrimalRay != 0; h._solReal._hasDualFarkas = *hasDualFarkas != 0; h._solReal._objVal = *objValOut;
   h._basisStatusRows.thesize = -1; h._basisStatusCols.thesize = -1; h._basisStatusRows.tag = 7; h._basisStatusCols.tag = 8;
   h.nrows_orig = nr_orig; h.ncols_orig = nc_orig;
   g_nev = 0; g_unsimp_threw = 0;
   h.body(verify != 0);
   *isRealLPLoaded = h._isRealLPLoaded; *isRealLPScaled = h._isRealLPScaled; *hasBasis = h._hasBasis; *hasSolReal = h._hasSolReal;
   *pfeas = h._solReal._isPrimalFeasible; *dfeas = h._solReal._isDualFeasible;
   *hasPrimalRay = h._solReal._hasPrimalRay; *hasDualFarkas = h._solReal._hasDualFarkas; *objValOut = h._solReal._objVal;
   *weightsAreSetup = h._solver.weightsAreSetup;
   g_primal_dim = h._solReal._primal.dimen; g_slacks_dim = h._solReal._slacks.dimen; g_dual_dim = h._solReal._dual.dimen;
   g_redcost_dim = h._solReal._redCost.dimen; g_ray_dim = h._solReal._primalRay.dimen; g_farkas_dim = h._solReal._dualFarkas.dimen;
   g_rows_size = h._basisStatusRows.thesize; g_cols_size = h._basisStatusCols.thesize;
}
#endif

/* ===================================================================================================================== */
#ifdef INST_OBJLIM
/* the two getters are replaced by their contracts (contract.c), as in units/verifynet */
extern "C" {
   int c_getDualViolation(double* maxviol, double* sumviol);
   int c_getRedCostViolation(double* maxviol, double* sumviol);
}
struct TolStub
{
   Real s_floating_point_opttol;
   Real floatingPointOpttol()
   {
#include "floatingPointOpttol.inc"
   }
};
struct SolverStubO
{
   HostBase* host; TolStub* tol;
   TolStub* tolerances() const { return tol; }       /* real: const std::shared_ptr<Tolerances>& */
   void toggleTerminationValue(bool enable) { host->ev(K_TOGGLEVALUE, enable); }
   void unscaleLPandReloadBasis() { host->ev(K_UNSCALELP, 0); }
};
struct H : HostBase
{
   SolverStubO _solver;
   void* _scaler; void* _simplifier;
   bool getDualViolation(R& maxviol, R& sumviol) { return c_getDualViolation(&maxviol, &sumviol) != 0; }
   bool getRedCostViolation(R& maxviol, R& sumviol) { return c_getRedCostViolation(&maxviol, &sumviol) != 0; }
   void body()
   {
#include "_verifyObjLimitReal.inc"
   }
};
extern "C" void w_objlim(double opttol, int haveScaler, int haveSimplifier, int* isRealLPScaled, int* unscaleCalls)
{
   VIN("opttol", opttol); VIN("haveScaler", haveScaler); VIN("haveSimplifier", haveSimplifier); VIN("isRealLPScaled", *isRealLPScaled);
   TolStub tol; H h; int dummy;
   tol.s_floating_point_opttol = opttol;
   h._solver.host = &h; h._solver.tol = &tol;
   h._scaler = haveScaler ? (void*)&dummy : (void*)0; h._simplifier = haveSimplifier ? (void*)&dummy : (void*)0;
   h._isRealLPScaled = *isRealLPScaled != 0; h._unscaleCalls = *unscaleCalls;
   h._status = (SPxSolverBase<R>::Status)0; h._hasBasis = true; h._isRealLPLoaded = true; h._applyPolishing = false;
   g_nev = 0;
   h.body();
   *isRealLPScaled = h._isRealLPScaled; *unscaleCalls = h._unscaleCalls;
}
#endif

/* ===================================================================================================================== */
#ifdef INST_STOPPED
struct TimerStub { Real t; Real time() const { return t; } };
struct StatStub { TimerStub* solvingTime; int iterations, refinements, stallRefinements; };
struct H : HostBase
{
   StatStub* _statistics;
   bool body(bool& stoppedTime, bool& stoppedIter) const
   {
#include "_isSolveStopped.inc"
   }
};
extern "C" int w_stopped(double timelimit, double infty, double now, int iterlimit, int reflimit, int stallreflimit,
                         int iterations, int refinements, int stallRefinements, int* stoppedTime, int* stoppedIter)
{
   VIN("timelimit", timelimit); VIN("infty", infty); VIN("now", now); VIN("iterlimit", iterlimit); VIN("iterations", iterations);
   SettingsStub set; H h; TimerStub tm; StatStub st;
   set._realParamValues[SoPlexBase<R>::TIMELIMIT] = timelimit; set._realParamValues[SoPlexBase<R>::INFTY] = infty;
   set._intParamValues[SoPlexBase<R>::ITERLIMIT] = iterlimit; set._intParamValues[SoPlexBase<R>::REFLIMIT] = reflimit;
   set._intParamValues[SoPlexBase<R>::STALLREFLIMIT] = stallreflimit;
   tm.t = now; st.solvingTime = &tm; st.iterations = iterations; st.refinements = refinements; st.stallRefinements = stallRefinements;
   h._currentSettings = &set; h._statistics = &st;
   bool bt = *stoppedTime != 0, bi = *stoppedIter != 0;
   bool r = h.body(bt, bi);
   *stoppedTime = bt; *stoppedIter = bi;
   return r ? 1 : 0;
}
#endif

/* ===================================================================================================================== */
#ifdef INST_LIMITS
/* The first block of _solveRealLPAndRecordStatistics(): the user's iteration / time limit is handed to the solver as what is
 * LEFT of it.  Region slice (from the comment "set time and iteration limit" up to "ensure that tolerances are not too small");
 * the two setters of SPxSolverBase are their real bodies (also under contract on their own in units/spxterm). */
struct TimerStub { Real t; Real time() const { return t; } };
struct StatStub { TimerStub* solvingTime; int iterations; };
struct SolverStubL
{
   int maxIters; Real maxTime; int iter_calls, time_calls;
   void setTerminationIter(int p_iteration)
   {
      iter_calls++;
#include "setTerminationIter.inc"
   }
   void setTerminationTime(Real p_time)
   {
      time_calls++;
#include "setTerminationTime.inc"
   }
};
struct H : HostBase
{
   SolverStubL _solver;
   StatStub* _statistics;
   void body()
   {
#include "solveRealLP_limits.inc"
   }
};
extern "C" void w_limits(int iterlimit, int done, double timelimit, double infty, double elapsed, int* maxIters, double* maxTime, int* iter_calls, int* time_calls)
{
   VIN("iterlimit", iterlimit); VIN("done", done); VIN("timelimit", timelimit); VIN("infty", infty); VIN("elapsed", elapsed);
   SettingsStub set; H h; TimerStub tm; StatStub st;
   set._intParamValues[SoPlexBase<R>::ITERLIMIT] = iterlimit;
   set._realParamValues[SoPlexBase<R>::TIMELIMIT] = timelimit; set._realParamValues[SoPlexBase<R>::INFTY] = infty;
   tm.t = elapsed; st.solvingTime = &tm; st.iterations = done;
   h._currentSettings = &set; h._statistics = &st;
   h._solver.maxIters = *maxIters; h._solver.maxTime = *maxTime; h._solver.iter_calls = 0; h._solver.time_calls = 0;
   h.body();
   *maxIters = h._solver.maxIters; *maxTime = h._solver.maxTime; *iter_calls = h._solver.iter_calls; *time_calls = h._solver.time_calls;
}
#endif
