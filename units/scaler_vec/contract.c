/* Contract (ledger domain): out[g] == src[g] + SIGN*exp[g] unless src[g] is infinite; frame = out.
 * SRC_IS_IN: the routine reads the LP vector `in` (getters); otherwise it works in place on io. */
#include "verif_c.h"
#ifndef CAP
#define CAP 16
#endif
#define INF (1LL << 40)
#define FIN (1LL << 30)
#define EXP_MAX (1 << 20)
typedef long long R;
R* gp_out; int g_n; int g_k; R v_src; int v_exp;
#define LEDGER_OK(x) ((x) == INF || (x) == -INF || (-FIN <= (x) && (x) <= FIN))
#ifdef USE_ROWEXP
#define EXPARR rowexp
#else
#define EXPARR colexp
#endif
#ifdef SRC_IS_IN
#define SRCARR in
#else
#define SRCARR io
#endif

void w_vec(R* in, R* io, int* rowexp, int* colexp, int n)
__CPROVER_requires(0 < n && n <= CAP && g_n == n)
__CPROVER_requires(__CPROVER_is_fresh(in, n * sizeof(R)) && __CPROVER_is_fresh(io, n * sizeof(R)))
__CPROVER_requires(__CPROVER_is_fresh(rowexp, n * sizeof(int)) && __CPROVER_is_fresh(colexp, n * sizeof(int)))
__CPROVER_requires(0 <= g_k && g_k < n && v_src == SRCARR[g_k] && v_exp == EXPARR[g_k])
#ifdef INF_SIDE
/* bound / side vectors: an entry is finite or infinite on its own side (upper, rhs: +inf; lower, lhs: -inf) */
__CPROVER_requires(((-FIN <= v_src && v_src <= FIN) || v_src == (INF_SIDE) * INF) && -EXP_MAX <= v_exp && v_exp <= EXP_MAX)
#else
/* solution vectors, rays, objective: finite entries */
__CPROVER_requires(-FIN <= v_src && v_src <= FIN && -EXP_MAX <= v_exp && v_exp <= EXP_MAX)
#endif
#ifdef VERIF_SMALL
/* small-scope counterexample search only: keep the values exactly representable as doubles for the native replay */
__CPROVER_requires(((-60 <= v_src && v_src <= 60) || v_src == INF || v_src == -INF) && -60 <= v_exp && v_exp <= 60)
#endif
__CPROVER_assigns(gp_out, __CPROVER_object_whole(io))
__CPROVER_ensures(io[g_k] == ((v_src == INF || v_src == -INF) ? v_src : v_src + (SIGN) * v_exp))
__CPROVER_ensures(EXPARR[g_k] == v_exp)
;

void h_vec(void)
{
   R* in; R* io; int* rowexp; int* colexp; int n;
   g_n = nondet_int(); g_k = nondet_int(); v_src = nondet_ll(); v_exp = nondet_int();
   w_vec(in, io, rowexp, colexp, n);
   CANARY();
}
