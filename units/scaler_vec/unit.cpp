/* C09/C01/C02: the vector-shaped (un)scaling routines of SPxScaler (src/soplex/spxscaler.hpp),
 * real bodies instantiated at R = ledger.  All have the shape  for i: out[i] = ldexp(in[i], +-exp[i]).
 * Selected by -DSLICE=... -DSRC=... ; the body sees `lp` and its VectorBase parameter under the
 * real parameter name PARAM. */
#include "verif.h"
#include "ledger.h"
/* scale exponents come from frexp() of doubles: |e| is bounded (assumed type invariant) */
#define DATAARRAY_READ_INVARIANT(v) __CPROVER_assume(-EXP_MAX <= (v) && (v) <= EXP_MAX)
#include "lp_parts.h"

struct SPxOut { static void debug(const void*, const char*, ...) {} };

template <class T> struct SPxLPBase : LPRowSetBase<T>, LPColSetBase<T>
{
   bool _isScaled;
   LPShared<T> sh;
   void bind() { LPRowSetBase<T>::d = &sh; LPColSetBase<T>::d = &sh; }
   bool isScaled() const { return _isScaled; }
};

extern "C" { extern R* gp_out; extern int g_n; }

struct H
{
   const SPxLPBase<R>* lp_;
   VectorBase<R>* v_;
   void body() const
   {
      /* prologue: bind the real parameter names (reference members of class type are rejected
         by the front end, so the host holds pointers) */
      const SPxLPBase<R>& lp = *lp_;
      VectorBase<R>& PARAM = *v_;
#include SLICE
   }
};

/* in: the LP vector the getters read (unused by the in-place routines); io: the VectorBase argument */
extern "C" void w_vec(R* in, R* io, int* rowexp, int* colexp, int n)
{
   VIN("n", n); VIN_ARR8("in", in, n); VIN_ARR8("io", io, n); VIN_ARR8("rowexp", rowexp, n); VIN_ARR8("colexp", colexp, n);
   SPxLPBase<R> lp;
   lp._isScaled = true;
   lp.LPColSetBase<R>::scaleExp.data = colexp; lp.LPColSetBase<R>::scaleExp.thesize = n;
   lp.LPRowSetBase<R>::scaleExp.data = rowexp; lp.LPRowSetBase<R>::scaleExp.thesize = n;
   lp.bind();
   lp.sh.low.val = in; lp.sh.low.dimen = n; lp.sh.up.val = in; lp.sh.up.dimen = n; lp.sh.obj.val = in; lp.sh.obj.dimen = n;
   lp.sh.left.val = in; lp.sh.left.dimen = n; lp.sh.right.val = in; lp.sh.right.dimen = n; lp.sh.robj.val = in; lp.sh.robj.dimen = n;
   VectorBase<R> v; v.val = io; v.dimen = n;
   gp_out = io;
   H h; h.lp_ = &lp; h.v_ = &v;
   h.body();
}
