/* C09/C01/C02: the vector-shaped (un)scaling routines of SPxScaler (src/soplex/spxscaler.hpp),
 * real bodies instantiated at R = ledger.  All have the shape  for i: out[i] = ldexp(in[i], +-exp[i]).
 * Selected by -DSLICE=... -DSRC=... ; the body sees `lp` and its VectorBase parameter under the
 * real parameter name PARAM. */
#include "verif.h"
#include "ledger.h"
/* scale exponents come from frexp() of doubles: |e| is bounded (assumed type invariant) */
#define DATAARRAY_READ_INVARIANT(v) __CPROVER_assume(-EXP_MAX <= (v) && (v) <= EXP_MAX)
#include "containers.h"

struct SPxOut { static void debug(const void*, const char*, ...) {} };

/* `return *(VectorBase<T>*)&m;`: the front end drops the const of a `const X<T>&` return type and then
 * rejects `return m;` in a const member; the cast is semantically neutral. */
template <class T> struct LPColSetBase
{
   DataArray<int> scaleExp;
   VectorBase<T> low, up, object;
   const VectorBase<T>& lower() const { return *(VectorBase<T>*)&low; }
   const VectorBase<T>& upper() const { return *(VectorBase<T>*)&up; }
   const VectorBase<T>& maxObj() const { return *(VectorBase<T>*)&object; }
};
template <class T> struct LPRowSetBase
{
   DataArray<int> scaleExp;
   VectorBase<T> left, right, object;
   const VectorBase<T>& lhs() const { return *(VectorBase<T>*)&left; }
   const VectorBase<T>& rhs() const { return *(VectorBase<T>*)&right; }
};
template <class T> struct SPxLPBase : LPRowSetBase<T>, LPColSetBase<T>
{
   bool _isScaled;
   bool isScaled() const { return _isScaled; }
};

extern "C" { extern R* gp_out; extern int g_n; }

struct H
{
   const SPxLPBase<R>* lp_;
   VectorBase<R>* v_;
   void body() const
   {
      /* prologue: bind the real parameter names (reference members of class type are rejected
         by the front end, so the host holds pointers) */
      const SPxLPBase<R>& lp = *lp_;
      VectorBase<R>& PARAM = *v_;
#include SLICE
   }
};

/* in: the LP vector the getters read (unused by the in-place routines); io: the VectorBase argument */
extern "C" void w_vec(R* in, R* io, int* rowexp, int* colexp, int n)
{
   VIN("n", n); VIN_ARR8("in", in, n); VIN_ARR8("io", io, n); VIN_ARR8("rowexp", rowexp, n); VIN_ARR8("colexp", colexp, n);
   SPxLPBase<R> lp;
   lp._isScaled = true;
   lp.LPColSetBase<R>::scaleExp.data = colexp; lp.LPColSetBase<R>::scaleExp.thesize = n;
   lp.LPRowSetBase<R>::scaleExp.data = rowexp; lp.LPRowSetBase<R>::scaleExp.thesize = n;
   lp.low.val = in; lp.low.dimen = n; lp.up.val = in; lp.up.dimen = n; lp.LPColSetBase<R>::object.val = in; lp.LPColSetBase<R>::object.dimen = n;
   lp.left.val = in; lp.left.dimen = n; lp.right.val = in; lp.right.dimen = n; lp.LPRowSetBase<R>::object.val = in; lp.LPRowSetBase<R>::object.dimen = n;
   VectorBase<R> v; v.val = io; v.dimen = n;
   gp_out = io;
   H h; h.lp_ = &lp; h.v_ = &v;
   h.body();
}
