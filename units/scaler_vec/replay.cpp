/* Native replay for scaler_vec: runs the REAL SPxScaler<double> routine (through SPxEquiliSC<double>) on an LP whose
 * scale exponents and data are the counterexample's ledger values mapped to doubles: ledger offset o  <->  2^o.
 * The small-scope query keeps |offset| and |exponent| <= 60 so the doubles are exact. */
#include "replay_util.h"
/* the scale-exponent arrays are protected members of the real LP: the replay driver sets them directly */
#define protected public
#define private public
#include "soplex.h"
#undef protected
#undef private
#include <cmath>
using namespace soplex;

static double val(long long o) { if(o > 60 && o < (1LL << 40)) o = 60; if(o < -60 && o > -(1LL << 40)) o = -60; return (o >= (1LL << 40)) ? infinity : (o <= -(1LL << 40)) ? -double(infinity) : std::ldexp(1.0, (int)o); }

int main(int argc, char** argv)
{
   if(argc < 3) return 2;
   ReplayIn in(argv[1]);
   std::string inst = argv[2];
   int n = (int)in.geti("n", 1);
   if(n < 1 || n > 64) return 2;
   std::vector<int> rowexp = in.getarr("rowexp", n, 0), colexp = in.getarr("colexp", n, 0);
   SPxLPBase<double> lp;
   lp.setTolerances(std::make_shared<Tolerances>());
   DSVectorBase<double> empty;
   for(int i = 0; i < n; i++)
   {
      lp.addRow(LPRowBase<double>(-double(infinity), empty, double(infinity)));
      lp.addCol(LPColBase<double>(0.0, empty, double(infinity), -double(infinity)));
   }
   std::vector<double> src(n), io(n);
   for(int i = 0; i < n; i++)
   {
      std::ostringstream a, b; a << "in[" << i << "]"; b << "io[" << i << "]";
      src[i] = val(in.geti(a.str(), i % 7 - 3));
      io[i] = val(in.geti(b.str(), i % 5 - 2));
      /* cells the counterexample does not constrain carry arbitrary bit patterns: clamp them to a range doubles represent exactly */
      if(rowexp[i] > 60) rowexp[i] = 60; if(rowexp[i] < -60) rowexp[i] = -60; if(colexp[i] > 60) colexp[i] = 60; if(colexp[i] < -60) colexp[i] = -60;
      lp.LPRowSetBase<double>::scaleExp[i] = rowexp[i];
      lp.LPColSetBase<double>::scaleExp[i] = colexp[i];
   }
   lp.setScalingInfo(true);
   SPxEquiliSC<double> sc;
   VectorBase<double> v(n);
   struct Case { const char* name; bool row; int sign; bool srcIsLP; int which; };
   static const Case cases[] = {
      {"unscalePrimal", false, +1, false, 0}, {"unscaleSlacks", true, -1, false, 1}, {"unscaleDual", true, +1, false, 2},
      {"unscaleRedCost", false, -1, false, 3}, {"unscalePrimalray", false, +1, false, 4}, {"unscaleDualray", true, +1, false, 5},
      {"scaleObj", false, +1, false, 6}, {"getUpperUnscaled", false, +1, true, 7}, {"getLowerUnscaled", false, +1, true, 8},
      {"getMaxObjUnscaled", false, -1, true, 9}, {"getRhsUnscaled", true, -1, true, 10}, {"getLhsUnscaled", true, -1, true, 11}};
   for(const Case& c : cases)
   {
      if(inst != c.name) continue;
      for(int i = 0; i < n; i++)
      {
         v[i] = io[i];
         /* bounds/sides are finite or infinite on their own side only (precondition of the contract) */
         if((c.which == 7 || c.which == 10) && src[i] <= -double(infinity)) src[i] = -1.0;
         if((c.which == 8 || c.which == 11) && src[i] >= double(infinity)) src[i] = 1.0;
         if(c.which == 9 && (src[i] >= double(infinity) || src[i] <= -double(infinity))) src[i] = 1.0;
         if(c.which == 7) lp.changeUpper(i, src[i]);
         if(c.which == 8) lp.changeLower(i, src[i]);
         if(c.which == 9) lp.changeMaxObj(i, src[i]);
         if(c.which == 10) lp.changeRhs(i, src[i]);
         if(c.which == 11) lp.changeLhs(i, src[i]);
      }
      switch(c.which)
      {
      case 0: sc.unscalePrimal(lp, v); break;   case 1: sc.unscaleSlacks(lp, v); break;
      case 2: sc.unscaleDual(lp, v); break;     case 3: sc.unscaleRedCost(lp, v); break;
      case 4: sc.unscalePrimalray(lp, v); break; case 5: sc.unscaleDualray(lp, v); break;
      case 6: sc.scaleObj(lp, v); break;        case 7: sc.getUpperUnscaled(lp, v); break;
      case 8: sc.getLowerUnscaled(lp, v); break; case 9: sc.getMaxObjUnscaled(lp, v); break;
      case 10: sc.getRhsUnscaled(lp, v); break; default: sc.getLhsUnscaled(lp, v); break;
      }
      for(int i = 0; i < n; i++)
      {
         double s = c.srcIsLP ? src[i] : io[i];
         double expect = std::ldexp(s, c.sign * (c.row ? rowexp[i] : colexp[i]));
         if(c.which >= 7 && c.which != 9 && (s >= double(infinity) || s <= -double(infinity))) expect = s;   /* infinite bounds/sides stay as they are */
         if(v[i] != expect)
            REPLAY_FAIL(c.name << ": entry " << i << " is " << v[i] << ", expected " << s << " * 2^" << c.sign * (c.row ? rowexp[i] : colexp[i]) << " = " << expect);
      }
      REPLAY_OK();
   }
   std::cout << "no native replay for instance " << inst << std::endl;
   return 0;
}
