"""Generator of unit.json (run: python3 gen_unit.py).  unit.json is the checked artefact; this script keeps the repetitive
slice / conformance / loop tables in one place.  The common slice table is shared with units/basis_conv (gen_common.py)."""
import os, sys
sys.path.insert(0, os.path.join(os.path.dirname(os.path.abspath(__file__)), "..", "basis_conv"))
from gen_common import *
CHG = "src/soplex/spxchangebasis.hpp"
DESC_HPP = "src/soplex/spxdesc.hpp"
HB = r"H::body\(this\)"
RSZ = r"SPxBasisBase<double>::Desc::reSize_body\(this\)"
KEEP = {"Desc_nCols.inc", "Desc_nRows.inc", "Desc_rowStatus_w.inc", "Desc_rowStatus_r.inc", "Desc_colStatus_w.inc", "Desc_colStatus_r.inc",
        "dualRowStatus.inc", "dualColStatus.inc", "Solver_isBasic.inc", "Solver_rep.inc", "Solver_dim.inc"}
BASE_SLICES = [s for s in COMMON_SLICES if s["as"] in KEEP] + [
 S("Desc_reSize.inc", DESC_HPP, r"void\s+SPxBasisBase<R>::Desc::reSize\s*\(\s*int\s+rowDim\s*,\s*int\s+colDim\s*\)", [r"rowstat\.reSize\(rowDim\)", r"colstat\.reSize\(colDim\)", r"rowstat\[i\]\s*=\s*D_UNDEFINED"]),
 S("Basis_status.inc", BASIS_H, r"SPxStatus\s+status\s*\(\s*\)\s*const", [r"return\s+thestatus;"]),
 S("Basis_setStatus.inc", BASIS_H, r"void\s+setStatus\s*\(\s*SPxStatus\s+stat\s*\)", [r"thestatus\s*=\s*stat;", r"if\(stat\s*==\s*NO_PROBLEM\)\s*invalidate\(\);"]),
 S("Basis_baseId_w.inc", BASIS_H, r"inline\s+SPxId&\s+baseId\s*\(\s*int\s+i\s*\)", [r"return\s+theBaseId\[i\];"]),
 S("Basis_reDim.inc", CHG, r"void\s+SPxBasisBase<R>::reDim\s*\(\s*\)", [r"thedesc\.reSize\(theLP->nRows\(\),\s*theLP->nCols\(\)\)", r"theLP->dim\(\)\s*!=\s*matrix\.size\(\)", r"theBaseId\.reSize\(theLP->dim\(\)\)"]),
 S("Basis_invalidate.inc", CHG, r"void\s+SPxBasisBase<R>::invalidate\s*\(\s*\)", [r"factorized\s*=\s*false;", r"matrixIsSetup\s*=\s*false;"]),
 S("primalColStatus.inc", CHG, r"primalColStatus\s*\(\s*int\s+i\s*,\s*const\s+SPxLPBase<R>\*\s+theLP\s*\)", [r"P_FIXED", r"P_FREE"]),
]
S_removedRow = S("Basis_removedRow.inc", CHG, r"void\s+SPxBasisBase<R>::removedRow\s*\(\s*int\s+i\s*\)",
                 [r"thedesc\.rowStatus\(i\)\s*=\s*thedesc\.rowStatus\(theLP->nRows\(\)\);", r"reDim\(\);", r"theLP->has\(SPxRowId\(id\)\)"])

def inst(name, function, slices, loops, mutants, minob=50, tier="quick", extra=None, defines=None):
    d = {"name": name, "function": function, "defines": dict({"INST_" + name: ""}, **(defines or {})), "harness": "h_" + name, "enforce": "w_" + name,
         "slices": BASE_SLICES + slices, "loops": loops, "min_obligations": minob, "tier": tier, "mutants": mutants}
    if extra: d.update(extra)
    return d

# Desc::reSize: the two fill loops; everything below the old size is outside the loop's assigns clause
def resize_loops():
    return [
     {"function": RSZ, "loop": 0, "locals": [["i", "1::1::i"], "rowDim", "noldrows"],
      "invariants": ["i <= rowDim - 1 && (noldrows - 1 <= i || i == rowDim - 1)"],
      "assigns": ["i", "__CPROVER_object_from(gp_rs + noldrows)"], "decreases": "i + 1 - noldrows"},
     {"function": RSZ, "loop": 1, "locals": [["i", "1::2::i"], "colDim", "noldcols"],
      "invariants": ["i <= colDim - 1 && (noldcols - 1 <= i || i == colDim - 1)"],
      "assigns": ["i", "__CPROVER_object_from(gp_cs + noldcols)"], "decreases": "i + 1 - noldcols"},
    ]

def search_loop():   # removedRow (COLUMN) / removedCol (ROW): find the basis slot that holds the id of the removed row / column
    return [{"function": HB, "loop": 0, "locals": ["j"],
      "invariants": ["-1 <= j && j <= g_dim", "g_js <= j",
                     "g_js >= 0 ==> gp_bid[g_js] == g_gone",
                     "g_dim > 0 ==> gp_bid[g_b] == v_b",
                     "gp_bid[g_dim] == v_blast"],
      "assigns": ["j", "__CPROVER_object_whole(gp_bid)", "__CPROVER_object_whole(gp_mat)"], "decreases": "j + 1"}]

def many_loops(arr, keepflags_loop):
    # removedRows / removedCols: loop 0 = first branch in the text, loop 1 = second branch
    out = []
    for n in (0, 1):
        inv = ["0 <= i && i <= g_n",
               "(g_n > 0 && i <= g_x) ==> %s[g_x] == v_x" % arr,
               "(g_n > 0 && i > g_x && g_p >= 0) ==> %s[g_p] == v_x" % arr,
               "*gp_status == g_bstatus || *gp_status == g_NP",
               "(g_n > 0 && i > g_x && g_p < 0 && g_xdual == g_giveup) ==> *gp_status == g_NP"]
        if n == keepflags_loop:
            inv += ["*gp_status == g_NP ==> (!*gp_setup && !*gp_fact)", "*gp_status != g_NP ==> (*gp_setup == g_setup && *gp_fact == g_fact)"]
        else:
            inv += ["!*gp_setup && !*gp_fact"]
        out.append({"function": HB, "loop": n, "locals": ["i"], "invariants": inv,
                    "assigns": ["i", "__CPROVER_object_whole(%s)" % arr, "*gp_status", "*gp_setup", "*gp_fact"], "decreases": "g_n - i"})
    return out

ADM = "(%s == g_PL && g_okL) || (%s == g_PU && g_okU) || (%s == g_PX && g_okX) || (%s == g_PF && g_okF)"
def added_loops(rows):
    # loop 0 = first branch in the text (the representation whose basis matrix grows: ids are assigned), loop 1 = the other
    out = []
    for n in (0, 1):
        if rows:
            inv = ["g_old <= i && i <= g_nr", "(g_nr > 0 && g_old <= g_r && g_r < i) ==> gp_rs[g_r] == v_exp_r"]
            asg = ["i", "__CPROVER_object_from(gp_rs + g_old)"]
            dec = "g_nr - i"
        else:
            inv = ["g_old <= i && i <= g_nc", "(g_nc > 0 && g_old <= g_c && g_c < i) ==> (%s)" % (ADM % (("gp_cs[g_c]",) * 4))]
            asg = ["i", "__CPROVER_object_from(gp_cs + g_old)"]
            dec = "g_nc - i"
        if n == 0:
            inv.append("(g_old <= g_b && g_b < i) ==> gp_bid[g_b] == g_key")
            asg.append("__CPROVER_object_from(gp_bid + g_old)")
        out.append({"function": HB, "loop": n, "locals": [["i", "1::1::%d::1::i" % (n + 1)]], "invariants": inv, "assigns": asg, "decreases": dec})
    return out

RIB = r"H::restoreInitialBasis\(this\)"
def restore_loops():
    # restoreInitialBasis: COLUMN: rows (+ids), cols;  ROW: rows, cols (+ids)
    def rows(n, ids, loc):
        inv = ["0 <= i && i <= g_nr", "(g_nr > 0 && g_r < i) ==> gp_rs[g_r] == v_exp_r"]
        asg = ["i", "__CPROVER_object_whole(gp_rs)"]
        if ids:
            inv.append("(g_rep > 0 && g_dim > 0 && g_b < i) ==> gp_bid[g_b] == g_key"); asg.append("__CPROVER_object_whole(gp_bid)")
        return {"function": RIB, "loop": n, "locals": [["i", loc]], "invariants": inv, "assigns": asg, "decreases": "g_nr - i"}
    def cols(n, ids, loc):
        inv = ["0 <= i && i <= g_nc", "(g_nc > 0 && g_c < i) ==> (%s)" % (ADM % (("gp_cs[g_c]",) * 4))]
        asg = ["i", "__CPROVER_object_whole(gp_cs)"]
        if ids:
            inv.append("(g_rep < 0 && g_dim > 0 && g_b < i) ==> gp_bid[g_b] == g_key"); asg.append("__CPROVER_object_whole(gp_bid)")
        return {"function": RIB, "loop": n, "locals": [["i", loc]], "invariants": inv, "assigns": asg, "decreases": "g_nc - i"}
    return [rows(0, True, "1::1::1::i"), cols(1, False, "1::1::2::i"), rows(2, False, "1::2::1::i"), cols(3, True, "1::2::2::i")]

S_removedCol = S("Basis_removedCol.inc", CHG, r"void\s+SPxBasisBase<R>::removedCol\s*\(\s*int\s+i\s*\)",
                 [r"thedesc\.colStatus\(i\)\s*=\s*thedesc\.colStatus\(theLP->nCols\(\)\);", r"reDim\(\);", r"theLP->has\(SPxColId\(id\)\)"])
S_removedRows = S("Basis_removedRows.inc", CHG, r"void\s+SPxBasisBase<R>::removedRows\s*\(\s*const\s+int\s+perm\[\]\s*\)",
                  [r"thedesc\.rowStatus\(perm\[i\]\)\s*=\s*thedesc\.rowStatus\(i\);", r"reDim\(\);", r"int\s+n\s*=\s*thedesc\.nRows\(\);"])
S_removedCols = S("Basis_removedCols.inc", CHG, r"void\s+SPxBasisBase<R>::removedCols\s*\(\s*const\s+int\s+perm\[\]\s*\)",
                  [r"thedesc\.colStatus\(perm\[i\]\)\s*=\s*thedesc\.colStatus\(i\);", r"reDim\(\);", r"int\s+n\s*=\s*thedesc\.nCols\(\);"])
S_addedRows = S("Basis_addedRows.inc", CHG, r"void\s+SPxBasisBase<R>::addedRows\s*\(\s*int\s+n\s*\)",
                [r"thedesc\.rowStatus\(i\)\s*=\s*dualRowStatus\(i\);", r"baseId\(i\)\s*=\s*theLP->SPxLPBase<R>::rId\(i\);", r"reDim\(\);", r"loadMatrixVecs\(\);"])
S_addedCols = S("Basis_addedCols.inc", CHG, r"void\s+SPxBasisBase<R>::addedCols\s*\(\s*int\s+n\s*\)",
                [r"thedesc\.colStatus\(i\)\s*=\s*primalColStatus\(i,\s*theLP\);", r"baseId\(i\)\s*=\s*theLP->SPxLPBase<R>::cId\(i\);", r"reDim\(\);", r"loadMatrixVecs\(\);"])
S_restore = S("Basis_restoreInitialBasis.inc", CHG, r"void\s+SPxBasisBase<R>::restoreInitialBasis\s*\(\s*\)",
              [r"thedesc\.rowStatus\(i\)\s*=\s*dualRowStatus\(i\);", r"thedesc\.colStatus\(i\)\s*=\s*primalColStatus\(i,\s*theLP\);", r"setStatus\(REGULAR\);"])
S_changedRow = S("Basis_changedRow.inc", CHG, r"void\s+SPxBasisBase<R>::changedRow\s*\(\s*int\s*/\*row\*/\s*\)", [r"invalidate\(\);\s*restoreInitialBasis\(\);"])
S_changedCol = S("Basis_changedCol.inc", CHG, r"void\s+SPxBasisBase<R>::changedCol\s*\(\s*int\s*/\*col\*/\s*\)", [r"invalidate\(\);\s*restoreInitialBasis\(\);"])
S_changedElement = S("Basis_changedElement.inc", CHG, r"void\s+SPxBasisBase<R>::changedElement\s*\(\s*int\s*/\*row\*/\s*,\s*int\s*/\*col\*/\s*\)", [r"invalidate\(\);\s*restoreInitialBasis\(\);"])

CCAP = 4
ALL_LOOPS_UNWOUND = lambda fns: {"unwind": CCAP + 2, "unwind_loops": [{"function": f, "loop": n} for f, k in fns for n in range(k)]}
MANY = {"harness": "h_removedMany", "enforce": "w_removedMany"}
ADDED = {"harness": "h_added", "enforce": "w_added"}
CHANGED = {"harness": "h_changed", "enforce": "w_changed"}
def variants(name, function, slices, loops, mutants, count_mutants, loopfns, extra, defines=None, minob=100, count=True):
    out = [inst(name, function, slices, loops + resize_loops(), mutants, minob, extra=extra, defines=defines)]
    if count:
        e = dict(extra); e.update(ALL_LOOPS_UNWOUND(loopfns + [(RSZ, 2)]))
        d = dict(defines or {}); d["INST_" + name] = ""; d["COUNTV"] = ""; d["CAP"] = str(CCAP)
        c = inst(name + "_count", function + "  [explicit basic count, all loops unwound completely, <= %d rows and columns]" % CCAP + "", slices, [], count_mutants, minob, extra=e, defines=d)
        del c["defines"]["INST_" + name + "_count"]
        out.append(c)
    return out

M_rr = [{"name": "column_negation_lost", "slice": "Basis_removedRow.inc", "find": "if(!theLP->isBasic(thedesc.rowStatus(i)))", "replace": "if(theLP->isBasic(thedesc.rowStatus(i)))"},
        {"name": "row_negation_added", "slice": "Basis_removedRow.inc", "find": "   if(theLP->rep() == SPxSolverBase<R>::ROW)\n   {\n      if(theLP->isBasic(thedesc.rowStatus(i)))", "replace": "   if(theLP->rep() == SPxSolverBase<R>::ROW)\n   {\n      if(!theLP->isBasic(thedesc.rowStatus(i)))"},
        {"name": "moves_wrong_entry", "slice": "Basis_removedRow.inc", "find": "thedesc.rowStatus(i) = thedesc.rowStatus(theLP->nRows());", "replace": "thedesc.rowStatus(i) = thedesc.rowStatus(theLP->nRows() - 1);"},
        {"name": "id_not_compacted", "slice": "Basis_removedRow.inc", "find": "baseId(j) = baseId(theLP->dim());", "replace": "baseId(j) = baseId(j);"},
        {"name": "callee_reDim_keeps_flags", "slice": "Basis_reDim.inc", "find": "matrixIsSetup = false;\n      factorized    = false;", "replace": ""}]
M_rc = [{"name": "column_negation_added", "slice": "Basis_removedCol.inc", "find": "      if(theLP->isBasic(thedesc.colStatus(i)))\n         setStatus(NO_PROBLEM);", "replace": "      if(!theLP->isBasic(thedesc.colStatus(i)))\n         setStatus(NO_PROBLEM);"},
        {"name": "row_negation_lost", "slice": "Basis_removedCol.inc", "find": "if(!theLP->isBasic(thedesc.colStatus(i)))", "replace": "if(theLP->isBasic(thedesc.colStatus(i)))"},
        {"name": "moves_row_entry", "slice": "Basis_removedCol.inc", "find": "thedesc.colStatus(i) = thedesc.colStatus(theLP->nCols());", "replace": "thedesc.colStatus(i) = thedesc.rowStatus(theLP->nCols());"},
        {"name": "scan_skips_last", "slice": "Basis_removedCol.inc", "find": "for(int j = theLP->dim(); j >= 0; --j)", "replace": "for(int j = theLP->dim() - 1; j >= 0; --j)"}]
M_rrs = [{"name": "column_negation_lost", "slice": "Basis_removedRows.inc", "find": "if(!theLP->isBasic(thedesc.rowStatus(i)))", "replace": "if(theLP->isBasic(thedesc.rowStatus(i)))"},
         {"name": "move_reversed", "slice": "Basis_removedRows.inc", "find": "            else                            // row was moved\n               thedesc.rowStatus(perm[i]) = thedesc.rowStatus(i);\n         }\n      }\n   }\n\n   reDim();", "replace": "            else                            // row was moved\n               thedesc.rowStatus(i) = thedesc.rowStatus(perm[i]);\n         }\n      }\n   }\n\n   reDim();"},
         {"name": "skip_first", "slice": "Basis_removedRows.inc", "find": "      factorized    = false;\n      matrixIsSetup = false;\n\n      for(i = 0; i < n; ++i)", "replace": "      factorized    = false;\n      matrixIsSetup = false;\n\n      for(i = 1; i < n; ++i)"}]
M_rcs = [{"name": "column_negation_added", "slice": "Basis_removedCols.inc", "find": "            if(theLP->isBasic(thedesc.colStatus(i)))\n               setStatus(NO_PROBLEM);", "replace": "            if(!theLP->isBasic(thedesc.colStatus(i)))\n               setStatus(NO_PROBLEM);"},
         {"name": "row_negation_lost", "slice": "Basis_removedCols.inc", "find": "if(!theLP->isBasic(thedesc.colStatus(i)))", "replace": "if(theLP->isBasic(thedesc.colStatus(i)))"},
         {"name": "moves_into_rows", "slice": "Basis_removedCols.inc", "find": "         else                        // column was potentially moved\n            thedesc.colStatus(perm[i]) = thedesc.colStatus(i);", "replace": "         else                        // column was potentially moved\n            thedesc.rowStatus(perm[i]) = thedesc.colStatus(i);"}]
M_ar = [{"name": "new_rows_get_col_status", "slice": "Basis_addedRows.inc", "find": "            thedesc.rowStatus(i) = dualRowStatus(i);\n            baseId(i)", "replace": "            thedesc.rowStatus(i) = dualColStatus(i);\n            baseId(i)"},
        {"name": "skip_first_new_row", "slice": "Basis_addedRows.inc", "find": "         for(int i = theLP->nRows() - n; i < theLP->nRows(); ++i)\n            thedesc.rowStatus(i) = dualRowStatus(i);", "replace": "         for(int i = theLP->nRows() - n + 1; i < theLP->nRows(); ++i)\n            thedesc.rowStatus(i) = dualRowStatus(i);"},
        {"name": "optimal_stays_optimal", "slice": "Basis_addedRows.inc", "find": "      case OPTIMAL:\n      case INFEASIBLE:\n         setStatus(DUAL);", "replace": "      case INFEASIBLE:\n         setStatus(DUAL);"},
        {"name": "callee_dual_status_swapped", "slice": "dualRowStatus.inc", "find": "return Desc::D_ON_LOWER;", "replace": "return Desc::D_ON_UPPER;"}]
M_ar_count = [{"name": "new_rows_nonbasic", "slice": "Basis_addedRows.inc", "find": "            thedesc.rowStatus(i) = dualRowStatus(i);\n            baseId(i)", "replace": "            thedesc.rowStatus(i) = primalColStatus(i, theLP);\n            baseId(i)"},
              M_ar[1]]
M_ac = [{"name": "new_cols_basic", "slice": "Basis_addedCols.inc", "find": "            thedesc.colStatus(i) = primalColStatus(i, theLP);\n            baseId(i)", "replace": "            thedesc.colStatus(i) = dualColStatus(i);\n            baseId(i)"},
        {"name": "ids_are_rows", "slice": "Basis_addedCols.inc", "find": "baseId(i) = theLP->SPxLPBase<R>::cId(i);", "replace": "baseId(i) = theLP->SPxLPBase<R>::rId(i);"},
        {"name": "callee_upper_at_infinity", "slice": "primalColStatus.inc", "find": "   else if(theLP->lower(i) > R(-infinity))\n      return SPxBasisBase<R>::Desc::P_ON_LOWER;", "replace": "   else if(theLP->lower(i) > R(-infinity))\n      return SPxBasisBase<R>::Desc::P_ON_UPPER;"}]
M_ch = lambda nm: [{"name": "no_invalidate", "slice": "Basis_%s.inc" % nm, "find": "invalidate();", "replace": ""},
                   {"name": "callee_cols_basic", "slice": "Basis_restoreInitialBasis.inc", "find": "      for(int i = 0; i < theLP->nCols(); ++i)\n         thedesc.colStatus(i) = primalColStatus(i, theLP);", "replace": "      for(int i = 0; i < theLP->nCols(); ++i)\n         thedesc.colStatus(i) = dualColStatus(i);"},
                   {"name": "callee_ids_skip_row0", "slice": "Basis_restoreInitialBasis.inc", "find": "      for(int i = 0; i < theLP->nRows(); ++i)\n      {\n         thedesc.rowStatus(i) = dualRowStatus(i);\n         baseId(i)", "replace": "      for(int i = 1; i < theLP->nRows(); ++i)\n      {\n         thedesc.rowStatus(i) = dualRowStatus(i);\n         baseId(i)"}]
U = {"UNIQUE_GONE_ID": ""}
insts = [
 inst("removedRow", "SPxBasisBase<R>::removedRow(int i)", [S_removedRow], search_loop() + resize_loops(), M_rr, 100, defines=U),
 inst("removedCol", "SPxBasisBase<R>::removedCol(int i)", [S_removedCol], search_loop() + resize_loops(), M_rc, 100, defines=U),
]
insts += variants("removedRows", "SPxBasisBase<R>::removedRows(const int perm[])", [S_removedRows], many_loops("gp_rs", 0), M_rrs, M_rrs[:2], [(HB, 2)], MANY, {"PERM_INVARIANT": ""})
insts += variants("removedCols", "SPxBasisBase<R>::removedCols(const int perm[])", [S_removedCols], many_loops("gp_cs", 0), M_rcs, M_rcs[:2], [(HB, 2)], MANY, {"PERM_INVARIANT": ""})
insts += variants("addedRows", "SPxBasisBase<R>::addedRows(int n)", [S_addedRows], added_loops(True), M_ar, M_ar_count, [(HB, 2)], ADDED)
insts += variants("addedCols", "SPxBasisBase<R>::addedCols(int n)", [S_addedCols], added_loops(False), M_ac, M_ac[:1], [(HB, 2)], ADDED)
for nm, fn in (("changedRow", "SPxBasisBase<R>::changedRow(int)"), ("changedCol", "SPxBasisBase<R>::changedCol(int)"), ("changedElement", "SPxBasisBase<R>::changedElement(int, int)")):
    sl = {"changedRow": S_changedRow, "changedCol": S_changedCol, "changedElement": S_changedElement}[nm]
    insts += variants(nm, fn + " -> invalidate(), restoreInitialBasis()", [sl, S_restore], restore_loops(), M_ch(nm), M_ch(nm)[1:2], [(RIB, 4)], CHANGED, count=(nm == "changedRow"))


KEEPC = ("`infinity` is", "covectors (dim) are", "host member theRep", "host member thecovectors", "SPxLPBase::rhs", "SPxLPBase::lhs", "SPxLPBase::upper", "SPxLPBase::lower",
         "Desc members rowstat/colstat", "SPxBasisBase::theLP", "SPxBasisBase::thedesc")
MYCONF = [c for c in CONFORMANCE if any(k in c["why"] for k in KEEPC)] + [
 {"file": BASIS_H, "regex": r"DataArray\s*<\s*SPxId\s*>\s*theBaseId;", "why": "SPxBasisBase::theBaseId"},
 {"file": BASIS_H, "regex": r"DataArray\s*<\s*const\s+SVectorBase<R>\*\s*>\s*matrix;", "why": "SPxBasisBase::matrix"},
 {"file": BASIS_H, "regex": r"bool\s+matrixIsSetup;", "why": "SPxBasisBase::matrixIsSetup"},
 {"file": BASIS_H, "regex": r"bool\s+factorized;", "why": "SPxBasisBase::factorized"},
 {"file": BASIS_H, "regex": r"SPxStatus\s+thestatus;", "why": "SPxBasisBase::thestatus"},
 {"file": BASIS_H, "regex": r"void\s+changedRow\(int\);.*?void\s+changedCol\(int\);.*?void\s+changedElement\(int,\s*int\);", "why": "the changed* hooks take (unused) numbers only"},
 {"file": BASIS_HPP, "regex": r"void\s+SPxBasisBase<R>::loadMatrixVecs\(\).*?matrix\[i\]\s*=\s*&theLP->vector\(baseId\(i\)\);.*?matrixIsSetup\s*=\s*true;\s*factorized\s*=\s*false;", "why": "loadMatrixVecs stub: sets matrixIsSetup, clears factorized, reloads the matrix pointers from baseId"},
 {"file": "src/soplex/spxid.h", "regex": r"ROW_ID\s*=\s*-1,.*?INVALID\s*=\s*0,.*?COL_ID\s*=\s*1", "why": "id type codes"},
 {"file": "src/soplex/spxid.h", "regex": r"SPxId&\s+operator=\(const\s+SPxRowId&\s+rid\)\s*\{\s*DataKey::operator=\s*\(rid\);\s*info\s*=\s*ROW_ID;", "why": "SPxId = SPxRowId keeps the key and marks it a row id"},
 {"file": "src/soplex/spxid.h", "regex": r"SPxId&\s+operator=\(const\s+SPxColId&\s+cid\)\s*\{\s*DataKey::operator=\s*\(cid\);\s*info\s*=\s*COL_ID;", "why": "SPxId = SPxColId keeps the key and marks it a column id"},
 {"file": "src/soplex/spxid.h", "regex": r"bool\s+isSPxRowId\(\)\s+const\s*\{\s*return\s+info\s*<\s*0;", "why": "isSPxRowId"},
 {"file": "src/soplex/spxid.h", "regex": r"bool\s+isSPxColId\(\)\s+const\s*\{\s*return\s+info\s*>\s*0;", "why": "isSPxColId"},
 {"file": "src/soplex/spxid.h", "regex": r"explicit\s+SPxRowId\(const\s+SPxId&\s+p_key\);", "why": "SPxRowId(SPxId) conversion"},
 {"file": "src/soplex/spxid.h", "regex": r"explicit\s+SPxColId\(const\s+SPxId&\s+p_key\);", "why": "SPxColId(SPxId) conversion"},
 {"file": "src/soplex/spxlpbase.h", "regex": r"SPxRowId\s+rId\(int n\)\s+const\s*\{\s*return\s+SPxRowId\(LPRowSetBase<R>::key\(n\)\);", "why": "rId(n) is the key of row n"},
 {"file": "src/soplex/spxlpbase.h", "regex": r"SPxColId\s+cId\(int n\)\s+const\s*\{\s*return\s+SPxColId\(LPColSetBase<R>::key\(n\)\);", "why": "cId(n) is the key of column n"},
 {"file": "src/soplex/spxlpbase.h", "regex": r"bool\s+has\(const\s+SPxRowId&\s+id\)\s+const\s*\{\s*return\s+LPRowSetBase<R>::has\(id\);", "why": "has(row id): the row set knows the key"},
 {"file": "src/soplex/spxlpbase.h", "regex": r"bool\s+has\(const\s+SPxColId&\s+id\)\s+const\s*\{\s*return\s+LPColSetBase<R>::has\(id\);", "why": "has(column id)"},
 {"file": "src/soplex/spxlpbase.h", "regex": r"const\s+R&\s+maxObj\(int i\)\s+const\s*\{\s*return\s+LPColSetBase<R>::maxObj\(i\);", "why": "SPxLPBase::maxObj(i)"},
 {"file": "src/soplex/dataarray.h", "regex": r"void\s+reSize\(int newsize\)\s*\{.*?if\(newsize\s*>\s*themax\)\s*reMax\(.*?else\s+thesize\s*=\s*newsize;", "why": "DataArray::reSize sets the size (reallocating beyond the capacity; the stub asserts the capacity instead)"},
 {"file": "src/soplex/dataset.h", "regex": r"if\(perm\[k\]\s*>=\s*0\)\s*//[^\n]*\n\s*perm\[k\]\s*=\s*j\+\+;", "why": "DataSet::remove(int perm[]) numbers the survivors consecutively in their old order (type invariant of perm)"},
 {"file": "src/soplex/changesoplex.hpp", "regex": r"SPxLPBase<R>::doRemoveRow\(i\);\s*unInit\(\);\s*if\(SPxBasisBase<R>::status\(\)\s*>\s*SPxBasisBase<R>::NO_PROBLEM\)\s*\{\s*this->removedRow\(i\);", "why": "removedRow is called after the LP removed the row and only with status() > NO_PROBLEM"},
 {"file": "src/soplex/changesoplex.hpp", "regex": r"SPxLPBase<R>::doRemoveRows\(perm\);\s*unInit\(\);\s*if\(SPxBasisBase<R>::status\(\)\s*>\s*SPxBasisBase<R>::NO_PROBLEM\)\s*\{\s*this->removedRows\(perm\);", "why": "removedRows: same protocol"},
 {"file": "src/soplex/changesoplex.hpp", "regex": r"SPxLPBase<R>::doRemoveCol\(i\);\s*unInit\(\);\s*if\(SPxBasisBase<R>::status\(\)\s*>\s*SPxBasisBase<R>::NO_PROBLEM\)\s*\{\s*this->removedCol\(i\);", "why": "removedCol: same protocol"},
 {"file": "src/soplex/changesoplex.hpp", "regex": r"SPxLPBase<R>::doRemoveCols\(perm\);\s*unInit\(\);\s*if\(SPxBasisBase<R>::status\(\)\s*>\s*SPxBasisBase<R>::NO_PROBLEM\)\s*\{\s*this->removedCols\(perm\);", "why": "removedCols: same protocol"},
 {"file": "src/soplex/changesoplex.hpp", "regex": r"if\(SPxBasisBase<R>::status\(\)\s*>\s*SPxBasisBase<R>::NO_PROBLEM\)\s*SPxBasisBase<R>::addedRows\(n\);", "why": "addedRows only with status() > NO_PROBLEM"},
 {"file": "src/soplex/changesoplex.hpp", "regex": r"if\(SPxBasisBase<R>::status\(\)\s*>\s*SPxBasisBase<R>::NO_PROBLEM\)\s*SPxBasisBase<R>::addedCols\(n\);", "why": "addedCols only with status() > NO_PROBLEM"},
 {"file": "src/soplex/changesoplex.hpp", "regex": r"if\(SPxBasisBase<R>::status\(\)\s*>\s*SPxBasisBase<R>::NO_PROBLEM\)\s*SPxBasisBase<R>::changedRow\(i\);", "why": "changedRow only with status() > NO_PROBLEM"},
 {"file": CHG, "regex": r"static\s+typename\s+SPxBasisBase<R>::Desc::Status\s+primalColStatus\(int i,\s*const\s+SPxLPBase<R>\*\s+theLP\)", "why": "primalColStatus signature (run as a non-template function)"},
]
TRUSTED = [
 "stubs/basis_change_stubs.h: class skeletons SPxLPBase <- SPxSolverBase and (separate) SPxBasisBase(::Desc) replicate only the data members the sliced bodies touch (conformance-checked). In the tree theLP == this (SPxSolverBase derives from SPxLPBase and SPxBasisBase); the hooks use theLP only through LP/solver methods, so the stub solver is a separate object describing the LP AFTER the modification",
 "DataArray / VectorBase: executable models that ADD the bounds assertion; DataArray::reSize only sets the size and ASSERTS that it fits the storage the wrapper provides (the real one reallocates); elements beyond the old size are arbitrary",
 "TYPE INVARIANT: a DataArray<Desc::Status> holds values within [-16,15] (assume on element access; only needed because isBasic() multiplies the status by rep() and signed overflow is checked)",
 "ids: SPxId/SPxRowId/SPxColId are modelled as ONE int code (< 0 row id, > 0 column id, magnitude = key), instead of DataKey{info, idx}; the hooks only test the type, convert, assign and pass ids on. rId(n)/cId(n) read the code of row/column n from ghost key arrays; has(id) is `id != the id of the row/column just removed`",
 "TYPE INVARIANT (has): every id stored in theBaseId named a row/column of the LP before the modification",
 "TYPE INVARIANT (removedRow/removedCol, UNIQUE_GONE_ID): basis ids are pairwise distinct, instantiated as `slot != g_js ==> id != removed id` on every baseId() access and, for the ghost slot g_b, in the precondition",
 "TYPE INVARIANT (removedRows/removedCols, PERM_INVARIANT): perm comes from DataSet::remove(int perm[]) (survivors numbered consecutively in their old order, conformance-checked; units/dataset proves that function): perm[k] < new size, perm[k] <= k, strictly increasing along survivors - assumed on every perm[k] access relative to the ghost index; the *_count instances instead REQUIRE the full characterisation PERM_OK. `const int perm[]` is held as a view object with operator[] (bounds assertion added)",
 "loadMatrixVecs() is a stub: counts the call, sets matrixIsSetup, clears factorized (conformance-checked); matrix[] entries (pointers to LP vectors) and theLP->vector(id) are not modelled (only the bounds of matrix[j] are checked)",
 "primalColStatus is a static function template in the tree; its verbatim body runs in a non-template function",
 "Desc::reSize(int,int) runs as reSize(a,b){members=a,b; reSize_body();} so that its two loops can carry loop contracts (README 1)",
 "enumerations (Representation, VarStatus, SPxBasisBase::SPxStatus, Desc::Status) and `infinity` are extracted from the tree on every run",
 "assert() compiled out (NDEBUG semantics); SPX_MSG_* / SPxOut::debug are no-ops; `throw X` calls verif_throw() (the contracts allow no throw)",
 "wrappers cast int <-> enum (Desc::Status, SPxStatus are passed through the C contract as int)",
 "descriptor and id arrays capped at CAP = 8 entries per dimension (the explicit basic count CNT sums eight guarded terms); inductive instances use loop contracts (the cap bounds the object size only); the *_count instances unwind every loop completely (--unwinding-assertions) at CAP = 4 and state basicCount == nRows literally",
 "LP bounds of a new / reset column are assumed not NaN in addedCols and changed* (a NaN bound makes primalColStatus return P_FREE, which the admissibility clause rejects); row sides may be anything",
]
doc = {
 "property": ["C04"],
 "desc": "basis-maintenance hooks of spxchangebasis.hpp: after the LP changed, a kept basis has exactly one basic variable per row (explicit count over <= CAP entries), the descriptor and basis ids moved as the LP moved its rows/columns (ghost index), otherwise the basis is given up",
 "rmode": "double (IEEE, bit-precise)",
 "defines": {"CAP": "8", "MATCAP": "12"},
 "replay": {"cpp": "replay.cpp", "asan": False, "extra_src": ["LIB"]},
 "flags": ["--bounds-check", "--pointer-check"],
 "timeout_s": 300,
 "extracts": [e for e in EXTRACTS if e["as"] in ("Solver_VarStatus.inc", "Solver_Representation.inc", "SPxBasis_SPxStatus.inc", "Desc_Status.inc")],
 "constants": CONSTANTS,
 "conformance": MYCONF,
 "trusted": TRUSTED,
 "instances": insts,
}
dump(os.path.join(os.path.dirname(os.path.abspath(__file__)), "unit.json"), doc)
