"""Generator of unit.json (run: python3 gen_unit.py).  unit.json is the checked artefact; this script keeps the repetitive
slice / conformance / loop tables in one place.  The common slice table is shared with units/basis_conv (gen_common.py)."""
import os, sys
sys.path.insert(0, os.path.join(os.path.dirname(os.path.abspath(__file__)), "..", "basis_conv"))
from gen_common import *
CHG = "src/soplex/spxchangebasis.hpp"
DESC_HPP = "src/soplex/spxdesc.hpp"
HB = r"H::body\(this\)"
RSZ = r"SPxBasisBase<double>::Desc::reSize_body\(this\)"
KEEP = {"Desc_nCols.inc", "Desc_nRows.inc", "Desc_rowStatus_w.inc", "Desc_rowStatus_r.inc", "Desc_colStatus_w.inc", "Desc_colStatus_r.inc",
        "dualRowStatus.inc", "dualColStatus.inc", "Solver_isBasic.inc", "Solver_rep.inc", "Solver_dim.inc"}
BASE_SLICES = [s for s in COMMON_SLICES if s["as"] in KEEP] + [
 S("Desc_reSize.inc", DESC_HPP, r"void\s+SPxBasisBase<R>::Desc::reSize\s*\(\s*int\s+rowDim\s*,\s*int\s+colDim\s*\)", [r"rowstat\.reSize\(rowDim\)", r"colstat\.reSize\(colDim\)", r"rowstat\[i\]\s*=\s*D_UNDEFINED"]),
 S("Basis_status.inc", BASIS_H, r"SPxStatus\s+status\s*\(\s*\)\s*const", [r"return\s+thestatus;"]),
 S("Basis_setStatus.inc", BASIS_H, r"void\s+setStatus\s*\(\s*SPxStatus\s+stat\s*\)", [r"thestatus\s*=\s*stat;", r"if\(stat\s*==\s*NO_PROBLEM\)\s*invalidate\(\);"]),
 S("Basis_baseId_w.inc", BASIS_H, r"inline\s+SPxId&\s+baseId\s*\(\s*int\s+i\s*\)", [r"return\s+theBaseId\[i\];"]),
 S("Basis_reDim.inc", CHG, r"void\s+SPxBasisBase<R>::reDim\s*\(\s*\)", [r"thedesc\.reSize\(theLP->nRows\(\),\s*theLP->nCols\(\)\)", r"theLP->dim\(\)\s*!=\s*matrix\.size\(\)", r"theBaseId\.reSize\(theLP->dim\(\)\)"]),
 S("Basis_invalidate.inc", CHG, r"void\s+SPxBasisBase<R>::invalidate\s*\(\s*\)", [r"factorized\s*=\s*false;", r"matrixIsSetup\s*=\s*false;"]),
 S("primalColStatus.inc", CHG, r"primalColStatus\s*\(\s*int\s+i\s*,\s*const\s+SPxLPBase<R>\*\s+theLP\s*\)", [r"P_FIXED", r"P_FREE"]),
]
S_removedRow = S("Basis_removedRow.inc", CHG, r"void\s+SPxBasisBase<R>::removedRow\s*\(\s*int\s+i\s*\)",
                 [r"thedesc\.rowStatus\(i\)\s*=\s*thedesc\.rowStatus\(theLP->nRows\(\)\);", r"reDim\(\);", r"theLP->has\(SPxRowId\(id\)\)"])

def inst(name, function, slices, loops, mutants, minob=50, tier="quick", extra=None, defines=None):
    d = {"name": name, "function": function, "defines": dict({"INST_" + name: ""}, **(defines or {})), "harness": "h_" + name, "enforce": "w_" + name,
         "slices": BASE_SLICES + slices, "loops": loops, "min_obligations": minob, "tier": tier, "mutants": mutants}
    if extra: d.update(extra)
    return d

# Desc::reSize: the two fill loops; everything below the old size is outside the loop's assigns clause
def resize_loops():
    return [
     {"function": RSZ, "loop": 0, "locals": [["i", "1::1::i"], "rowDim", "noldrows"],
      "invariants": ["i <= rowDim - 1 && (noldrows - 1 <= i || i == rowDim - 1)"],
      "assigns": ["i", "__CPROVER_object_from(gp_rs + noldrows)"], "decreases": "i + 1 - noldrows"},
     {"function": RSZ, "loop": 1, "locals": [["i", "1::2::i"], "colDim", "noldcols"],
      "invariants": ["i <= colDim - 1 && (noldcols - 1 <= i || i == colDim - 1)"],
      "assigns": ["i", "__CPROVER_object_from(gp_cs + noldcols)"], "decreases": "i + 1 - noldcols"},
    ]
removedRow_loops = [
 {"function": HB, "loop": 0, "locals": ["j"],
  "invariants": ["-1 <= j && j <= g_dim", "0 <= g_js && g_js <= j",
                 "gp_bid[2 * g_js] < 0 && gp_bid[2 * g_js + 1] == g_gone",
                 "g_dim > 0 ==> (gp_bid[2 * g_b] == v_b_info && gp_bid[2 * g_b + 1] == v_b_idx)",
                 "gp_bid[2 * g_dim] == v_last_info && gp_bid[2 * g_dim + 1] == v_last_idx"],
  "assigns": ["j", "__CPROVER_object_whole(gp_bid)", "__CPROVER_object_whole(gp_mat)"], "decreases": "j + 1"},
] + resize_loops()

insts = [
 inst("removedRow", "SPxBasisBase<R>::removedRow(int i)", [S_removedRow], removedRow_loops, [
   {"name": "column_negation_lost", "slice": "Basis_removedRow.inc", "find": "if(!theLP->isBasic(thedesc.rowStatus(i)))", "replace": "if(theLP->isBasic(thedesc.rowStatus(i)))"},
 ], 100, defines={"UNIQUE_GONE_ID": "", "GONE_SIGN": "(-1)"}),
]
doc = {
 "property": ["C04"],
 "desc": "basis-maintenance hooks of spxchangebasis.hpp: after the LP changed, a kept basis has exactly one basic variable per row (explicit count over <= CAP entries), the descriptor and basis ids moved as the LP moved its rows/columns (ghost index), otherwise the basis is given up",
 "rmode": "double (IEEE, bit-precise)",
 "defines": {"CAP": "8", "MATCAP": "12"},
 "flags": ["--bounds-check", "--pointer-check"],
 "timeout_s": 300,
 "extracts": [e for e in EXTRACTS if e["as"] in ("Solver_VarStatus.inc", "Solver_Representation.inc", "SPxBasis_SPxStatus.inc", "Desc_Status.inc")],
 "constants": CONSTANTS,
 "conformance": [],
 "trusted": [],
 "instances": insts,
}
dump(os.path.join(os.path.dirname(os.path.abspath(__file__)), "unit.json"), doc)
