/* Contracts for the basis-maintenance hooks of spxchangebasis.hpp (C04).
 *
 * Property clause: "whenever the solver says a basis is available, the basis has exactly one basic variable per row
 * ... after LP modifications that keep the basis".  A variable is BASIC (VarStatus sense, independent of the
 * representation) iff its descriptor entry is one of the dual statuses D_* (basis_spec_c.h IS_DUAL / TOVAR; this is
 * what basisStatusToVarStatus reports).  basicCount = number of D_* entries among rows and columns.
 *   INVARIANT  I(basis, LP):  status() > NO_PROBLEM  ==>  descriptor dimensions == LP dimensions  &&  basicCount == nRows
 *                             && matrix.size() == theBaseId.size() == dim()
 * Each hook is called after the LP changed, with I holding for the OLD LP, and must re-establish I for the NEW LP or
 * give the basis up (status() == NO_PROBLEM, factorization flags cleared).
 * "For all rows/columns/basis slots" = ghost indices g_r / g_c / g_b; basicCount is written out as an explicit sum
 * over CAP <= 8 entries (CNT), so the count clause is proved for every descriptor of up to CAP rows and columns. */
#include "basis_spec_c.h"
#include "SPxBasis_SPxStatus.inc"
int* gp_rs; int* gp_cs; int* gp_bid; const void** gp_mat; int* gp_perm;
int g_js, g_gone, g_b, v_b_info, v_b_idx, v_last_info, v_last_idx, v_i, v_last, g_exp_r, g_exp_c, g_DU, g_n, g_dim;
int o_status, o_setup, o_fact, o_rsize, o_csize, o_bsize, o_msize, o_loadcalls;
static void havoc_ghosts(void)
{
   g_nr = nondet_int(); g_nc = nondet_int(); g_r = nondet_int(); g_c = nondet_int(); v_r = nondet_int(); v_c = nondet_int();
   g_js = nondet_int(); g_gone = nondet_int(); g_b = nondet_int(); v_b_info = nondet_int(); v_b_idx = nondet_int();
   v_last_info = nondet_int(); v_last_idx = nondet_int(); v_i = nondet_int(); v_last = nondet_int(); g_exp_r = nondet_int(); g_exp_c = nondet_int();
   g_n = nondet_int(); g_dim = nondet_int();
   g_DU = D_UNDEFINED; g_throw_allowed = 0;
   o_status = nondet_int(); o_setup = nondet_int(); o_fact = nondet_int(); o_rsize = nondet_int(); o_csize = nondet_int();
   o_bsize = nondet_int(); o_msize = nondet_int(); o_loadcalls = nondet_int();
}
#if CAP > 8
#error "CNT sums eight entries: CAP must not exceed 8"
#endif
#define B1(a, n, k) (((k) < (n) && IS_DUAL((a)[k])) ? 1 : 0)
#define CNT(a, n) (B1(a, n, 0) + B1(a, n, 1) + B1(a, n, 2) + B1(a, n, 3) + B1(a, n, 4) + B1(a, n, 5) + B1(a, n, 6) + B1(a, n, 7))
#define BOOL01(x) ((x) == 0 || (x) == 1)
#define STATUS_OK(s) (NO_PROBLEM < (s) && (s) <= INFEASIBLE)
#define DIM(rep, nr, nc) ((rep) > 0 ? (nr) : (nc))
/* basis id k of the int-pair array */
#define BID_INFO(bid, k) ((bid)[2 * (k)])
#define BID_IDX(bid, k) ((bid)[2 * (k) + 1])

#ifdef INST_removedRow
/* removedRow(i): the LP has removed row i (the old last row nr now sits at position i).  LP now: nr rows, nc columns. */
void w_removedRow(int i, int rep, int nr, int nc, int* rowstat, int* colstat, int* bid, int bsize, int bstatus, int setup, int fact, int gone)
__CPROVER_requires(REP_OK(rep) && 0 <= nr && nr + 1 <= CAP && 0 <= nc && nc <= CAP && 0 <= i && i <= nr)
__CPROVER_requires(FRESH_INTS(rowstat, nr + 1) && FRESH_INTS(colstat, nc) && bsize == DIM(rep, nr + 1, nc) && FRESH_INTS(bid, 2 * bsize))
__CPROVER_requires(STATUS_OK(bstatus) && BOOL01(setup) && BOOL01(fact) && g_gone == gone && gone >= 0)
/* I(old): the descriptor has the old dimensions (given by the allocation sizes) and exactly nr+1 basic entries */
__CPROVER_requires(VALID_DESC(rowstat[i]) && v_i == rowstat[i] && v_last == rowstat[nr])
__CPROVER_requires(CNT(rowstat, nr + 1) + CNT(colstat, nc) == nr + 1)
__CPROVER_requires(GHOST_IN(g_r, nr) && v_r == rowstat[g_r] && g_exp_r == (g_r == i ? v_last : v_r))
__CPROVER_requires(GHOST_IN(g_c, nc) && (nc > 0 ==> (v_c == colstat[g_c] && g_exp_c == v_c)))
/* the removed row's id sits in exactly one basis slot g_js iff the row is basic and the id array is in use */
__CPROVER_requires((rep > 0 && setup && IS_DUAL(v_i)) ? (0 <= g_js && g_js < bsize && BID_INFO(bid, g_js) < 0 && BID_IDX(bid, g_js) == gone) : g_js == -1)
__CPROVER_requires(g_dim == DIM(rep, nr, nc) && GHOST_IN(g_b, g_dim) && (g_dim > 0 ==> (v_b_info == BID_INFO(bid, g_b) && v_b_idx == BID_IDX(bid, g_b))))
__CPROVER_requires(bsize > 0 ==> (v_last_info == BID_INFO(bid, bsize - 1) && v_last_idx == BID_IDX(bid, bsize - 1)))
__CPROVER_assigns(gp_rs, gp_cs, gp_bid, gp_mat, o_status, o_setup, o_fact, o_rsize, o_csize, o_bsize, o_msize, o_loadcalls)
__CPROVER_assigns(__CPROVER_object_whole(rowstat), __CPROVER_object_whole(colstat), __CPROVER_object_whole(bid))
/* dimensions follow the LP */
__CPROVER_ensures(o_rsize == nr && o_csize == nc && o_bsize == DIM(rep, nr, nc) && o_msize == o_bsize)
/* the last entry moved into slot i, everything else stays */
__CPROVER_ensures(nr > 0 ==> rowstat[g_r] == (g_r == i ? v_last : v_r))
__CPROVER_ensures(nc > 0 ==> colstat[g_c] == v_c)
/* the basis is kept iff the removed row was basic (in both representations); it is given up otherwise */
__CPROVER_ensures(o_status == (IS_DUAL(v_i) ? bstatus : NO_PROBLEM))
/* C04: a kept basis has exactly one basic variable per remaining row */
__CPROVER_ensures(o_status > NO_PROBLEM ==> CNT(rowstat, nr) + CNT(colstat, nc) == nr)
/* flags: given up => no matrix, no factorization; COLUMN: the basis matrix lost a row => both cleared; ROW, kept: untouched */
__CPROVER_ensures(o_status == NO_PROBLEM ==> (!o_setup && !o_fact))
__CPROVER_ensures(rep > 0 ==> (!o_setup && !o_fact))
__CPROVER_ensures((rep < 0 && o_status > NO_PROBLEM) ==> (o_setup == setup && o_fact == fact))
__CPROVER_ensures(o_loadcalls == 0)
/* basis ids: COLUMN, kept, ids in use: the last id moved into the slot of the removed row's id, which is gone */
__CPROVER_ensures((g_dim > 0 && rep > 0 && setup && o_status > NO_PROBLEM) ==>
   (BID_INFO(bid, g_b) == (g_b == g_js ? v_last_info : v_b_info) && BID_IDX(bid, g_b) == (g_b == g_js ? v_last_idx : v_b_idx)
    && !(BID_INFO(bid, g_b) < 0 && BID_IDX(bid, g_b) == gone)))
__CPROVER_ensures((g_dim > 0 && !(rep > 0 && setup && o_status > NO_PROBLEM)) ==> (BID_INFO(bid, g_b) == v_b_info && BID_IDX(bid, g_b) == v_b_idx))
;
void h_removedRow(void)
{
   int* rowstat; int* colstat; int* bid; int i, rep, nr, nc, bsize, bstatus, setup, fact, gone;
   havoc_ghosts();
   w_removedRow(i, rep, nr, nc, rowstat, colstat, bid, bsize, bstatus, setup, fact, gone);
   CANARY();
}
#endif
