/* Contracts for the basis-maintenance hooks of spxchangebasis.hpp (C04).
 *
 * Property clause: "whenever the solver says a basis is available, the basis has exactly one basic variable per row
 * ... after LP modifications that keep the basis".  A variable is BASIC (VarStatus sense, independent of the
 * representation) iff its descriptor entry is one of the dual statuses D_* (basis_spec_c.h IS_DUAL / TOVAR; this is
 * what basisStatusToVarStatus reports).  basicCount = number of D_* entries among rows and columns.
 *   INVARIANT  I(basis, LP):  status() > NO_PROBLEM  ==>  descriptor dimensions == LP dimensions  &&  basicCount == nRows
 *                             && matrix.size() == theBaseId.size() == dim()
 * Each hook is called after the LP changed, with I holding for the OLD LP, and must re-establish I for the NEW LP or
 * give the basis up (status() == NO_PROBLEM, factorization flags cleared).
 * "For all rows/columns/basis slots" = ghost indices g_r / g_c / g_b; basicCount is written out as an explicit sum
 * over CAP <= 8 entries (CNT), so the count clause is proved for every descriptor of up to CAP rows and columns. */
#include "basis_spec_c.h"
#include "SPxBasis_SPxStatus.inc"
int* gp_rs; int* gp_cs; int* gp_bid; const void** gp_mat;
int* gp_status; _Bool* gp_setup; _Bool* gp_fact; int* gp_loadcalls;
int g_js, g_gone, g_b, v_b, v_blast, v_i, v_last, g_exp_r, g_exp_c, g_n, g_dim;
int g_x, g_p, g_newn, v_x, g_xdual, g_bstatus, g_setup, g_fact, g_NP, g_old, g_key, g_rep;
int g_PL, g_PU, g_PX, g_PF, g_okL, g_okU, g_okX, g_okF, g_giveup, g_allok;
int o_status, o_setup, o_fact, o_rsize, o_csize, o_bsize, o_msize, o_loadcalls;
static void havoc_ghosts(void)
{
   g_nr = nondet_int(); g_nc = nondet_int(); g_r = nondet_int(); g_c = nondet_int(); v_r = nondet_int(); v_c = nondet_int();
   g_js = nondet_int(); g_gone = nondet_int(); g_b = nondet_int(); v_b = nondet_int(); v_blast = nondet_int();
   v_i = nondet_int(); v_last = nondet_int(); g_exp_r = nondet_int(); g_exp_c = nondet_int();
   g_n = nondet_int(); g_dim = nondet_int();
   g_x = nondet_int(); g_p = nondet_int(); g_newn = nondet_int(); v_x = nondet_int(); g_xdual = nondet_int(); g_bstatus = nondet_int();
   g_giveup = nondet_int(); g_allok = nondet_int(); g_setup = nondet_int(); g_fact = nondet_int(); g_old = nondet_int(); g_key = nondet_int(); g_rep = nondet_int();
   g_okL = nondet_int(); g_okU = nondet_int(); g_okX = nondet_int(); g_okF = nondet_int(); v_exp_r = nondet_int(); v_exp_c = nondet_int();
   /* enumerators cannot be named in loop invariants: ghost copies */
   g_NP = NO_PROBLEM; g_PL = P_ON_LOWER; g_PU = P_ON_UPPER; g_PX = P_FIXED; g_PF = P_FREE;
   g_throw_allowed = 0;
   o_status = nondet_int(); o_setup = nondet_int(); o_fact = nondet_int(); o_rsize = nondet_int(); o_csize = nondet_int();
   o_bsize = nondet_int(); o_msize = nondet_int(); o_loadcalls = nondet_int();
}
#if CAP > 8
#error "CNT sums eight entries: CAP must not exceed 8"
#endif
#define B1(a, n, k) (((k) < (n) && IS_DUAL((a)[k])) ? 1 : 0)
#define CNT(a, n) (B1(a, n, 0) + B1(a, n, 1) + B1(a, n, 2) + B1(a, n, 3) + B1(a, n, 4) + B1(a, n, 5) + B1(a, n, 6) + B1(a, n, 7))
#define V1(a, n, k) (!((k) < (n)) || VALID_DESC((a)[k]))
#define VALID_ALL(a, n) (V1(a, n, 0) && V1(a, n, 1) && V1(a, n, 2) && V1(a, n, 3) && V1(a, n, 4) && V1(a, n, 5) && V1(a, n, 6) && V1(a, n, 7))
#define BOOL01(x) ((x) == 0 || (x) == 1)
#define STATUS_OK(s) (NO_PROBLEM < (s) && (s) <= INFEASIBLE)
#define DIM(rep, nr, nc) ((rep) > 0 ? (nr) : (nc))
/* permutation produced by DataSet::remove(int perm[]) for n old and newn remaining elements: removed elements are
 * negative, a survivor's new number is the number of survivors in front of it (written out for n <= 8) */
#define S1(p, j, k) (((j) < (k) && (p)[j] >= 0) ? 1 : 0)
#define SV(p, k) (S1(p, 0, k) + S1(p, 1, k) + S1(p, 2, k) + S1(p, 3, k) + S1(p, 4, k) + S1(p, 5, k) + S1(p, 6, k) + S1(p, 7, k))
#define PK(p, n, k) (!((k) < (n)) || (p)[k] < 0 || (p)[k] == SV(p, k))
#define PERM_OK(p, n, newn) (PK(p, n, 0) && PK(p, n, 1) && PK(p, n, 2) && PK(p, n, 3) && PK(p, n, 4) && PK(p, n, 5) && PK(p, n, 6) && PK(p, n, 7) && SV(p, n) == (newn))
/* every removed element k < n has a status for which pred holds */
#define RD(p, a, n, k, want_dual) (!((k) < (n)) || (p)[k] >= 0 || (IS_DUAL((a)[k]) ? (want_dual) : !(want_dual)))
#define ALL_REMOVED(p, a, n, wd) (RD(p, a, n, 0, wd) && RD(p, a, n, 1, wd) && RD(p, a, n, 2, wd) && RD(p, a, n, 3, wd) && RD(p, a, n, 4, wd) && RD(p, a, n, 5, wd) && RD(p, a, n, 6, wd) && RD(p, a, n, 7, wd))
/* a nonbasic status that is admissible for the bounds l, u (property statement: not at an infinite bound, FIXED only
 * on equal bounds; additionally P_FREE only for a free variable) */
#define PRIM_ADM(s, l, u) (IS_PRIMAL(s) && PRIMAL_OK(s, l, u) && ((s) != P_FREE || (INF_LO(l) && INF_UP(u))))
/* basis status after rows / columns were added: primal feasibility resp. dual feasibility may be lost, nothing else */
#define ROWS_ADDED(s) (((s) == PRIMAL || (s) == UNBOUNDED) ? REGULAR : ((s) == OPTIMAL || (s) == INFEASIBLE) ? DUAL : (s))
#define COLS_ADDED(s) (((s) == DUAL || (s) == INFEASIBLE) ? REGULAR : ((s) == OPTIMAL || (s) == UNBOUNDED) ? PRIMAL : (s))
#define OUT_ASSIGNS gp_rs, gp_cs, gp_bid, gp_mat, gp_status, gp_setup, gp_fact, gp_loadcalls, o_status, o_setup, o_fact, o_rsize, o_csize, o_bsize, o_msize, o_loadcalls
/* basis ids are int codes: < 0 row id, > 0 column id (see basis_change_stubs.h) */

#ifdef INST_removedRow
/* removedRow(i): the LP has removed row i (the old last row nr now sits at position i).  LP now: nr rows, nc columns. */
void w_removedRow(int i, int rep, int nr, int nc, int* rowstat, int* colstat, int* bid, int bsize, int bstatus, int setup, int fact, int gone)
__CPROVER_requires(REP_OK(rep) && 0 <= nr && nr < CAP && 0 <= nc && nc <= CAP && 0 <= i && i <= nr)
__CPROVER_requires(FRESH_INTS(rowstat, nr + 1) && FRESH_INTS(colstat, nc) && bsize == DIM(rep, nr + 1, nc) && FRESH_INTS(bid, bsize))
__CPROVER_requires(STATUS_OK(bstatus) && BOOL01(setup) && BOOL01(fact) && g_gone == gone && gone < 0)
/* I(old): the descriptor has the old dimensions (given by the allocation sizes) and exactly nr+1 basic entries */
__CPROVER_requires(VALID_ALL(rowstat, nr + 1) && VALID_ALL(colstat, nc) && v_i == rowstat[i] && v_last == rowstat[nr])
__CPROVER_requires(CNT(rowstat, nr + 1) + CNT(colstat, nc) == nr + 1)
__CPROVER_requires(GHOST_IN(g_r, nr) && v_r == rowstat[g_r] && g_exp_r == (g_r == i ? v_last : v_r))
__CPROVER_requires(GHOST_IN(g_c, nc) && (nc > 0 ==> (v_c == colstat[g_c] && g_exp_c == v_c)))
/* the removed row's id sits in at most one basis slot: g_js, or nowhere (g_js == -1) */
__CPROVER_requires(g_js == -1 || (0 <= g_js && g_js < bsize && bid[g_js] == gone))
__CPROVER_requires(g_dim == DIM(rep, nr, nc) && GHOST_IN(g_b, g_dim) && (g_dim > 0 ==> v_b == bid[g_b]))
__CPROVER_requires(bsize > 0 ==> v_blast == bid[bsize - 1])
/* basis ids are pairwise distinct (part of I), instantiated at (g_js, g_b) */
__CPROVER_requires((g_dim > 0 && g_b != g_js) ==> bid[g_b] != gone)
__CPROVER_assigns(OUT_ASSIGNS)
__CPROVER_assigns(__CPROVER_object_whole(rowstat), __CPROVER_object_whole(colstat), __CPROVER_object_whole(bid))
/* dimensions follow the LP */
__CPROVER_ensures(o_rsize == nr && o_csize == nc && o_bsize == DIM(rep, nr, nc) && o_msize == o_bsize)
/* the last entry moved into slot i, everything else stays */
__CPROVER_ensures(nr > 0 ==> rowstat[g_r] == (g_r == i ? v_last : v_r))
__CPROVER_ensures(nc > 0 ==> colstat[g_c] == v_c)
/* the basis is kept iff the removed row was basic (in both representations); it is given up otherwise */
__CPROVER_ensures(o_status == (IS_DUAL(v_i) ? bstatus : NO_PROBLEM))
/* C04: a kept basis has exactly one basic variable per remaining row */
__CPROVER_ensures(o_status > NO_PROBLEM ==> CNT(rowstat, nr) + CNT(colstat, nc) == nr)
/* flags: given up => no matrix, no factorization; COLUMN: the basis matrix lost a row => both cleared; ROW, kept: untouched */
__CPROVER_ensures(o_status == NO_PROBLEM ==> (!o_setup && !o_fact))
__CPROVER_ensures(rep > 0 ==> (!o_setup && !o_fact))
__CPROVER_ensures((rep < 0 && o_status > NO_PROBLEM) ==> (o_setup == setup && o_fact == fact))
__CPROVER_ensures(o_loadcalls == 0)
/* basis ids: COLUMN, kept, ids in use: the last id moved into the slot of the removed row's id, which is gone */
__CPROVER_ensures((g_dim > 0 && rep > 0 && setup && o_status > NO_PROBLEM) ==>
   (bid[g_b] == (g_b == g_js ? v_blast : v_b) && bid[g_b] != gone))
__CPROVER_ensures((g_dim > 0 && !(rep > 0 && setup && o_status > NO_PROBLEM)) ==> bid[g_b] == v_b)
;
void h_removedRow(void)
{
   int* rowstat; int* colstat; int* bid; int i, rep, nr, nc, bsize, bstatus, setup, fact, gone;
   havoc_ghosts();
   w_removedRow(i, rep, nr, nc, rowstat, colstat, bid, bsize, bstatus, setup, fact, gone);
   CANARY();
}
#endif

#ifdef INST_removedCol
/* removedCol(i): the LP has removed column i (the old last column nc now sits at position i).  LP now: nr rows, nc columns.
 * Removing a BASIC column leaves nr rows but one basic variable less: the basis must be given up.  Removing a nonbasic
 * column keeps the count. */
void w_removedCol(int i, int rep, int nr, int nc, int* rowstat, int* colstat, int* bid, int bsize, int bstatus, int setup, int fact, int gone)
__CPROVER_requires(REP_OK(rep) && 0 <= nr && nr <= CAP && 0 <= nc && nc < CAP && 0 <= i && i <= nc)
__CPROVER_requires(FRESH_INTS(rowstat, nr) && FRESH_INTS(colstat, nc + 1) && bsize == DIM(rep, nr, nc + 1) && FRESH_INTS(bid, bsize))
__CPROVER_requires(STATUS_OK(bstatus) && BOOL01(setup) && BOOL01(fact) && g_gone == gone && gone > 0)
__CPROVER_requires(VALID_ALL(rowstat, nr) && VALID_ALL(colstat, nc + 1) && v_i == colstat[i] && v_last == colstat[nc])
__CPROVER_requires(CNT(rowstat, nr) + CNT(colstat, nc + 1) == nr)
__CPROVER_requires(GHOST_IN(g_c, nc) && v_c == colstat[g_c])
__CPROVER_requires(GHOST_IN(g_r, nr) && (nr > 0 ==> v_r == rowstat[g_r]))
__CPROVER_requires(g_js == -1 || (0 <= g_js && g_js < bsize && bid[g_js] == gone))
__CPROVER_requires(g_dim == DIM(rep, nr, nc) && GHOST_IN(g_b, g_dim) && (g_dim > 0 ==> v_b == bid[g_b]))
__CPROVER_requires(bsize > 0 ==> v_blast == bid[bsize - 1])
__CPROVER_requires((g_dim > 0 && g_b != g_js) ==> bid[g_b] != gone)
__CPROVER_assigns(OUT_ASSIGNS)
__CPROVER_assigns(__CPROVER_object_whole(rowstat), __CPROVER_object_whole(colstat), __CPROVER_object_whole(bid))
__CPROVER_ensures(o_rsize == nr && o_csize == nc && o_bsize == DIM(rep, nr, nc) && o_msize == o_bsize)
__CPROVER_ensures(nc > 0 ==> colstat[g_c] == (g_c == i ? v_last : v_c))
__CPROVER_ensures(nr > 0 ==> rowstat[g_r] == v_r)
/* the basis is kept iff the removed column was nonbasic (in both representations) */
__CPROVER_ensures(o_status == (IS_DUAL(v_i) ? NO_PROBLEM : bstatus))
__CPROVER_ensures(o_status > NO_PROBLEM ==> CNT(rowstat, nr) + CNT(colstat, nc) == nr)
__CPROVER_ensures(o_status == NO_PROBLEM ==> (!o_setup && !o_fact))
__CPROVER_ensures(rep < 0 ==> (!o_setup && !o_fact))
__CPROVER_ensures((rep > 0 && o_status > NO_PROBLEM) ==> (o_setup == setup && o_fact == fact))
__CPROVER_ensures(o_loadcalls == 0)
/* basis ids: ROW representation, kept: the last id moved into the slot of the removed column's id, which is gone */
__CPROVER_ensures((g_dim > 0 && rep < 0 && o_status > NO_PROBLEM) ==> (bid[g_b] == (g_b == g_js ? v_blast : v_b) && bid[g_b] != gone))
__CPROVER_ensures((g_dim > 0 && !(rep < 0 && o_status > NO_PROBLEM)) ==> bid[g_b] == v_b)
;
void h_removedCol(void)
{
   int* rowstat; int* colstat; int* bid; int i, rep, nr, nc, bsize, bstatus, setup, fact, gone;
   havoc_ghosts();
   w_removedCol(i, rep, nr, nc, rowstat, colstat, bid, bsize, bstatus, setup, fact, gone);
   CANARY();
}
#endif

#if defined(INST_removedRows) || defined(INST_removedCols)
/* removedRows(perm) / removedCols(perm): the LP has removed the rows (columns) k with perm[k] < 0 and renumbered the
 * others to perm[k].  LP now: nr rows, nc columns; the descriptor still has rsize x csize entries.
 * X = the array the removal concerns.  Ghost index g_x ranges over the OLD numbers. */
#ifdef INST_removedRows
#define XS rowstat
#define XN rsize
#define XNEW nr
#define OTHER_SAME (csize == nc)
#define GIVE_UP_IF_REMOVED_IS_DUAL 0      /* a removed row must have been basic, else the basis is given up */
#define KEEP_FLAGS_REP (-1)               /* representation whose basis matrix does not change dimension */
#else
#define XS colstat
#define XN csize
#define XNEW nc
#define OTHER_SAME (rsize == nr)
#define GIVE_UP_IF_REMOVED_IS_DUAL 1      /* a removed column must have been nonbasic, else the basis is given up */
#define KEEP_FLAGS_REP 1
#endif
void w_removedMany(int* perm, int rep, int nr, int nc, int* rowstat, int rsize, int* colstat, int csize, int bsize, int bstatus, int setup, int fact)
__CPROVER_requires(REP_OK(rep) && 0 <= nr && nr <= rsize && rsize <= CAP && 0 <= nc && nc <= csize && csize <= CAP && OTHER_SAME)
__CPROVER_requires(FRESH_INTS(perm, XN) && FRESH_INTS(rowstat, rsize) && FRESH_INTS(colstat, csize) && bsize == DIM(rep, rsize, csize))
__CPROVER_requires(STATUS_OK(bstatus) && BOOL01(setup) && BOOL01(fact) && g_bstatus == bstatus && g_setup == setup && g_fact == fact)
__CPROVER_requires(g_n == XN && g_newn == XNEW && GHOST_IN(g_x, XN) && g_giveup == GIVE_UP_IF_REMOVED_IS_DUAL)
__CPROVER_requires(XN > 0 ==> (v_x == XS[g_x] && g_p == perm[g_x] && VALID_DESC(v_x) && g_xdual == (IS_DUAL(v_x) ? 1 : 0) && g_p < XNEW && g_p <= g_x))
__CPROVER_requires(GHOST_IN(g_r, nr) && GHOST_IN(g_c, nc))
#ifdef INST_removedRows
__CPROVER_requires(nc > 0 ==> v_c == colstat[g_c])
#else
__CPROVER_requires(nr > 0 ==> v_r == rowstat[g_r])
#endif
#ifdef COUNTV
/* I(old) and the full characterisation of perm (the accessor invariant of the inductive variant is a consequence) */
__CPROVER_requires(PERM_OK(perm, XN, XNEW) && VALID_ALL(XS, XN) && CNT(rowstat, rsize) + CNT(colstat, csize) == rsize)
__CPROVER_requires(g_allok == (ALL_REMOVED(perm, XS, XN, !GIVE_UP_IF_REMOVED_IS_DUAL) ? 1 : 0))     /* evaluated in the pre-state */
#endif
__CPROVER_assigns(OUT_ASSIGNS)
__CPROVER_assigns(__CPROVER_object_whole(rowstat), __CPROVER_object_whole(colstat))
__CPROVER_ensures(o_rsize == nr && o_csize == nc && o_bsize == DIM(rep, nr, nc) && o_msize == o_bsize)
/* a survivor's status moved with it; the other array is untouched */
__CPROVER_ensures((XN > 0 && g_p >= 0) ==> XS[g_p] == v_x)
#ifdef INST_removedRows
__CPROVER_ensures(nc > 0 ==> colstat[g_c] == v_c)
#else
__CPROVER_ensures(nr > 0 ==> rowstat[g_r] == v_r)
#endif
/* the basis is either kept as it was or given up; it is given up if some removed row was nonbasic / some removed column basic */
__CPROVER_ensures(o_status == bstatus || o_status == NO_PROBLEM)
__CPROVER_ensures((XN > 0 && g_p < 0 && (IS_DUAL(v_x) ? 1 : 0) == GIVE_UP_IF_REMOVED_IS_DUAL) ==> o_status == NO_PROBLEM)
__CPROVER_ensures(o_status == NO_PROBLEM ==> (!o_setup && !o_fact))
__CPROVER_ensures(rep != KEEP_FLAGS_REP ==> (!o_setup && !o_fact))
__CPROVER_ensures((rep == KEEP_FLAGS_REP && o_status > NO_PROBLEM) ==> (o_setup == setup && o_fact == fact))
__CPROVER_ensures(o_loadcalls == 0)
#ifdef COUNTV
/* C04: a kept basis has exactly one basic variable per remaining row; and it is kept exactly when that is possible */
__CPROVER_ensures(o_status > NO_PROBLEM ==> CNT(rowstat, nr) + CNT(colstat, nc) == nr)
__CPROVER_ensures(o_status == (g_allok ? bstatus : NO_PROBLEM))
#endif
;
void h_removedMany(void)
{
   int* perm; int* rowstat; int* colstat; int rep, nr, nc, rsize, csize, bsize, bstatus, setup, fact;
   havoc_ghosts();
   w_removedMany(perm, rep, nr, nc, rowstat, rsize, colstat, csize, bsize, bstatus, setup, fact);
   CANARY();
}
#endif

#if defined(INST_addedRows) || defined(INST_addedCols)
/* addedRows(n) / addedCols(n): the LP has appended n rows (columns).  LP now: nr rows, nc columns; the descriptor
 * still has rsize x csize entries.  New rows enter the basis as slack (basic, dual status of their sides): basicCount
 * and nRows both grow by n.  New columns enter nonbasic at an admissible bound: basicCount and nRows are unchanged. */
#ifdef INST_addedRows
#define SIZES_OK (0 <= n && n <= nr && rsize == nr - n && csize == nc)
#define NEWSTATUS(s) ROWS_ADDED(s)
#define GROW_REP 1
#else
#define SIZES_OK (0 <= n && n <= nc && csize == nc - n && rsize == nr)
#define NEWSTATUS(s) COLS_ADDED(s)
#define GROW_REP (-1)
#endif
void w_added(int n, int rep, int nr, int nc, double* lhs, double* rhs, double* lower, double* upper, double* obj, int* rowkey, int* colkey,
             int* rowstat, int rsize, int* colstat, int csize, int* bid, int bsize, int bmax, int bstatus, int setup, int fact)
__CPROVER_requires(REP_OK(rep) && 0 <= nr && nr <= CAP && 0 <= nc && nc <= CAP && SIZES_OK && bsize == DIM(rep, rsize, csize) && bmax == DIM(rep, nr, nc))
__CPROVER_requires(FRESH_INTS(rowstat, nr) && FRESH_INTS(colstat, nc) && FRESH_INTS(bid, bmax) && FRESH_INTS(rowkey, nr) && FRESH_INTS(colkey, nc))
__CPROVER_requires(FRESH_DBLS(lhs, nr) && FRESH_DBLS(rhs, nr) && FRESH_DBLS(lower, nc) && FRESH_DBLS(upper, nc) && FRESH_DBLS(obj, nc))
__CPROVER_requires(STATUS_OK(bstatus) && BOOL01(setup) && BOOL01(fact) && g_n == n && g_nr == nr && g_nc == nc && g_rep == rep)
__CPROVER_requires(GHOST_IN(g_r, nr) && GHOST_IN(g_c, nc) && GHOST_IN(g_b, bmax))
__CPROVER_requires(nr > 0 ==> (v_r == rowstat[g_r] && v_exp_r == DUALSTAT(lhs[g_r], rhs[g_r])))
__CPROVER_requires(nc > 0 ==> (v_c == colstat[g_c] && NOT_NAN(lower[g_c]) && NOT_NAN(upper[g_c])))
__CPROVER_requires(nc > 0 ==> (g_okL == PRIM_ADM(P_ON_LOWER, lower[g_c], upper[g_c]) && g_okU == PRIM_ADM(P_ON_UPPER, lower[g_c], upper[g_c])
                               && g_okX == PRIM_ADM(P_FIXED, lower[g_c], upper[g_c]) && g_okF == PRIM_ADM(P_FREE, lower[g_c], upper[g_c])))
__CPROVER_requires(bmax > 0 ==> (v_b == bid[g_b] && g_key == (rep > 0 ? rowkey[g_b] : colkey[g_b])))
#ifdef INST_addedRows
__CPROVER_requires(g_old == nr - n)
#else
__CPROVER_requires(g_old == nc - n)
#endif
#ifdef COUNTV
__CPROVER_requires(CNT(rowstat, rsize) + CNT(colstat, csize) == rsize)
#endif
__CPROVER_assigns(OUT_ASSIGNS)
__CPROVER_assigns(__CPROVER_object_whole(rowstat), __CPROVER_object_whole(colstat), __CPROVER_object_whole(bid))
/* n == 0: nothing happens */
__CPROVER_ensures(n == 0 ==> (o_rsize == rsize && o_csize == csize && o_bsize == bsize && o_msize == bsize && o_status == bstatus && o_setup == setup && o_fact == fact && o_loadcalls == 0))
/* n > 0: dimensions follow the LP */
__CPROVER_ensures(n > 0 ==> (o_rsize == nr && o_csize == nc && o_bsize == DIM(rep, nr, nc) && o_msize == o_bsize))
#ifdef INST_addedRows
__CPROVER_ensures(nr > 0 ==> rowstat[g_r] == ((n > 0 && g_r >= nr - n) ? DUALSTAT(lhs[g_r], rhs[g_r]) : v_r))
__CPROVER_ensures((nr > 0 && n > 0 && g_r >= nr - n) ==> IS_DUAL(rowstat[g_r]))
__CPROVER_ensures(nc > 0 ==> colstat[g_c] == v_c)
#else
__CPROVER_ensures((nc > 0 && !(n > 0 && g_c >= nc - n)) ==> colstat[g_c] == v_c)
__CPROVER_ensures((nc > 0 && n > 0 && g_c >= nc - n) ==> PRIM_ADM(colstat[g_c], lower[g_c], upper[g_c]))
__CPROVER_ensures(nr > 0 ==> rowstat[g_r] == v_r)
#endif
/* the basis is never given up; its status only loses the feasibility the new rows / columns can break */
__CPROVER_ensures(o_status == (n > 0 ? NEWSTATUS(bstatus) : bstatus) && o_status > NO_PROBLEM)
/* basis ids: where the basis matrix grows, the new slots name the new rows (columns) */
__CPROVER_ensures(bmax > 0 ==> bid[g_b] == ((n > 0 && rep == GROW_REP && g_b >= g_old) ? g_key : v_b))
/* flags: matrix grew => not set up, not factorized; otherwise the vectors are reloaded iff they were loaded */
__CPROVER_ensures((n > 0 && rep == GROW_REP) ==> (!o_setup && !o_fact && o_loadcalls == 0))
__CPROVER_ensures((n > 0 && rep != GROW_REP) ==> (setup ? (o_setup && !o_fact && o_loadcalls == 1) : (!o_setup && o_fact == fact && o_loadcalls == 0)))
#ifdef COUNTV
__CPROVER_ensures(CNT(rowstat, o_rsize) + CNT(colstat, o_csize) == o_rsize)
#endif
;
void h_added(void)
{
   double* lhs; double* rhs; double* lower; double* upper; double* obj; int* rowkey; int* colkey; int* rowstat; int* colstat; int* bid;
   int n, rep, nr, nc, rsize, csize, bsize, bmax, bstatus, setup, fact;
   havoc_ghosts();
   w_added(n, rep, nr, nc, lhs, rhs, lower, upper, obj, rowkey, colkey, rowstat, rsize, colstat, csize, bid, bsize, bmax, bstatus, setup, fact);
   CANARY();
}
#endif

#if defined(INST_changedRow) || defined(INST_changedCol) || defined(INST_changedElement)
/* changedRow / changedCol / changedElement: the basis is reset to the slack basis: every row basic (dual status of its
 * sides), every column nonbasic at an admissible bound, basis ids = the rows (COLUMN) resp. the columns (ROW), status
 * REGULAR, no matrix, no factorization. */
void w_changed(int rep, int nr, int nc, double* lhs, double* rhs, double* lower, double* upper, double* obj, int* rowkey, int* colkey,
               int* rowstat, int* colstat, int* bid, int bsize, int bstatus, int setup, int fact)
__CPROVER_requires(REP_OK(rep) && 0 <= nr && nr <= CAP && 0 <= nc && nc <= CAP && bsize == DIM(rep, nr, nc))
__CPROVER_requires(FRESH_INTS(rowstat, nr) && FRESH_INTS(colstat, nc) && FRESH_INTS(bid, bsize) && FRESH_INTS(rowkey, nr) && FRESH_INTS(colkey, nc))
__CPROVER_requires(FRESH_DBLS(lhs, nr) && FRESH_DBLS(rhs, nr) && FRESH_DBLS(lower, nc) && FRESH_DBLS(upper, nc) && FRESH_DBLS(obj, nc))
__CPROVER_requires(STATUS_OK(bstatus) && BOOL01(setup) && BOOL01(fact) && g_nr == nr && g_nc == nc && g_rep == rep && g_dim == bsize)
__CPROVER_requires(GHOST_IN(g_r, nr) && GHOST_IN(g_c, nc) && GHOST_IN(g_b, bsize))
__CPROVER_requires(nr > 0 ==> v_exp_r == DUALSTAT(lhs[g_r], rhs[g_r]))
__CPROVER_requires(nc > 0 ==> (NOT_NAN(lower[g_c]) && NOT_NAN(upper[g_c])))
__CPROVER_requires(nc > 0 ==> (g_okL == PRIM_ADM(P_ON_LOWER, lower[g_c], upper[g_c]) && g_okU == PRIM_ADM(P_ON_UPPER, lower[g_c], upper[g_c])
                               && g_okX == PRIM_ADM(P_FIXED, lower[g_c], upper[g_c]) && g_okF == PRIM_ADM(P_FREE, lower[g_c], upper[g_c])))
__CPROVER_requires(bsize > 0 ==> g_key == (rep > 0 ? rowkey[g_b] : colkey[g_b]))
__CPROVER_assigns(OUT_ASSIGNS)
__CPROVER_assigns(__CPROVER_object_whole(rowstat), __CPROVER_object_whole(colstat), __CPROVER_object_whole(bid))
__CPROVER_ensures(o_rsize == nr && o_csize == nc && o_bsize == bsize && o_msize == bsize)
__CPROVER_ensures(nr > 0 ==> (rowstat[g_r] == DUALSTAT(lhs[g_r], rhs[g_r]) && IS_DUAL(rowstat[g_r])))
__CPROVER_ensures(nc > 0 ==> PRIM_ADM(colstat[g_c], lower[g_c], upper[g_c]))
__CPROVER_ensures(bsize > 0 ==> bid[g_b] == g_key)
__CPROVER_ensures(o_status == REGULAR && !o_setup && !o_fact && o_loadcalls == 0)
#ifdef COUNTV
__CPROVER_ensures(CNT(rowstat, nr) + CNT(colstat, nc) == nr)
#endif
;
void h_changed(void)
{
   double* lhs; double* rhs; double* lower; double* upper; double* obj; int* rowkey; int* colkey; int* rowstat; int* colstat; int* bid;
   int rep, nr, nc, bsize, bstatus, setup, fact;
   havoc_ghosts();
   w_changed(rep, nr, nc, lhs, rhs, lower, upper, obj, rowkey, colkey, rowstat, colstat, bid, bsize, bstatus, setup, fact);
   CANARY();
}
#endif
