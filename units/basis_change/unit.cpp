/* C04: the basis-maintenance hooks of spxchangebasis.hpp, R = double.  Every body (the hook, reDim, setStatus,
 * invalidate, Desc::reSize, restoreInitialBasis, dualRowStatus, primalColStatus, isBasic ...) is cut verbatim from the
 * tree and runs as the zero-argument member body() of a host H deriving from the stub SPxBasisBase of
 * stubs/basis_change_stubs.h; the hook's parameter is a member of H.  theLP is a separate stub solver object that
 * describes the LP AFTER the modification (the hooks are called by SPxSolverBase::doRemoveRow/... after the LP changed). */
#include "verif.h"
extern "C" {
   extern int* gp_rs; extern int* gp_cs; extern int* gp_bid; extern const void** gp_mat; extern int* gp_perm;
   extern int g_js, g_gone;
   extern int o_status, o_setup, o_fact, o_rsize, o_csize, o_bsize, o_msize, o_loadcalls;
}
#ifdef UNIQUE_GONE_ID
/* TYPE INVARIANT of theBaseId (listed under "trusted"): basis ids are pairwise distinct, so the id of the removed
 * row/column occurs at most once - at the ghost slot g_js.  Instantiated at every baseId() access. */
#define BASEID_READ_HOOK(data, n) __CPROVER_assume((n) == g_js || !((data)[n].info * GONE_SIGN > 0 && (data)[n].idx == g_gone))
#endif
#include "basis_change_stubs.h"
typedef SPxSolverBase<double> Solver;
typedef SPxBasisBase<double> Basis;
typedef SPxBasisBase<double>::Desc::Status DS;

#ifndef MATCAP
#define MATCAP 40
#endif

/* builds the stub LP (after the modification) and the basis object (before the hook) over raw arrays */
template <class HH>
static inline void init(HH& b, Solver& lp, int rep, int nr, int nc, double* lhs, double* rhs, double* lower, double* upper, double* obj,
                        int* rowkey, int* colkey, int* rowstat, int rsize, int rmax, int* colstat, int csize, int cmax,
                        int* bid, int bsize, int bmax, const SVectorBase<double>** mat, int bstatus, int setup, int fact)
{
   lp.left.val = lhs; lp.left.dimen = nr; lp.right.val = rhs; lp.right.dimen = nr;
   lp.low.val = lower; lp.low.dimen = nc; lp.up.val = upper; lp.up.dimen = nc; lp.objc.val = obj; lp.objc.dimen = nc;
   lp.rowKey = rowkey; lp.colKey = colkey; lp.goneRow = -1; lp.goneCol = -1;
   lp.theRep = rep > 0 ? SPxSolverBase<double>::COLUMN : SPxSolverBase<double>::ROW;
   lp.coset.s = &lp; lp.thecovectors = &lp.coset; lp.somevec.unused = 0;
   b.theLP = &lp;
   b.thedesc.rowstat.data = (DS*)rowstat; b.thedesc.rowstat.thesize = rsize; b.thedesc.rowstat.themax = rmax;
   b.thedesc.colstat.data = (DS*)colstat; b.thedesc.colstat.thesize = csize; b.thedesc.colstat.themax = cmax;
   b.thedesc.stat = rep > 0 ? &b.thedesc.colstat : &b.thedesc.rowstat;       /* as Desc::Desc(base) in spxdesc.hpp */
   b.thedesc.costat = rep > 0 ? &b.thedesc.rowstat : &b.thedesc.colstat;
   b.thedesc.p_rowDim = 0; b.thedesc.p_colDim = 0;
   b.theBaseId.data = (SPxId*)bid; b.theBaseId.thesize = bsize; b.theBaseId.themax = bmax;
   *(void**)&b.matrix.data = (void*)mat;   /* (the front end drops the const of the element type) */ b.matrix.thesize = bsize; b.matrix.themax = bmax;
   b.matrixIsSetup = setup != 0; b.factorized = fact != 0;
   b.thestatus = (SPxBasisBase<double>::SPxStatus)bstatus;
   b.loadMatrixVecs_calls = 0;
   gp_rs = rowstat; gp_cs = colstat; gp_bid = bid; gp_mat = (const void**)mat;
}
template <class HH>
static inline void finish(HH& b)
{
   o_status = (int)b.thestatus; o_setup = b.matrixIsSetup ? 1 : 0; o_fact = b.factorized ? 1 : 0;
   o_rsize = b.thedesc.rowstat.thesize; o_csize = b.thedesc.colstat.thesize; o_bsize = b.theBaseId.thesize; o_msize = b.matrix.thesize;
   o_loadcalls = b.loadMatrixVecs_calls;
}

#if defined(INST_removedRow)
struct H : SPxBasisBase<double>
{
   int i;
   void body()
   {
#include "Basis_removedRow.inc"
   }
};
/* LP after the removal: nr rows, nc columns.  Basis before the hook: descriptor (nr+1) x nc, bsize basis ids. */
extern "C" void w_removedRow(int i, int rep, int nr, int nc, int* rowstat, int* colstat, int* bid, int bsize, int bstatus, int setup, int fact, int gone)
{
   VIN("i", i); VIN("rep", rep); VIN("nr", nr); VIN("nc", nc); VIN("bsize", bsize); VIN("bstatus", bstatus); VIN("setup", setup); VIN("fact", fact);
   VIN_ARR8("rowstat", rowstat, nr + 1); VIN_ARR8("colstat", colstat, nc);
   basis_change_force_ctors();
   const SVectorBase<double>* mat[MATCAP];
   Solver lp; H b;
   init(b, lp, rep, nr, nc, 0, 0, 0, 0, 0, 0, 0, rowstat, nr + 1, nr + 1, colstat, nc, nc, bid, bsize, bsize, mat, bstatus, setup, fact);
   lp.goneRow = gone;
   b.i = i;
   b.body();
   finish(b);
}
#endif
