/* C04: the basis-maintenance hooks of spxchangebasis.hpp, R = double.  Every body (the hook, reDim, setStatus,
 * invalidate, Desc::reSize, restoreInitialBasis, dualRowStatus, primalColStatus, isBasic ...) is cut verbatim from the
 * tree and runs as the zero-argument member body() of a host H deriving from the stub SPxBasisBase of
 * stubs/basis_change_stubs.h; the hook's parameter is a member of H.  theLP is a separate stub solver object that
 * describes the LP AFTER the modification (the hooks are called by SPxSolverBase::doRemoveRow/... after the LP changed). */
#include "verif.h"
extern "C" {
   extern int* gp_rs; extern int* gp_cs; extern int* gp_bid; extern const void** gp_mat;
   extern int* gp_status; extern bool* gp_setup; extern bool* gp_fact; extern int* gp_loadcalls;
   extern int g_js, g_gone, g_x, g_p, g_newn;
   extern int o_status, o_setup, o_fact, o_rsize, o_csize, o_bsize, o_msize, o_loadcalls;
}
#ifdef UNIQUE_GONE_ID
/* TYPE INVARIANT of theBaseId (listed under "trusted"): basis ids are pairwise distinct, so the id of the removed
 * row/column occurs at most once - at the ghost slot g_js.  Instantiated at every baseId() access. */
#define BASEID_READ_HOOK(data, n) __CPROVER_assume((n) == g_js || (data)[n].code != g_gone)
#endif
#include "basis_change_stubs.h"

/* `const int perm[]` of removedRows / removedCols.  The slice only indexes it; the view adds the bounds assertion and
 * (PERM_INVARIANT) the TYPE INVARIANT of a permutation produced by DataSet::remove(int perm[]) (perm[k] = j++ for the
 * survivors, see units/dataset): a survivor's new number is the number of survivors in front of it, hence < the new
 * size, <= k, and strictly increasing along the survivors - instantiated at (k, ghost index g_x with g_p == perm[g_x]). */
struct PermView
{
   const int* p; int n;
   int operator[](int k) const
   {
      __CPROVER_assert(0 <= k && k < n, "perm index in bounds");
#ifdef PERM_INVARIANT
      __CPROVER_assume(p[k] < g_newn && p[k] <= k);
      __CPROVER_assume(!(p[k] >= 0 && g_p >= 0) || (((k < g_x) == (p[k] < g_p)) && ((k > g_x) == (p[k] > g_p))));
#endif
      return p[k];
   }
};
typedef SPxSolverBase<double> Solver;
typedef SPxBasisBase<double> Basis;
typedef SPxBasisBase<double>::Desc::Status DS;

#ifndef MATCAP
#define MATCAP 40
#endif

/* builds the stub LP (after the modification) and the basis object (before the hook) over raw arrays */
template <class HH>
static inline void init(HH& b, Solver& lp, int rep, int nr, int nc, double* lhs, double* rhs, double* lower, double* upper, double* obj,
                        int* rowkey, int* colkey, int* rowstat, int rsize, int rmax, int* colstat, int csize, int cmax,
                        int* bid, int bsize, int bmax, SVectorBase<double>** mat, int bstatus, int setup, int fact)
{
   lp.left.val = lhs; lp.left.dimen = nr; lp.right.val = rhs; lp.right.dimen = nr;
   lp.low.val = lower; lp.low.dimen = nc; lp.up.val = upper; lp.up.dimen = nc; lp.objc.val = obj; lp.objc.dimen = nc;
   lp.rowKey = rowkey; lp.colKey = colkey; lp.goneRow = 0; lp.goneCol = 0;
   lp.theRep = rep > 0 ? SPxSolverBase<double>::COLUMN : SPxSolverBase<double>::ROW;
   lp.coset.s = &lp; lp.thecovectors = &lp.coset; lp.somevec.unused = 0;
   b.theLP = &lp;
   b.thedesc.rowstat.data = (DS*)rowstat; b.thedesc.rowstat.thesize = rsize; b.thedesc.rowstat.themax = rmax;
   b.thedesc.colstat.data = (DS*)colstat; b.thedesc.colstat.thesize = csize; b.thedesc.colstat.themax = cmax;
   b.thedesc.stat = rep > 0 ? &b.thedesc.colstat : &b.thedesc.rowstat;       /* as Desc::Desc(base) in spxdesc.hpp */
   b.thedesc.costat = rep > 0 ? &b.thedesc.rowstat : &b.thedesc.colstat;
   b.thedesc.p_rowDim = 0; b.thedesc.p_colDim = 0;
   b.theBaseId.data = (SPxId*)bid; b.theBaseId.thesize = bsize; b.theBaseId.themax = bmax;
   b.matrix.data = mat;   /* (the front end drops the const of the element type `const SVectorBase<R>*`) */ b.matrix.thesize = bsize; b.matrix.themax = bmax;
   b.matrixIsSetup = setup != 0; b.factorized = fact != 0;
   b.thestatus = (SPxBasisBase<double>::SPxStatus)bstatus;
   b.loadMatrixVecs_calls = 0;
   gp_rs = rowstat; gp_cs = colstat; gp_bid = bid; gp_mat = (const void**)mat;
   gp_status = (int*)&b.thestatus; gp_setup = &b.matrixIsSetup; gp_fact = &b.factorized; gp_loadcalls = &b.loadMatrixVecs_calls;
}
template <class HH>
static inline void finish(HH& b)
{
   o_status = (int)b.thestatus; o_setup = b.matrixIsSetup ? 1 : 0; o_fact = b.factorized ? 1 : 0;
   o_rsize = b.thedesc.rowstat.thesize; o_csize = b.thedesc.colstat.thesize; o_bsize = b.theBaseId.thesize; o_msize = b.matrix.thesize;
   o_loadcalls = b.loadMatrixVecs_calls;
}

#if defined(INST_removedRow)
struct H : SPxBasisBase<double>
{
   int i;
   void body()
   {
#include "Basis_removedRow.inc"
   }
};
/* LP after the removal: nr rows, nc columns.  Basis before the hook: descriptor (nr+1) x nc, bsize basis ids. */
extern "C" void w_removedRow(int i, int rep, int nr, int nc, int* rowstat, int* colstat, int* bid, int bsize, int bstatus, int setup, int fact, int gone)
{
   VIN("i", i); VIN("rep", rep); VIN("nr", nr); VIN("nc", nc); VIN("bsize", bsize); VIN("bstatus", bstatus); VIN("setup", setup); VIN("fact", fact);
   VIN_ARR8("rowstat", rowstat, nr + 1); VIN_ARR8("colstat", colstat, nc);
   basis_change_force_ctors();
   SVectorBase<double>* mat[MATCAP];
   Solver lp; H b;
   init(b, lp, rep, nr, nc, 0, 0, 0, 0, 0, 0, 0, rowstat, nr + 1, nr + 1, colstat, nc, nc, bid, bsize, bsize, mat, bstatus, setup, fact);
   lp.goneRow = gone;
   b.i = i;
   b.body();
   finish(b);
}
#endif

#if defined(INST_removedCol)
struct H : SPxBasisBase<double>
{
   int i;
   void body()
   {
#include "Basis_removedCol.inc"
   }
};
/* LP after the removal: nr rows, nc columns.  Basis before the hook: descriptor nr x (nc+1), bsize basis ids. */
extern "C" void w_removedCol(int i, int rep, int nr, int nc, int* rowstat, int* colstat, int* bid, int bsize, int bstatus, int setup, int fact, int gone)
{
   VIN("i", i); VIN("rep", rep); VIN("nr", nr); VIN("nc", nc); VIN("bsize", bsize); VIN("bstatus", bstatus); VIN("setup", setup); VIN("fact", fact);
   VIN_ARR8("rowstat", rowstat, nr); VIN_ARR8("colstat", colstat, nc + 1);
   basis_change_force_ctors();
   SVectorBase<double>* mat[MATCAP];
   Solver lp; H b;
   init(b, lp, rep, nr, nc, 0, 0, 0, 0, 0, 0, 0, rowstat, nr, nr, colstat, nc + 1, nc + 1, bid, bsize, bsize, mat, bstatus, setup, fact);
   lp.goneCol = gone;
   b.i = i;
   b.body();
   finish(b);
}
#endif

#if defined(INST_removedRows) || defined(INST_removedCols)
struct H : SPxBasisBase<double>
{
   PermView perm;
   void body()
   {
#ifdef INST_removedRows
#include "Basis_removedRows.inc"
#else
#include "Basis_removedCols.inc"
#endif
   }
};
/* LP after the removal: nr rows, nc columns.  Basis before the hook: descriptor rsize x csize (rsize >= nr, csize >= nc);
 * perm has rsize (removedRows) resp. csize (removedCols) entries.  The id array is only resized. */
extern "C" void w_removedMany(int* perm, int rep, int nr, int nc, int* rowstat, int rsize, int* colstat, int csize, int bsize, int bstatus, int setup, int fact)
{
   VIN("rep", rep); VIN("nr", nr); VIN("nc", nc); VIN("rsize", rsize); VIN("csize", csize); VIN("bsize", bsize); VIN("bstatus", bstatus); VIN("setup", setup); VIN("fact", fact);
   VIN_ARR8("rowstat", rowstat, rsize); VIN_ARR8("colstat", colstat, csize);
#ifdef INST_removedRows
   VIN_ARR8("perm", perm, rsize);
#else
   VIN_ARR8("perm", perm, csize);
#endif
   basis_change_force_ctors();
   SVectorBase<double>* mat[MATCAP];
   Solver lp; H b;
   init(b, lp, rep, nr, nc, 0, 0, 0, 0, 0, 0, 0, rowstat, rsize, rsize, colstat, csize, csize, 0, bsize, bsize, mat, bstatus, setup, fact);
   b.perm.p = perm;
#ifdef INST_removedRows
   b.perm.n = rsize;
#else
   b.perm.n = csize;
#endif
   b.body();
   finish(b);
}
#endif

#if defined(INST_addedRows) || defined(INST_addedCols)
struct H : SPxBasisBase<double>
{
   int n;
   void body()
   {
#ifdef INST_addedRows
#include "Basis_addedRows.inc"
#else
#include "Basis_addedCols.inc"
#endif
   }
};
/* LP after the addition: nr rows, nc columns (the last n rows resp. columns are new).  Basis before the hook: descriptor
 * rsize x csize, bsize basis ids; the wrapper's arrays have room for the new dimensions (nr, nc, bmax). */
extern "C" void w_added(int n, int rep, int nr, int nc, double* lhs, double* rhs, double* lower, double* upper, double* obj, int* rowkey, int* colkey,
                        int* rowstat, int rsize, int* colstat, int csize, int* bid, int bsize, int bmax, int bstatus, int setup, int fact)
{
   VIN("n", n); VIN("rep", rep); VIN("nr", nr); VIN("nc", nc); VIN("rsize", rsize); VIN("csize", csize); VIN("bsize", bsize); VIN("bstatus", bstatus); VIN("setup", setup); VIN("fact", fact);
   VIN_ARR8("rowstat", rowstat, rsize); VIN_ARR8("colstat", colstat, csize);
   basis_change_force_ctors();
   SVectorBase<double>* mat[MATCAP];
   Solver lp; H b;
   init(b, lp, rep, nr, nc, lhs, rhs, lower, upper, obj, rowkey, colkey, rowstat, rsize, nr, colstat, csize, nc, bid, bsize, bmax, mat, bstatus, setup, fact);
   b.n = n;
   b.body();
   finish(b);
}
#endif

#if defined(INST_changedRow) || defined(INST_changedCol) || defined(INST_changedElement)
struct H : SPxBasisBase<double>
{
   void restoreInitialBasis()
   {
#include "Basis_restoreInitialBasis.inc"
   }
   void body()
   {
#if defined(INST_changedRow)
#include "Basis_changedRow.inc"
#elif defined(INST_changedCol)
#include "Basis_changedCol.inc"
#else
#include "Basis_changedElement.inc"
#endif
   }
};
/* the LP kept its dimensions; the hooks' parameters (row / column numbers) are unnamed and unused in the tree */
extern "C" void w_changed(int rep, int nr, int nc, double* lhs, double* rhs, double* lower, double* upper, double* obj, int* rowkey, int* colkey,
                          int* rowstat, int* colstat, int* bid, int bsize, int bstatus, int setup, int fact)
{
   VIN("rep", rep); VIN("nr", nr); VIN("nc", nc); VIN("bsize", bsize); VIN("bstatus", bstatus); VIN("setup", setup); VIN("fact", fact);
   VIN_ARR8("rowstat", rowstat, nr); VIN_ARR8("colstat", colstat, nc);
   basis_change_force_ctors();
   SVectorBase<double>* mat[MATCAP];
   Solver lp; H b;
   init(b, lp, rep, nr, nc, lhs, rhs, lower, upper, obj, rowkey, colkey, rowstat, nr, nr, colstat, nc, nc, bid, bsize, bsize, mat, bstatus, setup, fact);
   b.body();
   finish(b);
}
#endif
