/* Native replay for units/basis_change: the REAL SPxSolverBase<double> (header templates of the current tree + the
 * non-template sources listed in unit.json "replay") is given an LP and a basis descriptor equal to the counterexample's
 * pre-state, the LP is then modified through the public interface (removeRow / removeCol / removeRows / removeCols /
 * addRow / addCol / changeRow / changeCol / changeElement - which call the basis hook under contract), and the C04
 * invariant is evaluated on the real object:
 *      basis().status() > NO_PROBLEM  ==>  descriptor dimensions == LP dimensions
 *                                          && number of D_* (= BASIC) descriptor entries == nRows().
 * Bounds are chosen so that SPxBasisBase::loadDesc keeps every status of the counterexample as it is. */
#include "replay_util.h"
#include "soplex.h"
#include <memory>

using namespace soplex;
typedef SPxSolverBase<double> Solver;
typedef SPxBasisBase<double>::Desc Desc;

/* bounds (lo, up) for which descriptor status st is the status loadDesc accepts unchanged */
static void bounds_for(int st, double& lo, double& up)
{
   switch(st)
   {
   case Desc::P_ON_LOWER: lo = 0.0; up = infinity; break;
   case Desc::P_ON_UPPER: lo = -infinity; up = 1.0; break;
   case Desc::P_FIXED:    lo = 1.0; up = 1.0; break;
   case Desc::P_FREE:     lo = -infinity; up = infinity; break;
   case Desc::D_FREE:     lo = 1.0; up = 1.0; break;
   case Desc::D_ON_UPPER: lo = 0.0; up = infinity; break;
   case Desc::D_ON_LOWER: lo = -infinity; up = 1.0; break;
   case Desc::D_ON_BOTH:  lo = 0.0; up = 1.0; break;
   default:               lo = -infinity; up = infinity; break;      /* D_UNDEFINED */
   }
}
static bool valid_desc(int s)
{
   return s == Desc::P_ON_LOWER || s == Desc::P_ON_UPPER || s == Desc::P_FIXED || s == Desc::P_FREE || s == Desc::D_FREE
          || s == Desc::D_ON_UPPER || s == Desc::D_ON_LOWER || s == Desc::D_ON_BOTH || s == Desc::D_UNDEFINED;
}

int main(int argc, char** argv)
{
   if(argc < 3) return 2;
   ReplayIn in(argv[1]);
   std::string inst = argv[2];
   size_t us = inst.find("_count");
   if(us != std::string::npos) inst = inst.substr(0, us);
   int rep = (int)in.geti("rep", 1), nr = (int)in.geti("nr", 0), nc = (int)in.geti("nc", 0);
   if(nr < 0 || nc < 0 || nr > 64 || nc > 64) return 2;
   /* dimensions of the OLD LP / descriptor */
   int onr = nr, onc = nc, n = (int)in.geti("n", 0), i = (int)in.geti("i", 0);
   if(inst == "removedRow") onr = nr + 1;
   else if(inst == "removedCol") onc = nc + 1;
   else if(inst == "removedRows" || inst == "removedCols") { onr = (int)in.geti("rsize", nr); onc = (int)in.geti("csize", nc); }
   else if(inst == "addedRows") onr = nr - n;
   else if(inst == "addedCols") onc = nc - n;
   if(onr < 0 || onc < 0) return 2;
   std::vector<int> rs = in.getarr("rowstat", onr, 100000), cs = in.getarr("colstat", onc, 100000);
   int nbasic = 0;
   for(int k = 0; k < onr; k++) { if(!valid_desc(rs[k])) rs[k] = Desc::D_ON_BOTH; }     /* cells the trace does not mention */
   for(int k = 0; k < onc; k++) { if(!valid_desc(cs[k])) cs[k] = Desc::P_ON_LOWER; }
   for(int k = 0; k < onr; k++) if(rs[k] > 0) nbasic++;
   for(int k = 0; k < onc; k++) if(cs[k] > 0) nbasic++;
   std::cout << inst << ": representation " << (rep > 0 ? "COLUMN" : "ROW") << ", old LP " << onr << " x " << onc << ", descriptor with " << nbasic << " basic entries" << std::endl;
   if(nbasic != onr)
   {
      std::cout << "counterexample pre-state does not satisfy the invariant (filled cells?): not replayable" << std::endl;
      return 0;
   }

   Solver s(Solver::LEAVE, rep > 0 ? Solver::COLUMN : Solver::ROW);
   std::shared_ptr<Tolerances> tol = std::make_shared<Tolerances>();
   SPxLPBase<double> lp;
   SPxOut out;
   out.setVerbosity(SPxOut::ERROR);
   lp.setOutstream(out);
   s.setOutstream(out);
   lp.setTolerances(tol);
   s.setTolerances(tol);
   DSVectorBase<double> empty;
   for(int j = 0; j < onc; j++)
   {
      double lo, up; bounds_for(cs[j], lo, up);
      lp.addCol(LPColBase<double>(1.0, empty, up, lo));
   }
   for(int r = 0; r < onr; r++)
   {
      double lo, up; bounds_for(rs[r], lo, up);
      DSVectorBase<double> v;
      for(int j = 0; j < onc; j++) v.add(j, 1.0 + ((r * 7 + j * 3) % 5) + (r == j ? 10.0 : 0.0));
      lp.addRow(LPRowBase<double>(lo, v, up));
   }
   s.loadLP(lp);
   Desc d(s);
   for(int r = 0; r < onr; r++) d.rowStatus(r) = (Desc::Status)rs[r];
   for(int j = 0; j < onc; j++) d.colStatus(j) = (Desc::Status)cs[j];
   s.loadBasis(d);
   for(int r = 0; r < onr; r++) if(s.basis().desc().rowStatus(r) != rs[r]) { std::cout << "loadDesc changed row status " << r << ": not replayable" << std::endl; return 0; }
   for(int j = 0; j < onc; j++) if(s.basis().desc().colStatus(j) != cs[j]) { std::cout << "loadDesc changed column status " << j << ": not replayable" << std::endl; return 0; }
   std::cout << "basis loaded, status " << (int)s.basis().status() << std::endl;

   if(inst == "removedRow") { if(i < 0 || i >= onr) return 2; std::cout << "removeRow(" << i << "), descriptor status " << rs[i] << std::endl; s.removeRow(i); }
   else if(inst == "removedCol") { if(i < 0 || i >= onc) return 2; std::cout << "removeCol(" << i << "), descriptor status " << cs[i] << std::endl; s.removeCol(i); }
   else if(inst == "removedRows" || inst == "removedCols")
   {
      bool rows = inst == "removedRows";
      int m = rows ? onr : onc;
      std::vector<int> perm = in.getarr("perm", m, 0);      /* cells not mentioned: >= 0 = keep */
      std::cout << (rows ? "removeRows" : "removeCols") << "(perm): removing";
      for(int k = 0; k < m; k++) if(perm[k] < 0) std::cout << " " << k << "(status " << (rows ? rs[k] : cs[k]) << ")";
      std::cout << std::endl;
      if(rows) s.removeRows(perm.data()); else s.removeCols(perm.data());
   }
   else if(inst == "addedRows")
   {
      for(int k = 0; k < n; k++) { DSVectorBase<double> v; for(int j = 0; j < onc; j++) v.add(j, 2.0 + k + j); s.addRow(LPRowBase<double>(0.0, v, 1.0)); }
   }
   else if(inst == "addedCols")
   {
      for(int k = 0; k < n; k++) { DSVectorBase<double> v; for(int r = 0; r < onr; r++) v.add(r, 2.0 + k + r); s.addCol(LPColBase<double>(1.0, v, 1.0, 0.0)); }
   }
   else if(inst == "changedRow") { if(onr > 0) { DSVectorBase<double> v; for(int j = 0; j < onc; j++) v.add(j, 3.0 + j); s.changeRow(0, LPRowBase<double>(0.0, v, 1.0)); } }
   else if(inst == "changedCol") { if(onc > 0) { DSVectorBase<double> v; for(int r = 0; r < onr; r++) v.add(r, 3.0 + r); s.changeCol(0, LPColBase<double>(1.0, v, 1.0, 0.0)); } }
   else if(inst == "changedElement") { if(onr > 0 && onc > 0) s.changeElement(0, 0, 42.0); }
   else { std::cout << "no native replay for instance " << inst << std::endl; return 0; }

   const SPxBasisBase<double>& b = s.basis();
   std::cout << "after the modification: LP " << s.nRows() << " x " << s.nCols() << ", basis status " << (int)b.status() << std::endl;
   if(b.status() <= SPxBasisBase<double>::NO_PROBLEM)
   {
      std::cout << "the basis was given up" << std::endl;
      REPLAY_OK();
   }
   if(b.desc().nRows() != s.nRows() || b.desc().nCols() != s.nCols())
      REPLAY_FAIL("kept basis has descriptor dimensions " << b.desc().nRows() << " x " << b.desc().nCols() << " for an LP of " << s.nRows() << " x " << s.nCols());
   int cnt = 0;
   for(int r = 0; r < s.nRows(); r++) if(b.desc().rowStatus(r) > 0) cnt++;
   for(int j = 0; j < s.nCols(); j++) if(b.desc().colStatus(j) > 0) cnt++;
   if(cnt != s.nRows())
      REPLAY_FAIL("the basis is kept (status " << (int)b.status() << ") with " << cnt << " BASIC variables for " << s.nRows() << " rows (exactly one basic variable per row is required)");
   REPLAY_OK();
}
