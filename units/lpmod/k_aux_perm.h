/* _idxToPerm(int* idx, int idxSize, int* perm, int permSize) / _rangeToPerm(int start, int end, int* perm, int permSize)  (RANGE)
 * perm[g] == -1 <=> g is to be removed (g in idx[0..idxSize) resp. start <= g <= end), otherwise perm[g] == g
 * (the encoding removeRowsReal(int perm[]) documents: perm[i] < 0 <=> row i is removed).
 * idxSize = n, permSize = i; for the range variant start = j, end = n.  Membership "g_k not in idx" is stated as the explicit
 * conjunction over the (at most CAP <= 8) entries. */
#define IDXOK(m) ((m) >= n || (0 <= idx[m] && idx[m] < i))
#define NOTAT(m) ((m) >= n || idx[m] != g_k)
#define NOTIN (NOTAT(0) && NOTAT(1) && NOTAT(2) && NOTAT(3) && NOTAT(4) && NOTAT(5) && NOTAT(6) && NOTAT(7))
void w_lpmod(PARAMS)
REQ_STATE
__CPROVER_requires(permnull == 0 && 0 <= i && i <= ACAP)
#ifndef RANGE
/* caller obligation (the body asserts it): every index is a valid row/column number */
__CPROVER_requires(IDXOK(0) && IDXOK(1) && IDXOK(2) && IDXOK(3) && IDXOK(4) && IDXOK(5) && IDXOK(6) && IDXOK(7))
__CPROVER_requires(v_exp == (NOTIN ? 1 : 0))
#endif
__CPROVER_assigns(ASSIGNS_GHOSTS, ARR(perm))
#ifdef RANGE
__CPROVER_ensures(!INR(g_k, i) || perm[g_k] == ((g_k < j || g_k > n) ? g_k : -1))
#else
__CPROVER_ensures(!INR(g_k, i) || perm[g_k] == g_k || perm[g_k] == -1)
__CPROVER_ensures(!INR(g_k, i) || !v_exp || perm[g_k] == g_k)
__CPROVER_ensures(!INR(g_k, i) || !INR(g_k2, n) || idx[g_k2] != g_k || perm[g_k] == -1)
#endif
__CPROVER_ensures(g_seq == 0)
;
