/* _invalidateSolution(): its own contract, proved once (every public modifier instance runs this same sliced body) */
void w_lpmod(PARAMS)
REQ_STATE
__CPROVER_assigns(ASSIGNS_GHOSTS)
__CPROVER_ensures(out[1] == K_STATUS_UNKNOWN && out[2] == 0 && out[3] == 0 && g_solreal_inval == 1 && g_solrat_inval == 1)
__CPROVER_ensures(out[0] == hasBasis && out[4] == nrt && out[5] == nct && out[6] == nbr && out[7] == nbc && gr_calls == 0 && gq_calls == 0 && g_lu_clear == 0)
;
