/* Contracts of the lpmod family (C06 F1, C07 F2, C11 F3).  One wrapper w_lpmod, one harness; the contract
 * text is selected by -DKIND_<shape> and a few per-instance macros from the table in gen.py.
 *
 * Conventions:  TORAT(x)   the exact embedding double -> rational model (defined below, = Rational(double) stub)
 *               TOREAL(q)  the uninterpreted rounding rational -> double (= R(Rational) stub)
 *               RT_Q / RT_R the RangeType a pair of rational / real bounds must be classified as (the spec)
 * "for all k" is stated at the ghost index g_k (havoc'd by the harness, constrained only by its range). */
#include "verif_c.h"
#include "constants.h"
#include "codes.h"
#include "VarStatus.inc"
#include "RangeType.inc"
#include "SYNCMODE.inc"
#ifndef CAP
#define CAP 6
#endif
#define ACAP (2 * CAP + 2)

#include "ghosts.h"

/* ---- number model ------------------------------------------------------------------------------------ */
double __CPROVER_uninterpreted_toReal(long long);
/* exact, order-preserving embedding of the finite doubles into the ordered group of integers:
 * sign-magnitude bit pattern; -0.0 and +0.0 both map to 0 */
long long verif_toRat(double d)
{
   union { double d; long long b; } u;
   u.d = d;
   return u.b >= 0 ? u.b : -(u.b & 0x7fffffffffffffffLL);
}
double verif_toReal(long long q)
{
   double r = __CPROVER_uninterpreted_toReal(q);
   __CPROVER_assume(r == r);   /* rounding a rational never yields NaN (type invariant of the conversion) */
   return r;
}
#define TORAT(x) verif_toRat(x)
#define TOREAL(q) __CPROVER_uninterpreted_toReal(q)
#define FINITE(x) (-1.7976931348623157e308 <= (x) && (x) <= 1.7976931348623157e308)
#define QMAX 0x7fe0000000000000LL                  /* rationals of the model stay inside the image of the finite doubles */
#define QOK(q) (-QMAX <= (q) && (q) <= QMAX)

/* ---- the specification of the bound-type classification (property C07, last sentence) ----------------- */
#define RT(lo_inf, up_inf, eq) ((lo_inf) ? ((up_inf) ? RANGETYPE_FREE : RANGETYPE_UPPER) \
                                         : ((up_inf) ? RANGETYPE_LOWER : ((eq) ? RANGETYPE_FIXED : RANGETYPE_BOXED)))
#define RT_Q(lo, up) RT((lo) <= -posInf, (up) >= posInf, (lo) == (up))
#define RT_R(lo, up) RT((lo) <= -K_REAL_INFINITY, (up) >= K_REAL_INFINITY, (lo) == (up))

#define INR(k, n) (0 <= (k) && (k) < (n))
#define IS_VARSTATUS(s) (ON_UPPER <= (s) && (s) <= BASIC)
#define AUTO (syncmode == SYNCMODE_AUTO)

/* every global the wrapper or a stub may write: the packed recorder arrays */
#define ASSIGNS_GHOSTS __CPROVER_object_whole(GI), __CPROVER_object_whole(GD), __CPROVER_object_whole(GQ), \
   __CPROVER_object_whole(GPI), __CPROVER_object_whole(GPD), __CPROVER_object_whole(GPQ), gp_hasBasis, OUT_ALL

#define PARAMS \
   int syncmode, int objsense, int loaded, int hasBasis, int sbstat, int scaled, \
   int nr, int nc, int qnr, int qnc, int nrt, int nct, int nbr, int nbc, \
   int i, int j, int n, int permnull, \
   double infty, double v1, double v2, double v3, \
   long long posInf, long long w1, long long w2, long long w3, long long vtag, \
   double* dbuf, long long* qbuf, int* ibuf, int* perm, int* idx

/* logical arrays inside the packed buffers (fewer objects => much cheaper dfcc instrumentation) */
#define r_lhs (dbuf)
#define r_rhs (dbuf + ACAP)
#define r_low (dbuf + 2 * ACAP)
#define r_up (dbuf + 3 * ACAP)
#define vec1 (dbuf + 4 * ACAP)
#define vec2 (dbuf + 5 * ACAP)
#define r_obj (dbuf + 6 * ACAP)
#define q_lhs (qbuf)
#define q_rhs (qbuf + ACAP)
#define q_low (qbuf + 2 * ACAP)
#define q_up (qbuf + 3 * ACAP)
#define qvec1 (qbuf + 4 * ACAP)
#define qvec2 (qbuf + 5 * ACAP)
#define q_obj (qbuf + 6 * ACAP)
#define rowTypes (ibuf)
#define colTypes (ibuf + ACAP)
#define bsRows (ibuf + 2 * ACAP)
#define bsCols (ibuf + 3 * ACAP)
#define out (ibuf + 4 * ACAP)
#define ARR(p) __CPROVER_object_upto(p, ACAP * sizeof(*(p)))
#define OUT_ALL __CPROVER_object_upto(out, 16 * sizeof(int))

/* shape of the state every instance starts from (all arrays are fresh objects of the model capacity) */
#define REQ_STATE \
   __CPROVER_requires(0 <= nr && nr <= CAP && 0 <= nc && nc <= CAP && 0 <= qnr && qnr <= CAP && 0 <= qnc && qnc <= CAP) \
   __CPROVER_requires(0 <= nrt && nrt <= CAP && 0 <= nct && nct <= CAP && 0 <= nbr && nbr <= CAP && 0 <= nbc && nbc <= CAP && 0 <= n && n <= CAP) \
   __CPROVER_requires(SYNCMODE_ONLYREAL <= syncmode && syncmode <= SYNCMODE_MANUAL) \
   __CPROVER_requires((loaded == 0 || loaded == 1) && (hasBasis == 0 || hasBasis == 1) && (scaled == 0 || scaled == 1) && (permnull == 0 || permnull == 1)) \
   __CPROVER_requires(K_BASIS_NO_PROBLEM <= sbstat && sbstat <= K_BASIS_NO_PROBLEM + 7) \
   __CPROVER_requires(1e10 <= infty && infty <= 1e100 && posInf == TORAT(infty))   /* setRealParam(INFTY) sets both */ \
   __CPROVER_requires(__CPROVER_is_fresh(dbuf, 7 * ACAP * sizeof(double)) && __CPROVER_is_fresh(qbuf, 7 * ACAP * sizeof(long long))) \
   __CPROVER_requires(__CPROVER_is_fresh(ibuf, (4 * ACAP + 16) * sizeof(int)) && (out[2] == 0 || out[2] == 1) && (out[3] == 0 || out[3] == 1)) \
   __CPROVER_requires(__CPROVER_is_fresh(perm, ACAP * sizeof(int)) && __CPROVER_is_fresh(idx, ACAP * sizeof(int))) \
   __CPROVER_requires(g_nr == nr && g_nc == nc && g_qnr == qnr && g_qnc == qnc && g_n == n && g_nbr == nbr && g_nbc == nbc && g_nrt == nrt && g_nct == nct) \
   __CPROVER_requires(g_seq == 0 && gr_calls == 0 && gq_calls == 0 && gi_calls == 0 && g_lu_clear == 0 && g_inval_calls == 0 && g_complete_calls == 0) \
   __CPROVER_requires(g_solreal_inval == 0 && g_solrat_inval == 0 && g_reload_calls == 0 && g_sb_calls == 0 && g_i2p_calls == 0 && g_pp_calls == 0 && g_tc_calls == 0)

/* SoPlexBase::_isConsistent(): the type arrays have the rational LP's dimensions (when there is a rational LP);
 * in automatic mode both LPs have equal dimensions; a basis kept outside the solver has the real LP's dimensions */
#define ONLYREAL (syncmode == SYNCMODE_ONLYREAL)
#define REQ_CONSISTENT \
   __CPROVER_requires(ONLYREAL || (nrt == qnr && nct == qnc)) \
   __CPROVER_requires(!AUTO || (qnr == nr && qnc == nc)) \
   __CPROVER_requires(loaded || !hasBasis || (nbr == nr && nbc == nc))

/* number of survivors of a removal-by-perm among the old indices < k (perm evaluated in the pre-state; CAP <= 8) */
#define SURV(m, k) (((m) < (k) && perm[m] >= 0) ? 1 : 0)
#define CNT(k) (SURV(0, k) + SURV(1, k) + SURV(2, k) + SURV(3, k) + SURV(4, k) + SURV(5, k) + SURV(6, k) + SURV(7, k))

/* the post-state every PUBLIC modifier must establish (C06: nothing cached is reported as current):
 * the real body of _invalidateSolution ran exactly once, as the last thing, and left the flags down */
#define ENS_INVALIDATED \
   __CPROVER_ensures(out[1] == K_STATUS_UNKNOWN && out[2] == 0 && out[3] == 0) \
   __CPROVER_ensures(g_inval_calls == 1 && g_inval_seq == g_seq && g_solreal_inval == 1 && g_solrat_inval == 1)
#define ENS_INVALIDATED_UNLESS(c) \
   __CPROVER_ensures((c) || (out[1] == K_STATUS_UNKNOWN && out[2] == 0 && out[3] == 0)) \
   __CPROVER_ensures((c) || (g_inval_calls == 1 && g_inval_seq == g_seq && g_solreal_inval == 1 && g_solrat_inval == 1))
/* nothing at all happened (rational modifier in real-only mode) */
#define NOTHING (g_seq == 0 && gr_calls == 0 && gq_calls == 0 && gi_calls == 0 && g_inval_calls == 0 && g_complete_calls == 0 && g_lu_clear == 0 \
   && g_i2p_calls == 0 && g_pp_calls == 0 && g_tc_calls == 0 && out[0] == hasBasis && out[1] == __CPROVER_old(out[1]) && out[2] == __CPROVER_old(out[2]) \
   && out[3] == __CPROVER_old(out[3]) && out[4] == nrt && out[5] == nct && out[6] == nbr && out[7] == nbc && out[8] == nr && out[9] == nc)

/* row/column selection for the instances that exist once for sides and once for bounds */
#ifdef ISROW
#define DIM nr
#define QDIM qnr
#define NTYPES nrt
#define TYPES rowTypes
#define Q_LO q_lhs
#define Q_UP q_rhs
#define R_LO r_lhs
#define R_UP r_rhs
#define OUT_NTYPES out[4]
#define DIMOUT_R 8
#define DIMOUT_Q 10
#define BS bsRows
#define NBS nbr
#define OUT_NBS out[6]
#define OBS bsCols
#define ONBS nbc
#define OUT_ONBS out[7]
#else
#define DIM nc
#define QDIM qnc
#define NTYPES nct
#define TYPES colTypes
#define Q_LO q_low
#define Q_UP q_up
#define R_LO r_low
#define R_UP r_up
#define OUT_NTYPES out[5]
#define DIMOUT_R 9
#define DIMOUT_Q 11
#define BS bsCols
#define NBS nbc
#define OUT_NBS out[7]
#define OBS bsRows
#define ONBS nbr
#define OUT_ONBS out[6]
#endif

/* the bound-type specification RT_Q is always taken against the parameter INFTY (_rationalPosInfty), for EVERY admissible
 * value of the parameter (REQ_STATE: 1e10 <= infty <= 1e100), never against the global real `infinity` */

#include KINDFILE

#undef out
void h_lpmod(void)
{
   int syncmode, objsense, loaded, hasBasis, sbstat, scaled, nr, nc, qnr, qnc, nrt, nct, nbr, nbc, i, j, n, permnull;
   double infty, v1, v2, v3;
   long long posInf, w1, w2, w3, vtag;
   double* dbuf_; long long* qbuf_; int* ibuf_; int* perm_; int* idx_;
   g_k = nondet_int(); g_k2 = nondet_int(); v_old = nondet_int(); v_exp = nondet_int(); v_old2 = nondet_int(); v_exp2 = nondet_int();
   g_nr = nondet_int(); g_nc = nondet_int(); g_qnr = nondet_int(); g_qnc = nondet_int(); g_n = nondet_int();
   g_nbr = nondet_int(); g_nbc = nondet_int(); g_nrt = nondet_int(); g_nct = nondet_int();
   w_lpmod(syncmode, objsense, loaded, hasBasis, sbstat, scaled, nr, nc, qnr, qnc, nrt, nct, nbr, nbc, i, j, n, permnull,
           infty, v1, v2, v3, posInf, w1, w2, w3, vtag, dbuf_, qbuf_, ibuf_, perm_, idx_);
   CANARY();
}
