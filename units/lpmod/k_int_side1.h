/* INTERNAL twin, scalar change of one side / bound: _changeLhsReal / _changeRhsReal (ISROW) / _changeLowerReal / _changeUpperReal (int i, const R& v)
 * F1: forwarded to _realLP with the LP's scale flag; basis bookkeeping as documented.  F3: the rational LU cache is cleared.
 * The basis table comes from "no variable is nonbasic at an infinite bound" (infinite = beyond +-realParam(INFTY)). */
#ifdef CHG_LOW
#define NEWLO v1
#define NEWUP R_UP[i]
#define TABLE(old) (((old) == ON_LOWER && v1 <= -infty) ? (R_UP[i] < infty ? ON_UPPER : ZERO) : (old))
#else
#define NEWLO R_LO[i]
#define NEWUP v1
#define TABLE(old) (((old) == ON_UPPER && v1 >= infty) ? (R_LO[i] > -infty ? ON_LOWER : ZERO) : (old))
#endif
#define KEPT (!loaded && hasBasis)
void w_lpmod(PARAMS)
REQ_STATE
REQ_CONSISTENT
__CPROVER_requires(0 <= i && i < DIM && FINITE(v1))
__CPROVER_requires((!INR(g_k, NBS) || v_old == BS[g_k]) && (!KEPT || v_old2 == BS[i]))
/* the basis held before the call respects the clause for the old bounds */
__CPROVER_requires(!KEPT || ((BS[i] != ON_LOWER || R_LO[i] > -infty) && (BS[i] != ON_UPPER || R_UP[i] < infty)))
#ifdef CLAUSE_FIXED
__CPROVER_requires(!KEPT || BS[i] != FIXED || R_LO[i] == R_UP[i])
#endif
__CPROVER_assigns(ASSIGNS_GHOSTS, ARR(BS))
__CPROVER_ensures(gr_calls == 1 && gr_m == CODE && gr_i == i && gr_v1 == v1 && gr_scale == scaled && gq_calls == 0)
__CPROVER_ensures(g_lu_clear == 1)
__CPROVER_ensures(out[0] == (loaded ? (sbstat > K_BASIS_NO_PROBLEM) : hasBasis))
__CPROVER_ensures(!INR(g_k, NBS) || BS[g_k] == ((KEPT && g_k == i) ? TABLE(v_old) : v_old))
/* C04/C06: the kept basis has no variable nonbasic at an infinite bound */
__CPROVER_ensures(!KEPT || ((BS[i] != ON_LOWER || NEWLO > -infty) && (BS[i] != ON_UPPER || NEWUP < infty)))
#ifdef CLAUSE_FIXED
__CPROVER_ensures(!KEPT || BS[i] != FIXED || NEWLO == NEWUP)
#endif
__CPROVER_ensures(out[6] == nbr && out[7] == nbc && g_inval_calls == 0 && out[8] == nr && out[9] == nc)
;
