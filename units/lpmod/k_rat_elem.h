/* PUBLIC RATIONAL: changeElementRational(int i, int j, const Rational& val) + GMP twin */
void w_lpmod(PARAMS)
REQ_STATE
REQ_CONSISTENT
__CPROVER_requires(ONLYREAL || (0 <= i && i < qnr && 0 <= j && j < qnc && QOK(w1)))
__CPROVER_assigns(ASSIGNS_GHOSTS)
__CPROVER_ensures(!ONLYREAL || NOTHING)
__CPROVER_ensures(ONLYREAL || (gq_calls == 1 && gq_m == M_changeElement && gq_i == i && gq_j == j && gq_v1 == w1 && gr_calls == 0))
__CPROVER_ensures(!AUTO || (gi_calls == 1 && gi_m == M_changeElement && gi_i == i && gi_j == j && gi_v1 == TOREAL(w1)))
__CPROVER_ensures(AUTO || gi_calls == 0)
ENS_INVALIDATED_UNLESS(ONLYREAL)
__CPROVER_ensures(out[4] == nrt && out[5] == nct && out[8] == nr && out[9] == nc)
;
