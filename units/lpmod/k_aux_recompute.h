/* _recomputeRangeTypesRational() RATIONAL / _recomputeRangeTypesReal(): both type arrays get the LP's dimensions and every entry is the
 * classification of that row's / column's bounds.  _completeRangeTypesRational() COMPLETE: the arrays are extended to the LP's dimensions,
 * old entries untouched.  Rows at ghost index g_k, columns at g_k2. */
#ifdef REAL
#define ROWSPEC RT_R(r_lhs[g_k], r_rhs[g_k])
#define COLSPEC RT_R(r_low[g_k2], r_up[g_k2])
#define NROWS nr
#define NCOLS nc
#else
#define ROWSPEC RT_Q(q_lhs[g_k], q_rhs[g_k])
#define COLSPEC RT_Q(q_low[g_k2], q_up[g_k2])
#define NROWS qnr
#define NCOLS qnc
#endif
void w_lpmod(PARAMS)
REQ_STATE
#ifndef REAL
__CPROVER_requires(!ONLYREAL)
#endif
#ifdef COMPLETE
__CPROVER_requires(nrt <= qnr && nct <= qnc)
__CPROVER_requires((!INR(g_k, nrt) || v_old == rowTypes[g_k]) && (!INR(g_k2, nct) || v_old2 == colTypes[g_k2]))
#endif
__CPROVER_requires((!INR(g_k, NROWS) || v_exp == ROWSPEC) && (!INR(g_k2, NCOLS) || v_exp2 == COLSPEC))
__CPROVER_assigns(ASSIGNS_GHOSTS, ARR(rowTypes), ARR(colTypes))
__CPROVER_ensures(out[4] == NROWS && out[5] == NCOLS)
#ifdef COMPLETE
__CPROVER_ensures(!INR(g_k, NROWS) || rowTypes[g_k] == (g_k < nrt ? v_old : v_exp))
__CPROVER_ensures(!INR(g_k2, NCOLS) || colTypes[g_k2] == (g_k2 < nct ? v_old2 : v_exp2))
#else
__CPROVER_ensures(!INR(g_k, NROWS) || rowTypes[g_k] == v_exp)
__CPROVER_ensures(!INR(g_k2, NCOLS) || colTypes[g_k2] == v_exp2)
#endif
__CPROVER_ensures(gr_calls == 0 && gq_calls == 0 && out[0] == hasBasis)
;
