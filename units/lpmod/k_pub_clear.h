/* PUBLIC: clearLPReal() / clearLPRational() (RATIONAL) */
void w_lpmod(PARAMS)
REQ_STATE
REQ_CONSISTENT
__CPROVER_assigns(ASSIGNS_GHOSTS)
#ifndef RATIONAL
__CPROVER_ensures(gr_calls == 1 && gr_m == M_clear && out[0] == 0 && g_lu_clear == 1 && out[8] == 0 && out[9] == 0)
__CPROVER_ensures(!AUTO || (gq_calls == 1 && gq_m == M_clear && out[4] == 0 && out[5] == 0 && g_tc_calls == 2 && out[10] == 0 && out[11] == 0))
__CPROVER_ensures(AUTO || (gq_calls == 0 && out[4] == nrt && out[5] == nct))
ENS_INVALIDATED
#else
/* C07: in real-only mode a rational modifier returns before touching anything (there is no rational LP) */
__CPROVER_ensures(!ONLYREAL || NOTHING)
__CPROVER_ensures(ONLYREAL || (gq_calls == 1 && gq_m == M_clear && out[4] == 0 && out[5] == 0 && g_tc_calls == 2 && g_lu_clear == 1 && out[10] == 0 && out[11] == 0))
__CPROVER_ensures(!AUTO || (gr_calls == 1 && gr_m == M_clear && out[0] == 0 && out[8] == 0 && out[9] == 0))
__CPROVER_ensures(AUTO || gr_calls == 0)
ENS_INVALIDATED_UNLESS(ONLYREAL)
#endif
;
