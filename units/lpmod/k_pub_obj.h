/* PUBLIC REAL objective: changeObjReal(int i, const R&) / changeObjReal(const VectorBase<R>&): goes to _realLP directly. */
void w_lpmod(PARAMS)
REQ_STATE
REQ_CONSISTENT
#ifdef VEC
__CPROVER_requires(n == nc)
#else
__CPROVER_requires(0 <= i && i < nc && FINITE(v1))
#endif
__CPROVER_assigns(ASSIGNS_GHOSTS)
#ifdef VEC
__CPROVER_ensures(gr_calls == 1 && gr_m == CODE && gr_pd1 == vec1 && gr_pq1 == 0 && gr_n == n && gr_scale == scaled && gi_calls == 0)
__CPROVER_ensures(!AUTO || (gq_calls == 1 && gq_m == CODE && gq_pd1 == vec1 && gq_pq1 == 0 && gq_n == n && gq_scale == 0))
#else
__CPROVER_ensures(gr_calls == 1 && gr_m == CODE && gr_i == i && gr_v1 == v1 && gr_scale == scaled && gi_calls == 0)
__CPROVER_ensures(!AUTO || (gq_calls == 1 && gq_m == CODE && gq_i == i && gq_v1 == TORAT(v1) && gq_scale == 0))
#endif
__CPROVER_ensures(AUTO || gq_calls == 0)
ENS_INVALIDATED
__CPROVER_ensures(out[0] == hasBasis && out[4] == nrt && out[5] == nct && out[10] == qnr && out[11] == qnc && g_lu_clear == 0)
;
