/* PUBLIC REAL: removeRowReal(int i) (ISROW) / removeColReal(int i): swap-with-last renumbering of the type array. */
void w_lpmod(PARAMS)
REQ_STATE
REQ_CONSISTENT
__CPROVER_requires(0 <= i && i < DIM)
__CPROVER_requires((!INR(g_k, NTYPES) || v_old == TYPES[g_k]) && (NTYPES == 0 || v_old2 == TYPES[NTYPES - 1]))
__CPROVER_assigns(ASSIGNS_GHOSTS, ARR(TYPES))
__CPROVER_ensures(gi_calls == 1 && gi_m == CODE && gi_i == i && gr_calls == 0)
__CPROVER_ensures(!AUTO || (gq_calls == 1 && gq_m == CODE && gq_i == i))
__CPROVER_ensures(AUTO || gq_calls == 0)
/* the last row/column takes the place of the removed one; the array shrinks by one */
__CPROVER_ensures(OUT_NTYPES == (AUTO ? NTYPES - 1 : NTYPES))
__CPROVER_ensures(!AUTO || !INR(g_k, NTYPES - 1) || TYPES[g_k] == (g_k == i ? v_old2 : v_old))
__CPROVER_ensures(AUTO || !INR(g_k, NTYPES) || TYPES[g_k] == v_old)
ENS_INVALIDATED
;
