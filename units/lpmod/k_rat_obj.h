/* PUBLIC RATIONAL objective: changeObjRational(int i, const Rational&) (+ GMP twin) / changeObjRational(const VectorRational&).
 * Includes: the real LP is handed its own scale flag (as changeObjReal and every internal twin do; without it: fixed defect C). */
void w_lpmod(PARAMS)
REQ_STATE
REQ_CONSISTENT
#ifdef VEC
__CPROVER_requires(ONLYREAL || n == qnc)
#else
__CPROVER_requires(ONLYREAL || (0 <= i && i < qnc && QOK(w1)))
#endif
__CPROVER_assigns(ASSIGNS_GHOSTS)
__CPROVER_ensures(!ONLYREAL || NOTHING)
#ifdef VEC
__CPROVER_ensures(ONLYREAL || (gq_calls == 1 && gq_m == CODE && gq_pq1 == qvec1 && gq_pd1 == 0 && gq_n == n && gi_calls == 0))
__CPROVER_ensures(!AUTO || (gr_calls == 1 && gr_m == CODE && gr_pq1 == qvec1 && gr_pd1 == 0 && gr_n == n))
#else
__CPROVER_ensures(ONLYREAL || (gq_calls == 1 && gq_m == CODE && gq_i == i && gq_v1 == w1 && gi_calls == 0))
__CPROVER_ensures(!AUTO || (gr_calls == 1 && gr_m == CODE && gr_i == i && gr_v1 == TOREAL(w1)))
#endif
__CPROVER_ensures(!AUTO || gr_scale == scaled)
__CPROVER_ensures(AUTO || gr_calls == 0)
ENS_INVALIDATED_UNLESS(ONLYREAL)
__CPROVER_ensures(out[0] == hasBasis && out[4] == nrt && out[5] == nct && out[8] == nr && out[9] == nc && g_lu_clear == 0)
;
