/* PUBLIC REAL: changeRowReal(int i, lprow) (ISROW) / changeColReal(int i, lpcol).
 * Types: classification of the new RATIONAL sides/bounds, any admissible INFTY (see k_pub_side2.h). */
void w_lpmod(PARAMS)
REQ_STATE
REQ_CONSISTENT
__CPROVER_requires(0 <= i && i < DIM && FINITE(v1) && FINITE(v2) && FINITE(v3))
__CPROVER_requires(!INR(g_k, NTYPES) || v_old == TYPES[g_k])
__CPROVER_assigns(ASSIGNS_GHOSTS, ARR(TYPES))
#ifdef ISROW
__CPROVER_ensures(gi_calls == 1 && gi_m == CODE && gi_i == i && gi_v1 == v1 && gi_v2 == v2 && gi_tag == vtag && gi_conv == 0 && gr_calls == 0)
__CPROVER_ensures(!AUTO || (gq_calls == 1 && gq_m == CODE && gq_i == i && gq_v1 == TORAT(v1) && gq_v2 == TORAT(v2) && gq_tag == vtag && gq_conv == 1 && gq_scale == 0))
#else
__CPROVER_ensures(gi_calls == 1 && gi_m == CODE && gi_i == i && gi_v1 == v1 && gi_v2 == v2 && gi_v3 == v3 && gi_tag == vtag && gi_conv == 0 && gr_calls == 0)
__CPROVER_ensures(!AUTO || (gq_calls == 1 && gq_m == CODE && gq_i == i && gq_v1 == TORAT(v1) && gq_v2 == TORAT(v2) && gq_v3 == TORAT(v3) && gq_tag == vtag && gq_conv == 1 && gq_scale == 0))
#endif
__CPROVER_ensures(!AUTO || (TYPES[i] == RT_Q(TORAT(v1), TORAT(v2)) && g_complete_calls == 1 && g_complete_seq > gq_seq))
__CPROVER_ensures(AUTO || (gq_calls == 0 && g_complete_calls == 0))
__CPROVER_ensures(!INR(g_k, NTYPES) || (AUTO && g_k == i) || TYPES[g_k] == v_old)
ENS_INVALIDATED
__CPROVER_ensures(out[4] == nrt && out[5] == nct && out[10] == qnr && out[11] == qnc)
;
