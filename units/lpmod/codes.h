/* Method codes recorded by the ghost-recording stubs (shared by unit.cpp and contract.c). */
#ifndef LPMOD_CODES_H
#define LPMOD_CODES_H
#define M_none          0
#define M_addRow        1
#define M_addRows       2
#define M_addCol        3
#define M_addCols       4
#define M_changeRow     5
#define M_changeCol     6
#define M_changeLhs_i   7
#define M_changeLhs_v   8
#define M_changeRhs_i   9
#define M_changeRhs_v   10
#define M_changeRange_i 11
#define M_changeRange_v 12
#define M_changeLower_i 13
#define M_changeLower_v 14
#define M_changeUpper_i 15
#define M_changeUpper_v 16
#define M_changeBounds_i 17
#define M_changeBounds_v 18
#define M_changeObj_i   19
#define M_changeObj_v   20
#define M_changeElement 21
#define M_removeRow     22
#define M_removeRows    23
#define M_removeCol     24
#define M_removeCols    25
#define M_clear         26
#define M_addRow3       27   /* addRow(lhs, vector, rhs) */
#define M_addCol4       28   /* addCol(obj, lower, vector, upper) */
#define M_removeRowsIdx 29   /* SoPlexBase::removeRowsReal/Rational(int perm[]) reached from the idx/range variants */
#define M_removeColsIdx 30
#define M_addRow_gmp    31   /* addRow(const mpq_t* lhs, values, indices, size, const mpq_t* rhs) */
#define M_addCol_gmp    32
#endif
