#!/usr/bin/env python3
"""Generator for units/lpmod/unit.json (and the lpmod instance lists in props/C06|C07|C11.json; entries of other
units in those files are preserved).

The TABLE below has one entry per function under contract.  Re-run after changing it:
    python3 units/lpmod/gen.py
"""
import json
import os
import re

HERE = os.path.dirname(os.path.abspath(__file__))
VERIF = os.path.dirname(os.path.dirname(HERE))
SRC = "src/soplex.hpp"


def sigre(sig):
    """C++ signature text -> whitespace-tolerant regex (parameter names included => drift is detected)."""
    toks = re.findall(r"[A-Za-z_0-9]+|\S", sig)
    out = ""
    for a, b in zip(toks, toks[1:] + [""]):
        out += re.escape(a)
        if b:
            out += r"\s+" if (re.match(r"\w", a[-1]) and re.match(r"\w", b[0])) else r"\s*"
    return out


def slice_of(name, sig, must=None, file=SRC):
    d = {"as": name + ".inc", "file": file, "sig": sigre(sig)}
    if must:
        d["must_contain"] = must
    return d


P = "SoPlexBase<R>::"
HELPERS = [
    slice_of("intParam", "int " + P + "intParam(const IntParam param) const", ["_intParamValues\\[param\\]"]),
    slice_of("realParam", "Real " + P + "realParam(const RealParam param) const", ["_realParamValues\\[param\\]"]),
    slice_of("numRows", "int " + P + "numRows() const"),
    slice_of("numCols", "int " + P + "numCols() const"),
    slice_of("numRowsRational", "int " + P + "numRowsRational() const"),
    slice_of("numColsRational", "int " + P + "numColsRational() const"),
    slice_of("lhsReal", "R " + P + "lhsReal(int i) const", ["lhsUnscaled\\(i\\)"]),
    slice_of("rhsReal", "R " + P + "rhsReal(int i) const", ["rhsUnscaled\\(i\\)"]),
    slice_of("lowerReal", "R " + P + "lowerReal(int i) const", ["lowerUnscaled\\(i\\)"]),
    slice_of("upperReal", "R " + P + "upperReal(int i) const", ["upperUnscaled\\(i\\)"]),
    slice_of("lhsRational", "const Rational& " + P + "lhsRational(int i) const", ["_rationalLP->lhs\\(i\\)"]),
    slice_of("rhsRational", "const Rational& " + P + "rhsRational(int i) const", ["_rationalLP->rhs\\(i\\)"]),
    slice_of("lowerRational", "const Rational& " + P + "lowerRational(int i) const", ["_rationalLP->lower\\(i\\)"]),
    slice_of("upperRational", "const Rational& " + P + "upperRational(int i) const", ["_rationalLP->upper\\(i\\)"]),
    slice_of("objRational", "Rational " + P + "objRational(int i) const", ["_rationalLP->obj\\(i\\)"]),
    slice_of("maxObjRational", "const Rational& " + P + "maxObjRational(int i) const", ["_rationalLP->maxObj\\(i\\)"]),
    slice_of("_rangeTypeReal", "typename SoPlexBase<R>::RangeType " + P + "_rangeTypeReal(const R& lower, const R& upper) const"),
    slice_of("_rangeTypeRational", "typename SoPlexBase<R>::RangeType " + P + "_rangeTypeRational(const Rational& lower, const Rational& upper) const"),
    slice_of("_invalidateSolution", "void " + P + "_invalidateSolution()", ["_hasSolReal = false", "_hasSolRational = false"]),
]

EXTRACTS = [
    {"as": "IntParam.inc", "file": "src/soplex.h", "regex": r"typedef enum\s*\{[^{}]*\}\s*IntParam;"},
    {"as": "RealParam.inc", "file": "src/soplex.h", "regex": r"typedef enum\s*\{[^{}]*\}\s*RealParam;"},
    {"as": "OBJSENSE.inc", "file": "src/soplex.h", "regex": r"enum\s*\{[^{}]*OBJSENSE_MINIMIZE[^{}]*\};"},
    {"as": "SYNCMODE.inc", "file": "src/soplex.h", "regex": r"enum\s*\{[^{}]*SYNCMODE_ONLYREAL[^{}]*\};"},
    {"as": "RangeType.inc", "file": "src/soplex.h", "regex": r"typedef enum\s*\{[^{}]*RANGETYPE_FREE[^{}]*\}\s*RangeType;"},
    {"as": "VarStatus.inc", "file": "src/soplex/spxsolver.h", "regex": r"enum VarStatus\s*\{[^{}]*\};"},
    {"as": "Status.inc", "file": "src/soplex/spxsolver.h", "regex": r"enum Status\s*\{[^{}]*\};"},
    {"as": "SPxStatus.inc", "file": "src/soplex/spxbasis.h", "regex": r"enum SPxStatus\s*\{[^{}]*\};"},
]
CONSTANTS = [
    {"name": "K_REAL_INFINITY", "file": "src/soplex/spxdefines.h",
     "regex": r"typedef double Real;.*?#define\s+SOPLEX_DEFAULT_INFINITY\s+(\S+)"},
    {"name": "K_STATUS_UNKNOWN", "file": "src/soplex/spxsolver.h", "regex": r"enum Status\s*\{[^{}]*?\bUNKNOWN\s*=\s*(-?\d+)"},
    {"name": "K_BASIS_NO_PROBLEM", "file": "src/soplex/spxbasis.h", "regex": r"enum SPxStatus\s*\{[^{}]*?\bNO_PROBLEM\s*=\s*(-?\d+)"},
]
CONFORMANCE = [
    {"file": "src/soplex/spxdefines.cpp", "regex": r"const Real infinity\s*=\s*SOPLEX_DEFAULT_INFINITY;",
     "why": "the global `infinity` used by _rangeTypeReal is SOPLEX_DEFAULT_INFINITY"},
    {"file": "src/soplex.hpp", "regex": r"case SoPlexBase<R>::INFTY:\s*#ifdef SOPLEX_WITH_BOOST\s*_rationalPosInfty = value;.*?_rationalNegInfty = value;\s*_rationalNegInfty = -_rationalNegInfty;",
     "why": "_rationalNegInfty == -_rationalPosInfty (wrapper builds the pair from one number)"},
    {"file": "src/soplex.hpp", "regex": r"lower\[SoPlexBase<R>::INFTY\] = 1e10;\s*upper\[SoPlexBase<R>::INFTY\] = 1e100;",
     "why": "range of the parameter INFTY assumed by the contracts"},
    {"file": "src/soplex/spxlpbase.h", "regex": r"virtual void changeLhs\(int i, const R& newLhs, bool scale = false\)",
     "why": "LP stub signature: changeLhs(i, value, scale)"},
    {"file": "src/soplex/spxlpbase.h", "regex": r"virtual void changeRange\(int i, const R& newLhs, const R& newRhs, bool scale = false\)",
     "why": "LP stub signature: changeRange(i, lhs, rhs, scale)"},
    {"file": "src/soplex/spxlpbase.h", "regex": r"virtual void changeBounds\(int i, const R& newLower, const R& newUpper, bool scale = false\)",
     "why": "LP stub signature: changeBounds(i, lower, upper, scale)"},
    {"file": "src/soplex/spxlpbase.h", "regex": r"virtual void changeElement\(int i, int j, const R& val, bool scale = false\)",
     "why": "LP stub signature: changeElement(row, col, value, scale)"},
    {"file": "src/soplex/spxlpbase.h", "regex": r"virtual void addCol\(const R& objValue, const R& lowerValue, const SVectorBase<R>& colVec,\s*const R& upperValue, bool scale = false\)",
     "why": "LP stub signature: addCol(obj, lower, vector, upper, scale)"},
    {"file": "src/soplex/spxlpbase.h", "regex": r"virtual void addRow\(const R& lhsValue, const SVectorBase<R>& rowVec, const R& rhsValue,\s*bool scale = false\)",
     "why": "LP stub signature: addRow(lhs, vector, rhs, scale)"},
    {"file": "src/soplex/lpcolbase.h", "regex": r"LPColBase\(const R& p_obj, const SVectorBase<R>& p_vector, const R& p_upper, const R& p_lower\)",
     "why": "LPColBase field meaning"},
    {"file": "src/soplex/spxlpbase.h", "regex": r"void addCol\(const S\* objValue, const S\* lowerValue, const S\* colValues, const int\* colIndices,\s*int colSize, const S\* upperValue\)\s*\{.*?if\(thesense != MAXIMIZE\)\s*LPColSetBase<R>::maxObj_w\(idx\) \*= -1;",
     "why": "GMP addCol: parameter order, and the objective is stored for maximization (model: maxObj = sense == MAXIMIZE ? obj : -obj)"},
    {"file": "src/soplex/spxlpbase.h", "regex": r"void addRow\(const S\* lhsValue, const S\* rowValues, const int\* rowIndices, int rowSize,\s*const S\* rhsValue\)",
     "why": "GMP addRow: parameter order"},
    {"file": "src/soplex.hpp", "regex": r"case SYNCMODE_ONLYREAL:\s*if\(_rationalLP != nullptr\)\s*\{\s*_rationalLP->~SPxLPRational\(\);\s*spx_free\(_rationalLP\);",
     "why": "real-only mode has no rational LP (wrapper passes _rationalLP == nullptr)"},
    {"file": "src/soplex/dataset.h", "regex": r"if\(perm\[k\] >= 0\)\s*// j has not been removed ...\s*perm\[k\] = j\+\+;",
     "why": "DataSet::remove(int perm[]) is an order-preserving compaction that leaves negative marks untouched (LP stub removeRows/removeCols)"},
    {"file": "src/soplex/spxlpbase.h", "regex": r"template < class S >\s*void changeLhs\(int i, const S\* newLhs\)\s*\{\s*LPRowSetBase<R>::lhs_w\(i\) = \*newLhs;",
     "why": "GMP entry points: changeLhs(i, const S*) stores *newLhs verbatim"},
]

TRUSTED = [
    "R = double (CBMC's IEEE model).  Rational = ordered-group long long; Rational(double) is modelled by the exact order embedding 'sign-magnitude bit pattern' (injective, monotone, -0.0 == 0.0), i.e. exactness of boost's double->rational conversion is trusted; R(Rational) is an uninterpreted function (arbitrary rounding, never NaN)",
    "real arguments are finite doubles (no NaN, no IEEE infinities: SoPlex represents infinity by +-1e100); rational arguments lie inside the image of the finite doubles",
    "_realLP / _rationalLP are executable LP models: each side/bound vector is an array view plus one scalar override plus one appended segment, nRows/nCols counters; every mutator records its arguments in ghost globals and updates the model; lhsUnscaled/rhsUnscaled/lowerUnscaled/upperUnscaled return the user-space value (scaling itself is C09)",
    "LP model: addRow/addCol add exactly one row/column (no implicit creation of columns/rows by out-of-range indices); removeRow(i)/removeCol(i) decrement the count (swap-with-last renumbering of SPxLPBase::doRemoveRow/doRemoveCol); removeRows(perm)/removeCols(perm) are the order-preserving compaction of DataSet::remove(int perm[]) (conformance-checked text), its loop completely unwound",
    "vectors (VectorBase, LPRowSet/LPColSet side arrays) are views of a raw array: converting a vector to the other number type copies the pointer and converts elements on read; sparse row/column vectors are opaque tags (their element-wise conversion is counted, not performed)",
    "internal twins _xxxReal are ghost-recording stubs inside the public instances and are put under contract themselves in the int_* instances; _completeRangeTypesRational, _idxToPerm, _rangeToPerm likewise (aux_* instances)",
    "DataArray model: raw array of 2*CAP+2 cells handed in by the wrapper; append/reSize/removeLast assert that they stay within it (CAP bounds object sizes only, except where an instance says 'completely unwound')",
    "SoPlexBase::_isConsistent() relations are preconditions: |_rowTypes| == numRowsRational, |_colTypes| == numColsRational, and under SYNCMODE_AUTO both LPs have equal dimensions; when !_isRealLPLoaded && _hasBasis the basis status arrays have the real LP's dimensions",
    "_solver.basis().status() is an arbitrary SPxBasisBase::SPxStatus input; that _realLP == &_solver when _isRealLPLoaded (virtual dispatch to the solver's overrides) is not modelled: the contracts state what is forwarded to _realLP",
    "in SYNCMODE_ONLYREAL there is no rational LP (_rationalLP == nullptr: setIntParam(SYNCMODE, ONLYREAL) frees it, conformance-checked); in the other modes it exists",
    "objective sense of both LP models == (intParam(OBJSENSE) == OBJSENSE_MAXIMIZE); maxObj(i) = sense == MAXIMIZE ? obj(i) : -obj(i) (SPxLPBase stores the objective for maximization)",
    "GMP entry points: mpq_t is modelled as a one-element array of a struct holding the rational model value; Rational(mpq) copies it verbatim; an array of mpq_t has the layout of the rational array; DSVectorBase<R>(v) is the converting copy of the opaque sparse-vector tag",
    "assert() compiled out (NDEBUG semantics)",
]

DEFAULT_FLAGS = ["--bounds-check", "--pointer-check", "--object-bits", "10"]
# loops inside STUBS (model code, bounded by CAP): completely unwound with unwinding assertions
STUB_LOOPS = [
    {"function": r"SPxLPBase<.*>::remove(Rows|Cols)\(this,ptr_signed_int\)", "loop": 0},
    {"function": r"DataArray<.*>::append\(this,signed_int,.*\)", "loop": 0},
]
UNWIND = 8   # CAP + 2


class T:
    """table accumulator"""
    rows = []


def inst(name, function, sig, kind, prologue, defines=None, props=("C06", "C07"), loops=None, mutants=None,
         must=None, tier="quick", extra_slices=None, unwind=None, unwind_loops=None, ret=None, minob=300, finding=False):
    d = {"SLICE": '"%s.inc"' % name, "KINDFILE": '"k_%s.h"' % kind, "PROLOGUE": prologue or ";"}
    if ret:
        d["RET"] = ret
        d["RET_INT"] = ""
    d.update(defines or {})
    for slot in re.findall(r"\ba_(?:vr1|vr2|vq1|vq2|rowr|rowq|colr|colq|rsetr|rsetq|csetr|csetq|svr|m1|m2)\b", prologue or ""):
        d["NEED_" + slot] = ""
    e = {"name": name, "function": function, "defines": d,
         "slices": HELPERS + (extra_slices or []) + [slice_of(name, sig, must)],
         "min_obligations": minob, "tier": tier, "mutants": mutants or []}
    if loops:
        e["loops"] = loops
    if unwind_loops:
        e["unwind_loops"] = STUB_LOOPS + unwind_loops
    T.rows.append((e, props, finding))


def mut(name, slice_name, find, replace, regex=False):
    m = {"name": name, "slice": slice_name + ".inc", "find": find, "replace": replace}
    if regex:
        m["regex"] = True
    return m


SYNC_MUT = ("== SYNCMODE_AUTO", "== SYNCMODE_MANUAL")

# ------------------------------------------------------------------------------------------------
# PUBLIC REAL modifiers
# ------------------------------------------------------------------------------------------------
for fn, code, isrow, low, arg in [("changeLhsReal", "M_changeLhs_i", True, True, "lhs"),
                                  ("changeRhsReal", "M_changeRhs_i", True, False, "rhs"),
                                  ("changeLowerReal", "M_changeLower_i", False, True, "lower"),
                                  ("changeUpperReal", "M_changeUpper_i", False, False, "upper")]:
    d = {"CODE": code}
    if isrow:
        d["ISROW"] = ""
    if low:
        d["CHG_LOW"] = ""
    nm = "pub_" + fn + "_i"
    typ = "_rowTypes" if isrow else "_colTypes"
    inst(nm, "SoPlexBase<R>::%s(int i, const R& %s)" % (fn, arg),
         "void " + P + "%s(int i, const R& %s)" % (fn, arg), "pub_side1",
         "int i = a_i; const R& %s = a_r1;" % arg, d,
         must=[r"_invalidateSolution\(\)", typ + r"\[i\] = _rangeTypeRational"],
         mutants=[mut("no_sync", nm, *SYNC_MUT),
                  mut("wrong_index", nm, typ + "[i] =", typ + "[0] ="),
                  mut("no_invalidate", nm, "_invalidateSolution();", ";")])



def ghostmap():
    m = {}
    for line in open(os.path.join(HERE, "ghosts.h")):
        mm = re.match(r"#define (\w+) (\w+\[\d+\])", line)
        if mm:
            m[mm.group(1)] = mm.group(2)
    return m


GM = ghostmap()
CAP = 6
ACAP = 2 * CAP + 2


def tr(expr):
    """translate ghost names (macros in ghosts.h) inside loop contracts, which are not preprocessed"""
    expr = re.sub(r"ARR\((\w+)\)", lambda mo: "__CPROVER_object_upto(%s, %d)" % (mo.group(1), ACAP * 4), expr)
    return re.sub(r"\b(\w+)\b", lambda mo: GM.get(mo.group(1), mo.group(1)), expr)


def loop(n, locs, invs, assigns, decreases, fn=r"H::body\(this\)"):
    return {"function": fn, "loop": n, "locals": locs, "invariants": [tr(x) for x in invs],
            "assigns": [tr(x) for x in assigns], "decreases": tr(decreases)}


def types_loop(n, isrow, var="i"):
    """for(i = 0; i < numXxxRational(); i++) _types[i] = ...   at the ghost index g_k"""
    gp = "gp_rowTypes" if isrow else "gp_colTypes"
    dim = "g_qnr" if isrow else "g_qnc"
    return loop(n, [var], ["0 <= %s && %s <= %s" % (var, var, dim),
                           "(g_k < 0 || g_k >= %s) || ((g_k < %s) ? %s[g_k] == v_exp : %s[g_k] == v_old)" % (dim, var, gp, gp)],
                [var, "ARR(%s)" % gp], "%s - %s" % (dim, var))


# text of the classification of the NEW RATIONAL bounds in the both-sides real modifiers
QCLASS = {True: "_rangeTypeRational(_rationalLP->lhs(i), _rationalLP->rhs(i))", False: "_rangeTypeRational(_rationalLP->lower(i), _rationalLP->upper(i))"}
QCLASS_SWAPPED = {True: "_rangeTypeRational(_rationalLP->rhs(i), _rationalLP->lhs(i))", False: "_rangeTypeRational(_rationalLP->upper(i), _rationalLP->lower(i))"}

for fn, code, isrow, low, arg in [("changeRangeReal", "M_changeRange_i", True, None, ("lhs", "rhs")),
                                  ("changeBoundsReal", "M_changeBounds_i", False, None, ("lower", "upper"))]:
    d = {"CODE": code}
    if isrow:
        d["ISROW"] = ""
    nm = "pub_" + fn + "_i"
    typ = "_rowTypes" if isrow else "_colTypes"
    # (the instance names keep the suffix under which defect B was found and is recorded in known_findings.json)
    for variant in ("_anyinfty",):
        inst(nm + variant, "SoPlexBase<R>::%s(int i, const R& %s, const R& %s)  [any INFTY in [1e10, 1e100]]" % (fn, arg[0], arg[1]),
             "void " + P + "%s(int i, const R& %s, const R& %s)" % (fn, arg[0], arg[1]), "pub_side2",
             "int i = a_i; const R& %s = a_r1; const R& %s = a_r2;" % arg, dict(d),
             must=[r"_invalidateSolution\(\)", typ + r"\[i\] = _rangeTypeRational"],
             mutants=[mut("no_sync", nm + variant, *SYNC_MUT),
                      mut("swap_args", nm + variant, QCLASS[isrow], QCLASS_SWAPPED[isrow]),
                      mut("wrong_index", nm + variant, typ + "[i] =", typ + "[0] ="),
                      # defect B re-introduced (reverse of 8abbce4): classification against the real threshold 1e100
                      mut("defect_B_real_threshold", nm + variant, QCLASS[isrow], "_rangeTypeReal(%s, %s)" % arg)])

for fn, code, isrow, low, arg in [("changeLhsReal", "M_changeLhs_v", True, True, "lhs"),
                                  ("changeRhsReal", "M_changeRhs_v", True, False, "rhs"),
                                  ("changeLowerReal", "M_changeLower_v", False, True, "lower"),
                                  ("changeUpperReal", "M_changeUpper_v", False, False, "upper")]:
    d = {"CODE": code}
    if isrow:
        d["ISROW"] = ""
    if low:
        d["CHG_LOW"] = ""
    nm = "pub_" + fn + "_v"
    typ = "_rowTypes" if isrow else "_colTypes"
    inst(nm, "SoPlexBase<R>::%s(const VectorBase<R>& %s)" % (fn, arg),
         "void " + P + "%s(const VectorBase<R>& %s)" % (fn, arg), "pub_vec1",
         "const VectorBase<R>& %s = *a_vr1;" % arg, d,
         must=[r"_invalidateSolution\(\)", typ + r"\[i\] = _rangeTypeRational"],
         loops=[types_loop(0, isrow)],
         mutants=[mut("no_sync", nm, *SYNC_MUT),
                  mut("off_by_one", nm, "int i = 0;", "int i = 1;"),
                  mut("no_invalidate", nm, "_invalidateSolution();", ";")])

for fn, code, isrow, arg in [("changeRangeReal", "M_changeRange_v", True, ("lhs", "rhs")),
                             ("changeBoundsReal", "M_changeBounds_v", False, ("lower", "upper"))]:
    d = {"CODE": code}
    if isrow:
        d["ISROW"] = ""
    nm = "pub_" + fn + "_v"
    typ = "_rowTypes" if isrow else "_colTypes"
    for variant in ("_anyinfty",):
        inst(nm + variant, "SoPlexBase<R>::%s(const VectorBase<R>& %s, const VectorBase<R>& %s)  [any INFTY in [1e10, 1e100]]" % (fn, arg[0], arg[1]),
             "void " + P + "%s(const VectorBase<R>& %s, const VectorBase<R>& %s)" % (fn, arg[0], arg[1]), "pub_vec2",
             "const VectorBase<R>& %s = *a_vr1; const VectorBase<R>& %s = *a_vr2;" % arg, dict(d),
             must=[typ + r"\[i\] = _rangeTypeRational"], loops=[types_loop(0, isrow)],
             mutants=[mut("no_sync", nm + variant, *SYNC_MUT),
                      mut("swap_args", nm + variant, QCLASS[isrow], QCLASS_SWAPPED[isrow]),
                      mut("off_by_one", nm + variant, "int i = 0;", "int i = 1;"),
                      mut("defect_B_real_threshold", nm + variant, QCLASS[isrow], "_rangeTypeReal(%s[i], %s[i])" % arg)])

inst("pub_changeObjReal_i", "SoPlexBase<R>::changeObjReal(int i, const R& obj)", "void " + P + "changeObjReal(int i, const R& obj)", "pub_obj",
     "int i = a_i; const R& obj = a_r1;", {"CODE": "M_changeObj_i"},
     mutants=[mut("no_sync", "pub_changeObjReal_i", *SYNC_MUT), mut("no_scale", "pub_changeObjReal_i", "changeObj(i, obj, scale)", "changeObj(i, obj)")])
inst("pub_changeObjReal_v", "SoPlexBase<R>::changeObjReal(const VectorBase<R>& obj)", "void " + P + "changeObjReal(const VectorBase<R>& obj)", "pub_obj",
     "const VectorBase<R>& obj = *a_vr1;", {"CODE": "M_changeObj_v", "VEC": ""},
     mutants=[mut("no_sync", "pub_changeObjReal_v", *SYNC_MUT), mut("no_invalidate", "pub_changeObjReal_v", "_invalidateSolution();", ";")])
inst("pub_changeElementReal", "SoPlexBase<R>::changeElementReal(int i, int j, const R& val)", "void " + P + "changeElementReal(int i, int j, const R& val)", "pub_elem",
     "int i = a_i; int j = a_j; const R& val = a_r1;",
     mutants=[mut("no_sync", "pub_changeElementReal", *SYNC_MUT), mut("swap_ij", "pub_changeElementReal", "_rationalLP->changeElement(i, j, val)", "_rationalLP->changeElement(j, i, val)")])

for fn, shape, code, ptype, pname, slot in [("addRowReal", "ADD_ROW", "M_addRow", "LPRowBase<R>", "lprow", "a_rowr"),
                                            ("addColReal", "ADD_COL", "M_addCol", "LPColBase<R>", "lpcol", "a_colr"),
                                            ("addRowsReal", "ADD_ROWS", "M_addRows", "LPRowSetBase<R>", "lprowset", "a_rsetr"),
                                            ("addColsReal", "ADD_COLS", "M_addCols", "LPColSetBase<R>", "lpcolset", "a_csetr")]:
    nm = "pub_" + fn
    inst(nm, "SoPlexBase<R>::%s(const %s& %s)" % (fn, ptype, pname), "void " + P + "%s(const %s& %s)" % (fn, ptype, pname), "pub_add",
         "const %s& %s = *%s;" % (ptype, pname, slot), {shape: "", "CODE": code},
         must=[r"_completeRangeTypesRational\(\)"],
         mutants=[mut("no_sync", nm, *SYNC_MUT), mut("no_complete", nm, "_completeRangeTypesRational();", ";")])

for fn, isrow, code, ptype, pname, slot in [("changeRowReal", True, "M_changeRow", "LPRowBase<R>", "lprow", "a_rowr"),
                                            ("changeColReal", False, "M_changeCol", "LPColReal", "lpcol", "a_colr")]:
    nm = "pub_" + fn
    typ = "_rowTypes" if isrow else "_colTypes"
    for variant in ("_anyinfty",):
        dd = {"CODE": code}
        if isrow:
            dd["ISROW"] = ""
        realargs = "lprow.lhs(), lprow.rhs()" if isrow else "lpcol.lower(), lpcol.upper()"
        inst(nm + variant, "SoPlexBase<R>::%s(int i, const %s& %s)  [any INFTY in [1e10, 1e100]]" % (fn, ptype, pname),
             "void " + P + "%s(int i, const %s& %s)" % (fn, ptype, pname), "pub_chg",
             "int i = a_i; const %s& %s = *%s;" % (ptype, pname, slot), dd,
             must=[typ + r"\[i\] = _rangeTypeRational"],
             mutants=[mut("no_sync", nm + variant, *SYNC_MUT), mut("wrong_index", nm + variant, typ + "[i] =", typ + "[0] ="),
                      mut("swap_args", nm + variant, QCLASS[isrow], QCLASS_SWAPPED[isrow]),
                      mut("defect_B_real_threshold", nm + variant, QCLASS[isrow], "_rangeTypeReal(%s)" % realargs)])

for fn, isrow, code in [("removeRowReal", True, "M_removeRow"), ("removeColReal", False, "M_removeCol")]:
    nm = "pub_" + fn
    typ = "_rowTypes" if isrow else "_colTypes"
    dd = {"CODE": code}
    if isrow:
        dd["ISROW"] = ""
    inst(nm, "SoPlexBase<R>::%s(int i)" % fn, "void " + P + "%s(int i)" % fn, "pub_rm1", "int i = a_i;", dd,
         must=[typ + r"\.reSize\("],
         mutants=[mut("no_sync", nm, *SYNC_MUT), mut("no_resize", nm, typ + ".reSize(", "(void)("),
                  mut("no_swap", nm, typ + "[i] = ", typ + "[0] = ")])

BODY = r"H::body\(this\)"
for fn, isrow, code in [("removeRowsReal", True, "M_removeRows"), ("removeColsReal", False, "M_removeCols")]:
    nm = "pub_" + fn + "_perm"
    typ = "_rowTypes" if isrow else "_colTypes"
    dd = {"CODE": code}
    if isrow:
        dd["ISROW"] = ""
    inst(nm, "SoPlexBase<R>::%s(int perm[])  [bounded: <= CAP rows/columns, loops unwound]" % fn, "void " + P + "%s(int perm[])" % fn, "pub_rmperm",
         "int* perm = a_perm;", dd, unwind_loops=[{"function": BODY, "loop": 0}, {"function": BODY, "loop": 1}],
         mutants=[mut("no_sync", nm, *SYNC_MUT), mut("no_resize", nm, typ + ".reSize(", "(void)("),
                  mut("wrong_guard", nm, "if(perm[i] >= 0)", "if(perm[i] > 0)")])

for fn, isrow, ppm, rng in [("removeRowsReal", True, 1, False), ("removeRowRangeReal", True, 1, True),
                            ("removeColsReal", False, 2, False), ("removeColRangeReal", False, 2, True),
                            ("removeRowsRational", True, 3, False), ("removeRowRangeRational", True, 3, True),
                            ("removeColsRational", False, 4, False), ("removeColRangeRational", False, 4, True)]:
    nm = ("rat_" if ppm > 2 else "pub_") + fn + ("" if rng else "_idx")
    dd = {"PPM": str(ppm), "DIMV": ("qnr" if isrow else "qnc") if ppm > 2 else ("nr" if isrow else "nc")}
    if rng:
        dd["RANGE"] = ""
        sg = "%s(int start, int end, int perm[])" % fn
        pro = "int start = a_i; int end = a_j; int* perm = a_perm;"
        m2 = mut("swap", nm, "_rangeToPerm(start, end, perm,", "_rangeToPerm(end, start, perm,")
    else:
        sg = "%s(int idx[], int n, int perm[])" % fn
        pro = "int* idx = a_idx; int n = a_n; int* perm = a_perm;"
        m2 = mut("wrong_n", nm, "_idxToPerm(idx, n, perm,", "_idxToPerm(idx, n - 1, perm,")
    other = {"removeRowsReal": "removeColsReal", "removeColsReal": "removeRowsReal", "removeRowsRational": "removeColsRational", "removeColsRational": "removeRowsRational"}
    callee = fn.replace("Range", "s")
    inst(nm, "SoPlexBase<R>::" + sg, "void " + P + sg, "pub_rmidx", pro, dd, props=("C06", "C07") if ppm > 2 else ("C06",),
         mutants=[m2, mut("wrong_callee", nm, "SoPlexBase<R>::%s(perm);" % callee, "SoPlexBase<R>::%s(perm);" % other[callee])])

inst("pub_clearLPReal", "SoPlexBase<R>::clearLPReal()", "void " + P + "clearLPReal()", "pub_clear", "", {}, props=("C06", "C07", "C11"),
     mutants=[mut("no_sync", "pub_clearLPReal", *SYNC_MUT), mut("no_lu_clear", "pub_clearLPReal", "_rationalLUSolver.clear();", ";"),
              mut("keep_basis", "pub_clearLPReal", "_hasBasis = false;", ";")])


# ------------------------------------------------------------------------------------------------
# INTERNAL twins _xxxReal, setBasis, clearBasis   (F1 basis bookkeeping, F3 = C11)
# ------------------------------------------------------------------------------------------------
IP = ("C06", "C11")
LU_MUT = ("_rationalLUSolver.clear();", ";")


def bs_loop_desc(n, isrow, var="i"):
    """for(i = numXxx() - 1; i >= 0; i--) patch _basisStatusXxx[i]   at the ghost index g_k"""
    gp = "gp_bsRows" if isrow else "gp_bsCols"
    dim = "g_nr" if isrow else "g_nc"
    return loop(n, [var], ["-1 <= %s && %s < %s" % (var, var, dim) + " || (%s == -1 && %s == 0)" % (var, dim),
                           "(g_k < 0 || g_k >= %s) || ((g_k > %s) ? %s[g_k] == v_exp : %s[g_k] == v_old)" % (dim, var, gp, gp)],
                [var, "ARR(%s)" % gp], "%s + 1" % var)


for fn, code, isrow, low, arg in [("_changeLhsReal", "M_changeLhs", True, True, "lhs"),
                                  ("_changeRhsReal", "M_changeRhs", True, False, "rhs"),
                                  ("_changeLowerReal", "M_changeLower", False, True, "lower"),
                                  ("_changeUpperReal", "M_changeUpper", False, False, "upper")]:
    d = {}
    if isrow:
        d["ISROW"] = ""
    if low:
        d["CHG_LOW"] = ""
    on = "ON_LOWER" if low else "ON_UPPER"
    other = "ON_UPPER" if low else "ON_LOWER"
    nm = "int" + fn + "_i"
    # *_fixedclause: OPEN known finding G (known_findings.json): fails on the current tree; registered in C06 only
    for variant, extra, finding in (("", {}, False), ("_fixedclause", {"CLAUSE_FIXED": ""}, True)):
        dd = dict(d, CODE=code + "_i")
        dd.update(extra)
        inst(nm + variant, "SoPlexBase<R>::%s(int i, const R& %s)%s" % (fn, arg, "  [+ clause: FIXED only with equal bounds; OPEN known finding]" if finding else ""),
             "void " + P + "%s(int i, const R& %s)" % (fn, arg), "int_side1", "int i = a_i; const R& %s = a_r1;" % arg, dd, props=("C06",) if finding else IP, finding=finding,
             must=[r"_rationalLUSolver\.clear\(\)"],
             mutants=[mut("no_lu_clear", nm + variant, *LU_MUT),
                      mut("keep_status", nm + variant, "== SPxSolverBase<R>::%s" % on, "== SPxSolverBase<R>::BASIC"),
                      mut("no_scale", nm + variant, ", scale);", ");")])
    nm = "int" + fn + "_v"
    inst(nm, "SoPlexBase<R>::%s(const VectorBase<R>& %s)" % (fn, arg), "void " + P + "%s(const VectorBase<R>& %s)" % (fn, arg), "int_vec1",
         "const VectorBase<R>& %s = *a_vr1;" % arg, dict(d, CODE=code + "_v"), props=IP, loops=[bs_loop_desc(0, isrow)],
         mutants=[mut("no_lu_clear", nm, *LU_MUT), mut("off_by_one", nm, " - 1; i >= 0", " - 1; i > 0"),
                  mut("wrong_status", nm, r"\?\s*SPxSolverBase<R>::%s" % other, "? SPxSolverBase<R>::%s" % on, regex=True)])

for fn, code, isrow, arg in [("_changeRangeReal", "M_changeRange", True, ("lhs", "rhs")), ("_changeBoundsReal", "M_changeBounds", False, ("lower", "upper"))]:
    d = {}
    if isrow:
        d["ISROW"] = ""
    nm = "int" + fn + "_i"
    inst(nm, "SoPlexBase<R>::%s(int i, const R& %s, const R& %s)" % (fn, arg[0], arg[1]),
         "void " + P + "%s(int i, const R& %s, const R& %s)" % (fn, arg[0], arg[1]), "int_side2",
         "int i = a_i; const R& %s = a_r1; const R& %s = a_r2;" % arg, dict(d, CODE=code + "_i"), props=IP,
         mutants=[mut("no_lu_clear", nm, *LU_MUT), mut("wrong_status", nm, r"\?\s*SPxSolverBase<R>::ON_UPPER", "? SPxSolverBase<R>::ON_LOWER", regex=True),
                  mut("no_else", nm, "else if(_basisStatus", "else if(false && _basisStatus")])
    nm = "int" + fn + "_v"
    inst(nm, "SoPlexBase<R>::%s(const VectorBase<R>& %s, const VectorBase<R>& %s)" % (fn, arg[0], arg[1]),
         "void " + P + "%s(const VectorBase<R>& %s, const VectorBase<R>& %s)" % (fn, arg[0], arg[1]), "int_vec2",
         "const VectorBase<R>& %s = *a_vr1; const VectorBase<R>& %s = *a_vr2;" % arg, dict(d, CODE=code + "_v"), props=IP,
         loops=[bs_loop_desc(0, isrow)],
         mutants=[mut("no_lu_clear", nm, *LU_MUT), mut("off_by_one", nm, " - 1; i >= 0", " - 1; i > 0"),
                  mut("wrong_status", nm, r"\?\s*SPxSolverBase<R>::ON_UPPER", "? SPxSolverBase<R>::ON_LOWER", regex=True)])

inst("int_addRowReal", "SoPlexBase<R>::_addRowReal(const LPRowBase<R>& lprow)", "void " + P + "_addRowReal(const LPRowBase<R>& lprow)", "int_add",
     "const LPRowBase<R>& lprow = *a_rowr;", {"ADD_ROW": "", "ISROW": "", "CODE": "M_addRow"}, props=IP,
     mutants=[mut("no_lu_clear", "int_addRowReal", *LU_MUT), mut("wrong_status", "int_addRowReal", "append(SPxSolverBase<R>::BASIC)", "append(SPxSolverBase<R>::ZERO)")])
inst("int_addRowReal3", "SoPlexBase<R>::_addRowReal(R lhs, const SVectorBase<R>& lprow, R rhs)", "void " + P + "_addRowReal(R lhs, const SVectorBase<R>& lprow, R rhs)", "int_add",
     "R lhs = a_r1; const SVectorBase<R>& lprow = *a_svr; R rhs = a_r2;", {"ADD_ROW3": "", "ISROW": "", "CODE": "M_addRow3"}, props=IP,
     mutants=[mut("no_lu_clear", "int_addRowReal3", *LU_MUT), mut("wrong_status", "int_addRowReal3", "append(SPxSolverBase<R>::BASIC)", "append(SPxSolverBase<R>::ZERO)")])
inst("int_addRowsReal", "SoPlexBase<R>::_addRowsReal(const LPRowSetBase<R>& lprowset)", "void " + P + "_addRowsReal(const LPRowSetBase<R>& lprowset)", "int_add",
     "const LPRowSetBase<R>& lprowset = *a_rsetr;", {"ADD_ROWS": "", "ISROW": "", "CODE": "M_addRows"}, props=IP,
     mutants=[mut("no_lu_clear", "int_addRowsReal", *LU_MUT), mut("wrong_count", "int_addRowsReal", "append(lprowset.num(),", "append(lprowset.num() - 1,")])
inst("int_addColReal", "SoPlexBase<R>::_addColReal(const LPColReal& lpcol)", "void " + P + "_addColReal(const LPColReal& lpcol)", "int_add",
     "const LPColReal& lpcol = *a_colr;", {"ADD_COL": "", "CODE": "M_addCol"}, props=IP,
     mutants=[mut("no_lu_clear", "int_addColReal", *LU_MUT), mut("wrong_test", "int_addColReal", "lpcol.lower() > -realParam", "lpcol.lower() < -realParam")])
inst("int_addColReal4", "SoPlexBase<R>::_addColReal(R obj, R lower, const SVectorBase<R>& lpcol, R upper)",
     "void " + P + "_addColReal(R obj, R lower, const SVectorBase<R>& lpcol, R upper)", "int_add",
     "R obj = a_r3; R lower = a_r1; const SVectorBase<R>& lpcol = *a_svr; R upper = a_r2;", {"ADD_COL4": "", "CODE": "M_addCol4"}, props=IP,
     mutants=[mut("no_lu_clear", "int_addColReal4", *LU_MUT),
              mut("swap_bounds", "int_addColReal4", "addCol(obj, lower, lpcol, upper, scale)", "addCol(obj, upper, lpcol, lower, scale)"),
              mut("wrong_test", "int_addColReal4", "lower > -realParam", "lower < -realParam"),
              # defect F re-introduced (reverse of 451259c): a row status BASIC is appended for the new column
              mut("defect_F_row_status", "int_addColReal4", r"else if\(_hasBasis\)\s*\{.*?ZERO\);\s*\}",
                  "else if(_hasBasis) _basisStatusRows.append(SPxSolverBase<R>::BASIC);", regex=True)])
inst("int_addColsReal", "SoPlexBase<R>::_addColsReal(const LPColSetReal& lpcolset)", "void " + P + "_addColsReal(const LPColSetReal& lpcolset)", "int_add",
     "const LPColSetReal& lpcolset = *a_csetr;", {"ADD_COLS": "", "CODE": "M_addCols"}, props=IP,
     loops=[loop(0, ["i"], ["0 <= i && i <= g_n", "*gp_bsc_size == g_nbc + i",
                            "(g_k2 < 0 || g_k2 >= i) || gp_bsCols[g_nbc + g_k2] == v_exp2",
                            "(g_k < 0 || g_k >= g_nbc) || gp_bsCols[g_k] == v_old"],
                 ["i", "ARR(gp_bsCols)", "*gp_bsc_size"], "g_n - i")],
     mutants=[mut("no_lu_clear", "int_addColsReal", *LU_MUT), mut("off_by_one", "int_addColsReal", "int i = 0;", "int i = 1;"),
              mut("wrong_test", "int_addColsReal", "lpcolset.upper(i) < realParam", "lpcolset.upper(i) > realParam")])

inst("int_changeRowReal", "SoPlexBase<R>::_changeRowReal(int i, const LPRowBase<R>& lprow)", "void " + P + "_changeRowReal(int i, const LPRowBase<R>& lprow)", "int_chg",
     "int i = a_i; const LPRowBase<R>& lprow = *a_rowr;", {"ISROW": "", "CODE": "M_changeRow"}, props=IP,
     mutants=[mut("no_lu_clear", "int_changeRowReal", *LU_MUT), mut("keep_basis", "int_changeRowReal", "_hasBasis = false;", ";")])
inst("int_changeColReal", "SoPlexBase<R>::_changeColReal(int i, const LPColReal& lpcol)", "void " + P + "_changeColReal(int i, const LPColReal& lpcol)", "int_chg",
     "int i = a_i; const LPColReal& lpcol = *a_colr;", {"CODE": "M_changeCol"}, props=IP,
     mutants=[mut("no_lu_clear", "int_changeColReal", *LU_MUT), mut("keep_basis", "int_changeColReal", "_hasBasis = false;", ";"),
              mut("wrong_status", "int_changeColReal", "SPxSolverBase<R>::ON_UPPER : SPxSolverBase<R>::ZERO", "SPxSolverBase<R>::ON_LOWER : SPxSolverBase<R>::ZERO")])
inst("int_changeElementReal", "SoPlexBase<R>::_changeElementReal(int i, int j, const R& val)", "void " + P + "_changeElementReal(int i, int j, const R& val)", "int_elem",
     "int i = a_i; int j = a_j; const R& val = a_r1;", {}, props=IP,
     mutants=[mut("no_lu_clear", "int_changeElementReal", *LU_MUT),
              mut("swap_ij", "int_changeElementReal", "changeElement(i, j, val, scale)", "changeElement(j, i, val, scale)"),
              mut("keep_basis", "int_changeElementReal", "_hasBasis = false;", ";"),
              # defect E re-introduced (reverse of 75ef068): the status of column i (a row index) is examined
              mut("defect_E_col_i", "int_changeElementReal", "_basisStatusCols[j]", "_basisStatusCols[i]")])

for fn, isrow, code in [("_removeRowReal", True, "M_removeRow"), ("_removeColReal", False, "M_removeCol")]:
    nm = "int" + fn
    dd = {"CODE": code}
    if isrow:
        dd["ISROW"] = ""
    arr = "_basisStatusRows" if isrow else "_basisStatusCols"
    inst(nm, "SoPlexBase<R>::%s(int i)" % fn, "void " + P + "%s(int i)" % fn, "int_rm1", "int i = a_i;", dd, props=IP,
         mutants=[mut("no_lu_clear", nm, *LU_MUT), mut("keep_basis", nm, "_hasBasis = false;", ";"), mut("no_shrink", nm, arr + ".removeLast();", ";")])
    nm = "int" + fn.replace("Row", "Rows").replace("Col", "Cols") + "_perm"
    f2 = fn.replace("Row", "Rows").replace("Col", "Cols")
    num = "numRows()" if isrow else "numCols()"
    inst(nm, "SoPlexBase<R>::%s(int perm[])  [bounded: <= CAP rows/columns, loops unwound]" % f2, "void " + P + "%s(int perm[])" % f2, "int_rmperm",
         "int* perm = a_perm;", dict(dd, CODE=code + "s"), props=IP, unwind_loops=[{"function": BODY, "loop": 0}],
         mutants=[mut("no_lu_clear", nm, *LU_MUT), mut("no_forward", nm, "_realLP->remove", "if(false) _realLP->remove"),
                  mut("no_shrink", nm, arr + ".reSize(", "(void)("),
                  mut("wrong_test", nm, "perm[i] < 0 && " + arr + "[i] %s SPxSolverBase<R>::BASIC" % ("!=" if isrow else "=="),
                      "perm[i] < 0 && " + arr + "[i] %s SPxSolverBase<R>::BASIC" % ("==" if isrow else "!=")),
                  # defect D re-introduced (reverse of eba3678): descending over the NEW count; and its half: ascending over the NEW count
                  mut("defect_D_descending_newsize", nm, "for(int i = 0; i < oldsize && _hasBasis; i++)", "for(int i = %s - 1; i >= 0 && _hasBasis; i--)" % num),
                  mut("defect_D_newsize", nm, "i < oldsize && _hasBasis", "i < %s && _hasBasis" % num)])

inst("int_setBasis", "SoPlexBase<R>::setBasis(const VarStatus rows[], const VarStatus cols[])",
     "void " + P + "setBasis(const typename SPxSolverBase<R>::VarStatus rows[], const typename SPxSolverBase<R>::VarStatus cols[])", "int_basis",
     "const VarStatusR* rows = a_rows; const VarStatusR* cols = a_cols;", {"SETBASIS": ""}, props=("C11", "C06"),
     loops=[loop(0, ["i"], ["(-1 <= i && i < g_nr) || (i == -1 && g_nr == 0)", "(g_k < 0 || g_k >= g_nr) || g_k <= i || gp_bsRows[g_k] == v_old"], ["i", "ARR(gp_bsRows)"], "i + 1"),
            loop(1, ["j"], ["(-1 <= j && j < g_nc) || (j == -1 && g_nc == 0)", "(g_k2 < 0 || g_k2 >= g_nc) || g_k2 <= j || gp_bsCols[g_k2] == v_old2"], ["j", "ARR(gp_bsCols)"], "j + 1")],
     mutants=[mut("no_lu_clear", "int_setBasis", *LU_MUT), mut("swap", "int_setBasis", "_basisStatusCols[j] = cols[j];", "_basisStatusCols[j] = rows[j];"),
              mut("no_hasbasis", "int_setBasis", "_hasBasis = true;", ";")])
inst("int_clearBasis", "SoPlexBase<R>::clearBasis()", "void " + P + "clearBasis()", "int_basis", "", {}, props=("C11", "C06"),
     mutants=[mut("no_lu_clear", "int_clearBasis", *LU_MUT), mut("keep_basis", "int_clearBasis", "_hasBasis = false;", "_hasBasis = true;")])


# ------------------------------------------------------------------------------------------------
# PUBLIC RATIONAL modifiers (C07 F2; C06 F1 invalidation)
# ------------------------------------------------------------------------------------------------
RP = ("C07", "C06")
# seeded fault for "returns before touching anything": the solution is invalidated before the early return
# (a fault that lets the body run on in real-only mode dereferences the null rational LP hundreds of times and makes
# cbmc's JSON output ~600 MB per run)
ONLY_MUT = (r"(== SYNCMODE_ONLYREAL\)\s*)return;", r"\1{ _invalidateSolution(); return; }", True)


def types_loop_rat(n, isrow, var="i"):
    return types_loop(n, isrow, var)


for fn, code, isrow, low, arg in [("changeLhsRational", "M_changeLhs", True, True, "lhs"),
                                  ("changeRhsRational", "M_changeRhs", True, False, "rhs"),
                                  ("changeLowerRational", "M_changeLower", False, True, "lower"),
                                  ("changeUpperRational", "M_changeUpper", False, False, "upper")]:
    d = {}
    if isrow:
        d["ISROW"] = ""
    if low:
        d["CHG_LOW"] = ""
    typ = "_rowTypes" if isrow else "_colTypes"
    twin = "_" + fn.replace("Rational", "Real")
    nm = "rat_" + fn + "_i"
    inst(nm, "SoPlexBase<R>::%s(int i, const Rational& %s)" % (fn, arg), "void " + P + "%s(int i, const Rational& %s)" % (fn, arg), "rat_side1",
         "int i = a_i; const Rational& %s = a_q1;" % arg, dict(d, CODE=code + "_i"), props=RP,
         mutants=[mut("no_early_return", nm, *ONLY_MUT), mut("no_sync", nm, *SYNC_MUT), mut("wrong_index", nm, typ + "[i] =", typ + "[0] ="),
                  mut("no_invalidate", nm, "_invalidateSolution();", ";")])
    if fn != "changeRhsRational":     # there is no (int, const mpq_t*) twin of changeRhsRational
        nm = "rat_" + fn + "_i_gmp"
        inst(nm, "SoPlexBase<R>::%s(int i, const mpq_t* %s)" % (fn, arg), "void " + P + "%s(int i, const mpq_t* %s)" % (fn, arg), "rat_side1",
             "int i = a_i; const mpq_t* %s = a_m1;" % arg, dict(d, CODE=code + "_i"), props=RP,
             mutants=[mut("no_early_return", nm, *ONLY_MUT), mut("no_sync", nm, *SYNC_MUT), mut("wrong_index", nm, typ + "[i] =", typ + "[0] =")])
    nm = "rat_" + fn + "_v"
    inst(nm, "SoPlexBase<R>::%s(const VectorRational& %s)" % (fn, arg), "void " + P + "%s(const VectorRational& %s)" % (fn, arg), "rat_vec1",
         "const VectorRational& %s = *a_vq1;" % arg, dict(d, CODE=code + "_v"), props=RP, loops=[types_loop(0, isrow)],
         mutants=[mut("no_early_return", nm, *ONLY_MUT), mut("no_sync", nm, *SYNC_MUT), mut("off_by_one", nm, "int i = 0;", "int i = 1;")])

for fn, code, isrow, arg in [("changeRangeRational", "M_changeRange", True, ("lhs", "rhs")), ("changeBoundsRational", "M_changeBounds", False, ("lower", "upper"))]:
    d = {}
    if isrow:
        d["ISROW"] = ""
    typ = "_rowTypes" if isrow else "_colTypes"
    nm = "rat_" + fn + "_i"
    inst(nm, "SoPlexBase<R>::%s(int i, const Rational& %s, const Rational& %s)" % (fn, arg[0], arg[1]),
         "void " + P + "%s(int i, const Rational& %s, const Rational& %s)" % (fn, arg[0], arg[1]), "rat_side2",
         "int i = a_i; const Rational& %s = a_q1; const Rational& %s = a_q2;" % arg, dict(d, CODE=code + "_i"), props=RP,
         mutants=[mut("no_early_return", nm, *ONLY_MUT), mut("no_sync", nm, *SYNC_MUT),
                  mut("swap_args", nm, "_rangeTypeRational(%s, %s)" % arg, "_rangeTypeRational(%s, %s)" % (arg[1], arg[0]))])
    nm = "rat_" + fn + "_i_gmp"
    inst(nm, "SoPlexBase<R>::%s(int i, const mpq_t* %s, const mpq_t* %s)" % (fn, arg[0], arg[1]),
         "void " + P + "%s(int i, const mpq_t* %s, const mpq_t* %s)" % (fn, arg[0], arg[1]), "rat_side2",
         "int i = a_i; const mpq_t* %s = a_m1; const mpq_t* %s = a_m2;" % arg, dict(d, CODE=code + "_i"), props=RP,
         mutants=[mut("no_early_return", nm, *ONLY_MUT), mut("no_sync", nm, *SYNC_MUT), mut("wrong_index", nm, typ + "[i] =", typ + "[0] =")])
    nm = "rat_" + fn + "_v"
    inst(nm, "SoPlexBase<R>::%s(const VectorRational& %s, const VectorRational& %s)" % (fn, arg[0], arg[1]),
         "void " + P + "%s(const VectorRational& %s, const VectorRational& %s)" % (fn, arg[0], arg[1]), "rat_vec2",
         "const VectorRational& %s = *a_vq1; const VectorRational& %s = *a_vq2;" % arg, dict(d, CODE=code + "_v"), props=RP, loops=[types_loop(0, isrow)],
         mutants=[mut("no_early_return", nm, *ONLY_MUT), mut("no_sync", nm, *SYNC_MUT),
                  mut("swap_args", nm, "_rangeTypeRational(%s[i], %s[i])" % arg, "_rangeTypeRational(%s[i], %s[i])" % (arg[1], arg[0]))])

for suffix, sig, pro, dd in [("_i", "changeObjRational(int i, const Rational& obj)", "int i = a_i; const Rational& obj = a_q1;", {"CODE": "M_changeObj_i"}),
                             ("_i_gmp", "changeObjRational(int i, const mpq_t* obj)", "int i = a_i; const mpq_t* obj = a_m1;", {"CODE": "M_changeObj_i"}),
                             ("_v", "changeObjRational(const VectorRational& obj)", "const VectorRational& obj = *a_vq1;", {"CODE": "M_changeObj_v", "VEC": ""})]:
    # (the instance names keep the suffix under which defect C was found and is recorded in known_findings.json)
    for variant in ("_scaleflag",):
        nm = "rat_changeObjRational" + suffix + variant
        inst(nm, "SoPlexBase<R>::" + sig + "  [incl. clause: the real LP gets its own scale flag]", "void " + P + sig, "rat_obj", pro, dict(dd), props=RP,
             must=[r"_realLP->isScaled\(\)"],
             mutants=[mut("no_early_return", nm, *ONLY_MUT), mut("no_sync", nm, *SYNC_MUT), mut("no_invalidate", nm, "_invalidateSolution();", ";"),
                      # defect C re-introduced (reverse of 788256a): the real LP is updated without its scale flag
                      mut("defect_C_no_scale_flag", nm, ", _realLP->isScaled());", ");")])

for suffix, sig, pro in [("", "changeElementRational(int i, int j, const Rational& val)", "int i = a_i; int j = a_j; const Rational& val = a_q1;"),
                         ("_gmp", "changeElementRational(int i, int j, const mpq_t* val)", "int i = a_i; int j = a_j; const mpq_t* val = a_m1;")]:
    nm = "rat_changeElementRational" + suffix
    inst(nm, "SoPlexBase<R>::" + sig, "void " + P + sig, "rat_elem", pro, {}, props=RP,
         mutants=[mut("no_early_return", nm, *ONLY_MUT), mut("no_sync", nm, *SYNC_MUT), mut("swap_ij", nm, "_changeElementReal(i, j,", "_changeElementReal(j, i,")])

for fn, shape, code, ptype, pname, slot in [("addRowRational", "ADD_ROW", "M_addRow", "LPRowRational", "lprow", "a_rowq"),
                                            ("addColRational", "ADD_COL", "M_addCol", "LPColRational", "lpcol", "a_colq"),
                                            ("addRowsRational", "ADD_ROWS", "M_addRows", "LPRowSetRational", "lprowset", "a_rsetq"),
                                            ("addColsRational", "ADD_COLS", "M_addCols", "LPColSetRational", "lpcolset", "a_csetq")]:
    nm = "rat_" + fn
    inst(nm, "SoPlexBase<R>::%s(const %s& %s)" % (fn, ptype, pname), "void " + P + "%s(const %s& %s)" % (fn, ptype, pname), "rat_add",
         "const %s& %s = *%s;" % (ptype, pname, slot), {shape: "", "CODE": code}, props=RP,
         mutants=[mut("no_early_return", nm, *ONLY_MUT), mut("no_sync", nm, *SYNC_MUT), mut("no_complete", nm, "_completeRangeTypesRational();", ";")])

for fn, isrow, code, ptype, pname, slot in [("changeRowRational", True, "M_changeRow", "LPRowRational", "lprow", "a_rowq"),
                                            ("changeColRational", False, "M_changeCol", "LPColRational", "lpcol", "a_colq")]:
    nm = "rat_" + fn
    typ = "_rowTypes" if isrow else "_colTypes"
    dd = {"CODE": code}
    if isrow:
        dd["ISROW"] = ""
    inst(nm, "SoPlexBase<R>::%s(int i, const %s& %s)" % (fn, ptype, pname), "void " + P + "%s(int i, const %s& %s)" % (fn, ptype, pname), "rat_chg",
         "int i = a_i; const %s& %s = *%s;" % (ptype, pname, slot), dd, props=RP,
         mutants=[mut("no_early_return", nm, *ONLY_MUT), mut("no_sync", nm, *SYNC_MUT), mut("wrong_index", nm, typ + "[i] =", typ + "[0] =")])

for fn, isrow, code in [("removeRowRational", True, "M_removeRow"), ("removeColRational", False, "M_removeCol")]:
    nm = "rat_" + fn
    typ = "_rowTypes" if isrow else "_colTypes"
    dd = {"CODE": code}
    if isrow:
        dd["ISROW"] = ""
    inst(nm, "SoPlexBase<R>::%s(int i)" % fn, "void " + P + "%s(int i)" % fn, "rat_rm1", "int i = a_i;", dd, props=RP,
         mutants=[mut("no_early_return", nm, *ONLY_MUT), mut("no_sync", nm, *SYNC_MUT), mut("no_resize", nm, typ + ".reSize(", "(void)(")])
    f2 = fn.replace("Row", "Rows").replace("Col", "Cols")
    nm = "rat_" + f2 + "_perm"
    inst(nm, "SoPlexBase<R>::%s(int perm[])  [bounded: <= CAP rows/columns, loops unwound]" % f2, "void " + P + "%s(int perm[])" % f2, "rat_rmperm",
         "int* perm = a_perm;", dict(dd, CODE=code + "s"), props=RP, unwind_loops=[{"function": BODY, "loop": 0}, {"function": BODY, "loop": 1}],
         mutants=[mut("no_early_return", nm, *ONLY_MUT), mut("no_sync", nm, *SYNC_MUT), mut("wrong_guard", nm, "if(perm[i] >= 0)", "if(perm[i] > 0)")])

inst("rat_addRowRational_gmp", "SoPlexBase<R>::addRowRational(const mpq_t* lhs, const mpq_t* rowValues, const int* rowIndices, const int rowSize, const mpq_t* rhs)",
     "void " + P + "addRowRational(const mpq_t* lhs, const mpq_t* rowValues, const int* rowIndices, const int rowSize, const mpq_t* rhs)", "rat_addgmp",
     "const mpq_t* lhs = a_m1; const mpq_t* rowValues = a_mv; const int* rowIndices = a_idx; const int rowSize = a_n; const mpq_t* rhs = a_m2;", {"ADD_ROW": ""}, props=RP,
     mutants=[mut("no_early_return", "rat_addRowRational_gmp", *ONLY_MUT), mut("no_sync", "rat_addRowRational_gmp", *SYNC_MUT),
              mut("swap_sides", "rat_addRowRational_gmp", "R(lhsRational(i)), DSVectorBase", "R(rhsRational(i)), DSVectorBase")])
inst("rat_addColRational_gmp", "SoPlexBase<R>::addColRational(const mpq_t* obj, const mpq_t* lower, const mpq_t* colValues, const int* colIndices, const int colSize, const mpq_t* upper)",
     "void " + P + "addColRational(const mpq_t* obj, const mpq_t* lower, const mpq_t* colValues, const int* colIndices, const int colSize, const mpq_t* upper)", "rat_addgmp",
     "const mpq_t* obj = a_m3; const mpq_t* lower = a_m1; const mpq_t* colValues = a_mv; const int* colIndices = a_idx; const int colSize = a_n; const mpq_t* upper = a_m2;", {"ADD_COL": ""}, props=RP,
     mutants=[mut("no_early_return", "rat_addColRational_gmp", *ONLY_MUT), mut("no_sync", "rat_addColRational_gmp", *SYNC_MUT),
              mut("swap_bounds", "rat_addColRational_gmp", "R(lowerRational(i)), DSVectorBase", "R(upperRational(i)), DSVectorBase"),
              mut("wrong_sense", "rat_addColRational_gmp", "? 1.0 : -1.0", "? -1.0 : 1.0")])
inst("rat_clearLPRational", "SoPlexBase<R>::clearLPRational()  [all sync modes, incl. real-only]", "void " + P + "clearLPRational()", "pub_clear", "", {"RATIONAL": ""}, props=("C07", "C06", "C11"),
     mutants=[mut("no_sync", "rat_clearLPRational", *SYNC_MUT), mut("no_lu_clear", "rat_clearLPRational", "_rationalLUSolver.clear();", ";"),
              mut("keep_types", "rat_clearLPRational", "_rowTypes.clear();", ";"),
              mut("early_return_invalidates", "rat_clearLPRational", *ONLY_MUT),
              # defect A re-introduced (reverse of c2eb37f): no early return in real-only mode => null rational LP dereferenced
              mut("defect_A_no_early_return", "rat_clearLPRational", r"if\(intParam\(SoPlexBase<R>::SYNCMODE\) == SYNCMODE_ONLYREAL\)\s*return;", ";", regex=True)])


# ------------------------------------------------------------------------------------------------
# helpers: bound-type classification, perm builders, _invalidateSolution
# ------------------------------------------------------------------------------------------------
RTYPE = "typename SoPlexBase<R>::RangeType "
inst("aux_rangeTypeReal", "SoPlexBase<R>::_rangeTypeReal(const R& lower, const R& upper) const", RTYPE + P + "_rangeTypeReal(const R& lower, const R& upper) const", "aux_rt",
     "const R& lower = a_r1; const R& upper = a_r2;", {"RT_REAL": ""}, props=("C07",), ret="RangeType",
     mutants=[mut("swap", "aux_rangeTypeReal", "return RANGETYPE_UPPER;", "return RANGETYPE_LOWER;"), mut("strict", "aux_rangeTypeReal", "lower <= R(-infinity)", "lower < R(-infinity)")])
inst("aux_rangeTypeRational", "SoPlexBase<R>::_rangeTypeRational(const Rational& lower, const Rational& upper) const",
     RTYPE + P + "_rangeTypeRational(const Rational& lower, const Rational& upper) const", "aux_rt",
     "const Rational& lower = a_q1; const Rational& upper = a_q2;", {"RT_RATIONAL": ""}, props=("C07",), ret="RangeType",
     mutants=[mut("swap", "aux_rangeTypeRational", "return RANGETYPE_FIXED;", "return RANGETYPE_BOXED;"), mut("strict", "aux_rangeTypeRational", "upper >= _rationalPosInfty", "upper > _rationalPosInfty")])
inst("aux_switchRangeType", "SoPlexBase<R>::_switchRangeType(const RangeType& rangeType) const",
     RTYPE + P + "_switchRangeType(const typename SoPlexBase<R>::RangeType& rangeType) const", "aux_rt",
     "const RangeType& rangeType = a_rt;", {"RT_SWITCH": ""}, props=("C07",), ret="RangeType",
     mutants=[mut("same", "aux_switchRangeType", "return RANGETYPE_UPPER;", "return RANGETYPE_LOWER;")])
inst("aux_lowerFinite", "SoPlexBase<R>::_lowerFinite(const RangeType& rangeType) const", "bool " + P + "_lowerFinite(const RangeType& rangeType) const", "aux_rt",
     "const RangeType& rangeType = a_rt;", {"RT_LOWERFIN": ""}, props=("C07",), ret="bool",
     mutants=[mut("wrong", "aux_lowerFinite", "RANGETYPE_LOWER", "RANGETYPE_UPPER")])
inst("aux_upperFinite", "SoPlexBase<R>::_upperFinite(const RangeType& rangeType) const", "bool " + P + "_upperFinite(const RangeType& rangeType) const", "aux_rt",
     "const RangeType& rangeType = a_rt;", {"RT_UPPERFIN": ""}, props=("C07",), ret="bool",
     mutants=[mut("wrong", "aux_upperFinite", "RANGETYPE_FIXED", "RANGETYPE_FREE")])
inst("aux_invalidateSolution", "SoPlexBase<R>::_invalidateSolution()", "void " + P + "_invalidateSolution()", "aux_inval", "", {}, props=("C06",),
     mutants=[mut("keep_real", "aux_invalidateSolution", "_hasSolReal = false;", ";"), mut("keep_rat", "aux_invalidateSolution", "_hasSolRational = false;", ";"),
              mut("keep_status", "aux_invalidateSolution", "_status = SPxSolverBase<R>::UNKNOWN;", ";")])


def rt_loops(first_rows, dim_r, dim_c, complete=False):
    """two loops: one over rows (ghost g_k, v_exp/v_old), one over columns (g_k2, v_exp2/v_old2)"""
    def one(n, isrow, hint):
        gp, k, e, o, dim, start = (("gp_rowTypes", "g_k", "v_exp", "v_old", dim_r, "g_nrt") if isrow else ("gp_colTypes", "g_k2", "v_exp2", "v_old2", dim_c, "g_nct"))
        sz = "gp_rt_size" if isrow else "gp_ct_size"
        if complete:
            inv = ["%s <= i && i <= %s" % (start, dim), "*%s == i" % sz,
                   "(%s < 0 || %s >= i) || %s[%s] == (%s < %s ? %s : %s)" % (k, k, gp, k, k, start, o, e)]
            ass = [["i", hint], "ARR(%s)" % gp, "*%s" % sz]
        else:
            inv = ["0 <= i && i <= %s" % dim, "(%s < 0 || %s >= i) || %s[%s] == %s" % (k, k, gp, k, e)]
            ass = [["i", hint], "ARR(%s)" % gp]
        l = loop(n, [["i", hint]], inv, [x if isinstance(x, str) else "i" for x in ass], "%s - i" % dim)
        return l
    if first_rows:
        return [one(0, True, "1::i"), one(1, False, "2::i")]
    return [one(0, False, "1::i"), one(1, True, "2::i")]


inst("aux_recomputeRangeTypesRational", "SoPlexBase<R>::_recomputeRangeTypesRational()", "void " + P + "_recomputeRangeTypesRational()", "aux_recompute", "", {"RATIONAL": ""},
     props=("C07",), loops=rt_loops(True, "g_qnr", "g_qnc"),
     mutants=[mut("off_by_one", "aux_recomputeRangeTypesRational", "int i = 0;", "int i = 1;"), mut("no_resize", "aux_recomputeRangeTypesRational", "_colTypes.reSize(", "(void)(")])
inst("aux_recomputeRangeTypesReal", "SoPlexBase<R>::_recomputeRangeTypesReal()", "void " + P + "_recomputeRangeTypesReal()", "aux_recompute", "", {"REAL": ""},
     props=("C07",), loops=rt_loops(True, "g_nr", "g_nc"),
     mutants=[mut("off_by_one", "aux_recomputeRangeTypesReal", "int i = 0;", "int i = 1;"), mut("swap", "aux_recomputeRangeTypesReal", "_realLP->lower(i), _realLP->upper(i)", "_realLP->upper(i), _realLP->lower(i)")])
inst("aux_completeRangeTypesRational", "SoPlexBase<R>::_completeRangeTypesRational()", "void " + P + "_completeRangeTypesRational()", "aux_recompute", "", {"COMPLETE": ""},
     props=("C07",), loops=rt_loops(False, "g_qnr", "g_qnc", complete=True),
     mutants=[mut("from_zero", "aux_completeRangeTypesRational", "int i = _rowTypes.size();", "int i = 0;"), mut("swap", "aux_completeRangeTypesRational", "_rationalLP->lhs(i), _rationalLP->rhs(i)", "_rationalLP->rhs(i), _rationalLP->lhs(i)")])

inst("aux_idxToPerm", "SoPlexBase<R>::_idxToPerm(int* idx, int idxSize, int* perm, int permSize) const", "void " + P + "_idxToPerm(int* idx, int idxSize, int* perm, int permSize) const", "aux_perm",
     "int* idx = a_idx; int idxSize = a_n; int* perm = a_perm; int permSize = a_i;", {}, props=("C06",),
     loops=[loop(0, [["i", "1::i"], "permSize"], ["0 <= i && i <= permSize", "(g_k < 0 || g_k >= i) || gp_perm[g_k] == g_k"], ["i", "ARR(gp_perm)"], "permSize - i"),
            loop(1, [["i", "2::i"], "permSize", "idxSize", "idx"],
                 ["0 <= i && i <= idxSize", "(g_k < 0 || g_k >= permSize) || gp_perm[g_k] == g_k || gp_perm[g_k] == -1",
                  "(g_k < 0 || g_k >= permSize) || !v_exp || gp_perm[g_k] == g_k",
                  "(g_k < 0 || g_k >= permSize) || (g_k2 < 0 || g_k2 >= i) || idx[g_k2] != g_k || gp_perm[g_k] == -1"],
                 ["i", "ARR(gp_perm)"], "idxSize - i")],
     mutants=[mut("wrong_mark", "aux_idxToPerm", "perm[idx[i]] = -1;", "perm[idx[i]] = 0;"), mut("off_by_one", "aux_idxToPerm", "for(int i = 0; i < idxSize; i++)", "for(int i = 1; i < idxSize; i++)")])
inst("aux_rangeToPerm", "SoPlexBase<R>::_rangeToPerm(int start, int end, int* perm, int permSize) const", "void " + P + "_rangeToPerm(int start, int end, int* perm, int permSize) const", "aux_perm",
     "int start = a_j; int end = a_n; int* perm = a_perm; int permSize = a_i;", {"RANGE": ""}, props=("C06",),
     loops=[loop(0, ["i", "permSize", "start", "end"], ["0 <= i && i <= permSize", "(g_k < 0 || g_k >= i) || gp_perm[g_k] == ((g_k < start || g_k > end) ? g_k : -1)"], ["i", "ARR(gp_perm)"], "permSize - i")],
     mutants=[mut("exclusive_end", "aux_rangeToPerm", "i > end", "i >= end"), mut("wrong_mark", "aux_rangeToPerm", "? i : -1", "? i : 0")])

# ------------------------------------------------------------------------------------------------
def main():
    unit = {
        "property": ["C06", "C07", "C11"],
        "desc": "family contracts F1/F2/F3 over the LP modifiers of SoPlexBase<R> (soplex.hpp): public real, public rational, internal _xxxReal twins, helpers. "
                "Instances whose defect was fixed in the repository (A-F: rat_clearLPRational, *_anyinfty, *_scaleflag, int_remove{Rows,Cols}Real_perm, int_changeElementReal, int_addColReal4) "
                "carry a seeded fault defect_<X>_* that re-introduces it; the four int_change*Real_i_fixedclause instances FAIL on the current tree (OPEN known finding G, C06 only)",
        "scope_bounded": "H::body",   # bounded by the cap only where a loop of the body under contract is unwound
        "rmode": "R = double (IEEE, bit-precise); Rational = ordered-group long long with Rational(double) = exact order embedding, R(Rational) uninterpreted",
        "harness": "h_lpmod", "enforce": "w_lpmod",
        "defines": {"CAP": "6"},
        "flags": DEFAULT_FLAGS, "timeout_s": 240, "unwind": UNWIND, "unwind_loops": STUB_LOOPS,
        "conformance": CONFORMANCE, "constants": CONSTANTS, "extracts": EXTRACTS, "trusted": TRUSTED,
        # finding=True marks an instance whose contract FAILS on the current tree because of an OPEN known finding
        # (known_findings.json: bin/check prints KNOWN-FINDING and exits 0); it is registered like any other instance
        "instances": [e for e, _, _ in T.rows],
    }
    json.dump(unit, open(os.path.join(HERE, "unit.json"), "w"), indent=1)
    names = [e["name"] for e, _, _ in T.rows]
    assert len(names) == len(set(names)), "duplicate instance names"
    for prop in ("C06", "C07", "C11"):
        p = os.path.join(VERIF, "props", prop + ".json")
        if not os.path.exists(p):
            continue
        doc = json.load(open(p))
        sel = [e["name"] for e, props, _ in T.rows if prop in props]
        mine = {"unit": "lpmod", "instances": sel}
        # entries of OTHER units (ratbasis, lpset_remove, dataset, ...) are preserved verbatim and keep their position
        units = [u for u in doc.get("units", []) if u.get("unit") != "lpmod_findings"]
        if any(u.get("unit") == "lpmod" for u in units):
            units = [mine if u.get("unit") == "lpmod" else u for u in units]
        else:
            units.append(mine)
        doc["units"] = units
        json.dump(doc, open(p, "w"), indent=1)
    print("%d instances (%d of them open known findings)" % (len(unit["instances"]), sum(1 for _, _, f in T.rows if f)))


if __name__ == "__main__":
    main()
