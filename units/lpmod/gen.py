#!/usr/bin/env python3
"""Generator for units/lpmod/unit.json (and the instance lists in props/C06|C07|C11.json).

The TABLE below has one entry per function under contract.  Re-run after changing it:
    python3 units/lpmod/gen.py
"""
import json
import os
import re

HERE = os.path.dirname(os.path.abspath(__file__))
VERIF = os.path.dirname(os.path.dirname(HERE))
SRC = "src/soplex.hpp"


def sigre(sig):
    """C++ signature text -> whitespace-tolerant regex (parameter names included => drift is detected)."""
    toks = re.findall(r"[A-Za-z_0-9]+|\S", sig)
    out = ""
    for a, b in zip(toks, toks[1:] + [""]):
        out += re.escape(a)
        if b:
            out += r"\s+" if (re.match(r"\w", a[-1]) and re.match(r"\w", b[0])) else r"\s*"
    return out


def slice_of(name, sig, must=None, file=SRC):
    d = {"as": name + ".inc", "file": file, "sig": sigre(sig)}
    if must:
        d["must_contain"] = must
    return d


P = "SoPlexBase<R>::"
HELPERS = [
    slice_of("intParam", "int " + P + "intParam(const IntParam param) const", ["_intParamValues\\[param\\]"]),
    slice_of("realParam", "Real " + P + "realParam(const RealParam param) const", ["_realParamValues\\[param\\]"]),
    slice_of("numRows", "int " + P + "numRows() const"),
    slice_of("numCols", "int " + P + "numCols() const"),
    slice_of("numRowsRational", "int " + P + "numRowsRational() const"),
    slice_of("numColsRational", "int " + P + "numColsRational() const"),
    slice_of("lhsReal", "R " + P + "lhsReal(int i) const", ["lhsUnscaled\\(i\\)"]),
    slice_of("rhsReal", "R " + P + "rhsReal(int i) const", ["rhsUnscaled\\(i\\)"]),
    slice_of("lowerReal", "R " + P + "lowerReal(int i) const", ["lowerUnscaled\\(i\\)"]),
    slice_of("upperReal", "R " + P + "upperReal(int i) const", ["upperUnscaled\\(i\\)"]),
    slice_of("_rangeTypeReal", "typename SoPlexBase<R>::RangeType " + P + "_rangeTypeReal(const R& lower, const R& upper) const"),
    slice_of("_rangeTypeRational", "typename SoPlexBase<R>::RangeType " + P + "_rangeTypeRational(const Rational& lower, const Rational& upper) const"),
    slice_of("_invalidateSolution", "void " + P + "_invalidateSolution()", ["_hasSolReal = false", "_hasSolRational = false"]),
]

EXTRACTS = [
    {"as": "IntParam.inc", "file": "src/soplex.h", "regex": r"typedef enum\s*\{[^{}]*\}\s*IntParam;"},
    {"as": "RealParam.inc", "file": "src/soplex.h", "regex": r"typedef enum\s*\{[^{}]*\}\s*RealParam;"},
    {"as": "OBJSENSE.inc", "file": "src/soplex.h", "regex": r"enum\s*\{[^{}]*OBJSENSE_MINIMIZE[^{}]*\};"},
    {"as": "SYNCMODE.inc", "file": "src/soplex.h", "regex": r"enum\s*\{[^{}]*SYNCMODE_ONLYREAL[^{}]*\};"},
    {"as": "RangeType.inc", "file": "src/soplex.h", "regex": r"typedef enum\s*\{[^{}]*RANGETYPE_FREE[^{}]*\}\s*RangeType;"},
    {"as": "VarStatus.inc", "file": "src/soplex/spxsolver.h", "regex": r"enum VarStatus\s*\{[^{}]*\};"},
    {"as": "Status.inc", "file": "src/soplex/spxsolver.h", "regex": r"enum Status\s*\{[^{}]*\};"},
    {"as": "SPxStatus.inc", "file": "src/soplex/spxbasis.h", "regex": r"enum SPxStatus\s*\{[^{}]*\};"},
]
CONSTANTS = [
    {"name": "K_REAL_INFINITY", "file": "src/soplex/spxdefines.h",
     "regex": r"typedef double Real;.*?#define\s+SOPLEX_DEFAULT_INFINITY\s+(\S+)"},
    {"name": "K_STATUS_UNKNOWN", "file": "src/soplex/spxsolver.h", "regex": r"enum Status\s*\{[^{}]*?\bUNKNOWN\s*=\s*(-?\d+)"},
    {"name": "K_BASIS_NO_PROBLEM", "file": "src/soplex/spxbasis.h", "regex": r"enum SPxStatus\s*\{[^{}]*?\bNO_PROBLEM\s*=\s*(-?\d+)"},
]
CONFORMANCE = [
    {"file": "src/soplex/spxdefines.cpp", "regex": r"const Real infinity\s*=\s*SOPLEX_DEFAULT_INFINITY;",
     "why": "the global `infinity` used by _rangeTypeReal is SOPLEX_DEFAULT_INFINITY"},
    {"file": "src/soplex.hpp", "regex": r"case SoPlexBase<R>::INFTY:\s*#ifdef SOPLEX_WITH_BOOST\s*_rationalPosInfty = value;.*?_rationalNegInfty = value;\s*_rationalNegInfty = -_rationalNegInfty;",
     "why": "_rationalNegInfty == -_rationalPosInfty (wrapper builds the pair from one number)"},
    {"file": "src/soplex/spxlpbase.h", "regex": r"virtual void changeLhs\(int i, const R& newLhs, bool scale = false\)",
     "why": "LP stub signature: changeLhs(i, value, scale)"},
    {"file": "src/soplex/spxlpbase.h", "regex": r"virtual void changeRange\(int i, const R& newLhs, const R& newRhs, bool scale = false\)",
     "why": "LP stub signature: changeRange(i, lhs, rhs, scale)"},
    {"file": "src/soplex/spxlpbase.h", "regex": r"virtual void changeBounds\(int i, const R& newLower, const R& newUpper, bool scale = false\)",
     "why": "LP stub signature: changeBounds(i, lower, upper, scale)"},
    {"file": "src/soplex/spxlpbase.h", "regex": r"virtual void changeElement\(int i, int j, const R& val, bool scale = false\)",
     "why": "LP stub signature: changeElement(row, col, value, scale)"},
    {"file": "src/soplex/spxlpbase.h", "regex": r"virtual void addCol\(const R& objValue, const R& lowerValue, const SVectorBase<R>& colVec,\s*const R& upperValue, bool scale = false\)",
     "why": "LP stub signature: addCol(obj, lower, vector, upper, scale)"},
    {"file": "src/soplex/spxlpbase.h", "regex": r"virtual void addRow\(const R& lhsValue, const SVectorBase<R>& rowVec, const R& rhsValue,\s*bool scale = false\)",
     "why": "LP stub signature: addRow(lhs, vector, rhs, scale)"},
    {"file": "src/soplex/lpcolbase.h", "regex": r"LPColBase\(const R& p_obj, const SVectorBase<R>& p_vector, const R& p_upper, const R& p_lower\)",
     "why": "LPColBase field meaning"},
    {"file": "src/soplex/dataset.h", "regex": r"if\(perm\[k\] >= 0\)\s*// j has not been removed ...\s*perm\[k\] = j\+\+;",
     "why": "DataSet::remove(int perm[]) is an order-preserving compaction that leaves negative marks untouched (LP stub removeRows/removeCols)"},
    {"file": "src/soplex/spxlpbase.h", "regex": r"template < class S >\s*void changeLhs\(int i, const S\* newLhs\)\s*\{\s*LPRowSetBase<R>::lhs_w\(i\) = \*newLhs;",
     "why": "GMP entry points: changeLhs(i, const S*) stores *newLhs verbatim"},
]

TRUSTED = [
    "R = double (CBMC's IEEE model).  Rational = ordered-group long long; Rational(double) is modelled by the exact order embedding 'sign-magnitude bit pattern' (injective, monotone, -0.0 == 0.0), i.e. exactness of boost's double->rational conversion is trusted; R(Rational) is an uninterpreted function (arbitrary rounding, never NaN)",
    "real arguments are finite doubles (no NaN, no IEEE infinities: SoPlex represents infinity by +-1e100); rational arguments lie inside the image of the finite doubles",
    "_realLP / _rationalLP are executable LP models: each side/bound vector is an array view plus one scalar override plus one appended segment, nRows/nCols counters; every mutator records its arguments in ghost globals and updates the model; lhsUnscaled/rhsUnscaled/lowerUnscaled/upperUnscaled return the user-space value (scaling itself is C09)",
    "LP model: addRow/addCol add exactly one row/column (no implicit creation of columns/rows by out-of-range indices); removeRow(i)/removeCol(i) decrement the count (swap-with-last renumbering of SPxLPBase::doRemoveRow/doRemoveCol); removeRows(perm)/removeCols(perm) are the order-preserving compaction of DataSet::remove(int perm[]) (conformance-checked text), its loop completely unwound",
    "vectors (VectorBase, LPRowSet/LPColSet side arrays) are views of a raw array: converting a vector to the other number type copies the pointer and converts elements on read; sparse row/column vectors are opaque tags (their element-wise conversion is counted, not performed)",
    "internal twins _xxxReal are ghost-recording stubs inside the public instances and are put under contract themselves in the int_* instances; _completeRangeTypesRational, _idxToPerm, _rangeToPerm likewise (aux_* instances)",
    "DataArray model: raw array of 2*CAP+2 cells handed in by the wrapper; append/reSize/removeLast assert that they stay within it (CAP bounds object sizes only, except where an instance says 'completely unwound')",
    "SoPlexBase::_isConsistent() relations are preconditions: |_rowTypes| == numRowsRational, |_colTypes| == numColsRational, and under SYNCMODE_AUTO both LPs have equal dimensions; when !_isRealLPLoaded && _hasBasis the basis status arrays have the real LP's dimensions",
    "_solver.basis().status() is an arbitrary SPxBasisBase::SPxStatus input; that _realLP == &_solver when _isRealLPLoaded (virtual dispatch to the solver's overrides) is not modelled: the contracts state what is forwarded to _realLP",
    "assert() compiled out (NDEBUG semantics)",
]

DEFAULT_FLAGS = ["--bounds-check", "--pointer-check", "--object-bits", "10"]
# loops inside STUBS (model code, bounded by CAP): completely unwound with unwinding assertions
STUB_LOOPS = [
    {"function": r"SPxLPBase<.*>::remove(Rows|Cols)\(this,ptr_signed_int\)", "loop": 0},
    {"function": r"DataArray<.*>::append\(this,signed_int,.*\)", "loop": 0},
]
UNWIND = 8   # CAP + 2


class T:
    """table accumulator"""
    rows = []


def inst(name, function, sig, kind, prologue, defines=None, props=("C06", "C07"), loops=None, mutants=None,
         must=None, tier="quick", extra_slices=None, unwind=None, unwind_loops=None, ret=None, minob=40, finding=False):
    d = {"SLICE": '"%s.inc"' % name, "KINDFILE": '"k_%s.h"' % kind, "PROLOGUE": prologue}
    if ret:
        d["RET"] = ret
        d["RET_INT"] = ""
    d.update(defines or {})
    e = {"name": name, "function": function, "defines": d,
         "slices": HELPERS + (extra_slices or []) + [slice_of(name, sig, must)],
         "min_obligations": minob, "tier": tier, "mutants": mutants or []}
    if loops:
        e["loops"] = loops
    if unwind_loops:
        e["unwind_loops"] = STUB_LOOPS + unwind_loops
    T.rows.append((e, props, finding))


def mut(name, slice_name, find, replace, regex=False):
    m = {"name": name, "slice": slice_name + ".inc", "find": find, "replace": replace}
    if regex:
        m["regex"] = True
    return m


SYNC_MUT = ("== SYNCMODE_AUTO", "!= SYNCMODE_AUTO")

# ------------------------------------------------------------------------------------------------
# PUBLIC REAL modifiers
# ------------------------------------------------------------------------------------------------
for fn, code, isrow, low, arg in [("changeLhsReal", "M_changeLhs_i", True, True, "lhs"),
                                  ("changeRhsReal", "M_changeRhs_i", True, False, "rhs"),
                                  ("changeLowerReal", "M_changeLower_i", False, True, "lower"),
                                  ("changeUpperReal", "M_changeUpper_i", False, False, "upper")]:
    d = {"CODE": code}
    if isrow:
        d["ISROW"] = ""
    if low:
        d["CHG_LOW"] = ""
    nm = "pub_" + fn + "_i"
    typ = "_rowTypes" if isrow else "_colTypes"
    inst(nm, "SoPlexBase<R>::%s(int i, const R& %s)" % (fn, arg),
         "void " + P + "%s(int i, const R& %s)" % (fn, arg), "pub_side1",
         "int i = a_i; const R& %s = a_r1;" % arg, d,
         must=[r"_invalidateSolution\(\)", typ + r"\[i\] = _rangeTypeRational"],
         mutants=[mut("no_sync", nm, *SYNC_MUT),
                  mut("wrong_index", nm, typ + "[i] =", typ + "[0] ="),
                  mut("no_invalidate", nm, "_invalidateSolution();", ";")])


# ------------------------------------------------------------------------------------------------
def main():
    unit = {
        "property": ["C06", "C07", "C11"],
        "desc": "family contracts F1/F2/F3 over the LP modifiers of SoPlexBase<R> (soplex.hpp): public real, public rational, internal _xxxReal twins, helpers",
        "rmode": "R = double (IEEE, bit-precise); Rational = ordered-group long long with Rational(double) = exact order embedding, R(Rational) uninterpreted",
        "harness": "h_lpmod", "enforce": "w_lpmod",
        "defines": {"CAP": "6"},
        "flags": DEFAULT_FLAGS, "timeout_s": 240, "unwind": UNWIND, "unwind_loops": STUB_LOOPS,
        "conformance": CONFORMANCE, "constants": CONSTANTS, "extracts": EXTRACTS, "trusted": TRUSTED,
        "instances": [e for e, _, f in T.rows if not f],
    }
    json.dump(unit, open(os.path.join(HERE, "unit.json"), "w"), indent=1)
    names = [e["name"] for e, _, _ in T.rows]
    assert len(names) == len(set(names)), "duplicate instance names"
    for prop in ("C06", "C07", "C11"):
        p = os.path.join(VERIF, "props", prop + ".json")
        if not os.path.exists(p):
            continue
        doc = json.load(open(p))
        sel = [e["name"] for e, props, f in T.rows if prop in props and not f]
        doc["units"] = [u for u in doc.get("units", []) if u.get("unit") != "lpmod"] + [{"unit": "lpmod", "instances": sel}]
        json.dump(doc, open(p, "w"), indent=1)
    print("%d instances (%d findings kept out of unit.json)" % (len(unit["instances"]), sum(1 for _, _, f in T.rows if f)))


if __name__ == "__main__":
    main()
