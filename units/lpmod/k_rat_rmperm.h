/* PUBLIC RATIONAL: removeRowsRational(int perm[]) (ISROW) / removeColsRational(int perm[]).  BOUNDED: loops completely unwound. */
void w_lpmod(PARAMS)
REQ_STATE
REQ_CONSISTENT
__CPROVER_requires(permnull == 0)
__CPROVER_requires((!INR(g_k, QDIM) || (v_old2 == perm[g_k] && v_exp == CNT(g_k) && v_old == TYPES[g_k])) && v_exp2 == CNT(QDIM))
__CPROVER_assigns(ASSIGNS_GHOSTS, ARR(TYPES), ARR(perm))
__CPROVER_ensures(!ONLYREAL || (NOTHING && (!INR(g_k, QDIM) || (perm[g_k] == v_old2 && TYPES[g_k] == v_old))))
__CPROVER_ensures(ONLYREAL || (gq_calls == 1 && gq_m == CODE && gq_perm == perm && out[DIMOUT_Q] == v_exp2))
__CPROVER_ensures(ONLYREAL || !INR(g_k, QDIM) || perm[g_k] == (v_old2 < 0 ? v_old2 : v_exp))
__CPROVER_ensures(ONLYREAL || (OUT_NTYPES == v_exp2 && (!INR(g_k, QDIM) || v_old2 < 0 || TYPES[v_exp] == v_old)))
__CPROVER_ensures(!AUTO || (gi_calls == 1 && gi_m == CODE && gi_perm == perm && gi_seq > gq_seq))
__CPROVER_ensures(AUTO || gi_calls == 0)
ENS_INVALIDATED_UNLESS(ONLYREAL)
;
