/* PUBLIC REAL: removeRowsReal(int perm[]) (ISROW) / removeColsReal(int perm[]).
 * BOUNDED: the loops of the body are completely unwound (at most CAP rows/columns). */
void w_lpmod(PARAMS)
REQ_STATE
REQ_CONSISTENT
__CPROVER_requires(permnull == 0)
__CPROVER_requires((!INR(g_k, DIM) || (v_old2 == perm[g_k] && v_exp == CNT(g_k))) && v_exp2 == CNT(DIM))
__CPROVER_requires(ONLYREAL || !INR(g_k, DIM) || v_old == TYPES[g_k])
__CPROVER_assigns(ASSIGNS_GHOSTS, ARR(TYPES), ARR(perm))
__CPROVER_ensures(gi_calls == 1 && gi_m == CODE && gi_perm == perm)
/* documented result: perm[k] < 0 stays, otherwise perm[k] is the new index = number of survivors before k */
__CPROVER_ensures(!INR(g_k, DIM) || perm[g_k] == (v_old2 < 0 ? v_old2 : v_exp))
__CPROVER_ensures(!AUTO || (gq_calls == 1 && gq_m == CODE && gq_perm == perm && gq_seq > gi_seq && out[DIMOUT_Q] == v_exp2))
__CPROVER_ensures(AUTO || gq_calls == 0)
/* the type of every survivor moves with it; the array has the new dimension */
__CPROVER_ensures(!AUTO || (OUT_NTYPES == v_exp2 && (!INR(g_k, DIM) || v_old2 < 0 || TYPES[v_exp] == v_old)))
__CPROVER_ensures(AUTO || (OUT_NTYPES == NTYPES && (ONLYREAL || !INR(g_k, DIM) || TYPES[g_k] == v_old)))
ENS_INVALIDATED
;
