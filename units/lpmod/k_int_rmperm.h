/* INTERNAL twins _removeRowsReal(int perm[]) (ISROW) / _removeColsReal(int perm[]).
 * BOUNDED: loops completely unwound (<= CAP rows/columns).  perm is rewritten by the LP (order-preserving compaction).
 * A kept basis survives iff no removed row is nonbasic / no removed column is basic; the status of every survivor moves
 * to its new index and the array gets the new dimension. */
#define KEPT (!loaded && hasBasis)
#ifdef ISROW
#define BAD(m) ((m) < DIM && perm[m] < 0 && BS[m] != BASIC)
#else
#define BAD(m) ((m) < DIM && perm[m] < 0 && BS[m] == BASIC)
#endif
#define ANYBAD (BAD(0) || BAD(1) || BAD(2) || BAD(3) || BAD(4) || BAD(5) || BAD(6) || BAD(7))
void w_lpmod(PARAMS)
REQ_STATE
REQ_CONSISTENT
__CPROVER_requires(permnull == 0)
__CPROVER_requires((!INR(g_k, DIM) || (v_old2 == perm[g_k] && v_exp == CNT(g_k))) && v_exp2 == CNT(DIM))
__CPROVER_requires(!KEPT || ((!INR(g_k, DIM) || v_old == BS[g_k]) && g_k2 == (ANYBAD ? 1 : 0)))
__CPROVER_assigns(ASSIGNS_GHOSTS, ARR(BS), ARR(perm))
__CPROVER_ensures(gr_calls == 1 && gr_m == CODE && gr_perm == perm && gq_calls == 0 && out[DIMOUT_R] == v_exp2)
__CPROVER_ensures(!INR(g_k, DIM) || perm[g_k] == (v_old2 < 0 ? v_old2 : v_exp))
__CPROVER_ensures(g_lu_clear == 1)
__CPROVER_ensures(out[0] == (loaded ? (sbstat > K_BASIS_NO_PROBLEM) : (hasBasis && g_k2 == 0)))
__CPROVER_ensures(!(KEPT && g_k2 == 0) || (OUT_NBS == v_exp2 && (!INR(g_k, DIM) || v_old2 < 0 || BS[v_exp] == v_old)))
__CPROVER_ensures(OUT_ONBS == ONBS && g_inval_calls == 0)
;
