/* PUBLIC REAL: addRowReal(lprow) / addColReal(lpcol) / addRowsReal(set) / addColsReal(set).
 * ADD_ROW | ADD_COL | ADD_ROWS | ADD_COLS select the shape; CODE is the LP method code. */
void w_lpmod(PARAMS)
REQ_STATE
REQ_CONSISTENT
#if defined(ADD_ROW) || defined(ADD_COL)
__CPROVER_requires(FINITE(v1) && FINITE(v2) && FINITE(v3))
#endif
__CPROVER_assigns(ASSIGNS_GHOSTS)
#if defined(ADD_ROW)
__CPROVER_ensures(gi_calls == 1 && gi_m == CODE && gi_v1 == v1 && gi_v2 == v2 && gi_tag == vtag && gi_conv == 0 && gr_calls == 0)
__CPROVER_ensures(!AUTO || (gq_calls == 1 && gq_m == CODE && gq_v1 == TORAT(v1) && gq_v2 == TORAT(v2) && gq_tag == vtag && gq_conv == 1 && gq_scale == 0))
__CPROVER_ensures(out[10] == (AUTO ? qnr + 1 : qnr) && out[11] == qnc)
#elif defined(ADD_COL)
__CPROVER_ensures(gi_calls == 1 && gi_m == CODE && gi_v1 == v1 && gi_v2 == v2 && gi_v3 == v3 && gi_tag == vtag && gi_conv == 0 && gr_calls == 0)
__CPROVER_ensures(!AUTO || (gq_calls == 1 && gq_m == CODE && gq_v1 == TORAT(v1) && gq_v2 == TORAT(v2) && gq_v3 == TORAT(v3) && gq_tag == vtag && gq_conv == 1 && gq_scale == 0))
__CPROVER_ensures(out[11] == (AUTO ? qnc + 1 : qnc) && out[10] == qnr)
#else
/* a set: n rows/columns, side arrays vec1/vec2 (converted element-wise), matrix part = tag */
__CPROVER_ensures(gi_calls == 1 && gi_m == CODE && gi_n == n && gi_pd1 == vec1 && gi_pd2 == vec2 && gi_pq1 == 0 && gi_pq2 == 0 && gi_tag == vtag && gi_conv == 0 && gr_calls == 0)
__CPROVER_ensures(!AUTO || (gq_calls == 1 && gq_m == CODE && gq_n == n && gq_pd1 == vec1 && gq_pd2 == vec2 && gq_pq1 == 0 && gq_pq2 == 0 && gq_tag == vtag && gq_conv == 1 && gq_scale == 0))
#ifdef ADD_ROWS
__CPROVER_ensures(out[10] == (AUTO ? qnr + n : qnr) && out[11] == qnc)
#else
__CPROVER_ensures(out[11] == (AUTO ? qnc + n : qnc) && out[10] == qnr)
#endif
#endif
/* the type arrays are completed AFTER the rational LP has grown */
__CPROVER_ensures(!AUTO || (g_complete_calls == 1 && g_complete_seq > gq_seq))
__CPROVER_ensures(AUTO || (gq_calls == 0 && g_complete_calls == 0))
ENS_INVALIDATED
;
