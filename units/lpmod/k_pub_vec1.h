/* PUBLIC REAL, vector change of one side / bound: changeLhsReal / changeRhsReal (ISROW) / changeLowerReal / changeUpperReal (const VectorBase<R>&).
 * One loop over all rows/columns re-classifying from the rational LP: loop contract at the ghost index g_k. */
#ifdef CHG_LOW
#define NEWLO_K TORAT(vec1[g_k])
#define NEWUP_K Q_UP[g_k]
#else
#define NEWLO_K Q_LO[g_k]
#define NEWUP_K TORAT(vec1[g_k])
#endif
void w_lpmod(PARAMS)
REQ_STATE
REQ_CONSISTENT
__CPROVER_requires(n == DIM)                       /* SPxLPBase::changeLhs: the vector has the LP's dimension */
__CPROVER_requires(!INR(g_k, NTYPES) || v_old == TYPES[g_k])
__CPROVER_requires(!INR(g_k, NTYPES) || !AUTO || (FINITE(vec1[g_k]) && v_exp == RT_Q(NEWLO_K, NEWUP_K)))
__CPROVER_assigns(ASSIGNS_GHOSTS, ARR(TYPES))
__CPROVER_ensures(gi_calls == 1 && gi_m == CODE && gi_pd1 == vec1 && gi_pq1 == 0 && gi_n == n && gr_calls == 0)
ENS_INVALIDATED
/* the rational LP receives the element-wise exact image of the same array */
__CPROVER_ensures(!AUTO || (gq_calls == 1 && gq_m == CODE && gq_pd1 == vec1 && gq_pq1 == 0 && gq_n == n && gq_scale == 0))
__CPROVER_ensures(AUTO || gq_calls == 0)
__CPROVER_ensures(!INR(g_k, NTYPES) || TYPES[g_k] == (AUTO ? v_exp : v_old))
__CPROVER_ensures(out[4] == nrt && out[5] == nct && out[10] == qnr && out[11] == qnc)
;
