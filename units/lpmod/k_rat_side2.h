/* PUBLIC RATIONAL, scalar change of both sides / bounds: changeRangeRational (ISROW) / changeBoundsRational (int i, lo, up) + GMP twins */
void w_lpmod(PARAMS)
REQ_STATE
REQ_CONSISTENT
__CPROVER_requires(ONLYREAL || (0 <= i && i < QDIM && QOK(w1) && QOK(w2)))
__CPROVER_requires(!INR(g_k, NTYPES) || v_old == TYPES[g_k])
__CPROVER_assigns(ASSIGNS_GHOSTS, ARR(TYPES))
__CPROVER_ensures(!ONLYREAL || (NOTHING && (!INR(g_k, NTYPES) || TYPES[g_k] == v_old)))
__CPROVER_ensures(ONLYREAL || (gq_calls == 1 && gq_m == CODE && gq_i == i && gq_v1 == w1 && gq_v2 == w2 && gr_calls == 0))
__CPROVER_ensures(ONLYREAL || TYPES[i] == RT_Q(w1, w2))
__CPROVER_ensures(ONLYREAL || !INR(g_k, NTYPES) || g_k == i || TYPES[g_k] == v_old)
__CPROVER_ensures(!AUTO || (gi_calls == 1 && gi_m == CODE && gi_i == i && gi_v1 == TOREAL(w1) && gi_v2 == TOREAL(w2)))
__CPROVER_ensures(AUTO || gi_calls == 0)
ENS_INVALIDATED_UNLESS(ONLYREAL)
__CPROVER_ensures(out[4] == nrt && out[5] == nct && out[8] == nr && out[9] == nc)
;
