/* PUBLIC RATIONAL: removeRowRational(int i) (ISROW) / removeColRational(int i) */
void w_lpmod(PARAMS)
REQ_STATE
REQ_CONSISTENT
__CPROVER_requires(ONLYREAL || (0 <= i && i < QDIM))
__CPROVER_requires((!INR(g_k, NTYPES) || v_old == TYPES[g_k]) && (NTYPES == 0 || v_old2 == TYPES[NTYPES - 1]))
__CPROVER_assigns(ASSIGNS_GHOSTS, ARR(TYPES))
__CPROVER_ensures(!ONLYREAL || (NOTHING && (!INR(g_k, NTYPES) || TYPES[g_k] == v_old)))
__CPROVER_ensures(ONLYREAL || (gq_calls == 1 && gq_m == CODE && gq_i == i && gr_calls == 0 && out[DIMOUT_Q] == QDIM - 1))
__CPROVER_ensures(ONLYREAL || (OUT_NTYPES == NTYPES - 1 && (!INR(g_k, NTYPES - 1) || TYPES[g_k] == (g_k == i ? v_old2 : v_old))))
__CPROVER_ensures(!AUTO || (gi_calls == 1 && gi_m == CODE && gi_i == i))
__CPROVER_ensures(AUTO || gi_calls == 0)
ENS_INVALIDATED_UNLESS(ONLYREAL)
;
