// Native demonstration of the basis-bookkeeping defects of the internal _xxxReal twins (state !_isRealLPLoaded && _hasBasis forced as solvereal.hpp:286-289 creates it).
// STATUS: r/R (defect D) fixed by eba3678, e (E) by 75ef068, c (F) by 451259c in /repo; f (defect G: FIXED status survives unequal bounds) is OPEN
// (known_findings.json; instances int_change*Real_i_fixedclause of units/lpmod).
// build: g++ -std=c++14 -g -DNDEBUG -fno-access-control -I/repo/src -I/repo/_build native_forced.cpp /repo/_build/lib/libsoplex.a -lgmp -lmpfr -lz -o t && for w in r R e f c; do ./t $w; done
// forced state (!_isRealLPLoaded && _hasBasis): the state _preprocessAndSolveReal creates (copy of the LP outside the solver,
// basis kept in _basisStatusRows/_basisStatusCols).  Then the internal twins' bookkeeping is exercised through the public API.
#include <iostream>
#include "soplex.h"
using namespace soplex;
static const char* vs(SPxSolver::VarStatus s){ const char* n[]={"ON_UPPER","ON_LOWER","FIXED","ZERO","BASIC","UNDEFINED"}; return n[(int)s]; }
static void build(SoPlex& s){
  s.setIntParam(SoPlex::VERBOSITY, SoPlex::VERBOSITY_ERROR);
  s.setIntParam(SoPlex::OBJSENSE, SoPlex::OBJSENSE_MINIMIZE);
  DSVector dummy(0);
  s.addColReal(LPCol(1.0, dummy, infinity, 0.0));
  s.addColReal(LPCol(2.0, dummy, infinity, 0.0));
  s.addColReal(LPCol(3.0, dummy, infinity, 0.0));
  { DSVector r(3); r.add(0,1); r.add(1,1); r.add(2,1); s.addRowReal(LPRow(1.0, r, infinity)); }   // tight: nonbasic
  { DSVector r(3); r.add(0,1); r.add(1,-1); s.addRowReal(LPRow(-5.0, r, infinity)); }           // slack: basic
  { DSVector r(3); r.add(1,1); r.add(2,1); s.addRowReal(LPRow(-infinity, r, 50.0)); }             // slack: basic
  { DSVector r(3); r.add(0,1); r.add(2,1); s.addRowReal(LPRow(2.0, r, 2.0)); }                   // equality: nonbasic FIXED
}
static void unload(SoPlex& s){   // what solvereal.hpp:286-289 does, plus keeping the basis outside the solver
  int nr = s.numRows(), nc = s.numCols();
  s._basisStatusRows.reSize(nr); s._basisStatusCols.reSize(nc);
  s._solver.getBasis(s._basisStatusRows.get_ptr(), s._basisStatusCols.get_ptr(), nr, nc);
  s._realLP = nullptr; spx_alloc(s._realLP); s._realLP = new(s._realLP) SPxLPBase<Real>(s._solver);
  s._isRealLPLoaded = false; s._hasBasis = true;
}
static void dump(SoPlex& s, const char* t){
  std::cout << t << ": hasBasis=" << s.hasBasis() << " loaded=" << s._isRealLPLoaded << " nRows=" << s.numRows() << " nCols=" << s.numCols();
  if(s.hasBasis()){ int nb=0; std::cout << " rows[";
    for(int i=0;i<s._basisStatusRows.size();i++){ std::cout << vs(s._basisStatusRows[i]) << " "; if(i<s.numRows()) nb += s._basisStatusRows[i]==SPxSolver::BASIC; }
    std::cout << "] cols[";
    for(int j=0;j<s._basisStatusCols.size();j++){ std::cout << vs(s._basisStatusCols[j]) << " "; if(j<s.numCols()) nb += s._basisStatusCols[j]==SPxSolver::BASIC; }
    std::cout << "] #basic=" << nb << (nb==s.numRows()?"":"  **#basic != nRows**")
              << (s._basisStatusRows.size()==s.numRows() && s._basisStatusCols.size()==s.numCols() ? "" : "  **status array sizes != LP dimensions**"); }
  std::cout << std::endl; }
int main(int argc,char**argv){
  const char* what = argc>1?argv[1]:"r";
  SoPlex s; build(s); s.optimize(); unload(s); dump(s,"start");
  if(what[0]=='r'){   // remove the (nonbasic) last row by perm: basis must be dropped (as removeRowReal(3) does) or stay valid
    int perm[4]={0,0,0,-1}; s.removeRowsReal(perm); dump(s,"after removeRowsReal(perm={0,0,0,-1})"); }
  if(what[0]=='R'){   // remove a BASIC row 1: survivors 2,3 move to 1,2 and must take their statuses with them
    int perm[4]={0,-1,0,0}; std::cout << "expected row statuses after removal: " << vs(s._basisStatusRows[0]) << " " << vs(s._basisStatusRows[2]) << " " << vs(s._basisStatusRows[3]) << std::endl;
    s.removeRowsReal(perm); dump(s,"after removeRowsReal(perm={0,-1,0,0})"); }
  if(what[0]=='e'){   // change a_{0,1}: row 0 nonbasic; is column 1 basic?  code looks at _basisStatusCols[0] instead of [1]
    std::cout << "row0 " << vs(s._basisStatusRows[0]) << ", col0 " << vs(s._basisStatusCols[0]) << ", col1 " << vs(s._basisStatusCols[1]) << std::endl;
    std::cout << "row3 " << vs(s._basisStatusRows[3]) << " (nonbasic), col0 " << vs(s._basisStatusCols[0]) << " (basic): changing a_{3,0} changes the basis matrix" << std::endl;
    std::cout << "_basisStatusCols.size()=" << s._basisStatusCols.size() << ", the code reads _basisStatusCols[i=3]" << std::endl;
    s.changeElementReal(3, 0, 5.0); dump(s,"after changeElementReal(3,0,5)"); }
  if(what[0]=='f'){   // equality row 3 is FIXED; relax its lhs: status must not stay FIXED with lhs != rhs
    s.changeLhsReal(3, 0.0); dump(s,"after changeLhsReal(3,0)");
    std::cout << "row3: lhs=" << s.lhsReal(3) << " rhs=" << s.rhsReal(3) << " status=" << vs(s.basisRowStatus(3)) << std::endl; }
  if(what[0]=='c'){   // GMP addColRational -> _addColReal(obj, lower, vec, upper)
    s.setIntParam(SoPlex::SYNCMODE, SoPlex::SYNCMODE_AUTO); unload(s);
    mpq_t obj, lo, up, val; mpq_init(obj); mpq_init(lo); mpq_init(up); mpq_init(val); mpq_set_si(obj,1,1); mpq_set_si(lo,0,1); mpq_set_si(up,10,1); mpq_set_si(val,1,1);
    int ind = 0;
    s.addColRational(&obj, &lo, &val, &ind, 1, &up); dump(s,"after addColRational(mpq...)"); }
  return 0; }
