/* PUBLIC RATIONAL: addRowRational(lprow) ADD_ROW / addColRational(lpcol) ADD_COL / addRowsRational(set) ADD_ROWS / addColsRational(set) ADD_COLS */
void w_lpmod(PARAMS)
REQ_STATE
REQ_CONSISTENT
__CPROVER_requires(QOK(w1) && QOK(w2) && QOK(w3))
__CPROVER_assigns(ASSIGNS_GHOSTS)
__CPROVER_ensures(!ONLYREAL || NOTHING)
#if defined(ADD_ROW)
__CPROVER_ensures(ONLYREAL || (gq_calls == 1 && gq_m == CODE && gq_v1 == w1 && gq_v2 == w2 && gq_tag == vtag && gq_conv == 0 && out[10] == qnr + 1 && out[11] == qnc))
__CPROVER_ensures(!AUTO || (gi_calls == 1 && gi_m == CODE && gi_v1 == TOREAL(w1) && gi_v2 == TOREAL(w2) && gi_tag == vtag && gi_conv == 1))
#elif defined(ADD_COL)
__CPROVER_ensures(ONLYREAL || (gq_calls == 1 && gq_m == CODE && gq_v1 == w1 && gq_v2 == w2 && gq_v3 == w3 && gq_tag == vtag && gq_conv == 0 && out[11] == qnc + 1 && out[10] == qnr))
__CPROVER_ensures(!AUTO || (gi_calls == 1 && gi_m == CODE && gi_v1 == TOREAL(w1) && gi_v2 == TOREAL(w2) && gi_v3 == TOREAL(w3) && gi_tag == vtag && gi_conv == 1))
#else
__CPROVER_ensures(ONLYREAL || (gq_calls == 1 && gq_m == CODE && gq_n == n && gq_pq1 == qvec1 && gq_pq2 == qvec2 && gq_pd1 == 0 && gq_pd2 == 0 && gq_tag == vtag && gq_conv == 0))
__CPROVER_ensures(!AUTO || (gi_calls == 1 && gi_m == CODE && gi_n == n && gi_pq1 == qvec1 && gi_pq2 == qvec2 && gi_pd1 == 0 && gi_pd2 == 0 && gi_tag == vtag && gi_conv == 1))
#ifdef ADD_ROWS
__CPROVER_ensures(ONLYREAL || (out[10] == qnr + n && out[11] == qnc))
#else
__CPROVER_ensures(ONLYREAL || (out[11] == qnc + n && out[10] == qnr))
#endif
#endif
__CPROVER_ensures(ONLYREAL || (g_complete_calls == 1 && g_complete_seq > gq_seq && gr_calls == 0))
__CPROVER_ensures(AUTO || gi_calls == 0)
ENS_INVALIDATED_UNLESS(ONLYREAL)
;
