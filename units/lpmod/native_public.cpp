// Native demonstration of the public-API defects found by the lpmod family unit.
// STATUS: (a) fixed by c2eb37f, (b) by 8abbce4, (c) by 788256a in /repo - on the fixed tree the demo shows the corrected behaviour; kept as reference
// for the seeded faults defect_A_*/defect_B_*/defect_C_* of units/lpmod/gen.py, which re-introduce them.
// build: g++ -std=c++14 -g -fno-access-control -I/repo/src -I/repo/_build native_public.cpp /repo/_build/lib/libsoplex.a -lgmp -lmpfr -lz -o t && ./t a && ./t b && ./t c
// (a) clearLPRational() in real-only mode; (b) bound types vs INFTY parameter; (c) changeObjRational on a persistently scaled real LP
#include <iostream>
#include <csignal>
#include <csetjmp>
#include "soplex.h"
using namespace soplex;
static sigjmp_buf jb;
static void onsig(int s){ siglongjmp(jb, s); }
static void build(SoPlex& s){
  s.setIntParam(SoPlex::VERBOSITY, SoPlex::VERBOSITY_ERROR);
  DSVector dummy(0);
  s.addColReal(LPCol(1.0, dummy, infinity, 0.0));
  s.addColReal(LPCol(1e-3, dummy, infinity, 0.0));
  { DSVector r(2); r.add(0,1000.0); r.add(1,1e-3); s.addRowReal(LPRow(1.0, r, infinity)); }
  { DSVector r(2); r.add(0,1.0); r.add(1,1.0); s.addRowReal(LPRow(-infinity, r, 1e4)); }
}
int main(int argc, char** argv){
  const char* what = argc > 1 ? argv[1] : "a";
  if(what[0]=='a'){
    SoPlex s;    // default SYNCMODE is ONLYREAL
    std::cout << "syncmode=" << s.intParam(SoPlex::SYNCMODE) << " _rationalLP=" << (void*)s._rationalLP << std::endl;
    signal(SIGSEGV, onsig); signal(SIGABRT, onsig);
    int sig = sigsetjmp(jb, 1);
    if(sig == 0){ s.clearLPRational(); std::cout << "clearLPRational returned" << std::endl; }
    else std::cout << "clearLPRational() in SYNCMODE_ONLYREAL raised signal " << sig << (sig==SIGSEGV?" (SIGSEGV)":" (SIGABRT: assertion)") << std::endl;
  }
  if(what[0]=='b'){
    SoPlex s; build(s);
    s.setIntParam(SoPlex::SYNCMODE, SoPlex::SYNCMODE_AUTO);
    s.setRealParam(SoPlex::INFTY, 1e20);
    s.changeRangeReal(0, -1e30, 5.0);     // lhs is "minus infinity" w.r.t. INFTY=1e20
    Rational lhs = s.lhsRational(0);
    bool lhsInf = lhs <= s._rationalNegInfty;
    std::cout << "INFTY=1e20, after changeRangeReal(0,-1e30,5): rational lhs <= -INFTY: " << lhsInf
              << "  _rowTypes[0]=" << (int)s._rowTypes[0] << " (0 FREE,1 LOWER,2 UPPER,3 BOXED,4 FIXED)"
              << "  _rangeTypeRational says " << (int)s._rangeTypeRational(s.lhsRational(0), s.rhsRational(0)) << std::endl;
    s.changeLhsReal(0, -1e30);            // this one classifies from the rational LP
    std::cout << "after changeLhsReal(0,-1e30): _rowTypes[0]=" << (int)s._rowTypes[0] << std::endl;
  }
  if(what[0]=='c'){
    SoPlex s; build(s);
    s.setIntParam(SoPlex::SYNCMODE, SoPlex::SYNCMODE_AUTO);
    s.setIntParam(SoPlex::SIMPLIFIER, SoPlex::SIMPLIFIER_OFF);
    s.setIntParam(SoPlex::SCALER, SoPlex::SCALER_GEO8);
    s.setBoolParam(SoPlex::PERSISTENTSCALING, true);
    s.optimize();
    std::cout << "after solve: real LP scaled=" << s._realLP->isScaled() << " objReal(1)=" << s.objReal(1) << std::endl;
    s.changeObjReal(1, 7.0);
    std::cout << "changeObjReal(1,7):     objReal(1)=" << s.objReal(1) << " objRational(1)=" << s.objRational(1) << std::endl;
    s.changeObjRational(1, Rational(7));
    std::cout << "changeObjRational(1,7): objReal(1)=" << s.objReal(1) << " objRational(1)=" << s.objRational(1) << "   (expected 7)" << std::endl;
  }
  return 0; }
