/* PUBLIC (real and rational): removeRowsXxx(int idx[], int n, int perm[]) / removeRowRangeXxx(int start, int end, int perm[]) and the column twins.
 * RANGE: the range variant (start = i, end = j).  PPM: which perm variant must be reached (1 rowsReal, 2 colsReal, 3 rowsRational, 4 colsRational).
 * DIMV: the dimension handed on as perm size. */
void w_lpmod(PARAMS)
REQ_STATE
__CPROVER_requires(PPM <= 2 || !ONLYREAL)          /* the rational variants dereference _rationalLP for the dimension */
__CPROVER_assigns(ASSIGNS_GHOSTS)
#ifdef RANGE
__CPROVER_ensures(g_i2p_calls == 1 && g_i2p_m == 2 && g_i2p_a == i && g_i2p_b == j && g_i2p_size == DIMV)
#else
__CPROVER_ensures(g_i2p_calls == 1 && g_i2p_m == 1 && g_i2p_idx == idx && g_i2p_a == n && g_i2p_size == DIMV)
#endif
/* the caller's buffer is used when one is given; the perm variant is then called with the same array */
__CPROVER_ensures(permnull || g_i2p_perm == perm)
__CPROVER_ensures(g_i2p_perm != 0 && g_pp_calls == 1 && g_pp_m == PPM && g_pp_perm == g_i2p_perm && g_pp_seq > g_i2p_seq)
__CPROVER_ensures(gi_calls == 0 && gr_calls == 0 && gq_calls == 0 && g_inval_calls == 0)
;
