/* PUBLIC RATIONAL, GMP entry points: addRowRational(const mpq_t* lhs, values, indices, size, const mpq_t* rhs) ADD_ROW /
 * addColRational(const mpq_t* obj, lower, values, indices, size, upper) ADD_COL.
 * w1 = lhs/lower, w2 = rhs/upper, w3 = obj; values = qvec1 (an array of mpq_t), indices = idx, size = n; the sparse vector the LP builds is the tag vtag.
 * The real LP receives (through the 3-/4-argument internal twin) the rounded image of what the rational LP now holds. */
void w_lpmod(PARAMS)
REQ_STATE
REQ_CONSISTENT
__CPROVER_requires(QOK(w1) && QOK(w2) && QOK(w3))
__CPROVER_requires(objsense == -1 || objsense == 1)
__CPROVER_assigns(ASSIGNS_GHOSTS)
__CPROVER_ensures(!ONLYREAL || NOTHING)
#ifdef ADD_ROW
__CPROVER_ensures(ONLYREAL || (gq_calls == 1 && gq_m == M_addRow_gmp && gq_v1 == w1 && gq_v2 == w2 && gq_n == n && gq_pq1 == qvec1 && gq_perm == idx && out[10] == qnr + 1 && out[11] == qnc))
__CPROVER_ensures(!AUTO || (gi_calls == 1 && gi_m == M_addRow3 && gi_v1 == TOREAL(w1) && gi_v2 == TOREAL(w2) && gi_tag == vtag && gi_conv == 1))
#else
__CPROVER_ensures(ONLYREAL || (gq_calls == 1 && gq_m == M_addCol_gmp && gq_v1 == w1 && gq_v2 == w2 && gq_v3 == w3 && gq_n == n && gq_pq1 == qvec1 && gq_perm == idx && out[11] == qnc + 1 && out[10] == qnr))
/* the objective travels through the "stored for maximization" form: maxObj = (sense == MAX ? obj : -obj), and is un-negated in floating point */
__CPROVER_ensures(!AUTO || (gi_calls == 1 && gi_m == M_addCol4 && gi_v1 == TOREAL(w1) && gi_v2 == TOREAL(w2) && gi_tag == vtag && gi_conv == 1
                            && gi_v3 == (objsense == 1 ? TOREAL(w3) * 1.0 : TOREAL(-w3) * -1.0)))
#endif
__CPROVER_ensures(ONLYREAL || (g_complete_calls == 1 && g_complete_seq > gq_seq && gr_calls == 0))
__CPROVER_ensures(AUTO || gi_calls == 0)
ENS_INVALIDATED_UNLESS(ONLYREAL)
;
