/* PUBLIC REAL, scalar change of both sides / bounds: changeRangeReal (ISROW) / changeBoundsReal (int i, const R& lo, const R& up).
 * The specification is the classification of the NEW RATIONAL bounds (threshold: _rationalPosInfty = realParam(INFTY)),
 * for every admissible value of INFTY (a classification with _rangeTypeReal, threshold 1e100, fails it: fixed defect B). */
void w_lpmod(PARAMS)
REQ_STATE
REQ_CONSISTENT
__CPROVER_requires(0 <= i && i < DIM && FINITE(v1) && FINITE(v2))
__CPROVER_requires(!INR(g_k, NTYPES) || v_old == TYPES[g_k])
__CPROVER_assigns(ASSIGNS_GHOSTS, ARR(TYPES))
__CPROVER_ensures(gi_calls == 1 && gi_m == CODE && gi_i == i && gi_v1 == v1 && gi_v2 == v2 && gr_calls == 0)
ENS_INVALIDATED
__CPROVER_ensures(!AUTO || (gq_calls == 1 && gq_m == CODE && gq_i == i && gq_v1 == TORAT(v1) && gq_v2 == TORAT(v2) && gq_scale == 0))
__CPROVER_ensures(AUTO || gq_calls == 0)
__CPROVER_ensures(!AUTO || TYPES[i] == RT_Q(TORAT(v1), TORAT(v2)))
__CPROVER_ensures(!INR(g_k, NTYPES) || (AUTO && g_k == i) || TYPES[g_k] == v_old)
__CPROVER_ensures(out[4] == nrt && out[5] == nct && out[10] == qnr && out[11] == qnc)
;
