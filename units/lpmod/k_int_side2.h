/* INTERNAL twin, scalar change of both sides / bounds: _changeRangeReal (ISROW) / _changeBoundsReal (int i, const R& lo, const R& up) */
#define TABLE(old) (((old) == ON_LOWER && v1 <= -infty) ? (v2 < infty ? ON_UPPER : ZERO) \
                  : ((old) == ON_UPPER && v2 >= infty) ? (v1 > -infty ? ON_LOWER : ZERO) : (old))
#define KEPT (!loaded && hasBasis)
void w_lpmod(PARAMS)
REQ_STATE
REQ_CONSISTENT
__CPROVER_requires(0 <= i && i < DIM && FINITE(v1) && FINITE(v2))
__CPROVER_requires(!INR(g_k, NBS) || v_old == BS[g_k])
__CPROVER_assigns(ASSIGNS_GHOSTS, ARR(BS))
__CPROVER_ensures(gr_calls == 1 && gr_m == CODE && gr_i == i && gr_v1 == v1 && gr_v2 == v2 && gr_scale == scaled && gq_calls == 0)
__CPROVER_ensures(g_lu_clear == 1)
__CPROVER_ensures(out[0] == (loaded ? (sbstat > K_BASIS_NO_PROBLEM) : hasBasis))
__CPROVER_ensures(!INR(g_k, NBS) || BS[g_k] == ((KEPT && g_k == i) ? TABLE(v_old) : v_old))
__CPROVER_ensures(!KEPT || ((BS[i] != ON_LOWER || v1 > -infty) && (BS[i] != ON_UPPER || v2 < infty)))
__CPROVER_ensures(out[6] == nbr && out[7] == nbc && g_inval_calls == 0 && out[8] == nr && out[9] == nc)
;
