/* INTERNAL twins _removeRowReal(int i) (ISROW) / _removeColReal(int i).
 * Removing a nonbasic row / a basic column leaves the wrong number of basic variables: the basis is dropped; otherwise the
 * status array follows the LP's swap-with-last renumbering. */
#define KEPT (!loaded && hasBasis)
#ifdef ISROW
#define SURVIVES (v_old2 == BASIC)
#else
#define SURVIVES (v_old2 != BASIC)
#endif
void w_lpmod(PARAMS)
REQ_STATE
REQ_CONSISTENT
__CPROVER_requires(0 <= i && i < DIM)
__CPROVER_requires((!INR(g_k, NBS) || v_old == BS[g_k]) && (!KEPT || (v_old2 == BS[i] && v_exp == BS[NBS - 1])))
__CPROVER_assigns(ASSIGNS_GHOSTS, ARR(BS))
__CPROVER_ensures(gr_calls == 1 && gr_m == CODE && gr_i == i && gq_calls == 0 && out[DIMOUT_R] == DIM - 1)
__CPROVER_ensures(g_lu_clear == 1)
__CPROVER_ensures(out[0] == (loaded ? (sbstat > K_BASIS_NO_PROBLEM) : (hasBasis && SURVIVES)))
__CPROVER_ensures(!(KEPT && SURVIVES) || (OUT_NBS == NBS - 1 && (!INR(g_k, NBS - 1) || BS[g_k] == (g_k == i ? v_exp : v_old))))
__CPROVER_ensures((KEPT && SURVIVES) || (OUT_NBS == NBS && (!INR(g_k, NBS) || BS[g_k] == v_old)))
__CPROVER_ensures(OUT_ONBS == ONBS && g_inval_calls == 0)
;
