/* INTERNAL twins that add: _addRowReal(lprow) ADD_ROW | _addRowReal(lhs, vec, rhs) ADD_ROW3 | _addRowsReal(set) ADD_ROWS |
 * _addColReal(lpcol) ADD_COL | _addColReal(obj, lower, vec, upper) ADD_COL4 | _addColsReal(set) ADD_COLS.
 * A kept basis is extended: a new row is BASIC; a new column is nonbasic at a FINITE bound (lower first), else ZERO. */
#define KEPT (!loaded && hasBasis)
#define NEWCOL(lo, up) ((lo) > -infty ? ON_LOWER : ((up) < infty ? ON_UPPER : ZERO))
void w_lpmod(PARAMS)
REQ_STATE
REQ_CONSISTENT
__CPROVER_requires(FINITE(v1) && FINITE(v2) && FINITE(v3))
__CPROVER_requires(!INR(g_k, NBS) || v_old == BS[g_k])
#ifdef ADD_COLS
__CPROVER_requires(!INR(g_k2, n) || (FINITE(vec1[g_k2]) && FINITE(vec2[g_k2]) && v_exp2 == NEWCOL(vec1[g_k2], vec2[g_k2])))
#endif
__CPROVER_assigns(ASSIGNS_GHOSTS, ARR(BS))
#if defined(ADD_ROW) || defined(ADD_ROW3)
__CPROVER_ensures(gr_calls == 1 && gr_m == CODE && gr_v1 == v1 && gr_v2 == v2 && gr_tag == vtag && gr_conv == 0 && gr_scale == scaled && gq_calls == 0)
__CPROVER_ensures(OUT_NBS == (KEPT ? NBS + 1 : NBS) && (!KEPT || BS[NBS] == BASIC) && out[8] == nr + 1 && out[9] == nc)
#elif defined(ADD_COL) || defined(ADD_COL4)
__CPROVER_ensures(gr_calls == 1 && gr_m == CODE && gr_v1 == v1 && gr_v2 == v2 && gr_v3 == v3 && gr_tag == vtag && gr_conv == 0 && gr_scale == scaled && gq_calls == 0)
__CPROVER_ensures(OUT_NBS == (KEPT ? NBS + 1 : NBS) && (!KEPT || BS[NBS] == NEWCOL(v1, v2)) && out[8] == nr && out[9] == nc + 1)
#elif defined(ADD_ROWS)
__CPROVER_ensures(gr_calls == 1 && gr_m == CODE && gr_n == n && gr_pd1 == vec1 && gr_pd2 == vec2 && gr_tag == vtag && gr_conv == 0 && gr_scale == scaled && gq_calls == 0)
__CPROVER_ensures(OUT_NBS == (KEPT ? NBS + n : NBS) && (!KEPT || !INR(g_k2, n) || BS[NBS + g_k2] == BASIC) && out[8] == nr + n && out[9] == nc)
#else
__CPROVER_ensures(gr_calls == 1 && gr_m == CODE && gr_n == n && gr_pd1 == vec1 && gr_pd2 == vec2 && gr_tag == vtag && gr_conv == 0 && gr_scale == scaled && gq_calls == 0)
__CPROVER_ensures(OUT_NBS == (KEPT ? NBS + n : NBS) && (!KEPT || !INR(g_k2, n) || BS[NBS + g_k2] == v_exp2) && out[8] == nr && out[9] == nc + n)
#endif
__CPROVER_ensures(g_lu_clear == 1)
__CPROVER_ensures(out[0] == (loaded ? (sbstat > K_BASIS_NO_PROBLEM) : hasBasis))
__CPROVER_ensures((!INR(g_k, NBS) || BS[g_k] == v_old) && OUT_ONBS == ONBS && g_inval_calls == 0)
;
