/* PUBLIC REAL: changeElementReal(int i, int j, const R& val) */
void w_lpmod(PARAMS)
REQ_STATE
REQ_CONSISTENT
__CPROVER_requires(0 <= i && i < nr && 0 <= j && j < nc && FINITE(v1))
__CPROVER_assigns(ASSIGNS_GHOSTS)
__CPROVER_ensures(gi_calls == 1 && gi_m == M_changeElement && gi_i == i && gi_j == j && gi_v1 == v1 && gr_calls == 0)
__CPROVER_ensures(!AUTO || (gq_calls == 1 && gq_m == M_changeElement && gq_i == i && gq_j == j && gq_v1 == TORAT(v1) && gq_scale == 0))
__CPROVER_ensures(AUTO || gq_calls == 0)
ENS_INVALIDATED
__CPROVER_ensures(out[4] == nrt && out[5] == nct && out[10] == qnr && out[11] == qnc)
;
