/* PUBLIC REAL, vector change of both sides / bounds: changeRangeReal (ISROW) / changeBoundsReal (vec, vec). */
void w_lpmod(PARAMS)
REQ_STATE
REQ_CONSISTENT
__CPROVER_requires(n == DIM)
__CPROVER_requires(!INR(g_k, NTYPES) || v_old == TYPES[g_k])
__CPROVER_requires(!INR(g_k, NTYPES) || !AUTO || (FINITE(vec1[g_k]) && FINITE(vec2[g_k]) && v_exp == RT_Q(TORAT(vec1[g_k]), TORAT(vec2[g_k]))))
__CPROVER_assigns(ASSIGNS_GHOSTS, ARR(TYPES))
__CPROVER_ensures(gi_calls == 1 && gi_m == CODE && gi_pd1 == vec1 && gi_pq1 == 0 && gi_pd2 == vec2 && gi_pq2 == 0 && gi_n == n && gr_calls == 0)
ENS_INVALIDATED
__CPROVER_ensures(!AUTO || (gq_calls == 1 && gq_m == CODE && gq_pd1 == vec1 && gq_pq1 == 0 && gq_pd2 == vec2 && gq_pq2 == 0 && gq_n == n && gq_scale == 0))
__CPROVER_ensures(AUTO || gq_calls == 0)
__CPROVER_ensures(!INR(g_k, NTYPES) || TYPES[g_k] == (AUTO ? v_exp : v_old))
__CPROVER_ensures(out[4] == nrt && out[5] == nct && out[10] == qnr && out[11] == qnc)
;
