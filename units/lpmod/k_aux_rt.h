/* Bound-type classification helpers, full domain, loop-free:
 *   RT_REAL      _rangeTypeReal(const R& lower, const R& upper)            all doubles incl. NaN / IEEE infinities
 *   RT_RATIONAL  _rangeTypeRational(const Rational& lower, const Rational& upper)
 *   RT_SWITCH    _switchRangeType(const RangeType&)
 *   RT_LOWERFIN / RT_UPPERFIN   _lowerFinite / _upperFinite(const RangeType&)   stated ON the classification: finite <=> bound inside the threshold */
#define LFIN(t) ((t) == RANGETYPE_LOWER || (t) == RANGETYPE_BOXED || (t) == RANGETYPE_FIXED)
#define UFIN(t) ((t) == RANGETYPE_UPPER || (t) == RANGETYPE_BOXED || (t) == RANGETYPE_FIXED)
void w_lpmod(PARAMS)
REQ_STATE
#if defined(RT_SWITCH)
__CPROVER_requires(RANGETYPE_FREE <= i && i <= RANGETYPE_FIXED && QOK(w1) && QOK(w2))
#elif defined(RT_LOWERFIN) || defined(RT_UPPERFIN)
__CPROVER_requires(i == RT_Q(w1, w2))
#endif
__CPROVER_assigns(ASSIGNS_GHOSTS)
#if defined(RT_REAL)
__CPROVER_ensures(out[12] == RT_R(v1, v2))
__CPROVER_ensures(LFIN(out[12]) == !(v1 <= -K_REAL_INFINITY) && UFIN(out[12]) == !(v2 >= K_REAL_INFINITY))
__CPROVER_ensures((out[12] == RANGETYPE_FIXED) == (!(v1 <= -K_REAL_INFINITY) && !(v2 >= K_REAL_INFINITY) && v1 == v2))
#elif defined(RT_RATIONAL)
__CPROVER_ensures(out[12] == RT_Q(w1, w2))
__CPROVER_ensures(LFIN(out[12]) == (w1 > -posInf) && UFIN(out[12]) == (w2 < posInf))
__CPROVER_ensures((out[12] == RANGETYPE_FIXED) == (w1 > -posInf && w2 < posInf && w1 == w2))
__CPROVER_ensures((out[12] == RANGETYPE_FREE) == (w1 <= -posInf && w2 >= posInf))
#elif defined(RT_SWITCH)
__CPROVER_ensures(out[12] == (i == RANGETYPE_LOWER ? RANGETYPE_UPPER : i == RANGETYPE_UPPER ? RANGETYPE_LOWER : i))
/* = the classification of the negated interval [-up, -lo] */
__CPROVER_ensures(i != RT_Q(w1, w2) || out[12] == RT_Q(-w2, -w1))
#elif defined(RT_LOWERFIN)
__CPROVER_ensures((out[12] != 0) == (w1 > -posInf))
#elif defined(RT_UPPERFIN)
__CPROVER_ensures((out[12] != 0) == (w2 < posInf))
#endif
__CPROVER_ensures(g_seq == 0)
;
