/* setBasis(rows[], cols[]) SETBASIS / clearBasis(): F3 (C11) and the bookkeeping of the basis kept outside the solver.
 * rows = perm array, cols = idx array of the wrapper. */
void w_lpmod(PARAMS)
REQ_STATE
REQ_CONSISTENT
#ifdef SETBASIS
__CPROVER_requires(permnull == 0 && (!INR(g_k, nr) || v_old == perm[g_k]) && (!INR(g_k2, nc) || v_old2 == idx[g_k2]))
__CPROVER_assigns(ASSIGNS_GHOSTS, ARR(bsRows), ARR(bsCols))
__CPROVER_ensures(g_lu_clear == 1 && gr_calls == 0 && gq_calls == 0)
__CPROVER_ensures(!loaded || (g_sb_calls == 1 && g_sb_rows == perm && g_sb_cols == idx && out[0] == (sbstat > K_BASIS_NO_PROBLEM) && out[6] == nbr && out[7] == nbc))
__CPROVER_ensures(loaded || (g_sb_calls == 0 && out[0] == 1 && out[6] == nr && out[7] == nc && (!INR(g_k, nr) || bsRows[g_k] == v_old) && (!INR(g_k2, nc) || bsCols[g_k2] == v_old2)))
#else
__CPROVER_assigns(ASSIGNS_GHOSTS)
__CPROVER_ensures(g_lu_clear == 1 && g_reload_calls == 1 && out[0] == 0 && out[1] == sbstat && gr_calls == 0 && gq_calls == 0)
__CPROVER_ensures(out[6] == nbr && out[7] == nbc)
#endif
;
