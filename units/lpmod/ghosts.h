/* Ghost globals of the lpmod family unit.  Defined in contract.c (C), declared extern "C" in unit.cpp.
 * To keep the write set of the contract small (dfcc checks every assignment against every assigns target)
 * the recorders are packed into a few arrays; the names below are macros for their cells.
 * gen.py parses the "#define name ARR[idx]" lines to translate the names inside loop invariants. */
#ifdef __cplusplus
#define GH_BOOL bool
extern "C" {
#define GH_EXTERN extern
#else
#define GH_BOOL _Bool
#define GH_EXTERN
#endif
/* ---- ghost inputs: havoc'd by the harness, constrained by requires, never assigned */

GH_EXTERN int g_k;
GH_EXTERN int g_k2;
GH_EXTERN int v_old;
GH_EXTERN int v_exp;
GH_EXTERN int v_old2;
GH_EXTERN int v_exp2;
GH_EXTERN int g_nr;
GH_EXTERN int g_nc;
GH_EXTERN int g_qnr;
GH_EXTERN int g_qnc;
GH_EXTERN int g_n;
GH_EXTERN int g_nbr;
GH_EXTERN int g_nbc;
GH_EXTERN int g_nrt;
GH_EXTERN int g_nct;
/* ---- packed recorders */
GH_EXTERN int GI[44];
GH_EXTERN double GD[6];
GH_EXTERN long long GQ[6];
GH_EXTERN int* GPI[17];
GH_EXTERN const double* GPD[6];
GH_EXTERN const long long* GPQ[6];
/* ---- ghost indices / expected values used by loop invariants (inputs, havoc'd by the harness) */
#define gp_rowTypes GPI[0] 
#define gp_colTypes GPI[1] 
#define gp_bsRows GPI[2] 
#define gp_bsCols GPI[3] 
#define gp_rt_size GPI[4] 
#define gp_ct_size GPI[5] 
#define gp_bsr_size GPI[6] 
#define gp_bsc_size GPI[7] 
#define gp_perm GPI[8] 
GH_EXTERN GH_BOOL* gp_hasBasis;
#define g_seq GI[0] 
/* ---- record of mutator calls on the REAL LP (_realLP) */
#define gr_calls GI[1] 
#define gr_m GI[2] 
#define gr_i GI[3] 
#define gr_j GI[4] 
#define gr_n GI[5] 
#define gr_scale GI[6] 
#define gr_seq GI[7] 
#define gr_conv GI[8] 
#define gr_v1 GD[0] 
#define gr_v2 GD[1] 
#define gr_v3 GD[2] 
#define gr_pd1 GPD[0] 
#define gr_pd2 GPD[1] 
#define gr_pq1 GPQ[0] 
#define gr_pq2 GPQ[1] 
#define gr_perm GPI[9] 
#define gr_tag GQ[0] 
/* ---- record of mutator calls on the RATIONAL LP (_rationalLP) */
#define gq_calls GI[9] 
#define gq_m GI[10] 
#define gq_i GI[11] 
#define gq_j GI[12] 
#define gq_n GI[13] 
#define gq_scale GI[14] 
#define gq_seq GI[15] 
#define gq_conv GI[16] 
#define gq_v1 GQ[1] 
#define gq_v2 GQ[2] 
#define gq_v3 GQ[3] 
#define gq_pd1 GPD[2] 
#define gq_pd2 GPD[3] 
#define gq_pq1 GPQ[2] 
#define gq_pq2 GPQ[3] 
#define gq_perm GPI[10] 
#define gq_tag GQ[4] 
/* ---- record of calls to the internal twins _xxxReal (when they are callee stubs) */
#define gi_calls GI[17] 
#define gi_m GI[18] 
#define gi_i GI[19] 
#define gi_j GI[20] 
#define gi_n GI[21] 
#define gi_seq GI[22] 
#define gi_conv GI[23] 
#define gi_v1 GD[3] 
#define gi_v2 GD[4] 
#define gi_v3 GD[5] 
#define gi_pd1 GPD[4] 
#define gi_pd2 GPD[5] 
#define gi_pq1 GPQ[4] 
#define gi_pq2 GPQ[5] 
#define gi_perm GPI[11] 
#define gi_tag GQ[5] 
/* ---- other callees */
#define g_lu_clear GI[24] /* _rationalLUSolver.clear() calls */
#define g_lu_seq GI[25] 
#define g_inval_calls GI[26] /* _invalidateSolution() */
#define g_inval_seq GI[27] 
#define g_complete_calls GI[28] /* _completeRangeTypesRational() */
#define g_complete_seq GI[29] 
#define g_solreal_inval GI[30] /* _solReal.invalidate() */
#define g_solrat_inval GI[31] /* _solRational.invalidate() */
#define g_reload_calls GI[32] /* _solver.reLoad() */
#define g_sb_calls GI[33] /* _solver.setBasis(rows, cols) */
#define g_sb_rows GPI[12] 
#define g_sb_cols GPI[13] 
#define g_i2p_calls GI[34] /* _idxToPerm / _rangeToPerm as callees */
#define g_i2p_m GI[35] 
#define g_i2p_idx GPI[14] 
#define g_i2p_a GI[36] 
#define g_i2p_b GI[37] 
#define g_i2p_perm GPI[15] 
#define g_i2p_size GI[38] 
#define g_i2p_seq GI[39] 
#define g_pp_calls GI[40] /* SoPlexBase<R>::removeRowsReal(perm) etc. reached through the qualified name */
#define g_pp_m GI[41] 
#define g_pp_perm GPI[16] 
#define g_pp_seq GI[42] 
#define g_tc_calls GI[43] /* DataArray::clear() on _rowTypes/_colTypes */
#ifdef __cplusplus
}
#endif
