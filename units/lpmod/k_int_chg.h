/* INTERNAL twins _changeRowReal(int i, lprow) (ISROW) / _changeColReal(int i, lpcol).
 * Replacing a NONBASIC row / a BASIC column changes the basis matrix: the basis is dropped.  Otherwise it is kept and
 * (column) the nonbasic status is moved away from an infinite bound. */
#define KEPT (!loaded && hasBasis)
#define TABLE(old) (((old) == ON_LOWER && v1 <= -infty) ? (v2 < infty ? ON_UPPER : ZERO) \
                  : ((old) == ON_UPPER && v2 >= infty) ? (v1 > -infty ? ON_LOWER : ZERO) : (old))
void w_lpmod(PARAMS)
REQ_STATE
REQ_CONSISTENT
__CPROVER_requires(0 <= i && i < DIM && FINITE(v1) && FINITE(v2) && FINITE(v3))
__CPROVER_requires((!INR(g_k, NBS) || v_old == BS[g_k]) && (!KEPT || v_old2 == BS[i]))
__CPROVER_assigns(ASSIGNS_GHOSTS, ARR(BS))
#ifdef ISROW
__CPROVER_ensures(gr_calls == 1 && gr_m == CODE && gr_i == i && gr_v1 == v1 && gr_v2 == v2 && gr_tag == vtag && gr_conv == 0 && gr_scale == scaled && gq_calls == 0)
__CPROVER_ensures(out[0] == (loaded ? (sbstat > K_BASIS_NO_PROBLEM) : (hasBasis && v_old2 == BASIC)))
__CPROVER_ensures(!INR(g_k, NBS) || BS[g_k] == v_old)
#else
__CPROVER_ensures(gr_calls == 1 && gr_m == CODE && gr_i == i && gr_v1 == v1 && gr_v2 == v2 && gr_v3 == v3 && gr_tag == vtag && gr_conv == 0 && gr_scale == scaled && gq_calls == 0)
__CPROVER_ensures(out[0] == (loaded ? (sbstat > K_BASIS_NO_PROBLEM) : (hasBasis && v_old2 != BASIC)))
__CPROVER_ensures(!INR(g_k, NBS) || BS[g_k] == ((KEPT && g_k == i && v_old2 != BASIC) ? TABLE(v_old) : v_old))
__CPROVER_ensures(loaded || !out[0] || ((BS[i] != ON_LOWER || v1 > -infty) && (BS[i] != ON_UPPER || v2 < infty)))
#endif
__CPROVER_ensures(g_lu_clear == 1)
__CPROVER_ensures(out[6] == nbr && out[7] == nbc && g_inval_calls == 0 && out[8] == nr && out[9] == nc)
;
