/* PUBLIC RATIONAL, scalar change of one side / bound: changeLhsRational / changeRhsRational (ISROW) / changeLowerRational /
 * changeUpperRational (int i, const Rational& v) and their GMP twins (int i, const mpq_t* v).  The rational argument is w1. */
#ifdef CHG_LOW
#define NEWLO w1
#define NEWUP Q_UP[i]
#else
#define NEWLO Q_LO[i]
#define NEWUP w1
#endif
void w_lpmod(PARAMS)
REQ_STATE
REQ_CONSISTENT
__CPROVER_requires(ONLYREAL || (0 <= i && i < QDIM && QOK(w1)))
__CPROVER_requires(!INR(g_k, NTYPES) || v_old == TYPES[g_k])
__CPROVER_assigns(ASSIGNS_GHOSTS, ARR(TYPES))
/* C07: in real-only mode a rational modifier returns before touching anything */
__CPROVER_ensures(!ONLYREAL || (NOTHING && (!INR(g_k, NTYPES) || TYPES[g_k] == v_old)))
/* otherwise the rational LP receives the argument verbatim, once, and the bound type of exactly that row/column follows */
__CPROVER_ensures(ONLYREAL || (gq_calls == 1 && gq_m == CODE && gq_i == i && gq_v1 == w1 && gr_calls == 0))
__CPROVER_ensures(ONLYREAL || TYPES[i] == RT_Q(NEWLO, NEWUP))
__CPROVER_ensures(ONLYREAL || !INR(g_k, NTYPES) || g_k == i || TYPES[g_k] == v_old)
/* automatic mode: the real LP (through the internal twin) receives the rounded image for the same index; manual mode: nothing */
__CPROVER_ensures(!AUTO || (gi_calls == 1 && gi_m == CODE && gi_i == i && gi_v1 == TOREAL(w1)))
__CPROVER_ensures(AUTO || gi_calls == 0)
ENS_INVALIDATED_UNLESS(ONLYREAL)
__CPROVER_ensures(out[4] == nrt && out[5] == nct && out[8] == nr && out[9] == nc)
;
