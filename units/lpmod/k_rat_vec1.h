/* PUBLIC RATIONAL, vector change of one side / bound: changeLhsRational / changeRhsRational (ISROW) / changeLowerRational /
 * changeUpperRational (const VectorRational&): loop contract at g_k. */
#ifdef CHG_LOW
#define NEWLO_K qvec1[g_k]
#define NEWUP_K Q_UP[g_k]
#else
#define NEWLO_K Q_LO[g_k]
#define NEWUP_K qvec1[g_k]
#endif
void w_lpmod(PARAMS)
REQ_STATE
REQ_CONSISTENT
__CPROVER_requires(ONLYREAL || n == QDIM)
__CPROVER_requires(!INR(g_k, NTYPES) || (v_old == TYPES[g_k] && (ONLYREAL || (QOK(qvec1[g_k]) && v_exp == RT_Q(NEWLO_K, NEWUP_K)))))
__CPROVER_assigns(ASSIGNS_GHOSTS, ARR(TYPES))
__CPROVER_ensures(!ONLYREAL || (NOTHING && (!INR(g_k, NTYPES) || TYPES[g_k] == v_old)))
__CPROVER_ensures(ONLYREAL || (gq_calls == 1 && gq_m == CODE && gq_pq1 == qvec1 && gq_pd1 == 0 && gq_n == n && gr_calls == 0))
__CPROVER_ensures(ONLYREAL || !INR(g_k, NTYPES) || TYPES[g_k] == v_exp)
/* the real LP receives the element-wise rounded image of the same array */
__CPROVER_ensures(!AUTO || (gi_calls == 1 && gi_m == CODE && gi_pq1 == qvec1 && gi_pd1 == 0 && gi_n == n))
__CPROVER_ensures(AUTO || gi_calls == 0)
ENS_INVALIDATED_UNLESS(ONLYREAL)
__CPROVER_ensures(out[4] == nrt && out[5] == nct && out[8] == nr && out[9] == nc)
;
