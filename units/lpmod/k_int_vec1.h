/* INTERNAL twin, vector change of one side / bound: _changeLhsReal / _changeRhsReal (ISROW) / _changeLowerReal / _changeUpperReal (const VectorBase<R>&)
 * one descending loop over the basis status array: loop contract at the ghost index g_k. */
#ifdef CHG_LOW
#define NEWLO_K vec1[g_k]
#define NEWUP_K R_UP[g_k]
#define TABLE_K(old) (((old) == ON_LOWER && vec1[g_k] <= -infty) ? (R_UP[g_k] < infty ? ON_UPPER : ZERO) : (old))
#else
#define NEWLO_K R_LO[g_k]
#define NEWUP_K vec1[g_k]
#define TABLE_K(old) (((old) == ON_UPPER && vec1[g_k] >= infty) ? (R_LO[g_k] > -infty ? ON_LOWER : ZERO) : (old))
#endif
#define KEPT (!loaded && hasBasis)
void w_lpmod(PARAMS)
REQ_STATE
REQ_CONSISTENT
__CPROVER_requires(n == DIM)
__CPROVER_requires(!INR(g_k, NBS) || (v_old == BS[g_k] && (!KEPT || (FINITE(vec1[g_k]) && v_exp == TABLE_K(v_old)))))
__CPROVER_requires(!INR(g_k, NBS) || !KEPT || ((v_old != ON_LOWER || R_LO[g_k] > -infty) && (v_old != ON_UPPER || R_UP[g_k] < infty)))
__CPROVER_assigns(ASSIGNS_GHOSTS, ARR(BS))
__CPROVER_ensures(gr_calls == 1 && gr_m == CODE && gr_pd1 == vec1 && gr_pq1 == 0 && gr_n == n && gr_scale == scaled && gq_calls == 0)
__CPROVER_ensures(g_lu_clear == 1)
__CPROVER_ensures(out[0] == (loaded ? (sbstat > K_BASIS_NO_PROBLEM) : hasBasis))
__CPROVER_ensures(!INR(g_k, NBS) || BS[g_k] == (KEPT ? v_exp : v_old))
__CPROVER_ensures(!INR(g_k, NBS) || !KEPT || ((BS[g_k] != ON_LOWER || NEWLO_K > -infty) && (BS[g_k] != ON_UPPER || NEWUP_K < infty)))
__CPROVER_ensures(out[6] == nbr && out[7] == nbc && g_inval_calls == 0 && out[8] == nr && out[9] == nc)
;
