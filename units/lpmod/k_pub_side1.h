/* PUBLIC REAL, scalar change of one side / bound:
 *   changeLhsReal / changeRhsReal (ISROW) / changeLowerReal / changeUpperReal (int i, const R& v)
 * CODE = method code, CHG_LOW: the changed bound is the lower one (lhs / lower). */
#ifdef CHG_LOW
#define NEWLO TORAT(v1)
#define NEWUP Q_UP[i]
#else
#define NEWLO Q_LO[i]
#define NEWUP TORAT(v1)
#endif
void w_lpmod(PARAMS)
REQ_STATE
REQ_CONSISTENT
__CPROVER_requires(0 <= i && i < DIM && FINITE(v1))
__CPROVER_requires(!INR(g_k, NTYPES) || v_old == TYPES[g_k])
__CPROVER_assigns(ASSIGNS_GHOSTS, ARR(TYPES))
/* F1 (C06): forwarded to the internal twin with the same index and value; solution flags invalidated */
__CPROVER_ensures(gi_calls == 1 && gi_m == CODE && gi_i == i && gi_v1 == v1 && gr_calls == 0)
ENS_INVALIDATED
/* F2 (C07): automatic mode: the rational LP receives the exactly converted value for the same index, once */
__CPROVER_ensures(!AUTO || (gq_calls == 1 && gq_m == CODE && gq_i == i && gq_v1 == TORAT(v1) && gq_scale == 0))
__CPROVER_ensures(AUTO || gq_calls == 0)
/* ... and the bound type of exactly that row/column is the classification of its NEW rational bounds */
__CPROVER_ensures(!AUTO || TYPES[i] == RT_Q(NEWLO, NEWUP))
__CPROVER_ensures(!INR(g_k, NTYPES) || (AUTO && g_k == i) || TYPES[g_k] == v_old)
__CPROVER_ensures(out[4] == nrt && out[5] == nct && out[10] == qnr && out[11] == qnc)
;
