/* C06 / C07 / C11: table-driven family unit over the LP modifiers of SoPlexBase<R> (src/soplex.hpp).
 *
 * The body of the function under contract is #included verbatim (SLICE) as the body of the zero-argument
 * member H::body(); PROLOGUE binds the real parameter names to argument slots of the host.  The
 * sub-objects of SoPlexBase the bodies talk to are ghost-recording stubs:
 *   _realLP / _rationalLP   executable LP model (sides/bounds = array view + one override + one appended
 *                           segment, row/column counts) that records every mutator call in gr_* / gq_*
 *   _xxxReal internal twins ghost recorders (gi_*); each twin is itself put under contract in its own instance
 *   _solver, _rationalLUSolver, _solReal, _solRational   ghost recorders
 * Small helpers (intParam, realParam, numRows.., lhsReal.., _rangeTypeReal/Rational, _invalidateSolution)
 * are the REAL bodies, sliced.  Qualified names SoPlexBase<R>::SYNCMODE are served by a names-only
 * template whose enumerations are extracted verbatim from soplex.h.
 *
 * Number model: R = double (CBMC's IEEE model).  Rational = ordered-group long long.  Rational(double) is
 * the order embedding "sign-magnitude bit pattern" (exact: injective, monotone, commutes with negation,
 * like the true conversion, which is trusted to boost); R(Rational) is an uninterpreted function toReal
 * (rounding, arbitrary). */
#include "verif.h"
#include "constants.h"
#include "codes.h"
#define SOPLEX_WITH_BOOST
#define SOPLEX_WITH_GMP
#ifndef CAP
#define CAP 6
#endif
#define ACAP (2 * CAP + 2)        /* physical size of every growable array handed to the wrapper */

typedef double R;
typedef double Real;
static const double infinity = K_REAL_INFINITY;

#include "ghosts.h"
extern "C" {
long long verif_toRat(double d);      /* defined in contract.c */
double verif_toReal(long long q);     /* defined in contract.c: uninterpreted, never NaN */
}

struct SPxOut { static void debug(const void*, const char*, ...) {} };

/* ------------------------------------------------------------------------------------------ numbers */
struct __mpq_struct { long long v; };
typedef __mpq_struct mpq_t[1];

struct Rational
{
   long long v;
   Rational() { v = 0; }
   Rational(const double& d) { v = verif_toRat(d); }
   Rational(const __mpq_struct* p) { v = p->v; }
   operator double() const { return verif_toReal(v); }
   bool operator<=(const Rational& o) const { return v <= o.v; }
   bool operator>=(const Rational& o) const { return v >= o.v; }
   bool operator<(const Rational& o) const { return v < o.v; }
   bool operator>(const Rational& o) const { return v > o.v; }
   bool operator==(const Rational& o) const { return v == o.v; }
   bool operator!=(const Rational& o) const { return v != o.v; }
};
inline double mpq_get_d(const __mpq_struct* p) { return verif_toReal(p->v); }

inline void conv(double& out, const double& in) { out = in; }
inline void conv(double& out, const Rational& in) { out = verif_toReal(in.v); }
inline void conv(Rational& out, const double& in) { out.v = verif_toRat(in); }
inline void conv(Rational& out, const Rational& in) { out.v = in.v; }
inline double negated(const double& x) { return -x; }
inline Rational negated(const Rational& x) { Rational r; r.v = -x.v; return r; }
inline int isRat(const double*) { return 0; }
inline int isRat(const Rational*) { return 1; }

/* ------------------------------------------------------------------------------------------ containers */
/* DataArray with the growth operations the modifiers use; storage is a raw array of ACAP cells handed in by
 * the wrapper (or the embedded buffer for `DataArray<int> p(n)` temporaries).  Every access adds the bounds
 * assertion the real class only has under assert(). */
template <class T>
struct DataArray
{
   T* data; int thesize; int themax; int is_types;
   T own[ACAP];
   DataArray() : data(0), thesize(0), themax(0), is_types(0) {}
   explicit DataArray(int n) { __CPROVER_assert(0 <= n && n <= ACAP, "DataArray(n): temporary fits the model buffer"); data = own; thesize = n; themax = ACAP; is_types = 0; }
   int size() const { return thesize; }
   T& operator[](int n) { __CPROVER_assert(0 <= n && n < thesize, "DataArray index in bounds"); return data[n]; }
   const T& operator[](int n) const { __CPROVER_assert(0 <= n && n < thesize, "DataArray index in bounds"); return data[n]; }
   T* get_ptr() { return data; }
   const T* get_const_ptr() const { return data; }
   void append(const T& t) { __CPROVER_assert(thesize < themax, "DataArray::append within model capacity"); data[thesize] = t; thesize++; }
   void append(int n, const T& t)
   {
      __CPROVER_assert(0 <= n && thesize + n <= themax, "DataArray::append(n) within model capacity");
      for(int k = 0; k < n; k++) data[thesize + k] = t;     /* completely unwound (n <= CAP) */
      thesize += n;
   }
   void removeLast() { __CPROVER_assert(thesize > 0, "DataArray::removeLast on non-empty array"); thesize--; }
   void reSize(int n) { __CPROVER_assert(0 <= n && n <= themax, "DataArray::reSize within model capacity"); thesize = n; }
   void clear() { thesize = 0; if(is_types) g_tc_calls++; }
};

/* A vector is a VIEW of a raw array: d != 0: the elementwise image of a double array; q != 0: of a rational
 * array.  Converting a vector to the other number type (VectorRational(lhs), VectorBase<R>(lhs)) therefore
 * copies the pointer; the element conversion happens on read. */
struct Rational;
template <class T>
struct VectorBase
{
   const double* d; const long long* q; int dimen;
   VectorBase() : d(0), q(0), dimen(0) {}
   VectorBase(const VectorBase<double>& o) : d(o.d), q(o.q), dimen(o.dimen) {}
   VectorBase(const VectorBase<Rational>& o) : d(o.d), q(o.q), dimen(o.dimen) {}
   int dim() const { return dimen; }
   T operator[](int n) const
   {
      __CPROVER_assert(0 <= n && n < dimen, "VectorBase index in bounds");
      T r;
      if(d != 0) conv(r, d[n]);
      else { Rational t; t.v = q[n]; conv(r, t); }
      return r;
   }
};
typedef VectorBase<Rational> VectorRational;

/* sparse vectors are opaque tags; cv counts number-type conversions.  DSVectorBase<R>(v) is only used as a converting
 * copy, so it is the same model type (a class template derived from a class template crashes goto-cc). */
template <class T> struct SVectorBase
{
   long long tag; int cv;
   SVectorBase() : tag(0), cv(0) {}
   SVectorBase(const SVectorBase<double>& o) { tag = o.tag; cv = o.cv + (isRat((T*)0) != 0); }
   SVectorBase(const SVectorBase<Rational>& o) { tag = o.tag; cv = o.cv + (isRat((T*)0) != 1); }
};
#define DSVectorBase SVectorBase

/* LPRow / LPCol: sides/bounds/objective + an opaque tag for the sparse vector; cv counts number-type conversions */
template <class T> struct LPRowBase
{
   T left, right; long long vtag; int cv;
   LPRowBase() : vtag(0), cv(0) {}
   LPRowBase(const LPRowBase<double>& o) { conv(left, o.left); conv(right, o.right); vtag = o.vtag; cv = o.cv + (isRat((T*)0) != 0); }
   LPRowBase(const LPRowBase<Rational>& o) { conv(left, o.left); conv(right, o.right); vtag = o.vtag; cv = o.cv + (isRat((T*)0) != 1); }
   T lhs() const { return left; }
   T rhs() const { return right; }
};
template <class T> struct LPColBase
{
   T object, low, up; long long vtag; int cv;
   LPColBase() : vtag(0), cv(0) {}
   LPColBase(const LPColBase<double>& o) { conv(object, o.object); conv(low, o.low); conv(up, o.up); vtag = o.vtag; cv = o.cv + (isRat((T*)0) != 0); }
   LPColBase(const LPColBase<Rational>& o) { conv(object, o.object); conv(low, o.low); conv(up, o.up); vtag = o.vtag; cv = o.cv + (isRat((T*)0) != 1); }
   T obj() const { return object; }
   T lower() const { return low; }
   T upper() const { return up; }
};
template <class T> struct LPRowSetBase
{
   int n; long long tag; int cv; VectorBase<T> lo, hi;
   LPRowSetBase() : n(0), tag(0), cv(0) {}
   LPRowSetBase(const LPRowSetBase<double>& o) : n(o.n), tag(o.tag), cv(o.cv + (isRat((T*)0) != 0)), lo(o.lo), hi(o.hi) {}
   LPRowSetBase(const LPRowSetBase<Rational>& o) : n(o.n), tag(o.tag), cv(o.cv + (isRat((T*)0) != 1)), lo(o.lo), hi(o.hi) {}
   int num() const { return n; }
   T lhs(int i) const { return lo[i]; }
   T rhs(int i) const { return hi[i]; }
};
template <class T> struct LPColSetBase
{
   int n; long long tag; int cv; VectorBase<T> lo, hi;
   LPColSetBase() : n(0), tag(0), cv(0) {}
   LPColSetBase(const LPColSetBase<double>& o) : n(o.n), tag(o.tag), cv(o.cv + (isRat((T*)0) != 0)), lo(o.lo), hi(o.hi) {}
   LPColSetBase(const LPColSetBase<Rational>& o) : n(o.n), tag(o.tag), cv(o.cv + (isRat((T*)0) != 1)), lo(o.lo), hi(o.hi) {}
   int num() const { return n; }
   T lower(int i) const { return lo[i]; }
   T upper(int i) const { return hi[i]; }
};
typedef LPRowBase<Real> LPRowReal;         typedef LPRowBase<Rational> LPRowRational;
typedef LPColBase<Real> LPColReal;         typedef LPColBase<Rational> LPColRational;
typedef LPRowSetBase<Real> LPRowSetReal;   typedef LPRowSetBase<Rational> LPRowSetRational;
typedef LPColSetBase<Real> LPColSetReal;   typedef LPColSetBase<Rational> LPColSetRational;

/* ------------------------------------------------------------------------------------------ LP model */
/* ghost recorders, selected by the number type of the LP */
#define RECORDERS(PFX, TYPE, RAWOF)                                                          \
   inline void rec_call(const TYPE*, int m) { PFX##calls++; PFX##m = m; PFX##seq = ++g_seq; } \
   inline void rec_ij(const TYPE*, int i, int j) { PFX##i = i; PFX##j = j; }                  \
   inline void rec_n(const TYPE*, int n) { PFX##n = n; }                                      \
   inline void rec_scale(const TYPE*, bool s) { PFX##scale = s; }                             \
   inline void rec_v1(const TYPE& x) { PFX##v1 = RAWOF(x); }                                  \
   inline void rec_v2(const TYPE& x) { PFX##v2 = RAWOF(x); }                                  \
   inline void rec_v3(const TYPE& x) { PFX##v3 = RAWOF(x); }                                  \
   inline void rec_vec1(const VectorBase<TYPE>& x) { PFX##pd1 = x.d; PFX##pq1 = x.q; }        \
   inline void rec_vec2(const VectorBase<TYPE>& x) { PFX##pd2 = x.d; PFX##pq2 = x.q; }        \
   inline void rec_perm(const TYPE*, int* p) { PFX##perm = p; }                               \
   inline void rec_ptrs(const TYPE*, const long long* a, int* b) { PFX##pq1 = a; PFX##perm = b; } \
   inline void rec_tag(const TYPE*, long long t, int cv) { PFX##tag = t; PFX##conv = cv; }
#define RAW_D(x) (x)
#define RAW_Q(x) ((x).v)
RECORDERS(gr_, double, RAW_D)
RECORDERS(gq_, Rational, RAW_Q)

/* one side/bound attribute: array view + one appended segment + one scalar override */
template <class T> struct Attr
{
   VectorBase<T> base; VectorBase<T> app; int app_start; bool has_app; bool ov; int ov_i; T ov_v;
   Attr() : app_start(0), has_app(false), ov(false), ov_i(0) {}
   T get(int i) const
   {
      if(ov && i == ov_i) return ov_v;
      if(has_app && i >= app_start) return app[i - app_start];
      return base[i];
   }
   void set(int i, const T& v) { ov = true; ov_i = i; ov_v = v; }
   void setAll(const VectorBase<T>& v) { base = v; ov = false; has_app = false; }
   void append(const VectorBase<T>& v, int start) { app = v; app_start = start; has_app = true; }
};

template <class T>
struct SPxLPBase
{
   int nr, nc; bool scaled;
   bool sense_max;           /* thesense == MAXIMIZE */
   long long gmp_tag;        /* identity of the sparse vector a GMP entry point builds from (values, indices, size) */
   long long last_vec_tag; int last_vec_at;
   Attr<T> a_lhs, a_rhs, a_low, a_up, a_obj;

   bool isScaled() const { return scaled; }
   int nRows() const { return nr; }
   int nCols() const { return nc; }
   T lhs(int i) const { __CPROVER_assert(0 <= i && i < nr, "LP row index in bounds"); return a_lhs.get(i); }
   T rhs(int i) const { __CPROVER_assert(0 <= i && i < nr, "LP row index in bounds"); return a_rhs.get(i); }
   T lower(int i) const { __CPROVER_assert(0 <= i && i < nc, "LP column index in bounds"); return a_low.get(i); }
   T upper(int i) const { __CPROVER_assert(0 <= i && i < nc, "LP column index in bounds"); return a_up.get(i); }
   T obj(int i) const { __CPROVER_assert(0 <= i && i < nc, "LP column index in bounds"); return a_obj.get(i); }
   T maxObj(int i) const { T o = obj(i); return sense_max ? o : negated(o); }
   SVectorBase<T> rowVector(int i) const { __CPROVER_assert(i == last_vec_at, "model: only the vector of the row just added is available"); SVectorBase<T> v; v.tag = last_vec_tag; return v; }
   SVectorBase<T> colVector(int i) const { __CPROVER_assert(i == last_vec_at, "model: only the vector of the column just added is available"); SVectorBase<T> v; v.tag = last_vec_tag; return v; }
   /* GMP entry points (template <class S> in the real class; S = mpq_t is the only use) */
   void addRow(const mpq_t* lhsValue, const mpq_t* rowValues, const int* rowIndices, int rowSize, const mpq_t* rhsValue)
   {
      T l(*lhsValue); T r(*rhsValue);
      rec_call((T*)0, M_addRow_gmp); rec_v1(l); rec_v2(r); rec_n((T*)0, rowSize); rec_ptrs((T*)0, (const long long*)rowValues, (int*)rowIndices);
      rec_tag((T*)0, gmp_tag, 0); rec_scale((T*)0, false);
      a_lhs.set(nr, l); a_rhs.set(nr, r); last_vec_tag = gmp_tag; last_vec_at = nr; nr++;
   }
   void addCol(const mpq_t* objValue, const mpq_t* lowerValue, const mpq_t* colValues, const int* colIndices, int colSize, const mpq_t* upperValue)
   {
      T o(*objValue); T l(*lowerValue); T u(*upperValue);
      rec_call((T*)0, M_addCol_gmp); rec_v1(l); rec_v2(u); rec_v3(o); rec_n((T*)0, colSize); rec_ptrs((T*)0, (const long long*)colValues, (int*)colIndices);
      rec_tag((T*)0, gmp_tag, 0); rec_scale((T*)0, false);
      a_low.set(nc, l); a_up.set(nc, u); a_obj.set(nc, o); last_vec_tag = gmp_tag; last_vec_at = nc; nc++;
   }
   /* the model stores user-space (unscaled) values */
   T lhsUnscaled(int i) const { return lhs(i); }
   T rhsUnscaled(int i) const { return rhs(i); }
   T lowerUnscaled(int i) const { return lower(i); }
   T upperUnscaled(int i) const { return upper(i); }

   void addRow(const LPRowBase<T>& row, bool scale = false)
   {
      rec_call((T*)0, M_addRow); rec_v1(row.left); rec_v2(row.right); rec_tag((T*)0, row.vtag, row.cv); rec_scale((T*)0, scale);
      a_lhs.set(nr, row.left); a_rhs.set(nr, row.right); nr++;
   }
   void addRow(const T& lhsValue, const SVectorBase<T>& rowVec, const T& rhsValue, bool scale = false)
   {
      rec_call((T*)0, M_addRow3); rec_v1(lhsValue); rec_v2(rhsValue); rec_tag((T*)0, rowVec.tag, rowVec.cv); rec_scale((T*)0, scale);
      a_lhs.set(nr, lhsValue); a_rhs.set(nr, rhsValue); nr++;
   }
   void addRows(const LPRowSetBase<T>& set, bool scale = false)
   {
      rec_call((T*)0, M_addRows); rec_n((T*)0, set.n); rec_vec1(set.lo); rec_vec2(set.hi); rec_tag((T*)0, set.tag, set.cv); rec_scale((T*)0, scale);
      a_lhs.append(set.lo, nr); a_rhs.append(set.hi, nr); nr += set.n;
   }
   void addCol(const LPColBase<T>& col, bool scale = false)
   {
      rec_call((T*)0, M_addCol); rec_v1(col.low); rec_v2(col.up); rec_v3(col.object); rec_tag((T*)0, col.vtag, col.cv); rec_scale((T*)0, scale);
      a_low.set(nc, col.low); a_up.set(nc, col.up); nc++;
   }
   void addCol(const T& objValue, const T& lowerValue, const SVectorBase<T>& colVec, const T& upperValue, bool scale = false)
   {
      rec_call((T*)0, M_addCol4); rec_v1(lowerValue); rec_v2(upperValue); rec_v3(objValue); rec_tag((T*)0, colVec.tag, colVec.cv); rec_scale((T*)0, scale);
      a_low.set(nc, lowerValue); a_up.set(nc, upperValue); nc++;
   }
   void addCols(const LPColSetBase<T>& set, bool scale = false)
   {
      rec_call((T*)0, M_addCols); rec_n((T*)0, set.n); rec_vec1(set.lo); rec_vec2(set.hi); rec_tag((T*)0, set.tag, set.cv); rec_scale((T*)0, scale);
      a_low.append(set.lo, nc); a_up.append(set.hi, nc); nc += set.n;
   }
   void changeRow(int n, const LPRowBase<T>& row, bool scale = false)
   {
      rec_call((T*)0, M_changeRow); rec_ij((T*)0, n, -1); rec_v1(row.left); rec_v2(row.right); rec_tag((T*)0, row.vtag, row.cv); rec_scale((T*)0, scale);
      a_lhs.set(n, row.left); a_rhs.set(n, row.right);
   }
   void changeCol(int n, const LPColBase<T>& col, bool scale = false)
   {
      rec_call((T*)0, M_changeCol); rec_ij((T*)0, n, -1); rec_v1(col.low); rec_v2(col.up); rec_v3(col.object); rec_tag((T*)0, col.vtag, col.cv); rec_scale((T*)0, scale);
      a_low.set(n, col.low); a_up.set(n, col.up);
   }
#define CHANGE1(NAME, CODE, ATTR)                                                              \
   void NAME(const VectorBase<T>& v, bool scale = false)                                       \
   { rec_call((T*)0, CODE##_v); rec_vec1(v); rec_n((T*)0, v.dimen); rec_scale((T*)0, scale); ATTR.setAll(v); } \
   void NAME(int i, const T& v, bool scale = false)                                            \
   { rec_call((T*)0, CODE##_i); rec_ij((T*)0, i, -1); rec_v1(v); rec_scale((T*)0, scale); ATTR.set(i, v); } \
   void NAME(int i, const mpq_t* p)                                          \
   { T v(*p); rec_call((T*)0, CODE##_i); rec_ij((T*)0, i, -1); rec_v1(v); rec_scale((T*)0, false); ATTR.set(i, v); }
#define CHANGE2(NAME, CODE, A1, A2)                                                            \
   void NAME(const VectorBase<T>& v, const VectorBase<T>& w, bool scale = false)               \
   { rec_call((T*)0, CODE##_v); rec_vec1(v); rec_vec2(w); rec_n((T*)0, v.dimen); rec_scale((T*)0, scale); A1.setAll(v); A2.setAll(w); } \
   void NAME(int i, const T& v, const T& w, bool scale = false)                                \
   { rec_call((T*)0, CODE##_i); rec_ij((T*)0, i, -1); rec_v1(v); rec_v2(w); rec_scale((T*)0, scale); A1.set(i, v); A2.set(i, w); } \
   void NAME(int i, const mpq_t* p, const mpq_t* r)                                 \
   { T v(*p); T w(*r); rec_call((T*)0, CODE##_i); rec_ij((T*)0, i, -1); rec_v1(v); rec_v2(w); rec_scale((T*)0, false); A1.set(i, v); A2.set(i, w); }
   CHANGE1(changeLhs, M_changeLhs, a_lhs)
   CHANGE1(changeRhs, M_changeRhs, a_rhs)
   CHANGE1(changeLower, M_changeLower, a_low)
   CHANGE1(changeUpper, M_changeUpper, a_up)
   CHANGE2(changeRange, M_changeRange, a_lhs, a_rhs)
   CHANGE2(changeBounds, M_changeBounds, a_low, a_up)
   CHANGE1(changeObj, M_changeObj, a_obj)
   void changeElement(int i, int j, const T& v, bool scale = false)
   { rec_call((T*)0, M_changeElement); rec_ij((T*)0, i, j); rec_v1(v); rec_scale((T*)0, scale); }
   void changeElement(int i, int j, const mpq_t* p)
   { T v(*p); rec_call((T*)0, M_changeElement); rec_ij((T*)0, i, j); rec_v1(v); rec_scale((T*)0, false); }
   /* removal: swap-with-last for a single index (doRemoveRow/doRemoveCol); order-preserving compaction for
    * perm (DataSet::remove(int perm[])): removed entries keep their negative mark, survivor k gets its new
    * index.  The compaction loop is completely unwound (nr <= CAP). */
   void removeRow(int i) { rec_call((T*)0, M_removeRow); rec_ij((T*)0, i, -1); __CPROVER_assert(0 <= i && i < nr, "removeRow index in bounds"); nr--; }
   void removeCol(int i) { rec_call((T*)0, M_removeCol); rec_ij((T*)0, i, -1); __CPROVER_assert(0 <= i && i < nc, "removeCol index in bounds"); nc--; }
   void removeRows(int perm[])
   {
      rec_call((T*)0, M_removeRows); rec_perm((T*)0, perm);
      int j = 0;
      for(int k = 0; k < nr; k++) if(perm[k] >= 0) perm[k] = j++;
      nr = j;
   }
   void removeCols(int perm[])
   {
      rec_call((T*)0, M_removeCols); rec_perm((T*)0, perm);
      int j = 0;
      for(int k = 0; k < nc; k++) if(perm[k] >= 0) perm[k] = j++;
      nc = j;
   }
   void clear() { rec_call((T*)0, M_clear); nr = 0; nc = 0; }
};
typedef SPxLPBase<Rational> SPxLPRational;

/* ------------------------------------------------------------------------------------------ solver-side stubs */
template <class T> struct SPxBasisBase
{
#include "SPxStatus.inc"
   SPxStatus thestatus;
   SPxStatus status() const { return thestatus; }
};
template <class T> struct SPxSolverBase
{
#include "VarStatus.inc"
#include "Status.inc"
   SPxBasisBase<T> thebasis; Status m_status; int nr, nc;
   const SPxBasisBase<T>& basis() const { return *(SPxBasisBase<T>*)&thebasis; }
   Status status() const { return m_status; }
   int nRows() const { return nr; }
   int nCols() const { return nc; }
   void reLoad() { g_reload_calls++; }
   void setBasis(const VarStatus rows[], const VarStatus cols[]) { g_sb_calls++; g_sb_rows = (int*)rows; g_sb_cols = (int*)cols; }
};
struct SLUFactorRational { void clear() { g_lu_clear++; g_lu_seq = ++g_seq; } };
template <class T> struct SolBase { int which; void invalidate() { if(which == 0) g_solreal_inval++; else g_solrat_inval++; } };
typedef SolBase<Rational> SolRational;

/* ------------------------------------------------------------------------------------------ names-only SoPlexBase */
template <class T>
struct SoPlexBase
{
#include "IntParam.inc"
#include "RealParam.inc"
#include "OBJSENSE.inc"
#include "SYNCMODE.inc"
#include "RangeType.inc"
   /* the perm variants as reached through the qualified name from the idx/range variants */
   void removeRowsReal(int perm[]) { g_pp_calls++; g_pp_m = 1; g_pp_perm = perm; g_pp_seq = ++g_seq; }
   void removeColsReal(int perm[]) { g_pp_calls++; g_pp_m = 2; g_pp_perm = perm; g_pp_seq = ++g_seq; }
   void removeRowsRational(int perm[]) { g_pp_calls++; g_pp_m = 3; g_pp_perm = perm; g_pp_seq = ++g_seq; }
   void removeColsRational(int perm[]) { g_pp_calls++; g_pp_m = 4; g_pp_perm = perm; g_pp_seq = ++g_seq; }
};

typedef SPxSolverBase<R>::VarStatus VarStatusR;
struct Settings
{
   int _intParamValues[SoPlexBase<R>::INTPARAM_COUNT];
   Real _realParamValues[SoPlexBase<R>::REALPARAM_COUNT];
};

/* ------------------------------------------------------------------------------------------ host */
struct Host : SoPlexBase<R>
{
   Settings* _currentSettings;
   SPxSolverBase<R> _solver;
   SPxLPBase<R>* _realLP;
   SPxLPRational* _rationalLP;
   SLUFactorRational _rationalLUSolver;
   bool _isRealLPLoaded;
   Rational _rationalPosInfty, _rationalNegInfty;
   DataArray<RangeType> _colTypes, _rowTypes;
   SPxSolverBase<R>::Status _status;
   DataArray<SPxSolverBase<R>::VarStatus> _basisStatusRows, _basisStatusCols;
   SolBase<R> _solReal; SolRational _solRational;
   bool _hasBasis, _hasSolReal, _hasSolRational;

   /* --- real helper bodies, sliced */
   int intParam(const IntParam param) const
   {
#include "intParam.inc"
   }
   Real realParam(const RealParam param) const
   {
#include "realParam.inc"
   }
   int numRows() const
   {
#include "numRows.inc"
   }
   int numCols() const
   {
#include "numCols.inc"
   }
   int numRowsRational() const
   {
#include "numRowsRational.inc"
   }
   int numColsRational() const
   {
#include "numColsRational.inc"
   }
   R lhsReal(int i) const
   {
#include "lhsReal.inc"
   }
   R rhsReal(int i) const
   {
#include "rhsReal.inc"
   }
   R lowerReal(int i) const
   {
#include "lowerReal.inc"
   }
   R upperReal(int i) const
   {
#include "upperReal.inc"
   }
   /* (the real getters return const Rational&; the model hands out values) */
   Rational lhsRational(int i) const
   {
#include "lhsRational.inc"
   }
   Rational rhsRational(int i) const
   {
#include "rhsRational.inc"
   }
   Rational lowerRational(int i) const
   {
#include "lowerRational.inc"
   }
   Rational upperRational(int i) const
   {
#include "upperRational.inc"
   }
   Rational objRational(int i) const
   {
#include "objRational.inc"
   }
   Rational maxObjRational(int i) const
   {
#include "maxObjRational.inc"
   }
#ifndef NO_HELPER_RANGETYPE
   RangeType _rangeTypeReal(const R& lower, const R& upper) const
   {
#include "_rangeTypeReal.inc"
   }
   RangeType _rangeTypeRational(const Rational& lower, const Rational& upper) const
   {
#include "_rangeTypeRational.inc"
   }
#endif
   void _invalidateSolution()
   {
      g_inval_calls++; g_inval_seq = ++g_seq;
      {
#include "_invalidateSolution.inc"
      }
   }
   /* --- callee stubs: ghost recorders */
   void _completeRangeTypesRational() { g_complete_calls++; g_complete_seq = ++g_seq; }
   void _idxToPerm(int* idx, int idxSize, int* perm, int permSize) const
   { g_i2p_calls++; g_i2p_m = 1; g_i2p_idx = idx; g_i2p_a = idxSize; g_i2p_b = 0; g_i2p_perm = perm; g_i2p_size = permSize; g_i2p_seq = ++g_seq; }
   void _rangeToPerm(int start, int end, int* perm, int permSize) const
   { g_i2p_calls++; g_i2p_m = 2; g_i2p_idx = 0; g_i2p_a = start; g_i2p_b = end; g_i2p_perm = perm; g_i2p_size = permSize; g_i2p_seq = ++g_seq; }
#define GI(m) { gi_calls++; gi_m = (m); gi_seq = ++g_seq; }
   void _addRowReal(const LPRowBase<R>& lprow) { GI(M_addRow) gi_v1 = lprow.left; gi_v2 = lprow.right; gi_tag = lprow.vtag; gi_conv = lprow.cv; }
   void _addRowReal(R lhs, const SVectorBase<R>& lprow, R rhs) { GI(M_addRow3) gi_v1 = lhs; gi_v2 = rhs; gi_tag = lprow.tag; gi_conv = lprow.cv; }
   void _addRowsReal(const LPRowSetBase<R>& s) { GI(M_addRows) gi_n = s.n; gi_pd1 = s.lo.d; gi_pq1 = s.lo.q; gi_pd2 = s.hi.d; gi_pq2 = s.hi.q; gi_tag = s.tag; gi_conv = s.cv; }
   void _addColReal(const LPColReal& c) { GI(M_addCol) gi_v1 = c.low; gi_v2 = c.up; gi_v3 = c.object; gi_tag = c.vtag; gi_conv = c.cv; }
   void _addColReal(R obj, R lower, const SVectorBase<R>& lpcol, R upper) { GI(M_addCol4) gi_v1 = lower; gi_v2 = upper; gi_v3 = obj; gi_tag = lpcol.tag; gi_conv = lpcol.cv; }
   void _addColsReal(const LPColSetReal& s) { GI(M_addCols) gi_n = s.n; gi_pd1 = s.lo.d; gi_pq1 = s.lo.q; gi_pd2 = s.hi.d; gi_pq2 = s.hi.q; gi_tag = s.tag; gi_conv = s.cv; }
   void _changeRowReal(int i, const LPRowBase<R>& r) { GI(M_changeRow) gi_i = i; gi_v1 = r.left; gi_v2 = r.right; gi_tag = r.vtag; gi_conv = r.cv; }
   void _changeColReal(int i, const LPColReal& c) { GI(M_changeCol) gi_i = i; gi_v1 = c.low; gi_v2 = c.up; gi_v3 = c.object; gi_tag = c.vtag; gi_conv = c.cv; }
#define GI1(NAME, CODE) \
   void NAME(const VectorBase<R>& v) { GI(CODE##_v) gi_pd1 = v.d; gi_pq1 = v.q; gi_n = v.dimen; } \
   void NAME(int i, const R& v) { GI(CODE##_i) gi_i = i; gi_v1 = v; }
#define GI2(NAME, CODE) \
   void NAME(const VectorBase<R>& v, const VectorBase<R>& w) { GI(CODE##_v) gi_pd1 = v.d; gi_pq1 = v.q; gi_pd2 = w.d; gi_pq2 = w.q; gi_n = v.dimen; } \
   void NAME(int i, const R& v, const R& w) { GI(CODE##_i) gi_i = i; gi_v1 = v; gi_v2 = w; }
   GI1(_changeLhsReal, M_changeLhs)
   GI1(_changeRhsReal, M_changeRhs)
   GI1(_changeLowerReal, M_changeLower)
   GI1(_changeUpperReal, M_changeUpper)
   GI2(_changeRangeReal, M_changeRange)
   GI2(_changeBoundsReal, M_changeBounds)
   void _changeElementReal(int i, int j, const R& val) { GI(M_changeElement) gi_i = i; gi_j = j; gi_v1 = val; }
   void _removeRowReal(int i) { GI(M_removeRow) gi_i = i; }
   void _removeColReal(int i) { GI(M_removeCol) gi_i = i; }
   /* the twin forwards perm to _realLP->removeRows(perm), which rewrites it; the stub does the same on the
      real LP model so that the public caller sees the rewritten perm exactly as in the real call chain */
   void _removeRowsReal(int perm[]) { GI(M_removeRows) gi_perm = perm; _realLP->removeRows(perm); }
   void _removeColsReal(int perm[]) { GI(M_removeCols) gi_perm = perm; _realLP->removeCols(perm); }
};

/* ------------------------------------------------------------------------------------------ function under contract */
#ifndef RET
#define RET void
#endif
#ifndef PROLOGUE
#define PROLOGUE
#endif
struct H : Host
{
   /* argument slots */
   int a_i, a_j, a_n; int* a_perm; int* a_idx;
   R a_r1, a_r2, a_r3; Rational a_q1, a_q2, a_q3;
   const VectorBase<R>* a_vr1; const VectorBase<R>* a_vr2;
   const VectorRational* a_vq1; const VectorRational* a_vq2;
   const LPRowBase<R>* a_rowr; const LPRowRational* a_rowq;
   const LPColBase<R>* a_colr; const LPColRational* a_colq;
   const LPRowSetBase<R>* a_rsetr; const LPRowSetRational* a_rsetq;
   const LPColSetBase<R>* a_csetr; const LPColSetRational* a_csetq;
   const SVectorBase<R>* a_svr;
   const mpq_t* a_m1; const mpq_t* a_m2; const mpq_t* a_m3; const mpq_t* a_mv;
   RangeType a_rt;
   VarStatusR* a_rows; VarStatusR* a_cols;   /* (the front end drops const on pointers to enums) */
   RET body()
   {
      PROLOGUE
#include SLICE
   }
};

extern "C" void w_lpmod(int syncmode, int objsense, int loaded, int hasBasis, int sbstat, int scaled,
                        int nr, int nc, int qnr, int qnc, int nrt, int nct, int nbr, int nbc,
                        int i, int j, int n, int permnull,
                        double infty, double v1, double v2, double v3,
                        long long posInf, long long w1, long long w2, long long w3, long long vtag,
                        double* dbuf, long long* qbuf, int* ibuf, int* perm, int* idx)
{
   /* the packed buffers (see contract.c) */
   double* r_lhs = dbuf; double* r_rhs = dbuf + ACAP; double* r_low = dbuf + 2 * ACAP; double* r_up = dbuf + 3 * ACAP;
   double* vec1 = dbuf + 4 * ACAP; double* vec2 = dbuf + 5 * ACAP; double* r_obj = dbuf + 6 * ACAP;
   long long* q_lhs = qbuf; long long* q_rhs = qbuf + ACAP; long long* q_low = qbuf + 2 * ACAP; long long* q_up = qbuf + 3 * ACAP;
   long long* qvec1 = qbuf + 4 * ACAP; long long* qvec2 = qbuf + 5 * ACAP; long long* q_obj = qbuf + 6 * ACAP;
   int* rowTypes = ibuf; int* colTypes = ibuf + ACAP; int* bsRows = ibuf + 2 * ACAP; int* bsCols = ibuf + 3 * ACAP; int* out = ibuf + 4 * ACAP;

   VIN("syncmode", syncmode); VIN("loaded", loaded); VIN("hasBasis", hasBasis); VIN("sbstat", sbstat); VIN("scaled", scaled);
   VIN("nr", nr); VIN("nc", nc); VIN("qnr", qnr); VIN("qnc", qnc); VIN("nrt", nrt); VIN("nct", nct); VIN("nbr", nbr); VIN("nbc", nbc);
   VIN("i", i); VIN("j", j); VIN("n", n); VIN("infty", infty); VIN("v1", v1); VIN("v2", v2); VIN("v3", v3);
   VIN("posInf", posInf); VIN("w1", w1); VIN("w2", w2); VIN("w3", w3); VIN("g_k", g_k);
   VIN_ARR8("bsRows", bsRows, nbr); VIN_ARR8("bsCols", bsCols, nbc); VIN_ARR8("perm", perm, nr); VIN_ARR8("idx", idx, n);


   /* the two LP models */
   SPxLPBase<R> realLP; realLP.nr = nr; realLP.nc = nc; realLP.scaled = (scaled != 0); realLP.sense_max = (objsense == SoPlexBase<R>::OBJSENSE_MAXIMIZE); realLP.gmp_tag = vtag; realLP.last_vec_at = -1;
   realLP.a_lhs.base.d = r_lhs; realLP.a_lhs.base.dimen = nr; realLP.a_rhs.base.d = r_rhs; realLP.a_rhs.base.dimen = nr;
   realLP.a_low.base.d = r_low; realLP.a_low.base.dimen = nc; realLP.a_up.base.d = r_up; realLP.a_up.base.dimen = nc; realLP.a_obj.base.d = r_obj; realLP.a_obj.base.dimen = nc;
   SPxLPRational ratLP; ratLP.nr = qnr; ratLP.nc = qnc; ratLP.scaled = false; ratLP.sense_max = realLP.sense_max; ratLP.gmp_tag = vtag; ratLP.last_vec_at = -1;
   ratLP.a_lhs.base.q = q_lhs; ratLP.a_lhs.base.dimen = qnr; ratLP.a_rhs.base.q = q_rhs; ratLP.a_rhs.base.dimen = qnr;
   ratLP.a_low.base.q = q_low; ratLP.a_low.base.dimen = qnc; ratLP.a_up.base.q = q_up; ratLP.a_up.base.dimen = qnc; ratLP.a_obj.base.q = q_obj; ratLP.a_obj.base.dimen = qnc;

   Settings st;
   st._intParamValues[SoPlexBase<R>::SYNCMODE] = syncmode;
   st._intParamValues[SoPlexBase<R>::OBJSENSE] = objsense;
   st._realParamValues[SoPlexBase<R>::INFTY] = infty;

   H h;
   h._currentSettings = &st; h._realLP = &realLP;
   /* setIntParam(SYNCMODE, SYNCMODE_ONLYREAL) frees the rational LP: in real-only mode there is none */
   h._rationalLP = (syncmode == SoPlexBase<R>::SYNCMODE_ONLYREAL) ? 0 : &ratLP;
   h._solver.thebasis.thestatus = (SPxBasisBase<R>::SPxStatus)sbstat; h._solver.m_status = (SPxSolverBase<R>::Status)sbstat; h._solver.nr = nr; h._solver.nc = nc;
   h._isRealLPLoaded = (loaded != 0); h._hasBasis = (hasBasis != 0);
   h._rationalPosInfty.v = posInf; h._rationalNegInfty.v = -posInf;
   h._rowTypes.data = (Host::RangeType*)rowTypes; h._rowTypes.thesize = nrt; h._rowTypes.themax = ACAP; h._rowTypes.is_types = 1;
   h._colTypes.data = (Host::RangeType*)colTypes; h._colTypes.thesize = nct; h._colTypes.themax = ACAP; h._colTypes.is_types = 1;
   h._basisStatusRows.data = (SPxSolverBase<R>::VarStatus*)bsRows; h._basisStatusRows.thesize = nbr; h._basisStatusRows.themax = ACAP;
   h._basisStatusCols.data = (SPxSolverBase<R>::VarStatus*)bsCols; h._basisStatusCols.thesize = nbc; h._basisStatusCols.themax = ACAP;
   h._status = (SPxSolverBase<R>::Status)out[1]; h._hasSolReal = (out[2] != 0); h._hasSolRational = (out[3] != 0);
   h._solReal.which = 0; h._solRational.which = 1;

   /* argument objects (only the ones the PROLOGUE of this instance binds are built: gen.py defines NEED_<slot>) */
   h.a_i = i; h.a_j = j; h.a_n = n; h.a_perm = permnull ? 0 : perm; h.a_idx = idx;
   h.a_r1 = v1; h.a_r2 = v2; h.a_r3 = v3; h.a_q1.v = w1; h.a_q2.v = w2; h.a_q3.v = w3;
   h.a_rt = (Host::RangeType)i;
   h.a_rows = (VarStatusR*)perm; h.a_cols = (VarStatusR*)idx;
#if defined(NEED_a_vr1) || defined(NEED_a_vr2) || defined(NEED_a_rsetr) || defined(NEED_a_csetr)
   VectorBase<R> vr1; vr1.d = vec1; vr1.dimen = n; VectorBase<R> vr2; vr2.d = vec2; vr2.dimen = n;
   h.a_vr1 = &vr1; h.a_vr2 = &vr2;
#endif
#if defined(NEED_a_vq1) || defined(NEED_a_vq2) || defined(NEED_a_rsetq) || defined(NEED_a_csetq)
   VectorRational vq1; vq1.q = qvec1; vq1.dimen = n; VectorRational vq2; vq2.q = qvec2; vq2.dimen = n;
   h.a_vq1 = &vq1; h.a_vq2 = &vq2;
#endif
#ifdef NEED_a_rowr
   LPRowBase<R> rowr; rowr.left = v1; rowr.right = v2; rowr.vtag = vtag; h.a_rowr = &rowr;
#endif
#ifdef NEED_a_rowq
   LPRowRational rowq; rowq.left.v = w1; rowq.right.v = w2; rowq.vtag = vtag; h.a_rowq = &rowq;
#endif
#ifdef NEED_a_colr
   LPColBase<R> colr; colr.low = v1; colr.up = v2; colr.object = v3; colr.vtag = vtag; h.a_colr = &colr;
#endif
#ifdef NEED_a_colq
   LPColRational colq; colq.low.v = w1; colq.up.v = w2; colq.object.v = w3; colq.vtag = vtag; h.a_colq = &colq;
#endif
#ifdef NEED_a_rsetr
   LPRowSetBase<R> rsetr; rsetr.n = n; rsetr.tag = vtag; rsetr.lo = vr1; rsetr.hi = vr2; h.a_rsetr = &rsetr;
#endif
#ifdef NEED_a_rsetq
   LPRowSetRational rsetq; rsetq.n = n; rsetq.tag = vtag; rsetq.lo = vq1; rsetq.hi = vq2; h.a_rsetq = &rsetq;
#endif
#ifdef NEED_a_csetr
   LPColSetBase<R> csetr; csetr.n = n; csetr.tag = vtag; csetr.lo = vr1; csetr.hi = vr2; h.a_csetr = &csetr;
#endif
#ifdef NEED_a_csetq
   LPColSetRational csetq; csetq.n = n; csetq.tag = vtag; csetq.lo = vq1; csetq.hi = vq2; h.a_csetq = &csetq;
#endif
#ifdef NEED_a_svr
   SVectorBase<R> svr; svr.tag = vtag; h.a_svr = &svr;
#endif
#if defined(NEED_a_m1) || defined(NEED_a_m2)
   mpq_t m1; m1[0].v = w1; mpq_t m2; m2[0].v = w2; mpq_t m3; m3[0].v = w3;
   h.a_m1 = (const mpq_t*)&m1; h.a_m2 = (const mpq_t*)&m2; h.a_m3 = (const mpq_t*)&m3;
   h.a_mv = (const mpq_t*)qvec1;          /* an array of mpq_t: same layout as the rational array */
#endif

   /* alias pointers and dimension ghosts for loop invariants */
   gp_rowTypes = rowTypes; gp_colTypes = colTypes; gp_bsRows = bsRows; gp_bsCols = bsCols; gp_perm = perm;
   gp_rt_size = &h._rowTypes.thesize; gp_ct_size = &h._colTypes.thesize;
   gp_bsr_size = &h._basisStatusRows.thesize; gp_bsc_size = &h._basisStatusCols.thesize; gp_hasBasis = &h._hasBasis;

#ifdef RET_INT
   out[12] = (int)h.body();
#else
   h.body();
#endif

   out[0] = h._hasBasis; out[1] = (int)h._status; out[2] = h._hasSolReal; out[3] = h._hasSolRational;
   out[4] = h._rowTypes.thesize; out[5] = h._colTypes.thesize; out[6] = h._basisStatusRows.thesize; out[7] = h._basisStatusCols.thesize;
   out[8] = realLP.nr; out[9] = realLP.nc; out[10] = ratLP.nr; out[11] = ratLP.nc;
   /* alias pointers must not dangle into the dead host object */
   gp_rt_size = 0; gp_ct_size = 0; gp_bsr_size = 0; gp_bsc_size = 0; gp_hasBasis = 0;
}
