/* INTERNAL twin _changeElementReal(int i, int j, const R& val): i is a ROW, j a COLUMN.
 * Changing a_ij changes the basis matrix iff row i is nonbasic (its slack is not in the basis) and column j is basic:
 * exactly then a kept basis must be dropped. */
#define KEPT (!loaded && hasBasis)
void w_lpmod(PARAMS)
REQ_STATE
REQ_CONSISTENT
__CPROVER_requires(0 <= i && i < nr && 0 <= j && j < nc && FINITE(v1))
__CPROVER_assigns(ASSIGNS_GHOSTS)
__CPROVER_ensures(gr_calls == 1 && gr_m == M_changeElement && gr_i == i && gr_j == j && gr_v1 == v1 && gr_scale == scaled && gq_calls == 0)
__CPROVER_ensures(g_lu_clear == 1)
__CPROVER_ensures(out[0] == (loaded ? (sbstat > K_BASIS_NO_PROBLEM) : (hasBasis && !(bsRows[i] != BASIC && bsCols[j] == BASIC))))
__CPROVER_ensures(out[6] == nbr && out[7] == nbc && g_inval_calls == 0 && out[8] == nr && out[9] == nc)
;
