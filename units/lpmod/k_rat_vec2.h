/* PUBLIC RATIONAL, vector change of both sides / bounds: changeRangeRational (ISROW) / changeBoundsRational (vec, vec) */
void w_lpmod(PARAMS)
REQ_STATE
REQ_CONSISTENT
__CPROVER_requires(ONLYREAL || n == QDIM)
__CPROVER_requires(!INR(g_k, NTYPES) || (v_old == TYPES[g_k] && (ONLYREAL || (QOK(qvec1[g_k]) && QOK(qvec2[g_k]) && v_exp == RT_Q(qvec1[g_k], qvec2[g_k])))))
__CPROVER_assigns(ASSIGNS_GHOSTS, ARR(TYPES))
__CPROVER_ensures(!ONLYREAL || (NOTHING && (!INR(g_k, NTYPES) || TYPES[g_k] == v_old)))
__CPROVER_ensures(ONLYREAL || (gq_calls == 1 && gq_m == CODE && gq_pq1 == qvec1 && gq_pd1 == 0 && gq_pq2 == qvec2 && gq_pd2 == 0 && gq_n == n && gr_calls == 0))
__CPROVER_ensures(ONLYREAL || !INR(g_k, NTYPES) || TYPES[g_k] == v_exp)
__CPROVER_ensures(!AUTO || (gi_calls == 1 && gi_m == CODE && gi_pq1 == qvec1 && gi_pd1 == 0 && gi_pq2 == qvec2 && gi_pd2 == 0 && gi_n == n))
__CPROVER_ensures(AUTO || gi_calls == 0)
ENS_INVALIDATED_UNLESS(ONLYREAL)
__CPROVER_ensures(out[4] == nrt && out[5] == nct && out[8] == nr && out[9] == nc)
;
