"""Shared tables for the generators of units/basis_conv, basis_solver, basis_soplex."""
import json
SOLVER_HPP = "src/soplex/spxsolver.hpp"
SOLVER_H = "src/soplex/spxsolver.h"
BASIS_H = "src/soplex/spxbasis.h"
BASIS_HPP = "src/soplex/spxbasis.hpp"

def S(as_, file, sig, must=None, nth=0):
    d = {"as": as_, "file": file, "sig": sig}
    if nth: d["nth"] = nth
    if must: d["must_contain"] = must
    return d

COMMON_SLICES = [
 S("Desc_nCols.inc", BASIS_H, r"int\s+nCols\s*\(\s*\)\s*const", [r"colstat\.size\(\)"]),
 S("Desc_nRows.inc", BASIS_H, r"int\s+nRows\s*\(\s*\)\s*const", [r"rowstat\.size\(\)"]),
 S("Desc_rowStatus_w.inc", BASIS_H, r"Status&\s+rowStatus\s*\(\s*int\s+i\s*\)", [r"rowstat\[i\]"]),
 S("Desc_rowStatus_r.inc", BASIS_H, r"Status\s+rowStatus\s*\(\s*int\s+i\s*\)\s*const", [r"rowstat\[i\]"]),
 S("Desc_colStatus_w.inc", BASIS_H, r"Status&\s+colStatus\s*\(\s*int\s+i\s*\)", [r"colstat\[i\]"]),
 S("Desc_colStatus_r.inc", BASIS_H, r"Status\s+colStatus\s*\(\s*int\s+i\s*\)\s*const", [r"colstat\[i\]"]),
 S("dualRowStatus.inc", BASIS_HPP, r"SPxBasisBase<R>::dualRowStatus\s*\(\s*int\s+i\s*\)\s*const", [r"theLP->rhs\(i\)", r"theLP->lhs\(i\)"]),
 S("dualColStatus.inc", BASIS_HPP, r"SPxBasisBase<R>::dualColStatus\s*\(\s*int\s+i\s*\)\s*const", [r"upper\(i\)", r"lower\(i\)"]),
 S("basisStatusToVarStatus.inc", SOLVER_HPP, r"SPxSolverBase<R>::basisStatusToVarStatus\s*\(\s*typename\s+SPxBasisBase<R>::Desc::Status\s+stat\s*\)\s*const", [r"switch\s*\(stat\)"]),
 S("varStatusToBasisStatusRow.inc", SOLVER_HPP, r"SPxSolverBase<R>::varStatusToBasisStatusRow\s*\(\s*int\s+row\s*,\s*typename\s+SPxSolverBase<R>::VarStatus\s+stat\s*\)\s*const", [r"dualRowStatus\(row\)"]),
 S("varStatusToBasisStatusCol.inc", SOLVER_HPP, r"SPxSolverBase<R>::varStatusToBasisStatusCol\s*\(\s*int\s+col\s*,\s*typename\s+SPxSolverBase<R>::VarStatus\s+stat\s*\)\s*const", [r"dualColStatus\(col\)"]),
 S("getBasisRowStatus.inc", SOLVER_HPP, r"SPxSolverBase<R>::getBasisRowStatus\s*\(\s*int\s+row\s*\)\s*const", [r"basisStatusToVarStatus\(this->desc\(\)\.rowStatus\(row\)\)"]),
 S("getBasisColStatus.inc", SOLVER_HPP, r"SPxSolverBase<R>::getBasisColStatus\s*\(\s*int\s+col\s*\)\s*const", [r"basisStatusToVarStatus\(this->desc\(\)\.colStatus\(col\)\)"]),
 S("Solver_isBasic.inc", SOLVER_H, r"bool\s+isBasic\s*\(\s*typename\s+SPxBasisBase<R>::Desc::Status\s+stat\s*\)\s*const", [r"stat\s*\*\s*rep\(\)\s*>\s*0"]),
 S("Solver_isRowBasic.inc", SOLVER_H, r"bool\s+isRowBasic\s*\(\s*int\s+i\s*\)\s*const", [r"rowStatus\(i\)"]),
 S("Solver_isColBasic.inc", SOLVER_H, r"bool\s+isColBasic\s*\(\s*int\s+i\s*\)\s*const", [r"colStatus\(i\)"]),
 S("Solver_rep.inc", SOLVER_H, r"Representation\s+rep\s*\(\s*\)\s*const", [r"return\s+theRep;"]),
 S("Solver_dim.inc", SOLVER_H, r"int\s+dim\s*\(\s*\)\s*const", [r"thecovectors->num\(\)"]),
]
EXTRACTS = [
 {"as": "Solver_VarStatus.inc", "file": SOLVER_H, "regex": r"enum VarStatus\s*\{.*?\};"},
 {"as": "Solver_Representation.inc", "file": SOLVER_H, "regex": r"enum Representation\s*\{.*?\};"},
 {"as": "Solver_Status.inc", "file": SOLVER_H, "regex": r"enum Status\s*\{\s*ERROR\b.*?\};"},
 {"as": "SPxBasis_SPxStatus.inc", "file": BASIS_H, "regex": r"enum SPxStatus\s*\{.*?\};"},
 {"as": "Desc_Status.inc", "file": BASIS_H, "regex": r"enum Status\s*\{\s*P_ON_LOWER\b.*?\};"},
]
CONSTANTS = [
 {"name": "VERIF_SOPLEX_INFINITY", "file": "src/soplex/spxdefines.h",
  "regex": r"typedef\s+double\s+Real;.*?#define\s+SOPLEX_DEFAULT_INFINITY\s+([0-9.eE+]+)\s"},
]
CONFORMANCE = [
 {"file": "src/soplex/spxdefines.cpp", "regex": r"const\s+Real\s+infinity\s*=\s*SOPLEX_DEFAULT_INFINITY\s*;", "why": "`infinity` is SOPLEX_DEFAULT_INFINITY (value extracted into constants.h)"},
 {"file": SOLVER_H, "regex": r"class\s+SPxSolverBase\s*:\s*public\s+SPxLPBase<R>\s*,\s*protected\s+SPxBasisBase<R>", "why": "stub SPxSolverBase derives from SPxLPBase and SPxBasisBase like the real class"},
 {"file": SOLVER_HPP, "regex": r"theRep\s*==\s*COLUMN\s*\)\s*\{\s*thevectors\s*=\s*this->colSet\(\);\s*thecovectors\s*=\s*this->rowSet\(\);", "why": "COLUMN representation: covectors (dim) are the rows"},
 {"file": SOLVER_HPP, "regex": r"assert\(theRep\s*==\s*ROW\);\s*thevectors\s*=\s*this->rowSet\(\);\s*thecovectors\s*=\s*this->colSet\(\);", "why": "ROW representation: covectors (dim) are the columns"},
 {"file": SOLVER_H, "regex": r"Representation\s+theRep;", "why": "host member theRep"},
 {"file": SOLVER_H, "regex": r"const\s+SVSetBase<R>\*\s*thecovectors;", "why": "host member thecovectors (stub set exposing num())"},
 {"file": "src/soplex/spxlpbase.h", "regex": r"const\s+R&\s+rhs\(int i\)\s+const\s*\{\s*return\s+LPRowSetBase<R>::rhs\(i\);", "why": "SPxLPBase::rhs(i) is the i-th right-hand side"},
 {"file": "src/soplex/spxlpbase.h", "regex": r"const\s+R&\s+lhs\(int i\)\s+const\s*\{\s*return\s+LPRowSetBase<R>::lhs\(i\);", "why": "SPxLPBase::lhs(i)"},
 {"file": "src/soplex/spxlpbase.h", "regex": r"const\s+R&\s+upper\(int i\)\s+const\s*\{\s*return\s+LPColSetBase<R>::upper\(i\);", "why": "SPxLPBase::upper(i)"},
 {"file": "src/soplex/spxlpbase.h", "regex": r"const\s+R&\s+lower\(int i\)\s+const\s*\{\s*return\s+LPColSetBase<R>::lower\(i\);", "why": "SPxLPBase::lower(i)"},
 {"file": BASIS_H, "regex": r"DataArray\s*<\s*Status\s*>\s*rowstat;.*?DataArray\s*<\s*Status\s*>\s*colstat;", "why": "Desc members rowstat/colstat"},
 {"file": BASIS_H, "regex": r"SPxSolverBase<R>\*\s*theLP;", "why": "SPxBasisBase::theLP is the solver"},
 {"file": BASIS_H, "regex": r"Desc\s+thedesc;", "why": "SPxBasisBase::thedesc"},
 {"file": BASIS_H, "regex": r"const\s+Desc&\s+desc\(\)\s+const\s*\{\s*return\s+thedesc;", "why": "desc() returns thedesc"},
 {"file": BASIS_H, "regex": r"SPxStatus\s+status\(\)\s+const\s*\{\s*return\s+thestatus;", "why": "SPxBasisBase::status() returns thestatus"},
]
COMMON_TRUSTED = [
 "stubs/basis_stubs.h: class skeletons SPxLPBase / SPxBasisBase(::Desc) / SPxSolverBase replicate only the data members the sliced bodies touch (conformance-checked); lhs/rhs/lower/upper/nRows/nCols read four raw arrays",
 "DataArray / VectorBase are two-field executable models that ADD the bounds assertion the real classes only have under assert()",
 "enumerations (VarStatus, Representation, SPxSolverBase::Status, SPxBasisBase::SPxStatus, Desc::Status) and the value of `infinity` are extracted from the tree on every run, never re-typed",
 "assert() compiled out (NDEBUG semantics); SPX_MSG_ERROR / SPxOut::debug are no-ops; `throw X` calls verif_throw() (asserts the contract allows a throw there) and ends the path",
 "wrappers cast int <-> enum (VarStatus, Desc::Status are passed through the C contract as int; both have 4-byte int representation in CBMC)",
]
def dump(path, doc):
    json.dump(doc, open(path, "w"), indent=1)
    print("wrote", path)
