"""Generator of unit.json (run: python3 gen_unit.py).  unit.json is the checked artefact; this script only keeps the
repetitive slice / conformance / loop-invariant tables in one place (shared part: units/basis_conv/gen_common.py)."""
import os, sys
sys.path.insert(0, os.path.join(os.path.dirname(os.path.abspath(__file__)), "..", "basis_conv"))
from gen_common import *
def inst(name, function, harness, enforce, mutants, minob=200):
    return {"name": name, "function": function, "defines": {"INST_" + name: ""}, "harness": harness, "enforce": enforce,
            "min_obligations": minob, "tier": "quick", "mutants": mutants}
P = "SPxBasisBase<R>::Desc::"
insts = [
 inst("toVar", "SPxSolverBase<R>::basisStatusToVarStatus(typename SPxBasisBase<R>::Desc::Status) const", "h_toVar", "w_toVar", [
   {"name": "swap_lower_upper", "slice": "basisStatusToVarStatus.inc", "find": "vstat = ON_LOWER;", "replace": "vstat = ON_UPPER;"},
   {"name": "free_is_basic", "slice": "basisStatusToVarStatus.inc", "find": "vstat = ZERO;", "replace": "vstat = BASIC;"},
   {"name": "drop_D_UNDEFINED", "slice": "basisStatusToVarStatus.inc", "find": "case SPxBasisBase<R>::Desc::D_UNDEFINED:", "replace": ""},
 ], 150),
 inst("toDescRow", "SPxSolverBase<R>::varStatusToBasisStatusRow(int, VarStatus) const", "h_toDesc", "w_toDesc", [
   {"name": "fixed_to_free", "slice": "varStatusToBasisStatusRow.inc", "find": "rstat = SPxBasisBase<R>::Desc::P_FIXED;", "replace": "rstat = SPxBasisBase<R>::Desc::P_FREE;"},
   {"name": "basic_to_primal", "slice": "varStatusToBasisStatusRow.inc", "find": "rstat = this->dualRowStatus(row);", "replace": "rstat = SPxBasisBase<R>::Desc::P_FREE;"},
   {"name": "dual_swap", "slice": "dualRowStatus.inc", "find": "return Desc::D_ON_LOWER;", "replace": "return Desc::D_ON_UPPER;"},
 ]),
 inst("toDescCol", "SPxSolverBase<R>::varStatusToBasisStatusCol(int, VarStatus) const", "h_toDesc", "w_toDesc", [
   {"name": "upper_to_lower", "slice": "varStatusToBasisStatusCol.inc", "find": "cstat = SPxBasisBase<R>::Desc::P_ON_UPPER;", "replace": "cstat = SPxBasisBase<R>::Desc::P_ON_LOWER;"},
   {"name": "dual_free_both", "slice": "dualColStatus.inc", "find": "return Desc::D_FREE;", "replace": "return Desc::D_ON_BOTH;"},
 ]),
 inst("dualRow", "SPxBasisBase<R>::dualRowStatus(int) const", "h_toDesc", "w_toDesc", [
   {"name": "inf_is_finite", "slice": "dualRowStatus.inc", "find": "theLP->rhs(i) < R(infinity)", "replace": "theLP->rhs(i) <= R(infinity)"},
   {"name": "lhs_rhs_swapped", "slice": "dualRowStatus.inc", "find": "else if(theLP->lhs(i) > R(-infinity))\n      return Desc::D_ON_UPPER;", "replace": "else if(theLP->lhs(i) > R(-infinity))\n      return Desc::D_ON_LOWER;"},
 ]),
 inst("dualCol", "SPxBasisBase<R>::dualColStatus(int) const", "h_toDesc", "w_toDesc", [
   {"name": "neg_inf_is_finite", "slice": "dualColStatus.inc", "find": "theLP->SPxLPBase<R>::lower(i) > R(-infinity))\n      {", "replace": "theLP->SPxLPBase<R>::lower(i) >= R(-infinity))\n      {"},
   {"name": "undefined_to_free", "slice": "dualColStatus.inc", "find": "return Desc::D_UNDEFINED;", "replace": "return Desc::D_FREE;"},
 ]),
 inst("roundtripRow", "LEMMA basisStatusToVarStatus(varStatusToBasisStatusRow(i, s)) == s", "h_roundtrip", "w_roundtrip", [
   {"name": "lower_to_upper", "slice": "varStatusToBasisStatusRow.inc", "find": "rstat = SPxBasisBase<R>::Desc::P_ON_LOWER;", "replace": "rstat = SPxBasisBase<R>::Desc::P_ON_UPPER;"},
   {"name": "back_fixed_to_zero", "slice": "basisStatusToVarStatus.inc", "find": "vstat = FIXED;", "replace": "vstat = ZERO;"},
 ]),
 inst("roundtripCol", "LEMMA basisStatusToVarStatus(varStatusToBasisStatusCol(j, s)) == s", "h_roundtrip", "w_roundtrip", [
   {"name": "zero_to_fixed", "slice": "varStatusToBasisStatusCol.inc", "find": "cstat = SPxBasisBase<R>::Desc::P_FREE;", "replace": "cstat = SPxBasisBase<R>::Desc::P_FIXED;"},
   {"name": "basic_as_free", "slice": "varStatusToBasisStatusCol.inc", "find": "cstat = this->dualColStatus(col);", "replace": "cstat = SPxBasisBase<R>::Desc::P_FREE;"},
 ]),
]
def region(as_, start, end):
    return {"as": as_, "file": BASIS_HPP, "region_start": start, "region_end": end}
R_ROW = region("loadDesc_repair.inc", r"if\(thedesc\.rowStatus\(i\) >= 0\)\s*thedesc\.rowStatus\(i\) = dualRowStatus\(i\);", r"\n\s*if\(theLP->isBasic\(thedesc\.rowStatus\(i\)\)\)")
R_COL = region("loadDesc_repair.inc", r"if\(thedesc\.colStatus\(i\) >= 0\)\s*thedesc\.colStatus\(i\) = dualColStatus\(i\);", r"\n\s*if\(theLP->isBasic\(thedesc\.colStatus\(i\)\)\)")
lr = inst("loadRoundtripRow", "LEMMA varStatusToBasisStatusRow -> status repair of SPxBasisBase<R>::loadDesc (row loop body region) -> getBasisRowStatus", "h_loadRoundtrip", "w_loadRoundtrip", [
   {"name": "no_fixed_normalisation", "slice": "loadDesc_repair.inc", "find": "thedesc.rowStatus(i) = SPxBasisBase<R>::Desc::P_FIXED;", "replace": "thedesc.rowStatus(i) = SPxBasisBase<R>::Desc::P_ON_LOWER;"},
   {"name": "upper_lost", "slice": "loadDesc_repair.inc", "find": "thedesc.rowStatus(i) != SPxBasisBase<R>::Desc::P_ON_UPPER", "replace": "thedesc.rowStatus(i) == SPxBasisBase<R>::Desc::P_ON_UPPER"},
   {"name": "lower_at_minus_infinity", "slice": "loadDesc_repair.inc", "find": "theLP->SPxLPBase<R>::lhs(i) > R(-infinity)", "replace": "theLP->SPxLPBase<R>::lhs(i) >= R(-infinity)"},
 ], 300)
lr["slices"] = COMMON_SLICES + [R_ROW]
lc = inst("loadRoundtripCol", "LEMMA varStatusToBasisStatusCol -> status repair of SPxBasisBase<R>::loadDesc (column loop body region) -> getBasisColStatus", "h_loadRoundtrip", "w_loadRoundtrip", [
   {"name": "basic_not_refreshed", "slice": "loadDesc_repair.inc", "find": "thedesc.colStatus(i) = dualColStatus(i);", "replace": "thedesc.colStatus(i) = SPxBasisBase<R>::Desc::P_FREE;"},
   {"name": "upper_at_infinity", "slice": "loadDesc_repair.inc", "find": "else if(theLP->SPxLPBase<R>::upper(i) < R(infinity))", "replace": "else if(theLP->SPxLPBase<R>::upper(i) <= R(infinity))"},
   {"name": "lower_forced", "slice": "loadDesc_repair.inc", "find": "|| thedesc.colStatus(i) == SPxBasisBase<R>::Desc::P_ON_LOWER", "replace": "|| thedesc.colStatus(i) != SPxBasisBase<R>::Desc::P_ON_LOWER"},
 ], 300)
lc["slices"] = COMMON_SLICES + [R_COL]
insts += [lr, lc]
doc = {
 "property": ["C04"],
 "desc": "status conversions Desc::Status <-> VarStatus (basisStatusToVarStatus, varStatusToBasisStatusRow/Col, dualRowStatus/dualColStatus) over the full int input domain, plus the round-trip lemma",
 "rmode": "double (IEEE, bit-precise)",
 "defines": {"CAP": "8"}, "defines_thorough": {"CAP": "256"},
 "flags": ["--bounds-check", "--pointer-check", "--signed-overflow-check"],
 "timeout_s": 120,
 "slices": COMMON_SLICES, "extracts": EXTRACTS, "constants": CONSTANTS, "conformance": CONFORMANCE,
 "trusted": COMMON_TRUSTED + ["loadRoundtripRow/Col: the status-repair statement chain is a verbatim REGION cut out of the row / column loop body of SPxBasisBase::loadDesc (between two must-match regexes); the rest of loadDesc (basis matrix set-up, theBaseId, restoreInitialBasis) is not part of the lemma", "bound arrays capped at CAP doubles (loop-free code; the cap bounds the object size only)"],
 "instances": insts,
}
dump(os.path.join(os.path.dirname(os.path.abspath(__file__)), "unit.json"), doc)
