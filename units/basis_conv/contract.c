/* Contracts for the status conversions (C04).  Full input domain: `stat` ranges over all ints; for a value
 * that is not an enumerator the real code throws, which the contract admits exactly there
 * (g_throw_allowed) and nowhere else; "ensures VALID(stat)" says that a normal return implies a valid input. */
#include "basis_spec_c.h"
#ifndef CAP
#define CAP 8
#endif

#ifdef INST_toVar
int w_toVar(int stat)
__CPROVER_requires(g_throw_allowed == !VALID_DESC(stat))
__CPROVER_assigns()
__CPROVER_ensures(VALID_DESC(stat))
__CPROVER_ensures(__CPROVER_return_value == TOVAR(stat))
__CPROVER_ensures((__CPROVER_return_value == BASIC) == IS_DUAL(stat))
__CPROVER_ensures(__CPROVER_return_value != UNDEFINED)
;
void h_toVar(void)
{
   int stat;
   g_throw_allowed = nondet_int();
   w_toVar(stat);
   CANARY();
}
#endif

#if defined(INST_toDescRow) || defined(INST_toDescCol)
int w_toDesc(int i, int stat, double* lo, double* hi, int n)
__CPROVER_requires(0 < n && n <= CAP && __CPROVER_is_fresh(lo, n * sizeof(double)) && __CPROVER_is_fresh(hi, n * sizeof(double)))
__CPROVER_requires(0 <= i && i < n)
__CPROVER_requires(g_throw_allowed == !VALID_VAR5(stat))
__CPROVER_assigns()
__CPROVER_ensures(VALID_VAR5(stat))
__CPROVER_ensures(stat != BASIC ==> __CPROVER_return_value == TOPRIMAL(stat))
__CPROVER_ensures(stat == BASIC ==> __CPROVER_return_value == DUALSTAT(lo[i], hi[i]))
/* a dual status is produced iff the VarStatus is BASIC */
__CPROVER_ensures(IS_DUAL(__CPROVER_return_value) == (stat == BASIC))
__CPROVER_ensures(IS_PRIMAL(__CPROVER_return_value) == (stat != BASIC))
;
void h_toDesc(void)
{
   int i, stat, n; double* lo; double* hi;
   g_throw_allowed = nondet_int();
   w_toDesc(i, stat, lo, hi, n);
   CANARY();
}
#endif

#if defined(INST_dualRow) || defined(INST_dualCol)
/* `stat` is unused by these instances */
int w_toDesc(int i, int stat, double* lo, double* hi, int n)
__CPROVER_requires(0 < n && n <= CAP && __CPROVER_is_fresh(lo, n * sizeof(double)) && __CPROVER_is_fresh(hi, n * sizeof(double)))
__CPROVER_requires(0 <= i && i < n)
__CPROVER_requires(g_throw_allowed == 0)
__CPROVER_assigns()
__CPROVER_ensures(__CPROVER_return_value == DUALSTAT(lo[i], hi[i]))
__CPROVER_ensures(IS_DUAL(__CPROVER_return_value))
;
void h_toDesc(void)
{
   int i, stat, n; double* lo; double* hi;
   g_throw_allowed = nondet_int();
   w_toDesc(i, stat, lo, hi, n);
   CANARY();
}
#endif

#if defined(INST_roundtripRow) || defined(INST_roundtripCol)
/* LEMMA (setBasis then getBasis at the level of one variable): for each of the five defined VarStatus values,
 * converting to a descriptor status and back is the identity - for arbitrary bounds, in particular under
 * the validity precondition of the property; no exception.  The FIXED normalisation of the property happens in
 * SPxBasisBase::loadDesc, not in the conversions. */
int w_roundtrip(int i, int stat, double* lo, double* hi, int n, int* mid)
__CPROVER_requires(0 < n && n <= CAP && __CPROVER_is_fresh(lo, n * sizeof(double)) && __CPROVER_is_fresh(hi, n * sizeof(double)))
__CPROVER_requires(__CPROVER_is_fresh(mid, sizeof(int)))
__CPROVER_requires(0 <= i && i < n)
__CPROVER_requires(VALID_VAR5(stat) && g_throw_allowed == 0)
__CPROVER_assigns(*mid)
__CPROVER_ensures(__CPROVER_return_value == stat)
__CPROVER_ensures(IS_DUAL(*mid) == (stat == BASIC))
;
void h_roundtrip(void)
{
   int i, stat, n; double* lo; double* hi; int* mid;
   g_throw_allowed = nondet_int();
   w_roundtrip(i, stat, lo, hi, n, mid);
   CANARY();
}
#endif
