/* Contracts for the status conversions (C04).  Full input domain: `stat` ranges over all ints; for a value
 * that is not an enumerator the real code throws, which the contract admits exactly there
 * (g_throw_allowed) and nowhere else; "ensures VALID(stat)" says that a normal return implies a valid input. */
#include "basis_spec_c.h"
#ifndef CAP
#define CAP 8
#endif

#ifdef INST_toVar
int w_toVar(int stat)
__CPROVER_requires(g_throw_allowed == !VALID_DESC(stat))
__CPROVER_assigns()
__CPROVER_ensures(VALID_DESC(stat))
__CPROVER_ensures(__CPROVER_return_value == TOVAR(stat))
__CPROVER_ensures((__CPROVER_return_value == BASIC) == IS_DUAL(stat))
__CPROVER_ensures(__CPROVER_return_value != UNDEFINED)
;
void h_toVar(void)
{
   int stat;
   g_throw_allowed = nondet_int();
   w_toVar(stat);
   CANARY();
}
#endif

#if defined(INST_toDescRow) || defined(INST_toDescCol)
int w_toDesc(int i, int stat, double* lo, double* hi, int n)
__CPROVER_requires(0 < n && n <= CAP && __CPROVER_is_fresh(lo, n * sizeof(double)) && __CPROVER_is_fresh(hi, n * sizeof(double)))
__CPROVER_requires(0 <= i && i < n)
__CPROVER_requires(g_throw_allowed == !VALID_VAR5(stat))
__CPROVER_assigns()
__CPROVER_ensures(VALID_VAR5(stat))
__CPROVER_ensures(stat != BASIC ==> __CPROVER_return_value == TOPRIMAL(stat))
__CPROVER_ensures(stat == BASIC ==> __CPROVER_return_value == DUALSTAT(lo[i], hi[i]))
/* a dual status is produced iff the VarStatus is BASIC */
__CPROVER_ensures(IS_DUAL(__CPROVER_return_value) == (stat == BASIC))
__CPROVER_ensures(IS_PRIMAL(__CPROVER_return_value) == (stat != BASIC))
;
void h_toDesc(void)
{
   int i, stat, n; double* lo; double* hi;
   g_throw_allowed = nondet_int();
   w_toDesc(i, stat, lo, hi, n);
   CANARY();
}
#endif

#if defined(INST_dualRow) || defined(INST_dualCol)
/* `stat` is unused by these instances */
int w_toDesc(int i, int stat, double* lo, double* hi, int n)
__CPROVER_requires(0 < n && n <= CAP && __CPROVER_is_fresh(lo, n * sizeof(double)) && __CPROVER_is_fresh(hi, n * sizeof(double)))
__CPROVER_requires(0 <= i && i < n)
__CPROVER_requires(g_throw_allowed == 0)
__CPROVER_assigns()
__CPROVER_ensures(__CPROVER_return_value == DUALSTAT(lo[i], hi[i]))
__CPROVER_ensures(IS_DUAL(__CPROVER_return_value))
;
void h_toDesc(void)
{
   int i, stat, n; double* lo; double* hi;
   g_throw_allowed = nondet_int();
   w_toDesc(i, stat, lo, hi, n);
   CANARY();
}
#endif

#if defined(INST_roundtripRow) || defined(INST_roundtripCol)
/* LEMMA (setBasis then getBasis at the level of one variable): for each of the five defined VarStatus values,
 * converting to a descriptor status and back is the identity - for arbitrary bounds, in particular under
 * the validity precondition of the property; no exception.  The FIXED normalisation of the property happens in
 * SPxBasisBase::loadDesc, not in the conversions. */
int w_roundtrip(int i, int stat, double* lo, double* hi, int n, int* mid)
__CPROVER_requires(0 < n && n <= CAP && __CPROVER_is_fresh(lo, n * sizeof(double)) && __CPROVER_is_fresh(hi, n * sizeof(double)))
__CPROVER_requires(__CPROVER_is_fresh(mid, sizeof(int)))
__CPROVER_requires(0 <= i && i < n)
__CPROVER_requires(VALID_VAR5(stat) && g_throw_allowed == 0)
__CPROVER_assigns(*mid)
__CPROVER_ensures(__CPROVER_return_value == stat)
__CPROVER_ensures(IS_DUAL(*mid) == (stat == BASIC))
;
void h_roundtrip(void)
{
   int i, stat, n; double* lo; double* hi; int* mid;
   g_throw_allowed = nondet_int();
   w_roundtrip(i, stat, lo, hi, n, mid);
   CANARY();
}
#endif

#if defined(INST_loadRoundtripRow) || defined(INST_loadRoundtripCol)
/* LEMMA "setting a valid basis and reading it back returns it unchanged, up to marking variables with equal bounds as
 * fixed", for one row / column: v -> descriptor status -> loadDesc's repair -> VarStatus.  v is one of the five statuses
 * and admissible for the bounds (NONBASIC_OK = what isBasisValid checks); bounds and objective are not NaN.
 *   BASIC stays BASIC; a nonbasic status on equal bounds comes back FIXED; ON_LOWER / ON_UPPER come back unchanged;
 *   ZERO comes back ZERO on a free variable.
 * DEVIATION that the contract records rather than hides: ZERO on a variable with a finite bound (which isBasisValid
 * accepts) does NOT come back: loadDesc moves it to a finite bound (ON_LOWER / ON_UPPER). */
int w_loadRoundtrip(int i, int stat, double* lo, double* hi, double* obj, int n, int* rowstat, int* colstat, int* mid0, int* mid1)
__CPROVER_requires(0 < n && n <= CAP && __CPROVER_is_fresh(lo, n * sizeof(double)) && __CPROVER_is_fresh(hi, n * sizeof(double)) && __CPROVER_is_fresh(obj, n * sizeof(double)))
__CPROVER_requires(__CPROVER_is_fresh(rowstat, n * sizeof(int)) && __CPROVER_is_fresh(colstat, n * sizeof(int)))
__CPROVER_requires(__CPROVER_is_fresh(mid0, sizeof(int)) && __CPROVER_is_fresh(mid1, sizeof(int)))
__CPROVER_requires(0 <= i && i < n && NOT_NAN(lo[i]) && NOT_NAN(hi[i]) && NOT_NAN(obj[i]))
__CPROVER_requires(VALID_VAR5(stat) && (stat == BASIC || NONBASIC_OK(stat, lo[i], hi[i])) && g_throw_allowed == 0)
__CPROVER_assigns(*mid0, *mid1, __CPROVER_object_whole(rowstat), __CPROVER_object_whole(colstat))
__CPROVER_ensures(stat == BASIC ==> __CPROVER_return_value == BASIC)
__CPROVER_ensures(stat != BASIC ==> __CPROVER_return_value != BASIC)
__CPROVER_ensures((stat != BASIC && lo[i] == hi[i]) ==> __CPROVER_return_value == FIXED)
__CPROVER_ensures(((stat == ON_LOWER || stat == ON_UPPER) && lo[i] != hi[i]) ==> __CPROVER_return_value == stat)
__CPROVER_ensures((stat == ZERO && INF_LO(lo[i]) && INF_UP(hi[i])) ==> __CPROVER_return_value == ZERO)
/* the deviation */
__CPROVER_ensures((stat == ZERO && lo[i] != hi[i] && !(INF_LO(lo[i]) && INF_UP(hi[i]))) ==>
                  ((__CPROVER_return_value == ON_LOWER && FIN_LO(lo[i])) || (__CPROVER_return_value == ON_UPPER && FIN_UP(hi[i]))))
/* whatever comes back is admissible for the bounds again */
__CPROVER_ensures(__CPROVER_return_value == BASIC || NONBASIC_OK(__CPROVER_return_value, lo[i], hi[i]))
__CPROVER_ensures(IS_DUAL(*mid1) == (stat == BASIC))
;
void h_loadRoundtrip(void)
{
   int i, stat, n; double* lo; double* hi; double* obj; int* rowstat; int* colstat; int* mid0; int* mid1;
   g_throw_allowed = nondet_int();
   w_loadRoundtrip(i, stat, lo, hi, obj, n, rowstat, colstat, mid0, mid1);
   CANARY();
}
#endif
