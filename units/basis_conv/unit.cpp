/* C04: status conversion between the representation-dependent basis descriptor (Desc::Status, P_x / D_x)
 * and the user-visible VarStatus: SPxSolverBase<R>::basisStatusToVarStatus, varStatusToBasisStatusRow/Col
 * (spxsolver.hpp) and SPxBasisBase<R>::dualRowStatus/dualColStatus (spxbasis.hpp), R = double.
 * All bodies are cut verbatim from the tree into the stub classes of stubs/basis_stubs.h; the wrappers
 * only build the automatic stub solver over raw arrays and cast int <-> enum. */
#include "basis_stubs.h"
typedef SolverHost Solver;
typedef SPxSolverBase<double>::VarStatus VS;
typedef SPxBasisBase<double>::Desc::Status DS;

#ifdef INST_toVar
extern "C" int w_toVar(int stat)
{
   VIN("stat", stat);
   Solver s; basis_stub_init(s, 0, 0, 0, 0, 0, 0, 0, 0, 1);
   return (int)s.basisStatusToVarStatus((DS)stat);
}
#endif

#if defined(INST_toDescRow) || defined(INST_dualRow)
/* lo/hi are the row's left/right-hand sides */
extern "C" int w_toDesc(int i, int stat, double* lo, double* hi, int n)
{
   VIN("i", i); VIN("stat", stat); VIN("n", n);
   Solver s; basis_stub_init(s, lo, hi, n, 0, 0, 0, 0, 0, 1);
#ifdef INST_dualRow
   return (int)s.dualRowStatus(i);
#else
   return (int)s.varStatusToBasisStatusRow(i, (VS)stat);
#endif
}
#endif

#if defined(INST_toDescCol) || defined(INST_dualCol)
/* lo/hi are the column's lower/upper bounds */
extern "C" int w_toDesc(int i, int stat, double* lo, double* hi, int n)
{
   VIN("i", i); VIN("stat", stat); VIN("n", n);
   Solver s; basis_stub_init(s, 0, 0, 0, lo, hi, n, 0, 0, 1);
#ifdef INST_dualCol
   return (int)s.dualColStatus(i);
#else
   return (int)s.varStatusToBasisStatusCol(i, (VS)stat);
#endif
}
#endif

#if defined(INST_roundtripRow) || defined(INST_roundtripCol)
/* LEMMA: both real bodies composed, as SPxSolverBase::setBasis followed by getBasis compose them */
extern "C" int w_roundtrip(int i, int stat, double* lo, double* hi, int n, int* mid)
{
   VIN("i", i); VIN("stat", stat); VIN("n", n);
   Solver s;
#ifdef INST_roundtripRow
   basis_stub_init(s, lo, hi, n, 0, 0, 0, 0, 0, 1);
   DS d = s.varStatusToBasisStatusRow(i, (VS)stat);
#else
   basis_stub_init(s, 0, 0, 0, lo, hi, n, 0, 0, 1);
   DS d = s.varStatusToBasisStatusCol(i, (VS)stat);
#endif
   *mid = (int)d;
   return (int)s.basisStatusToVarStatus(d);
}
#endif

#if defined(INST_loadRoundtripRow) || defined(INST_loadRoundtripCol)
/* LEMMA (setBasis -> loadBasis/loadDesc -> getBasis at the level of one variable): the real conversion bodies composed
 * with the status-repair statement chain that SPxBasisBase::loadDesc applies to every row / column (a verbatim REGION of
 * the loop body of loadDesc, spxbasis.hpp). */
struct HR : SPxSolverBase<double>
{
   void repair(int i)
   {
#include "loadDesc_repair.inc"
   }
};
extern "C" int w_loadRoundtrip(int i, int stat, double* lo, double* hi, double* obj, int n, int* rowstat, int* colstat, int* mid0, int* mid1)
{
   VIN("i", i); VIN("stat", stat); VIN("n", n);
   basis_stub_force_ctors();
   HR s;
#ifdef INST_loadRoundtripRow
   basis_stub_init(s, lo, hi, n, 0, 0, 0, rowstat, colstat, 1);
   s.objr.val = obj; s.objr.dimen = n;
   DS d = s.varStatusToBasisStatusRow(i, (VS)stat);
   s.thedesc.rowStatus(i) = d;
#else
   basis_stub_init(s, 0, 0, 0, lo, hi, n, rowstat, colstat, 1);
   s.objc.val = obj; s.objc.dimen = n;
   DS d = s.varStatusToBasisStatusCol(i, (VS)stat);
   s.thedesc.colStatus(i) = d;
#endif
   *mid0 = (int)d;
   s.repair(i);
#ifdef INST_loadRoundtripRow
   *mid1 = (int)s.thedesc.rowStatus(i);
   return (int)s.getBasisRowStatus(i);
#else
   *mid1 = (int)s.thedesc.colStatus(i);
   return (int)s.getBasisColStatus(i);
#endif
}
#endif
