/* C05 contracts, ROW representation, R = ledger.
 *
 * In ROW representation the solver's basis has numCols() vectors (rows a_i of the LP for row-basic rows I_B, unit vectors e_j
 * for row-basic columns J_B).  The user's COLUMN basis B (numRows() x numRows()) is its complement, in the order of
 * bind = getBasisInd(): bind[k] = j >= 0: column A_{.,j} (j not in J_B);  bind[k] = -1-i: unit vector e_i (row i not in I_B).
 *
 * Row r of B^-1 (rho' B = e_r'):  rho_i = [bind[r] == -1-i] for rows i outside the row basis; for row-basic rows the system
 *     sum_{i in I_B} rho_i a_ij = -a_{i0,j}  (bind[r] = -1-i0)   resp.   = [j == j0]  (bind[r] = j0)        for all j not in J_B,
 * i.e. one solve with the row-basis matrix and right-hand side  -a_{i0}  resp.  e_{j0};  rho_i = y[position of row i].
 * With persistent scaling (a~_ij = a_ij 2^(r_i + c_j)):  sum_i (rho_i 2^-r_i) a~_ij = -2^(-r_i0) a~_{i0,j}  resp.  2^(c_j0) [j == j0],
 * so the right-hand side is  -a~_{i0} shifted by -rowExp(i0)  resp.  e_{j0} shifted by +colExp(j0),  and rho_i = y shifted by +rowExp(i).
 *
 * B' v (multBasisTranspose): component k = (column k of B) . v = v[i] (unit vector e_i) resp. A_{.,j} . v with the UNSCALED column
 * when unscaling is requested and the LP is scaled, the solver's column otherwise. */
#include "verif_c.h"
#ifndef CAP
#define CAP 8
#endif
typedef long long R;
#define EXP_MAX (1 << 20)
#define FIN (1LL << 30)
#include "Representation.inc"
enum { K_NONE = 0, K_COSOLVE = 1, K_SOLVE = 2, K_MULTBASEWITH = 3, K_MULTWITHBASE = 4 };
enum { V_OTHER = 0, V_UNIT = 1, V_LPROW = 2, V_LPCOL = 3, V_LPROW_UNSCALED = 4, V_LPCOL_UNSCALED = 5 };

int g_ssdim, g_n, g_nc, g_p, g_i, g_w, g_in, g_knum, g_q;
R v_kout, v_kin;
int g_kcalls, g_kkind, g_kx_ok, g_rhs_size, g_rhs_idx; R g_rhs_val;
int g_setup_calls, g_ensure_calls;
R* gp_s1; R* gp_s2; int g_s1_used, g_s2_used; int* gp_xidx; R* gp_kout; const void* gp_local_x;
R* gp_dsv; int* gp_dsi; int g_ds_used_once; int* gp_ds_used; int* gp_ds_gpos;
int g_bw, g_bin, g_getbind_calls, g_bind_ok; int* gp_bind; int g_alloc_calls, g_free_calls;
int g_rowvec_index, g_rhs_neg, g_rhs_kind, g_rhs_src;
int g_dot_calls_p, g_dot_kind, g_dot_src, g_dot_x_ok, g_last_kind, g_last_src, g_last_xok; R v_dot, v_last;
R* gp_rv_vals; int* gp_rv_idx; int g_rv_len;
R* gp_coef; int* gp_ninds; R* gp_vec;
/* ghost copies */
R v_rv; int v_ri, v_rexp_p, v_bind, v_exp_r, g_scale, K_UNIT, K_LPCOL, K_LPCOL_UNSCALED;
void verif_throw(void) {}
#define EXP_OK(e) (-EXP_MAX <= (e) && (e) <= EXP_MAX)
#define SCALE (unscale && isScaled)

#define GHOST_ASSIGNS \
__CPROVER_assigns(g_ssdim, g_w, g_in, g_knum, v_kout, v_kin, g_kcalls, g_kkind, g_kx_ok, g_rhs_size, g_rhs_idx, g_rhs_val, g_setup_calls) \
__CPROVER_assigns(gp_s1, gp_s2, g_s1_used, g_s2_used, gp_xidx, gp_kout, gp_local_x, gp_dsv, gp_dsi, g_ds_used_once, gp_ds_used, gp_ds_gpos) \
__CPROVER_assigns(g_getbind_calls, g_bind_ok, gp_bind, g_alloc_calls, g_free_calls, g_rowvec_index, g_rhs_neg, g_rhs_kind, g_rhs_src) \
__CPROVER_assigns(g_dot_calls_p, g_dot_kind, g_dot_src, g_dot_x_ok, g_last_kind, g_last_src, g_last_xok, v_dot, v_last) \
__CPROVER_assigns(gp_rv_vals, gp_rv_idx, g_rv_len, gp_coef, gp_ninds, gp_vec)

#ifdef INST_BINVROW_ROW
#define INDEXROW (-1 - v_bind)
int w_binvrow_row(int r, R* coef, int* ninds, int has_ninds, int unscale, int n, int nc, int isScaled,
                  int* baseInfo, int* baseNum, int* rowexp, int* colexp, R* s1, int* xidx, R* kout, int* bind,
                  R* dsv, int* dsi, R* rv_vals, int* rv_idx, int rv_len)
__CPROVER_requires(0 < n && n <= CAP && 0 < nc && nc <= CAP && g_n == n && g_nc == nc)
__CPROVER_requires(0 <= r && r < n)                 /* established by the function's prologue (units/basisinv) */
__CPROVER_requires(__CPROVER_is_fresh(coef, n * sizeof(R)) && __CPROVER_is_fresh(ninds, sizeof(int)))
__CPROVER_requires(__CPROVER_is_fresh(baseInfo, nc * sizeof(int)) && __CPROVER_is_fresh(baseNum, nc * sizeof(int)))
__CPROVER_requires(__CPROVER_is_fresh(rowexp, n * sizeof(int)) && __CPROVER_is_fresh(colexp, nc * sizeof(int)))
__CPROVER_requires(__CPROVER_is_fresh(s1, nc * sizeof(R)) && __CPROVER_is_fresh(xidx, nc * sizeof(int)) && __CPROVER_is_fresh(kout, nc * sizeof(R)))
__CPROVER_requires(__CPROVER_is_fresh(bind, n * sizeof(int)) && __CPROVER_is_fresh(dsv, nc * sizeof(R)) && __CPROVER_is_fresh(dsi, nc * sizeof(int)))
__CPROVER_requires(__CPROVER_is_fresh(rv_vals, nc * sizeof(R)) && __CPROVER_is_fresh(rv_idx, nc * sizeof(int)) && 0 <= rv_len && rv_len <= nc)
/* type invariant of getBasisInd's result (property C04) at the position read */
__CPROVER_requires(v_bind == bind[r] && (v_bind >= 0 ? v_bind < nc : -1 - (long long)v_bind < n))
__CPROVER_requires(v_exp_r == (v_bind >= 0 ? colexp[v_bind] : rowexp[-1 - v_bind]) && EXP_OK(v_exp_r))
__CPROVER_requires(0 <= g_p && g_p < n && v_rexp_p == rowexp[g_p] && EXP_OK(v_rexp_p))
__CPROVER_requires(0 <= g_q && g_q < nc && v_rv == rv_vals[g_q] && v_ri == rv_idx[g_q] && -FIN <= v_rv && v_rv <= FIN)
__CPROVER_requires((g_bin == 0 || g_bin == 1) && (g_bin ==> (0 <= g_bw && g_bw < nc && -FIN <= kout[g_bw] && kout[g_bw] <= FIN)))
__CPROVER_requires(g_scale == (SCALE ? 1 : 0))
GHOST_ASSIGNS
__CPROVER_assigns(__CPROVER_object_whole(coef), __CPROVER_object_whole(s1), __CPROVER_object_whole(kout), __CPROVER_object_whole(dsv), __CPROVER_object_whole(dsi))
__CPROVER_assigns(has_ninds: *ninds)
__CPROVER_ensures(__CPROVER_return_value == 1)
/* bind is what getBasisInd() wrote into the allocated array; allocated and freed once */
__CPROVER_ensures(g_getbind_calls == 1 && g_bind_ok && g_alloc_calls == 1 && g_free_calls == 1)
/* one solve with the row-basis matrix, on the local work vector */
__CPROVER_ensures(g_kcalls == 1 && g_kkind == K_SOLVE && g_kx_ok)
/* basic slack of row i0: right-hand side = MINUS row i0 of the solver's LP, every entry shifted by -rowExp(i0) iff unscaling */
__CPROVER_ensures(v_bind < 0 ==> (g_rowvec_index == INDEXROW && g_rhs_size == rv_len && g_rhs_neg == 1))
__CPROVER_ensures((v_bind < 0 && g_q < rv_len) ==> (g_rhs_idx == v_ri && g_rhs_val == v_rv + (SCALE ? -v_exp_r : 0)))
/* basic column j0: right-hand side = unit vector e_j0, shifted by +colExp(j0) iff unscaling */
__CPROVER_ensures(v_bind >= 0 ==> (g_rhs_size == 1 && g_rhs_neg == 0))
__CPROVER_ensures((v_bind >= 0 && g_q == 0) ==> (g_rhs_idx == v_bind && g_rhs_val == (SCALE ? v_exp_r : 0)))
/* result at row g_p: 1 at the slack's own row; the solve component of the basis position holding row g_p, shifted by
   +rowExp(g_p) iff unscaling; 0 for every other row */
__CPROVER_ensures(coef[g_p] == ((v_bind < 0 && g_p == INDEXROW) ? 1 : (g_bin ? v_kout + (SCALE ? v_rexp_p : 0) : 0)))
__CPROVER_ensures(has_ninds ==> *ninds == -1)
;
void h_binvrow_row(void)
{
   int r; R* coef; int* ninds; int has_ninds, unscale, n, nc, isScaled; int* baseInfo; int* baseNum; int* rowexp; int* colexp; R* s1; int* xidx; R* kout;
   int* bind; R* dsv; int* dsi; R* rv_vals; int* rv_idx; int rv_len;
   g_n = nondet_int(); g_nc = nondet_int(); g_p = nondet_int(); g_q = nondet_int(); g_bw = nondet_int(); g_bin = nondet_int();
   v_rv = nondet_ll(); v_ri = nondet_int(); v_rexp_p = nondet_int(); v_bind = nondet_int(); v_exp_r = nondet_int(); g_scale = nondet_int();
   v_kout = nondet_ll();
   w_binvrow_row(r, coef, ninds, has_ninds, unscale, n, nc, isScaled, baseInfo, baseNum, rowexp, colexp, s1, xidx, kout, bind, dsv, dsi, rv_vals, rv_idx, rv_len);
   CANARY();
}
#endif
/* (multBasisTranspose_row: contract_dense.c) */
