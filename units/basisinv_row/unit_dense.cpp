/* C05: ROW-representation branches of SoPlexBase<R>::getBasisInverseColReal, getBasisInverseTimesVecReal and multBasis
 * (src/soplex.hpp), R = ledger.  The code under contract is cut verbatim out of the tree as the REGION of each function that
 * forms its ROW branch (getBasisInverseTimesVecReal: + the two declarations that open the function and its common tail); the
 * host appends the function's last statement `return true;` (conformance-checked).  The common prologue (hasBasis,
 * _ensureRealLPLoaded, representation test, range test of c) is under contract in units/basisinv.
 * Dense vectors, element proxies and the R-arithmetic stubs: c05_row_dense.h. */
#define C05_ROW
extern "C" {
   extern int g_p, g_b, g_addb, g_add_pos, g_q; extern long long v_add;
}
/* rowrhs.add(i, v): the entry for the ghost row-basis position g_b is counted and recorded */
#define C05_ADD_HOOK(i, v) if((i) == g_b) { g_addb++; v_add = (v); g_add_pos = this->used - 1; g_q = this->used - 1; }
#define C05_SVECTOR_EXTRA_FILE "svector_extra.h"
#define C05_DSVECTOR_EXTRA_FILE "dsvector_extra.h"
#include "../basisinv/c05_stubs.h"
#include "c05_row_dense.h"
#define VectorBase VectorBaseRow
#define SSVectorBase SSVectorBaseRow

template <class T> struct SPxSolverBase
{
#include "Representation.inc"
};
template <class T> struct SoPlexBase {};

struct SPxId
{
   int info; int num;
   bool isSPxRowId() const { return info < 0; }
   bool isSPxColId() const { return info > 0; }
};
extern "C" {
   extern int g_c, g_cin, g_cw;         /* g_cin: some row-basis position holds the row id of row g_c (= c); then it is position g_cw */
   extern int v_bind;                   /* bind[ghost position] as getBasisInd() returns it */
   extern int g_getbind_calls, g_bind_ok; extern int g_alloc_calls, g_free_calls;
   extern int g_rhs_neg, g_rhs_kind, g_rhs_src;
   extern R* gp_coef; extern int* gp_ninds; extern R* gp_vec; extern R* gp_rhs; extern R* gp_sol;
}
/* spx_alloc(bind, n) / spx_free(bind): the index array lives in a caller-supplied buffer (no heap under dfcc) */
static inline void spx_alloc(int*& p, int n)
{
   __CPROVER_assert(p == nullptr && n == g_n && g_alloc_calls == 0, "spx_alloc(bind, numRows()) once");
   g_alloc_calls++; p = gp_bind;
}
static inline void spx_free(int*& p) { __CPROVER_assert(p == gp_bind, "spx_free of the allocated array"); g_free_calls++; p = nullptr; }
/* memset(coef, 0, numRows() * sizeof(Real)) modelled at the ghost position (see c05_copy) */
static inline void c05_memset(R* d, int c, size_t bytes)
{
   __CPROVER_assert(c == 0 && bytes == (size_t)g_n * sizeof(R), "memset(coef, 0, numRows() * sizeof(R))");
   if(bytes > 0)
   {
      __CPROVER_havoc_object(d);
      if(0 <= g_p && g_p < g_n) d[g_p] = 0;
   }
}
#define memset(d, c, n) c05_memset(d, c, n)

static inline void c05_prov(SVectorBase<R>& v, int kind, int src)
{
   v.vals = 0; v.idxs = 0; v.used = 0; v.cap = 0; v.kind = kind; v.src = src; v.neg = false; v.gpos = -1;
}
struct LPStub
{
   int nr, nc; bool _isScaled;
   int nRows() const { return nr; }
   int nCols() const { return nc; }
   bool isScaled() const { return _isScaled; }
   /* i-th row of the loaded (scaled) LP (real: const SVectorBase<R>&): a storage-free vector that carries its provenance only
      (it is only ever an operand of the opaque dot product) */
   SVectorBase<R> rowVector(int i) const
   {
      __CPROVER_assert(0 <= i && i < nr, "rowVector index in bounds");
      SVectorBase<R> v; c05_prov(v, V_LPROW, i); return v;
   }
};
struct ScalerStub
{
   DataArray<int>* m_activeColscaleExp;
   DataArray<int>* m_activeRowscaleExp;
   int getColScaleExp(int i) const
   {
#include "getColScaleExp.inc"
   }
   int getRowScaleExp(int i) const
   {
#include "getRowScaleExp.inc"
   }
};
/* SPxBasisBase<R> in ROW representation: numCols() basis vectors.  Type invariant (C04): ids name existing rows/columns and
 * are pairwise different; for the row g_c: g_cin <=> some position holds its row id, and then exactly position g_cw. */
struct BasisStub
{
   int* info; int* num; int size; int nr, nc;
   SPxId baseId(int i) const
   {
      __CPROVER_assert(0 <= i && i < size, "baseId index in bounds");
      SPxId id; id.info = info[i]; id.num = num[i];
      __CPROVER_assume(id.info != 0);
      __CPROVER_assume(0 <= id.num && id.num < (id.info > 0 ? nc : nr));
#ifdef INST_BINVCOL_ROW
      __CPROVER_assume((id.info < 0 && id.num == g_c) == (g_cin && i == g_cw));
#endif
      return id;
   }
#define C05_ROW_KERNEL(kind, y, rhs) \
      g_kcalls++; g_kkind = kind; g_kx_ok = ((const void*)&y == gp_local_x); \
      g_rhs_size = rhs.size(); g_rhs_neg = rhs.neg; g_rhs_kind = rhs.kind; g_rhs_src = rhs.src; \
      if(0 <= g_q && g_q < rhs.size()) { g_rhs_idx = rhs.index(g_q); g_rhs_val = rhs.value(g_q); } \
      y.setupStatus = false;
   void solve(SSVectorBase<R>& x, const SVectorBase<R>& rhs) { C05_ROW_KERNEL(K_SOLVE, x, rhs) }
   void coSolve(SSVectorBase<R>& x, const SVectorBase<R>& rhs) { C05_ROW_KERNEL(K_COSOLVE, x, rhs) }
};
struct SolverStub
{
   BasisStub b; int therep; bool scaled; int nr, nc;
   SVectorBase<R> uvec; R uval; int uidx;
   BasisStub& basis() { return b; }
   SPxSolverBase<R>::Representation rep() const { return (SPxSolverBase<R>::Representation)therep; }
   bool isScaled() const { return scaled; }
   int number(const SPxId& id) const { return id.num; }
   /* row i is basic in the row basis <=> some basis position holds its id (type invariant of SPxBasisBase::Desc, C04) */
   bool isRowBasic(int i) const
   {
      __CPROVER_assert(0 <= i && i < nr, "isRowBasic index in bounds");
      return i == g_c ? (g_cin != 0) : nondet_bool();
   }
   /* real: const SVectorBase<R>& (see LPStub::rowVector; solver and loaded LP are the same object) */
   SVectorBase<R> rowVector(int i) const
   {
      __CPROVER_assert(0 <= i && i < nr, "rowVector index in bounds");
      SVectorBase<R> v; c05_prov(v, V_LPROW, i); return v;
   }
   /* real: const SVectorBase<R>&; the stub returns a storage-free vector that carries its provenance */
   SVectorBase<R> colVector(int i) const
   {
      __CPROVER_assert(0 <= i && i < nc, "colVector index in bounds");
      SVectorBase<R> cv; c05_prov(cv, V_LPCOL, i); return cv;
   }
   void getColVectorUnscaled(int i, DSVectorBase<R>& vec) const
   {
      __CPROVER_assert(0 <= i && i < nc, "getColVectorUnscaled index in bounds");
      vec.kind = V_LPCOL_UNSCALED; vec.src = i; vec.neg = false;
   }
   void getRowVectorUnscaled(int i, DSVectorBase<R>& vec) const
   {
      __CPROVER_assert(0 <= i && i < nr, "getRowVectorUnscaled index in bounds");
      vec.kind = V_LPROW_UNSCALED; vec.src = i; vec.neg = false;
   }
   /* unit vector e_i: one entry (i, 1.0); the literal 1.0 has ledger offset 0 */
   const SVectorBase<R>& unitVector(int i) const
   {
      SolverStub* s = (SolverStub*)this;
      s->uval = 0; s->uidx = i;
      s->uvec.vals = &s->uval; s->uvec.idxs = &s->uidx; s->uvec.used = 1; s->uvec.cap = 1;
      s->uvec.kind = V_UNIT; s->uvec.src = i; s->uvec.neg = false; s->uvec.gpos = -1;
      return *(SVectorBase<R>*)&s->uvec;
   }
};
/* DOT: row * x, an uninterpreted function of its operands: the ghost token v_dot for row g_dot_src of the solver's LP times the
 * kernel's result vector; an arbitrary value otherwise */
static inline Prod c05_dot(const SVectorBase<R>& row, bool x_is_kernel_result)
{
   Prod p; p.neg = false;
   if(row.kind == V_LPROW && row.src == g_dot_src && !row.neg && x_is_kernel_result) { g_dot_hits = 1; p.t = v_dot; }
   else p.t = nondet_ll();
   return p;
}
#if defined(INST_BINVCOL_ROW)
static inline Prod operator*(const SVectorBase<R>& row, const SSVectorBase<R>& x)
{
   return c05_dot(row, x.val == gp_kout && g_kcalls == 1 && (const void*)&x == gp_local_x);
}
#endif
#if defined(INST_BTV_ROW)
static inline Prod operator*(const SVectorBase<R>& row, const VectorBase<R>& x)
{
   return c05_dot(row, x.val == gp_kout && g_kcalls == 1 && x.role == ROLE_KCOPY && x.dimen == g_nc);
}
#endif
#if defined(INST_MULTT_ROW)
/* x * vec (dense * sparse).  Unit vector e_r (one entry (r, 1.0), ledger offset 0): the product IS the cell x[r].  LP columns:
 * DOT, an uninterpreted function of its operands: the ghost token v_dot for the column the specification names at the ghost
 * position (the unscaled column g_dot_src iff unscaling, the solver's column otherwise) times the copy of the input vector;
 * an arbitrary value otherwise */
static inline R operator*(const VectorBase<R>& x, const SVectorBase<R>& v)
{
   bool xok = x.role == ROLE_FIRST && x.val == gp_s1;
   if(v.kind == V_UNIT && !v.neg && xok)
   {
      __CPROVER_assert(0 <= v.src && v.src < x.dimen, "unit vector index within the dense vector");
      return x.val[v.src];
   }
   if(v.kind == (g_scale ? V_LPCOL_UNSCALED : V_LPCOL) && v.src == g_dot_src && !v.neg && xok) { g_dot_hits = 1; return v_dot; }
   return nondet_ll();
}
#endif
#if defined(INST_MULT_ROW)
/* scalar * sparse vector (basevectors.h; reached only by seeded faults that restore the sparse accumulator) */
static inline DSVectorBase<R> operator*(R a, const SVectorBase<R>& v)
{
   DSVectorBase<R> res; (void)a;
   res.used = v.used;
   return res;
}
#endif

/* getBasisInd(bind) (under contract for C04, units/basis_soplex): here it fills the array with ARBITRARY entries that satisfy
 * its type invariant (every entry names an existing column j >= 0 or an existing row as -1-i); the entry at the ghost position
 * is the ghost v_bind.  Written cell by cell (no loops in stubs): CAP <= 16. */
#if CAP > 16
#error "getBasisInd stub is unrolled 16 times"
#endif
#ifdef INST_MULT_ROW
#define C05_BINDPOS g_k
#else
#define C05_BINDPOS g_p
#endif
#define BIND_FILL(k) if(k < g_n) { int t = (k == C05_BINDPOS) ? v_bind : nondet_int(); __CPROVER_assume(-(long long)g_n <= t && t < g_nc); bind[k] = t; }

struct Host : SoPlexBase<R>
{
   bool _hasBasis, _isRealLPLoaded;
   LPStub* _realLP;
   SolverStub _solver;
   ScalerStub* _scaler;
   TolStub tol;
   TolStub* tolerances() { return &tol; }
   int numRows() const
   {
#include "numRows.inc"
   }
   int numCols() const
   {
#include "numCols.inc"
   }
   /* real: const SVectorBase<R>&; real body */
   SVectorBase<R> rowVectorRealInternal(int i) const
   {
#include "rowVectorRealInternal.inc"
   }
   void getBasisInd(int* bind) const
   {
      g_getbind_calls++; g_bind_ok = (bind == gp_bind);
      BIND_FILL(0) BIND_FILL(1) BIND_FILL(2) BIND_FILL(3) BIND_FILL(4) BIND_FILL(5) BIND_FILL(6) BIND_FILL(7)
      BIND_FILL(8) BIND_FILL(9) BIND_FILL(10) BIND_FILL(11) BIND_FILL(12) BIND_FILL(13) BIND_FILL(14) BIND_FILL(15)
   }
};

struct Env
{
   LPStub lp; ScalerStub sc; DataArray<int> re, ce;
   void init(Host& h, int n, int nc, int isScaled, int* baseInfo, int* baseNum, int* rowexp, int* colexp,
             R* s1, R* s2, int* xidx, R* kout, int* bind, R* dsv, int* dsi)
   {
      lp.nr = n; lp.nc = nc; lp._isScaled = isScaled != 0;
      re.data = rowexp; re.thesize = n; ce.data = colexp; ce.thesize = nc;
      sc.m_activeRowscaleExp = &re; sc.m_activeColscaleExp = &ce;
      h._hasBasis = true; h._isRealLPLoaded = true; h._realLP = &lp; h._scaler = &sc;
      h._solver.therep = SPxSolverBase<R>::ROW; h._solver.scaled = isScaled != 0; h._solver.nr = n; h._solver.nc = nc;
      h._solver.b.info = baseInfo; h._solver.b.num = baseNum; h._solver.b.size = nc; h._solver.b.nr = n; h._solver.b.nc = nc;
      h.tol.eps = 1e-16;
      g_ssdim = nc;
      gp_s1 = s1; gp_s2 = s2; g_s1_used = 0; g_s2_used = 0; gp_xidx = xidx; gp_kout = kout; gp_local_x = 0;
      gp_bind = bind; gp_dsv = dsv; gp_dsi = dsi; g_ds_used_once = 0;
      g_kcalls = 0; g_kkind = K_NONE; g_kx_ok = 0; g_setup_calls = 0; g_rhs_size = -1; g_rhs_neg = -1;
      g_getbind_calls = 0; g_bind_ok = 0; g_alloc_calls = 0; g_free_calls = 0;
      g_dot_hits = 0; g_sub_hits = 0; g_addb = 0; g_add_pos = -1;
      g_cur = -1; g_has_k = 0; g_foreign = 0; g_clear_calls = 0; g_contribs = 0; g_assign_calls = 0; g_assign_ok = 0;
   }
};

#if defined(INST_BINVCOL_ROW)
struct H : Host
{
   int c; R* coef; int* inds; int* ninds; bool unscale;
   bool body()
   {
#include SLICE
      return true;
   }
};
extern "C" int w_binvcol_row(int c, R* coef, int* ninds, int has_ninds, int unscale, int n, int nc, int isScaled,
                             int* baseInfo, int* baseNum, int* rowexp, int* colexp, int* xidx, R* kout, int* bind, R* dsv, int* dsi)
{
   VIN("c", c); VIN("n", n); VIN("nc", nc); VIN("unscale", unscale); VIN("isScaled", isScaled);
   Env e; H h;
   e.init(h, n, nc, isScaled, baseInfo, baseNum, rowexp, colexp, 0, 0, xidx, kout, bind, dsv, dsi);
   h.c = c; h.coef = coef; h.inds = nullptr; h.ninds = has_ninds ? ninds : nullptr; h.unscale = unscale != 0;
   gp_coef = coef; gp_ninds = ninds;
   return h.body() ? 1 : 0;
}
#endif

#if defined(INST_BTV_ROW)
struct H : Host
{
   R* rhs; R* sol; bool unscale;
   bool body()
   {
#include "binvtv_decl.inc"
#include SLICE
#include "binvtv_tail.inc"
   }
};
extern "C" int w_btv_row(R* rhs, R* sol, int unscale, int n, int nc, int isScaled, int* baseInfo, int* baseNum, int* rowexp, int* colexp,
                         R* s1, R* s2, int* xidx, R* kout, int* bind, R* dsv, int* dsi)
{
   VIN("n", n); VIN("nc", nc); VIN("unscale", unscale); VIN("isScaled", isScaled);
   Env e; H h;
   e.init(h, n, nc, isScaled, baseInfo, baseNum, rowexp, colexp, s1, s2, xidx, kout, bind, dsv, dsi);
   h.rhs = rhs; h.sol = sol; h.unscale = unscale != 0;
   gp_rhs = rhs; gp_sol = sol;
   return h.body() ? 1 : 0;
}
#endif

#if defined(INST_MULTT_ROW)
struct H : Host
{
   R* vec; bool unscale;
   bool body()
   {
#include SLICE
      return true;
   }
};
extern "C" int w_multt_row(R* vec, int unscale, int n, int nc, int isScaled, R* s1, int* bind, R* dsv, int* dsi)
{
   VIN("n", n); VIN("nc", nc); VIN("unscale", unscale); VIN("isScaled", isScaled);
   Env e; H h;
   e.init(h, n, nc, isScaled, 0, 0, 0, 0, s1, 0, 0, 0, bind, dsv, dsi);
   h.vec = vec; h.unscale = unscale != 0;
   gp_vec = vec;
   return h.body() ? 1 : 0;
}
#endif

#if defined(INST_MULT_ROW)
struct H : Host
{
   R* vec; bool unscale;
   bool body()
   {
#include SLICE
      return true;
   }
};
extern "C" int w_mult_row(R* vec, int unscale, int n, int nc, int isScaled, R* s1, R* s2, int* bind, R* dsv, int* dsi)
{
   VIN("n", n); VIN("nc", nc); VIN("unscale", unscale); VIN("isScaled", isScaled);
   Env e; H h;
   e.init(h, n, nc, isScaled, 0, 0, 0, 0, s1, s2, 0, 0, bind, dsv, dsi);
   h.vec = vec; h.unscale = unscale != 0;
   gp_vec = vec;
   return h.body() ? 1 : 0;
}
#endif
