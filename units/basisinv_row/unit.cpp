/* C05: basis-inverse and multiply queries of SoPlexBase<R> (src/soplex.hpp), ROW-representation branches, R = ledger.
 * The code under contract is cut verbatim out of the tree as the REGION of each function that forms its ROW branch (from the
 * first statement after `assert(_solver.rep() == ROW);` resp. `int colbasisdim = numRows();` to the closing brace of the branch).
 * The host appends the function's last statement `return true;` (conformance-checked).  The common prologue (hasBasis,
 * _ensureRealLPLoaded, representation test) is under contract in units/basisinv. */
#define C05_ROW
extern "C" {
   extern int g_p;
   extern int g_dot_calls_p, g_dot_kind, g_dot_src, g_dot_x_ok, g_last_kind, g_last_src, g_last_xok; extern long long v_dot, v_last;
}
/* y.add(i, v) for the ghost position: v must be the dot product just computed; its provenance is recorded */
#define C05_ADD_HOOK(i, v) if((i) == g_p) { g_dot_calls_p++; g_dot_kind = g_last_kind; g_dot_src = g_last_src; g_dot_x_ok = g_last_xok && ((v) == v_last); v_dot = (v); }
#include "../basisinv/c05_stubs.h"

template <class T> struct SPxSolverBase
{
#include "Representation.inc"
};
template <class T> struct SoPlexBase {};

struct SPxId
{
   int info; int num;
   bool isSPxRowId() const { return info < 0; }
   bool isSPxColId() const { return info > 0; }
};
extern "C" {
   extern int g_bw, g_bin;              /* g_bin: some basis position holds the row id of row g_p; then it is position g_bw */
   extern int g_getbind_calls, g_bind_ok; extern int* gp_bind; extern int g_alloc_calls, g_free_calls;
   extern int g_rowvec_index, g_rhs_neg, g_rhs_kind, g_rhs_src;
   extern R* gp_rv_vals; extern int* gp_rv_idx; extern int g_rv_len;
   extern R* gp_coef; extern int* gp_ninds; extern R* gp_vec;
}
/* spx_alloc(bind, n) / spx_free(bind): the index array lives in a caller-supplied buffer (no heap under dfcc) */
static inline void spx_alloc(int*& p, int n)
{
   __CPROVER_assert(p == nullptr && n == g_n && g_alloc_calls == 0, "spx_alloc(bind, numRows()) once");
   g_alloc_calls++; p = gp_bind;
}
static inline void spx_free(int*& p) { __CPROVER_assert(p == gp_bind, "spx_free of the allocated array"); g_free_calls++; p = nullptr; }
/* memset(coef, 0, numRows()*sizeof(R)) modelled at the ghost position (see c05_copy) */
static inline void c05_memset(R* d, int c, size_t bytes)
{
   __CPROVER_assert(c == 0 && bytes == (size_t)g_n * sizeof(R), "memset(coef, 0, numRows() * sizeof(R))");
   if(bytes > 0)
   {
      __CPROVER_havoc_object(d);
      if(0 <= g_p && g_p < g_n) d[g_p] = 0;
   }
}
#define memset(d, c, n) c05_memset(d, c, n)

struct LPStub
{
   int nr, nc; bool _isScaled;
   int nRows() const { return nr; }
   int nCols() const { return nc; }
   bool isScaled() const { return _isScaled; }
};
struct ScalerStub
{
   DataArray<int>* m_activeColscaleExp;
   DataArray<int>* m_activeRowscaleExp;
   int getColScaleExp(int i) const
   {
#include "getColScaleExp.inc"
   }
   int getRowScaleExp(int i) const
   {
#include "getRowScaleExp.inc"
   }
};
/* SPxBasisBase<R> in ROW representation: numCols() basis vectors.  Type invariant (C04): ids name existing rows/columns and
 * are pairwise different; at the ghost row g_p: g_bin <=> some position holds its row id, and then exactly position g_bw. */
struct BasisStub
{
   int* info; int* num; int size; int nr, nc;
   SPxId baseId(int i) const
   {
      __CPROVER_assert(0 <= i && i < size, "baseId index in bounds");
      SPxId id; id.info = info[i]; id.num = num[i];
      __CPROVER_assume(id.info != 0);
      __CPROVER_assume(0 <= id.num && id.num < (id.info > 0 ? nc : nr));
      __CPROVER_assume((id.info < 0 && id.num == g_p) == (g_bin && i == g_bw));
      return id;
   }
#define C05_SPARSE_KERNEL(kind, y, rhs) \
      g_kcalls++; g_kkind = kind; g_kx_ok = ((const void*)&y == gp_local_x); \
      g_rhs_size = rhs.size(); g_rhs_neg = rhs.neg; g_rhs_kind = rhs.kind; g_rhs_src = rhs.src; \
      if(0 <= g_q && g_q < rhs.size()) { g_rhs_idx = rhs.index(g_q); g_rhs_val = rhs.value(g_q); } \
      y.val = gp_kout; y.setupStatus = false; \
      if(g_bin && 0 <= g_bw && g_bw < y.dimen) v_kout = y.val[g_bw];
   /* (no forwarding through a second reference parameter: CBMC leaves a dereference of the base sub-object unresolved) */
   void solve(SSVectorBase<R>& x, const SVectorBase<R>& rhs) { C05_SPARSE_KERNEL(K_SOLVE, x, rhs) }
   void coSolve(SSVectorBase<R>& x, const SVectorBase<R>& rhs) { C05_SPARSE_KERNEL(K_COSOLVE, x, rhs) }
};
struct SolverStub
{
   BasisStub b; int therep; bool scaled;
   SVectorBase<R> rv;
   BasisStub& basis() { return b; }
   SPxSolverBase<R>::Representation rep() const { return (SPxSolverBase<R>::Representation)therep; }
   bool isScaled() const { return scaled; }
   int number(const SPxId& id) const { return id.num; }
   /* i-th row of the solver's (scaled) LP: one pair of arrays stands for every row; the requested index is recorded */
   const SVectorBase<R>& rowVector(int i)
   {
      g_rowvec_index = i;
      rv.vals = gp_rv_vals; rv.idxs = gp_rv_idx; rv.used = g_rv_len; rv.cap = g_rv_len; rv.kind = V_LPROW; rv.src = i; rv.neg = false; rv.gpos = -1;
      return rv;
   }
   /* real: const SVectorBase<R>&; the stub returns a storage-free vector that carries its provenance */
   SVectorBase<R> colVector(int i) const
   {
      SVectorBase<R> cv;
      cv.vals = 0; cv.idxs = 0; cv.used = 0; cv.cap = 0; cv.kind = V_LPCOL; cv.src = i; cv.neg = false; cv.gpos = -1;
      return cv;
   }
   void getColVectorUnscaled(int i, DSVectorBase<R>& vec) const { vec.kind = V_LPCOL_UNSCALED; vec.src = i; vec.neg = false; }
};
/* dot product VectorBase * SVectorBase: opaque (arbitrary value); operands recorded */
static inline R operator*(const VectorBase<R>& x, const SVectorBase<R>& v)
{
   R d = nondet_ll();
   g_last_kind = v.kind; g_last_src = v.src; g_last_xok = (x.val == gp_s1) && !v.neg; v_last = d;
   return d;
}

struct Host : SoPlexBase<R>
{
   bool _hasBasis, _isRealLPLoaded;
   LPStub* _realLP;
   SolverStub _solver;
   ScalerStub* _scaler;
   TolStub tol;
   TolStub* tolerances() { return &tol; }
   int numRows() const
   {
#include "numRows.inc"
   }
   int numCols() const
   {
#include "numCols.inc"
   }
   /* real: SoPlexBase::getBasisInd (under contract in units/basis_soplex, property C04); here: the array it fills is the
      caller-supplied buffer with arbitrary contents */
   void getBasisInd(int* bind) const { g_getbind_calls++; g_bind_ok = (bind == gp_bind); }
};

struct Env
{
   LPStub lp; ScalerStub sc; DataArray<int> re, ce;
   void init(Host& h, int n, int nc, int isScaled, int* baseInfo, int* baseNum, int* rowexp, int* colexp,
             R* s1, int* xidx, R* kout, int* bind, R* dsv, int* dsi)
   {
      lp.nr = n; lp.nc = nc; lp._isScaled = isScaled != 0;
      re.data = rowexp; re.thesize = n; ce.data = colexp; ce.thesize = nc;
      sc.m_activeRowscaleExp = &re; sc.m_activeColscaleExp = &ce;
      h._hasBasis = true; h._isRealLPLoaded = true; h._realLP = &lp; h._scaler = &sc;
      h._solver.therep = SPxSolverBase<R>::ROW; h._solver.scaled = isScaled != 0;
      h._solver.b.info = baseInfo; h._solver.b.num = baseNum; h._solver.b.size = nc; h._solver.b.nr = n; h._solver.b.nc = nc;
      h.tol.eps = 1e-16;
      g_ssdim = nc;
      gp_s1 = s1; gp_s2 = 0; g_s1_used = 0; g_s2_used = 0; gp_xidx = xidx; gp_kout = kout; gp_local_x = 0;
      gp_bind = bind; gp_dsv = dsv; gp_dsi = dsi; g_ds_used_once = 0;
      g_kcalls = 0; g_kkind = K_NONE; g_kx_ok = 0; g_setup_calls = 0; g_rhs_size = -1;
      g_getbind_calls = 0; g_bind_ok = 0; g_alloc_calls = 0; g_free_calls = 0; g_rowvec_index = -1;
      g_dot_calls_p = 0;
   }
};

#if defined(INST_BINVROW_ROW)
struct H : Host
{
   int r; R* coef; int* inds; int* ninds; bool unscale;
   bool body()
   {
#include SLICE
      return true;
   }
};
extern "C" int w_binvrow_row(int r, R* coef, int* ninds, int has_ninds, int unscale, int n, int nc, int isScaled,
                             int* baseInfo, int* baseNum, int* rowexp, int* colexp, R* s1, int* xidx, R* kout, int* bind,
                             R* dsv, int* dsi, R* rv_vals, int* rv_idx, int rv_len)
{
   VIN("r", r); VIN("n", n); VIN("nc", nc); VIN("unscale", unscale); VIN("isScaled", isScaled);
   Env e; H h;
   e.init(h, n, nc, isScaled, baseInfo, baseNum, rowexp, colexp, s1, xidx, kout, bind, dsv, dsi);
   gp_rv_vals = rv_vals; gp_rv_idx = rv_idx; g_rv_len = rv_len;
   h.r = r; h.coef = coef; h.inds = nullptr; h.ninds = has_ninds ? ninds : nullptr; h.unscale = unscale != 0;
   gp_coef = coef; gp_ninds = ninds;
   return h.body() ? 1 : 0;
}
#endif
/* (multBasisTranspose_row lives in unit_dense.cpp) */
