/* Native replay / demonstration for unit basisinv_row (property C05): the REAL SoPlex code, public interface.
 *
 *   replay <inputs.txt> <instance>      (tools/check.py native_replay; exit 1 = the real code violates, 0 otherwise)
 *   g++ -std=c++14 -I/repo/src -I/repo/_build replay_native_rowrep.cpp /repo/_build/lib/libsoplex.a -lgmp -lmpfr -lz   (by hand)
 *
 * The verifier's counterexample lives in the ledger abstraction (exponent offsets, opaque kernels) and has no LP attached, so
 * the driver does not read it: it solves two small LPs (3x4, and 2x6 so that column numbers exceed numRows()) in COLUMN and ROW
 * representation, without scaling, with scaling and with persistent scaling, builds B from getBasisInd() and the user's
 * (unscaled) columns / unit vectors of basic slacks, and compares each query with B (unscale = true):
 *      getBasisInverseRowReal   rho' B = e_r'        getBasisInverseColReal        B z = e_c
 *      getBasisInverseTimesVecReal   B z = v         multBasis   B v               multBasisTranspose   B' v
 * It exits 1 iff the query of the named instance (all queries when no instance is given) disagrees with B.
 * History: before the fixes 8f7e90c, ea8ed1e, b1c8e0b, 17b9a11 this driver reported, in ROW representation, multBasis != B v in
 * every configuration, and B z != v / B z != e_c with persistent scaling (and read bind[] out of bounds on the 2x6 LP). */
#include "soplex.h"
#include <iostream>
#include <vector>
#include <cmath>
using namespace soplex;

#include <cstring>
#include <string>
static const int MAXM = 3, MAXN = 6;
struct Lp { int m, n; double A[MAXM][MAXN]; double obj[MAXN]; double lhs[MAXM]; double rhs[MAXM]; };
static const Lp LPS[2] = {
   {3, 4, {{1000, 2, 0, 1}, {0.001, 1, 3, 0}, {4, 0, 100, 2}}, {1, 2, 3, 1}, {10, 5, 20}, {1e100, 50, 1e100}},
   {2, 6, {{1000, 2, 0.5, 1, 3, 7}, {0.001, 1, 3, 0.25, 100, 2}}, {5, 4, 3, 2, 1, 0.5}, {10, 11}, {1e100, 1e100}}};
static int g_query = -1;      /* query to judge (-1: all) */

static bool close(double a, double b) { return std::fabs(a - b) <= 1e-9 * (1.0 + std::fabs(b)); }

static int run(const Lp& lp, int rep, int scaler, bool persistent)
{
   const int m = lp.m, n = lp.n;
   const double (*A)[MAXN] = lp.A;
   SoPlex sp;
   sp.setIntParam(SoPlex::VERBOSITY, 0);
   sp.setIntParam(SoPlex::REPRESENTATION, rep);
   sp.setIntParam(SoPlex::SCALER, scaler);
   sp.setBoolParam(SoPlex::PERSISTENTSCALING, persistent);
   sp.setIntParam(SoPlex::SIMPLIFIER, SoPlex::SIMPLIFIER_OFF);
   sp.setIntParam(SoPlex::OBJSENSE, SoPlex::OBJSENSE_MINIMIZE);
   DSVector dummy(0);
   for(int j = 0; j < n; j++)
      sp.addColReal(LPCol(lp.obj[j], dummy, infinity, 0.0));
   for(int i = 0; i < m; i++)
   {
      DSVector row(n);
      for(int j = 0; j < n; j++)
         if(A[i][j] != 0)
            row.add(j, A[i][j]);
      sp.addRowReal(LPRow(lp.lhs[i], row, lp.rhs[i] >= 1e100 ? double(infinity) : lp.rhs[i]));
   }
   sp.optimize();
   if(!sp.hasBasis()) { std::cout << "no basis\n"; return 1; }
   std::vector<int> bind(m);
   sp.getBasisInd(bind.data());
   double B[MAXM][MAXM];
   for(int k = 0; k < m; k++)
      for(int i = 0; i < m; i++)
         B[i][k] = bind[k] >= 0 ? A[i][bind[k]] : ((-1 - bind[k]) == i ? 1.0 : 0.0);
   std::cout << (rep == SoPlex::REPRESENTATION_ROW ? "ROW   " : "COLUMN") << " scaler=" << scaler << " persistent=" << persistent << " bind=[";
   for(int k = 0; k < m; k++) std::cout << bind[k] << (k + 1 < m ? "," : "]");
   const bool unscale = true;
   int bad = 0;
   const char* names[5] = {"invRow", "invCol", "invTimesVec", "multBasis", "multBasisT"};
   bool ok[5] = {true, true, true, true, true};
   for(int r = 0; r < m; r++)
   {
      std::vector<double> coef(m, 0.0); std::vector<int> inds(m); int ni;
      if(!sp.getBasisInverseRowReal(r, coef.data(), inds.data(), &ni, unscale)) { ok[0] = false; continue; }
      for(int k = 0; k < m; k++) { double s = 0; for(int i = 0; i < m; i++) s += coef[i] * B[i][k]; if(!close(s, k == r)) ok[0] = false; }
   }
   for(int c = 0; c < m; c++)
   {
      std::vector<double> coef(m, 0.0); std::vector<int> inds(m); int ni;
      if(!sp.getBasisInverseColReal(c, coef.data(), inds.data(), &ni, unscale)) { ok[1] = false; continue; }
      for(int i = 0; i < m; i++) { double s = 0; for(int k = 0; k < m; k++) s += B[i][k] * coef[k]; if(!close(s, i == c)) ok[1] = false; }
   }
   const double v[MAXM] = {1, -2, 3};
   {
      double rhs[MAXM] = {1, -2, 3}; double sol[MAXM];
      if(!sp.getBasisInverseTimesVecReal(rhs, sol, unscale)) ok[2] = false;
      else for(int i = 0; i < m; i++) { double s = 0; for(int k = 0; k < m; k++) s += B[i][k] * sol[k]; if(!close(s, v[i])) ok[2] = false; }
   }
   {
      double w[MAXM] = {1, -2, 3};
      if(!sp.multBasis(w, unscale)) ok[3] = false;
      else
      {
         for(int i = 0; i < m; i++) { double s = 0; for(int k = 0; k < m; k++) s += B[i][k] * v[k]; if(!close(w[i], s)) ok[3] = false; }
         if(!ok[3])
         {
            std::cout << "\n      multBasis returned (";
            for(int i = 0; i < m; i++) std::cout << w[i] << (i + 1 < m ? ", " : "), B*v = (");
            for(int i = 0; i < m; i++) { double s = 0; for(int k = 0; k < m; k++) s += B[i][k] * v[k]; std::cout << s << (i + 1 < m ? ", " : ")\n     "); }
         }
      }
   }
   {
      double w[MAXM] = {1, -2, 3};
      if(!sp.multBasisTranspose(w, unscale)) ok[4] = false;
      else for(int k = 0; k < m; k++) { double s = 0; for(int i = 0; i < m; i++) s += B[i][k] * v[i]; if(!close(w[k], s)) ok[4] = false; }
   }
   for(int q = 0; q < 5; q++) { std::cout << "  " << names[q] << (ok[q] ? ":ok" : ":MISMATCH"); if(g_query < 0 || g_query == q) bad += !ok[q]; }
   std::cout << "\n";
   return bad;
}

int main(int argc, char** argv)
{
   std::cout << std::unitbuf;
   /* argv[1] = inputs.txt (not used, see above), argv[2] = instance */
   if(argc > 2)
   {
      std::string inst(argv[2]);
      const char* pre[5] = {"getBasisInverseRowReal", "getBasisInverseColReal", "getBasisInverseTimesVecReal", "multBasis_", "multBasisTranspose"};
      for(int q = 0; q < 5; q++)
         if(inst.compare(0, std::strlen(pre[q]), pre[q]) == 0)
            g_query = q;
   }
   int bad = 0;
   for(int l = 0; l < 2; l++)
      for(int rep = SoPlex::REPRESENTATION_COLUMN; rep <= SoPlex::REPRESENTATION_ROW; rep++)
      {
         bad += run(LPS[l], rep, SoPlex::SCALER_OFF, false);
         bad += run(LPS[l], rep, SoPlex::SCALER_BIEQUI, false);
         bad += run(LPS[l], rep, SoPlex::SCALER_BIEQUI, true);
      }
   std::cout << (bad ? "MISMATCHES: " : "all agree: ") << bad << "\n";
   return bad != 0;
}
