   /* (member of DSVectorBase<T>; reached only by seeded faults that restore the sparse accumulator of multBasis)
    * real (dsvectorbase.h, conformance-checked): SVectorBase<R>::clear(); makeMem(vec.size()); SVectorBase<S>::add(vec);
    * - the vector is CLEARED before the nonzeros are appended */
   void add(const SVectorBase<T>& vec) { SVectorBase<T>::clear(); SVectorBase<T>::add(vec); }
