#!/usr/bin/env python3
"""Generates unit.json of the basisinv_row unit (C05, ROW-representation branches).  The runner only reads unit.json."""
import json, os, sys
HPP = "src/soplex.hpp"
sys.path.insert(0, os.path.join(os.path.dirname(os.path.abspath(__file__)), "..", "basisinv"))
def acc(name, ret, args, file=HPP, cls="SoPlexBase<R>", const=True, must=None):
    d = {"as": name + ".inc", "file": file,
         "sig": ret + r"\s+" + cls + "::" + name + r"\s*\(\s*" + args + r"\s*\)" + (r"\s*const" if const else "")}
    if must:
        d["must_contain"] = must
    return d
HELPERS = [
    acc("numRows", "int", "", must=[r"_realLP->nRows\(\)"]),
    acc("numCols", "int", "", must=[r"_realLP->nCols\(\)"]),
    acc("getColScaleExp", "int", r"int\s+i", file="src/soplex/spxscaler.hpp", cls="SPxScaler<R>", must=[r"\(\*m_activeColscaleExp\)\[i\]"]),
    acc("getRowScaleExp", "int", r"int\s+i", file="src/soplex/spxscaler.hpp", cls="SPxScaler<R>", must=[r"\(\*m_activeRowscaleExp\)\[i\]"]),
    {"as": "SSVector_scaleValue.inc", "file": "src/soplex/ssvectorbase.h", "sig": r"void\s+scaleValue\s*\(\s*int\s+i\s*,\s*int\s+scaleExp\s*\)"},
]
SC = "(g_scale ? %s : 0)"
binvrow = {
    "name": "getBasisInverseRowReal_row",
    "function": "SoPlexBase<R>::getBasisInverseRowReal(int r, R* coef, int* inds, int* ninds, bool unscale)  [src/soplex.hpp, ROW-representation branch]",
    "defines": {"INST_BINVROW_ROW": "", "SLICE": "\"getBasisInverseRowReal_row.inc\""},
    "harness": "h_binvrow_row", "enforce": "w_binvrow_row",
    "slices": HELPERS + [{"as": "getBasisInverseRowReal_row.inc", "file": HPP,
                          "region_start": r"// @todo should rhs be a reference\?\s*DSVectorBase<R> rhs\(numCols\(\)\);\s*SSVectorBase<R>  y\(numCols\(\), this->tolerances\(\)\);",
                          "region_end": r"\}\s*return true;\s*\}\s*/// computes column c of basis inverse",
                          "must_contain": [r"getBasisInd\(bind\);", r"rhs = _solver\.rowVector\(index\);\s*rhs \*= -1\.0;", r"rhs = UnitVectorBase<R>\(index\);",
                                           r"_solver\.basis\(\)\.solve\(y, rhs\);", r"memset\(coef, 0, \(unsigned int\)numRows\(\) \* sizeof\(R\)\);", r"coef\[index\] = 1\.0;",
                                           r"spx_free\(bind\);\s*$"]}],
    "loops": [
        {"function": r"H::body\(this\)", "loop": 0, "locals": [["i", "1::1::1::i"]],
         "invariants": ["0<=i && i<=*gp_ds_used && *gp_ds_used==g_rv_len && g_rv_len<=g_nc",
                        "(g_q>=*gp_ds_used) || ((g_q<i) ? gp_dsv[g_q]==v_rv-v_exp_r : gp_dsv[g_q]==v_rv)"],
         "assigns": ["i", "__CPROVER_object_whole(gp_dsv)"], "decreases": "*gp_ds_used-i"},
        {"function": r"H::body\(this\)", "loop": 1, "locals": [["j", "1::5::i"]],
         "invariants": ["0<=j && j<=g_nc",
                        "gp_coef[g_p]==((g_bin && j>g_bw) ? v_kout+%s : 0)" % (SC % "v_rexp_p")],
         "assigns": ["j", "__CPROVER_object_whole(gp_coef)"], "decreases": "g_nc-j"},
    ],
    "min_obligations": 100, "tier": "thorough",
    "mutants": [dict(m, slice="getBasisInverseRowReal_row.inc") for m in [
        {"name": "row_not_negated", "find": "rhs *= -1.0;", "replace": ""},
        {"name": "slack_rhs_scale_sign", "find": "rhs.value(i) = spxLdexp(rhs.value(i), -_scaler->getRowScaleExp(index));", "replace": "rhs.value(i) = spxLdexp(rhs.value(i), _scaler->getRowScaleExp(index));"},
        {"name": "col_rhs_row_exp", "find": "rhs *= spxLdexp(1.0, _scaler->getColScaleExp(index));", "replace": "rhs *= spxLdexp(1.0, _scaler->getRowScaleExp(index));"},
        {"name": "index_transform", "find": "index = -index - 1;", "replace": "index = -index;"},
        {"name": "out_scale_col_exp", "find": "coef[rowindex] = spxLdexp(y[i], _scaler->getRowScaleExp(rowindex));", "replace": "coef[rowindex] = spxLdexp(y[i], _scaler->getColScaleExp(rowindex));"},
        {"name": "col_ids_scattered", "find": "if(id.isSPxRowId())", "replace": "if(id.isSPxColId())"},
        {"name": "unit_entry_wrong_test", "find": "if(bind[r] < 0)\n      {\n         assert(coef[index] == 0.0);", "replace": "if(bind[r] >= 0)\n      {\n         assert(coef[index] == 0.0);"},
        {"name": "wrong_kernel", "find": "_solver.basis().solve(y, rhs);", "replace": "_solver.basis().coSolve(y, rhs);"},
        {"name": "memset_dropped", "find": "memset(coef, 0, (unsigned int)numRows() * sizeof(R));", "replace": ""},
    ]],
}
KOK = ("((v_bind<0) ? (g_dot_kind==K_UNIT && g_dot_src==-1-v_bind) : (g_dot_kind==(g_scale ? K_LPCOL_UNSCALED : K_LPCOL) && g_dot_src==v_bind))")
multt = {
    "name": "multBasisTranspose_row",
    "function": "SoPlexBase<R>::multBasisTranspose(R* vec, bool unscale)  [src/soplex.hpp, ROW-representation branch]",
    "defines": {"INST_MULTT_ROW": "", "SLICE": "\"multBasisTranspose_row.inc\""},
    "harness": "h_multt_row", "enforce": "w_multt_row",
    "slices": HELPERS + [{"as": "multBasisTranspose_row.inc", "file": HPP,
                          "region_start": r"int colbasisdim = numRows\(\);\s*DSVectorBase<R> y\(colbasisdim\);\s*// create VectorBase<R> from input values",
                          "region_end": r"\}\s*return true;\s*\}\s*/// compute rational basis inverse",
                          "must_contain": [r"getBasisInd\(bind\);", r"y\.add\(i, x \* UnitVectorBase<R>\(index\)\);", r"_solver\.getColVectorUnscaled\(index, col\);\s*y\.add\(i, x \* col\);",
                                           r"y\.add\(i, x \* _solver\.colVector\(index\)\);", r"x = y;\s*std::copy\(x\.vec\(\)\.begin\(\), x\.vec\(\)\.end\(\), vec\);\s*$"]}],
    "loops": [
        {"function": r"H::body\(this\)", "loop": 0, "locals": ["i", "index", "colbasisdim"],
         "invariants": ["0<=i && i<=colbasisdim && colbasisdim==g_n && *gp_ds_used==i",
                        "(g_p<i) ? (*gp_ds_gpos==g_p && gp_dsv[g_p]==v_dot && g_dot_calls_p==1 && g_dot_x_ok && %s) : (*gp_ds_gpos==-1 && g_dot_calls_p==0)" % KOK],
         "assigns": ["i", "index", "*gp_ds_used", "*gp_ds_gpos", "__CPROVER_object_whole(gp_dsv)", "__CPROVER_object_whole(gp_dsi)",
                     "g_dot_calls_p", "g_dot_kind", "g_dot_src", "g_dot_x_ok", "v_dot", "g_last_kind", "g_last_src", "g_last_xok", "v_last"],
         "decreases": "colbasisdim-i"},
    ],
    "min_obligations": 100, "tier": "thorough",
    "flags": ["--bounds-check", "--pointer-check", "--no-signed-overflow-check"],
    "mutants": [dict(m, slice="multBasisTranspose_row.inc") for m in [
        {"name": "scaled_col_when_unscaling", "find": "_solver.getColVectorUnscaled(index, col);\n               y.add(i, x * col);", "replace": "_solver.getColVectorUnscaled(index, col);\n               y.add(i, x * _solver.colVector(index));"},
        {"name": "index_transform", "find": "index = -index - 1;", "replace": "index = -index;"},
        {"name": "add_position", "find": "y.add(i, x * UnitVectorBase<R>(index));", "replace": "y.add(index, x * UnitVectorBase<R>(index));"},
        {"name": "slack_test_flipped", "find": "if(index < 0)", "replace": "if(index <= 0)"},
        {"name": "result_not_assigned", "find": "x = y;", "replace": ""},
    ]],
}

# ---------------------------------------------------------------------------------------------------------------------------
# ROW branches of getBasisInverseColReal / getBasisInverseTimesVecReal / multBasis (unit_dense.cpp, contract_dense.c)
DENSE = {"cpp": ["unit_dense.cpp"], "c": ["contract_dense.c"]}
HELPERS_D = HELPERS + [acc("rowVectorRealInternal", r"const\s+SVectorBase<R>&", r"int\s+i", must=[r"return _realLP->rowVector\(i\);"])]
NEG = "(1LL<<50)"
EXP_COL = "((v_bind>=0) ? v_kj+(g_scale ? v_cexp : 0) : v_dot+%s+(g_scale ? -v_rexp : 0))" % NEG
binvcol = dict(DENSE, **{
    "name": "getBasisInverseColReal_row",
    "function": "SoPlexBase<R>::getBasisInverseColReal(int c, R* coef, int* inds, int* ninds, bool unscale)  [src/soplex.hpp, ROW-representation branch]",
    "defines": {"INST_BINVCOL_ROW": "", "SLICE": "\"getBasisInverseColReal_row.inc\""},
    "harness": "h_binvcol_row", "enforce": "w_binvcol_row",
    "slices": HELPERS_D + [{"as": "getBasisInverseColReal_row.inc", "file": HPP,
                            "region_start": r"// @todo should rhs be a reference\?\s*int\* bind = nullptr;\s*int index;",
                            "region_end": r"\}\s*return true;\s*\}\s*/// computes dense solution of basis matrix",
                            "must_contain": [r"getBasisInd\(bind\);", r"if\(!_solver\.isRowBasic\(c\)\)", r"int scaleExp = _scaler->getRowScaleExp\(c\);",
                                             r"_solver\.basis\(\)\.coSolve\(x, rhs\);", r"coef\[i\] = - \(_solver\.rowVector\(idx\) \* x\);",
                                             r"coef\[i\] = spxLdexp\(coef\[i\], -_scaler->getRowScaleExp\(idx\)\);", r"spx_free\(bind\);\s*$"]}],
    "loops": [
        {"function": r"H::body\(this\)", "loop": 0, "locals": [["i", "LOC_A"]],
         "invariants": ["0<=i && i<=g_n", "gp_coef[g_p]==((g_p<i && v_bind<0 && -v_bind-1==g_c) ? 1 : 0)"],
         "assigns": ["i", "__CPROVER_object_whole(gp_coef)"], "decreases": "g_n-i"},
        {"function": r"H::body\(this\)", "loop": 1, "locals": [["k", "LOC_B"], "index"],
         "invariants": ["0<=k && k<=g_nc", "(!g_cin) || k<=g_cw"],
         "assigns": ["k", "index"], "decreases": "g_nc-k"},
        {"function": r"H::body\(this\)", "loop": 2, "locals": [["j", "LOC_C"]],
         "invariants": ["0<=j && j<=g_n", "gp_coef[g_p]==((g_p<j) ? %s : 0)" % EXP_COL],
         "assigns": ["j", "__CPROVER_object_whole(gp_coef)", "g_dot_hits"], "decreases": "g_n-j"},
    ],
    "min_obligations": 100, "tier": "quick",
    "mutants": [dict(m, slice="getBasisInverseColReal_row.inc") for m in [
        {"name": "old_defect_b1c8e0b", "regex": True,
         "find": r"int scaleExp = _scaler->getRowScaleExp\(c\);(.*?)coef\[i\] = - \(_solver\.rowVector\(idx\) \* x\);\s*if\(unscale && _solver\.isScaled\(\)\)\s*coef\[i\] = spxLdexp\(coef\[i\], -_scaler->getRowScaleExp\(idx\)\);",
         "replace": "int scaleExp = -_scaler->getRowScaleExp(index);\\1if(unscale && _solver.isScaled())\n               {\n                  DSVectorBase<R> r_unscaled(numCols());\n                  _solver.getRowVectorUnscaled(idx, r_unscaled);\n                  coef[i] = - (r_unscaled * x);\n               }\n               else\n                  coef[i] = - (_solver.rowVector(idx) * x);\n\n               if(unscale && _solver.isScaled())\n                  coef[i] = spxLdexp(coef[i], _scaler->getRowScaleExp(idx));"},
        {"name": "old_rhs_exponent", "find": "int scaleExp = _scaler->getRowScaleExp(c);", "replace": "int scaleExp = -_scaler->getRowScaleExp(index);"},
        {"name": "old_slack_out_sign", "find": "coef[i] = spxLdexp(coef[i], -_scaler->getRowScaleExp(idx));", "replace": "coef[i] = spxLdexp(coef[i], _scaler->getRowScaleExp(idx));"},
        {"name": "old_removed_loop_first_iteration_restored", "find": "_solver.basis().coSolve(x, rhs);",
         "replace": "_solver.basis().coSolve(x, rhs);\n               x.setup();\n               int size = x.size();\n\n               if(0 < size)\n               {\n                  int i = 0;\n                  int idx = bind[x.index(i)];\n\n                  if(idx < 0)\n                  {\n                     idx = -idx - 1;\n                     scaleExp = _scaler->getRowScaleExp(idx);\n                  }\n                  else\n                     scaleExp = - _scaler->getColScaleExp(idx);\n\n                  spxLdexp(x.value(i), scaleExp);\n               }"},
        {"name": "rhs_sign", "find": "int scaleExp = _scaler->getRowScaleExp(c);", "replace": "int scaleExp = -_scaler->getRowScaleExp(c);"},
        {"name": "slack_not_negated", "find": "coef[i] = - (_solver.rowVector(idx) * x);", "replace": "coef[i] = (_solver.rowVector(idx) * x);"},
        {"name": "slack_wrong_row", "find": "coef[i] = - (_solver.rowVector(idx) * x);", "replace": "coef[i] = - (_solver.rowVector(i) * x);"},
        {"name": "wrong_kernel", "find": "_solver.basis().coSolve(x, rhs);", "replace": "_solver.basis().solve(x, rhs);"},
        {"name": "col_out_row_exp", "find": "coef[i] = spxLdexp(x[idx], _scaler->getColScaleExp(idx));", "replace": "coef[i] = spxLdexp(x[idx], _scaler->getRowScaleExp(idx));"},
        {"name": "col_out_position", "find": "coef[i] = x[idx];", "replace": "coef[i] = x[i];"},
        {"name": "unit_col_index_transform", "find": "-bind[i] - 1 == c", "replace": "-bind[i] == c"},
        {"name": "search_col_ids", "find": "_solver.basis().baseId(k).isSPxRowId())", "replace": "_solver.basis().baseId(k).isSPxColId())"},
        {"name": "unscaled_rhs_row_number", "find": "_solver.basis().coSolve(x, _solver.unitVector(index));", "replace": "_solver.basis().coSolve(x, _solver.unitVector(c));"},
        {"name": "memset_dropped", "find": "memset(coef, 0, (unsigned int)numRows() * sizeof(Real));", "replace": ""},
    ]],
})
EXP_BTV = "((v_bind>=0) ? v_kj+(g_scale ? v_cexp : 0) : v_sub)"
btvrow = dict(DENSE, **{
    "name": "getBasisInverseTimesVecReal_row",
    "function": "SoPlexBase<R>::getBasisInverseTimesVecReal(R* rhs, R* sol, bool unscale)  [src/soplex.hpp, opening declarations + ROW-representation branch + common tail]",
    "defines": {"INST_BTV_ROW": "", "SLICE": "\"getBasisInverseTimesVecReal_row.inc\""},
    "harness": "h_btv_row", "enforce": "w_btv_row",
    "slices": HELPERS_D + [
        {"as": "binvtv_decl.inc", "file": HPP, "region_start": r"VectorBase<R> v\(numRows\(\), rhs\);\s*VectorBase<R> x\(numRows\(\), sol\);", "region_end": r"if\(!hasBasis\(\)\)",
         "must_contain": [r"^VectorBase<R> v\(numRows\(\), rhs\);\s*VectorBase<R> x\(numRows\(\), sol\);\s*$"]},
        {"as": "getBasisInverseTimesVecReal_row.inc", "file": HPP,
         "region_start": r"DSVectorBase<R> rowrhs\(numCols\(\)\);\s*SSVectorBase<R> y\(numCols\(\), this->tolerances\(\)\);",
         "region_end": r"\}\s*std::copy\(v\.vec\(\)\.begin\(\), v\.vec\(\)\.end\(\), rhs\);",
         "must_contain": [r"getBasisInd\(bind\);", r"rowrhs\.add\(i, spxLdexp\(v\[idx\], scaleExp\)\);", r"_solver\.basis\(\)\.coSolve\(y, rowrhs\);",
                          r"R act = rowVectorRealInternal\(index\) \* VectorBase<R>\(numCols\(\), y\.get_ptr\(\)\);", r"x\[i\] = v\[index\] - act;", r"spx_free\(bind\);\s*$"]},
        {"as": "binvtv_tail.inc", "file": HPP, "region_start": r"std::copy\(v\.vec\(\)\.begin\(\), v\.vec\(\)\.end\(\), rhs\);",
         "region_end": r"\}\s*/// multiply with basis matrix; B \* vec \(inplace\)",
         "must_contain": [r"std::copy\(x\.vec\(\)\.begin\(\), x\.vec\(\)\.end\(\), sol\);\s*return true;\s*$"]}],
    "loops": [
        {"function": r"H::body\(this\)", "loop": 0, "locals": [["i", "1::1::i"], "scaleExp", "idx"],
         "invariants": ["0<=i && i<=g_nc && 0<=*gp_ds_used && *gp_ds_used<=i",
                        "(g_b<i && v_binfo<0) ? (g_addb==1 && 0<=g_add_pos && g_add_pos<*gp_ds_used && g_q==g_add_pos && gp_dsi[g_add_pos]==g_b && gp_dsv[g_add_pos]==v_rhs_r2+(g_scale ? v_rexpb : 0)) : (g_addb==0)"],
         "assigns": ["i", "scaleExp", "idx", "*gp_ds_used", "*gp_ds_gpos", "__CPROVER_object_whole(gp_dsv)", "__CPROVER_object_whole(gp_dsi)", "g_addb", "v_add", "g_add_pos", "g_q"],
         "decreases": "g_nc-i"},
        {"function": r"H::body\(this\)", "loop": 1, "locals": [["j", "1::4::i"], "scaleExp"],
         "invariants": ["0<=j && j<=g_n", "(g_p<j) ? gp_s2[g_p]==%s : 1" % EXP_BTV],
         "assigns": ["j", "scaleExp", "__CPROVER_object_whole(gp_s2)", "g_dot_hits", "g_sub_hits"], "decreases": "g_n-j"},
    ],
    "min_obligations": 100, "tier": "quick",
    "mutants": [
        {"name": "old_defect_ea8ed1e", "slice": "getBasisInverseTimesVecReal_row.inc", "regex": True,
         "find": r"R act = rowVectorRealInternal\(index\) \* VectorBase<R>\(numCols\(\), y\.get_ptr\(\)\);(\s*if\(adaptScaling\)\s*\{\s*scaleExp = -_scaler->getRowScaleExp\(index\);\s*)act = spxLdexp\(act, scaleExp\);(\s*\})\s*x\[i\] = v\[index\] - act;",
         "replace": "x[i] = v[index] - (rowVectorRealInternal(index) * VectorBase<R>(numCols(), y.get_ptr()));\\1x[i] = spxLdexp(x[i], scaleExp);\\2"},
        {"name": "seeded_rhs_read_at_basis_position", "slice": "getBasisInverseTimesVecReal_row.inc", "find": "x[i] = v[index] - act;", "replace": "x[i] = v[i] - act;"},
        {"name": "rhs_scale_sign", "slice": "getBasisInverseTimesVecReal_row.inc", "find": "scaleExp = _scaler->getRowScaleExp(idx);", "replace": "scaleExp = -_scaler->getRowScaleExp(idx);"},
        {"name": "rhs_entry_at_position", "slice": "getBasisInverseTimesVecReal_row.inc", "find": "rowrhs.add(i, v[_solver.number(id)]);", "replace": "rowrhs.add(i, v[i]);"},
        {"name": "rhs_index_row_number", "slice": "getBasisInverseTimesVecReal_row.inc", "find": "rowrhs.add(i, spxLdexp(v[idx], scaleExp));", "replace": "rowrhs.add(idx, spxLdexp(v[idx], scaleExp));"},
        {"name": "act_scale_sign", "slice": "getBasisInverseTimesVecReal_row.inc", "find": "scaleExp = -_scaler->getRowScaleExp(index);", "replace": "scaleExp = _scaler->getRowScaleExp(index);"},
        {"name": "col_out_row_exp", "slice": "getBasisInverseTimesVecReal_row.inc", "find": "scaleExp = _scaler->getColScaleExp(index);", "replace": "scaleExp = _scaler->getRowScaleExp(index);"},
        {"name": "col_out_position", "slice": "getBasisInverseTimesVecReal_row.inc", "find": "x[i] = y[index];", "replace": "x[i] = y[i];"},
        {"name": "wrong_kernel", "slice": "getBasisInverseTimesVecReal_row.inc", "find": "_solver.basis().coSolve(y, rowrhs);", "replace": "_solver.basis().solve(y, rowrhs);"},
        {"name": "col_ids_in_rhs", "slice": "getBasisInverseTimesVecReal_row.inc", "find": "if(id.isSPxRowId())", "replace": "if(id.isSPxColId())"},
        {"name": "index_transform", "slice": "getBasisInverseTimesVecReal_row.inc", "find": "index = -index - 1;", "replace": "index = -index;"},
        {"name": "sol_from_v", "slice": "binvtv_tail.inc", "find": "std::copy(x.vec().begin(), x.vec().end(), sol);", "replace": "std::copy(v.vec().begin(), v.vec().end(), sol);"},
    ],
})
multrow = dict(DENSE, **{
    "name": "multBasis_row",
    "function": "SoPlexBase<R>::multBasis(R* vec, bool unscale)  [src/soplex.hpp, ROW-representation branch]",
    "defines": {"INST_MULT_ROW": "", "SLICE": "\"multBasis_row.inc\""},
    "harness": "h_mult_row", "enforce": "w_mult_row",
    "slices": HELPERS_D + [{"as": "multBasis_row.inc", "file": HPP,
                            "region_start": r"int colbasisdim = numRows\(\);\s*VectorBase<R> y\(colbasisdim\);\s*y\.clear\(\);",
                            "region_end": r"\}\s*return true;\s*\}\s*/// multiply with transpose of basis matrix",
                            "must_contain": [r"getBasisInd\(bind\);", r"y\[index\] \+= x\[i\];", r"y\.multAdd\(x\[i\], col\);", r"else\s*y\.multAdd\(x\[i\], _solver\.colVector\(index\)\);",
                                             r"x = y;\s*std::copy\(x\.vec\(\)\.begin\(\), x\.vec\(\)\.end\(\), vec\);\s*$"]}],
    "loops": [
        {"function": r"H::body\(this\)", "loop": 0, "locals": ["i", "index", "colbasisdim"],
         "invariants": ["0<=i && i<=colbasisdim && colbasisdim==g_n",
                        "g_foreign==0 && g_clear_calls==1 && 0<=g_contribs && g_contribs<=i && -1<=g_cur && g_cur<g_n",
                        "g_has_k==((g_k<i && v_xk!=(1LL<<41)) ? 1 : 0)",
                        "gp_s1[g_p]==v_acc && gp_s2[g_k]==v_xk"],
         "assigns": ["i", "index", "__CPROVER_object_whole(gp_s1)", "g_cur", "g_contribs", "g_foreign", "g_has_k", "v_acc"],
         "decreases": "colbasisdim-i"},
    ],
    "min_obligations": 100, "tier": "quick",
    "mutants": [dict(m, slice="multBasis_row.inc") for m in [
        {"name": "old_defect_8f7e90c", "regex": True,
         "find": r"VectorBase<R> y\(colbasisdim\);(.*?)y\[index\] \+= x\[i\];(.*?)y\.multAdd\(x\[i\], col\);(\s*\})\s*else\s*y\.multAdd\(x\[i\], _solver\.colVector\(index\)\);",
         "replace": "DSVectorBase<R> y(colbasisdim);\\1y.add(x[i] * UnitVectorBase<R>(index));\\2y.add(x[i] * col);\\3\n\n               y.add(x[i] * _solver.colVector(index));"},
        {"name": "old_missing_else", "regex": True, "find": r"else\s*y\.multAdd\(x\[i\], _solver\.colVector\(index\)\);", "replace": "y.multAdd(x[i], _solver.colVector(index));"},
        {"name": "old_last_contribution_only", "find": "y[index] += x[i];", "replace": "y[index] = x[i];"},
        {"name": "scaled_col_when_unscaling", "find": "y.multAdd(x[i], col);", "replace": "y.multAdd(x[i], _solver.colVector(index));"},
        {"name": "unscaled_col_always", "find": "if(unscale && _solver.isScaled())", "replace": "if(unscale)"},
        {"name": "index_transform", "find": "index = -index - 1;", "replace": "index = -index;"},
        {"name": "slack_cell_position", "find": "y[index] += x[i];", "replace": "y[i] += x[i];"},
        {"name": "wrong_scalar", "find": "y.multAdd(x[i], _solver.colVector(index));", "replace": "y.multAdd(x[0], _solver.colVector(index));"},
        {"name": "slack_test_flipped", "find": "if(index < 0)", "replace": "if(index <= 0)"},
        {"name": "off_by_one", "find": "for(int i = 0; i < colbasisdim; ++i)", "replace": "for(int i = 1; i < colbasisdim; ++i)"},
        {"name": "clear_dropped", "find": "y.clear();", "replace": ""},
        {"name": "result_not_assigned", "find": "x = y;", "replace": ""},
    ]],
})
base = json.load(open(os.path.join(os.path.dirname(os.path.abspath(__file__)), "..", "basisinv", "unit.json")))
unit = {
    "property": ["C05"],
    "desc": "basis-inverse and multiply queries of SoPlexBase<R> (soplex.hpp), ROW-representation branches, at R = ledger: complement "
            "construction from bind = getBasisInd(), scaling shifts around the opaque solve / dot-product kernels",
    "rmode": base["rmode"],
    "defines": {"CAP": "8"}, "defines_thorough": {"CAP": "16"}, "defines_small": {"CAP": "3"},
    "flags": ["--bounds-check", "--pointer-check", "--signed-overflow-check"],
    "timeout_s": 240,
    "extracts": base["extracts"],
    "conformance": [c for c in base["conformance"] if "glue" not in c["why"] and "_ensureRealLPLoaded" not in c["why"] and "unitVector" not in c["why"] and "mult" not in c["why"]] + [
        {"file": "src/soplex.hpp", "regex": r"spx_free\(bind\);\s*\}\s*return true;\s*\}\s*/// computes column c of basis inverse", "why": "glue `return true;` is the last statement of getBasisInverseRowReal"},
        {"file": "src/soplex.hpp", "regex": r"std::copy\(x\.vec\(\)\.begin\(\), x\.vec\(\)\.end\(\), vec\);\s*\}\s*return true;\s*\}\s*/// compute rational basis inverse", "why": "glue `return true;` is the last statement of multBasisTranspose"},
        {"file": "src/soplex/spxlpbase.h", "regex": r"const\s+SVectorBase<R>&\s+rowVector\(int i\)\s*const", "why": "SolverStub::rowVector"},
        {"file": "src/soplex/spxlpbase.h", "regex": r"const\s+SVectorBase<R>&\s+colVector\(int i\)\s*const", "why": "SolverStub::colVector"},
        {"file": "src/soplex/spxlpbase.h", "regex": r"void\s+getColVectorUnscaled\(int i,\s*DSVectorBase<R>&\s*vec\)\s*const;", "why": "SolverStub::getColVectorUnscaled"},
        {"file": "src/soplex/spxalloc.h", "regex": r"inline void spx_alloc\(T& p, int n = 1\)", "why": "spx_alloc stub"},
        {"file": "src/soplex/spxalloc.h", "regex": r"inline void spx_free\(T& p\)\s*\{\s*assert\(p != nullptr\);\s*free\(p\);\s*p = nullptr;", "why": "spx_free stub"},
        {"file": "src/soplex/basevectors.h", "regex": r"VectorBase<R>& VectorBase<R>::operator=\(const SVectorBase<S>& vec\)\s*\{\s*clear\(\);\s*for\(int i = 0; i < vec\.size\(\); \+\+i\)\s*\{\s*assert\(vec\.index\(i\) < dim\(\)\);\s*val\[vec\.index\(i\)\] = vec\.value\(i\);",
         "why": "VectorBase = sparse vector: clear, then scatter in entry order (stub models it at the ghost position)"},
        {"file": "src/soplex/dsvectorbase.h", "regex": r"void add\(int i, const R& v\)\s*\{\s*makeMem\(1\);\s*SVectorBase<R>::add\(i, v\);", "why": "DSVectorBase::add(i, v) appends one nonzero"},
        {"file": "src/soplex.hpp", "regex": r"void SoPlexBase<R>::getBasisInd\(int\* bind\) const", "why": "getBasisInd stub (real function under contract in units/basis_soplex)"},
    ],
    "trusted": [t.replace("(8 quick / 32 thorough)", "(8 quick / 16 thorough)") for t in base["trusted"] if not t.startswith("the code under contract") and not t.startswith("_ensureRealLPLoaded") and not t.startswith("hasBasis") and not t.startswith("SSVectorBase::setup")] + [
        "the code under contract is the ROW-branch region of each function; the host appends the function's last statement `return true;` (conformance-checked); the common prologue is under contract in units/basisinv; 0 <= r < numRows() is a precondition (established by the prologue)",
        "getBasisInd(bind) is a recorded stub (the real function is under contract for C04, units/basis_soplex): bind is a caller-supplied array with arbitrary contents; its type invariant (entries name existing rows/columns) is required at the position read; spx_alloc/spx_free hand out / take back that array",
        "sparse vectors (units/basisinv/c05_row_sparse.h): values/indices arrays + provenance (unit vector / LP row / LP column / unscaled LP column + index, negated flag); whole-vector copies, memset and VectorBase = sparse vector are modelled at the ghost positions (other cells arbitrary); rowVector(i) hands out one arbitrary sparse vector for every i and records i; colVector(i)/getColVectorUnscaled(i, col) carry provenance only",
        "the dot product VectorBase * SVectorBase is OPAQUE (arbitrary value, operands recorded); multiplying a sparse vector by -1.0 flips a recorded sign; `coef[index] = 1.0` stores R(1.0) = 1",
        "assumed type invariant of the row basis (C04): basis ids are valid and pairwise different (at the ghost row: at most one position holds its row id)",
        "numRows, numCols, SPxScaler::getColScaleExp/getRowScaleExp are real bodies (sliced)",
    ],
    "instances": [binvrow, multt, binvcol, btvrow, multrow],
}
json.dump(unit, open(os.path.join(os.path.dirname(os.path.abspath(__file__)), "unit.json"), "w"), indent=1)
print("wrote unit.json with", len(unit["instances"]), "instances")
