/* C05 contracts, ROW representation, R = ledger: getBasisInverseColReal, getBasisInverseTimesVecReal, multBasis.
 *
 * Notation (see contract.c): m = numRows(), n = numCols(); the solver's ROW basis has n vectors: rows a_i (i in I_B, `row
 * basic`) and unit vectors e_j (j in J_B); M = the n x n matrix with these vectors as ROWS.  The user's basis matrix B (m x m) is
 * the complement in the order of bind = getBasisInd(): column k of B = A_{.,j} (bind[k] = j >= 0, j not in J_B) resp. the unit
 * vector e_i (bind[k] = -1-i, i not in I_B).
 *
 * DERIVATION.  For z in R^m (indexed by basis position) put xh_j = z_k for bind[k] = j, xh_j = 0 for j in J_B.  Row i of B z = v:
 *      i in I_B:      a_i . xh = v_i                                   (1)
 *      i not in I_B:  a_i . xh + z_{k(i)} = v_i,   bind[k(i)] = -1-i    (2)
 * (1) and xh_j = 0 (j in J_B) read  M xh = w,  w_pos(i) = v_i for i in I_B, w = 0 at the positions of unit vectors: ONE solve
 * with M (SPxBasisBase stores the basis vectors as columns, so this is coSolve: xh' M' = w'), then z_k = xh_j for a basic column and
 * z_k = v_i - a_i . xh for a basic slack, by (2).
 *   getBasisInverseTimesVecReal: v = rhs.
 *   getBasisInverseColReal:      v = e_c.  c not in I_B: w = 0, xh = 0, z_k = [bind[k] == -1-c].
 *                                c in I_B: w = e_pos(c); z_k = xh_j resp. z_k = -(a_i . xh)   (i != c as i is not in I_B).
 * PERSISTENT SCALING (a~_ij = a_ij 2^(r_i + c_j), the solver holds M~): (1) <=> sum_j a~_ij (2^-c_j xh_j) = 2^(r_i) v_i, hence
 *      w~_pos(i) = v_i shifted by +rowExp(i),   xh_j = (M~^-1 w~)_j shifted by +colExp(j),
 *      a_i . xh = (a~_i . x~) shifted by -rowExp(i)   (x~ = M~^-1 w~; the user's v_i is NOT shifted in (2)).
 *   multBasis: (B z)_p = sum_k B_pk z_k: every basis position k with z_k != 0 contributes z_k * (column k of B) exactly once:
 *      z_k e_i (basic slack: z_k is added to cell i), z_k A_{.,j} with the UNSCALED column when unscaling is requested and the
 *      LP is scaled, the solver's column otherwise.  The accumulator starts at 0 and receives nothing else. */
#include "verif_c.h"
#ifndef CAP
#define CAP 8
#endif
typedef long long R;
#define EXP_MAX (1 << 20)
#define FIN (1LL << 30)
#define ZERO (1LL << 41)
#define NEG_OFF (1LL << 50)
#include "Representation.inc"
enum { K_NONE = 0, K_COSOLVE = 1, K_SOLVE = 2, K_MULTBASEWITH = 3, K_MULTWITHBASE = 4 };
enum { V_OTHER = 0, V_UNIT = 1, V_LPROW = 2, V_LPCOL = 3, V_LPROW_UNSCALED = 4, V_LPCOL_UNSCALED = 5 };

int g_ssdim, g_n, g_nc, g_p, g_i, g_w, g_in, g_knum, g_q;
R v_kout, v_kin;
int g_kcalls, g_kkind, g_kx_ok, g_rhs_size, g_rhs_idx; R g_rhs_val;
int g_setup_calls, g_ensure_calls;
R* gp_s1; R* gp_s2; int g_s1_used, g_s2_used; int* gp_xidx; R* gp_kout; const void* gp_local_x;
R* gp_dsv; int* gp_dsi; int g_ds_used_once; int* gp_ds_used; int* gp_ds_gpos;
int g_getbind_calls, g_bind_ok; int* gp_bind; int g_alloc_calls, g_free_calls;
int g_rhs_neg, g_rhs_kind, g_rhs_src;
R* gp_coef; int* gp_ninds; R* gp_vec; R* gp_rhs; R* gp_sol;
/* c05_row_dense.h / unit_dense.cpp */
int g_r1, g_r2, g_dot_src, g_dot_hits, g_sub_hits; R v_dot, v_sub_a, v_sub_b, v_sub;
int g_k, g_cur, g_has_k, g_foreign, g_clear_calls, g_contribs, g_assign_calls, g_assign_ok; R v_acc;
int g_scale, g_b, g_addb, g_add_pos; R v_add;
int g_c, g_cin, g_cw, v_bind;
/* ghost copies */
R v_kj, v_xk, v_rhs_p, v_rhs_r1, v_rhs_r2, v_vec_r; int v_cexp, v_rexp, v_rexp_c, v_rexpb, v_binfo, v_bnum;
void verif_throw(void) {}
#define EXP_OK(e) (-EXP_MAX <= (e) && (e) <= EXP_MAX)
#define FIN_OK(x) (-FIN <= (x) && (x) <= FIN)
#define SCALE (unscale && isScaled)
/* type invariant of getBasisInd's result (property C04): an existing column, or an existing row as -1-i */
#define BIND_OK(b) (-(long long)n <= (b) && (b) < nc)

#define GHOST_ASSIGNS \
__CPROVER_assigns(g_ssdim, g_w, g_in, g_knum, v_kout, v_kin, g_kcalls, g_kkind, g_kx_ok, g_rhs_size, g_rhs_idx, g_rhs_val, g_setup_calls, g_q) \
__CPROVER_assigns(gp_s1, gp_s2, g_s1_used, g_s2_used, gp_xidx, gp_kout, gp_local_x, gp_dsv, gp_dsi, g_ds_used_once, gp_ds_used, gp_ds_gpos) \
__CPROVER_assigns(g_getbind_calls, g_bind_ok, gp_bind, g_alloc_calls, g_free_calls, g_rhs_neg, g_rhs_kind, g_rhs_src) \
__CPROVER_assigns(gp_coef, gp_ninds, gp_vec, gp_rhs, gp_sol, g_dot_hits, g_sub_hits, g_addb, g_add_pos, v_add) \
__CPROVER_assigns(g_cur, g_has_k, g_foreign, g_clear_calls, g_contribs, g_assign_calls, g_assign_ok, v_acc)

#ifdef INST_BINVCOL_ROW
int w_binvcol_row(int c, R* coef, int* ninds, int has_ninds, int unscale, int n, int nc, int isScaled,
                  int* baseInfo, int* baseNum, int* rowexp, int* colexp, int* xidx, R* kout, int* bind, R* dsv, int* dsi)
__CPROVER_requires(0 < n && n <= CAP && 0 < nc && nc <= CAP && g_n == n && g_nc == nc)
__CPROVER_requires(0 <= c && c < n && g_c == c)      /* established by the function's prologue (units/basisinv) */
__CPROVER_requires(__CPROVER_is_fresh(coef, n * sizeof(R)) && __CPROVER_is_fresh(ninds, sizeof(int)))
__CPROVER_requires(__CPROVER_is_fresh(baseInfo, nc * sizeof(int)) && __CPROVER_is_fresh(baseNum, nc * sizeof(int)))
__CPROVER_requires(__CPROVER_is_fresh(rowexp, n * sizeof(int)) && __CPROVER_is_fresh(colexp, nc * sizeof(int)))
__CPROVER_requires(__CPROVER_is_fresh(xidx, nc * sizeof(int)) && __CPROVER_is_fresh(kout, nc * sizeof(R)))
__CPROVER_requires(__CPROVER_is_fresh(bind, n * sizeof(int)) && __CPROVER_is_fresh(dsv, nc * sizeof(R)) && __CPROVER_is_fresh(dsi, nc * sizeof(int)))
/* ghost output position g_p; v_bind = the entry getBasisInd() returns there */
__CPROVER_requires(0 <= g_p && g_p < n && BIND_OK(v_bind))
__CPROVER_requires((g_cin == 0 || g_cin == 1) && (g_cin ==> (0 <= g_cw && g_cw < nc)))
__CPROVER_requires(v_rexp_c == rowexp[c] && EXP_OK(v_rexp_c))
__CPROVER_requires(v_bind >= 0 ==> (v_kj == kout[v_bind] && FIN_OK(v_kj) && v_cexp == colexp[v_bind] && EXP_OK(v_cexp)))
__CPROVER_requires(v_bind < 0 ==> (g_dot_src == -1 - v_bind && v_rexp == rowexp[-1 - v_bind] && EXP_OK(v_rexp) && FIN_OK(v_dot)))
__CPROVER_requires(g_scale == (SCALE ? 1 : 0) && g_q == 0)
GHOST_ASSIGNS
__CPROVER_assigns(__CPROVER_object_whole(coef), __CPROVER_object_whole(bind), __CPROVER_object_whole(dsv), __CPROVER_object_whole(dsi))
__CPROVER_assigns(has_ninds: *ninds)
__CPROVER_ensures(__CPROVER_return_value == 1)
__CPROVER_ensures(g_getbind_calls == 1 && g_bind_ok && g_alloc_calls == 1 && g_free_calls == 1)
/* row c is not in the row basis: column c of B^-1 is the unit vector of the position of its slack; no solve */
__CPROVER_ensures(!g_cin ==> (g_kcalls == 0 && coef[g_p] == ((v_bind == -1 - c) ? 1 : 0)))
/* row c is in the row basis, at position g_cw: ONE coSolve on the local work vector with right-hand side e_{g_cw}, shifted
   by +rowExp(c) iff unscaling */
__CPROVER_ensures(g_cin ==> (g_kcalls == 1 && g_kkind == K_COSOLVE && g_kx_ok && g_rhs_size == 1 && g_rhs_neg == 0))
__CPROVER_ensures(g_cin ==> (g_rhs_idx == g_cw && g_rhs_val == (SCALE ? v_rexp_c : 0)))
/* basic column j: the solve's component j, shifted by +colExp(j) iff unscaling */
__CPROVER_ensures((g_cin && v_bind >= 0) ==> coef[g_p] == v_kj + (SCALE ? v_cexp : 0))
/* basic slack of row i: MINUS (row i of the solver's LP . solve result), shifted by -rowExp(i) iff unscaling */
__CPROVER_ensures((g_cin && v_bind < 0) ==> coef[g_p] == v_dot + NEG_OFF + (SCALE ? -v_rexp : 0))
__CPROVER_ensures(has_ninds ==> *ninds == -1)
;
void h_binvcol_row(void)
{
   int c; R* coef; int* ninds; int has_ninds, unscale, n, nc, isScaled; int* baseInfo; int* baseNum; int* rowexp; int* colexp; int* xidx; R* kout;
   int* bind; R* dsv; int* dsi;
   g_n = nondet_int(); g_nc = nondet_int(); g_p = nondet_int(); g_q = nondet_int(); g_c = nondet_int(); g_cin = nondet_int(); g_cw = nondet_int();
   v_bind = nondet_int(); v_rexp_c = nondet_int(); v_kj = nondet_ll(); v_cexp = nondet_int(); v_rexp = nondet_int(); v_dot = nondet_ll();
   g_dot_src = nondet_int(); g_scale = nondet_int(); g_r1 = -1; g_r2 = -1; g_b = -1; g_k = -1;
   v_sub_a = nondet_ll(); v_sub_b = nondet_ll(); v_sub = nondet_ll();
   w_binvcol_row(c, coef, ninds, has_ninds, unscale, n, nc, isScaled, baseInfo, baseNum, rowexp, colexp, xidx, kout, bind, dsv, dsi);
   CANARY();
}
#endif

#ifdef INST_BTV_ROW
int w_btv_row(R* rhs, R* sol, int unscale, int n, int nc, int isScaled, int* baseInfo, int* baseNum, int* rowexp, int* colexp,
              R* s1, R* s2, int* xidx, R* kout, int* bind, R* dsv, int* dsi)
__CPROVER_requires(0 < n && n <= CAP && 0 < nc && nc <= CAP && g_n == n && g_nc == nc)
__CPROVER_requires(__CPROVER_is_fresh(rhs, n * sizeof(R)) && __CPROVER_is_fresh(sol, n * sizeof(R)))
__CPROVER_requires(__CPROVER_is_fresh(baseInfo, nc * sizeof(int)) && __CPROVER_is_fresh(baseNum, nc * sizeof(int)))
__CPROVER_requires(__CPROVER_is_fresh(rowexp, n * sizeof(int)) && __CPROVER_is_fresh(colexp, nc * sizeof(int)))
__CPROVER_requires(__CPROVER_is_fresh(s1, n * sizeof(R)) && __CPROVER_is_fresh(s2, n * sizeof(R)))
__CPROVER_requires(__CPROVER_is_fresh(xidx, nc * sizeof(int)) && __CPROVER_is_fresh(kout, nc * sizeof(R)))
__CPROVER_requires(__CPROVER_is_fresh(bind, n * sizeof(int)) && __CPROVER_is_fresh(dsv, nc * sizeof(R)) && __CPROVER_is_fresh(dsi, nc * sizeof(int)))
/* ghost output position g_p; v_bind = the entry getBasisInd() returns there */
__CPROVER_requires(0 <= g_p && g_p < n && BIND_OK(v_bind) && v_rhs_p == rhs[g_p])
__CPROVER_requires(v_bind >= 0 ==> (g_r1 == -1 && v_kj == kout[v_bind] && FIN_OK(v_kj) && v_cexp == colexp[v_bind] && EXP_OK(v_cexp)))
/* basic slack of row g_r1: sol = SUB(rhs[g_r1], DOT(row g_r1 of the solver's LP, solve result) shifted by -rowExp(g_r1) iff unscaling) */
__CPROVER_requires(v_bind < 0 ==> (g_r1 == -1 - v_bind && g_dot_src == g_r1 && v_rhs_r1 == rhs[g_r1] && FIN_OK(v_rhs_r1) && v_rexp == rowexp[g_r1] && EXP_OK(v_rexp)))
__CPROVER_requires(v_bind < 0 ==> (FIN_OK(v_dot) && v_sub_a == v_rhs_r1 && v_sub_b == v_dot + (SCALE ? -v_rexp : 0)))
/* ghost position g_b of the row basis and the id stored there (type invariant of the basis, C04: it names an existing row/column) */
__CPROVER_requires(0 <= g_b && g_b < nc && v_binfo == baseInfo[g_b] && v_bnum == baseNum[g_b] && v_binfo != 0 && 0 <= v_bnum && v_bnum < (v_binfo > 0 ? nc : n))
__CPROVER_requires(v_binfo < 0 ==> (g_r2 == v_bnum && v_rhs_r2 == rhs[v_bnum] && FIN_OK(v_rhs_r2) && v_rexpb == rowexp[v_bnum] && EXP_OK(v_rexpb)))
__CPROVER_requires(v_binfo > 0 ==> g_r2 == -1)
__CPROVER_requires(g_scale == (SCALE ? 1 : 0))
GHOST_ASSIGNS
__CPROVER_assigns(__CPROVER_object_whole(rhs), __CPROVER_object_whole(sol), __CPROVER_object_whole(s1), __CPROVER_object_whole(s2))
__CPROVER_assigns(__CPROVER_object_whole(bind), __CPROVER_object_whole(dsv), __CPROVER_object_whole(dsi))
__CPROVER_ensures(__CPROVER_return_value == 1)
__CPROVER_ensures(g_getbind_calls == 1 && g_bind_ok && g_alloc_calls == 1 && g_free_calls == 1)
/* ONE coSolve on the local work vector */
__CPROVER_ensures(g_kcalls == 1 && g_kkind == K_COSOLVE && g_kx_ok && g_rhs_neg == 0 && 0 <= g_rhs_size && g_rhs_size <= nc)
/* its right-hand side holds, for the position g_b of a row id (row v_bnum), exactly one entry: rhs[v_bnum] shifted by
   +rowExp(v_bnum) iff unscaling; no entry for the position of a column id */
__CPROVER_ensures(v_binfo < 0 ==> (g_addb == 1 && g_rhs_idx == g_b && g_rhs_val == v_rhs_r2 + (SCALE ? v_rexpb : 0)))
__CPROVER_ensures(v_binfo > 0 ==> g_addb == 0)
/* basic column j: component j of the solve, shifted by +colExp(j) iff unscaling */
__CPROVER_ensures(v_bind >= 0 ==> sol[g_p] == v_kj + (SCALE ? v_cexp : 0))
/* basic slack */
__CPROVER_ensures(v_bind < 0 ==> sol[g_p] == v_sub)
/* the caller's right-hand side is unchanged */
__CPROVER_ensures(rhs[g_p] == v_rhs_p)
;
void h_btv_row(void)
{
   R* rhs; R* sol; int unscale, n, nc, isScaled; int* baseInfo; int* baseNum; int* rowexp; int* colexp; R* s1; R* s2; int* xidx; R* kout; int* bind; R* dsv; int* dsi;
   g_n = nondet_int(); g_nc = nondet_int(); g_p = nondet_int(); g_q = nondet_int(); g_b = nondet_int(); g_r1 = nondet_int(); g_r2 = nondet_int();
   v_bind = nondet_int(); v_rhs_p = nondet_ll(); v_kj = nondet_ll(); v_cexp = nondet_int(); v_rexp = nondet_int(); v_dot = nondet_ll(); g_dot_src = nondet_int();
   v_rhs_r1 = nondet_ll(); v_rhs_r2 = nondet_ll(); v_sub_a = nondet_ll(); v_sub_b = nondet_ll(); v_sub = nondet_ll();
   v_binfo = nondet_int(); v_bnum = nondet_int(); v_rexpb = nondet_int(); g_scale = nondet_int(); g_c = -1; g_k = -1;
   w_btv_row(rhs, sol, unscale, n, nc, isScaled, baseInfo, baseNum, rowexp, colexp, s1, s2, xidx, kout, bind, dsv, dsi);
   CANARY();
}
#endif

#ifdef INST_MULT_ROW
int w_mult_row(R* vec, int unscale, int n, int nc, int isScaled, R* s1, R* s2, int* bind, R* dsv, int* dsi)
__CPROVER_requires(0 < n && n <= CAP && 0 < nc && nc <= CAP && g_n == n && g_nc == nc)
__CPROVER_requires(__CPROVER_is_fresh(vec, n * sizeof(R)) && __CPROVER_is_fresh(s1, n * sizeof(R)) && __CPROVER_is_fresh(s2, n * sizeof(R)))
__CPROVER_requires(__CPROVER_is_fresh(bind, n * sizeof(int)) && __CPROVER_is_fresh(dsv, n * sizeof(R)) && __CPROVER_is_fresh(dsi, n * sizeof(int)))
/* ghost output cell (row) g_p; ghost basis position (input cell) g_k, v_bind = the entry getBasisInd() returns there */
__CPROVER_requires(0 <= g_p && g_p < n && 0 <= g_k && g_k < n && v_xk == vec[g_k] && BIND_OK(v_bind) && g_r1 == g_k && g_r2 == -1)
__CPROVER_requires(g_scale == (SCALE ? 1 : 0))
GHOST_ASSIGNS
__CPROVER_assigns(__CPROVER_object_whole(vec), __CPROVER_object_whole(s1), __CPROVER_object_whole(s2))
__CPROVER_assigns(__CPROVER_object_whole(bind), __CPROVER_object_whole(dsv), __CPROVER_object_whole(dsi))
__CPROVER_ensures(__CPROVER_return_value == 1)
__CPROVER_ensures(g_getbind_calls == 1 && g_bind_ok && g_alloc_calls == 1 && g_free_calls == 1)
/* the accumulator is cleared once, before anything is accumulated; every accumulation into it is the contribution of the
   basis position being processed: x[k] into cell i for the basic slack of row i, x[k] * column j (unscaled iff unscaling) for a
   basic column j; nothing else is written to it */
__CPROVER_ensures(g_clear_calls == 1 && g_foreign == 0)
/* the contribution of position g_k arrives exactly once (not at all is allowed for a zero entry) */
__CPROVER_ensures(v_xk != ZERO ? g_has_k == 1 : g_has_k <= 1)
/* the result is the accumulator */
__CPROVER_ensures(g_assign_calls == 1 && g_assign_ok && vec[g_p] == v_acc)
;
void h_mult_row(void)
{
   R* vec; int unscale, n, nc, isScaled; R* s1; R* s2; int* bind; R* dsv; int* dsi;
   g_n = nondet_int(); g_nc = nondet_int(); g_p = nondet_int(); g_k = nondet_int(); g_q = nondet_int(); v_bind = nondet_int(); v_xk = nondet_ll();
   g_r1 = nondet_int(); g_r2 = nondet_int(); g_scale = nondet_int(); g_b = -1; g_c = -1; v_acc = nondet_ll();
   v_sub_a = nondet_ll(); v_sub_b = nondet_ll(); v_sub = nondet_ll(); g_dot_src = -1;
   w_mult_row(vec, unscale, n, nc, isScaled, s1, s2, bind, dsv, dsi);
   CANARY();
}
#endif

#ifdef INST_MULTT_ROW
/* B' v: component k = (column k of B) . v.  Column k of B is the unit vector e_r for the basic slack of row r (bind[k] = -1-r):
 * the component is v[r], stored AT POSITION k (not at the row number r).  For a basic column j it is DOT(v, A_{.,j}) with the
 * UNSCALED column iff unscaling is requested and the LP is scaled. */
int w_multt_row(R* vec, int unscale, int n, int nc, int isScaled, R* s1, int* bind, R* dsv, int* dsi)
__CPROVER_requires(0 < n && n <= CAP && 0 < nc && nc <= CAP && g_n == n && g_nc == nc)
__CPROVER_requires(__CPROVER_is_fresh(vec, n * sizeof(R)) && __CPROVER_is_fresh(s1, n * sizeof(R)) && __CPROVER_is_fresh(bind, n * sizeof(int)))
__CPROVER_requires(__CPROVER_is_fresh(dsv, n * sizeof(R)) && __CPROVER_is_fresh(dsi, n * sizeof(int)))
/* ghost basis position g_p (= g_b, the index of sparse entries that is watched); v_bind = the entry getBasisInd() returns there */
__CPROVER_requires(0 <= g_p && g_p < n && g_b == g_p && BIND_OK(v_bind) && g_r2 == -1)
__CPROVER_requires(v_bind < 0 ==> (g_r1 == -1 - v_bind && v_vec_r == vec[g_r1]))
__CPROVER_requires(v_bind >= 0 ==> (g_r1 == -1 && g_dot_src == v_bind))
__CPROVER_requires(g_scale == (SCALE ? 1 : 0))
GHOST_ASSIGNS
__CPROVER_assigns(__CPROVER_object_whole(vec), __CPROVER_object_whole(s1), __CPROVER_object_whole(bind), __CPROVER_object_whole(dsv), __CPROVER_object_whole(dsi))
__CPROVER_ensures(__CPROVER_return_value == 1)
__CPROVER_ensures(g_getbind_calls == 1 && g_bind_ok && g_alloc_calls == 1 && g_free_calls == 1)
/* exactly one term is stored for position g_p, and the result is read off the sparse vector of these terms */
__CPROVER_ensures(g_addb == 1 && g_assign_calls == 1)
__CPROVER_ensures(v_bind < 0 ==> vec[g_p] == v_vec_r)
__CPROVER_ensures(v_bind >= 0 ==> vec[g_p] == v_dot)
;
void h_multt_row(void)
{
   R* vec; int unscale, n, nc, isScaled; R* s1; int* bind; R* dsv; int* dsi;
   g_n = nondet_int(); g_nc = nondet_int(); g_p = nondet_int(); g_b = nondet_int(); g_q = nondet_int(); v_bind = nondet_int(); v_vec_r = nondet_ll();
   g_r1 = nondet_int(); g_r2 = nondet_int(); g_scale = nondet_int(); g_dot_src = nondet_int(); v_dot = nondet_ll(); g_c = -1; g_k = -1;
   v_sub_a = nondet_ll(); v_sub_b = nondet_ll(); v_sub = nondet_ll();
   w_multt_row(vec, unscale, n, nc, isScaled, s1, bind, dsv, dsi);
   CANARY();
}
#endif
