/* Dense vectors and R-arithmetic for the ROW-representation branches of getBasisInverseColReal,
 * getBasisInverseTimesVecReal and multBasis (included by unit_dense.cpp AFTER ../basisinv/c05_stubs.h; the names
 * VectorBase / SSVectorBase are redirected to the classes below, c05_stubs.h's COLUMN-tailored ones stay unused).
 *
 * These branches do ARITHMETIC on R outside the kernels (x[i] = v[index] - act;  coef[i] = -(row * x);  y[index] += x[i];
 * y.multAdd(x[i], col)).  On the ledger type (long long) the built-in operators would be linear maps on offsets and would
 * conflate `ldexp(a - b, e)` with `a - ldexp(b, -e)`; therefore element access yields a proxy (Cell) and the dot product a
 * wrapper (Prod), and every operation is a stub:
 *    DOT(row, x)   uninterpreted FUNCTION of its operands: the ghost token v_dot for the ghost row g_dot_src of the solver's
 *                  LP and the kernel's result vector, an arbitrary value for any other operands;
 *    SUB(a, b)     uninterpreted function: the ghost token v_sub at the ghost operands (v_sub_a, v_sub_b), arbitrary elsewhere;
 *    NEG(a)        a + 2^50 (a marker outside the ledger range; it commutes with spxLdexp as the sign does with scaling);
 *    y[k] += a, y.multAdd(a, vec), y.clear()   accumulation, modelled at the ghost cell g_p: the cell holds a fresh token
 *                  after every accumulation (v_acc = the last one); WHICH contributions arrive is book-kept (see below). */
#ifndef C05_ROW_DENSE_H
#define C05_ROW_DENSE_H
#define NEG_OFF (1LL << 50)
extern "C" {
   extern int g_r1, g_r2;               /* further ghost cells that dense copies preserve (besides g_p) */
   extern R* gp_s1; extern R* gp_s2;
   extern int g_dot_src; extern R v_dot; extern int g_dot_hits;
   extern R v_sub_a, v_sub_b, v_sub; extern int g_sub_hits;
   /* multBasis bookkeeping */
   extern int g_k;                      /* ghost basis position (input cell) */
   extern int g_cur;                    /* position last read from the input vector */
   extern int g_has_k, g_foreign, g_clear_calls, g_contribs, g_assign_calls, g_assign_ok;
   extern R v_acc;
   extern int* gp_bind; extern int g_scale;
}
/* dense copy: destination arbitrary except for the ghost cells g_p, g_r1, g_r2 (see c05_copy) */
static inline void row_copy(R* d, const R* s, int n)
{
   if(n > 0)
   {
      bool h0 = 0 <= g_p && g_p < n, h1 = 0 <= g_r1 && g_r1 < n, h2 = 0 <= g_r2 && g_r2 < n;
      R t0 = 0, t1 = 0, t2 = 0;
      if(h0) t0 = s[g_p];
      if(h1) t1 = s[g_r1];
      if(h2) t2 = s[g_r2];
      __CPROVER_havoc_object(d);
      if(h0) d[g_p] = t0;
      if(h1) d[g_r1] = t1;
      if(h2) d[g_r2] = t2;
   }
}
/* result of a dot product */
struct Prod
{
   R t; bool neg;
   Prod operator-() const { Prod p; p.t = t; p.neg = !neg; return p; }
   operator R() const { return neg ? (R)((unsigned long long)t + (unsigned long long)NEG_OFF) : t; }
};
enum { ROLE_SS = 0, ROLE_FIRST = 1, ROLE_SECOND = 2, ROLE_KCOPY = 3 };
template <class T> struct VectorBaseRow;
/* element of a dense vector */
template <class T> struct Cell
{
   T* p; int i; int role; int dimen;
   operator T() const
   {
#ifdef INST_MULT_ROW
      if(role == ROLE_SECOND) g_cur = i;          /* the input vector x is read at position i */
#endif
      return *p;
   }
   void store(const T& v)
   {
#ifdef INST_MULT_ROW
      if(role == ROLE_FIRST) g_foreign++;          /* the accumulator is only ever accumulated into */
#endif
      *p = v;
   }
   void operator=(const T& v) { store(v); }
   void operator=(const Cell<T>& o) { T v = o; store(v); }
   /* SUB */
   T operator-(const T& b) const
   {
      T a = *p;
      if(a == v_sub_a && b == v_sub_b) { g_sub_hits = 1; return v_sub; }
      return nondet_ll();
   }
   /* accumulation y[i] += v */
   void operator+=(const T& v)
   {
#ifdef INST_MULT_ROW
      bool ok = role == ROLE_FIRST && 0 <= g_cur && g_cur < g_n;
      if(ok)
      {
         int b = gp_bind[g_cur];
         ok = b < 0 && -1 - b == i && v == gp_s2[g_cur];
      }
      g_contribs++;
      if(!ok) g_foreign++;
      else if(g_cur == g_k) g_has_k++;
      T t = nondet_ll();
      if(role == ROLE_FIRST && i == g_p) v_acc = t;
      *p = t;
#else
      (void)v; __CPROVER_assert(0, "no accumulation in this function");
#endif
   }
};
static inline R spxLdexp(const Cell<R>& c, int e) { R x = c; return spxLdexp(x, e); }
static inline bool isNotZero(const Cell<R>& c, Real eps) { R x = c; return isNotZero(x, eps); }

template <class T> struct VectorBaseRow
{
   T* val; int dimen; int role;
   VectorBaseRow() {}
   void take(int n)
   {
      __CPROVER_assert(n == g_n, "local dense vector: dimension is numRows()");
      if(!g_s1_used) { val = (T*)gp_s1; g_s1_used = 1; role = ROLE_FIRST; }
      else { __CPROVER_assert(!g_s2_used, "at most two local dense vectors"); val = (T*)gp_s2; g_s2_used = 1; role = ROLE_SECOND; }
      dimen = n;
   }
   /* VectorBase(dim): dim zeros (std::vector::resize) */
   VectorBaseRow(int n)
   {
      take(n);
      T* d = val;
      if(n > 0) { __CPROVER_havoc_object(d); if(0 <= g_p && g_p < n) d[g_p] = 0; }
   }
   /* VectorBase(dim, ptr) copies dim values.  A copy of the kernel's result vector (only ever read, by a dot product) aliases it */
   VectorBaseRow(int n, T* p)
   {
      if(p == (T*)gp_kout) { __CPROVER_assert(n == g_ssdim, "dense copy of the work vector: its dimension"); val = p; dimen = n; role = ROLE_KCOPY; }
      else { take(n); row_copy(val, p, n); }
   }
   int dim() const { return dimen; }
   Cell<T> operator[](int n)
   {
      __CPROVER_assert(0 <= n && n < dimen, "VectorBase index in bounds");
      Cell<T> c; c.p = &val[n]; c.i = n; c.role = role; c.dimen = dimen; return c;
   }
   VecRange<T> vec() { VecRange<T> r; r.b = val; r.e = val + dimen; return r; }
   T* get_ptr() { return val; }
   /* y.clear(): all zero */
   void clear()
   {
      g_clear_calls++;
      if(g_contribs > 0 || role != ROLE_FIRST) g_foreign++;
      T* d = val; int n = dimen;
      if(n > 0) { __CPROVER_havoc_object(d); if(0 <= g_p && g_p < n) d[g_p] = 0; }
      v_acc = 0;
   }
   /* y.multAdd(a, vec): y += a * vec (vectorbase.h / basevectors.h); opaque, modelled at the ghost cell */
   void multAdd(const T& a, const SVectorBase<T>& vec)
   {
      bool ok = role == ROLE_FIRST && 0 <= g_cur && g_cur < g_n;
      if(ok)
      {
         int b = gp_bind[g_cur];
         ok = b >= 0 && vec.src == b && vec.kind == (g_scale ? V_LPCOL_UNSCALED : V_LPCOL) && !vec.neg && a == gp_s2[g_cur];
      }
      g_contribs++;
      if(!ok) g_foreign++;
      else if(g_cur == g_k) g_has_k++;
      T* d = val; int n = dimen;
      T t = nondet_ll();
      if(n > 0) { __CPROVER_havoc_object(d); if(0 <= g_p && g_p < n) d[g_p] = t; }
      if(role == ROLE_FIRST) v_acc = t;
   }
   /* x = y (dense) */
   void operator=(const VectorBaseRow<T>& o)
   {
      g_assign_calls++;
      g_assign_ok = (role == ROLE_SECOND && o.role == ROLE_FIRST && o.dimen == dimen);
      c05_copy(val, o.val, dimen);
   }
   /* x = sparse vector: clear(), then val[index(k)] = value(k) for k = 0..size-1 (basevectors.h, conformance-checked); modelled
      at the ghost cell: g_p receives the value of the LAST entry whose index is g_p (tracked by DSVectorBase::add(i, v)), else 0.
      (multBasis: only reached by seeded faults that restore the sparse accumulator - the result is then not the accumulator) */
   void operator=(const SVectorBase<T>& o)
   {
      g_assign_calls++; g_assign_ok = 0;
      int n = dimen; T* d = val; int gp = o.gpos; const T* vv = o.vals;
      T t = 0;
      if(gp >= 0) t = vv[gp];
      if(n > 0) { __CPROVER_havoc_object(d); if(0 <= g_p && g_p < n) d[g_p] = t; }
   }
};
static inline void c05_force_vectorbaserow() { VectorBaseRow<R> a; (void)a; }

/* the function's local sparse work vector: its values ARE the kernel's result vector (arbitrary contents) */
template <class T> struct SSVectorBaseRow : VectorBaseRow<T>
{
   int* idx; int num; bool setupStatus;
   SSVectorBaseRow(int n, TolStub*)
   {
      __CPROVER_assert(n == g_ssdim && gp_local_x == 0, "SSVectorBase(dim, tol): one local sparse work vector of the basis dimension");
      this->val = (T*)gp_kout; this->dimen = n; this->role = ROLE_SS; idx = gp_xidx; num = 0; setupStatus = true;
      gp_local_x = this;
   }
   T operator[](int i) const { __CPROVER_assert(0 <= i && i < this->dimen, "SSVector index in bounds"); return this->val[i]; }
   /* index-list view (used only by seeded faults that restore removed code): setup() as in c05_stubs.h */
   void setup()
   {
      g_setup_calls++;
      if(!setupStatus) { int k = nondet_int(); __CPROVER_assume(0 <= k && k <= this->dimen); num = k; setupStatus = true; }
   }
   int size() const { return num; }
   int index(int n) const
   {
      __CPROVER_assert(0 <= n && n < num, "SSVector index position in bounds");
      int i = idx[n];
      __CPROVER_assume(0 <= i && i < this->dimen);
      return i;
   }
   T value(int n) const { return this->val[index(n)]; }
};
#endif
