   /* (members of SVectorBase<T>; reached only by seeded faults that restore the sparse accumulator of multBasis)
    * real: set_size(0) resp. append the nonzeros of sv (svectorbase.h) */
   void clear() { used = 0; gpos = -1; }
   void add(const SVectorBase<T>& sv) { used = used + sv.used; }
