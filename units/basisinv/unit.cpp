/* C05: basis-inverse and multiply queries of SoPlexBase<R> (src/soplex.hpp), COLUMN-representation branches, R = ledger.
 * The code under contract is cut verbatim out of the tree as REGIONS of the five functions: from the first statement of
 * the function up to (not including) the `else` that opens the ROW-representation branch.  The host appends the glue
 * `else { unreachable } return true;` (the function's real last statement, conformance-checked). */
#include "c05_stubs.h"

template <class T> struct SPxSolverBase
{
#include "Representation.inc"
};
template <class T> struct SoPlexBase {};

/* SPxId: info < 0 row id, info > 0 column id (conformance-checked); the stub carries the current position of the row /
 * column directly (the real number(id) looks the key up in the LP's DataSet) */
struct SPxId
{
   int info; int num;
   bool isSPxRowId() const { return info < 0; }
   bool isSPxColId() const { return info > 0; }
};
struct LPStub
{
   int nr, nc; bool _isScaled;
   int nRows() const { return nr; }
   int nCols() const { return nc; }
   bool isScaled() const { return _isScaled; }
};
/* SPxScaler<R>: the two getters are the real bodies (spxscaler.hpp) over the real member names */
struct ScalerStub
{
   DataArray<int>* m_activeColscaleExp;
   DataArray<int>* m_activeRowscaleExp;
   int getColScaleExp(int i) const
   {
#include "getColScaleExp.inc"
   }
   int getRowScaleExp(int i) const
   {
#include "getRowScaleExp.inc"
   }
};
/* SPxBasisBase<R>: baseId() over two parallel arrays; the four kernels are opaque and recorded (see c05_stubs.h) */
struct BasisStub
{
   int* info; int* num; int size; int nr, nc;
   SPxId baseId(int i) const
   {
      __CPROVER_assert(0 <= i && i < size, "baseId index in bounds");
      SPxId id; id.info = info[i]; id.num = num[i];
      /* type invariant of a loaded basis (property C04): every basis id names an existing row or column */
      __CPROVER_assume(id.info != 0);
      __CPROVER_assume(0 <= id.num && id.num < (id.info > 0 ? nc : nr));
      return id;
   }
   void sparse_kernel(int kind, SSVectorBase<R>& x, const SVectorBase<R>& rhs)
   {
      g_kcalls++; g_kkind = kind; g_kx_ok = ((const void*)&x == gp_local_x);
      g_rhs_size = rhs.size();
      if(rhs.size() == 1) { g_rhs_idx = rhs.index(0); g_rhs_val = rhs.value(0); }
      x.val = gp_kout; x.setupStatus = false;      /* arbitrary result, index list not set up */
      if(0 <= g_p && g_p < x.dimen) v_kout = x.val[g_p];
   }
   void dense_kernel(int kind, VectorBase<R>& x, const VectorBase<R>& in, bool ok)
   {
      g_kcalls++; g_kkind = kind; g_kx_ok = ok && x.dimen == g_n && in.dimen == g_n;
      if(0 <= g_p && g_p < in.dimen) v_kin = in.val[g_p];
      x.val = gp_kout;                             /* arbitrary result */
      if(0 <= g_p && g_p < x.dimen) v_kout = x.val[g_p];
   }
   void coSolve(SSVectorBase<R>& x, const SVectorBase<R>& rhs) { sparse_kernel(K_COSOLVE, x, rhs); }
   void solve(SSVectorBase<R>& x, const SVectorBase<R>& rhs) { sparse_kernel(K_SOLVE, x, rhs); }
   void solve(VectorBase<R>& x, const VectorBase<R>& rhs) { dense_kernel(K_SOLVE, x, rhs, x.val == gp_s2 && rhs.val == gp_s1); }
   VectorBase<R>& multBaseWith(VectorBase<R>& x) { dense_kernel(K_MULTBASEWITH, x, x, x.val == gp_s1); return x; }
   VectorBase<R>& multWithBase(VectorBase<R>& x) { dense_kernel(K_MULTWITHBASE, x, x, x.val == gp_s1); return x; }
};
struct SolverStub
{
   BasisStub b; int therep; bool scaled; SVectorBase<R> uv;
   BasisStub& basis() { return b; }
   SPxSolverBase<R>::Representation rep() const { return (SPxSolverBase<R>::Representation)therep; }
   bool isScaled() const { return scaled; }
   int number(const SPxId& id) const { return id.num; }
   /* i-th unit vector: one entry (i, 1.0); the literal 1.0 has ledger offset 0 */
   const SVectorBase<R>& unitVector(int i)
   {
      __CPROVER_assert(0 <= i && i < b.size, "unitVector index in bounds");
      uv.i0 = i; uv.v0 = 0; uv.used = 1;
      return uv;
   }
};

struct Host : SoPlexBase<R>
{
   bool _hasBasis, _isRealLPLoaded;
   LPStub* _realLP;
   SolverStub _solver;
   ScalerStub* _scaler;
   TolStub tol;
   TolStub* tolerances() { return &tol; }
   bool hasBasis() const
   {
#include "hasBasis.inc"
   }
   int numRows() const
   {
#include "numRows.inc"
   }
   int numCols() const
   {
#include "numCols.inc"
   }
   /* real: loads the LP and the stored basis into the solver; postcondition _isRealLPLoaded == true (conformance-checked) */
   void _ensureRealLPLoaded() { g_ensure_calls++; _isRealLPLoaded = true; }
};

extern "C" {
   extern R* gp_coef; extern int* gp_inds; extern int* gp_ninds; extern R* gp_vec; extern R* gp_rhs; extern R* gp_sol;
}

struct Env
{
   LPStub lp; ScalerStub sc; DataArray<int> re, ce;
   void init(Host& h, int n, int nc, int hasBasis, int isRealLPLoaded, int rep, int isScaled,
             int* baseInfo, int* baseNum, int* rowexp, int* colexp, R* s1, R* s2, int* xidx, R* kout)
   {
      lp.nr = n; lp.nc = nc; lp._isScaled = isScaled != 0;
      re.data = rowexp; re.thesize = n; ce.data = colexp; ce.thesize = nc;
      sc.m_activeRowscaleExp = &re; sc.m_activeColscaleExp = &ce;
      h._hasBasis = hasBasis != 0; h._isRealLPLoaded = isRealLPLoaded != 0; h._realLP = &lp; h._scaler = &sc;
      h._solver.therep = rep; h._solver.scaled = isScaled != 0;
      h._solver.b.info = baseInfo; h._solver.b.num = baseNum; h._solver.b.size = n; h._solver.b.nr = n; h._solver.b.nc = nc;
      h.tol.eps = 1e-16;
      g_ssdim = n;
      gp_s1 = s1; gp_s2 = s2; g_s1_used = 0; g_s2_used = 0; gp_xidx = xidx; gp_kout = kout; gp_local_x = 0;
      g_kcalls = 0; g_kkind = K_NONE; g_kx_ok = 0; g_setup_calls = 0; g_ensure_calls = 0; g_rhs_size = -1;
   }
};

#if defined(INST_BINVROW) || defined(INST_BINVCOL)
struct H : Host
{
   int IDXPARAM; R* coef; int* inds; int* ninds; bool unscale;
   bool body()
   {
#include SLICE
      else { __CPROVER_assert(0, "ROW-representation branch is not part of this instance"); }
      return true;
   }
};
extern "C" int w_binv(int rc, R* coef, int* inds, int* ninds, int has_inds, int has_ninds, int unscale,
                      int n, int nc, int hasBasis, int isRealLPLoaded, int rep, int isScaled,
                      int* baseInfo, int* baseNum, int* rowexp, int* colexp, R* s1, int* xidx, R* kout)
{
   VIN("rc", rc); VIN("n", n); VIN("unscale", unscale); VIN("isScaled", isScaled);
   Env e; H h;
   e.init(h, n, nc, hasBasis, isRealLPLoaded, rep, isScaled, baseInfo, baseNum, rowexp, colexp, s1, 0, xidx, kout);
   h.IDXPARAM = rc; h.coef = coef; h.inds = has_inds ? inds : nullptr; h.ninds = has_ninds ? ninds : nullptr; h.unscale = unscale != 0;
   gp_coef = coef; gp_inds = inds; gp_ninds = ninds;
   return h.body() ? 1 : 0;
}
#endif

#if defined(INST_MULT)
struct H : Host
{
   R* vec; bool unscale;
   bool body()
   {
#include SLICE
      else { __CPROVER_assert(0, "ROW-representation branch is not part of this instance"); }
      return true;
   }
};
extern "C" int w_mult(R* vec, int unscale, int n, int nc, int hasBasis, int isRealLPLoaded, int rep, int isScaled,
                      int* baseInfo, int* baseNum, int* rowexp, int* colexp, R* s1, R* kout)
{
   VIN("n", n); VIN("unscale", unscale); VIN("isScaled", isScaled);
   Env e; H h;
   e.init(h, n, nc, hasBasis, isRealLPLoaded, rep, isScaled, baseInfo, baseNum, rowexp, colexp, s1, 0, 0, kout);
   h.vec = vec; h.unscale = unscale != 0;
   gp_vec = vec;
   return h.body() ? 1 : 0;
}
#endif

#if defined(INST_BTV)
struct H : Host
{
   R* rhs; R* sol; bool unscale;
   bool body()
   {
#include SLICE
      else { __CPROVER_assert(0, "ROW-representation branch is not part of this instance"); }
#include "binvtv_tail.inc"
   }
};
extern "C" int w_btv(R* rhs, R* sol, int unscale, int n, int nc, int hasBasis, int isRealLPLoaded, int rep, int isScaled,
                     int* baseInfo, int* baseNum, int* rowexp, int* colexp, R* s1, R* s2, R* kout)
{
   VIN("n", n); VIN("unscale", unscale); VIN("isScaled", isScaled);
   Env e; H h;
   e.init(h, n, nc, hasBasis, isRealLPLoaded, rep, isScaled, baseInfo, baseNum, rowexp, colexp, s1, s2, 0, kout);
   h.rhs = rhs; h.sol = sol; h.unscale = unscale != 0;
   gp_rhs = rhs; gp_sol = sol;
   return h.body() ? 1 : 0;
}
#endif
