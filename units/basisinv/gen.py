#!/usr/bin/env python3
"""Generates unit.json of the basisinv unit (C05, COLUMN-representation branches).  The runner only reads unit.json."""
import json, os
HPP = "src/soplex.hpp"
ROW_ELSE = r"else\s*\{\s*assert\(_solver\.rep\(\) == SPxSolverBase<R>::ROW\);"
NOFN = r"(?:(?!\ntemplate <class R>).)*?"

def acc(name, ret, args, file=HPP, cls="SoPlexBase<R>", const=True, must=None):
    d = {"as": name + ".inc", "file": file,
         "sig": ret + r"\s+" + cls + "::" + name + r"\s*\(\s*" + args + r"\s*\)" + (r"\s*const" if const else "")}
    if must:
        d["must_contain"] = must
    return d

HELPERS = [
    acc("hasBasis", "bool", "", must=[r"return _hasBasis;"]),
    acc("numRows", "int", "", must=[r"_realLP->nRows\(\)"]),
    acc("numCols", "int", "", must=[r"_realLP->nCols\(\)"]),
    acc("getColScaleExp", "int", r"int\s+i", file="src/soplex/spxscaler.hpp", cls="SPxScaler<R>", must=[r"\(\*m_activeColscaleExp\)\[i\]"]),
    acc("getRowScaleExp", "int", r"int\s+i", file="src/soplex/spxscaler.hpp", cls="SPxScaler<R>", must=[r"\(\*m_activeRowscaleExp\)\[i\]"]),
    {"as": "SSVector_scaleValue.inc", "file": "src/soplex/ssvectorbase.h", "sig": r"void\s+scaleValue\s*\(\s*int\s+i\s*,\s*int\s+scaleExp\s*\)",
     "must_contain": [r"VectorBase<R>::val\[i\] = spxLdexp\(VectorBase<R>::val\[i\], scaleExp\);"]},
]

G = "v_gamma_p"; RE = "v_rexp_p"; Z = "(1LL<<41)"

def binv(name, fn, idxparam, kind, out_shift, scale_loop_locals, mutants, tier, ihint="1::1::1::i", jhint="3::1::i"):
    start = r"if\(!hasBasis\(\) \|\| %s < 0 \|\| %s >= numRows\(\)\)" % (idxparam, idxparam)
    xfin = "((g_scale && g_in) ? v_kout+%s : v_kout)" % out_shift
    loops = [
        # loop over the listed entries of the kernel result: rescale
        {"function": r"H::body\(this\)", "loop": 0, "locals": [["i", ihint], "size"] + scale_loop_locals,
         "invariants": ["0<=i && i<=size && size==g_knum && size<=g_n",
                        "(g_in && i>g_w) ? gp_kout[g_p]==v_kout+%s : gp_kout[g_p]==v_kout" % out_shift],
         "assigns": ["i"] + [l if isinstance(l, str) else l[0] for l in scale_loop_locals] + ["__CPROVER_object_whole(gp_kout)"],
         "decreases": "size-i"},
        # copy loop: scatter into coef, list the indices
        {"function": r"H::body\(this\)", "loop": 1, "locals": [["j", jhint], "idx"],
         "invariants": ["0<=j && j<=*gp_ninds && *gp_ninds==g_knum && g_knum<=g_n",
                        "(g_i<j) ? (gp_inds[g_i]==gp_xidx[g_i] && 0<=gp_inds[g_i] && gp_inds[g_i]<g_n) : gp_inds[g_i]==v_inds_old",
                        "(g_in && j>g_w) ? (gp_coef[g_p]==%s && gp_inds[g_w]==g_p) : gp_coef[g_p]==v_old" % xfin,
                        "gp_kout[g_p]==%s" % xfin],
         "assigns": ["j", "idx", "__CPROVER_object_whole(gp_coef)", "__CPROVER_object_whole(gp_inds)"],
         "decreases": "*gp_ninds-j"},
    ]
    return {"name": name, "function": fn + "  [src/soplex.hpp, COLUMN-representation branch]",
            "defines": {"INST_" + kind: "", "SLICE": "\"%s.inc\"" % name, "IDXPARAM": idxparam},
            "harness": "h_binv", "enforce": "w_binv",
            "slices": HELPERS + [{"as": name + ".inc", "file": HPP, "region_start": start, "region_end": ROW_ELSE,
                                  "must_contain": [r"_solver\.rep\(\) == SPxSolverBase<R>::COLUMN", r"unscale && _solver\.isScaled\(\)",
                                                   r"\*ninds = x\.size\(\);", r"coef\[idx\] = x\[idx\];", r"inds\[i\] = idx;"]}],
            "loops": loops, "min_obligations": 100, "tier": tier,
            "mutants": [dict(m, slice=name + ".inc") for m in mutants]}

def mult(name, fn, kind, kernel, in_shift, out_shift, out_guarded, mutants, tier, end=r"else\s*\{\s*int colbasisdim = numRows\(\);"):
    start = r"if\(!hasBasis\(\)\)\s*return false;(?=" + NOFN + kernel + r"\(x\))"
    pre = "(v_old==%s ? v_old : v_old+%s)" % (Z, in_shift)
    post = ("(v_kout==%s ? v_kout : v_kout+%s)" % (Z, out_shift)) if out_guarded else "v_kout+%s" % out_shift
    loops = [
        {"function": r"H::body\(this\)", "loop": 0, "locals": [["i", "1::1::i"], "scaleExp", "basisdim"],
         "invariants": ["0<=i && i<=basisdim && basisdim==g_n", "(g_p<i) ? gp_vec[g_p]==%s : gp_vec[g_p]==v_old" % pre],
         "assigns": ["i", "scaleExp", "__CPROVER_object_whole(gp_vec)"], "decreases": "basisdim-i"},
        {"function": r"H::body\(this\)", "loop": 1, "locals": [["j", "1::2::i"], "scaleExp", "basisdim"],
         "invariants": ["0<=j && j<=basisdim && basisdim==g_n", "(g_p<j) ? gp_vec[g_p]==%s : gp_vec[g_p]==v_kout" % post],
         "assigns": ["j", "scaleExp", "__CPROVER_object_whole(gp_vec)"], "decreases": "basisdim-j"},
    ]
    return {"name": name, "function": fn + "  [src/soplex.hpp, COLUMN-representation branch]",
            "defines": {"INST_MULT": "", "KIND_" + kind: "", "SLICE": "\"%s.inc\"" % name},
            "harness": "h_mult", "enforce": "w_mult",
            "slices": HELPERS + [{"as": name + ".inc", "file": HPP, "region_start": start, "region_end": end,
                                  "must_contain": [r"_solver\.rep\(\) == SPxSolverBase<R>::COLUMN", r"unscale && _solver\.isScaled\(\)",
                                                   r"_solver\.basis\(\)\." + kernel + r"\(x\);", r"std::copy\(x\.vec\(\)\.begin\(\), x\.vec\(\)\.end\(\), vec\);"]}],
            "loops": loops, "min_obligations": 100, "tier": tier,
            "mutants": [dict(m, slice=name + ".inc") for m in mutants]}

def btv():
    name = "getBasisInverseTimesVecReal_col"
    pre = "(v_old==%s ? v_old : v_old+%s)" % (Z, RE)
    post = "(v_kout==%s ? v_kout : v_kout+%s)" % (Z, G)
    loops = [
        {"function": r"H::body\(this\)", "loop": 0, "locals": [["i", "1::1::1::1::i"], "scaleExp"],
         "invariants": ["0<=i && i<=g_n", "(g_p<i) ? gp_s1[g_p]==%s : gp_s1[g_p]==v_old" % pre],
         "assigns": ["i", "scaleExp", "__CPROVER_object_whole(gp_s1)"], "decreases": "g_n-i"},
        {"function": r"H::body\(this\)", "loop": 1, "locals": [["j", "1::1::1::2::i"], "scaleExp", "idx"],
         "invariants": ["0<=j && j<=g_n", "(g_p<j) ? gp_kout[g_p]==%s : gp_kout[g_p]==v_kout" % post],
         "assigns": ["j", "scaleExp", "idx", "__CPROVER_object_whole(gp_kout)"], "decreases": "g_n-j"},
    ]
    return {"name": name, "function": "SoPlexBase<R>::getBasisInverseTimesVecReal(R* rhs, R* sol, bool unscale)  [src/soplex.hpp, COLUMN-representation branch + common tail]",
            "defines": {"INST_BTV": "", "SLICE": "\"%s.inc\"" % name}, "harness": "h_btv", "enforce": "w_btv",
            "slices": HELPERS + [
                {"as": name + ".inc", "file": HPP, "region_start": r"VectorBase<R> v\(numRows\(\), rhs\);\s*VectorBase<R> x\(numRows\(\), sol\);", "region_end": ROW_ELSE,
                 "must_contain": [r"_solver\.rep\(\) == SPxSolverBase<R>::COLUMN", r"unscale && _solver\.isScaled\(\)", r"_solver\.basis\(\)\.solve\(x, v\);"]},
                {"as": "binvtv_tail.inc", "file": HPP, "region_start": r"std::copy\(v\.vec\(\)\.begin\(\), v\.vec\(\)\.end\(\), rhs\);",
                 "region_end": r"\}\s*/// multiply with basis matrix; B \* vec \(inplace\)",
                 "must_contain": [r"std::copy\(x\.vec\(\)\.begin\(\), x\.vec\(\)\.end\(\), sol\);\s*return true;\s*$"]}],
            "loops": loops, "min_obligations": 100, "tier": "thorough",
            "mutants": [
                {"name": "in_col_exp", "slice": name + ".inc", "find": "scaleExp = _scaler->getRowScaleExp(i);", "replace": "scaleExp = _scaler->getColScaleExp(i);"},
                {"name": "out_slack_sign", "slice": name + ".inc", "find": "scaleExp = - _scaler->getRowScaleExp(idx);", "replace": "scaleExp = _scaler->getRowScaleExp(idx);"},
                {"name": "out_col_row_swapped", "slice": name + ".inc", "find": "if(_solver.basis().baseId(i).isSPxColId())", "replace": "if(_solver.basis().baseId(i).isSPxRowId())"},
                {"name": "args_swapped", "slice": name + ".inc", "find": "_solver.basis().solve(x, v);\n\n            for", "replace": "_solver.basis().solve(v, x);\n\n            for"},
                {"name": "sol_from_v", "slice": "binvtv_tail.inc", "find": "std::copy(x.vec().begin(), x.vec().end(), sol);", "replace": "std::copy(v.vec().begin(), v.vec().end(), sol);"}]}

insts = [
    binv("getBasisInverseRowReal_col", "SoPlexBase<R>::getBasisInverseRowReal(int r, R* coef, int* inds, int* ninds, bool unscale)", "r", "BINVROW", RE,
         ["scaleExp"],
         [{"name": "col_exp_for_row_exp", "find": "scaleExp = _scaler->getRowScaleExp(x.index(i));", "replace": "scaleExp = _scaler->getColScaleExp(x.index(i));"},
          {"name": "rhs_sign_slack", "find": "scaleExp = - _scaler->getRowScaleExp(_solver.number(_solver.basis().baseId(r)));",
           "replace": "scaleExp = _scaler->getRowScaleExp(_solver.number(_solver.basis().baseId(r)));"},
          {"name": "rhs_col_row_swapped", "find": "if(_solver.basis().baseId(r).isSPxColId())", "replace": "if(_solver.basis().baseId(r).isSPxRowId())"},
          {"name": "wrong_kernel", "find": "_solver.basis().coSolve(x, rhs);", "replace": "_solver.basis().solve(x, rhs);"},
          {"name": "inds_position", "find": "inds[i] = idx;", "replace": "inds[i] = i;"},
          {"name": "ninds_off_by_one", "find": "*ninds = x.size();", "replace": "*ninds = x.size() - 1;"},
          {"name": "out_scale_sign", "find": "x.scaleValue(x.index(i), scaleExp);", "replace": "x.scaleValue(x.index(i), -scaleExp);"},
          {"name": "setup_dropped", "regex": True, "find": r"x\.setup\(\);\s*\*ninds", "replace": "*ninds"},
          {"name": "unscaled_rhs_other_row", "find": "_solver.basis().coSolve(x, _solver.unitVector(r));", "replace": "_solver.basis().coSolve(x, _solver.unitVector(0));"}],
         "quick"),
    mult("multBasis_col", "SoPlexBase<R>::multBasis(R* vec, bool unscale)", "MULTBASIS", "multBaseWith", "(-%s)" % G, "(-%s)" % RE, False,
         [{"name": "in_sign_col", "find": "scaleExp = - _scaler->getColScaleExp(_solver.number(_solver.basis().baseId(i)));",
           "replace": "scaleExp = _scaler->getColScaleExp(_solver.number(_solver.basis().baseId(i)));"},
          {"name": "out_sign", "find": "vec[i] = spxLdexp(vec[i], -scaleExp);", "replace": "vec[i] = spxLdexp(vec[i], scaleExp);"},
          {"name": "col_row_swapped", "find": "if(_solver.basis().baseId(i).isSPxColId())", "replace": "if(_solver.basis().baseId(i).isSPxRowId())"},
          {"name": "wrong_kernel", "find": "_solver.basis().multBaseWith(x);\n         std::copy(x.vec().begin(), x.vec().end(), vec);\n\n         for",
           "replace": "_solver.basis().multWithBase(x);\n         std::copy(x.vec().begin(), x.vec().end(), vec);\n\n         for"},
          {"name": "copy_back_dropped", "regex": True, "find": r"(multBaseWith\(x\);\s*)std::copy\(x\.vec\(\)\.begin\(\), x\.vec\(\)\.end\(\), vec\);(\s*\}\s*\})", "replace": r"\1\2"},
          {"name": "off_by_one", "find": "for(int i = 0; i < basisdim; ++i)\n         {\n            scaleExp = _scaler->getRowScaleExp(i);",
           "replace": "for(int i = 1; i < basisdim; ++i)\n         {\n            scaleExp = _scaler->getRowScaleExp(i);"}],
         "quick"),
    binv("getBasisInverseColReal_col", "SoPlexBase<R>::getBasisInverseColReal(int c, R* coef, int* inds, int* ninds, bool unscale)", "c", "BINVCOL", G,
         ["scaleExp", "idx"],
         [{"name": "rhs_col_exp", "find": "int scaleExp = _scaler->getRowScaleExp(c);", "replace": "int scaleExp = _scaler->getColScaleExp(c);"},
          {"name": "out_slack_sign", "find": "scaleExp = - _scaler->getRowScaleExp(idx);", "replace": "scaleExp = _scaler->getRowScaleExp(idx);"},
          {"name": "out_col_row_swapped", "find": "if(_solver.basis().baseId(x.index(i)).isSPxColId())", "replace": "if(_solver.basis().baseId(x.index(i)).isSPxRowId())"},
          {"name": "wrong_kernel", "find": "_solver.basis().solve(x, rhs);", "replace": "_solver.basis().coSolve(x, rhs);"},
          {"name": "position_for_index", "find": "idx = _solver.number(_solver.basis().baseId(x.index(i)));\n                  scaleExp = _scaler->getColScaleExp(idx);",
           "replace": "idx = x.index(i);\n                  scaleExp = _scaler->getColScaleExp(idx);"},
          {"name": "coef_position", "find": "coef[idx] = x[idx];", "replace": "coef[i] = x[idx];"}],
         "thorough"),
    mult("multBasisTranspose_col", "SoPlexBase<R>::multBasisTranspose(R* vec, bool unscale)", "MULTTRANS", "multWithBase", "(-%s)" % RE, "(-%s)" % G, True,
         [{"name": "in_sign", "find": "scaleExp = - _scaler->getRowScaleExp(i);", "replace": "scaleExp = _scaler->getRowScaleExp(i);"},
          {"name": "out_sign_col", "find": "scaleExp = - _scaler->getColScaleExp(_solver.number(_solver.basis().baseId(i)));",
           "replace": "scaleExp = _scaler->getColScaleExp(_solver.number(_solver.basis().baseId(i)));"},
          {"name": "out_col_row_swapped", "find": "if(_solver.basis().baseId(i).isSPxColId())", "replace": "if(_solver.basis().baseId(i).isSPxRowId())"},
          {"name": "wrong_kernel", "find": "_solver.basis().multWithBase(x);\n         std::copy(x.vec().begin(), x.vec().end(), vec);\n\n         for",
           "replace": "_solver.basis().multBaseWith(x);\n         std::copy(x.vec().begin(), x.vec().end(), vec);\n\n         for"}],
         "thorough"),
    btv(),
]

unit = {
    "property": ["C05"],
    "desc": "basis-inverse and multiply queries of SoPlexBase<R> (soplex.hpp), COLUMN-representation branches, at R = ledger: "
            "scaling algebra around the opaque kernels coSolve/solve/multBaseWith/multWithBase, sparse index output",
    "rmode": "ledger (R = binary exponent offset; spxLdexp(x,e)=x+e for every x; literal 1.0 has offset 0; products by powers of two add offsets; a zero entry is the tag 2^41)",
    "defines": {"CAP": "8"}, "defines_thorough": {"CAP": "32"}, "defines_small": {"CAP": "3"},
    "flags": ["--bounds-check", "--pointer-check", "--signed-overflow-check"],
    "timeout_s": 240,
    "extracts": [{"as": "Representation.inc", "file": "src/soplex/spxsolver.h", "regex": r"enum Representation\s*\{.*?\};"}],
    "conformance": [
        {"file": "src/soplex/spxid.h", "regex": r"inline\s+bool\s+isSPxRowId\(\)\s+const\s*\{\s*return\s+info\s*<\s*0;\s*\}.*?inline\s+bool\s+isSPxColId\(\)\s+const\s*\{\s*return\s+info\s*>\s*0;", "why": "SPxId stub"},
        {"file": "src/soplex.hpp", "regex": r"void SoPlexBase<R>::_ensureRealLPLoaded\(\)\s*\{\s*if\(!_isRealLPLoaded\)\s*\{(?:(?!\n\}).)*?_isRealLPLoaded = true;", "why": "_ensureRealLPLoaded stub: postcondition _isRealLPLoaded"},
        {"file": "src/soplex.hpp", "regex": r"spx_free\(bind\);\s*\}\s*return true;\s*\}\s*/// computes column c of basis inverse", "why": "glue `return true;` is the last statement of getBasisInverseRowReal"},
        {"file": "src/soplex.hpp", "regex": r"spx_free\(bind\);\s*\}\s*return true;\s*\}\s*/// computes dense solution of basis matrix", "why": "glue `return true;` is the last statement of getBasisInverseColReal"},
        {"file": "src/soplex.hpp", "regex": r"std::copy\(x\.vec\(\)\.begin\(\), x\.vec\(\)\.end\(\), vec\);\s*\}\s*return true;\s*\}\s*/// multiply with transpose of basis matrix", "why": "glue `return true;` is the last statement of multBasis"},
        {"file": "src/soplex.hpp", "regex": r"std::copy\(x\.vec\(\)\.begin\(\), x\.vec\(\)\.end\(\), vec\);\s*\}\s*return true;\s*\}\s*/// compute rational basis inverse", "why": "glue `return true;` is the last statement of multBasisTranspose"},
        {"file": "src/soplex/spxscaler.h", "regex": r"DataArray\s*<\s*int\s*>\*\s*m_activeColscaleExp;.*?DataArray\s*<\s*int\s*>\*\s*m_activeRowscaleExp;", "why": "ScalerStub members"},
        {"file": "src/soplex/spxsolver.h", "regex": r"const\s+SVectorBase<R>&\s+unitVector\(int i\)\s*const\s*\{\s*return\s+unitVecs\[i\];", "why": "SolverStub::unitVector"},
        {"file": "src/soplex/spxbasis.h", "regex": r"void\s+coSolve\(SSVectorBase<R>&\s*x,\s*const\s+SVectorBase<R>&\s*rhs\)", "why": "kernel signature"},
        {"file": "src/soplex/spxbasis.h", "regex": r"void\s+solve\(SSVectorBase<R>&\s*x,\s*const\s+SVectorBase<R>&\s*rhs\)", "why": "kernel signature"},
        {"file": "src/soplex/spxbasis.h", "regex": r"void\s+solve\(VectorBase<R>&\s*x,\s*const\s+VectorBase<R>&\s*rhs\)", "why": "kernel signature"},
        {"file": "src/soplex/spxbasis.h", "regex": r"x \\leftarrow Bx\\f\$\s+in the columnwise case.*?VectorBase<R>&\s+multBaseWith\(VectorBase<R>&\s*x\)\s*const;", "why": "multBaseWith is B x in COLUMN representation"},
        {"file": "src/soplex/spxbasis.h", "regex": r"x \\leftarrow x\^TB\\f\$\s+in the columnwise case.*?VectorBase<R>&\s+multWithBase\(VectorBase<R>&\s*x\)\s*const;", "why": "multWithBase is x'B in COLUMN representation"},
        {"file": "src/soplex/spxscaler.h", "regex": r"B = R\^\{-1\} \[\(A',I\)P\]_\{\[1:m\]\[1:m\]\} \[P\^\{T\} \\tilde\{C\}\^\{-1\} P\]", "why": "documented scaling algebra B = R^-1 B' C~^-1, C~ = diag(C, R^-1)"},
        {"file": "src/soplex/spxdefines.hpp", "regex": r"inline bool isNotZero\(R a, T eps\)\s*\{\s*return spxAbs\(a\) > eps;", "why": "isNotZero stub"},
        {"file": "src/soplex.h", "regex": r"SPxScaler<R>\*\s+_scaler;", "why": "host member"},
        {"file": "src/soplex.h", "regex": r"bool\s+_isRealLPLoaded;", "why": "host member"},
    ],
    "trusted": [
        "R instantiated at the ledger type (stubs/ledger.h + units/basisinv/c05_stubs.h): IEEE ldexp exact absent overflow/underflow; spxLdexp(1.0, e) has offset e; scaling a sparse vector by a power of two adds the offset",
        "the kernels SPxBasisBase::coSolve/solve (sparse and dense) and multBaseWith/multWithBase are OPAQUE recorded stubs: arbitrary result vector, right-hand side / input cell and result cell at the ghost position recorded; that they solve / multiply with the scaled basis matrix is property C10 and not claimed; they do not throw (try is transparent, catch handlers are dead)",
        "SSVectorBase::setup() (trusted): establishes the index list = positions of the nonzero values, each once, all < dim; modelled as an arbitrary list with this invariant at the ghost position (assumed on index() reads)",
        "entries that isNotZero() reports as zero (|x| <= epsilon) are the ledger tag ZERO; for such entries nothing is claimed where the code rescales unconditionally (ldexp(0,e) = 0)",
        "assumed type invariant of a loaded basis (property C04): every baseId(i) names an existing row or column (assume in the baseId stub); the stub id carries the position (real: LP DataSet lookup number(id))",
        "assumed type invariant: every scale exponent read satisfies |e| <= 2^20; ledger-valid values |x| <= 2^30 at the ghost position",
        "_ensureRealLPLoaded() is a stub with the postcondition _isRealLPLoaded == true (conformance-checked against the real body); local vectors take their storage from caller-supplied scratch buffers (no heap under dfcc); std::copy over R* is memcpy",
        "the code under contract is the region of each function from its first statement to the `else` opening the ROW-representation branch; the glue `else {unreachable} return true;` is appended by the host (conformance-checked); rep == COLUMN is a precondition",
        "hasBasis, numRows, numCols, SPxScaler::getColScaleExp/getRowScaleExp, SSVectorBase::scaleValue are real bodies (sliced)",
        "dimension capped at CAP (8 quick / 32 thorough); loop proofs are inductive, the cap bounds the object size only; assert() compiled out",
    ],
    "instances": insts,
}
json.dump(unit, open(os.path.join(os.path.dirname(os.path.abspath(__file__)), "unit.json"), "w"), indent=1)
print("wrote unit.json with", len(insts), "instances")
