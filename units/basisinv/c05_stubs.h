/* Stub environment of the C05 units (basis-inverse / multiply queries of SoPlexBase<R>, src/soplex.hpp) at R = ledger.
 *
 * Ledger domain (stubs/ledger.h): a value is represented by the binary exponent offset it carries relative to its
 * "raw" value; spxLdexp(x, e) = x + e for EVERY x; a product multiplies by a power of two: tag(a * 2^e) = tag(a) + e;
 * the literal 1.0 has offset 0; LEDGER_ZERO is the tag of an entry that isNotZero() reports as zero.
 *
 * The numerical kernels SPxBasisBase::coSolve / solve / multBaseWith / multWithBase are OPAQUE: each call is recorded
 * (which kernel, how often, the right-hand side / the input cell at the ghost position) and the result is an arbitrary
 * vector whose cell at the ghost position is recorded.  The contracts state what happens AROUND the kernel.
 * That the kernels invert / multiply with the scaled basis matrix is property C10 (numerical, not claimed). */
#ifndef C05_STUBS_H
#define C05_STUBS_H
#include "verif.h"
#include "ledger.h"
#define LEDGER_ZERO (1LL << 41)
/* scale exponents come from frexp() of doubles: |e| is bounded (assumed type invariant of the scaler's arrays) */
#define DATAARRAY_READ_INVARIANT(v) __CPROVER_assume(-EXP_MAX <= (v) && (v) <= EXP_MAX)
#define VectorBase VectorBaseRaw
#define SVectorBase SVectorBaseRaw
#include "containers.h"
#undef VectorBase
#undef SVectorBase
typedef double Real;
extern "C" void* memcpy(void*, const void*, size_t);
extern "C" void* memset(void*, int, size_t);

#define SPX_MSG_INFO1(...)
/* exception paths are not modelled: the kernel stubs do not throw; `try` is transparent and the handlers (which only log
 * and `return false`) are dead.  (CBMC's C++ front end crashes on try/catch.) */
#define try
#define catch(X) if(false)

/* spxLdexp(1.0, e): the literal 1.0 has ledger offset 0 */
static inline R spxLdexp(double x, int e)
{
   __CPROVER_assert(x == 1.0, "ledger: only the literal 1.0 is scaled as a double");
   return (R)e;
}
/* isNotZero(a, eps): |a| > eps; in the ledger an entry is either the zero tag or carries an offset */
static inline bool isNotZero(R a, Real eps) { (void)eps; return a != LEDGER_ZERO; }

extern "C" {
   extern int g_n, g_nc;               /* numRows(), numCols() */
   extern int g_ssdim;                 /* dimension of the function's local SSVector: numRows() (COLUMN) / numCols() (ROW) */
   extern int g_p;                     /* ghost POSITION in a dense vector of dimension numRows() */
   extern int g_i;                     /* ghost position in the index list of the sparse result */
   extern int g_w, g_in;               /* g_in: g_p belongs to the index set of the set-up result; then idx[g_w] == g_p */
   extern int g_knum;                  /* size of the index set established by SSVectorBase::setup() */
   extern R v_kout, v_kin;             /* kernel output / input cell at g_p (recorded) */
   extern int g_kcalls, g_kkind, g_kx_ok;
   extern int g_rhs_size, g_rhs_idx; extern R g_rhs_val;
   extern int g_setup_calls, g_ensure_calls;
   /* scratch storage handed out to the function's local vectors (no heap under dfcc) */
   extern R* gp_s1; extern R* gp_s2; extern int g_s1_used, g_s2_used;
   extern int* gp_xidx;                /* index array of the local SSVector */
   extern R* gp_kout;                  /* the kernel's result vector (arbitrary contents) */
   extern const void* gp_local_x;      /* address of the function's local result vector */
}
enum { K_NONE = 0, K_COSOLVE = 1, K_SOLVE = 2, K_MULTBASEWITH = 3, K_MULTWITHBASE = 4 };

struct TolStub { Real eps; Real epsilon() { return eps; } };

/* iterator pair returned by vec() (the real one returns std::vector<R>&) */
template <class T> struct VecRange { T* b; T* e; T* begin() const { return b; } T* end() const { return e; } };
/* Dense copies (std::copy over R*, the copying constructor VectorBase(dim, ptr)) are modelled at the ghost position:
 * the destination becomes ARBITRARY except for the cell g_p, which receives the source cell (loop-free over-approximation;
 * every contract speaks about the cell g_p only, for every g_p).  The WHOLE destination object is havoc'd (the destination
 * always is a whole array here); __CPROVER_havoc_slice with a symbolic size made cbmc 6.11 abort (boolbv_get) while reporting
 * refuted mutants in --json-ui mode.  CBMC's memcpy model (array_copy/array_replace with a
 * symbolic size) lost the cell contents in a probe. */
static inline void c05_copy(R* d, const R* s, int n)
{
   if(n > 0)
   {
      __CPROVER_havoc_object(d);
      if(0 <= g_p && g_p < n) d[g_p] = s[g_p];
   }
}
namespace std
{
static inline R* copy(R* b, R* e, R* d)
{
   c05_copy(d, b, (int)(e - b));
   return d + (e - b);
}
}

#ifdef C05_ROW
#include "c05_row_sparse.h"
#ifndef C05_ASSIGN_HOOK
#define C05_ASSIGN_HOOK(v)
#endif
#endif

/* VectorBase<R>(dim, ptr) copies dim values into its own storage (std::vector); storage = a scratch buffer */
template <class T> struct VectorBase
{
   T* val; int dimen;
   VectorBase() {}
   VectorBase(int n, T* p)
   {
      __CPROVER_assert(n == g_n, "VectorBase(dim, ptr): dimension is numRows()");
      if(!g_s1_used) { val = (T*)gp_s1; g_s1_used = 1; }
      else { __CPROVER_assert(!g_s2_used, "at most two local dense vectors"); val = (T*)gp_s2; g_s2_used = 1; }
      dimen = n;
      c05_copy(val, p, n);
   }
   int dim() const { return dimen; }
   T& operator[](int n) { __CPROVER_assert(0 <= n && n < dimen, "VectorBase index in bounds"); return val[n]; }
   const T& operator[](int n) const { __CPROVER_assert(0 <= n && n < dimen, "VectorBase index in bounds"); return val[n]; }
   VecRange<T> vec() { VecRange<T> r; r.b = val; r.e = val + dimen; return r; }
   T* get_ptr() { return val; }
#ifdef C05_ROW
   /* x = sparse vector: clear(), then val[index(k)] = value(k) for k = 0..size-1 (vectorbase.h); modelled at the ghost
      position: the cell g_p receives the value of the LAST entry whose index is g_p (tracked by add(i, v)), else 0 */
   VectorBase<T>& operator=(const SVectorBase<T>& v)
   {
      C05_ASSIGN_HOOK(v);
      int n = dimen; T* d = val; int gp = v.gpos; const T* vv = v.vals;
      T t = 0;
      if(gp >= 0) t = vv[gp];
      if(n > 0)
      {
         __CPROVER_havoc_object(d);
         if(0 <= g_p && g_p < n) d[g_p] = t;
      }
      return *this;
   }
#endif
};

/* front end: the default constructor of a class-template instance with a base is only synthesised if an object of the
 * base instance was declared before (README 17) */
static inline void c05_force_vectorbase() { VectorBase<R> a; (void)a; }

#ifndef C05_ROW
/* sparse vectors with at most ONE entry (unit vectors and their copies): all that the COLUMN branches build */
template <class T> struct SVectorBase
{
   int i0; T v0; int used;
   int size() const { return used; }
   int index(int n) const { __CPROVER_assert(0 <= n && n < used, "SVector position in bounds"); return i0; }
   const T& value(int n) const { __CPROVER_assert(0 <= n && n < used, "SVector position in bounds"); return v0; }
   /* scaling by a power of two: offsets add */
   SVectorBase<T>& operator*=(const T& x) { if(used > 0) v0 = v0 + x; return *this; }
};
template <class T> struct DSVectorBase : SVectorBase<T>
{
   DSVectorBase() { this->used = 0; }
   DSVectorBase(const SVectorBase<T>& o) { this->i0 = o.i0; this->v0 = o.v0; this->used = o.used; }
};

static inline void c05_force_svector() { SVectorBase<R> a; DSVectorBase<R> b; (void)a; (void)b; }
#endif

/* SSVectorBase<R> : VectorBase<R> (as in ssvectorbase.h): dense values + index list + setup flag.  Type invariant of a
 * SET-UP vector (SSVectorBase::setup(), trusted): the index list holds exactly the positions of the nonzero values, each
 * once, all < dim.  At the ghost position g_p this reads: g_in <=> g_p is listed, and then exactly at list position g_w. */
template <class T> struct SSVectorBase : VectorBase<T>
{
   typedef T R;
   int* idx; int num; bool setupStatus;
   SSVectorBase(int n, TolStub*)
   {
      __CPROVER_assert(n == g_ssdim && !g_s1_used, "SSVectorBase(dim, tol): one local sparse work vector of the basis dimension");
      this->val = (T*)gp_s1; g_s1_used = 1; this->dimen = n; idx = gp_xidx; num = 0; setupStatus = true;
      gp_local_x = this;
   }
   void setup()
   {
      g_setup_calls++;
      if(!setupStatus)
      {
         int k = nondet_int(); __CPROVER_assume(0 <= k && k <= this->dimen);
         num = k; g_knum = k;
         g_in = nondet_bool() ? 1 : 0;
         if(g_in) { int w = nondet_int(); __CPROVER_assume(0 <= w && w < k && idx[w] == g_p); g_w = w; }
         setupStatus = true;
      }
   }
   int size() const { __CPROVER_assert(setupStatus, "SSVector::size() of a vector that is set up"); return num; }
   int index(int n) const
   {
      __CPROVER_assert(setupStatus, "SSVector::index() of a vector that is set up");
      __CPROVER_assert(0 <= n && n < num, "SSVector index position in bounds");
      int i = idx[n];
      __CPROVER_assume(0 <= i && i < this->dimen);
      __CPROVER_assume((i == g_p) == (g_in && n == g_w));
      return i;
   }
   T operator[](int i) const { __CPROVER_assert(0 <= i && i < this->dimen, "SSVector index in bounds"); return this->val[i]; }
   /* real body (ssvectorbase.h) */
   void scaleValue(int i, int scaleExp)
   {
      __CPROVER_assert(0 <= i && i < this->dimen, "SSVector::scaleValue index in bounds");
#include "SSVector_scaleValue.inc"
   }
};
#endif
