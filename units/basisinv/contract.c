/* C05 contracts, COLUMN representation, R = ledger (long long exponent offsets; spxLdexp(x,e) = x+e).
 *
 * Specification, derived from the scaling algebra (spxscaler.h: A~ = R A C, R = diag(2^rowExp), C = diag(2^colExp)):
 * the i-th column of the user's basis matrix B is A_{.,v} (basic column v) or the unit vector e_v (basic slack of row v);
 * the solver holds B~ whose i-th column is A~_{.,v} = R A_{.,v} 2^colExp(v) resp. e_v = R e_v 2^-rowExp(v).  Hence
 *        B~ = R B G,   G = diag(2^gamma_i),   gamma_i = +colExp(v) (column v)  |  -rowExp(v) (slack of row v)
 *        B^-1 = G B~^-1 R,        B = R^-1 B~ G^-1.
 *   row r of B^-1    = e_r' G B~^-1 R      : rhs = 2^gamma_r e_r -> coSolve -> component i shifted by +rowExp(i)
 *   column c of B^-1 = G B~^-1 R e_c       : rhs = 2^rowExp(c) e_c -> solve -> component i shifted by +gamma_i
 *   B^-1 v           = G B~^-1 (R v)       : v_i shifted by +rowExp(i) -> solve -> component i shifted by +gamma_i
 *   B v              = R^-1 B~ (G^-1 v)    : v_i shifted by -gamma_i -> multBaseWith -> component i shifted by -rowExp(i)
 *   B' v             = G^-1 B~' (R^-1 v)   : v_i shifted by -rowExp(i) -> multWithBase -> component i shifted by -gamma_i
 * Without scaling (or unscale == false) the kernel is applied to the user's data as is.
 * "For all positions" is stated at the ghost position g_p (dense) and g_i (index list). */
#include "verif_c.h"
#ifndef CAP
#define CAP 16
#endif
typedef long long R;
#define EXP_MAX (1 << 20)
#define FIN (1LL << 30)
#define ZERO (1LL << 41)
#include "Representation.inc"
enum { K_NONE = 0, K_COSOLVE = 1, K_SOLVE = 2, K_MULTBASEWITH = 3, K_MULTWITHBASE = 4 };

int g_ssdim;
int g_n, g_nc, g_p, g_i, g_w, g_in, g_knum;
R v_kout, v_kin;
int g_kcalls, g_kkind, g_kx_ok, g_rhs_size, g_rhs_idx; R g_rhs_val;
int g_setup_calls, g_ensure_calls;
R* gp_s1; R* gp_s2; int g_s1_used, g_s2_used; int* gp_xidx; R* gp_kout; const void* gp_local_x;
R* gp_coef; int* gp_inds; int* gp_ninds; R* gp_vec; R* gp_rhs; R* gp_sol;
/* ghost copies for contracts and loop invariants */
R v_old, v_old2; int v_inds_old, v_rexp_p, v_gamma_p, v_gamma_rc, v_rexp_rc, g_scale;
void verif_throw(void) {}

#define EXP_OK(e) (-EXP_MAX <= (e) && (e) <= EXP_MAX)
#define VAL_OK(x) ((x) == ZERO || (-FIN <= (x) && (x) <= FIN))
/* gamma of basis position k, from the basis ids */
#define GAMMA_DEF(g, k) ( \
   ((baseInfo[k] > 0 && 0 <= baseNum[k] && baseNum[k] < nc) ==> (g) == colexp[baseNum[k]]) && \
   ((baseInfo[k] < 0 && 0 <= baseNum[k] && baseNum[k] < n) ==> (long long)(g) == -(long long)rowexp[baseNum[k]]))
#define SCALE (unscale && isScaled)

#define COMMON_REQUIRES \
__CPROVER_requires(0 < n && n <= CAP && 0 < nc && nc <= CAP && g_n == n && g_nc == nc) \
__CPROVER_requires(__CPROVER_is_fresh(baseInfo, n * sizeof(int)) && __CPROVER_is_fresh(baseNum, n * sizeof(int))) \
__CPROVER_requires(__CPROVER_is_fresh(rowexp, n * sizeof(int)) && __CPROVER_is_fresh(colexp, nc * sizeof(int))) \
__CPROVER_requires(__CPROVER_is_fresh(s1, n * sizeof(R)) && __CPROVER_is_fresh(kout, n * sizeof(R))) \
__CPROVER_requires(rep == COLUMN)                 /* this unit: COLUMN representation */ \
__CPROVER_requires(0 <= g_p && g_p < n && v_rexp_p == rowexp[g_p] && EXP_OK(v_rexp_p)) \
__CPROVER_requires(GAMMA_DEF(v_gamma_p, g_p) && EXP_OK(v_gamma_p)) \
__CPROVER_requires(g_scale == (SCALE ? 1 : 0))
#define COMMON_ASSIGNS \
__CPROVER_assigns(g_ssdim, g_w, g_in, g_knum, v_kout, v_kin, g_kcalls, g_kkind, g_kx_ok, g_rhs_size, g_rhs_idx, g_rhs_val, g_setup_calls, g_ensure_calls) \
__CPROVER_assigns(gp_s1, gp_s2, g_s1_used, g_s2_used, gp_xidx, gp_kout, gp_local_x, gp_coef, gp_inds, gp_ninds, gp_vec, gp_rhs, gp_sol) \
__CPROVER_assigns(__CPROVER_object_whole(s1), __CPROVER_object_whole(kout))

#if defined(INST_BINVROW) || defined(INST_BINVCOL)
#define SUCCESS (hasBasis && 0 <= rc && rc < n)
#define SPARSE (has_inds && has_ninds)
#ifdef INST_BINVROW
#define KERNEL K_COSOLVE
#define RHS_SHIFT v_gamma_rc        /* unit vector e_r scaled by 2^gamma_r */
#define OUT_SHIFT v_rexp_p          /* component i shifted by +rowExp(i) */
#else
#define KERNEL K_SOLVE
#define RHS_SHIFT v_rexp_rc         /* unit vector e_c scaled by 2^rowExp(c) */
#define OUT_SHIFT v_gamma_p         /* component i shifted by +gamma_i */
#endif
/* value of the result at the ghost position: the kernel's cell, rescaled iff unscaling applies and the cell is listed
   (a cell that is not listed is zero: ldexp(0, e) = 0) */
#define XFIN ((SCALE && g_in) ? v_kout + OUT_SHIFT : v_kout)

int w_binv(int rc, R* coef, int* inds, int* ninds, int has_inds, int has_ninds, int unscale,
           int n, int nc, int hasBasis, int isRealLPLoaded, int rep, int isScaled,
           int* baseInfo, int* baseNum, int* rowexp, int* colexp, R* s1, int* xidx, R* kout)
COMMON_REQUIRES
__CPROVER_requires(__CPROVER_is_fresh(coef, n * sizeof(R)) && __CPROVER_is_fresh(inds, n * sizeof(int)))
__CPROVER_requires(__CPROVER_is_fresh(ninds, sizeof(int)) && __CPROVER_is_fresh(xidx, n * sizeof(int)))
__CPROVER_requires(0 <= g_i && g_i < n && v_inds_old == inds[g_i] && v_old == coef[g_p])
__CPROVER_requires((0 <= rc && rc < n) ==> (GAMMA_DEF(v_gamma_rc, rc) && v_rexp_rc == rowexp[rc]))
__CPROVER_requires(-FIN <= kout[g_p] && kout[g_p] <= FIN)      /* ledger-valid kernel result (no overflow of the offset) */
COMMON_ASSIGNS
__CPROVER_assigns(SUCCESS: __CPROVER_object_whole(coef))
__CPROVER_assigns(SUCCESS && SPARSE: __CPROVER_object_whole(inds))
__CPROVER_assigns(SUCCESS && has_ninds: *ninds)
__CPROVER_ensures((__CPROVER_return_value != 0) == (SUCCESS))
/* exactly one kernel call, the right kernel, on the local result vector, with the (scaled) unit vector of rc */
__CPROVER_ensures(SUCCESS ==> (g_ensure_calls == 1 && g_kcalls == 1 && g_kkind == KERNEL && g_kx_ok))
__CPROVER_ensures(SUCCESS ==> (g_rhs_size == 1 && g_rhs_idx == rc && g_rhs_val == (SCALE ? RHS_SHIFT : 0)))
__CPROVER_ensures(!(SUCCESS) ==> g_kcalls == 0)
/* sparse output: the index list is the one of the set-up result; coef is written exactly at the listed positions */
__CPROVER_ensures((SUCCESS && SPARSE) ==> (*ninds == g_knum && 0 <= g_knum && g_knum <= n))
__CPROVER_ensures((SUCCESS && SPARSE && g_i < g_knum) ==> (inds[g_i] == xidx[g_i] && 0 <= inds[g_i] && inds[g_i] < n))
__CPROVER_ensures((SUCCESS && SPARSE && g_i >= g_knum) ==> inds[g_i] == v_inds_old)
__CPROVER_ensures((SUCCESS && SPARSE) ==> coef[g_p] == (g_in ? XFIN : v_old))
__CPROVER_ensures((SUCCESS && SPARSE && g_in) ==> (0 <= g_w && g_w < g_knum && inds[g_w] == g_p))
/* dense output: every position copied; no index list */
__CPROVER_ensures((SUCCESS && !SPARSE) ==> (coef[g_p] == XFIN && inds[g_i] == v_inds_old))
__CPROVER_ensures((SUCCESS && !SPARSE && has_ninds) ==> *ninds == -1)
;

void h_binv(void)
{
   int rc; R* coef; int* inds; int* ninds; int has_inds, has_ninds, unscale, n, nc, hasBasis, isRealLPLoaded, rep, isScaled;
   int* baseInfo; int* baseNum; int* rowexp; int* colexp; R* s1; int* xidx; R* kout;
   g_n = nondet_int(); g_nc = nondet_int(); g_p = nondet_int(); g_i = nondet_int(); g_w = nondet_int(); g_in = nondet_int();
   g_knum = nondet_int(); v_old = nondet_ll(); v_inds_old = nondet_int(); v_rexp_p = nondet_int(); v_gamma_p = nondet_int();
   v_gamma_rc = nondet_int(); v_rexp_rc = nondet_int(); g_scale = nondet_int(); v_kout = nondet_ll();
   w_binv(rc, coef, inds, ninds, has_inds, has_ninds, unscale, n, nc, hasBasis, isRealLPLoaded, rep, isScaled,
          baseInfo, baseNum, rowexp, colexp, s1, xidx, kout);
   CANARY();
}
#endif

#if defined(INST_MULT)
#define SUCCESS (hasBasis != 0)
#ifdef KIND_MULTBASIS
#define KERNEL K_MULTBASEWITH
#define IN_SHIFT (-v_gamma_p)
#define OUT_SHIFT (-v_rexp_p)
#define OUT_ALWAYS 1               /* the code rescales every result cell (ldexp(0,e) = 0: nothing is claimed for a zero cell) */
#else
#define KERNEL K_MULTWITHBASE
#define IN_SHIFT (-v_rexp_p)
#define OUT_SHIFT (-v_gamma_p)
#define OUT_ALWAYS 0
#endif
int w_mult(R* vec, int unscale, int n, int nc, int hasBasis, int isRealLPLoaded, int rep, int isScaled,
           int* baseInfo, int* baseNum, int* rowexp, int* colexp, R* s1, R* kout)
COMMON_REQUIRES
__CPROVER_requires(__CPROVER_is_fresh(vec, n * sizeof(R)))
__CPROVER_requires(v_old == vec[g_p] && VAL_OK(v_old) && VAL_OK(kout[g_p]))
COMMON_ASSIGNS
__CPROVER_assigns(SUCCESS: __CPROVER_object_whole(vec))
__CPROVER_ensures((__CPROVER_return_value != 0) == (SUCCESS))
__CPROVER_ensures(SUCCESS ==> (g_ensure_calls == 1 && g_kcalls == 1 && g_kkind == KERNEL && g_kx_ok))
__CPROVER_ensures(!(SUCCESS) ==> g_kcalls == 0)
/* what the kernel saw at the ghost position */
__CPROVER_ensures(SUCCESS ==> v_kin == ((SCALE && v_old != ZERO) ? v_old + IN_SHIFT : v_old))
/* what the user gets at the ghost position */
__CPROVER_ensures((SUCCESS && !SCALE) ==> vec[g_p] == v_kout)
__CPROVER_ensures((SUCCESS && SCALE && v_kout != ZERO) ==> vec[g_p] == v_kout + OUT_SHIFT)
__CPROVER_ensures((SUCCESS && SCALE && v_kout == ZERO && !OUT_ALWAYS) ==> vec[g_p] == ZERO)
;
void h_mult(void)
{
   R* vec; int unscale, n, nc, hasBasis, isRealLPLoaded, rep, isScaled; int* baseInfo; int* baseNum; int* rowexp; int* colexp; R* s1; R* kout;
   g_n = nondet_int(); g_nc = nondet_int(); g_p = nondet_int(); v_old = nondet_ll(); v_rexp_p = nondet_int(); v_gamma_p = nondet_int();
   g_scale = nondet_int(); v_kout = nondet_ll(); v_kin = nondet_ll();
   w_mult(vec, unscale, n, nc, hasBasis, isRealLPLoaded, rep, isScaled, baseInfo, baseNum, rowexp, colexp, s1, kout);
   CANARY();
}
#endif

#if defined(INST_BTV)
#define SUCCESS (hasBasis != 0)
int w_btv(R* rhs, R* sol, int unscale, int n, int nc, int hasBasis, int isRealLPLoaded, int rep, int isScaled,
          int* baseInfo, int* baseNum, int* rowexp, int* colexp, R* s1, R* s2, R* kout)
COMMON_REQUIRES
__CPROVER_requires(__CPROVER_is_fresh(rhs, n * sizeof(R)) && __CPROVER_is_fresh(sol, n * sizeof(R)) && __CPROVER_is_fresh(s2, n * sizeof(R)))
__CPROVER_requires(v_old == rhs[g_p] && v_old2 == sol[g_p] && VAL_OK(v_old) && VAL_OK(kout[g_p]))
COMMON_ASSIGNS
__CPROVER_assigns(__CPROVER_object_whole(s2))
__CPROVER_assigns(SUCCESS: __CPROVER_object_whole(rhs), __CPROVER_object_whole(sol))
__CPROVER_ensures((__CPROVER_return_value != 0) == (SUCCESS))
__CPROVER_ensures(SUCCESS ==> (g_ensure_calls == 1 && g_kcalls == 1 && g_kkind == K_SOLVE && g_kx_ok))
__CPROVER_ensures(!(SUCCESS) ==> g_kcalls == 0)
/* kernel input: v_i shifted by +rowExp(i) */
__CPROVER_ensures(SUCCESS ==> v_kin == ((SCALE && v_old != ZERO) ? v_old + v_rexp_p : v_old))
/* result: component i shifted by +gamma_i */
__CPROVER_ensures(SUCCESS ==> sol[g_p] == ((SCALE && v_kout != ZERO) ? v_kout + v_gamma_p : v_kout))
/* documented side effect of the code as it stands: the caller's rhs array receives the (row-scaled) copy the kernel was given */
__CPROVER_ensures(SUCCESS ==> rhs[g_p] == v_kin)
;
void h_btv(void)
{
   R* rhs; R* sol; int unscale, n, nc, hasBasis, isRealLPLoaded, rep, isScaled; int* baseInfo; int* baseNum; int* rowexp; int* colexp; R* s1; R* s2; R* kout;
   g_n = nondet_int(); g_nc = nondet_int(); g_p = nondet_int(); v_old = nondet_ll(); v_old2 = nondet_ll(); v_rexp_p = nondet_int(); v_gamma_p = nondet_int();
   g_scale = nondet_int(); v_kout = nondet_ll(); v_kin = nondet_ll();
   w_btv(rhs, sol, unscale, n, nc, hasBasis, isRealLPLoaded, rep, isScaled, baseInfo, baseNum, rowexp, colexp, s1, s2, kout);
   CANARY();
}
#endif
