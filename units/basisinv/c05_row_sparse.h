/* Sparse vectors for the ROW-representation branches (included by c05_stubs.h when C05_ROW is defined).
 * A sparse vector is (vals[], idxs[], used) plus ghost provenance:
 *    kind/src : what the vector IS (unit vector e_src, row/column src of the solver's LP, unscaled row/column src of the LP,
 *               or a computed vector) - recorded so that the opaque dot-product / solve stubs can say what they were given;
 *    neg      : the vector has been multiplied by -1.0;
 *    gpos     : position of the entry whose INDEX is the ghost position g_p (-1: none; maintained by add(i, v)).
 * Whole-vector copies are modelled at the ghost ENTRY position g_q (all other entries arbitrary), like c05_copy. */
#ifndef C05_ROW_SPARSE_H
#define C05_ROW_SPARSE_H
extern "C" {
   extern int g_q;                                  /* ghost entry position of sparse vectors */
   extern R* gp_dsv; extern int* gp_dsi; extern int g_ds_used_once;   /* storage of the function's local DSVector */
   extern int* gp_ds_used; extern int* gp_ds_gpos;  /* aliases of its members (loop invariants cannot name members) */
}
#ifndef C05_ADD_HOOK
#define C05_ADD_HOOK(i, v)
#endif
#ifndef C05_DSINIT_HOOK
#define C05_DSINIT_HOOK(self)
#endif
enum { V_OTHER = 0, V_UNIT = 1, V_LPROW = 2, V_LPCOL = 3, V_LPROW_UNSCALED = 4, V_LPCOL_UNSCALED = 5 };

template <class T> struct SVectorBase
{
   T* vals; int* idxs; int used; int cap;
   int kind, src; bool neg; int gpos;
   int size() const { return used; }
   int index(int n) const { __CPROVER_assert(0 <= n && n < used, "SVector position in bounds"); return idxs[n]; }
   T& value(int n) { __CPROVER_assert(0 <= n && n < used, "SVector position in bounds"); return vals[n]; }
   const T& value(int n) const { __CPROVER_assert(0 <= n && n < used, "SVector position in bounds"); return vals[n]; }
   /* v *= -1.0 : sign flip (the literal is a double; every other double factor is rejected) */
   /* (the operators return void: the sliced code uses them as statements only, and CBMC warns "ignoring dereference" on the
      discarded `*return_value` of a reference to the base sub-object) */
   void operator*=(double x)
   {
      __CPROVER_assert(x == -1.0, "ledger: the only double factor is -1.0");
      neg = !neg; kind = (kind == V_UNIT || kind == V_LPROW || kind == V_LPCOL) ? kind : V_OTHER;
   }
   /* v *= 2^e (R-valued factor, produced by spxLdexp(1.0, e)): offsets add; modelled at the ghost entry */
   void operator*=(const T& x)
   {
      /* (sizes go through locals: CBMC leaves `this->used` inside the havoc'd array type unresolved) */
      int n = used; T* v = vals;
      if(0 <= g_q && g_q < n)
      {
         T t = v[g_q] + x;
         __CPROVER_havoc_object(v);
         v[g_q] = t;
      }
   }
#ifdef C05_SVECTOR_EXTRA_FILE
#include C05_SVECTOR_EXTRA_FILE
#endif
   void copy_from(const SVectorBase<T>& o)
   {
      __CPROVER_assert(o.used <= cap, "DSVector has room for the assigned vector");
      used = o.used; kind = o.kind; src = o.src; neg = o.neg; gpos = -1;
      int n = o.used; T* v = vals; int* ix = idxs;
      if(n > 0)
      {
         __CPROVER_havoc_object(v);
         __CPROVER_havoc_object(ix);
         if(0 <= g_q && g_q < n) { v[g_q] = o.vals[g_q]; ix[g_q] = o.idxs[g_q]; }
      }
   }
};
/* UnitVectorBase<R>(i): one entry (i, 1.0); storage inside the object; the literal 1.0 has ledger offset 0 */
template <class T> struct UnitVectorBase : SVectorBase<T>
{
   T uval; int uidx;
   UnitVectorBase(int i)
   {
      uval = 0; uidx = i; this->vals = &uval; this->idxs = &uidx; this->used = 1; this->cap = 1;
      this->kind = V_UNIT; this->src = i; this->neg = false; this->gpos = -1;
   }
};
/* DSVectorBase<R>: ONE local dynamic sparse vector per function; storage = caller-supplied scratch arrays */
template <class T> struct DSVectorBase : SVectorBase<T>
{
   void init(int n)
   {
      __CPROVER_assert(!g_ds_used_once, "one local DSVector");
      g_ds_used_once = 1;
      this->vals = (T*)gp_dsv; this->idxs = gp_dsi; this->used = 0; this->cap = n;
      this->kind = V_OTHER; this->src = -1; this->neg = false; this->gpos = -1;
      gp_ds_used = &this->used; gp_ds_gpos = &this->gpos;
      C05_DSINIT_HOOK(this);
   }
#ifdef C05_DSVECTOR_EXTRA_FILE
#include C05_DSVECTOR_EXTRA_FILE
#endif
   /* `DSVectorBase<R> col;` - a second, storage-free vector that only carries provenance (filled by getColVectorUnscaled) */
   DSVectorBase() { this->vals = 0; this->idxs = 0; this->used = 0; this->cap = 0; this->kind = V_OTHER; this->src = -1; this->neg = false; this->gpos = -1; }
   DSVectorBase(int n) { __CPROVER_assert(0 <= n && n <= (g_n > g_nc ? g_n : g_nc), "DSVector(n): n <= max(numRows, numCols)"); init(n); }
   void operator=(const SVectorBase<T>& o) { this->copy_from(o); }
   void clear() { this->used = 0; this->gpos = -1; }
   /* append one nonzero (i, v) */
   void add(int i, const T& v)
   {
      __CPROVER_assert(this->used < this->cap, "DSVector::add(i, v): room for one more nonzero");
      this->idxs[this->used] = i; this->vals[this->used] = v;
      if(i == g_p) this->gpos = this->used;
      this->used++;
      C05_ADD_HOOK(i, v);
   }
};
static inline void c05_force_svector() { SVectorBase<R> a; UnitVectorBase<R> u(0); DSVectorBase<R> d; (void)a; (void)u; (void)d; }
#endif
