/* Native replay for ratobj: an exact solve of a tiny LP with an objective offset; the REAL objValueRational() must equal
 * objective-times-primal plus the offset (computed here in exact arithmetic). */
#include "replay_util.h"
#include "soplex.h"
using namespace soplex;
int main(int argc, char** argv)
{
   if(argc < 3) return 2;
   ReplayIn in(argv[1]);
   long long off = in.geti("offset", 7); int sense = (int)in.geti("sense", -1);
   if(off > 1000 || off < -1000) off = off % 1000;      /* the verifier's value may be astronomically large; any non-zero offset shows it */
   if(off == 0) off = 7;
   SoPlex sp; sp.setIntParam(SoPlex::VERBOSITY, 0);
   sp.setIntParam(SoPlex::SOLVEMODE, SoPlex::SOLVEMODE_RATIONAL); sp.setIntParam(SoPlex::SYNCMODE, SoPlex::SYNCMODE_AUTO);
   sp.setIntParam(SoPlex::CHECKMODE, SoPlex::CHECKMODE_RATIONAL);
   sp.setRealParam(SoPlex::FEASTOL, 0.0); sp.setRealParam(SoPlex::OPTTOL, 0.0);
   sp.setIntParam(SoPlex::OBJSENSE, sense >= 0 ? SoPlex::OBJSENSE_MAXIMIZE : SoPlex::OBJSENSE_MINIMIZE);
   DSVectorReal e;
   sp.addColReal(LPColReal(1.0, e, 10.0, 1.0)); sp.addColReal(LPColReal(2.0, e, 10.0, 0.5));
   DSVectorReal r1; r1.add(0, 1.0); r1.add(1, 1.0); sp.addRowReal(LPRowReal(2.0, r1, 15.0));
   sp.setRealParam(SoPlex::OBJ_OFFSET, (double)off);
   sp.optimize();
   if(sp.status() != SPxSolver::OPTIMAL) { std::cout << "not optimal\n"; return 2; }
   VectorRational x(2); sp.getPrimalRational(x);
   Rational expect = x[0] * 1 + x[1] * 2 + Rational(off);
   std::cout << "exact solve, offset " << off << ": objValueRational() = " << sp.objValueRational() << ", c^T x + offset = " << expect << std::endl;
   if(sp.objValueRational() != expect) REPLAY_FAIL("rational objective value " << sp.objValueRational() << " != objective-times-primal plus offset " << expect);
   REPLAY_OK();
}
