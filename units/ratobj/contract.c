#include "verif_c.h"
#include "constants.h"
long long g_D, g_off; int g_sense;
#define BOUND (1LL << 60)
long long w_obj(int feasible, long long old)
__CPROVER_requires(-BOUND < g_D && g_D < BOUND && -BOUND < g_off && g_off < BOUND && (g_sense == OBJSENSE_MINIMIZE_V || g_sense == OBJSENSE_MAXIMIZE_V))
__CPROVER_assigns()
/* objective value of a feasible solution = c^T x + offset, where maxObj = -c for minimisation; untouched otherwise */
__CPROVER_ensures(feasible ==> __CPROVER_return_value == (g_sense == OBJSENSE_MINIMIZE_V ? -g_D : g_D) + g_off)
__CPROVER_ensures(!feasible ==> __CPROVER_return_value == old)
;
void h_obj(void) { int f; long long old; g_D = nondet_ll(); g_off = nondet_ll(); g_sense = nondet_int(); w_obj(f, old); CANARY(); }
