/* C03 (objective clause): "the rational objective value equals objective-times-primal plus the objective offset exactly".
 * The four "compute objective function values" regions of solverational.hpp (end of the refinement drivers), verbatim, with
 * Rational = ordered-group integer; the dot product primal * maxObj is an opaque ghost value D. */
#include "verif.h"
typedef long long Rational;
typedef double R;
extern "C" { extern long long g_D, g_off; extern int g_sense; }
struct VectorRational { int tag; };
static inline Rational operator*(const VectorRational& a, const VectorRational& b) { return g_D; }
struct LPRat { VectorRational mo; const VectorRational& maxObj() const { return *(VectorRational*)&mo; } const Rational& objOffset() const { return g_off; } };
struct SolRational { bool _isPrimalFeasible, _isDualFeasible; VectorRational _primal; Rational _objVal; };
template <class T> struct SoPlexNames
{
#include "IntParam.inc"
#include "ObjSense.inc"
};
#define SoPlexBase SoPlexNames
struct H : SoPlexNames<R>
{
   LPRat* _rationalLP;
   int intParam(int p) const { return p == OBJSENSE ? g_sense : nondet_int(); }
   void body(SolRational& sol)
   {
#include "objregion.inc"
   }
};
extern "C" long long w_obj(int feasible, long long old)
{
   VIN("feasible", feasible); VIN("offset", g_off); VIN("sense", g_sense);
   LPRat lp; H h; h._rationalLP = &lp;
   SolRational sol; sol._isPrimalFeasible = feasible != 0; sol._isDualFeasible = feasible != 0; sol._objVal = old;
   h.body(sol);
   return sol._objVal;
}
