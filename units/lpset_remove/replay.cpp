/* Native replay for unit lpset_remove: runs the REAL soplex::LPRowSetBase<double> / LPColSetBase<double> on the
 * counterexample (num rows/columns with pairwise distinct sides, removal by permutation or by list) and evaluates the
 * contract's postcondition: every survivor's lhs/rhs/obj (lower/upper/obj) sits at its new number. */
#include "replay_util.h"
#include "soplex/spxdefines.h"
#include "soplex/dsvector.h"
#include "soplex/lprowset.h"
#include "soplex/lpcolset.h"
#include <algorithm>

using namespace soplex;

struct RowView : LPRowSetBase<Real> { int& se(int i) { return scaleExp[i]; } };
struct ColView : LPColSetBase<Real> { int& se(int i) { return scaleExp[i]; } };

int main(int argc, char** argv)
{
   if(argc < 3) return 2;
   ReplayIn in(argv[1]);
   std::string inst = argv[2];
   bool rows = inst.compare(0, 3, "row") == 0;
   bool bynums = inst.find("nums") != std::string::npos;
   int num = (int)in.geti("num", 4);
   if(num < 0 || num > 64) return 2;
   int n = (int)in.geti("n", 0);
   std::vector<int> nums = in.getarr("nums", n, 0), perm0 = in.getarr("perm", num, 0);
   std::vector<bool> removed(num, false);
   if(bynums)
   {
      for(int k = 0; k < n; k++) { if(nums[k] < 0 || nums[k] >= num) return 2; removed[nums[k]] = true; }
   }
   else
      for(int g = 0; g < num; g++) removed[g] = perm0[g] < 0;

   RowView rs; ColView cs;
   DSVector empty;
   for(int g = 0; g < num; g++)
   {
      if(rows) { rs.add(Real(10 + g), empty, Real(100 + g), Real(1000 + g)); rs.se(g) = 7 + g; }
      else     { cs.add(Real(1000 + g), Real(10 + g), empty, Real(100 + g)); cs.se(g) = 7 + g; }
   }
   std::vector<int> perm(perm0);
   perm.resize(num + 1);
   std::cout << (rows ? "LPRowSet" : "LPColSet") << "::remove(" << (bynums ? "nums,n,perm" : "perm") << ") on " << num << " entries, removing";
   for(int g = 0; g < num; g++) if(removed[g]) std::cout << " " << g;
   std::cout << std::endl;
   if(bynums) { if(rows) rs.remove(nums.data(), n, perm.data()); else cs.remove(nums.data(), n, perm.data()); }
   else       { if(rows) rs.remove(perm.data()); else cs.remove(perm.data()); }

   int newnum = 0;
   for(int g = 0; g < num; g++)
   {
      if(removed[g]) { if(perm[g] >= 0) REPLAY_FAIL("perm[" << g << "]=" << perm[g] << " for a removed entry"); continue; }
      if(perm[g] != newnum) REPLAY_FAIL("perm[" << g << "]=" << perm[g] << " expected " << newnum);
      int t = newnum++;
      Real a = rows ? rs.lhs(t) : cs.lower(t), b = rows ? rs.rhs(t) : cs.upper(t), o = rows ? rs.obj(t) : cs.maxObj(t);
      int e = rows ? rs.se(t) : cs.se(t);
      if(a != Real(10 + g) || b != Real(100 + g) || o != Real(1000 + g) || e != 7 + g)
         REPLAY_FAIL("old entry " << g << " is now number " << t << " but number " << t << " has "
                     << (rows ? "lhs/rhs/obj" : "lower/upper/obj") << "/scaleExp = " << a << "/" << b << "/" << o << "/" << e
                     << ", expected " << 10 + g << "/" << 100 + g << "/" << 1000 + g << "/" << 7 + g);
   }
   if((rows ? rs.num() : cs.num()) != newnum) REPLAY_FAIL("num()");
   REPLAY_OK();
}
