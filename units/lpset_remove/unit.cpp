/* C19 / C06: LPRowSetBase<R>::remove(int perm[]), remove(const int nums[], int n, int* perm) (src/soplex/lprowsetbase.h)
 * and the LPColSetBase twins (src/soplex/lpcolsetbase.h), R = double (values are only copied).
 * The sliced bodies are the real ones.  The host replicates the data members of the real class (three VectorBase<R> side
 * vectors + DataArray<int> scaleExp, conformance-checked) and derives from a stub SVSetBase<R> whose remove(perm) /
 * remove(nums,n,perm) are MODELS of DataSet::remove(perm) as proved in unit `dataset`:
 *      survivor g: perm[g] = cnt[g] (number of survivors before g);  removed g: perm[g] < 0 (by list: -1);  num() = cnt[old num()].
 * The models are straight-line code over the cells 0..CAP-1 (stubs/rep.h); cnt is a specification ghost defined by the
 * contract's precondition. */
#include "verif.h"
#include "rep.h"

typedef double R;
extern "C" { extern const int* gp_cnt; extern const int* gp_isrem; extern R* gp_a1; extern R* gp_a2; extern R* gp_a3; extern int* gp_exp; }

/* VectorBase / DataArray: executable models that add the bounds assertion; reDim/reSize are modelled for SHRINKING
 * (the only case these bodies can reach is asserted): the length changes, the kept prefix is untouched. */
template <class T> struct VectorBase
{
   T* val; int dimen;
   int dim() const { return dimen; }
   T& operator[](int n) { __CPROVER_assert(0 <= n && n < dimen, "VectorBase index in bounds"); return val[n]; }
   void reDim(int newdim, const bool setZero = true)
   {
      __CPROVER_assert(0 <= newdim && newdim <= dimen, "VectorBase::reDim model: shrinking only");
      dimen = newdim;
   }
};
template <class T> struct DataArray
{
   T* data; int thesize;
   int size() const { return thesize; }
   T& operator[](int n) { __CPROVER_assert(0 <= n && n < thesize, "DataArray index in bounds"); return data[n]; }
   void reSize(int newsize)
   {
      __CPROVER_assert(0 <= newsize && newsize <= thesize, "DataArray::reSize model: shrinking only");
      thesize = newsize;
   }
};

template <class T> struct SVSetBase
{
   int thenum;                 /* stands for set.num() */
   int num() const { return thenum; }
   void remove(int perm[])
   {
#define STEP_PERM(m) if((m) < thenum && perm[m] >= 0) perm[m] = gp_cnt[m]
      REP_DO(STEP_PERM)
      thenum = gp_cnt[thenum];
   }
   void remove(const int nums[], int n, int* perm)
   {
      /* gp_isrem[m] <=> m occurs in nums[0..n)  (contract precondition) */
#define STEP_NUMS(m) if((m) < thenum) perm[m] = gp_isrem[m] ? -1 : gp_cnt[m]
      REP_DO(STEP_NUMS)
      thenum = gp_cnt[thenum];
   }
};

struct H : SVSetBase<R>
{
#ifdef ROWS
   VectorBase<R> left;
   VectorBase<R> right;
#else
   VectorBase<R> low;
   VectorBase<R> up;
#endif
   VectorBase<R> object;
   DataArray<int> scaleExp;

   int num() const
   {
#include "num.inc"
   }
   /* parameters of the sliced function */
   int* perm; const int* nums; int n;
   void body()
   {
#include "remove.inc"
   }
};

extern "C" void w_remove(R* a1, R* a2, R* a3, int* sexp, int* perm, int* num, const int* nums, int n,
                         const int* cnt, const int* isrem, const int* wit, int* dims)
{
   VIN("num", *num); VIN("n", n); VIN_ARR8("nums", nums, n); VIN_ARR8("perm", perm, *num);
   H s;
   s.thenum = *num;
#ifdef ROWS
   s.left.val = a1; s.left.dimen = *num; s.right.val = a2; s.right.dimen = *num;
#else
   s.low.val = a1; s.low.dimen = *num; s.up.val = a2; s.up.dimen = *num;
#endif
   s.object.val = a3; s.object.dimen = *num; s.scaleExp.data = sexp; s.scaleExp.thesize = *num;
   s.perm = perm; s.nums = nums; s.n = n;
   gp_cnt = cnt; gp_isrem = isrem; gp_a1 = a1; gp_a2 = a2; gp_a3 = a3; gp_exp = sexp;
   s.body();
   *num = s.thenum;
#ifdef ROWS
   dims[0] = s.left.dimen; dims[1] = s.right.dimen;
#else
   dims[0] = s.low.dimen; dims[1] = s.up.dimen;
#endif
   dims[2] = s.object.dimen; dims[3] = s.scaleExp.thesize;
}
