/* Contract for LPRowSetBase/LPColSetBase::remove(perm[]) and remove(nums, n, perm)  (C19, C06 renumbering clause).
 * a1,a2,a3,sexp = left/right/object/scaleExp (rows) or low/up/object/scaleExp (columns), all of length num().
 * For every old row g that survives (ghost g_k): on exit its four side values sit at its new number perm[g] = cnt[g];
 * num() and the four vector lengths equal the number of survivors; perm is as DataSet::remove(perm) documents. */
#include "verif_c.h"
#ifndef CAP
#define CAP 16
#endif
#include "rep.h"
typedef double R;
const int* gp_cnt; const int* gp_isrem; R* gp_a1; R* gp_a2; R* gp_a3; int* gp_exp;
int g_k, g_t, g_n0, g_j, g_s; R v1, v2, v3; int v4; int v_p;

#ifdef BYNUMS
#define REMOVED(k) (isrem[k] != 0)
#else
#define REMOVED(k) (perm[k] < 0)
#endif
#define P_CNT(k)    (!((k) < *num) || cnt[(k) + 1] == cnt[k] + (REMOVED(k) ? 0 : 1))
#define P_LISTED(k) (!((k) < n) || (0 <= nums[k] && nums[k] < *num && isrem[nums[k]] == 1))
#define P_WIT(g)    (!((g) < *num) || isrem[g] == 0 || (isrem[g] == 1 && 0 <= wit[g] && wit[g] < n && nums[wit[g]] == (g)))

void w_remove(R* a1, R* a2, R* a3, int* sexp, int* perm, int* num, const int* nums, int n,
              const int* cnt, const int* isrem, const int* wit, int* dims)
__CPROVER_requires(__CPROVER_is_fresh(num, sizeof(int)) && 0 <= *num && *num <= CAP && 0 <= n && n <= CAP)
__CPROVER_requires(__CPROVER_is_fresh(a1, CAP * sizeof(R)) && __CPROVER_is_fresh(a2, CAP * sizeof(R)) && __CPROVER_is_fresh(a3, CAP * sizeof(R))
   && __CPROVER_is_fresh(sexp, CAP * sizeof(int)) && __CPROVER_is_fresh(perm, CAP * sizeof(int)) && __CPROVER_is_fresh(nums, CAP * sizeof(int))
   && __CPROVER_is_fresh(cnt, (CAP + 1) * sizeof(int)) && __CPROVER_is_fresh(isrem, CAP * sizeof(int)) && __CPROVER_is_fresh(wit, CAP * sizeof(int))
   && __CPROVER_is_fresh(dims, 4 * sizeof(int)))
/* ghost definitions (cell by cell): cnt = survivors before k; by list: isrem = membership in nums[0..n) */
__CPROVER_requires(cnt[0] == 0 && REP_ALL(P_CNT))
#ifdef BYNUMS
__CPROVER_requires(REP_ALL(P_LISTED) && REP_ALL(P_WIT))
#endif
__CPROVER_requires(g_n0 == *num && 0 <= g_k && g_k < *num && g_t == cnt[g_k] && g_s == (REMOVED(g_k) ? 0 : 1))
#if defined(BYNUMS) && !defined(J_BEFORE_REMOVAL)
__CPROVER_requires(g_j == cnt[*num])       /* the real loop bound: num() AFTER the removal (candidate defect 6.5b) */
#else
__CPROVER_requires(g_j == *num)
#endif
__CPROVER_requires(v1 == a1[g_k] && v2 == a2[g_k] && v3 == a3[g_k] && v4 == sexp[g_k] && v_p == perm[g_k])
__CPROVER_assigns(gp_cnt, gp_isrem, gp_a1, gp_a2, gp_a3, gp_exp, *num, __CPROVER_object_whole(a1), __CPROVER_object_whole(a2),
                  __CPROVER_object_whole(a3), __CPROVER_object_whole(sexp), __CPROVER_object_whole(perm), __CPROVER_object_whole(dims))
__CPROVER_ensures(*num == cnt[g_n0] && dims[0] == *num && dims[1] == *num && dims[2] == *num && dims[3] == *num)
#ifdef BYNUMS
__CPROVER_ensures(perm[g_k] == (isrem[g_k] ? -1 : g_t))
__CPROVER_ensures(isrem[g_k] || (0 <= g_t && g_t < *num && a1[g_t] == v1 && a2[g_t] == v2 && a3[g_t] == v3 && sexp[g_t] == v4))
#else
__CPROVER_ensures(perm[g_k] == (v_p < 0 ? v_p : g_t))
__CPROVER_ensures(v_p < 0 || (0 <= g_t && g_t < *num && a1[g_t] == v1 && a2[g_t] == v2 && a3[g_t] == v3 && sexp[g_t] == v4))
#endif
;

void h_remove(void)
{
   R* a1; R* a2; R* a3; int* sexp; int* perm; int* num; const int* nums; int n; const int* cnt; const int* isrem; const int* wit; int* dims;
   g_k = nondet_int(); g_t = nondet_int(); g_n0 = nondet_int(); g_j = nondet_int(); g_s = nondet_int(); v_p = nondet_int(); v4 = nondet_int();
   v1 = nondet_double(); v2 = nondet_double(); v3 = nondet_double();
   w_remove(a1, a2, a3, sexp, perm, num, nums, n, cnt, isrem, wit, dims);
   CANARY();
}
