/* C03: contracts for the exact violation measures and the termination test of the refinement loop.
 * Rational = ordered-group integer (long long, magnitudes <= 2^60 so that nothing overflows).
 * "For all columns/rows" is stated at the ghost index g_k.  The specification is the property text: a solution is
 * accepted only if every bound, side and dual sign condition holds up to the rational tolerance; with tolerance 0
 * this is "exactly". */
#include "verif_c.h"
#ifndef CAP
#define CAP 16
#endif
typedef long long Rational;
#define RAT_BOUND (1LL << 60)
#define BOUNDED(x) (-RAT_BOUND <= (x) && (x) <= RAT_BOUND)
/* enumerations extracted verbatim from the tree (C-compatible text) */
#include "VarStatus.inc"
#include "RangeType.inc"

int g_k, g_n;
Rational* gp_viol; Rational* gp_mlo; Rational* gp_mup;
Rational v_lo, v_up, v_x, v_mlo, v_mup; int v_t, v_st, g_max;
/* enumerator values for the loop invariants (the loop-contract side file cannot name C enumerators) */
int K_LOWER, K_UPPER, K_BOXED, K_FIXED, K_ON_LOWER, K_ON_UPPER;

/* meaning of the range types, from the documentation of the enumeration in soplex.h:
 * LOWER: lower finite, upper infinite; UPPER: upper finite, lower infinite; BOXED/FIXED: both finite; FREE: none */
#define LOWERFIN(t) ((t) == RANGETYPE_LOWER || (t) == RANGETYPE_BOXED || (t) == RANGETYPE_FIXED)
#define UPPERFIN(t) ((t) == RANGETYPE_UPPER || (t) == RANGETYPE_BOXED || (t) == RANGETYPE_FIXED)

#ifdef INST_VIOL
/* sign table for reduced costs (columns) and dual multipliers (rows), from LP duality (min c'x, r = c - A'y):
 *   minimisation: nonbasic at lower => r >= 0, at upper => r <= 0, otherwise (basic, free at zero) r == 0;
 *   maximisation: inequalities reversed; the row multiplier is the reduced cost of the slack: same table.
 *   "up to viol": the forbidden sign is bounded by viol.  A variable whose RANGE TYPE is FIXED (l == u) may carry any sign. */
#define LO_OK(v, m) ((v) >= -(m))
#define UP_OK(v, m) ((v) <= (m))
#define SIGN_OK(st, maxi, v, m) ( \
   (st) == ON_LOWER ? ((maxi) ? UP_OK(v, m) : LO_OK(v, m)) : \
   (st) == ON_UPPER ? ((maxi) ? LO_OK(v, m) : UP_OK(v, m)) : \
   (LO_OK(v, m) && UP_OK(v, m)))

void w_viol(Rational* lo, Rational* up, Rational* x, int* types, int* stat, Rational* mlo, Rational* mup,
            Rational* other, int* otheri, int n, int maximizing, Rational* viol)
__CPROVER_requires(0 < n && n <= CAP && g_n == n)
__CPROVER_requires(__CPROVER_is_fresh(lo, n * sizeof(Rational)) && __CPROVER_is_fresh(up, n * sizeof(Rational)))
__CPROVER_requires(__CPROVER_is_fresh(x, n * sizeof(Rational)) && __CPROVER_is_fresh(other, n * sizeof(Rational)))
__CPROVER_requires(__CPROVER_is_fresh(mlo, n * sizeof(Rational)) && __CPROVER_is_fresh(mup, n * sizeof(Rational)))
__CPROVER_requires(__CPROVER_is_fresh(types, n * sizeof(int)) && __CPROVER_is_fresh(stat, n * sizeof(int)))
__CPROVER_requires(__CPROVER_is_fresh(otheri, n * sizeof(int)) && __CPROVER_is_fresh(viol, sizeof(Rational)))
__CPROVER_requires(maximizing == 0 || maximizing == 1)
__CPROVER_requires(g_max == maximizing)
__CPROVER_requires(0 <= g_k && g_k < n)
__CPROVER_requires(v_lo == lo[g_k] && v_up == up[g_k] && v_x == x[g_k] && v_t == types[g_k] && v_st == stat[g_k])
__CPROVER_requires(v_mlo == mlo[g_k] && v_mup == mup[g_k])
/* no-overflow side condition of the 64-bit model of the ordered group */
__CPROVER_requires(BOUNDED(v_lo) && BOUNDED(v_up) && BOUNDED(v_x))
__CPROVER_assigns(gp_viol, gp_mlo, gp_mup, *viol)
#if defined(KIND_BOUNDS) || defined(KIND_SIDES)
__CPROVER_assigns(__CPROVER_object_whole(mlo), __CPROVER_object_whole(mup))
#endif
__CPROVER_ensures(*viol >= 0)
#if defined(KIND_BOUNDS) || defined(KIND_SIDES)
/* finite lower bound / left-hand side: the difference is stored and bounded by the result; infinite: untouched */
__CPROVER_ensures(LOWERFIN(v_t) ? (mlo[g_k] == v_lo - v_x && v_lo - v_x <= *viol) : mlo[g_k] == v_mlo)
__CPROVER_ensures(UPPERFIN(v_t) ? (mup[g_k] == v_up - v_x && v_x - v_up <= *viol) : mup[g_k] == v_mup)
#endif
#if defined(KIND_SIDES)
/* complementary slackness for rows: a row whose basis status says "at its left/right-hand side" is there up to viol */
__CPROVER_ensures((LOWERFIN(v_t) && v_st == ON_LOWER) ==> v_x - v_lo <= *viol)
__CPROVER_ensures((UPPERFIN(v_t) && v_st == ON_UPPER) ==> v_up - v_x <= *viol)
#endif
#if defined(KIND_REDCOST) || defined(KIND_DUAL)
__CPROVER_ensures(v_t != RANGETYPE_FIXED ==> SIGN_OK(v_st, maximizing, v_x, *viol))
__CPROVER_ensures(mlo[g_k] == v_mlo && mup[g_k] == v_mup)
#endif
/* inputs unchanged at the ghost index (they are not assignable at all) */
__CPROVER_ensures(lo[g_k] == v_lo && up[g_k] == v_up && x[g_k] == v_x && types[g_k] == v_t && stat[g_k] == v_st)
;

void h_viol(void)
{
   Rational* lo; Rational* up; Rational* x; int* types; int* stat; Rational* mlo; Rational* mup; Rational* other; int* otheri;
   int n; int maximizing; Rational* viol;
   g_k = nondet_int(); g_n = nondet_int(); g_max = nondet_int();
   v_lo = nondet_ll(); v_up = nondet_ll(); v_x = nondet_ll(); v_mlo = nondet_ll(); v_mup = nondet_ll();
   v_t = nondet_int(); v_st = nondet_int();
   K_LOWER = RANGETYPE_LOWER; K_UPPER = RANGETYPE_UPPER; K_BOXED = RANGETYPE_BOXED; K_FIXED = RANGETYPE_FIXED;
   K_ON_LOWER = ON_LOWER; K_ON_UPPER = ON_UPPER;
   w_viol(lo, up, x, types, stat, mlo, mup, other, otheri, n, maximizing, viol);
   CANARY();
}
#endif

#ifdef INST_OVER
#define NFAILED_MAX 2     /* "three refinements failed" (DESIGN.md, C03): more than two failed refinements end the loop */
#define PF (viol4[0] <= feastol && viol4[1] <= feastol)
#define DF (viol4[2] <= opttol && viol4[3] <= opttol)
#define TOLS_REACHED (PF && DF && minIRRoundsRemaining < 0)
/* the limits of _isSolveStopped (property C16): time limit set and reached; iteration / refinement / stalling limit set and reached */
#define STOP_TIME (timelimit < infty && now >= timelimit)
#define STOP_ITER ((iterlimit >= 0 && iterations >= iterlimit) || (reflimit >= 0 && refinements >= reflimit) || \
                   (stallreflimit >= 0 && stallRefinements >= stallreflimit))

int w_over(int* primalFeasible, int* dualFeasible, Rational* viol4, Rational feastol, Rational opttol,
           int minIRRoundsRemaining, int* stoppedTime, int* stoppedIter, int numFailedRefinements,
           double timelimit, double infty, double now, int iterlimit, int reflimit, int stallreflimit,
           int iterations, int refinements, int stallRefinements)
__CPROVER_requires(__CPROVER_is_fresh(primalFeasible, sizeof(int)) && __CPROVER_is_fresh(dualFeasible, sizeof(int)))
__CPROVER_requires(__CPROVER_is_fresh(stoppedTime, sizeof(int)) && __CPROVER_is_fresh(stoppedIter, sizeof(int)))
__CPROVER_requires(__CPROVER_is_fresh(viol4, 4 * sizeof(Rational)))
__CPROVER_requires((*stoppedTime == 0 || *stoppedTime == 1) && (*stoppedIter == 0 || *stoppedIter == 1))
__CPROVER_assigns(*primalFeasible, *dualFeasible, *stoppedTime, *stoppedIter)
/* the two flags say exactly "all violations within the rational tolerances" */
__CPROVER_ensures((*primalFeasible != 0) == PF)
__CPROVER_ensures((*dualFeasible != 0) == DF)
/* the loop ends iff tolerances are reached (and no forced round remains), a limit is hit, or > 2 refinements failed */
__CPROVER_ensures((__CPROVER_return_value != 0) == (TOLS_REACHED || STOP_TIME || STOP_ITER || numFailedRefinements > NFAILED_MAX))
/* hence: leaving the loop without a limit and without failed refinements happens only with every violation within tolerance
   (with tolerances 0: exactly feasible and dual feasible) */
__CPROVER_ensures((__CPROVER_return_value != 0 && !(STOP_TIME) && !(STOP_ITER) && numFailedRefinements <= NFAILED_MAX) ==>
                  (viol4[0] <= feastol && viol4[1] <= feastol && viol4[2] <= opttol && viol4[3] <= opttol))
/* the limit flags are evaluated unless the tolerances were reached */
__CPROVER_ensures(TOLS_REACHED ? (*stoppedTime == __CPROVER_old(*stoppedTime) && *stoppedIter == __CPROVER_old(*stoppedIter))
                               : ((*stoppedTime != 0) == (STOP_TIME) && (*stoppedIter != 0) == (STOP_ITER)))
;

void h_over(void)
{
   int* primalFeasible; int* dualFeasible; Rational* viol4; Rational feastol, opttol; int minIRRoundsRemaining;
   int* stoppedTime; int* stoppedIter; int numFailedRefinements; double timelimit, infty, now;
   int iterlimit, reflimit, stallreflimit, iterations, refinements, stallRefinements;
   w_over(primalFeasible, dualFeasible, viol4, feastol, opttol, minIRRoundsRemaining, stoppedTime, stoppedIter,
          numFailedRefinements, timelimit, infty, now, iterlimit, reflimit, stallreflimit, iterations, refinements, stallRefinements);
   CANARY();
}
#endif
