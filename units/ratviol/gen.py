#!/usr/bin/env python3
"""Generates unit.json of the ratviol unit (C03).  Run after editing; the runner only reads unit.json."""
import json, os
HPP = "src/soplex.hpp"
RAT = "src/soplex/solverational.hpp"

def acc(name, ret, args, const=True):
    return {"as": name + ".inc", "file": HPP,
            "sig": ret + r"\s+SoPlexBase<R>::" + name + r"\s*\(\s*" + args + r"\s*\)" + (r"\s*const" if const else "")}

HELPERS = [
    acc("numRowsRational", "int", ""), acc("numColsRational", "int", ""),
    dict(acc("lowerRational", r"const\s+Rational&", r"int\s+i"), must_contain=[r"_rationalLP->lower\(i\)"]),
    dict(acc("upperRational", r"const\s+Rational&", r"int\s+i"), must_contain=[r"_rationalLP->upper\(i\)"]),
    dict(acc("lhsRational", r"const\s+Rational&", r"int\s+i"), must_contain=[r"_rationalLP->lhs\(i\)"]),
    dict(acc("rhsRational", r"const\s+Rational&", r"int\s+i"), must_contain=[r"_rationalLP->rhs\(i\)"]),
    acc("_lowerFinite", "bool", r"const\s+RangeType&\s*rangeType"),
    acc("_upperFinite", "bool", r"const\s+RangeType&\s*rangeType"),
    acc("intParam", "int", r"const\s+IntParam\s+param"),
    acc("realParam", "Real", r"const\s+RealParam\s+param"),
    dict(acc("_isSolveStopped", "bool", r"bool&\s*stoppedTime\s*,\s*bool&\s*stoppedIter"),
         must_contain=[r"realParam\(TIMELIMIT\)", r"intParam\(ITERLIMIT\)", r"intParam\(REFLIMIT\)", r"intParam\(STALLREFLIMIT\)"]),
]

LF = "(v_t==K_LOWER||v_t==K_BOXED||v_t==K_FIXED)"
UF = "(v_t==K_UPPER||v_t==K_BOXED||v_t==K_FIXED)"
POST_MOD = ("((%s ? (gp_mlo[g_k]==v_lo-v_x && v_lo-v_x<=*gp_viol) : gp_mlo[g_k]==v_mlo) && "
            "(%s ? (gp_mup[g_k]==v_up-v_x && v_x-v_up<=*gp_viol) : gp_mup[g_k]==v_mup))" % (LF, UF))
POST_CS = ("(((%s && v_st==K_ON_LOWER) ? v_x-v_lo<=*gp_viol : 1) && ((%s && v_st==K_ON_UPPER) ? v_up-v_x<=*gp_viol : 1))" % (LF, UF))
LO_OK = "v_x>=-(*gp_viol)"
UP_OK = "v_x<=*gp_viol"
SIGN = ("(v_st==K_ON_LOWER ? (g_max ? %s : %s) : v_st==K_ON_UPPER ? (g_max ? %s : %s) : (%s && %s))"
        % (UP_OK, LO_OK, LO_OK, UP_OK, LO_OK, UP_OK))

def loop(var, kind):
    inv = ["-1<=%s && %s<g_n" % (var, var), "*gp_viol>=0"]
    assigns = [var, "*gp_viol"]
    if kind in ("bounds", "sides"):
        inv.append("(g_k>%s) ? %s : (gp_mlo[g_k]==v_mlo && gp_mup[g_k]==v_mup)" % (var, POST_MOD))
        assigns += ["__CPROVER_object_whole(gp_mlo)", "__CPROVER_object_whole(gp_mup)"]
    if kind == "sides":
        inv.append("(g_k>%s) ? %s : 1" % (var, POST_CS))
    if kind in ("redcost", "dual"):
        inv.append("(g_k>%s) ? (v_t==K_FIXED || %s) : 1" % (var, SIGN))
    return [{"function": r"H::body\(this\)", "loop": 0, "locals": [var], "invariants": inv, "assigns": assigns,
             "decreases": var + "+1"}]

def viol(name, kind, violname, sigargs, var, must, mutants, fn):
    return {"name": name, "function": fn + "  [src/soplex/solverational.hpp]",
            "defines": {"INST_VIOL": "", "KIND_" + kind.upper(): "", "SLICE": "\"%s.inc\"" % name, "VIOLNAME": violname},
            "harness": "h_viol", "enforce": "w_viol",
            "slices": HELPERS + [{"as": name + ".inc", "file": RAT,
                                  "sig": r"void\s+SoPlexBase<R>::" + name + r"\s*\(\s*" + sigargs + r"\s*\)",
                                  "must_contain": must}],
            "loops": loop(var, kind), "min_obligations": 100, "tier": "quick",
            "mutants": [dict(m, slice=name + ".inc") for m in mutants]}

SOLARG = r"SolRational&\s*sol\s*,\s*Rational&\s*"
insts = [
    viol("_computeBoundsViolation", "bounds", "boundsViolation", SOLARG + "boundsViolation", "c",
         [r"_lowerFinite\(_colTypes\[c\]\)", r"_upperFinite\(_colTypes\[c\]\)", r"_modLower\[c\] -= sol\._primal\[c\]",
          r"_modUpper\[c\] -= sol\._primal\[c\]"],
         [{"name": "lower_sign", "find": "_modLower[c] -= sol._primal[c];", "replace": "_modLower[c] += sol._primal[c];"},
          {"name": "upper_zero_branch_sign", "find": "_modUpper[c] *= -1;", "replace": "_modUpper[c] *= 1;"},
          {"name": "upper_max_dropped", "find": "if(_modUpper[c] < -boundsViolation)", "replace": "if(_modUpper[c] > -boundsViolation)"},
          {"name": "guard_swapped", "find": "if(_upperFinite(_colTypes[c]))", "replace": "if(_lowerFinite(_colTypes[c]))"},
          {"name": "wrong_vector", "find": "_modLower[c] = lowerRational(c);", "replace": "_modLower[c] = upperRational(c);"}],
         "SoPlexBase<R>::_computeBoundsViolation(SolRational& sol, Rational& boundsViolation)"),
    viol("_computeSidesViolation", "sides", "sideViolation", SOLARG + "sideViolation", "r",
         [r"_lowerFinite\(_rowTypes\[r\]\)", r"_upperFinite\(_rowTypes\[r\]\)", r"_modLhs\[r\] -= sol\._slacks\[r\]",
          r"_modRhs\[r\] -= sol\._slacks\[r\]"],
         [{"name": "rhs_sign", "find": "_modRhs[r] -= sol._slacks[r];", "replace": "_modRhs[r] += sol._slacks[r];"},
          {"name": "cs_status_swapped", "find": "basisStatusRow == SPxSolverBase<R>::ON_LOWER && _modLhs[r] < -sideViolation",
           "replace": "basisStatusRow == SPxSolverBase<R>::ON_UPPER && _modLhs[r] < -sideViolation"},
          {"name": "lhs_max_dropped", "find": "if(_modLhs[r] > sideViolation)", "replace": "if(_modLhs[r] < sideViolation)"},
          {"name": "primal_for_slack", "find": "_modLhs[r] -= sol._slacks[r];", "replace": "_modLhs[r] -= sol._primal[r];"},
          {"name": "coltypes_for_rowtypes", "find": "if(_upperFinite(_rowTypes[r]))", "replace": "if(_upperFinite(_colTypes[r]))"}],
         "SoPlexBase<R>::_computeSidesViolation(SolRational& sol, Rational& sideViolation)"),
    viol("_computeReducedCostViolation", "redcost", "redCostViolation",
         SOLARG + r"redCostViolation\s*,\s*const\s+bool&\s*maximizing", "c",
         [r"_colTypes\[c\] == RANGETYPE_FIXED", r"_basisStatusCols\[c\]", r"sol\._redCost\[c\] < -redCostViolation",
          r"sol\._redCost\[c\] > redCostViolation"],
         [{"name": "status_swapped", "find": "(maximizing && basisStatusCol != SPxSolverBase<R>::ON_LOWER)",
           "replace": "(maximizing && basisStatusCol != SPxSolverBase<R>::ON_UPPER)"},
          {"name": "sense_flipped", "regex": True, "find": r"\(!maximizing\s*&& basisStatusCol != SPxSolverBase<R>::ON_LOWER\)",
           "replace": "(maximizing && basisStatusCol != SPxSolverBase<R>::ON_LOWER)"},
          {"name": "neg_dropped", "find": "redCostViolation = -sol._redCost[c];", "replace": "redCostViolation = sol._redCost[c];"},
          {"name": "row_status", "find": "= _basisStatusCols[c];", "replace": "= _basisStatusRows[c];"}],
         "SoPlexBase<R>::_computeReducedCostViolation(SolRational& sol, Rational& redCostViolation, const bool& maximizing)"),
    viol("_computeDualViolation", "dual", "dualViolation",
         SOLARG + r"dualViolation\s*,\s*const\s+bool&\s*maximizing", "r",
         [r"_rowTypes\[r\] == RANGETYPE_FIXED", r"_basisStatusRows\[r\]", r"sol\._dual\[r\] < -dualViolation",
          r"sol\._dual\[r\] > dualViolation"],
         [{"name": "status_swapped", "find": "(maximizing && basisStatusRow != SPxSolverBase<R>::ON_UPPER)",
           "replace": "(maximizing && basisStatusRow != SPxSolverBase<R>::ON_LOWER)"},
          {"name": "cmp_flipped", "find": "&& sol._dual[r] > dualViolation)", "replace": "&& sol._dual[r] < dualViolation)"},
          {"name": "redcost_for_dual", "find": "dualViolation = sol._dual[r];", "replace": "dualViolation = sol._redCost[r];"}],
         "SoPlexBase<R>::_computeDualViolation(SolRational& sol, Rational& dualViolation, const bool& maximizing)"),
    {"name": "_isRefinementOver",
     "function": "SoPlexBase<R>::_isRefinementOver(bool& primalFeasible, bool& dualFeasible, Rational& boundsViolation, Rational& sideViolation, "
                 "Rational& redCostViolation, Rational& dualViolation, int minIRRoundsRemaining, bool& stoppedTime, bool& stoppedIter, "
                 "int numFailedRefinements) + SoPlexBase<R>::_isSolveStopped(bool&, bool&) const  [src/soplex/solverational.hpp, src/soplex.hpp]",
     "defines": {"INST_OVER": ""}, "harness": "h_over", "enforce": "w_over",
     "slices": HELPERS + [{"as": "_isRefinementOver.inc", "file": RAT,
                           "sig": r"bool\s+SoPlexBase<R>::_isRefinementOver\s*\(\s*bool&\s*primalFeasible\s*,\s*bool&\s*dualFeasible\s*,\s*"
                                  r"Rational&\s*boundsViolation\s*,\s*Rational&\s*sideViolation\s*,\s*Rational&\s*redCostViolation\s*,\s*"
                                  r"Rational&\s*dualViolation\s*,\s*int\s+minIRRoundsRemaining\s*,\s*bool&\s*stoppedTime\s*,\s*bool&\s*stoppedIter\s*,\s*"
                                  r"int\s+numFailedRefinements\s*\)",
                           "must_contain": [r"_rationalFeastol", r"_rationalOpttol", r"_isSolveStopped\(stoppedTime, stoppedIter\)",
                                            r"numFailedRefinements > 2"]}],
     "loops": [], "min_obligations": 10, "tier": "quick",
     "mutants": [
         {"name": "opttol_for_feastol", "slice": "_isRefinementOver.inc", "find": "sideViolation <= _rationalFeastol", "replace": "sideViolation <= _rationalOpttol"},
         {"name": "or_for_and", "slice": "_isRefinementOver.inc", "find": "if(primalFeasible && dualFeasible)", "replace": "if(primalFeasible || dualFeasible)"},
         {"name": "dual_dropped", "slice": "_isRefinementOver.inc", "find": "&& dualViolation <= _rationalOpttol", "replace": ""},
         {"name": "failed_const", "slice": "_isRefinementOver.inc", "find": "numFailedRefinements > 2", "replace": "numFailedRefinements > 1"},
         {"name": "minrounds_sign", "slice": "_isRefinementOver.inc", "find": "minIRRoundsRemaining < 0", "replace": "minIRRoundsRemaining > 0"},
         {"name": "lt_for_le", "slice": "_isRefinementOver.inc", "find": "boundsViolation <= _rationalFeastol", "replace": "boundsViolation >= _rationalFeastol"},
         {"name": "stop_limit_sign", "slice": "_isSolveStopped.inc", "find": "_statistics->refinements >= intParam(REFLIMIT)", "replace": "_statistics->refinements <= intParam(REFLIMIT)"}]},
]

ENUM = r"typedef enum\s*\{(?:(?!typedef enum).)*?\}\s*%s;"
unit = {
    "property": ["C03"],
    "desc": "exact violation measures and termination test of the rational refinement loop (solverational.hpp): _computeBoundsViolation, "
            "_computeSidesViolation, _computeReducedCostViolation, _computeDualViolation, _isRefinementOver (+ _isSolveStopped, _lowerFinite, _upperFinite)",
    "rmode": "ordered-group int (Rational = long long, |inputs| <= 2^60; only -, unary -, *= -1, comparison, assignment, 0 are used)",
    "defines": {"CAP": "16"}, "defines_thorough": {"CAP": "64"}, "defines_small": {"CAP": "3"},
    "flags": ["--bounds-check", "--pointer-check", "--signed-overflow-check"],
    "timeout_s": 240,
    "extracts": [
        {"as": "VarStatus.inc", "file": "src/soplex/spxsolver.h", "regex": r"enum VarStatus\s*\{.*?\};"},
        {"as": "RangeType.inc", "file": "src/soplex.h", "regex": ENUM % "RangeType"},
        {"as": "IntParam.inc", "file": "src/soplex.h", "regex": ENUM % "IntParam"},
        {"as": "RealParam.inc", "file": "src/soplex.h", "regex": ENUM % "RealParam"},
    ],
    "conformance": [
        {"file": "src/soplex/sol.h", "regex": r"typedef\s+SolBase<Rational>\s+SolRational;", "why": "SolRational stub stands for SolBase<Rational>"},
        {"file": "src/soplex/solbase.h", "regex": r"VectorBase<R>\s+_primal;\s*VectorBase<R>\s+_slacks;", "why": "SolRational stub members"},
        {"file": "src/soplex/solbase.h", "regex": r"VectorBase<R>\s+_dual;\s*VectorBase<R>\s+_redCost;", "why": "SolRational stub members"},
        {"file": "src/soplex/solbase.h", "regex": r"template\s*<class T>\s*friend\s+class\s+SoPlexBase;", "why": "SoPlexBase reads the members directly"},
        {"file": "src/soplex.h", "regex": r"SPxLPRational\*\s+_rationalLP;", "why": "host member"},
        {"file": "src/soplex/spxlp.h", "regex": r"typedef\s+SPxLPBase<\s*Rational\s*>\s+SPxLPRational;", "why": "RatLP stands for SPxLPBase<Rational>"},
        {"file": "src/soplex/spxlpbase.h", "regex": r"const\s+R&\s+lower\(int i\)\s*const", "why": "RatLP::lower"},
        {"file": "src/soplex/spxlpbase.h", "regex": r"const\s+R&\s+upper\(int i\)\s*const", "why": "RatLP::upper"},
        {"file": "src/soplex/spxlpbase.h", "regex": r"const\s+R&\s+lhs\(int i\)\s*const", "why": "RatLP::lhs"},
        {"file": "src/soplex/spxlpbase.h", "regex": r"const\s+R&\s+rhs\(int i\)\s*const", "why": "RatLP::rhs"},
        {"file": "src/soplex.h", "regex": r"VectorRational\s+_modLower;\s*VectorRational\s+_modUpper;\s*VectorRational\s+_modLhs;\s*VectorRational\s+_modRhs;", "why": "host members"},
        {"file": "src/soplex.h", "regex": r"DataArray<\s*RangeType\s*>\s*_colTypes;\s*DataArray<\s*RangeType\s*>\s*_rowTypes;", "why": "host members"},
        {"file": "src/soplex.h", "regex": r"DataArray<\s*typename\s+SPxSolverBase<R>::VarStatus\s*>\s*_basisStatusRows;", "why": "host member"},
        {"file": "src/soplex.h", "regex": r"DataArray<\s*typename\s+SPxSolverBase<R>::VarStatus\s*>\s*_basisStatusCols;", "why": "host member"},
        {"file": "src/soplex.h", "regex": r"Rational\s+_rationalFeastol;\s*Rational\s+_rationalOpttol;", "why": "host members"},
        {"file": "src/soplex.h", "regex": r"Statistics\*\s+_statistics;", "why": "host member"},
        {"file": "src/soplex/statistics.h", "regex": r"Timer\*\s+solvingTime;", "why": "Statistics stub"},
        {"file": "src/soplex/statistics.h", "regex": r"int\s+iterations;.*?int\s+refinements;.*?int\s+stallRefinements;", "why": "Statistics stub"},
        {"file": "src/soplex/timer.h", "regex": r"virtual\s+Real\s+time\(\)\s*const\s*=\s*0;", "why": "TimerStub::time"},
        {"file": "src/soplex.h", "regex": r"int\s+_intParamValues\[SoPlexBase<R>::INTPARAM_COUNT\];", "why": "SettingsStub"},
        {"file": "src/soplex.h", "regex": r"Real\s+_realParamValues\[SoPlexBase<R>::REALPARAM_COUNT\];", "why": "SettingsStub"},
        {"file": "src/soplex.h", "regex": r"lower bound is finite, upper bound is infinite\s*RANGETYPE_LOWER\s*=\s*1,.*?upper bound is finite, lower bound is infinite\s*RANGETYPE_UPPER\s*=\s*2,",
         "why": "documented meaning of the range types (LOWERFIN/UPPERFIN in the contract)"},
    ],
    "trusted": [
        "Rational instantiated at an ordered-group integer type (long long): the bodies use only -, unary minus, *= -1, comparison, assignment and the constant 0 on Rational values; exactness of boost rational arithmetic itself is assumed",
        "no-overflow side condition of the 64-bit model: every value read from the rational LP vectors and the rational solution vectors satisfies |v| <= 2^60 (assume on read in the VectorRational stub for input vectors; stated in requires for the ghost cells); all arithmetic then passes --signed-overflow-check",
        "VectorBase/DataArray accessors are executable models that add the bounds assertion (stubs/containers.h; VectorRational stub in unit.cpp)",
        "RatLP (SPxLPBase<Rational>: nRows/nCols/lower/upper/lhs/rhs), SolRational (four vectors), Statistics/Timer/Settings stubs replicate data members and accessor signatures; conformance-checked by regex on every run",
        "the accessors numRowsRational, numColsRational, lowerRational, upperRational, lhsRational, rhsRational, _lowerFinite, _upperFinite, intParam, realParam, _isSolveStopped are real bodies (sliced)",
        "SPxOut::debug(...) and SPX_MSG_INFO* logging dropped at the preprocessor level; assert() compiled out (NDEBUG semantics)",
        "the clock reading of _isSolveStopped is one arbitrary double (TimerStub::time)",
        "vector length capped at CAP (16 quick / 64 thorough); loop proofs are inductive, the cap bounds the object size only",
    ],
    "instances": insts,
}
json.dump(unit, open(os.path.join(os.path.dirname(os.path.abspath(__file__)), "unit.json"), "w"), indent=1)
print("wrote unit.json with", len(insts), "instances")
