/* C03: the exact violation measures and the termination test of the refinement loop of SoPlexBase<R>
 * (src/soplex/solverational.hpp).  Bodies are #included verbatim from slices cut out of the current tree.
 * Rational is instantiated at an ORDERED-GROUP integer type: the bodies use only  - , unary minus, *= -1,
 * comparison, assignment and "= 0 / == 0" on Rational values, i.e. the language of ordered abelian groups;
 * (Z,+,<=) is such a group, 64-bit integers model it as long as nothing overflows (checked: --signed-overflow-check
 * under the stated magnitude bound on the inputs). */
#include "verif.h"
typedef long long Rational;
typedef double Real;
typedef double R;            /* the template parameter of SoPlexBase<R>; the bodies use it in qualified names only */
#define RAT_BOUND (1LL << 60)

#define VectorBase VectorBaseRaw
#include "containers.h"
#undef VectorBase
/* VectorRational.  Vectors that are INPUTS of the functions (rational LP data, the rational solution) carry the
 * magnitude bound as a read invariant (no-overflow side condition of the 64-bit model; listed in "trusted"). */
template <class T> struct VectorBase
{
   T* val; int dimen; bool is_input;
   int dim() const { return dimen; }
   T& operator[](int n)
   {
      __CPROVER_assert(0 <= n && n < dimen, "VectorBase index in bounds");
      if(is_input) __CPROVER_assume(-RAT_BOUND <= val[n] && val[n] <= RAT_BOUND);
      return val[n];
   }
   const T& operator[](int n) const
   {
      __CPROVER_assert(0 <= n && n < dimen, "VectorBase index in bounds");
      if(is_input) __CPROVER_assume(-RAT_BOUND <= val[n] && val[n] <= RAT_BOUND);
      return val[n];
   }
   /* extension hooks: units that reuse this host (units/ratrecon_check) add members here; empty for ratviol */
#ifdef RATVEC_EXTRA_FILE
#include RATVEC_EXTRA_FILE
#endif
};
typedef VectorBase<Rational> VectorRational;

#define SPX_MSG_INFO1(...)
#define SPX_MSG_INFO2(...)
#define SPX_MSG_INFO3(...)
/* debug logging dropped at the preprocessor level (README 17): its arguments (Rational::str()) are not compiled */
struct SPxOut { static void verif_debug_sink() {} };
#define debug(...) verif_debug_sink()

/* names-only templates serving the qualified names used by the bodies; enumerations extracted from the tree */
template <class T> struct SPxSolverBase
{
#include "VarStatus.inc"
};
template <class T> struct SoPlexBase
{
#include "RangeType.inc"
#include "IntParam.inc"
#include "RealParam.inc"
#ifdef RAT_SOPLEXBASE_EXTRA_FILE
#include RAT_SOPLEXBASE_EXTRA_FILE
#endif
};

/* SPxLPRational: only what the bodies read (through the sliced accessors lowerRational(i) ...) */
struct RatLP
{
   VectorRational low, up, left, right;
   int nc, nr;
   int nRows() const { return nr; }
   int nCols() const { return nc; }
   const Rational& lower(int i) const { return low[i]; }
   const Rational& upper(int i) const { return up[i]; }
   const Rational& lhs(int i) const { return left[i]; }
   const Rational& rhs(int i) const { return right[i]; }
#ifdef RAT_LP_EXTRA
   RAT_LP_EXTRA
#endif
};
/* SolBase<Rational>: SoPlexBase is a friend and reads the members directly */
struct SolRational
{
   VectorRational _primal, _slacks, _dual, _redCost;
#ifdef RAT_SOL_EXTRA
   RAT_SOL_EXTRA
#endif
};
struct TimerStub { Real now; Real time() const { return now; } void start() {} void stop() {} };
struct Statistics
{
   TimerStub* solvingTime; int iterations; int refinements; int stallRefinements;
#ifdef RAT_STAT_EXTRA
   RAT_STAT_EXTRA
#endif
};
struct SettingsStub
{
   int _intParamValues[SoPlexBase<R>::INTPARAM_COUNT];
   Real _realParamValues[SoPlexBase<R>::REALPARAM_COUNT];
};

struct Host : SoPlexBase<R>
{
   RatLP* _rationalLP;
   VectorRational _modLower, _modUpper, _modLhs, _modRhs;
   DataArray<RangeType> _colTypes, _rowTypes;
   DataArray<SPxSolverBase<R>::VarStatus> _basisStatusRows, _basisStatusCols;
   Rational _rationalFeastol, _rationalOpttol;
   Statistics* _statistics;
   SettingsStub* _currentSettings;

   int numRowsRational() const
   {
#include "numRowsRational.inc"
   }
   int numColsRational() const
   {
#include "numColsRational.inc"
   }
   const Rational& lowerRational(int i) const
   {
#include "lowerRational.inc"
   }
   const Rational& upperRational(int i) const
   {
#include "upperRational.inc"
   }
   const Rational& lhsRational(int i) const
   {
#include "lhsRational.inc"
   }
   const Rational& rhsRational(int i) const
   {
#include "rhsRational.inc"
   }
   bool _lowerFinite(const RangeType& rangeType) const
   {
#include "_lowerFinite.inc"
   }
   bool _upperFinite(const RangeType& rangeType) const
   {
#include "_upperFinite.inc"
   }
   int intParam(const IntParam param) const
   {
#include "intParam.inc"
   }
   Real realParam(const RealParam param) const
   {
#include "realParam.inc"
   }
   bool _isSolveStopped(bool& stoppedTime, bool& stoppedIter) const
   {
#include "_isSolveStopped.inc"
   }
};

extern "C" {
   extern int g_k, g_n;
   extern Rational* gp_viol; extern Rational* gp_mlo; extern Rational* gp_mup;
}

#ifdef INST_VIOL
struct H : Host
{
   SolRational* sol_; Rational* viol_; const bool* max_;
   void body()
   {
      SolRational& sol = *sol_;
      Rational& VIOLNAME = *viol_;
      const bool& maximizing = *max_;
      (void)maximizing;
#include SLICE
   }
};

static inline void setv(VectorRational& v, Rational* p, int n, bool in) { v.val = p; v.dimen = n; v.is_input = in; }

/* One wrapper for the four functions.
 *   lo, up : lower/upper (columns) or lhs/rhs (rows) of the rational LP
 *   x      : the solution vector the function is about (primal | slacks | redCost | dual)
 *   types  : _colTypes | _rowTypes;  stat: _basisStatusCols | _basisStatusRows
 *   mlo,mup: _modLower/_modUpper | _modLhs/_modRhs
 *   other, otheri: every vector / array the function has NO business with points here (unconstrained contents, not
 *            assignable): a body that reads or writes the wrong vector fails the contract. */
extern "C" void w_viol(Rational* lo, Rational* up, Rational* x, int* types, int* stat, Rational* mlo, Rational* mup,
                       Rational* other, int* otheri, int n, int maximizing_, Rational* viol)
{
   VIN("n", n); VIN("maximizing", maximizing_);
   RatLP lp; SolRational sol; H h;
   lp.nc = n; lp.nr = n;
   setv(lp.low, other, n, true); setv(lp.up, other, n, true); setv(lp.left, other, n, true); setv(lp.right, other, n, true);
   setv(sol._primal, other, n, true); setv(sol._slacks, other, n, true); setv(sol._dual, other, n, true); setv(sol._redCost, other, n, true);
   setv(h._modLower, other, n, false); setv(h._modUpper, other, n, false); setv(h._modLhs, other, n, false); setv(h._modRhs, other, n, false);
   h._colTypes.data = (Host::RangeType*)otheri; h._colTypes.thesize = n;
   h._rowTypes.data = (Host::RangeType*)otheri; h._rowTypes.thesize = n;
   h._basisStatusCols.data = (SPxSolverBase<R>::VarStatus*)otheri; h._basisStatusCols.thesize = n;
   h._basisStatusRows.data = (SPxSolverBase<R>::VarStatus*)otheri; h._basisStatusRows.thesize = n;
#if defined(KIND_BOUNDS)
   setv(lp.low, lo, n, true); setv(lp.up, up, n, true); setv(sol._primal, x, n, true);
   setv(h._modLower, mlo, n, false); setv(h._modUpper, mup, n, false);
   h._colTypes.data = (Host::RangeType*)types;
#elif defined(KIND_SIDES)
   setv(lp.left, lo, n, true); setv(lp.right, up, n, true); setv(sol._slacks, x, n, true);
   setv(h._modLhs, mlo, n, false); setv(h._modRhs, mup, n, false);
   h._rowTypes.data = (Host::RangeType*)types;
   h._basisStatusRows.data = (SPxSolverBase<R>::VarStatus*)stat;
#elif defined(KIND_REDCOST)
   setv(sol._redCost, x, n, true);
   h._colTypes.data = (Host::RangeType*)types;
   h._basisStatusCols.data = (SPxSolverBase<R>::VarStatus*)stat;
#elif defined(KIND_DUAL)
   setv(sol._dual, x, n, true);
   h._rowTypes.data = (Host::RangeType*)types;
   h._basisStatusRows.data = (SPxSolverBase<R>::VarStatus*)stat;
#endif
   bool maximizing = maximizing_ != 0;
   h._rationalLP = &lp; h.sol_ = &sol; h.viol_ = viol; h.max_ = &maximizing;
   gp_viol = viol; gp_mlo = mlo; gp_mup = mup;
   h.body();
}
#endif

#ifdef INST_OVER
struct H : Host
{
   bool body(bool& primalFeasible, bool& dualFeasible, Rational& boundsViolation, Rational& sideViolation,
             Rational& redCostViolation, Rational& dualViolation, int minIRRoundsRemaining, bool& stoppedTime,
             bool& stoppedIter, int numFailedRefinements)
   {
#include "_isRefinementOver.inc"
   }
};
/* viol4 = {boundsViolation, sideViolation, redCostViolation, dualViolation} (passed by non-const reference in the real
 * signature; not assignable here, so the contract proves they are not modified) */
extern "C" int w_over(int* primalFeasible, int* dualFeasible, Rational* viol4, Rational feastol, Rational opttol,
                      int minIRRoundsRemaining, int* stoppedTime, int* stoppedIter, int numFailedRefinements,
                      double timelimit, double infty, double now, int iterlimit, int reflimit, int stallreflimit,
                      int iterations, int refinements, int stallRefinements)
{
   VIN("minIRRoundsRemaining", minIRRoundsRemaining); VIN("numFailedRefinements", numFailedRefinements);
   TimerStub tm; Statistics st; SettingsStub set; H h;
   tm.now = now; st.solvingTime = &tm; st.iterations = iterations; st.refinements = refinements; st.stallRefinements = stallRefinements;
   set._realParamValues[SoPlexBase<R>::TIMELIMIT] = timelimit; set._realParamValues[SoPlexBase<R>::INFTY] = infty;
   set._intParamValues[SoPlexBase<R>::ITERLIMIT] = iterlimit; set._intParamValues[SoPlexBase<R>::REFLIMIT] = reflimit;
   set._intParamValues[SoPlexBase<R>::STALLREFLIMIT] = stallreflimit;
   h._statistics = &st; h._currentSettings = &set;
   h._rationalFeastol = feastol; h._rationalOpttol = opttol;
   bool pf = *primalFeasible != 0, df = *dualFeasible != 0, sT = *stoppedTime != 0, sI = *stoppedIter != 0;
   bool r = h.body(pf, df, viol4[0], viol4[1], viol4[2], viol4[3], minIRRoundsRemaining, sT, sI, numFailedRefinements);
   *primalFeasible = pf; *dualFeasible = df; *stoppedTime = sT; *stoppedIter = sI;
   return r ? 1 : 0;
}
#endif
