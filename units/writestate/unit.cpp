/* C14 "state files": SoPlexBase<R>::writeStateReal / writeStateRational cut verbatim from src/soplex.hpp.
 * Stubbed: std::string as far as `std::string(filename) + "<literal>"`, `=` and c_str() go (a string is the pair
 * <base C string, suffix literal>), and the three writers, which RECORD their arguments position by position. */
#include "verif.h"
#include "ws_ghost.h"

static inline int ws_suffix_of(const char* s)
{
   if(s[0] != '.') return SUF_other;
   if(s[1] == 's' && s[2] == 'e' && s[3] == 't' && s[4] == 0) return SUF_set;
   if(s[1] == 'l' && s[2] == 'p' && s[3] == 0) return SUF_lp;
   if(s[1] == 'm' && s[2] == 'p' && s[3] == 's' && s[4] == 0) return SUF_mps;
   if(s[1] == 'b' && s[2] == 'a' && s[3] == 's' && s[4] == 0) return SUF_bas;
   return SUF_other;
}

namespace std
{
struct string
{
   const void* base;
   int suf;
   string() { base = 0; suf = SUF_none; }
   string(const char* s) { base = s; suf = SUF_none; }
   string operator+(const char* s) const
   {
      string r;
      r.base = base;
      r.suf = (suf == SUF_none) ? ws_suffix_of(s) : SUF_other;
      return r;
   }
   const char* c_str() const
   {
      g_str_base = base;
      g_str_suf = suf;
      return g_cstr_token;
   }
};
}

struct NameSet { int dummy; };
struct DIdxSet { int dummy; };

static inline int ws_rec(int id, const void* obj, const char* name)
{
   int c = g_ncalls < WS_NC ? g_ncalls : WS_NC - 1;
   g_ncalls++;
   g_cid[c] = id;
   g_this[c] = obj;
   /* a name that is not the token c_str() handed out last is recorded as "not a composed name" */
   g_base[c] = (name == g_cstr_token) ? g_str_base : (const void*)name;
   g_suf[c] = (name == g_cstr_token) ? g_str_suf : (int)SUF_none;
   return c;
}

struct Host
{
   int dummy;
   bool saveSettingsFile(const char* filename, const bool onlyChanged = false, int solvemode = 1) const
   {
      ws_rec(WS_saveSettingsFile, this, filename);
      return true;
   }
   bool writeFileReal(const char* filename, const NameSet* rowNames = 0, const NameSet* colNames = 0,
                      const DIdxSet* intvars = 0, const bool unscale = true, const bool writeZeroObjective = false) const
   {
      int c = ws_rec(WS_writeFileReal, this, filename);
      g_rown[c] = rowNames; g_coln[c] = colNames; g_intv[c] = intvars; g_b1[c] = unscale; g_b2[c] = writeZeroObjective;
      return true;
   }
   bool writeFileRational(const char* filename, const NameSet* rowNames = 0, const NameSet* colNames = 0,
                          const DIdxSet* intvars = 0, const bool writeZeroObjective = false) const
   {
      int c = ws_rec(WS_writeFileRational, this, filename);
      g_rown[c] = rowNames; g_coln[c] = colNames; g_intv[c] = intvars; g_b1[c] = 1; g_b2[c] = writeZeroObjective;
      return true;
   }
   bool writeBasisFile(const char* filename, const NameSet* rowNames = 0, const NameSet* colNames = 0,
                       const bool cpxFormat = false) const
   {
      int c = ws_rec(WS_writeBasisFile, this, filename);
      g_rown[c] = rowNames; g_coln[c] = colNames; g_intv[c] = 0; g_b1[c] = cpxFormat; g_b2[c] = 0;
      return true;
   }

   void writeState(const char* filename, const NameSet* rowNames, const NameSet* colNames, const bool cpxFormat,
                   const bool writeZeroObjective) const
   {
#include SLICE
   }
};

extern "C" void w_writeState(const char* filename, const void* rowNames, const void* colNames, int cpxFormat,
                             int writeZeroObjective)
{
   Host h;
   g_this[WS_NC - 1] = 0;
   h.writeState(filename, (const NameSet*)rowNames, (const NameSet*)colNames, cpxFormat != 0, writeZeroObjective != 0);
}
