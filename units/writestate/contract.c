/* C14: "writeState* writes <name>.set, <name>.lp|.mps and <name>.bas for the SAME problem with the SAME names":
 * the three writers are called once each, in that order, the LP writer and the basis writer get the row names in the
 * row-names position and the column names in the column-names position, the format flag reaches both. */
#include "verif_c.h"
#include "ws_ghost.h"

int         g_ncalls;
int         g_cid[WS_NC];
const void* g_this[WS_NC];
const void* g_base[WS_NC];
int         g_suf[WS_NC];
const void* g_rown[WS_NC];
const void* g_coln[WS_NC];
const void* g_intv[WS_NC];
int         g_b1[WS_NC];
int         g_b2[WS_NC];
const void* g_str_base;
int         g_str_suf;
char        g_cstr_token[1];

#define LEDGER g_ncalls, __CPROVER_object_whole(g_cid), __CPROVER_object_whole(g_this), __CPROVER_object_whole(g_base), \
   __CPROVER_object_whole(g_suf), __CPROVER_object_whole(g_rown), __CPROVER_object_whole(g_coln), \
   __CPROVER_object_whole(g_intv), __CPROVER_object_whole(g_b1), __CPROVER_object_whole(g_b2), g_str_base, g_str_suf

void w_writeState(const char* filename, const void* rowNames, const void* colNames, int cpxFormat, int writeZeroObjective)
__CPROVER_requires(g_ncalls == 0)
__CPROVER_requires(__CPROVER_is_fresh(filename, 8))
__CPROVER_requires(cpxFormat == 0 || cpxFormat == 1)
__CPROVER_requires(writeZeroObjective == 0 || writeZeroObjective == 1)
__CPROVER_assigns(LEDGER)
/* three files, in the documented order */
__CPROVER_ensures(g_ncalls == 3)
__CPROVER_ensures(g_cid[0] == WS_saveSettingsFile && g_cid[1] == LPWRITER && g_cid[2] == WS_writeBasisFile)
__CPROVER_ensures(g_this[0] == g_this[1] && g_this[1] == g_this[2])
/* file names: <filename>.set, <filename>.lp | .mps according to cpxFormat, <filename>.bas */
__CPROVER_ensures(g_base[0] == filename && g_base[1] == filename && g_base[2] == filename)
__CPROVER_ensures(g_suf[0] == SUF_set && g_suf[1] == (cpxFormat ? SUF_lp : SUF_mps) && g_suf[2] == SUF_bas)
/* the LP and the basis are written with the caller's names, rows as rows and columns as columns */
__CPROVER_ensures(g_rown[1] == rowNames && g_coln[1] == colNames)
__CPROVER_ensures(g_rown[2] == rowNames && g_coln[2] == colNames)
/* no integrality marks are invented; the real LP is written unscaled; flags reach the writers */
__CPROVER_ensures(g_intv[1] == 0 && g_b1[1] == 1 && g_b2[1] == writeZeroObjective)
__CPROVER_ensures(g_b1[2] == cpxFormat)
;

void h_writeState(void)
{
   const char* filename;
   const void* rowNames;
   const void* colNames;
   int cpxFormat, writeZeroObjective;
   g_ncalls = 0;
   __CPROVER_input("cpxFormat", cpxFormat);
   w_writeState(filename, rowNames, colNames, cpxFormat, writeZeroObjective);
   CANARY();
}
