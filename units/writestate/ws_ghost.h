/* C14: ghost state shared by unit.cpp (C++) and contract.c (C): which writer was called with which arguments */
#ifndef WS_GHOST_H
#define WS_GHOST_H
#ifdef __cplusplus
extern "C" {
#endif
enum ws_call { WS_none = 0, WS_saveSettingsFile, WS_writeFileReal, WS_writeFileRational, WS_writeBasisFile };
enum ws_suffix { SUF_none = 0, SUF_set, SUF_lp, SUF_mps, SUF_bas, SUF_other };
#define WS_NC 4
extern int         g_ncalls;
extern int         g_cid[WS_NC];          /* which writer                                                */
extern const void* g_this[WS_NC];         /* on which object                                             */
extern const void* g_base[WS_NC];         /* file name = <this C string> ...                             */
extern int         g_suf[WS_NC];          /*             ... + <this suffix>; SUF_none: not a stub string */
extern const void* g_rown[WS_NC];         /* argument in the ROW-names position                          */
extern const void* g_coln[WS_NC];         /* argument in the COLUMN-names position                       */
extern const void* g_intv[WS_NC];         /* intVars argument (writeFile*)                               */
extern int         g_b1[WS_NC];           /* unscale (writeFileReal) / cpxFormat (writeBasisFile)        */
extern int         g_b2[WS_NC];           /* writeZeroObjective (writeFile*)                             */
/* the one live std::string `ofname` */
extern const void* g_str_base;
extern int         g_str_suf;
extern char        g_cstr_token[1];       /* what c_str() hands out; the writers look the name up in g_str_* */
#ifdef __cplusplus
}
#endif
#endif
